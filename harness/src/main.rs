//! Correspondence harness: executes an operation script on the real `wayfind` crate (built from
//! /repo's working tree with the `verif` feature) and prints one trace line per observation.
//! Script and trace formats: see /verif/DESIGN.md section 5.2 and coq/Check/Events.v.

use std::collections::HashMap;
use std::fmt::Write as _;
use std::io::{BufRead, Write};
use std::net::{Ipv4Addr, Ipv6Addr};
use std::panic::{catch_unwind, AssertUnwindSafe};

use wayfind::errors::{ConstraintError, DeleteError, InsertError, TemplateError};
use wayfind::verif::{NodeDump, PartDump};
use wayfind::{Constraint, Router};

mod cons;
use cons::{DupU8, Even, Lower, Lower2, NoA, Uni};

/// The name constraint of the OCI example, compiled from /repo's current source.
#[path = "/repo/examples/oci/src/constraints/name.rs"]
mod oci_name;
use oci_name::NameConstraint;

fn hex(b: &[u8]) -> String {
    let mut s = String::with_capacity(1 + 2 * b.len());
    s.push('x');
    for x in b {
        write!(s, "{x:02x}").unwrap();
    }
    s
}

fn unhex(t: &str) -> Vec<u8> {
    let t = t.strip_prefix('x').expect("hex token");
    (0..t.len() / 2)
        .map(|i| u8::from_str_radix(&t[2 * i..2 * i + 2], 16).unwrap())
        .collect()
}

fn opt_hex(o: Option<&str>) -> String {
    match o {
        Some(s) => format!("S {}", hex(s.as_bytes())),
        None => "N".to_owned(),
    }
}

fn terr(e: &TemplateError) -> String {
    use TemplateError as T;
    let h = |s: &String| hex(s.as_bytes());
    match e {
        T::Empty => "e0".to_owned(),
        T::MissingLeadingSlash { template } => format!("e1 {}", h(template)),
        T::EmptyBraces { template, position } => format!("e2 {} {position}", h(template)),
        T::UnbalancedBrace { template, position } => format!("e3 {} {position}", h(template)),
        T::EmptyParentheses { template, position } => format!("e4 {} {position}", h(template)),
        T::UnbalancedParenthesis { template, position } => format!("e5 {} {position}", h(template)),
        T::EmptyParameter { template, start, length } => format!("e6 {} {start} {length}", h(template)),
        T::InvalidParameter { template, name, start, length } => {
            format!("e7 {} {} {start} {length}", h(template), h(name))
        }
        T::DuplicateParameter { template, name, first, first_length, second, second_length } => format!(
            "e8 {} {} {first} {first_length} {second} {second_length}",
            h(template),
            h(name)
        ),
        T::EmptyWildcard { template, start, length } => format!("e9 {} {start} {length}", h(template)),
        T::EmptyConstraint { template, start, length } => format!("e10 {} {start} {length}", h(template)),
        T::InvalidConstraint { template, name, start, length } => {
            format!("e11 {} {} {start} {length}", h(template), h(name))
        }
        T::TouchingParameters { template, start, length } => format!("e12 {} {start} {length}", h(template)),
    }
}

fn dump(n: &NodeDump, out: &mut String) {
    out.push_str("n ");
    match &n.data {
        None => out.push_str("N "),
        Some(d) => {
            write!(
                out,
                "D {} {} {} {} {} ",
                d.data,
                hex(d.template.as_bytes()),
                opt_hex(d.expanded.as_deref()),
                d.depth,
                d.length
            )
            .unwrap();
        }
    }
    write!(
        out,
        "{} {} {} ",
        u8::from(n.dynamic_children_shortcut),
        u8::from(n.wildcard_children_shortcut),
        u8::from(n.needs_optimization)
    )
    .unwrap();
    for kids in &n.children {
        write!(out, "{} ", kids.len()).unwrap();
        for c in kids {
            write!(out, "{} {} ", hex(&c.key), opt_hex(c.constraint.as_deref())).unwrap();
            dump(c, out);
        }
    }
}

/// C16: the shared-data view of the whole family: for every stored node that holds `NodeData::Shared`, the router
/// it is in, its template, the identity of the `Arc` (numbered by first appearance in this line) and its strong count.
fn arcs_line(routers: &HashMap<String, Router<u32>>) -> String {
    fn walk(n: &NodeDump, slot: &str, acc: &mut Vec<(String, String, usize, usize)>) {
        if let Some(d) = &n.data {
            if let Some((ptr, count)) = d.arc {
                acc.push((slot.to_owned(), hex(d.template.as_bytes()), ptr, count));
            }
        }
        for kids in &n.children {
            for c in kids {
                walk(c, slot, acc);
            }
        }
    }
    let mut slots: Vec<&String> = routers.keys().collect();
    slots.sort_by_key(|s| s.parse::<u64>().unwrap_or(u64::MAX));
    let mut acc = Vec::new();
    for s in slots {
        let r = &routers[s];
        if catch_unwind(AssertUnwindSafe(|| walk(&r.verif_dump(&|d| u64::from(*d)), s, &mut acc))).is_err() {
            return "arcs-panic".to_owned();
        }
    }
    let mut ids: HashMap<usize, usize> = HashMap::new();
    let mut line = format!("arcs {}", acc.len());
    for (slot, tm, ptr, count) in acc {
        let next = ids.len();
        let id = *ids.entry(ptr).or_insert(next);
        write!(line, " {slot} {tm} {id} {count}").unwrap();
    }
    line
}

fn dump_and_display(r: &Router<u32>) -> String {
    match catch_unwind(AssertUnwindSafe(|| {
        let mut s = String::new();
        dump(&r.verif_dump(&|d| u64::from(*d)), &mut s);
        let disp = r.to_string();
        format!("{}{}", s, hex(disp.as_bytes()))
    })) {
        Ok(s) => s,
        Err(_) => "PANIC-IN-DUMP".to_owned(),
    }
}

fn register(r: &mut Router<u32>, ty: &str) -> (Result<(), ConstraintError>, &'static str, &'static str) {
    match ty {
        "lower" => (r.constraint::<Lower>(), Lower::NAME, std::any::type_name::<Lower>()),
        "even" => (r.constraint::<Even>(), Even::NAME, std::any::type_name::<Even>()),
        "noa" => (r.constraint::<NoA>(), NoA::NAME, std::any::type_name::<NoA>()),
        "lower2" => (r.constraint::<Lower2>(), Lower2::NAME, std::any::type_name::<Lower2>()),
        "dupu8" => (r.constraint::<DupU8>(), DupU8::NAME, std::any::type_name::<DupU8>()),
        "uni" => (r.constraint::<Uni>(), Uni::NAME, std::any::type_name::<Uni>()),
        _ => panic!("unknown constraint type id {ty}"),
    }
}

fn search_line(r: &Router<u32>, rid: &str, path: &[u8]) -> String {
    let p = std::str::from_utf8(path).expect("script paths are UTF-8");
    let res = catch_unwind(AssertUnwindSafe(|| {
        r.search(p).map(|m| {
            let mut s = format!(
                "some {} {} {} {}",
                hex(m.template.as_bytes()),
                opt_hex(m.expanded),
                m.data,
                m.parameters.len()
            );
            for (k, v) in &m.parameters {
                write!(s, " {} {}", hex(k.as_bytes()), hex(v.as_bytes())).unwrap();
            }
            s
        })
    }));
    match res {
        Ok(Some(s)) => format!("search {rid} {} {s}", hex(path)),
        Ok(None) => format!("search {rid} {} none", hex(path)),
        Err(_) => format!("search {rid} {} panic", hex(path)),
    }
}

fn builtin_line(name: &str, value: &[u8]) -> String {
    let v = std::str::from_utf8(value).unwrap();
    let mut r: Router<u32> = Router::new();
    let routed = r.insert(&format!("/{{v:{name}}}"), 1).is_ok() && {
        let path = format!("/{v}");
        // a value containing '/' or empty can never be captured by a dynamic parameter
        let found = r.search(&path).is_some();
        found
    };
    let direct = !v.is_empty()
        && !v.contains('/')
        && match name {
            "u8" => v.parse::<u8>().is_ok(),
            "u16" => v.parse::<u16>().is_ok(),
            "u32" => v.parse::<u32>().is_ok(),
            "u64" => v.parse::<u64>().is_ok(),
            "u128" => v.parse::<u128>().is_ok(),
            "usize" => v.parse::<usize>().is_ok(),
            "i8" => v.parse::<i8>().is_ok(),
            "i16" => v.parse::<i16>().is_ok(),
            "i32" => v.parse::<i32>().is_ok(),
            "i64" => v.parse::<i64>().is_ok(),
            "i128" => v.parse::<i128>().is_ok(),
            "isize" => v.parse::<isize>().is_ok(),
            "f32" => v.parse::<f32>().is_ok(),
            "f64" => v.parse::<f64>().is_ok(),
            "bool" => v.parse::<bool>().is_ok(),
            "ipv4" => v.parse::<Ipv4Addr>().is_ok(),
            "ipv6" => v.parse::<Ipv6Addr>().is_ok(),
            _ => false,
        };
    format!(
        "builtin {} {} {} {}",
        hex(name.as_bytes()),
        hex(value),
        u8::from(routed),
        u8::from(direct)
    )
}

/// C18: decided by rustc -- the harness does not build unless Router<T> is Send + Sync for such T.
fn assert_send_sync<T: Send + Sync>() {}

fn main() {
    assert_send_sync::<Router<u32>>();
    assert_send_sync::<Router<std::sync::Arc<String>>>();
    std::panic::set_hook(Box::new(|_| {}));
    let stdin = std::io::stdin();
    let stdout = std::io::stdout();
    let mut out = std::io::BufWriter::new(stdout.lock());
    let mut routers: HashMap<String, Router<u32>> = HashMap::new();
    // OCI example: one router per HTTP method, data = index into the handler table
    let mut oci: HashMap<String, Router<u32>> = HashMap::new();
    let mut oci_handlers: Vec<String> = Vec::new();

    for line in stdin.lock().lines() {
        let line = line.unwrap();
        let t: Vec<&str> = line.split_whitespace().collect();
        if t.is_empty() || t[0].starts_with('#') {
            continue;
        }
        // a router whose construction unwound does not exist: skip the calls addressed to it
        if matches!(t[0], "clone" | "cons" | "insert" | "delete" | "search" | "threads" | "dumpof") && !routers.contains_key(t[1])
            || matches!(t[0], "same") && !(routers.contains_key(t[1]) && routers.contains_key(t[2]))
        {
            continue;
        }
        match t[0] {
            "new" => match catch_unwind(Router::<u32>::new) {
                Ok(r) => {
                    routers.insert(t[1].to_owned(), r);
                    writeln!(out, "new {}", t[1]).unwrap();
                    writeln!(out, "{}", arcs_line(&routers)).unwrap();
                }
                Err(_) => {
                    routers.remove(t[1]);
                    writeln!(out, "newpanic {}", t[1]).unwrap();
                }
            },
            "clone" => {
                let c = routers[t[1]].clone();
                routers.insert(t[2].to_owned(), c);
                writeln!(out, "clone {} {}", t[1], t[2]).unwrap();
                writeln!(out, "dumpof {} {}", t[2], dump_and_display(&routers[t[2]])).unwrap();
                writeln!(out, "{}", arcs_line(&routers)).unwrap();
            }
            "cons" => {
                let r = routers.get_mut(t[1]).unwrap();
                let res = catch_unwind(AssertUnwindSafe(|| register(r, t[2])));
                match res {
                    Ok((res, name, ty)) => {
                        let (tok, rendered) = match &res {
                            Ok(()) => ("ok".to_owned(), String::new()),
                            Err(e @ ConstraintError::DuplicateName { name, existing_type, new_type }) => (
                                format!(
                                    "dup {} {} {}",
                                    hex(name.as_bytes()),
                                    hex(existing_type.as_bytes()),
                                    hex(new_type.as_bytes())
                                ),
                                e.to_string(),
                            ),
                        };
                        writeln!(
                            out,
                            "constraint {} {} {} {tok} {}",
                            t[1],
                            hex(name.as_bytes()),
                            hex(ty.as_bytes()),
                            hex(rendered.as_bytes())
                        )
                        .unwrap();
                    }
                    Err(_) => writeln!(out, "constraint {} x x panic x", t[1]).unwrap(),
                }
            }
            "insert" => {
                let r = routers.get_mut(t[1]).unwrap();
                let tm = unhex(t[2]);
                let tm = String::from_utf8(tm).expect("script templates are UTF-8");
                let d: u32 = t[3].parse().unwrap();
                let res = catch_unwind(AssertUnwindSafe(|| {
                    let res = r.insert(&tm, d);
                    let rendered = match &res {
                        Ok(()) => String::new(),
                        Err(e) => e.to_string(),
                    };
                    (res, rendered)
                }));
                let (tok, rendered) = match res {
                    Ok((Ok(()), s)) => ("ok".to_owned(), s),
                    Ok((Err(InsertError::Template(e)), s)) => (format!("terr {}", terr(&e)), s),
                    Ok((Err(InsertError::Conflict { template, conflicts }), s)) => {
                        let mut x = format!("conflict {} {}", hex(template.as_bytes()), conflicts.len());
                        for c in &conflicts {
                            write!(x, " {}", hex(c.as_bytes())).unwrap();
                        }
                        (x, s)
                    }
                    Ok((Err(InsertError::UnknownConstraint { constraint }), s)) => {
                        (format!("unknown {}", hex(constraint.as_bytes())), s)
                    }
                    Err(_) => ("panic".to_owned(), String::new()),
                };
                writeln!(
                    out,
                    "insert {} {} {d} {tok} {} {}",
                    t[1],
                    t[2],
                    hex(rendered.as_bytes()),
                    dump_and_display(r)
                )
                .unwrap();
                writeln!(out, "{}", arcs_line(&routers)).unwrap();
            }
            "delete" => {
                let r = routers.get_mut(t[1]).unwrap();
                let tm = String::from_utf8(unhex(t[2])).expect("script templates are UTF-8");
                let res = catch_unwind(AssertUnwindSafe(|| {
                    let res = r.delete(&tm);
                    let rendered = match &res {
                        Ok(_) => String::new(),
                        Err(e) => e.to_string(),
                    };
                    (res, rendered)
                }));
                let (tok, rendered) = match res {
                    Ok((Ok(d), s)) => (format!("ok {d}"), s),
                    Ok((Err(DeleteError::Template(e)), s)) => (format!("terr {}", terr(&e)), s),
                    Ok((Err(DeleteError::NotFound { template }), s)) => {
                        (format!("notfound {}", hex(template.as_bytes())), s)
                    }
                    Ok((Err(DeleteError::Mismatch { template, inserted }), s)) => (
                        format!("mismatch {} {}", hex(template.as_bytes()), hex(inserted.as_bytes())),
                        s,
                    ),
                    Err(_) => ("panic".to_owned(), String::new()),
                };
                writeln!(
                    out,
                    "delete {} {} {tok} {} {}",
                    t[1],
                    t[2],
                    hex(rendered.as_bytes()),
                    dump_and_display(r)
                )
                .unwrap();
                writeln!(out, "{}", arcs_line(&routers)).unwrap();
            }
            "search" => {
                let r = &routers[t[1]];
                writeln!(out, "{}", search_line(r, t[1], &unhex(t[2]))).unwrap();
            }
            // threads <rid> <nthreads> <rounds> <path>... : every thread searches every path on the shared
            // router, <rounds> times; a result line is printed for the first round and for every later
            // result that differs from the thread's first answer for that path
            "threads" => {
                let r = &routers[t[1]];
                let n: usize = t[2].parse().unwrap();
                let rounds: usize = t[3].parse().unwrap();
                let paths: Vec<Vec<u8>> = t[4..].iter().map(|p| unhex(p)).collect();
                let lines: Vec<Vec<String>> = std::thread::scope(|s| {
                    let hs: Vec<_> = (0..n)
                        .map(|k| {
                            let paths = &paths;
                            let rid = t[1];
                            s.spawn(move || {
                                let m = paths.len();
                                let first: Vec<String> =
                                    (0..m).map(|j| search_line(r, rid, &paths[(j + k) % m])).collect();
                                let mut out = first.clone();
                                for _ in 1..rounds {
                                    for j in 0..m {
                                        let l = search_line(r, rid, &paths[(j + k) % m]);
                                        if l != first[j] {
                                            out.push(l);
                                        }
                                    }
                                }
                                out
                            })
                        })
                        .collect();
                    hs.into_iter().map(|h| h.join().unwrap()).collect()
                });
                for l in lines.iter().flatten() {
                    writeln!(out, "{l}").unwrap();
                }
                writeln!(out, "dumpof {} {}", t[1], dump_and_display(r)).unwrap();
            }
            "dumpof" => {
                writeln!(out, "dumpof {} {}", t[1], dump_and_display(&routers[t[1]])).unwrap();
            }
            "same" => writeln!(out, "same {} {}", t[1], t[2]).unwrap(),
            "parse" => {
                let tm = unhex(t[1]);
                let res = catch_unwind(AssertUnwindSafe(|| {
                    let res = wayfind::verif::parse(&tm);
                    let rendered = match &res {
                        Ok(_) => String::new(),
                        Err(e) => e.to_string(),
                    };
                    (res, rendered)
                }));
                match res {
                    Ok((Ok(es), _)) => {
                        let mut s = format!("parse {} ok {}", t[1], es.len());
                        for (raw, parts) in &es {
                            write!(s, " {} {}", hex(raw), parts.len()).unwrap();
                            for p in parts {
                                match p {
                                    PartDump::Static(b) => write!(s, " s {}", hex(b)).unwrap(),
                                    PartDump::Dynamic(n, c) => {
                                        write!(s, " d {} {}", hex(n.as_bytes()), opt_hex(c.as_deref())).unwrap();
                                    }
                                    PartDump::Wildcard(n, c) => {
                                        write!(s, " w {} {}", hex(n.as_bytes()), opt_hex(c.as_deref())).unwrap();
                                    }
                                }
                            }
                        }
                        writeln!(out, "{s} x").unwrap();
                    }
                    Ok((Err(e), rendered)) => {
                        writeln!(out, "parse {} terr {} {}", t[1], terr(&e), hex(rendered.as_bytes())).unwrap();
                    }
                    Err(_) => writeln!(out, "parse {} panic x", t[1]).unwrap(),
                }
            }
            "builtin" => {
                let name = String::from_utf8(unhex(t[1])).unwrap();
                writeln!(out, "{}", builtin_line(&name, &unhex(t[2]))).unwrap();
            }
            // ocinew <path of routes.tsv>: build the example's routers from the regenerated table,
            // the way AppRouter::new / constraint / route do
            "ocinew" => {
                oci.clear();
                oci_handlers.clear();
                for m in ["GET", "POST", "PUT", "DELETE", "HEAD", "OPTIONS", "CONNECT", "PATCH", "TRACE"] {
                    let mut r: Router<u32> = Router::new();
                    r.constraint::<NameConstraint>().unwrap();
                    oci.insert(m.to_owned(), r);
                }
                let table = std::fs::read_to_string(t[1]).expect("routes table");
                for l in table.lines() {
                    let f: Vec<&str> = l.split('\t').collect();
                    let idx = u32::try_from(oci_handlers.len()).unwrap();
                    oci_handlers.push(f[2].to_owned());
                    oci.entry(f[0].to_owned())
                        .or_insert_with(|| {
                            let mut r: Router<u32> = Router::new();
                            r.constraint::<NameConstraint>().unwrap();
                            r
                        })
                        .insert(f[1], idx)
                        .unwrap();
                }
                writeln!(out, "# ocinew").unwrap();
            }
            "oci" => {
                let method = String::from_utf8(unhex(t[1])).unwrap();
                let url = String::from_utf8(unhex(t[2])).unwrap();
                let res = oci.get(&method).and_then(|r| {
                    r.search(&url).map(|m| {
                        let mut s = format!(
                            "S {} {}",
                            hex(oci_handlers[*m.data as usize].as_bytes()),
                            m.parameters.len()
                        );
                        for (k, v) in &m.parameters {
                            write!(s, " {} {}", hex(k.as_bytes()), hex(v.as_bytes())).unwrap();
                        }
                        s
                    })
                });
                writeln!(out, "oci {} {} {}", t[1], t[2], res.unwrap_or_else(|| "N".to_owned())).unwrap();
            }
            "ociname" => {
                let v = String::from_utf8(unhex(t[1])).unwrap();
                writeln!(out, "ociname {} {}", t[1], u8::from(NameConstraint::check(&v))).unwrap();
            }
            "end" => {
                routers.clear();
                writeln!(out, "end").unwrap();
            }
            other => panic!("unknown script op {other}"),
        }
    }
    out.flush().unwrap();
}
