//! Constraint types of the harness.  Same names and behaviour as coq/Model/Constraints.v.
use wayfind::Constraint;

/// "lower": every byte is an ASCII lowercase letter (accepts the empty string).
pub struct Lower;
impl Constraint for Lower {
    const NAME: &'static str = "lower";
    fn check(part: &str) -> bool {
        part.bytes().all(|b| b.is_ascii_lowercase())
    }
}

/// "even": even byte length (not prefix closed).
pub struct Even;
impl Constraint for Even {
    const NAME: &'static str = "even";
    fn check(part: &str) -> bool {
        part.len() % 2 == 0
    }
}

/// "noa": does not end in 'a'.
pub struct NoA;
impl Constraint for NoA {
    const NAME: &'static str = "noa";
    fn check(part: &str) -> bool {
        !part.ends_with('a')
    }
}

/// A second type under the name "lower" with a different function (accepts everything): whichever
/// of the two is registered first must stay in force.
pub struct Lower2;
impl Constraint for Lower2 {
    const NAME: &'static str = "lower";
    fn check(_part: &str) -> bool {
        true
    }
}

/// A type under the built-in name "u8" (duplicate registration against a built-in).
pub struct DupU8;
impl Constraint for DupU8 {
    const NAME: &'static str = "u8";
    fn check(_part: &str) -> bool {
        true
    }
}

/// A constraint whose NAME is not ASCII ("größe"): odd byte length.
pub struct Uni;
impl Constraint for Uni {
    const NAME: &'static str = "größe";
    fn check(part: &str) -> bool {
        part.len() % 2 == 1
    }
}
