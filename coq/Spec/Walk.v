(* The reference walk W: the documented priority walk over a plain list of routes.
   No tree, no flags, no history.  See DESIGN.md 4.3. *)
From WF Require Import Base.Bytes Base.Utf8 Spec.Route.

(* The six parameter kinds, in the documented order of attempts. *)
Inductive kind := KDC | KDY | KWC | KWI | KEC | KEN.
Definition all_kinds : list kind := [KDC; KDY; KWC; KWI; KEC; KEN].

Definition kind_eqb (a b : kind) : bool :=
  match a, b with
  | KDC, KDC | KDY, KDY | KWC, KWC | KWI, KWI | KEC, KEC | KEN, KEN => true
  | _, _ => false
  end.

(* key of a parameter alternative: name, then constraint name *)
Definition key := (bytes * option bytes)%type.
Definition keqb (a b : key) : bool := beqb (fst a) (fst b) && obeqb (snd a) (snd b).
Definition kcmp (a b : key) : comparison :=
  match bcmp (fst a) (fst b) with Eq => ocmp (snd a) (snd b) | c => c end.

(* Which alternative does a route start with?  A wildcard in last position is a catch-all. *)
Definition classify (r : route) : option (kind * key * route) :=
  match r with
  | AD n (Some c) :: r' => Some (KDC, (n, Some c), r')
  | AD n None :: r' => Some (KDY, (n, None), r')
  | AW n (Some c) :: [] => Some (KEC, (n, Some c), [])
  | AW n None :: [] => Some (KEN, (n, None), [])
  | AW n (Some c) :: r' => Some (KWC, (n, Some c), r')
  | AW n None :: r' => Some (KWI, (n, None), r')
  | _ => None
  end.

Definition key_of (k : kind) (ri : route * info) : option (key * (route * info)) :=
  match classify (fst ri) with
  | Some (k', ky, r') => if kind_eqb k k' then Some (ky, (r', snd ri)) else None
  | None => None
  end.

(* group routes by key, groups in increasing key order, routes inside a group in list order *)
Fixpoint ginsert (ky : key) (x : route * info) (gs : list (key * routes)) : list (key * routes) :=
  match gs with
  | [] => [(ky, [x])]
  | (k', g) :: gs' =>
    match kcmp ky k' with
    | Eq => (k', x :: g) :: gs'
    | Lt => (ky, [x]) :: gs
    | Gt => (k', g) :: ginsert ky x gs'
    end
  end.

Definition groups (k : kind) (rs : routes) : list (key * routes) :=
  fold_right (fun kx gs => ginsert (fst kx) (snd kx) gs) [] (filter_map (key_of k) rs).

(* strip one literal byte *)
Definition strip (b : byte) (ri : route * info) : option (route * info) :=
  match fst ri with
  | AB x :: r' => if N.eqb x b then Some (r', snd ri) else None
  | _ => None
  end.

(* path exhausted: the route with nothing left *)
Definition done (rs : routes) : res :=
  match filter_map (fun ri : route * info => match fst ri with [] => Some (snd ri) | _ => None end) rs with
  | i :: _ => Some (i, [])
  | [] => None
  end.

(* is the new continuation at least as good as the best so far? more '/', then longer text; ties: later wins *)
Definition better (a best : info) : bool :=
  match N.compare (i_depth a) (i_depth best) with
  | Gt => true
  | Eq => N.leb (i_length best) (i_length a)
  | Lt => false
  end.

Definition cand := (bytes * bytes)%type.      (* (value, rest of path) *)

(* every non-empty prefix by increasing length; a dynamic value stops before the first '/' *)
Fixpoint cands_from (dyn : bool) (pre rest : bytes) : list cand :=
  match rest with
  | [] => []
  | b :: r =>
    if dyn && N.eqb b SL then []
    else let pre' := pre ++ [b] in (pre', r) :: cands_from dyn pre' r
  end.

Definition is_dyn (k : kind) : bool := match k with KDC | KDY => true | _ => false end.
Definition is_end (k : kind) : bool := match k with KEC | KEN => true | _ => false end.

(* the values a parameter of this kind may take at the front of [path] *)
Definition cands (k : kind) (path : bytes) : list cand :=
  if is_end k then [(path, [])] else cands_from (is_dyn k) [] path.

Section W.
  Variable chk : bytes -> bytes -> bool.

  Definition ok (ky : key) (v : bytes) : bool := utf8_valid v && copt chk (snd ky) v.

  (* try the candidates in order, keep the best continuation *)
  Definition pick (srch : bytes -> res) (ky : key) (cs : list cand) : res :=
    fold_left (fun (best : res) (c : cand) =>
      if ok ky (fst c) then
        match srch (snd c) with
        | Some (i, ps) =>
          match best with
          | Some (bi, _) => if better i bi then Some (i, (fst ky, fst c) :: ps) else best
          | None => Some (i, (fst ky, fst c) :: ps)
          end
        | None => best
        end
      else best) cs None.

  Fixpoint walk (fuel : nat) (rs : routes) (path : bytes) {struct fuel} : res :=
    match fuel with
    | O => None
    | S f =>
      match path with
      | [] => done rs
      | b :: rest =>
        or_else (walk f (filter_map (strip b) rs) rest)
          (first_some (fun k =>
             first_some (fun kg : key * routes => pick (walk f (snd kg)) (fst kg) (cands k path))
                        (groups k rs))
             all_kinds)
      end
    end.

  Definition W (rs : routes) (path : bytes) : res := walk (S (length path)) rs path.
End W.
