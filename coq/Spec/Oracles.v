(* Executable (boolean) forms of the specification notions.  Proofs that they reflect the
   Prop-level definitions are in Proofs/. *)
From WF Require Import Base.Bytes Base.Utf8 Spec.Route Spec.Walk.

Section O.
  Variable chk : bytes -> bytes -> bool.

  (* does route r fit path p with exactly the values vs *)
  Fixpoint fits_with (r : route) (p : bytes) (vs : list bytes) {struct r} : bool :=
    match r with
    | [] => match p, vs with [], [] => true | _, _ => false end
    | AB b :: r' => match p with x :: p' => N.eqb x b && fits_with r' p' vs | [] => false end
    | AD n c :: r' =>
      match vs with
      | v :: vs' =>
        match v, starts_with v p with
        | _ :: _, Some rest =>
          negb (existsb (N.eqb SL) v) && utf8_valid v && copt chk c v && fits_with r' rest vs'
        | _, _ => false
        end
      | [] => false
      end
    | AW n c :: r' =>
      match vs with
      | v :: vs' =>
        match v, starts_with v p with
        | _ :: _, Some rest => utf8_valid v && copt chk c v && fits_with r' rest vs'
        | _, _ => false
        end
      | [] => false
      end
    end.

  (* does route r fit path p with some values: backtracking over every candidate value *)
  Fixpoint fits_b (r : route) (p : bytes) {struct r} : bool :=
    match r with
    | [] => match p with [] => true | _ => false end
    | AB b :: r' => match p with x :: p' => N.eqb x b && fits_b r' p' | [] => false end
    | AD n c :: r' =>
      existsb (fun cd : cand => utf8_valid (fst cd) && copt chk c (fst cd) && fits_b r' (snd cd))
              (cands_from true [] p)
    | AW n c :: r' =>
      existsb (fun cd : cand => utf8_valid (fst cd) && copt chk c (fst cd) && fits_b r' (snd cd))
              (cands_from false [] p)
    end.

  Definition any_fits_b (rs : routes) (p : bytes) : bool :=
    existsb (fun ri : route * info => fits_b (fst ri) p) rs.

  Definition list_beqb (a b : list bytes) : bool :=
    (fix go (a b : list bytes) := match a, b with
       | [], [] => true | x :: a', y :: b' => beqb x y && go a' b' | _, _ => false end) a b.

  Definition info_eqb (a b : info) : bool :=
    beqb (i_template a) (i_template b) && obeqb (i_expanded a) (i_expanded b)
    && N.eqb (i_depth a) (i_depth b) && N.eqb (i_length a) (i_length b) && N.eqb (i_data a) (i_data b).

  (* C01: the reported match is one of the live routes, laid over the path with the reported values *)
  Definition genuine_b (rs : routes) (p : bytes) (i : info) (ps : params) : bool :=
    existsb (fun ri : route * info =>
               info_eqb (snd ri) i
               && list_beqb (param_names (fst ri)) (map fst ps)
               && fits_with (fst ri) p (map snd ps)) rs.

  (* C12: leftmost-longest.  vs fits, and no strictly longer value at any position k (earlier
     values fixed) admits a fit of the remaining route. *)
  Fixpoint leftmost_longest_b (r : route) (p : bytes) (vs : list bytes) {struct r} : bool :=
    match r with
    | [] => match p, vs with [], [] => true | _, _ => false end
    | AB b :: r' => match p with x :: p' => N.eqb x b && leftmost_longest_b r' p' vs | [] => false end
    | AD n c :: r' =>
      match vs with
      | v :: vs' =>
        match starts_with v p with
        | Some rest =>
          negb (existsb (fun cd : cand =>
                  Nat.ltb (length v) (length (fst cd)) && utf8_valid (fst cd) && copt chk c (fst cd)
                  && fits_b r' (snd cd)) (cands_from true [] p))
          && leftmost_longest_b r' rest vs'
        | None => false
        end
      | [] => false
      end
    | AW n c :: r' =>
      match vs with
      | v :: vs' =>
        match starts_with v p with
        | Some rest =>
          negb (existsb (fun cd : cand =>
                  Nat.ltb (length v) (length (fst cd)) && utf8_valid (fst cd) && copt chk c (fst cd)
                  && fits_b r' (snd cd)) (cands_from false [] p))
          && leftmost_longest_b r' rest vs'
        | None => false
        end
      | [] => false
      end
    end.
End O.
