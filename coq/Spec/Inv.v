(* Decidable structural invariant of node trees.  [inv_b] is the hypothesis of the refinement
   theorem (search = W on the routes of the tree); [canonical_b] is the shape C15 talks about.
   Both are evaluated on the dump of the real tree at run time. *)
From WF Require Import Base.Bytes Base.Utf8 Spec.Route Spec.Walk Model.Tree.

Definition is_nil {A} (l : list A) : bool := match l with [] => true | _ => false end.

(* strictly increasing keys *)
Fixpoint strictly_sorted (l : list (key * node)) : bool :=
  match l with
  | [] => true
  | x :: l' =>
    match l' with
    | [] => true
    | y :: _ => match kcmp (fst x) (fst y) with Lt => true | _ => false end
    end && strictly_sorted l'
  end.

Definition key_kind_ok (k : kind) (ky : key) : bool :=
  match k, snd ky with
  | (KDC | KWC | KEC), Some _ => true
  | (KDY | KWI | KEN), None => true
  | _, _ => false
  end.

Definition first_byte (ky : key) : option byte := match fst ky with b :: _ => Some b | [] => None end.

(* static keys: non-empty prefix, no constraint, pairwise different first bytes *)
Fixpoint static_keys_ok (l : list (key * node)) : bool :=
  match l with
  | [] => true
  | x :: l' =>
    match first_byte (fst x), snd (fst x) with
    | Some b, None =>
      negb (existsb (fun y : key * node => match first_byte (fst y) with Some b' => N.eqb b b' | None => true end) l')
    | _, _ => false
    end && static_keys_ok l'
  end.

Definition only_static_kids (n : node) : bool :=
  is_nil (n_dc n) && is_nil (n_dy n) && is_nil (n_wc n) && is_nil (n_wi n) && is_nil (n_ec n) && is_nil (n_en n).

Definition slash_ok (n : node) : bool :=
  forallb (fun kc : key * node => hd_is SL (fst (fst kc))) (n_st n).

Definition has_data (n : node) : bool := match n_data n with Some _ => true | None => false end.

Fixpoint inv_b (n : node) {struct n} : bool :=
  let mid (k : kind) (l : list (key * node)) :=
    strictly_sorted l
    && forallb (fun kc : key * node =>
         key_kind_ok k (fst kc) && only_static_kids (snd kc)
         && (if is_dyn k then true else negb (has_data (snd kc)))
         && negb (is_nil (routes_of (snd kc)))
         && inv_b (snd kc)) l in
  let ends (k : kind) (l : list (key * node)) :=
    strictly_sorted l
    && forallb (fun kc : key * node => key_kind_ok k (fst kc) && has_data (snd kc)) l in
  static_keys_ok (n_st n)
  && forallb (fun kc : key * node => inv_b (snd kc)) (n_st n)
  && mid KDC (n_dc n) && mid KDY (n_dy n) && mid KWC (n_wc n) && mid KWI (n_wi n)
  && ends KEC (n_ec n) && ends KEN (n_en n)
  && implb (n_dflag n) (forallb (fun kc : key * node => slash_ok (snd kc)) (n_dc n ++ n_dy n))
  && implb (n_wflag n) (forallb (fun kc : key * node => slash_ok (snd kc)) (n_wc n ++ n_wi n)).

(* ---- canonical shape (C15) ---- *)
Definition no_kids_b (n : node) : bool :=
  is_nil (n_st n) && only_static_kids n.

Definition compressible_b (n : node) : bool :=
  negb (has_data n) && only_static_kids n && match n_st n with [_] => true | _ => false end.

(* for every node below the root: not empty, every list strictly sorted; static nodes not compressible;
   end-wildcard nodes have no children *)
Fixpoint canon_node (is_static : bool) (n : node) {struct n} : bool :=
  let sub (st : bool) (l : list (key * node)) :=
    strictly_sorted l && forallb (fun kc : key * node => canon_node st (snd kc)) l in
  let ends (l : list (key * node)) :=
    strictly_sorted l && forallb (fun kc : key * node => has_data (snd kc) && no_kids_b (snd kc)) l in
  (has_data n || negb (no_kids_b n))
  && negb (is_static && compressible_b n)
  && sub true (n_st n) && sub false (n_dc n) && sub false (n_dy n) && sub false (n_wc n) && sub false (n_wi n)
  && ends (n_ec n) && ends (n_en n).

Definition canonical_b (root : node) : bool :=
  negb (has_data root) && only_static_kids root
  && match n_st root with
     | [] => true
     | [kc] => canon_node true (snd kc)
     | _ => false
     end.

(* ---- the invariant split in three: structure, order-and-flags, dirty discipline ----
   [wf]   structure that insert/delete/optimize all preserve (no order, no flags, no dirty marks)
   [tidy] every child list strictly sorted and every stored-true flag justified, hereditarily
   [disc] the dirty discipline that holds between Node::insert and optimize: a clean node is tidy;
          below a dirty node the discipline holds again *)
Definition key_ok (k : kind) (ky : key) : bool := key_kind_ok k ky && negb (hd_is SL (fst ky)).

Fixpoint keys_nodup (l : list (key * node)) : bool :=
  match l with
  | [] => true
  | x :: l' => negb (existsb (fun y : key * node => keqb (fst x) (fst y)) l') && keys_nodup l'
  end.

Definition alive (n : node) : bool := has_data n || negb (no_kids_b n).

Fixpoint wf (n : node) {struct n} : bool :=
  let mid (k : kind) (l : list (key * node)) :=
    keys_nodup l
    && forallb (fun kc : key * node =>
         key_ok k (fst kc) && only_static_kids (snd kc)
         && (if is_dyn k then true else negb (has_data (snd kc)))
         && alive (snd kc) && wf (snd kc)) l in
  let ends (k : kind) (l : list (key * node)) :=
    keys_nodup l
    && forallb (fun kc : key * node => key_ok k (fst kc) && has_data (snd kc) && no_kids_b (snd kc)) l in
  static_keys_ok (n_st n)
  && forallb (fun kc : key * node => alive (snd kc) && wf (snd kc)) (n_st n)
  && mid KDC (n_dc n) && mid KDY (n_dy n) && mid KWC (n_wc n) && mid KWI (n_wi n)
  && ends KEC (n_ec n) && ends KEN (n_en n).

Definition flags_ok (n : node) : bool :=
  implb (n_dflag n) (forallb (fun kc : key * node => slash_ok (snd kc)) (n_dc n ++ n_dy n))
  && implb (n_wflag n) (forallb (fun kc : key * node => slash_ok (snd kc)) (n_wc n ++ n_wi n)).

Definition lists_sorted (n : node) : bool :=
  strictly_sorted (n_st n) && strictly_sorted (n_dc n) && strictly_sorted (n_dy n)
  && strictly_sorted (n_wc n) && strictly_sorted (n_wi n) && strictly_sorted (n_ec n) && strictly_sorted (n_en n).

Fixpoint tidy (n : node) {struct n} : bool :=
  let sub (l : list (key * node)) := forallb (fun kc : key * node => tidy (snd kc)) l in
  lists_sorted n && flags_ok n
  && sub (n_st n) && sub (n_dc n) && sub (n_dy n) && sub (n_wc n) && sub (n_wi n) && sub (n_ec n) && sub (n_en n).

Fixpoint disc (n : node) {struct n} : bool :=
  let sub (l : list (key * node)) := forallb (fun kc : key * node => disc (snd kc)) l in
  if n_dirty n
  then sub (n_st n) && sub (n_dc n) && sub (n_dy n) && sub (n_wc n) && sub (n_wi n) && sub (n_ec n) && sub (n_en n)
  else tidy n.
