(* Routes as flat atom lists, route information, and what it means for a route to fit a path. *)
From WF Require Import Base.Bytes Base.Utf8.

(* One literal byte, a dynamic parameter, or a wildcard parameter (name, optional constraint). *)
Inductive atom :=
| AB (b : byte)
| AD (n : bytes) (c : option bytes)
| AW (n : bytes) (c : option bytes).

Definition route := list atom.

(* What a match reports. depth = number of '/' in the expansion text, length = its byte length. *)
Record info := Info {
  i_template : bytes;
  i_expanded : option bytes;
  i_depth : N;
  i_length : N;
  i_data : N }.

Definition routes := list (route * info).
Definition params := list (bytes * bytes).        (* (name, value), left to right *)
Definition res := option (info * params).

(* parser-level parts (static text already unescaped) *)
Inductive part :=
| PS (s : bytes)
| PD (n : bytes) (c : option bytes)
| PW (n : bytes) (c : option bytes).

Definition atoms_of_part (p : part) : route :=
  match p with
  | PS s => map AB s
  | PD n c => [AD n c]
  | PW n c => [AW n c]
  end.

Definition atoms_of (ps : list part) : route := flat_map atoms_of_part ps.

Fixpoint param_names (r : route) : list bytes :=
  match r with
  | [] => []
  | AB _ :: r' => param_names r'
  | AD n _ :: r' => n :: param_names r'
  | AW n _ :: r' => n :: param_names r'
  end.

Section Fits.
  (* chk c v : does the constraint registered under name c accept v.  Any predicate. *)
  Variable chk : bytes -> bytes -> bool.

  Definition copt (c : option bytes) (v : bytes) : bool :=
    match c with Some c => chk c v | None => true end.

  (* [fits r p vs]: route r can be laid over path p with parameter values vs (left to right). *)
  Inductive fits : route -> bytes -> list bytes -> Prop :=
  | F_nil : fits [] [] []
  | F_byte b r rest vs : fits r rest vs -> fits (AB b :: r) (b :: rest) vs
  | F_dyn n c r v rest vs :
      v <> [] -> ~ In SL v -> utf8_valid v = true -> copt c v = true ->
      fits r rest vs -> fits (AD n c :: r) (v ++ rest) (v :: vs)
  | F_wild n c r v rest vs :
      v <> [] -> utf8_valid v = true -> copt c v = true ->
      fits r rest vs -> fits (AW n c :: r) (v ++ rest) (v :: vs).
End Fits.
