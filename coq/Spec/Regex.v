(* A small regular-expression language - the subset the OCI example's name constraint is written in - with its
   standard denotational semantics, and a parser for the concrete syntax (anchors ^ $, groups, |, postfix + *,
   classes like [a-z0-9], escapes).  No proofs here. *)
From WF Require Import Base.Bytes.
Local Open Scope N_scope.

Inductive re :=
| Eps
| Cls (ranges : list (N * N))      (* one byte within one of the inclusive ranges *)
| Cat (a b : re)
| Alt (a b : re)
| Star (a : re)
| Plus (a : re).

Definition in_cls (ranges : list (N * N)) (b : N) : bool :=
  existsb (fun r : N * N => (fst r <=? b) && (b <=? snd r)) ranges.

(* s is in the language of r *)
Inductive M : re -> bytes -> Prop :=
| M_eps : M Eps []
| M_cls rs b : in_cls rs b = true -> M (Cls rs) [b]
| M_cat a b s t : M a s -> M b t -> M (Cat a b) (s ++ t)
| M_alt_l a b s : M a s -> M (Alt a b) s
| M_alt_r a b s : M b s -> M (Alt a b) s
| M_star_nil a : M (Star a) []
| M_star_cons a s t : M a s -> M (Star a) t -> M (Star a) (s ++ t)
| M_plus a s t : M a s -> M (Star a) t -> M (Plus a) (s ++ t).

(* ---- concrete syntax ---- *)
(* alt := cat ('|' cat)* ; cat := rep* ; rep := atom ('+' | '*')* ; atom := '(' alt ')' | '[' ranges ']' | '\' c | c *)
Definition lit (b : N) : re := Cls [(b, b)].

Fixpoint pranges (fuel : nat) (s : bytes) (acc : list (N * N)) : option (list (N * N) * bytes) :=
  match fuel with
  | O => None
  | S f =>
    match s with
    | 93 :: rest => Some (rev acc, rest)                                  (* ] *)
    | a :: 45 :: 93 :: rest => Some (rev ((45, 45) :: (a, a) :: acc), rest) (* trailing '-' is literal *)
    | a :: 45 :: b :: rest => pranges f rest ((a, b) :: acc)              (* a-b *)
    | a :: rest => pranges f rest ((a, a) :: acc)
    | [] => None
    end
  end.

Fixpoint preps (r : re) (s : bytes) : re * bytes :=
  match s with
  | 43 :: rest => preps (Plus r) rest      (* + *)
  | 42 :: rest => preps (Star r) rest      (* * *)
  | _ => (r, s)
  end.

Fixpoint palt (fuel : nat) (s : bytes) : option (re * bytes) :=
  match fuel with
  | O => None
  | S f =>
    let patom (s : bytes) : option (re * bytes) :=
      match s with
      | 40 :: rest =>                                   (* ( *)
        match palt f rest with
        | Some (r, 41 :: rest') => Some (r, rest')      (* ) *)
        | _ => None
        end
      | 91 :: rest =>                                   (* [ *)
        match pranges (S (length rest)) rest [] with
        | Some (rs, rest') => Some (Cls rs, rest')
        | None => None
        end
      | 92 :: c :: rest => Some (lit c, rest)           (* \c *)
      | c :: rest => Some (lit c, rest)
      | [] => None
      end in
    let fix pcat (k : nat) (s : bytes) (acc : option re) : option (re * bytes) :=
      match k with
      | O => None
      | S k' =>
        match s with
        | [] | 41 :: _ | 124 :: _ => Some (match acc with Some r => r | None => Eps end, s)
        | _ =>
          match patom s with
          | Some (a, rest) =>
            let '(a', rest') := preps a rest in
            pcat k' rest' (Some (match acc with Some r => Cat r a' | None => a' end))
          | None => None
          end
        end
      end in
    match pcat (S (length s)) s None with
    | Some (r, 124 :: rest) =>                          (* | *)
      match palt f rest with
      | Some (r2, rest') => Some (Alt r r2, rest')
      | None => None
      end
    | x => x
    end
  end.

(* an anchored pattern ^...$ : the language of the whole string *)
Definition parse_anchored (s : bytes) : option re :=
  match s with
  | 94 :: body =>
    match rev body with
    | 36 :: rb =>
      match palt (S (length body)) (rev rb) with
      | Some (r, []) => Some r
      | _ => None
      end
    | _ => None
    end
  | _ => None
  end.
