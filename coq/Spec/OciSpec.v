(* The OCI distribution-spec endpoints end-1 .. end-10 as far as routing is concerned:
   repository-name grammar, URL shapes, and which handler each (method, shape) must reach. *)
From Coq Require Import Ascii String.
From WF Require Import Base.Bytes Spec.Route.
Local Open Scope N_scope.

Definition w (s : string) : bytes := map N_of_ascii (list_ascii_of_string s).

Definition alnum (b : byte) : bool := ((97 <=? b) && (b <=? 122)) || ((48 <=? b) && (b <=? 57)).

(* one path component: [a-z0-9]+ ((\.|_|__|-+) [a-z0-9]+)*   -- state machine over the bytes.
   st: 0 = start (need alnum), 1 = in alnum run, 2 = after '.', 3 = after '_', 4 = after '__', 5 = in '-' run *)
Fixpoint comp_ok (s : bytes) (st : N) : bool :=
  match s with
  | [] => st =? 1
  | b :: s' =>
    if alnum b then comp_ok s' 1
    else if b =? 46 then (st =? 1) && comp_ok s' 2          (* . *)
    else if b =? 95 then                                     (* _ *)
      if st =? 1 then comp_ok s' 3 else if st =? 3 then comp_ok s' 4 else false
    else if b =? 45 then                                     (* - *)
      if (st =? 1) || (st =? 5) then comp_ok s' 5 else false
    else false
  end.

Fixpoint split_slash (s : bytes) (cur : bytes) : list bytes :=
  match s with
  | [] => [rev cur]
  | b :: s' => if b =? 47 then rev cur :: split_slash s' [] else split_slash s' (b :: cur)
  end.

(* the repository-name grammar of the distribution specification *)
Definition name_ok (s : bytes) : bool :=
  forallb (fun c => comp_ok c 0) (split_slash s []).

Inductive shape := ShRoot | ShBlob | ShManifest | ShUploads | ShUpload | ShTags.

(* decompose a URL: (shape, name, last parameter).  Segments after "/v2"; an optional trailing '/'
   is ignored.  The name is everything between "/v2/" and the keyword tail. *)
Definition strip_trailing_slash (s : bytes) : bytes :=
  match rev s with 47 :: r => rev r | _ => s end.

Definition join_slash (l : list bytes) : bytes :=
  match l with
  | [] => []
  | x :: l' => x ++ flat_map (fun y => 47 :: y) l'
  end.

Definition token_ok (t : bytes) : bool := match t with [] => false | _ => negb (existsb (N.eqb 47) t) end.

(* all readings of a URL as one of the six shapes (a URL can have several: names may contain
   the keywords); the router must pick per the documented walk, so the checker only requires the
   reported match to be one of the readings and a match to exist iff a reading exists *)
Definition readings (url : bytes) : list (shape * bytes * option bytes) :=
  match strip_trailing_slash url with
  | 47 :: 118 :: 50 :: rest =>            (* "/v2" *)
    match rest with
    | [] => [(ShRoot, [], None)]
    | 47 :: rest' =>
      let segs := split_slash rest' [] in
      let n := length segs in
      let nm k := join_slash (firstn k segs) in
      let seg k := nth k segs [] in
      (if Nat.leb 3 n && beqb (seg (n - 2)%nat) (w "blobs"%string) && token_ok (seg (n - 1)%nat) && name_ok (nm (n - 2)%nat)
       then [(ShBlob, nm (n - 2)%nat, Some (seg (n - 1)%nat))] else [])
      ++ (if Nat.leb 3 n && beqb (seg (n - 2)%nat) (w "manifests"%string) && token_ok (seg (n - 1)%nat) && name_ok (nm (n - 2)%nat)
          then [(ShManifest, nm (n - 2)%nat, Some (seg (n - 1)%nat))] else [])
      ++ (if Nat.leb 3 n && beqb (seg (n - 2)%nat) (w "blobs"%string) && beqb (seg (n - 1)%nat) (w "uploads"%string) && name_ok (nm (n - 2)%nat)
          then [(ShUploads, nm (n - 2)%nat, None)] else [])
      ++ (if Nat.leb 4 n && beqb (seg (n - 3)%nat) (w "blobs"%string) && beqb (seg (n - 2)%nat) (w "uploads"%string) && token_ok (seg (n - 1)%nat) && name_ok (nm (n - 3)%nat)
          then [(ShUpload, nm (n - 3)%nat, Some (seg (n - 1)%nat))] else [])
      ++ (if Nat.leb 3 n && beqb (seg (n - 2)%nat) (w "tags"%string) && beqb (seg (n - 1)%nat) (w "list"%string) && name_ok (nm (n - 2)%nat)
          then [(ShTags, nm (n - 2)%nat, None)] else [])
    | _ => []
    end
  | _ => []
  end.

(* end-1 .. end-10: the handler each method must reach for each shape (None: the specification
   defines no such endpoint among end-1..end-10) *)
Definition spec_handler (method : bytes) (sh : shape) : option bytes :=
  let m (s : string) := beqb method (w s) in
  match sh with
  | ShRoot => if m "GET"%string then Some (w "root::handle_root_get"%string) else None                      (* end-1 *)
  | ShBlob =>
    if m "GET"%string || m "HEAD"%string then Some (w "blob::handle_blob_pull"%string)                               (* end-2 *)
    else if m "DELETE"%string then Some (w "blob::handle_blob_delete"%string) else None                       (* end-10 *)
  | ShManifest =>
    if m "GET"%string || m "HEAD"%string then Some (w "manifest::handle_manifest_pull"%string)                       (* end-3 *)
    else if m "PUT"%string then Some (w "manifest::handle_manifest_put"%string)                               (* end-7 *)
    else if m "DELETE"%string then Some (w "manifest::handle_manifest_delete"%string) else None               (* end-9 *)
  | ShUploads => if m "POST"%string then Some (w "blob::handle_blob_push_post"%string) else None              (* end-4a/4b *)
  | ShUpload =>
    if m "PUT"%string then Some (w "blob::handle_blob_push_put"%string)                                       (* end-6 *)
    else if m "PATCH"%string then Some (w "blob::handle_blob_push_patch"%string) else None                    (* end-5 *)
  | ShTags => if m "GET"%string then Some (w "tags::handle_tags_get"%string) else None                        (* end-8a *)
  end.

Definition last_param_name (sh : shape) : option bytes :=
  match sh with
  | ShBlob => Some (w "digest"%string)
  | ShManifest | ShUpload => Some (w "reference"%string)
  | _ => None
  end.
