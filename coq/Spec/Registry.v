(* The abstract router: a list of live (template, data) pairs, the routes they induce, and the
   specified outcome of insert and delete.  Uses the documented grammar (Spec/Grammar.v), not the
   parser model. *)
From WF Require Import Base.Bytes Base.Utf8 Spec.Route Spec.Walk Spec.Grammar Spec.Oracles.

Definition live := list (bytes * N).

Fixpoint route_eqb (a b : route) : bool :=
  match a, b with
  | [], [] => true
  | AB x :: a', AB y :: b' => N.eqb x y && route_eqb a' b'
  | AD n c :: a', AD m d :: b' => beqb n m && obeqb c d && route_eqb a' b'
  | AW n c :: a', AW m d :: b' => beqb n m && obeqb c d && route_eqb a' b'
  | _, _ => false
  end.

Definition ends_in_wild (r : route) : bool :=
  match rev r with AW _ _ :: _ => true | _ => false end.

(* add one route: a repeated route of the same template overwrites the info in place,
   except that a catch-all keeps its first info *)
Fixpoint add_route (x : route * info) (rs : routes) : routes :=
  match rs with
  | [] => [x]
  | y :: rs' =>
    if route_eqb (fst x) (fst y)
    then (if ends_in_wild (fst x) then y else x) :: rs'
    else y :: add_route x rs'
  end.

Definition exp_info (t : bytes) (shared : bool) (raw : bytes) (d : N) : info :=
  Info t (if shared then Some raw else None) (N.of_nat (count_byte SL raw)) (N.of_nat (length raw)) d.

(* the routes one template contributes, in expansion order (may repeat a route) *)
Definition template_routes (t : bytes) (d : N) : option routes :=
  match template_spec t with
  | None => None
  | Some es =>
    let shared := match es with _ :: _ :: _ => true | _ => false end in
    Some (map (fun e : bytes * list part => (atoms_of (snd e), exp_info t shared (fst e) d)) es)
  end.

Definition live_routes (l : live) : routes :=
  fold_left (fun rs (td : bytes * N) =>
               match template_routes (fst td) (snd td) with
               | Some new => fold_left (fun rs x => add_route x rs) new rs
               | None => rs
               end) l [].

Definition owner (rs : routes) (r : route) : option bytes :=
  option_map (fun ri : route * info => i_template (snd ri))
             (List.find (fun ri : route * info => route_eqb (fst ri) r) rs).

Fixpoint bins (x : bytes) (l : list bytes) : list bytes :=
  match l with
  | [] => [x]
  | y :: l' => match bcmp x y with Gt => y :: bins x l' | Eq => l | Lt => x :: l end
  end.
(* sorted, without repetitions *)
Definition sort_set (l : list bytes) : list bytes := fold_right bins [] l.

Definition route_constraints (r : route) : list bytes :=
  flat_map (fun a => match a with AD _ (Some c) | AW _ (Some c) => [c] | _ => [] end) r.

(* ---- specified outcomes ---- *)
Inductive insert_spec_res :=
| ISMalformed                          (* must be a Template error *)
| ISUnknown (cs : list bytes)          (* must be UnknownConstraint with one of these names *)
| ISConflict (cs : list bytes)         (* must be Conflict{t, exactly this list} *)
| ISOk.

Definition insert_spec (l : live) (registered : bytes -> bool) (t : bytes) : insert_spec_res :=
  match template_routes t 0 with
  | None => ISMalformed
  | Some new =>
    match filter (fun c => negb (registered c)) (flat_map (fun ri : route * info => route_constraints (fst ri)) new) with
    | (_ :: _) as cs => ISUnknown cs
    | [] =>
      let rs := live_routes l in
      match filter_map (fun ri : route * info => owner rs (fst ri)) new with
      | (_ :: _) as cs => ISConflict (sort_set cs)
      | [] => ISOk
      end
    end
  end.

Inductive delete_spec_res :=
| DSMalformed
| DSOk (d : N)
| DSMismatch (owners : list bytes)     (* must be Mismatch{t, inserted} with inserted among these *)
| DSNotFound.

Definition delete_spec (l : live) (t : bytes) : delete_spec_res :=
  match template_routes t 0 with
  | None => DSMalformed
  | Some new =>
    match List.find (fun td : bytes * N => beqb (fst td) t) l with
    | Some (_, d) => DSOk d
    | None =>
      let rs := live_routes l in
      match filter_map (fun ri : route * info => owner rs (fst ri)) new with
      | (_ :: _) as cs => DSMismatch cs
      | [] => DSNotFound
      end
    end
  end.

Definition live_remove (l : live) (t : bytes) : live := filter (fun td : bytes * N => negb (beqb (fst td) t)) l.

(* does some expansion of t fit p *)
Definition tfits_b (chk : bytes -> bytes -> bool) (t : bytes) (p : bytes) : bool :=
  match template_routes t 0 with
  | Some new => any_fits_b chk new p
  | None => false
  end.
