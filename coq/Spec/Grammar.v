(* The documented template language, written over lists (no cursor arithmetic):
   optional-group expansion and the well-formedness / decoding of one expansion. *)
From WF Require Import Base.Bytes Base.Utf8 Spec.Route.

(* ---- optional groups ---- *)
Inductive item := Chunk (s : bytes) | Group (g : list item).

(* split the text into items; an escape pair stays verbatim inside its chunk.
   Returns the items up to the closing parenthesis of the current group (or the end) and the rest. *)
Inductive gres := GOk (items : list item) (closed : bool) (rest : bytes) | GErr.

Definition push_byte (b : byte) (its : list item) : list item :=
  match its with
  | Chunk s :: its' => Chunk (b :: s) :: its'
  | _ => Chunk [b] :: its
  end.

Fixpoint gparse (fuel : nat) (s : bytes) {struct fuel} : gres :=
  match fuel with
  | O => GErr
  | S f =>
    match s with
    | [] => GOk [] false []
    | b :: s' =>
      if N.eqb b BSL then
        match s' with
        | x :: s'' =>
          match gparse f s'' with
          | GOk its cl rest => GOk (push_byte b (push_byte x its)) cl rest
          | GErr => GErr
          end
        | [] => GOk [Chunk [b]] false []
        end
      else if N.eqb b LP then
        match gparse f s' with
        | GOk g true rest =>
          match g with
          | [] => GErr                                   (* "()" *)
          | _ =>
            match gparse f rest with
            | GOk its cl rest' => GOk (Group g :: its) cl rest'
            | GErr => GErr
            end
          end
        | _ => GErr                                      (* never closed *)
        end
      else if N.eqb b RP then GOk [] true s'
      else
        match gparse f s' with
        | GOk its cl rest => GOk (push_byte b its) cl rest
        | GErr => GErr
        end
    end
  end.

(* every keep/drop choice; an inner group can be kept only if its parent is.
   [alts it]: the texts one item can contribute (a group: each inner expansion, or nothing). *)
Fixpoint alts (it : item) : list bytes :=
  match it with
  | Chunk s => [s]
  | Group g =>
    (fix seq (l : list item) : list bytes :=
       match l with
       | [] => [[]]
       | x :: l' => let tails := seq l' in flat_map (fun o => map (fun t => o ++ t) tails) (alts x)
       end) g ++ [[]]
  end.

Fixpoint expand_items (its : list item) : list bytes :=
  match its with
  | [] => [[]]
  | x :: l' => let tails := expand_items l' in flat_map (fun o => map (fun t => o ++ t) tails) (alts x)
  end.

(* the expansions, in the order insert uses them *)
Definition expansions_spec (t : bytes) : option (list bytes) :=
  match gparse (S (length t)) t with
  | GOk its false [] => Some (map (fun e => match e with [] => [SL] | _ => e end) (expand_items its))
  | _ => None
  end.

(* ---- one expansion ---- *)
Definition invalid_name_char (c : byte) : bool :=
  N.eqb c COLON || N.eqb c STAR || N.eqb c LB || N.eqb c RB || N.eqb c LP || N.eqb c RP || N.eqb c SL.

(* take the content of a brace pair: input is the text after '{'; nesting counted, no escapes *)
Fixpoint brace_content (s : bytes) (depth : nat) : option (bytes * bytes) :=
  match s with
  | [] => None
  | c :: s' =>
    if N.eqb c RB then
      match depth with
      | O => Some ([], s')
      | S d => match brace_content s' d with Some (a, r) => Some (c :: a, r) | None => None end
      end
    else
      match brace_content s' (if N.eqb c LB then S depth else depth) with
      | Some (a, r) => Some (c :: a, r)
      | None => None
      end
  end.

Fixpoint split_colon (s : bytes) : bytes * option bytes :=
  match s with
  | [] => ([], None)
  | c :: s' => if N.eqb c COLON then ([], Some s')
               else let '(a, b) := split_colon s' in (c :: a, b)
  end.

Definition param_of_content (content : bytes) : option part :=
  match content with
  | [] => None
  | _ =>
    let '(name, constraint) := split_colon content in
    let wild := hd_is STAR name in
    let name := if wild then tl name else name in
    match name with
    | [] => None
    | _ =>
      if existsb invalid_name_char name then None
      else match constraint with
           | Some [] => None
           | Some c => if existsb invalid_name_char c then None
                       else Some (if wild then PW name (Some c) else PD name (Some c))
           | None => Some (if wild then PW name None else PD name None)
           end
    end
  end.

(* literal text up to the next unescaped brace, escapes removed *)
Fixpoint static_text (fuel : nat) (s : bytes) : bytes * bytes :=
  match fuel with
  | O => ([], s)
  | S f =>
    match s with
    | [] => ([], [])
    | c :: s' =>
      if N.eqb c BSL then
        match s' with
        | x :: s'' => let '(a, r) := static_text f s'' in (x :: a, r)
        | [] => ([BSL], [])
        end
      else if N.eqb c LB || N.eqb c RB then ([], s)
      else let '(a, r) := static_text f s' in (c :: a, r)
    end
  end.

(* parts of a well-formed expansion body; prev_param: did the previous part end in a parameter *)
Fixpoint exp_parts (fuel : nat) (s : bytes) (prev_param : bool) (seen : list bytes) : option (list part) :=
  match fuel with
  | O => None
  | S f =>
    match s with
    | [] => Some []
    | c :: s' =>
      if N.eqb c LB then
        if prev_param then None else
        match brace_content s' 0 with
        | None => None
        | Some (content, rest) =>
          match param_of_content content with
          | None => None
          | Some p =>
            let name := match p with PD n _ | PW n _ => n | PS _ => [] end in
            if existsb (beqb name) seen then None
            else option_map (cons p) (exp_parts f rest true (name :: seen))
          end
        end
      else if N.eqb c RB then None
      else
        let '(txt, rest) := static_text (S (length s)) s in
        option_map (cons (PS txt)) (exp_parts f rest false seen)
    end
  end.

(* a well-formed expansion: starts with '/', parts as above *)
Definition wellformed_exp (raw : bytes) : option (list part) :=
  match raw with
  | b :: _ => if N.eqb b SL then exp_parts (S (length raw)) raw false [] else None
  | [] => None
  end.

(* the documented language: balanced non-empty groups and every expansion well-formed *)
Definition template_spec (t : bytes) : option (list (bytes * list part)) :=
  match t with
  | [] => None
  | _ =>
    match expansions_spec t with
    | None => None
    | Some es =>
      (fix all (l : list bytes) : option (list (bytes * list part)) :=
         match l with
         | [] => Some []
         | e :: l' => match wellformed_exp e, all l' with
                      | Some ps, Some r => Some ((e, ps) :: r)
                      | _, _ => None
                      end
         end) es
    end
  end.
