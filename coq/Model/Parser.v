(* The template parser, following src/parser.rs (repaired code) in checked style:
   every index, slice and subtraction of the Rust code is an explicit operation that
   yields [Panic site] when out of range; recursion on nested groups and the scan loops use fuel. *)
From Coq Require Import ZArith.
From WF Require Import Base.Bytes Base.Utf8 Spec.Route.

Inductive terr :=
| EEmpty
| EMissingLeadingSlash (t : bytes)
| EEmptyBraces (t : bytes) (pos : nat)
| EUnbalancedBrace (t : bytes) (pos : nat)
| EEmptyParentheses (t : bytes) (pos : nat)
| EUnbalancedParenthesis (t : bytes) (pos : nat)
| EEmptyParameter (t : bytes) (start len : nat)
| EInvalidParameter (t name : bytes) (start len : nat)
| EDuplicateParameter (t name : bytes) (first first_len second second_len : nat)
| EEmptyWildcard (t : bytes) (start len : nat)
| EEmptyConstraint (t : bytes) (start len : nat)
| EInvalidConstraint (t name : bytes) (start len : nat)
| ETouchingParameters (t : bytes) (start len : nat).

Inductive out (A : Type) := Ret (a : A) | Err (e : terr) | Panic (site : nat) | Fuel.
Arguments Ret {A}. Arguments Err {A}. Arguments Panic {A}. Arguments Fuel {A}.

Definition bind {A B} (m : out A) (f : A -> out B) : out B :=
  match m with Ret a => f a | Err e => Err e | Panic w => Panic w | Fuel => Fuel end.
Notation "'do' x <- m ; k" := (bind m (fun x => k)) (at level 200, x pattern, m at level 100, k at level 200).

Definition idx (l : bytes) (i : nat) (site : nat) : out byte :=
  match nth_error l i with Some b => Ret b | None => Panic site end.
Definition slice (l : bytes) (a b : nat) (site : nat) : out bytes :=
  if (Nat.leb a b && Nat.leb b (length l))%bool then Ret (firstn (b - a) (skipn a l)) else Panic site.
Definition subn (a b : nat) (site : nat) : out nat :=
  if Nat.leb b a then Ret (a - b) else Panic site.

Definition INVALID_PARAM_CHARS : bytes := [COLON; STAR; LB; RB; LP; RP; SL].
Definition has_invalid (s : bytes) : bool := existsb (fun c => existsb (N.eqb c) INVALID_PARAM_CHARS) s.

(* ---- expand_optional_groups ---- *)
Fixpoint expand (fuel : nat) (input : bytes) (start en : nat) {struct fuel} : out (list bytes) :=
  match fuel with
  | O => Fuel
  | S fuel' =>
    (fix scan (steps : nat) (cursor group : nat) (depth : Z) (result : list bytes) {struct steps}
       : out (list bytes) :=
       match steps with
       | O => Fuel
       | S steps' =>
         if Nat.ltb cursor en then
           do c <- idx input cursor 1;
           if (N.eqb c BSL && match nth_error input (S cursor) with Some _ => true | None => false end)%bool
           then scan steps' (cursor + 2) group depth result
           else if N.eqb c LP then
             if Z.eqb depth 0 then
               do lit <- slice input group cursor 2;
               scan steps' (S cursor) (S cursor) (depth + 1)%Z (map (fun t => t ++ lit) result)
             else scan steps' (S cursor) group (depth + 1)%Z result
           else if N.eqb c RP then
             let depth := (depth - 1)%Z in
             if Z.ltb depth 0 then Err (EUnbalancedParenthesis input cursor)
             else if Z.eqb depth 0 then
               if Nat.eqb cursor group then
                 do p <- subn cursor 1 3; Err (EEmptyParentheses input p)
               else
                 do opts <- expand fuel' input group cursor;
                 let result := flat_map (fun t => map (fun o => t ++ o) opts ++ [t]) result in
                 scan steps' (S cursor) (S cursor) depth result
             else scan steps' (S cursor) group depth result
           else scan steps' (S cursor) group depth result
         else
           if negb (Z.eqb depth 0) then
             do p <- subn (start + group) 1 4; Err (EUnbalancedParenthesis input p)
           else if Nat.ltb group en then
             do lit <- slice input group en 5; Ret (map (fun t => t ++ lit) result)
           else Ret result
       end) (S (length input)) start start 0%Z [[]]
  end.

(* ---- parse_static_part ---- *)
Fixpoint static_part (steps : nat) (raw : bytes) (en : nat) (acc : bytes) : out (bytes * nat) :=
  match steps with
  | O => Fuel
  | S steps' =>
    if Nat.ltb en (length raw) then
      do c <- idx raw en 10;
      if N.eqb c BSL then
        match nth_error raw (S en) with
        | Some nx => static_part steps' raw (en + 2) (acc ++ [nx])
        | None => static_part steps' raw (en + 1) (acc ++ [BSL])
        end
      else if (N.eqb c LB || N.eqb c RB)%bool then Ret (acc, en)
      else static_part steps' raw (en + 1) (acc ++ [c])
    else Ret (acc, en)
  end.

(* position of the first ':' *)
Fixpoint find_colon (s : bytes) : option nat :=
  match s with
  | [] => None
  | c :: s' => if N.eqb c COLON then Some 0 else option_map S (find_colon s')
  end.

(* ---- parse_parameter_part ---- *)
Fixpoint brace_scan (steps : nat) (raw : bytes) (en : nat) (count : nat) : out (nat * nat) :=
  match steps with
  | O => Fuel
  | S steps' =>
    if Nat.ltb en (length raw) then
      do c <- idx raw en 20;
      if N.eqb c LB then brace_scan steps' raw (S en) (S count)
      else if N.eqb c RB then
        do count' <- subn count 1 21;
        if Nat.eqb count' 0 then Ret (en, 0) else brace_scan steps' raw (S en) count'
      else brace_scan steps' raw (S en) count
    else Ret (en, count)
  end.

Definition parameter_part (raw : bytes) (cursor : nat) : out (part * nat) :=
  let start := S cursor in
  do ec <- brace_scan (S (length raw)) raw start 1;
  let '(en, count) := ec in
  if negb (Nat.eqb count 0) then Err (EUnbalancedBrace raw cursor) else
  do content <- slice raw start en 22;
  match content with
  | [] => Err (EEmptyBraces raw cursor)
  | _ =>
    do nc <- match find_colon content with
             | None => Ret (content, None)
             | Some cp =>
               do a <- slice content 0 cp 23;
               do b <- slice content (S cp) (length content) 24;
               Ret (a, Some b)
             end;
    let '(name, constraint) := nc in
    do len <- (do d <- subn en cursor 25; Ret (d + 1));
    match name with
    | [] => Err (EEmptyParameter raw cursor len)
    | _ =>
      let is_wild := hd_is STAR name in
      let name := if is_wild then tl name else name in
      if (is_wild && match name with [] => true | _ => false end)%bool
      then Err (EEmptyWildcard raw cursor len)
      else if has_invalid name then Err (EInvalidParameter raw name cursor len)
      else
        match (match constraint with
               | Some [] => Some (EEmptyConstraint raw cursor len)
               | Some c => if has_invalid c then Some (EInvalidConstraint raw c cursor len) else None
               | None => None end) with
        | Some e => Err e
        | None =>
          if negb (utf8_valid name) then Err (EInvalidParameter raw name cursor len)
          else if negb (match constraint with Some c => utf8_valid c | None => true end)
          then Err (EInvalidConstraint raw (match constraint with Some c => c | None => [] end) cursor len)
          else Ret (if is_wild then PW name constraint else PD name constraint, S en)
        end
    end
  end.

(* ---- parse_template ---- *)
Definition part_name (p : part) : option bytes :=
  match p with PS _ => None | PD n _ => Some n | PW n _ => Some n end.

Definition last_opt {A} (l : list A) : option A := match rev l with x :: _ => Some x | [] => None end.

Fixpoint template_loop (steps : nat) (raw : bytes) (cursor : nat)
         (seen : list (bytes * nat * nat)) (parts : list part) : out (list part) :=
  match steps with
  | O => Fuel
  | S steps' =>
    if Nat.ltb cursor (length raw) then
      do c <- idx raw cursor 30;
      if N.eqb c LB then
        do pn <- parameter_part raw cursor;
        let '(p, next) := pn in
        match (match last_opt seen with
               | Some (_, s, l) => if Nat.eqb cursor (s + l) then Some (s, l) else None
               | None => None end) with
        | Some (s, _) => do l <- subn next s 31; Err (ETouchingParameters raw s l)
        | None =>
          match part_name p with
          | Some name =>
            match find (fun x : bytes * nat * nat => beqb (fst (fst x)) name) seen with
            | Some (_, s, l) =>
              do sl <- subn next cursor 32;
              Err (EDuplicateParameter raw name s l cursor sl)
            | None =>
              do sl <- subn next cursor 33;
              template_loop steps' raw next (seen ++ [(name, cursor, sl)]) (parts ++ [p])
            end
          | None => template_loop steps' raw next seen (parts ++ [p])
          end
        end
      else if N.eqb c RB then Err (EUnbalancedBrace raw cursor)
      else
        do sp <- static_part (S (length raw)) raw cursor [];
        let '(s, next) := sp in
        template_loop steps' raw next seen (parts ++ [PS s])
    else Ret parts
  end.

Definition expansion := (bytes * list part)%type.    (* raw text, parts left to right *)

Definition parse_template (raw : bytes) : out expansion :=
  if (match raw with [] => false | b :: _ => negb (N.eqb b SL) end) then Err (EMissingLeadingSlash raw)
  else do ps <- template_loop (S (length raw)) raw 0 [] []; Ret (raw, ps).

Fixpoint map_out {A B} (f : A -> out B) (l : list A) : out (list B) :=
  match l with
  | [] => Ret []
  | x :: l' => do y <- f x; do ys <- map_out f l'; Ret (y :: ys)
  end.

(* ParsedTemplate::new *)
Definition parse (input : bytes) : out (list expansion) :=
  match input with
  | [] => Err EEmpty
  | _ =>
    do raws <- expand (S (length input)) input 0 (length input);
    map_out (fun raw => parse_template (match raw with [] => [SL] | _ => raw end)) raws
  end.
