(* Reference counts of the data shared between the expansions of one template (NodeData::Shared { data: Arc<T> })
   across a family of routers: the bookkeeping that Router::delete relies on (Arc::try_unwrap hands the data
   back only from the last reference) and that Router::clone must not disturb.  No proofs here.

   A view lists, for every stored node that holds shared data, the router (slot) it is in, the template it
   belongs to, the identity of the Arc it holds and that Arc's strong count.  The implementation's view is read by
   the `verif` hook (Arc::as_ptr, Arc::strong_count); the steps below say how each operation changes it. *)
From Coq Require Import List NArith Arith Bool.
From WF Require Import Base.Bytes.
Import ListNotations.

Record anode := AN { a_slot : N; a_tmpl : bytes; a_id : N; a_cnt : nat }.
Definition aview := list anode.

(* number of nodes of v holding Arc i *)
Definition held (i : N) (v : aview) : nat := length (filter (fun m => N.eqb (a_id m) i) v).

Definition at_tmpl (s : N) (t : bytes) (n : anode) : bool := N.eqb (a_slot n) s && beqb (a_tmpl n) t.
Definition at_slot (s : N) (n : anode) : bool := N.eqb (a_slot n) s.

(* dropping the nodes selected by f: every Arc loses one count per dropped holder *)
Definition dec (removed : aview) (n : anode) : anode :=
  AN (a_slot n) (a_tmpl n) (a_id n) (a_cnt n - held (a_id n) removed).
Definition remove_where (f : anode -> bool) (v : aview) : aview :=
  map (dec (filter f v)) (filter (fun n => negb (f n)) v).

Definition fresh (v : aview) : N := N.succ (fold_right N.max 0%N (map a_id v)).

(* Router::insert of a template whose k distinct expansions are stored in slot s: one new Arc, k holders
   (Arc::from(data), one Arc::clone per stored node, the local handle dropped at the end) *)
Definition a_ins (s : N) (t : bytes) (k : nat) (v : aview) : aview := v ++ repeat (AN s t (fresh v) k) k.

(* Router::delete: the nodes of the template are emptied one after the other; NodeData::Shared is dropped or
   unwrapped *)
Definition a_del (s : N) (t : bytes) (v : aview) : aview := remove_where (at_tmpl s t) v.

(* what delete hands back: going through the removed nodes in order, Arc::try_unwrap succeeds at a node iff the
   strong count has come down to 1 there; the output is Some as soon as one of them succeeded *)
Fixpoint unwraps (done : list N) (rm : aview) : bool :=
  match rm with
  | [] => false
  | n :: r => Nat.eqb (a_cnt n - length (filter (N.eqb (a_id n)) done)) 1 || unwraps (a_id n :: done) r
  end.
Definition a_del_returns (s : N) (t : bytes) (v : aview) : bool := unwraps [] (filter (at_tmpl s t) v).

(* a router going out of scope *)
Definition a_drop (s : N) (v : aview) : aview := remove_where (at_slot s) v.

(* Router::clone into slot b (whatever was there is dropped): NodeData::clone gives every copied node an Arc of
   its own (Arc::new(T::clone(data))) *)
Fixpoint copies (b : N) (src : aview) (i : N) : aview :=
  match src with
  | [] => []
  | n :: r => AN b (a_tmpl n) i 1 :: copies b r (N.succ i)
  end.
Definition a_clone (a b : N) (v : aview) : aview :=
  a_drop b v ++ copies b (filter (at_slot a) v) (fresh v).

(* the derived Clone of the pinned commit: the copy holds the SAME Arcs (b is a new slot) *)
Definition a_clone_shared (a b : N) (v : aview) : aview :=
  let src := filter (at_slot a) v in
  map (fun n => AN (a_slot n) (a_tmpl n) (a_id n) (a_cnt n + held (a_id n) src)) v
  ++ map (fun n => AN b (a_tmpl n) (a_id n) (a_cnt n + held (a_id n) src)) src.

Inductive aop :=
| AIns (s : N) (t : bytes) (k : nat)     (* successful insert of a template stored as k >= 2 shared nodes *)
| ADel (s : N) (t : bytes)               (* delete that reached the removal loop *)
| AClone (a b : N)
| ANew (s : N)                           (* slot s replaced by an empty router *)
| ANop.                                  (* anything else: failed calls, searches, inline templates *)

Definition astep (v : aview) (o : aop) : aview :=
  match o with
  | AIns s t k => a_ins s t k v
  | ADel s t => a_del s t v
  | AClone a b => a_clone a b v
  | ANew s => a_drop s v
  | ANop => v
  end.

(* ---- the ownership invariant, executable ---- *)
(* every Arc is held only by nodes of one template in one router, and its strong count is the number of holders *)
Definition own_b (v : aview) : bool :=
  forallb (fun n => Nat.eqb (a_cnt n) (held (a_id n) v)
                    && forallb (fun m => negb (N.eqb (a_id m) (a_id n)) || at_tmpl (a_slot n) (a_tmpl n) m) v) v.

(* ---- comparing two views up to the names of the Arcs ---- *)
Fixpoint ins_sorted (x : bytes) (l : list bytes) : list bytes :=
  match l with
  | [] => [x]
  | y :: l' => match bcmp x y with Gt => y :: ins_sorted x l' | _ => x :: l end
  end.
Definition sort_bytes (l : list bytes) : list bytes := fold_right ins_sorted [] l.

Definition enc_holder (n : anode) : bytes := a_slot n :: N.of_nat (length (a_tmpl n)) :: a_tmpl n.
Fixpoint ids_of (v : aview) (seen : list N) : list N :=
  match v with
  | [] => []
  | n :: r => if existsb (N.eqb (a_id n)) seen then ids_of r seen else a_id n :: ids_of r (a_id n :: seen)
  end.
(* one descriptor per Arc: the counts its holders report, then the holders *)
Definition class_of (v : aview) (i : N) : bytes :=
  let hs := filter (fun m => N.eqb (a_id m) i) v in
  N.of_nat (length hs) :: concat (sort_bytes (map (fun m => [N.of_nat (a_cnt m)]) hs)) ++ concat (sort_bytes (map enc_holder hs)).
Definition canon (v : aview) : list bytes := sort_bytes (map (class_of v) (ids_of v [])).

Fixpoint lbeqb (a b : list bytes) : bool :=
  match a, b with
  | [], [] => true
  | x :: a', y :: b' => beqb x y && lbeqb a' b'
  | _, _ => false
  end.
Definition same_shape (v1 v2 : aview) : bool := lbeqb (canon v1) (canon v2).
