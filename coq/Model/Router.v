(* The router API, following src/router.rs (repaired code): validate, then mutate. *)
From WF Require Import Base.Bytes Base.Utf8 Spec.Route Spec.Walk Model.Tree Model.Parser Model.Ops.

Record router := Router {
  r_root : node;
  r_constraints : list (bytes * bytes) }.      (* name -> type name, in registration order *)

Inductive insert_err :=
| IETemplate (e : terr)
| IEConflict (t : bytes) (conflicts : list bytes)
| IEUnknownConstraint (c : bytes).
Inductive delete_err :=
| DETemplate (e : terr)
| DENotFound (t : bytes)
| DEMismatch (t inserted : bytes).
Inductive constraint_err :=
| CEDuplicateName (name existing_type new_type : bytes).

Inductive result (E A : Type) := ROk (a : A) | RErr (e : E) | RPanic (site : nat).
Arguments ROk {E A}. Arguments RErr {E A}. Arguments RPanic {E A}.

Definition registered (r : router) (c : bytes) : bool :=
  existsb (fun nt : bytes * bytes => beqb (fst nt) c) (r_constraints r).

Definition rconstraint (r : router) (name type_name : bytes) : router * result constraint_err unit :=
  match List.find (fun nt : bytes * bytes => beqb (fst nt) name) (r_constraints r) with
  | Some (_, old) => (r, RErr (CEDuplicateName name old type_name))
  | None => (Router (r_root r) (r_constraints r ++ [(name, type_name)]), ROk tt)
  end.

Definition part_constraint (p : part) : option bytes :=
  match p with PD _ (Some c) | PW _ (Some c) => Some c | _ => None end.

(* sort strings, drop adjacent duplicates *)
Fixpoint bins (x : bytes) (l : list bytes) : list bytes :=
  match l with
  | [] => [x]
  | y :: l' => match bcmp x y with Gt => y :: bins x l' | _ => x :: l end
  end.
Definition bsort (l : list bytes) : list bytes := fold_right bins [] l.
Fixpoint dedup (l : list bytes) : list bytes :=
  match l with
  | x :: ((y :: _) as l') => if beqb x y then dedup l' else x :: dedup l'
  | _ => l
  end.

Definition count_slash (s : bytes) : N := N.of_nat (count_byte SL s).

Definition rinsert (r : router) (t : bytes) (d : N) : router * result insert_err unit :=
  match parse t with
  | Panic s => (r, RPanic s)
  | Fuel => (r, RPanic 999)
  | Err e => (r, RErr (IETemplate e))
  | Ret es =>
    (* unknown constraints: expansions in order, parts from the right (stored order) *)
    match first_some (fun e : expansion =>
            first_some (fun p => match part_constraint p with
                                 | Some c => if registered r c then None else Some c
                                 | None => None end) (rev (snd e))) es with
    | Some c => (r, RErr (IEUnknownConstraint c))
    | None =>
      let conflicts := filter_map (fun e : expansion =>
                         option_map i_template (find_node (ops_fuel (snd e)) (r_root r) (snd e))) es in
      match conflicts with
      | _ :: _ => (r, RErr (IEConflict t (dedup (bsort conflicts))))
      | [] =>
        let shared := match es with _ :: _ :: _ => true | _ => false end in
        let root := fold_left (fun root (e : expansion) =>
                      insert (ops_fuel (snd e)) root (snd e)
                             (Info t (if shared then Some (fst e) else None)
                                   (count_slash (fst e)) (N.of_nat (length (fst e))) d))
                      es (r_root r) in
        (Router (optimize root) (r_constraints r), ROk tt)
      end
    end
  end.

Definition rdelete (r : router) (t : bytes) : router * result delete_err N :=
  match parse t with
  | Panic s => (r, RPanic s)
  | Fuel => (r, RPanic 999)
  | Err e => (r, RErr (DETemplate e))
  | Ret es =>
    match first_some (fun e : expansion =>
            match find_node (ops_fuel (snd e)) (r_root r) (snd e) with
            | Some found => if beqb (i_template found) t then None else Some (i_template found)
            | None => None end) es with
    | Some inserted => (r, RErr (DEMismatch t inserted))
    | None =>
      if existsb (fun e : expansion =>
           match find_node (ops_fuel (snd e)) (r_root r) (snd e) with Some _ => false | None => true end) es
      then (r, RErr (DENotFound t))
      else
        let '(root, output) :=
          fold_left (fun (acc : node * option N) (e : expansion) =>
                       let '(root', x) := delete (ops_fuel (snd e)) (fst acc) (snd e) in
                       (root', match x with Some i => Some (i_data i) | None => snd acc end))
                    es (r_root r, None) in
        match output with
        | Some d => (Router (optimize root) (r_constraints r), ROk d)
        | None => (Router root (r_constraints r), RErr (DENotFound t))
        end
    end
  end.

Section Search.
  (* cfun name value: the check function registered under [name] *)
  Variable cfun : bytes -> bytes -> bool.
  Definition rsearch (r : router) (path : bytes) : res := search cfun (r_root r) path.
End Search.

Definition new_router (builtins : list (bytes * bytes)) : router := Router empty_node builtins.
