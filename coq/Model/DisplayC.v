(* The tree printer of src/node/display.rs once more, in CHECKED style: the one piece of arithmetic in it - the
   counter of children still to print, `count -= 1` before every child, `count == 0` marks the last - is an explicit
   subtraction that returns Panic on underflow (what overflow checks would do), and the counter is threaded through
   the seven loops as the single mutable variable it is.  Model/Display.v holds the functional printer that is compared
   with the real Display on every dump; Proofs/DisplayCP.v proves the two equal for every tree.  No proofs here. *)
From Coq Require Import Arith.
From WF Require Import Base.Bytes Base.Utf8 Spec.Route Spec.Walk Model.Tree Model.Parser Model.Display.

Section GoC.
  Variable rec : node -> bytes -> bool -> out bytes.       (* debug_node on a child: node, label, is_last *)
  Variable k : option kind.
  Fixpoint go_c (acc : bytes) (count : nat) (l : list (key * node)) : out (bytes * nat) :=
    match l with
    | [] => Ret (acc, count)
    | kc :: l' =>
      do c <- subn count 1 70;                                                (* count -= 1; *)
      do s <- rec (snd kc) (node_label k (fst kc)) (Nat.eqb c 0);             (* debug_node(.., count == 0)? *)
      go_c (acc ++ s) c l'
    end.
End GoC.

Fixpoint debug_node_c (n : node) (label : bytes) (padding : bytes) (is_root is_last : bool) {struct n} : out bytes :=
  let marked := match n_data n with Some _ => MARK | None => [] end in
  let line :=
    match label with
    | [] => []
    | _ => if is_root then label ++ marked ++ NL
           else padding ++ (if is_last then BR_LAST else BR_MID) ++ [32%N] ++ label ++ marked ++ NL
    end in
  let padding' :=
    if negb is_root && negb (match label with [] => true | _ => false end)
    then padding ++ (if is_last then PAD_LAST else PAD_MID) else padding in
  let root' := match label with [] => true | _ => false end in
  let rec := fun (c : node) (lab : bytes) (last : bool) => debug_node_c c lab padding' root' last in
  let c0 := length (n_st n) + length (n_dc n) + length (n_dy n) + length (n_wc n) + length (n_wi n)
            + length (n_ec n) + length (n_en n) in
  do r0 <- go_c rec None line c0 (n_st n);
  do r1 <- go_c rec (Some KDC) (fst r0) (snd r0) (n_dc n);
  do r2 <- go_c rec (Some KDY) (fst r1) (snd r1) (n_dy n);
  do r3 <- go_c rec (Some KWC) (fst r2) (snd r2) (n_wc n);
  do r4 <- go_c rec (Some KWI) (fst r3) (snd r3) (n_wi n);
  do r5 <- go_c rec (Some KEC) (fst r4) (snd r4) (n_ec n);
  do r6 <- go_c rec (Some KEN) (fst r5) (snd r5) (n_en n);
  Ret (fst r6).

Definition display_c (n : node) : out bytes := do s <- debug_node_c n [] [] true true; Ret (trim_end s).
