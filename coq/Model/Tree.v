(* The node tree and the search, following src/node.rs and src/node/search.rs (repaired code). *)
From WF Require Import Base.Bytes Base.Utf8 Spec.Route Spec.Walk.

(* One child entry: key (static prefix or parameter name, optional constraint) and the node. *)
Inductive node := Node {
  n_data : option info;
  n_st : list (key * node);      (* static children: key = (prefix, None) *)
  n_dc : list (key * node);      (* dynamic constrained *)
  n_dy : list (key * node);      (* dynamic *)
  n_wc : list (key * node);      (* wildcard constrained (mid-route) *)
  n_wi : list (key * node);      (* wildcard (mid-route) *)
  n_ec : list (key * node);      (* end wildcard constrained (catch-all) *)
  n_en : list (key * node);      (* end wildcard (catch-all) *)
  n_dflag : bool;                (* dynamic_children_shortcut *)
  n_wflag : bool;                (* wildcard_children_shortcut *)
  n_dirty : bool }.              (* needs_optimization *)

Definition kids (k : kind) (n : node) : list (key * node) :=
  match k with
  | KDC => n_dc n | KDY => n_dy n | KWC => n_wc n | KWI => n_wi n | KEC => n_ec n | KEN => n_en n
  end.

Definition empty_node : node := Node None [] [] [] [] [] [] [] false false false.

(* "a capture may only stop at the end of a segment" *)
Definition boundary (c : cand) : bool :=
  match snd c with [] => true | b :: _ => N.eqb b SL end.

(* split at the first '/' : (segment, rest) *)
Fixpoint span_seg (p : bytes) : bytes * bytes :=
  match p with
  | [] => ([], [])
  | b :: r => if N.eqb b SL then ([], p) else let '(s, t) := span_seg r in (b :: s, t)
  end.

(* candidates of the whole-segment variants *)
Definition seg_cands (k : kind) (path : bytes) : list cand :=
  if is_dyn k then
    let '(s, t) := span_seg path in match s with [] => [] | _ => [(s, t)] end
  else filter boundary (cands_from false [] path).

(* which candidate enumeration does node n use for kind k *)
Definition tcands (n : node) (k : kind) (path : bytes) : list cand :=
  match k with
  | KDC | KDY => if n_dflag n then seg_cands k path else cands k path
  | KWC | KWI => if n_wflag n then seg_cands k path else cands k path
  | KEC | KEN => cands k path
  end.

Section Search.
  Variable chk : bytes -> bytes -> bool.

  Definition node_done (n : node) : res :=
    match n_data n with Some i => Some (i, []) | None => None end.

  Fixpoint search (n : node) (path : bytes) {struct n} : res :=
    match path with
    | [] => node_done n
    | _ :: _ =>
      or_else
        (first_some (fun kc : key * node =>
           match starts_with (fst (fst kc)) path with
           | Some rest => search (snd kc) rest
           | None => None
           end) (n_st n))
        (first_some (fun k =>
           first_some (fun kc : key * node => pick chk (search (snd kc)) (fst kc) (tcands n k path))
                      (kids k n))
           all_kinds)
    end.
End Search.

(* The routes a tree holds: concatenate keys from the root down to every node with data. *)
Definition head_atom (k : kind) (ky : key) : atom :=
  match k with
  | KDC | KDY => AD (fst ky) (snd ky)
  | _ => AW (fst ky) (snd ky)
  end.

Definition cons_atoms (pre : route) (rs : routes) : routes :=
  map (fun ri : route * info => (pre ++ fst ri, snd ri)) rs.

Fixpoint routes_of (n : node) : routes :=
  let sub (pre : key -> route) (l : list (key * node)) :=
    flat_map (fun kc : key * node => cons_atoms (pre (fst kc)) (routes_of (snd kc))) l in
  let ends (k : kind) (l : list (key * node)) :=
    flat_map (fun kc : key * node =>
      match n_data (snd kc) with Some i => [([head_atom k (fst kc)], i)] | None => [] end) l in
  (match n_data n with Some i => [([], i)] | None => [] end)
  ++ sub (fun ky => map AB (fst ky)) (n_st n)
  ++ sub (fun ky => [head_atom KDC ky]) (n_dc n)
  ++ sub (fun ky => [head_atom KDY ky]) (n_dy n)
  ++ sub (fun ky => [head_atom KWC ky]) (n_wc n)
  ++ sub (fun ky => [head_atom KWI ky]) (n_wi n)
  ++ ends KEC (n_ec n)
  ++ ends KEN (n_en n).
