(* Tree mutation and lookup, following src/node/{insert,find,delete,optimize}.rs.
   Recursion uses fuel (total size of the remaining parts); see [ops_fuel]. *)
From WF Require Import Base.Bytes Base.Utf8 Spec.Route Spec.Walk Model.Tree.

Definition set_data d n := Node d (n_st n) (n_dc n) (n_dy n) (n_wc n) (n_wi n) (n_ec n) (n_en n) (n_dflag n) (n_wflag n) (n_dirty n).
Definition set_st l n := Node (n_data n) l (n_dc n) (n_dy n) (n_wc n) (n_wi n) (n_ec n) (n_en n) (n_dflag n) (n_wflag n) (n_dirty n).
Definition set_kids (k : kind) (l : list (key * node)) (n : node) : node :=
  match k with
  | KDC => Node (n_data n) (n_st n) l (n_dy n) (n_wc n) (n_wi n) (n_ec n) (n_en n) (n_dflag n) (n_wflag n) (n_dirty n)
  | KDY => Node (n_data n) (n_st n) (n_dc n) l (n_wc n) (n_wi n) (n_ec n) (n_en n) (n_dflag n) (n_wflag n) (n_dirty n)
  | KWC => Node (n_data n) (n_st n) (n_dc n) (n_dy n) l (n_wi n) (n_ec n) (n_en n) (n_dflag n) (n_wflag n) (n_dirty n)
  | KWI => Node (n_data n) (n_st n) (n_dc n) (n_dy n) (n_wc n) l (n_ec n) (n_en n) (n_dflag n) (n_wflag n) (n_dirty n)
  | KEC => Node (n_data n) (n_st n) (n_dc n) (n_dy n) (n_wc n) (n_wi n) l (n_en n) (n_dflag n) (n_wflag n) (n_dirty n)
  | KEN => Node (n_data n) (n_st n) (n_dc n) (n_dy n) (n_wc n) (n_wi n) (n_ec n) l (n_dflag n) (n_wflag n) (n_dirty n)
  end.
Definition set_dirty (b : bool) n := Node (n_data n) (n_st n) (n_dc n) (n_dy n) (n_wc n) (n_wi n) (n_ec n) (n_en n) (n_dflag n) (n_wflag n) b.
Definition set_flags (d w : bool) n := Node (n_data n) (n_st n) (n_dc n) (n_dy n) (n_wc n) (n_wi n) (n_ec n) (n_en n) d w (n_dirty n).

(* which child kind does a part select: a wildcard in last position is an end wildcard *)
Definition part_kind (p : part) (rest : list part) : option (kind * key) :=
  match p with
  | PS _ => None
  | PD n (Some c) => Some (KDC, (n, Some c))
  | PD n None => Some (KDY, (n, None))
  | PW n (Some c) => Some (match rest with [] => KEC | _ => KWC end, (n, Some c))
  | PW n None => Some (match rest with [] => KEN | _ => KWI end, (n, None))
  end.

Definition same_first (k p : bytes) : bool :=
  match k, p with a :: _, b :: _ => N.eqb a b | _, _ => false end.

(* replace the first entry satisfying pred by f entry *)
Fixpoint upd_first {A} (pred : A -> bool) (f : A -> A) (l : list A) : option (list A) :=
  match l with
  | [] => None
  | x :: l' => if pred x then Some (f x :: l') else option_map (cons x) (upd_first pred f l')
  end.

(* ---- insert ---- *)
Fixpoint insert (fuel : nat) (n : node) (ps : list part) (d : info) {struct fuel} : node :=
  match fuel with
  | O => n
  | S f =>
    match ps with
    | [] => set_dirty true (set_data (Some d) n)
    | PS p :: ps' => insert_static f n p ps' d
    | p :: ps' =>
      match part_kind p ps' with
      | None => n
      | Some (k, ky) =>
        if is_end k then
          if existsb (fun kc : key * node => keqb (fst kc) ky) (kids k n) then n
          else set_dirty true (set_kids k (kids k n ++ [(ky, set_data (Some d) empty_node)]) n)
        else
          match upd_first (fun kc : key * node => keqb (fst kc) ky)
                          (fun kc => (fst kc, insert f (snd kc) ps' d)) (kids k n) with
          | Some l => set_dirty true (set_kids k l n)
          | None => set_dirty true (set_kids k (kids k n ++ [(ky, insert f empty_node ps' d)]) n)
          end
      end
    end
  end
with insert_static (fuel : nat) (n : node) (p : bytes) (ps : list part) (d : info) {struct fuel} : node :=
  match fuel with
  | O => n
  | S f =>
    match upd_first (fun kc : key * node => same_first (fst (fst kc)) p)
      (fun kc =>
         let k := fst (fst kc) in
         let c := snd kc in
         let cp := lcp p k in
         if Nat.leb (length k) cp then
           (fst kc, if Nat.leb (length p) cp then insert f c ps d else insert_static f c (skipn cp p) ps d)
         else
           (* split the child *)
           let a := ((skipn cp k, None), c) in
           let parent0 := Node None [] [] [] [] [] [] [] (n_dflag c) (n_wflag c) true in
           ((firstn cp k, None),
            if Nat.leb (length p) cp then insert f (set_st [a] parent0) ps d
            else set_st [a; ((skipn cp p, None), insert f empty_node ps d)] parent0))
      (n_st n) with
    | Some l => set_dirty true (set_st l n)
    | None => set_dirty true (set_st (n_st n ++ [((p, None), insert f empty_node ps d)]) n)
    end
  end.

(* ---- find ---- *)
Fixpoint find_node (fuel : nat) (n : node) (ps : list part) {struct fuel} : option info :=
  match fuel with
  | O => None
  | S f =>
    match ps with
    | [] => n_data n
    | PS p :: ps' => find_static f n p ps'
    | p :: ps' =>
      match part_kind p ps' with
      | None => None
      | Some (k, ky) =>
        match List.find (fun kc : key * node => keqb (fst kc) ky) (kids k n) with
        | Some kc => find_node f (snd kc) ps'
        | None => None
        end
      end
    end
  end
with find_static (fuel : nat) (n : node) (p : bytes) (ps : list part) {struct fuel} : option info :=
  match fuel with
  | O => None
  | S f =>
    match first_some (fun kc : key * node =>
      let k := fst (fst kc) in
      if same_first k p then
        let cp := lcp p k in
        if Nat.leb (length k) cp then
          if Nat.leb (length p) cp then Some (find_node f (snd kc) ps)
          else Some (find_static f (snd kc) (skipn cp p) ps)
        else None
      else None) (n_st n) with
    | Some x => x
    | None => None
    end
  end.

(* ---- delete ---- *)
Fixpoint split_at {A} (pred : A -> bool) (l : list A) : option (list A * A * list A) :=
  match l with
  | [] => None
  | x :: l' =>
    if pred x then Some ([], x, l')
    else match split_at pred l' with Some (a, y, b) => Some (x :: a, y, b) | None => None end
  end.

Definition no_kids (n : node) : bool :=
  match n_st n, n_dc n, n_dy n, n_wc n, n_wi n, n_ec n, n_en n with
  | [], [], [], [], [], [], [] => true
  | _, _, _, _, _, _, _ => false
  end.
Definition is_empty (n : node) : bool := match n_data n with None => no_kids n | Some _ => false end.
Definition is_compressible (n : node) : bool :=
  match n_data n, n_st n, n_dc n, n_dy n, n_wc n, n_wi n, n_ec n, n_en n with
  | None, [_], [], [], [], [], [], [] => true
  | _, _, _, _, _, _, _, _ => false
  end.

Fixpoint delete (fuel : nat) (n : node) (ps : list part) {struct fuel} : node * option info :=
  match fuel with
  | O => (n, None)
  | S f =>
    match ps with
    | [] => match n_data n with
            | None => (n, None)
            | Some d => (set_dirty true (set_data None n), Some d)
            end
    | PS p :: ps' => delete_static f n p ps'
    | p :: ps' =>
      match part_kind p ps' with
      | None => (n, None)
      | Some (k, ky) =>
        match split_at (fun kc : key * node => keqb (fst kc) ky) (kids k n) with
        | None => (n, None)
        | Some (a, kc, b) =>
          if is_end k then
            match n_data (snd kc) with
            | None => (set_kids k (a ++ b) n, None)
            | Some d => (set_dirty true (set_kids k (a ++ b) n), Some d)
            end
          else
            let '(c', r) := delete f (snd kc) ps' in
            if is_empty c' then (set_dirty true (set_kids k (a ++ b) n), r)
            else (set_kids k (a ++ (fst kc, c') :: b) n, r)
        end
      end
    end
  end
with delete_static (fuel : nat) (n : node) (p : bytes) (ps : list part) {struct fuel} : node * option info :=
  match fuel with
  | O => (n, None)
  | S f =>
    match split_at (fun kc : key * node =>
            match starts_with (fst (fst kc)) p with Some _ => true | None => false end) (n_st n) with
    | None => (n, None)
    | Some (a, kc, b) =>
      let k := fst (fst kc) in
      let c := set_dirty true (snd kc) in
      let rem := skipn (length k) p in
      let '(c', r) := match rem with [] => delete f c ps | _ => delete_static f c rem ps end in
      if is_empty c' then (set_dirty true (set_st (a ++ b) n), r)
      else if is_compressible c' then
        match n_st c' with
        | [(mk, m)] => (set_st (a ++ ((k ++ fst mk, None), set_dirty true m) :: b) n, r)
        | _ => (n, None)
        end
      else (set_st (a ++ ((k, None), c') :: b) n, r)
    end
  end.

(* ---- optimize ---- *)
Fixpoint ins_sorted (x : key * node) (l : list (key * node)) : list (key * node) :=
  match l with
  | [] => [x]
  | y :: l' => match kcmp (fst x) (fst y) with Gt => y :: ins_sorted x l' | _ => x :: l end
  end.
(* stable insertion sort: equal keys keep their order *)
Definition sort_kids (l : list (key * node)) : list (key * node) := fold_right ins_sorted [] l.

Definition slash_led (n : node) : bool :=
  no_kids n || forallb (fun kc : key * node => hd_is SL (fst (fst kc))) (n_st n).
Definition dyn_cond (n : node) : bool :=
  forallb (fun kc : key * node => hd_is SL (fst (fst kc)) || slash_led (snd kc)) (n_dc n)
  && forallb (fun kc : key * node => hd_is SL (fst (fst kc)) || slash_led (snd kc)) (n_dy n).
Definition wild_cond (n : node) : bool :=
  forallb (fun kc : key * node => slash_led (snd kc)) (n_wc n)
  && forallb (fun kc : key * node => slash_led (snd kc)) (n_wi n).

Fixpoint optimize (n : node) {struct n} : node :=
  if negb (n_dirty n) then n else
  let opt := map (fun kc : key * node => (fst kc, optimize (snd kc))) in
  let n' := Node (n_data n)
                 (sort_kids (opt (n_st n))) (sort_kids (opt (n_dc n))) (sort_kids (opt (n_dy n)))
                 (sort_kids (opt (n_wc n))) (sort_kids (opt (n_wi n)))
                 (sort_kids (opt (n_ec n))) (sort_kids (opt (n_en n)))
                 false false false in
  set_flags (dyn_cond n') (wild_cond n') n'.

Fixpoint parts_size (ps : list part) : nat :=
  match ps with
  | [] => 1
  | PS s :: ps' => S (length s) + parts_size ps'
  | _ :: ps' => 1 + parts_size ps'
  end.
Definition ops_fuel (ps : list part) : nat := S (parts_size ps).
