(* Display of the four error enums: the format strings are regenerated from the Rust sources
   (Gen/Formats.v); this file interprets them over the model's error values. *)
From WF Require Import Base.Bytes Spec.Route Model.Parser Model.Router Model.Display Gen.Formats.

Definition b (l : list N) : bytes := l.
Definition F_template := b [116;101;109;112;108;97;116;101]%N.
Definition F_position := b [112;111;115;105;116;105;111;110]%N.
Definition F_start := b [115;116;97;114;116]%N.
Definition F_length := b [108;101;110;103;116;104]%N.
Definition F_name := b [110;97;109;101]%N.
Definition F_arrow := b [97;114;114;111;119]%N.
Definition F_conflicts := b [99;111;110;102;108;105;99;116;115]%N.
Definition F_constraint := b [99;111;110;115;116;114;97;105;110;116]%N.
Definition F_inserted := b [105;110;115;101;114;116;101;100]%N.
Definition F_existing_type := b [101;120;105;115;116;105;110;103;95;116;121;112;101]%N.
Definition F_new_type := b [110;101;119;95;116;121;112;101]%N.
Definition F_first := b [102;105;114;115;116]%N.
Definition F_first_length := b [102;105;114;115;116;95;108;101;110;103;116;104]%N.
Definition F_second := b [115;101;99;111;110;100]%N.
Definition F_second_length := b [115;101;99;111;110;100;95;108;101;110;103;116;104]%N.

Definition lookup {A} (d : A) (k : bytes) (env : list (bytes * A)) : A :=
  match List.find (fun kv : bytes * A => beqb (fst kv) k) env with Some kv => snd kv | None => d end.

Definition CARET : byte := 94%N.
Definition SP : byte := 32%N.

(* set positions [a, a+l) of s to '^' (String::replace_range with an equally long replacement) *)
Fixpoint set_carets (s : bytes) (a l : nat) : bytes :=
  match s with
  | [] => []
  | c :: s' =>
    match a with
    | S a' => c :: set_carets s' a' l
    | O => match l with S l' => CARET :: set_carets s' O l' | O => s end
    end
  end.

Definition arrow_text (ar : arrow) (senv : list (bytes * bytes)) (nenv : list (bytes * nat)) : bytes :=
  match ar with
  | ASpacesFixed pos n => repeat SP (lookup 0 pos nenv) ++ repeat CARET n
  | ASpacesCarets pos len => repeat SP (lookup 0 pos nenv) ++ repeat CARET (lookup 0 len nenv)
  | ADupRanges =>
    set_carets (set_carets (repeat SP (length (lookup [] F_template senv)))
                           (lookup 0 F_first nenv) (lookup 0 F_first_length nenv))
               (lookup 0 F_second nenv) (lookup 0 F_second_length nenv)
  | _ => []
  end.

Fixpoint join_nl (l : list bytes) : bytes :=
  match l with
  | [] => []
  | [x] => x
  | x :: l' => x ++ NL ++ join_nl l'
  end.

Definition conflicts_text (ar : arrow) (conflicts : list bytes) : bytes :=
  match ar with
  | AConflictList indent trim =>
    let txt := join_nl (map (fun c => repeat SP indent ++ [45%N; SP] ++ c) conflicts) in
    if trim then trim_end txt else txt
  | _ => []
  end.

Definition interp (fmt : list chunk) (ar : arrow) (senv : list (bytes * bytes)) (nenv : list (bytes * nat))
           (conflicts : list bytes) : bytes :=
  flat_map (fun c =>
    match c with
    | CLit s => s
    | CField f =>
      if beqb f F_arrow then arrow_text ar senv nenv
      else if beqb f F_conflicts then conflicts_text ar conflicts
      else lookup [] f senv
    end) fmt.

Definition render_terr (e : terr) : bytes :=
  match e with
  | EEmpty => interp fmt_TemplateError_Empty arrow_TemplateError_Empty [] [] []
  | EMissingLeadingSlash t =>
    interp fmt_TemplateError_MissingLeadingSlash arrow_TemplateError_MissingLeadingSlash [(F_template, t)] [] []
  | EEmptyBraces t p =>
    interp fmt_TemplateError_EmptyBraces arrow_TemplateError_EmptyBraces [(F_template, t)] [(F_position, p)] []
  | EUnbalancedBrace t p =>
    interp fmt_TemplateError_UnbalancedBrace arrow_TemplateError_UnbalancedBrace [(F_template, t)] [(F_position, p)] []
  | EEmptyParentheses t p =>
    interp fmt_TemplateError_EmptyParentheses arrow_TemplateError_EmptyParentheses [(F_template, t)] [(F_position, p)] []
  | EUnbalancedParenthesis t p =>
    interp fmt_TemplateError_UnbalancedParenthesis arrow_TemplateError_UnbalancedParenthesis [(F_template, t)] [(F_position, p)] []
  | EEmptyParameter t s l =>
    interp fmt_TemplateError_EmptyParameter arrow_TemplateError_EmptyParameter [(F_template, t)] [(F_start, s); (F_length, l)] []
  | EInvalidParameter t n s l =>
    interp fmt_TemplateError_InvalidParameter arrow_TemplateError_InvalidParameter [(F_template, t); (F_name, n)] [(F_start, s); (F_length, l)] []
  | EDuplicateParameter t n f fl s sl =>
    interp fmt_TemplateError_DuplicateParameter arrow_TemplateError_DuplicateParameter [(F_template, t); (F_name, n)]
           [(F_first, f); (F_first_length, fl); (F_second, s); (F_second_length, sl)] []
  | EEmptyWildcard t s l =>
    interp fmt_TemplateError_EmptyWildcard arrow_TemplateError_EmptyWildcard [(F_template, t)] [(F_start, s); (F_length, l)] []
  | EEmptyConstraint t s l =>
    interp fmt_TemplateError_EmptyConstraint arrow_TemplateError_EmptyConstraint [(F_template, t)] [(F_start, s); (F_length, l)] []
  | EInvalidConstraint t n s l =>
    interp fmt_TemplateError_InvalidConstraint arrow_TemplateError_InvalidConstraint [(F_template, t); (F_name, n)] [(F_start, s); (F_length, l)] []
  | ETouchingParameters t s l =>
    interp fmt_TemplateError_TouchingParameters arrow_TemplateError_TouchingParameters [(F_template, t)] [(F_start, s); (F_length, l)] []
  end.

Definition is_delegate (ar : arrow) : bool := match ar with ADelegate => true | _ => false end.

Definition render_insert_err (e : insert_err) : bytes :=
  match e with
  | IETemplate te => if is_delegate arrow_InsertError_Template then render_terr te else []
  | IEConflict t cs =>
    interp fmt_InsertError_Conflict arrow_InsertError_Conflict [(F_template, t)] [] cs
  | IEUnknownConstraint c =>
    interp fmt_InsertError_UnknownConstraint arrow_InsertError_UnknownConstraint [(F_constraint, c)] [] []
  end.

Definition render_delete_err (e : delete_err) : bytes :=
  match e with
  | DETemplate te => if is_delegate arrow_DeleteError_Template then render_terr te else []
  | DENotFound t => interp fmt_DeleteError_NotFound arrow_DeleteError_NotFound [(F_template, t)] [] []
  | DEMismatch t i =>
    interp fmt_DeleteError_Mismatch arrow_DeleteError_Mismatch [(F_template, t); (F_inserted, i)] [] []
  end.

Definition render_constraint_err (e : constraint_err) : bytes :=
  match e with
  | CEDuplicateName n old new =>
    interp fmt_ConstraintError_DuplicateName arrow_ConstraintError_DuplicateName
           [(F_name, n); (F_existing_type, old); (F_new_type, new)] [] []
  end.
