(* Constraint check functions used by the correspondence harness.  The Rust harness defines
   constraint types with the same names and the same behaviour (harness/src/cons.rs);
   "u8" is the crate's built-in (u8::from_str). *)
From WF Require Import Base.Bytes.
Local Open Scope N_scope.

Definition is_digit (b : byte) : bool := (48 <=? b) && (b <=? 57).
Definition is_lower (b : byte) : bool := (97 <=? b) && (b <=? 122).

(* decimal value, saturating above 1000 so that long digit strings stay cheap *)
Fixpoint dec_val (acc : N) (s : bytes) : N :=
  match s with
  | [] => acc
  | b :: s' => dec_val (N.min 1000 (acc * 10 + (b - 48))) s'
  end.

Definition u8_ok (v : bytes) : bool :=
  let digits := match v with 43 :: r => r | _ => v end in
  match digits with
  | [] => false
  | _ => forallb is_digit digits && (dec_val 0 digits <=? 255)
  end.

Definition s (l : list N) : bytes := l.
Definition NAME_LOWER : bytes := [108; 111; 119; 101; 114].   (* lower *)
Definition NAME_EVEN : bytes := [101; 118; 101; 110].         (* even *)
Definition NAME_NOA : bytes := [110; 111; 97].                (* noa *)
Definition NAME_U8 : bytes := [117; 56].                      (* u8 *)

(* check function by registered TYPE name (std::any::type_name of the harness type) *)
Definition TY_LOWER : bytes := [119;102;104;58;58;99;111;110;115;58;58;76;111;119;101;114].          (* wfh::cons::Lower *)
Definition TY_LOWER2 : bytes := [119;102;104;58;58;99;111;110;115;58;58;76;111;119;101;114;50].      (* wfh::cons::Lower2 *)
Definition TY_EVEN : bytes := [119;102;104;58;58;99;111;110;115;58;58;69;118;101;110].               (* wfh::cons::Even *)
Definition TY_NOA : bytes := [119;102;104;58;58;99;111;110;115;58;58;78;111;65].                     (* wfh::cons::NoA *)
Definition TY_UNI : bytes := [119;102;104;58;58;99;111;110;115;58;58;85;110;105].                     (* wfh::cons::Uni, NAME "größe" *)

Definition tfun (ty v : bytes) : bool :=
  if beqb ty TY_LOWER then forallb is_lower v                 (* accepts "" *)
  else if beqb ty TY_LOWER2 then true                         (* a different function under the name "lower" *)
  else if beqb ty TY_EVEN then Nat.even (length v)            (* not prefix closed *)
  else if beqb ty TY_NOA then negb (match rev v with 97 :: _ => true | _ => false end)  (* does not end in 'a' *)
  else if beqb ty TY_UNI then Nat.odd (length v)                (* a constraint whose name is not ASCII *)
  else if beqb ty NAME_U8 then u8_ok v
  else false.

(* the function in force for a constraint NAME, given the registrations (name, type name) *)
Definition cfun_of (cons : list (bytes * bytes)) (name v : bytes) : bool :=
  match List.find (fun nt : bytes * bytes => beqb (fst nt) name) cons with
  | Some (_, ty) => tfun ty v
  | None => false
  end.
