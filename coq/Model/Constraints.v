(* Constraint check functions used by the correspondence harness.  The Rust harness defines
   constraint types with the same names and the same behaviour (harness/src/cons.rs);
   "u8" is the crate's built-in (u8::from_str). *)
From WF Require Import Base.Bytes.
Local Open Scope N_scope.

Definition is_digit (b : byte) : bool := (48 <=? b) && (b <=? 57).
Definition is_lower (b : byte) : bool := (97 <=? b) && (b <=? 122).

(* decimal value, saturating above 1000 so that long digit strings stay cheap *)
Fixpoint dec_val (acc : N) (s : bytes) : N :=
  match s with
  | [] => acc
  | b :: s' => dec_val (N.min 1000 (acc * 10 + (b - 48))) s'
  end.

Definition u8_ok (v : bytes) : bool :=
  let digits := match v with 43 :: r => r | _ => v end in
  match digits with
  | [] => false
  | _ => forallb is_digit digits && (dec_val 0 digits <=? 255)
  end.

Definition s (l : list N) : bytes := l.
Definition NAME_LOWER : bytes := [108; 111; 119; 101; 114].   (* lower *)
Definition NAME_EVEN : bytes := [101; 118; 101; 110].         (* even *)
Definition NAME_NOA : bytes := [110; 111; 97].                (* noa *)
Definition NAME_U8 : bytes := [117; 56].                      (* u8 *)

Definition cfun (name v : bytes) : bool :=
  if beqb name NAME_LOWER then forallb is_lower v                 (* accepts "" *)
  else if beqb name NAME_EVEN then Nat.even (length v)            (* not prefix closed *)
  else if beqb name NAME_NOA then negb (match rev v with 97 :: _ => true | _ => false end)  (* does not end in 'a' *)
  else if beqb name NAME_U8 then u8_ok v
  else false.
