(* Display of the tree, following src/node/display.rs and the key formats of src/state.rs. *)
From WF Require Import Base.Bytes Base.Utf8 Spec.Route Spec.Walk Model.Tree.
Local Open Scope N_scope.

Definition REPL : bytes := [239; 191; 189].       (* U+FFFD *)

(* String::from_utf8_lossy: every maximal invalid chunk becomes one U+FFFD *)
Fixpoint lossy (l : bytes) : bytes :=
  match l with
  | [] => []
  | b0 :: r =>
    if b0 <=? 127 then b0 :: lossy r
    else if inr 194 223 b0 then
      match r with
      | b1 :: r1 => if cont b1 then b0 :: b1 :: lossy r1 else REPL ++ lossy r
      | [] => REPL
      end
    else if inr 224 239 b0 then
      match r with
      | b1 :: r1 =>
        if (if b0 =? 224 then inr 160 191 b1 else if b0 =? 237 then inr 128 159 b1 else cont b1) then
          match r1 with
          | b2 :: r2 => if cont b2 then b0 :: b1 :: b2 :: lossy r2 else REPL ++ lossy r1
          | [] => REPL
          end
        else REPL ++ lossy r
      | [] => REPL
      end
    else if inr 240 244 b0 then
      match r with
      | b1 :: r1 =>
        if (if b0 =? 240 then inr 144 191 b1 else if b0 =? 244 then inr 128 143 b1 else cont b1) then
          match r1 with
          | b2 :: r2 =>
            if cont b2 then
              match r2 with
              | b3 :: r3 => if cont b3 then b0 :: b1 :: b2 :: b3 :: lossy r3 else REPL ++ lossy r2
              | [] => REPL
              end
            else REPL ++ lossy r1
          | [] => REPL
          end
        else REPL ++ lossy r
      | [] => REPL
      end
    else REPL ++ lossy r
  end.

Definition node_label (k : option kind) (ky : key) : bytes :=
  match k with
  | None => lossy (fst ky)
  | Some k =>
    [LB] ++ (if is_dyn k then [] else [STAR]) ++ fst ky
    ++ (match snd ky with Some c => COLON :: c | None => [] end) ++ [RB]
  end.

Definition BR_LAST : bytes := [226; 149; 176; 226; 148; 128].   (* "╰─" *)
Definition BR_MID : bytes := [226; 148; 156; 226; 148; 128].    (* "├─" *)
Definition PAD_LAST : bytes := [32; 32; 32].
Definition PAD_MID : bytes := [226; 148; 130; 32; 32].          (* "│  " *)
Definition MARK : bytes := [32; 91; 42; 93].                    (* " [*]" *)
Definition NL : bytes := [10].

Fixpoint debug_node (n : node) (label : bytes) (padding : bytes) (is_root is_last : bool) {struct n} : bytes :=
  let marked := match n_data n with Some _ => MARK | None => [] end in
  let line :=
    match label with
    | [] => []
    | _ => if is_root then label ++ marked ++ NL
           else padding ++ (if is_last then BR_LAST else BR_MID) ++ [32] ++ label ++ marked ++ NL
    end in
  let padding' :=
    if negb is_root && negb (match label with [] => true | _ => false end)
    then padding ++ (if is_last then PAD_LAST else PAD_MID) else padding in
  let root' := match label with [] => true | _ => false end in
  (* count = number of children not yet printed, this list included *)
  let fix go (k : option kind) (count : nat) (l : list (key * node)) : bytes :=
    match l with
    | [] => []
    | kc :: l' =>
      debug_node (snd kc) (node_label k (fst kc)) padding' root' (Nat.eqb count 1) ++ go k (pred count) l'
    end in
  let c0 := (length (n_st n) + length (n_dc n) + length (n_dy n) + length (n_wc n) + length (n_wi n)
             + length (n_ec n) + length (n_en n))%nat in
  let c1 := (c0 - length (n_st n))%nat in
  let c2 := (c1 - length (n_dc n))%nat in
  let c3 := (c2 - length (n_dy n))%nat in
  let c4 := (c3 - length (n_wc n))%nat in
  let c5 := (c4 - length (n_wi n))%nat in
  let c6 := (c5 - length (n_ec n))%nat in
  line ++ go None c0 (n_st n) ++ go (Some KDC) c1 (n_dc n) ++ go (Some KDY) c2 (n_dy n)
       ++ go (Some KWC) c3 (n_wc n) ++ go (Some KWI) c4 (n_wi n)
       ++ go (Some KEC) c5 (n_ec n) ++ go (Some KEN) c6 (n_en n).

Definition is_ws (b : byte) : bool := (inr 9 13 b || (b =? 32))%bool.
Fixpoint trim_end (s : bytes) : bytes :=
  match s with
  | [] => []
  | b :: s' => match trim_end s' with
               | [] => if is_ws b then [] else [b]
               | t => b :: t
               end
  end.

Definition display (n : node) : bytes := trim_end (debug_node n [] [] true true).

(* ---- what the labels of the tree spell (C15) ---- *)
Definition csuffix (c : option bytes) : bytes := match c with Some c => COLON :: c | None => [] end.
Definition render_atom (a : atom) : bytes :=
  match a with
  | AB b => [b]
  | AD n c => [LB] ++ [] ++ n ++ csuffix c ++ [RB]
  | AW n c => [LB] ++ [STAR] ++ n ++ csuffix c ++ [RB]
  end.
Definition render_route (r : route) : bytes := concat (map render_atom r).

(* the label Display would print if it did not decode literal keys lossily *)
Definition raw_label (k : option kind) (ky : key) : bytes :=
  match k with None => fst ky | Some _ => node_label k ky end.

Fixpoint spell (lab : option kind -> key -> bytes) (n : node) (acc : bytes) {struct n} : list (bytes * info) :=
  let sub (k : option kind) (l : list (key * node)) :=
    flat_map (fun kc : key * node => spell lab (snd kc) (acc ++ lab k (fst kc))) l in
  (match n_data n with Some i => [(acc, i)] | None => [] end)
  ++ sub None (n_st n) ++ sub (Some KDC) (n_dc n) ++ sub (Some KDY) (n_dy n)
  ++ sub (Some KWC) (n_wc n) ++ sub (Some KWI) (n_wi n) ++ sub (Some KEC) (n_ec n) ++ sub (Some KEN) (n_en n).


(* every literal key of the tree is valid UTF-8 on its own *)
Fixpoint keys_utf8 (n : node) : bool :=
  let sub (l : list (key * node)) := forallb (fun kc : key * node => keys_utf8 (snd kc)) l in
  forallb (fun kc : key * node => utf8_valid (fst (fst kc))) (n_st n)
  && sub (n_st n) && sub (n_dc n) && sub (n_dy n) && sub (n_wc n) && sub (n_wi n) && sub (n_ec n) && sub (n_en n).

