(* The search of src/node/search.rs once more, in CHECKED style: every index, slice and unwrap is an explicit
   operation that returns Panic when out of range / None, cursors are numbers, loops run on fuel - the style of
   Model/Parser.v.  Model/Tree.v holds the functional search the theorems about routing are proved for;
   Proofs/SearchCP.v proves that this index-level version computes the same answers and never reaches a Panic.
   No proofs here. *)
From Coq Require Import Arith.
From WF Require Import Base.Bytes Base.Utf8 Spec.Route Spec.Walk Model.Tree Model.Parser Model.Constraints.

Section FirstSomeC.
  Context {A : Type}.
  Variable f : A -> out res.
  (* `for child in children { if let Some(r) = f(child) { return Some(r) } } None` *)
  Fixpoint first_some_c (l : list A) : out res :=
    match l with
    | [] => Ret None
    | x :: l' => do r <- f x; match r with Some _ => Ret r | None => first_some_c l' end
    end.
End FirstSomeC.

Inductive mode := MDynInline | MWildInline | MWildSegment.

Section SearchC.
  Variable cons : list (bytes * bytes).          (* registered constraints: name -> type *)

  (* Node::check_constraint: `constraints.get(name).unwrap()`, then from_utf8, then the check function *)
  Definition check_c (c : option bytes) (seg : bytes) : out bool :=
    match c with
    | None => Ret true
    | Some name =>
      match List.find (fun nt : bytes * bytes => beqb (fst nt) name) cons with
      | None => Panic 40
      | Some (_, ty) => Ret (if utf8_valid seg then tfun ty seg else false)
      end
    end.

  Definition keep_best (best : res) (ky : key) (seg : bytes) (i : info) (ps : params) : res :=
    match best with
    | Some (bi, _) => if better i bi then Some (i, (fst ky, seg) :: ps) else best
    | None => Some (i, (fst ky, seg) :: ps)
    end.

  (* the grow-the-capture loop of the four *_inline functions and the two wildcard *_segment functions:
     `while consumed < path.len() { ... consumed += 1; ... &path[..consumed] ... &path[consumed..] ... }` *)
  Section Grow.
    Variables (m : mode) (rec : bytes -> out res) (ky : key) (path : bytes).
    Fixpoint grow (fuel : nat) (consumed : nat) (best : res) : out res :=
      match fuel with
      | O => Fuel
      | S f =>
        if Nat.ltb consumed (length path) then
          do stop <- (match m with
                      | MDynInline => do c <- idx path consumed 41; Ret (N.eqb c SL)       (* if path[consumed] == b'/' { break } *)
                      | _ => Ret false
                      end);
          if stop then Ret best else
          let consumed := S consumed in
          do skip <- (match m with
                      | MWildSegment =>                                                   (* only stop at a segment end *)
                        if Nat.ltb consumed (length path) then do c <- idx path consumed 42; Ret (negb (N.eqb c SL)) else Ret false
                      | _ => Ret false
                      end);
          if skip then grow f consumed best else
          do seg <- slice path 0 consumed 43;
          do okc <- check_c (snd ky) seg;
          if negb okc then grow f consumed best else
          if negb (utf8_valid seg) then grow f consumed best else
          do rest <- slice path consumed (length path) 44;
          do r <- rec rest;
          match r with
          | None => grow f consumed best
          | Some (i, ps) => grow f consumed (keep_best best ky seg i ps)
          end
        else Ret best
      end.
  End Grow.

  (* `path.iter().position(|&b| b == b'/').unwrap_or(path.len())` *)
  Fixpoint slash_pos (p : bytes) : nat :=
    match p with
    | [] => 0
    | b :: r => if N.eqb b SL then 0 else S (slash_pos r)
    end.

  (* search_dynamic_constrained_segment / search_dynamic_segment *)
  Section DynSegment.
    Variables (rec : node -> bytes -> out res) (path : bytes).
    Fixpoint dyn_segment (l : list (key * node)) : out res :=
      match l with
      | [] => Ret None
      | kc :: l' =>
        let segment_end := slash_pos path in
        if Nat.eqb segment_end 0 then Ret None else                      (* return None *)
        do seg <- slice path 0 segment_end 45;
        do okc <- check_c (snd (fst kc)) seg;
        if negb okc then dyn_segment l' else
        if negb (utf8_valid seg) then Ret None else                      (* from_utf8(segment).ok()? *)
        do rest <- slice path segment_end (length path) 46;
        do r <- rec (snd kc) rest;
        match r with
        | Some (i, ps) => Ret (Some (i, (fst (fst kc), seg) :: ps))
        | None => dyn_segment l'
        end
      end.
  End DynSegment.

  (* search_end_wildcard_constrained *)
  Fixpoint end_constrained (path : bytes) (l : list (key * node)) : out res :=
    match l with
    | [] => Ret None
    | kc :: l' =>
      do okc <- check_c (snd (fst kc)) path;
      if negb okc then end_constrained path l' else
      if negb (utf8_valid path) then Ret None else
      Ret (match n_data (snd kc) with Some i => Some (i, [(fst (fst kc), path)]) | None => None end)
    end.

  (* search_end_wildcard: only the first child is looked at *)
  Definition end_plain (path : bytes) (l : list (key * node)) : out res :=
    match l with
    | [] => Ret None
    | kc :: _ =>
      if negb (utf8_valid path) then Ret None else
      Ret (match n_data (snd kc) with Some i => Some (i, [(fst (fst kc), path)]) | None => None end)
    end.

  Definition or_else_c (a : out res) (b : out res) : out res :=
    do r <- a; match r with Some _ => Ret r | None => b end.

  Fixpoint search_c (n : node) (path : bytes) {struct n} : out res :=
    match path with
    | [] => Ret (node_done n)
    | _ :: _ =>
      let fuel := S (length path) in
      let inline (m : mode) (l : list (key * node)) :=
        first_some_c (fun kc : key * node => grow m (search_c (snd kc)) (fst kc) path fuel 0 None) l in
      or_else_c
        (* search_static: `path.len() >= prefix.len() && zip all ==` then `&path[prefix.len()..]` *)
        (first_some_c (fun kc : key * node =>
           let prefix := fst (fst kc) in
           if (Nat.leb (length prefix) (length path) && beqb prefix (firstn (length prefix) path))%bool then
             do rest <- slice path (length prefix) (length path) 47; search_c (snd kc) rest
           else Ret None) (n_st n))
      (or_else_c (if n_dflag n then dyn_segment search_c path (n_dc n) else inline MDynInline (n_dc n))
      (or_else_c (if n_dflag n then dyn_segment search_c path (n_dy n) else inline MDynInline (n_dy n))
      (or_else_c (inline (if n_wflag n then MWildSegment else MWildInline) (n_wc n))
      (or_else_c (inline (if n_wflag n then MWildSegment else MWildInline) (n_wi n))
      (or_else_c (end_constrained path (n_ec n))
                 (end_plain path (n_en n)))))))
    end.
End SearchC.
