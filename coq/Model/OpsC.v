(* insert / find / delete of src/node/{insert,find,delete}.rs and the loops around them in src/router.rs once more,
   in CHECKED style (as Model/Parser.v and Model/SearchC.v): every `prefix[0]`, `prefix[common_prefix..]`,
   `children[index]`, `children.remove(index)` is an explicit operation that returns Panic when out of range, and
   running out of fuel is the outcome Fuel, never a normal-looking value.  Model/Ops.v and Model/Router.v hold the
   functional versions the theorems about routing are proved for; Proofs/OpsCP.v proves that on every tree whose
   literal children have non-empty prefixes (every reachable tree) and for every parsed template these versions
   compute the same results and never reach Panic or Fuel.  No proofs here. *)
From Coq Require Import Arith.
From WF Require Import Base.Bytes Base.Utf8 Spec.Route Spec.Walk Model.Tree Model.Parser Model.Ops Model.Router.

Definition nilb {A} (l : list A) : bool := match l with [] => true | _ => false end.

Section Loops.
  Context {A B : Type}.
  (* `for x in l { if let Some(r) = f(x) { return Some(r) } } None` *)
  Fixpoint first_c (f : A -> out (option B)) (l : list A) : out (option B) :=
    match l with
    | [] => Ret None
    | x :: l' => do r <- f x; match r with Some _ => Ret r | None => first_c f l' end
    end.
  (* `iter_mut().find(pred)` followed by an update of the element found, in place *)
  Fixpoint upd_first_c (pred : A -> out bool) (f : A -> out A) (l : list A) : out (option (list A)) :=
    match l with
    | [] => Ret None
    | x :: l' =>
      do b <- pred x;
      if b then do y <- f x; Ret (Some (y :: l'))
      else do r <- upd_first_c pred f l'; Ret (option_map (cons x) r)
    end.
  (* `iter().position(pred)` *)
  Fixpoint position (pred : A -> bool) (l : list A) : option nat :=
    match l with
    | [] => None
    | x :: l' => if pred x then Some 0 else option_map S (position pred l')
    end.
  (* `&mut v[index]` *)
  Definition at_c (l : list A) (i : nat) (site : nat) : out A :=
    match nth_error l i with Some x => Ret x | None => Panic site end.
  (* `v.remove(index)`: the vector without that element *)
  Definition remove_c (l : list A) (i : nat) (site : nat) : out (list A) :=
    if Nat.ltb i (length l) then Ret (firstn i l ++ skipn (S i) l) else Panic site.
  (* `*child = x` through the `&mut v[index]` taken before: no further check *)
  Definition put (l : list A) (i : nat) (x : A) : list A := firstn i l ++ x :: skipn (S i) l.
  (* run f over l, stop at the first Panic *)
  Fixpoint map_c (f : A -> out B) (l : list A) : out (list B) :=
    match l with
    | [] => Ret []
    | x :: l' => do y <- f x; do ys <- map_c f l'; Ret (y :: ys)
    end.
End Loops.

(* ---- insert ---- *)
Fixpoint insert_c (fuel : nat) (n : node) (ps : list part) (d : info) {struct fuel} : out node :=
  match fuel with
  | O => Fuel
  | S f =>
    match ps with
    | [] => Ret (set_dirty true (set_data (Some d) n))
    | PS p :: ps' => insert_static_c f n p ps' d
    | p :: ps' =>
      match part_kind p ps' with
      | None => Ret n
      | Some (k, ky) =>
        if is_end k then
          if existsb (fun kc : key * node => keqb (fst kc) ky) (kids k n) then Ret n
          else Ret (set_dirty true (set_kids k (kids k n ++ [(ky, set_data (Some d) empty_node)]) n))
        else
          do r <- upd_first_c (fun kc : key * node => Ret (keqb (fst kc) ky))
                              (fun kc => do c <- insert_c f (snd kc) ps' d; Ret (fst kc, c)) (kids k n);
          match r with
          | Some l => Ret (set_dirty true (set_kids k l n))
          | None => do c <- insert_c f empty_node ps' d; Ret (set_dirty true (set_kids k (kids k n ++ [(ky, c)]) n))
          end
      end
    end
  end
with insert_static_c (fuel : nat) (n : node) (p : bytes) (ps : list part) (d : info) {struct fuel} : out node :=
  match fuel with
  | O => Fuel
  | S f =>
    do r <- upd_first_c
      (* .find(|child| child.state.prefix[0] == prefix[0]) *)
      (fun kc : key * node => do a <- idx (fst (fst kc)) 0 50; do b <- idx p 0 51; Ret (N.eqb a b))
      (fun kc =>
         let k := fst (fst kc) in
         let c := snd kc in
         let cp := lcp p k in
         if Nat.leb (length k) cp then
           if Nat.leb (length p) cp then do c' <- insert_c f c ps d; Ret (fst kc, c')
           else do rest <- slice p cp (length p) 52;                       (* &prefix[common_prefix..] *)
                do c' <- insert_static_c f c rest ps d; Ret (fst kc, c')
         else
           do ka <- slice k cp (length k) 53;                              (* child.state.prefix[common_prefix..] *)
           do pb <- slice p cp (length p) 54;                              (* prefix[common_prefix..] *)
           do kf <- slice k 0 cp 55;                                       (* child.state.prefix[..common_prefix] *)
           let a := ((ka, None), c) in
           let parent0 := Node None [] [] [] [] [] [] [] (n_dflag c) (n_wflag c) true in
           if nilb pb then do c' <- insert_c f (set_st [a] parent0) ps d; Ret ((kf, None), c')
           else
             let kids2 := [a; ((pb, None), empty_node)] in
             do b <- at_c kids2 1 56;                                      (* child.static_children[1] *)
             do b' <- insert_c f (snd b) ps d;
             Ret ((kf, None), set_st (put kids2 1 (fst b, b')) parent0))
      (n_st n);
    match r with
    | Some l => Ret (set_dirty true (set_st l n))
    | None => do c <- insert_c f empty_node ps d; Ret (set_dirty true (set_st (n_st n ++ [((p, None), c)]) n))
    end
  end.

(* ---- find ---- *)
Fixpoint find_c (fuel : nat) (n : node) (ps : list part) {struct fuel} : out (option info) :=
  match fuel with
  | O => Fuel
  | S f =>
    match ps with
    | [] => Ret (n_data n)
    | PS p :: ps' => find_static_c f n p ps'
    | p :: ps' =>
      match part_kind p ps' with
      | None => Ret None
      | Some (k, ky) =>
        match List.find (fun kc : key * node => keqb (fst kc) ky) (kids k n) with
        | Some kc => find_c f (snd kc) ps'
        | None => Ret None
        end
      end
    end
  end
with find_static_c (fuel : nat) (n : node) (p : bytes) (ps : list part) {struct fuel} : out (option info) :=
  match fuel with
  | O => Fuel
  | S f =>
    do r <- first_c (fun kc : key * node =>
      let k := fst (fst kc) in
      (* if !child.state.prefix.is_empty() && child.state.prefix[0] == prefix[0] *)
      do hit <- (if nilb k then Ret false else do a <- idx k 0 57; do b <- idx p 0 58; Ret (N.eqb a b));
      if hit then
        let cp := lcp p k in
        if Nat.leb (length k) cp then
          if Nat.leb (length p) cp then do x <- find_c f (snd kc) ps; Ret (Some x)
          else do rest <- slice p cp (length p) 59;                        (* prefix[common_prefix..].to_vec() *)
               if nilb rest then Ret None
               else do x <- find_static_c f (snd kc) rest ps; Ret (Some x)
        else Ret None
      else Ret None) (n_st n);
    Ret (match r with Some x => x | None => None end)
  end.

(* ---- delete ---- *)
Fixpoint delete_c (fuel : nat) (n : node) (ps : list part) {struct fuel} : out (node * option info) :=
  match fuel with
  | O => Fuel
  | S f =>
    match ps with
    | [] => Ret (match n_data n with
                 | None => (n, None)
                 | Some d => (set_dirty true (set_data None n), Some d)
                 end)
    | PS p :: ps' => delete_static_c f n p ps'
    | p :: ps' =>
      match part_kind p ps' with
      | None => Ret (n, None)
      | Some (k, ky) =>
        match position (fun kc : key * node => keqb (fst kc) ky) (kids k n) with
        | None => Ret (n, None)
        | Some index =>
          if is_end k then
            do kc <- at_c (kids k n) index 60;
            do l <- remove_c (kids k n) index 61;                          (* self.end_..._children.remove(index) *)
            Ret (match n_data (snd kc) with
                 | None => (set_kids k l n, None)
                 | Some d => (set_dirty true (set_kids k l n), Some d)
                 end)
          else
            do kc <- at_c (kids k n) index 62;                             (* &mut self.<kind>_children[index] *)
            do cr <- delete_c f (snd kc) ps';
            let '(c', r) := cr in
            if is_empty c' then do l <- remove_c (kids k n) index 63; Ret (set_dirty true (set_kids k l n), r)
            else Ret (set_kids k (put (kids k n) index (fst kc, c')) n, r)
        end
      end
    end
  end
with delete_static_c (fuel : nat) (n : node) (p : bytes) (ps : list part) {struct fuel} : out (node * option info) :=
  match fuel with
  | O => Fuel
  | S f =>
    (* position(|child| prefix.len() >= child.state.prefix.len() && zip.all(==))? *)
    match position (fun kc : key * node =>
            match starts_with (fst (fst kc)) p with Some _ => true | None => false end) (n_st n) with
    | None => Ret (n, None)
    | Some index =>
      do kc <- at_c (n_st n) index 64;                                     (* &mut self.static_children[index] *)
      let k := fst (fst kc) in
      let c := set_dirty true (snd kc) in
      do rem <- slice p (length k) (length p) 65;                          (* &prefix[child.state.prefix.len()..] *)
      do cr <- (if nilb rem then delete_c f c ps else delete_static_c f c rem ps);
      let '(c', r) := cr in
      if is_empty c' then do l <- remove_c (n_st n) index 66; Ret (set_dirty true (set_st l n), r)
      else if is_compressible c' then
        do m <- at_c (n_st c') 0 67;                                       (* child.static_children.remove(0) *)
        Ret (set_st (put (n_st n) index ((k ++ fst (fst m), None), set_dirty true (snd m))) n, r)
      else Ret (set_st (put (n_st n) index ((k, None), c')) n, r)
    end
  end.

(* ---- the router-level loops (src/router.rs insert / delete) over the checked operations ---- *)
Definition of_out {E A} (r : router) (o : out (router * result E A)) : router * result E A :=
  match o with
  | Ret x => x
  | Err _ => (r, RPanic 998)            (* the tree operations raise no template error *)
  | Panic s => (r, RPanic s)
  | Fuel => (r, RPanic 999)
  end.

Definition rinsert_c (r : router) (t : bytes) (d : N) : router * result insert_err unit :=
  match parse t with
  | Panic s => (r, RPanic s)
  | Fuel => (r, RPanic 999)
  | Err e => (r, RErr (IETemplate e))
  | Ret es =>
    match first_some (fun e : expansion =>
            first_some (fun p => match part_constraint p with
                                 | Some c => if registered r c then None else Some c
                                 | None => None end) (rev (snd e))) es with
    | Some c => (r, RErr (IEUnknownConstraint c))
    | None =>
      of_out r (
        do found <- map_c (fun e : expansion => find_c (ops_fuel (snd e)) (r_root r) (snd e)) es;
        let conflicts := filter_map (option_map i_template) found in
        match conflicts with
        | _ :: _ => Ret (r, RErr (IEConflict t (dedup (bsort conflicts))))
        | [] =>
          let shared := match es with _ :: _ :: _ => true | _ => false end in
          do root <- fold_left (fun (acc : out node) (e : expansion) =>
                        do root <- acc;
                        insert_c (ops_fuel (snd e)) root (snd e)
                                 (Info t (if shared then Some (fst e) else None)
                                       (count_slash (fst e)) (N.of_nat (length (fst e))) d))
                      es (Ret (r_root r));
          Ret (Router (optimize root) (r_constraints r), ROk tt)
        end)
    end
  end.

Definition rdelete_c (r : router) (t : bytes) : router * result delete_err N :=
  match parse t with
  | Panic s => (r, RPanic s)
  | Fuel => (r, RPanic 999)
  | Err e => (r, RErr (DETemplate e))
  | Ret es =>
    of_out r (
      do found <- map_c (fun e : expansion => find_c (ops_fuel (snd e)) (r_root r) (snd e)) es;
      match first_some (fun x : option info =>
              match x with
              | Some i => if beqb (i_template i) t then None else Some (i_template i)
              | None => None end) found with
      | Some inserted => Ret (r, RErr (DEMismatch t inserted))
      | None =>
        if existsb (fun x : option info => match x with Some _ => false | None => true end) found
        then Ret (r, RErr (DENotFound t))
        else
          do acc <- fold_left (fun (acc : out (node * option N)) (e : expansion) =>
                        do a <- acc;
                        do cr <- delete_c (ops_fuel (snd e)) (fst a) (snd e);
                        let '(root', x) := cr in
                        Ret (root', match x with Some i => Some (i_data i) | None => snd a end))
                      es (Ret (r_root r, None));
          let '(root, output) := acc in
          Ret (match output with
               | Some d => (Router (optimize root) (r_constraints r), ROk d)
               | None => (Router root (r_constraints r), RErr (DENotFound t))
               end)
      end)
  end.
