
val implb : bool -> bool -> bool

val negb : bool -> bool

type nat =
| O
| S of nat

val option_map : ('a1 -> 'a2) -> 'a1 option -> 'a2 option

val fst : ('a1 * 'a2) -> 'a1

val snd : ('a1 * 'a2) -> 'a2

val length : 'a1 list -> nat

val app : 'a1 list -> 'a1 list -> 'a1 list

type comparison =
| Eq
| Lt
| Gt

val compOpp : comparison -> comparison

val pred : nat -> nat

val add : nat -> nat -> nat

val sub : nat -> nat -> nat

val eqb : nat -> nat -> bool

val leb : nat -> nat -> bool

val ltb : nat -> nat -> bool

val even : nat -> bool

val eqb0 : bool -> bool -> bool

type positive =
| XI of positive
| XO of positive
| XH

type n =
| N0
| Npos of positive

type z =
| Z0
| Zpos of positive
| Zneg of positive

module Nat :
 sig
  val eqb : nat -> nat -> bool

  val leb : nat -> nat -> bool

  val ltb : nat -> nat -> bool
 end

module Pos :
 sig
  type mask =
  | IsNul
  | IsPos of positive
  | IsNeg
 end

module Coq_Pos :
 sig
  val succ : positive -> positive

  val add : positive -> positive -> positive

  val add_carry : positive -> positive -> positive

  val pred_double : positive -> positive

  type mask = Pos.mask =
  | IsNul
  | IsPos of positive
  | IsNeg

  val succ_double_mask : mask -> mask

  val double_mask : mask -> mask

  val double_pred_mask : positive -> mask

  val sub_mask : positive -> positive -> mask

  val sub_mask_carry : positive -> positive -> mask

  val mul : positive -> positive -> positive

  val compare_cont : comparison -> positive -> positive -> comparison

  val compare : positive -> positive -> comparison

  val eqb : positive -> positive -> bool

  val iter_op : ('a1 -> 'a1 -> 'a1) -> positive -> 'a1 -> 'a1

  val to_nat : positive -> nat

  val of_succ_nat : nat -> positive
 end

module N :
 sig
  val add : n -> n -> n

  val sub : n -> n -> n

  val mul : n -> n -> n

  val compare : n -> n -> comparison

  val eqb : n -> n -> bool

  val leb : n -> n -> bool

  val min : n -> n -> n

  val to_nat : n -> nat

  val of_nat : nat -> n
 end

type ascii =
| Ascii of bool * bool * bool * bool * bool * bool * bool * bool

val n_of_digits : bool list -> n

val n_of_ascii : ascii -> n

val tl : 'a1 list -> 'a1 list

val nth_error : 'a1 list -> nat -> 'a1 option

val rev : 'a1 list -> 'a1 list

val map : ('a1 -> 'a2) -> 'a1 list -> 'a2 list

val flat_map : ('a1 -> 'a2 list) -> 'a1 list -> 'a2 list

val fold_left : ('a1 -> 'a2 -> 'a1) -> 'a2 list -> 'a1 -> 'a1

val fold_right : ('a2 -> 'a1 -> 'a1) -> 'a1 -> 'a2 list -> 'a1

val existsb : ('a1 -> bool) -> 'a1 list -> bool

val forallb : ('a1 -> bool) -> 'a1 list -> bool

val filter : ('a1 -> bool) -> 'a1 list -> 'a1 list

val find : ('a1 -> bool) -> 'a1 list -> 'a1 option

val combine : 'a1 list -> 'a2 list -> ('a1 * 'a2) list

val firstn : nat -> 'a1 list -> 'a1 list

val skipn : nat -> 'a1 list -> 'a1 list

val repeat : 'a1 -> nat -> 'a1 list

module Z :
 sig
  val double : z -> z

  val succ_double : z -> z

  val pred_double : z -> z

  val pos_sub : positive -> positive -> z

  val add : z -> z -> z

  val opp : z -> z

  val sub : z -> z -> z

  val compare : z -> z -> comparison

  val ltb : z -> z -> bool

  val eqb : z -> z -> bool
 end

type string =
| EmptyString
| String of ascii * string

val list_ascii_of_string : string -> ascii list

type byte = n

type bytes = byte list

val sL : byte

val bSL : byte

val lP : byte

val rP : byte

val lB : byte

val rB : byte

val cOLON : byte

val sTAR : byte

val beqb : bytes -> bytes -> bool

val starts_with : bytes -> bytes -> bytes option

val bcmp : bytes -> bytes -> comparison

val obeqb : bytes option -> bytes option -> bool

val ocmp : bytes option -> bytes option -> comparison

val lcp : bytes -> bytes -> nat

val hd_is : byte -> bytes -> bool

val count_byte : byte -> bytes -> nat

val first_some : ('a1 -> 'a2 option) -> 'a1 list -> 'a2 option

val filter_map : ('a1 -> 'a2 option) -> 'a1 list -> 'a2 list

val or_else : 'a1 option -> 'a1 option -> 'a1 option

val inr : n -> n -> n -> bool

val cont : n -> bool

val utf8_valid : bytes -> bool

type atom =
| AB of byte
| AD of bytes * bytes option
| AW of bytes * bytes option

type route = atom list

type info = { i_template : bytes; i_expanded : bytes option; i_depth : 
              n; i_length : n; i_data : n }

type routes = (route * info) list

type params = (bytes * bytes) list

type res = (info * params) option

type part =
| PS of bytes
| PD of bytes * bytes option
| PW of bytes * bytes option

val atoms_of_part : part -> route

val atoms_of : part list -> route

val param_names : route -> bytes list

val copt : (bytes -> bytes -> bool) -> bytes option -> bytes -> bool

type kind =
| KDC
| KDY
| KWC
| KWI
| KEC
| KEN

val all_kinds : kind list

val kind_eqb : kind -> kind -> bool

type key = bytes * bytes option

val keqb : key -> key -> bool

val kcmp : key -> key -> comparison

val classify : route -> ((kind * key) * route) option

val key_of : kind -> (route * info) -> (key * (route * info)) option

val ginsert :
  key -> (route * info) -> (key * routes) list -> (key * routes) list

val groups : kind -> routes -> (key * routes) list

val strip : byte -> (route * info) -> (route * info) option

val done0 : routes -> res

val better : info -> info -> bool

type cand = bytes * bytes

val cands_from : bool -> bytes -> bytes -> cand list

val is_dyn : kind -> bool

val is_end : kind -> bool

val cands : kind -> bytes -> cand list

val ok : (bytes -> bytes -> bool) -> key -> bytes -> bool

val pick :
  (bytes -> bytes -> bool) -> (bytes -> res) -> key -> cand list -> res

val walk : (bytes -> bytes -> bool) -> nat -> routes -> bytes -> res

val w : (bytes -> bytes -> bool) -> routes -> bytes -> res

type item =
| Chunk of bytes
| Group of item list

type gres =
| GOk of item list * bool * bytes
| GErr

val push_byte : byte -> item list -> item list

val gparse : nat -> bytes -> gres

val alts : item -> bytes list

val expand_items : item list -> bytes list

val expansions_spec : bytes -> bytes list option

val invalid_name_char : byte -> bool

val brace_content : bytes -> nat -> (bytes * bytes) option

val split_colon : bytes -> bytes * bytes option

val param_of_content : bytes -> part option

val static_text : nat -> bytes -> bytes * bytes

val exp_parts : nat -> bytes -> bool -> bytes list -> part list option

val wellformed_exp : bytes -> part list option

val template_spec : bytes -> (bytes * part list) list option

val fits_with :
  (bytes -> bytes -> bool) -> route -> bytes -> bytes list -> bool

val fits_b : (bytes -> bytes -> bool) -> route -> bytes -> bool

val any_fits_b : (bytes -> bytes -> bool) -> routes -> bytes -> bool

val list_beqb : bytes list -> bytes list -> bool

val info_eqb : info -> info -> bool

val leftmost_longest_b :
  (bytes -> bytes -> bool) -> route -> bytes -> bytes list -> bool

type live = (bytes * n) list

val route_eqb : route -> route -> bool

val ends_in_wild : route -> bool

val add_route : (route * info) -> routes -> routes

val exp_info : bytes -> bool -> bytes -> n -> info

val template_routes : bytes -> n -> routes option

val live_routes : live -> routes

val owner : routes -> route -> bytes option

val bins : bytes -> bytes list -> bytes list

val sort_set : bytes list -> bytes list

val route_constraints : route -> bytes list

type insert_spec_res =
| ISMalformed
| ISUnknown of bytes list
| ISConflict of bytes list
| ISOk

val insert_spec : live -> (bytes -> bool) -> bytes -> insert_spec_res

type delete_spec_res =
| DSMalformed
| DSOk of n
| DSMismatch of bytes list
| DSNotFound

val delete_spec : live -> bytes -> delete_spec_res

val live_remove : live -> bytes -> live

val tfits_b : (bytes -> bytes -> bool) -> bytes -> bytes -> bool

type node = { n_data : info option; n_st : (key * node) list;
              n_dc : (key * node) list; n_dy : (key * node) list;
              n_wc : (key * node) list; n_wi : (key * node) list;
              n_ec : (key * node) list; n_en : (key * node) list;
              n_dflag : bool; n_wflag : bool; n_dirty : bool }

val kids : kind -> node -> (key * node) list

val empty_node : node

val boundary : cand -> bool

val span_seg : bytes -> bytes * bytes

val seg_cands : kind -> bytes -> cand list

val tcands : node -> kind -> bytes -> cand list

val node_done : node -> res

val search : (bytes -> bytes -> bool) -> node -> bytes -> res

val head_atom : kind -> key -> atom

val cons_atoms : route -> routes -> routes

val routes_of : node -> routes

val is_nil : 'a1 list -> bool

val strictly_sorted : (key * node) list -> bool

val key_kind_ok : kind -> key -> bool

val first_byte : key -> byte option

val static_keys_ok : (key * node) list -> bool

val only_static_kids : node -> bool

val slash_ok : node -> bool

val has_data : node -> bool

val inv_b : node -> bool

val no_kids_b : node -> bool

val compressible_b : node -> bool

val canon_node : bool -> node -> bool

val canonical_b : node -> bool

type terr =
| EEmpty
| EMissingLeadingSlash of bytes
| EEmptyBraces of bytes * nat
| EUnbalancedBrace of bytes * nat
| EEmptyParentheses of bytes * nat
| EUnbalancedParenthesis of bytes * nat
| EEmptyParameter of bytes * nat * nat
| EInvalidParameter of bytes * bytes * nat * nat
| EDuplicateParameter of bytes * bytes * nat * nat * nat * nat
| EEmptyWildcard of bytes * nat * nat
| EEmptyConstraint of bytes * nat * nat
| EInvalidConstraint of bytes * bytes * nat * nat
| ETouchingParameters of bytes * nat * nat

type 'a out =
| Ret of 'a
| Err of terr
| Panic of nat
| Fuel

val bind : 'a1 out -> ('a1 -> 'a2 out) -> 'a2 out

val idx : bytes -> nat -> nat -> byte out

val slice : bytes -> nat -> nat -> nat -> bytes out

val subn : nat -> nat -> nat -> nat out

val iNVALID_PARAM_CHARS : bytes

val has_invalid : bytes -> bool

val expand : nat -> bytes -> nat -> nat -> bytes list out

val static_part : nat -> bytes -> nat -> bytes -> (bytes * nat) out

val find_colon : bytes -> nat option

val brace_scan : nat -> bytes -> nat -> nat -> (nat * nat) out

val parameter_part : bytes -> nat -> (part * nat) out

val part_name : part -> bytes option

val last_opt : 'a1 list -> 'a1 option

val template_loop :
  nat -> bytes -> nat -> ((bytes * nat) * nat) list -> part list -> part list
  out

type expansion = bytes * part list

val parse_template : bytes -> expansion out

val map_out : ('a1 -> 'a2 out) -> 'a1 list -> 'a2 list out

val parse : bytes -> expansion list out

val set_data : info option -> node -> node

val set_st : (key * node) list -> node -> node

val set_kids : kind -> (key * node) list -> node -> node

val set_dirty : bool -> node -> node

val set_flags : bool -> bool -> node -> node

val part_kind : part -> part list -> (kind * key) option

val same_first : bytes -> bytes -> bool

val upd_first : ('a1 -> bool) -> ('a1 -> 'a1) -> 'a1 list -> 'a1 list option

val insert : nat -> node -> part list -> info -> node

val insert_static : nat -> node -> bytes -> part list -> info -> node

val find_node : nat -> node -> part list -> info option

val find_static : nat -> node -> bytes -> part list -> info option

val split_at :
  ('a1 -> bool) -> 'a1 list -> (('a1 list * 'a1) * 'a1 list) option

val no_kids : node -> bool

val is_empty : node -> bool

val is_compressible : node -> bool

val delete : nat -> node -> part list -> node * info option

val delete_static : nat -> node -> bytes -> part list -> node * info option

val ins_sorted : (key * node) -> (key * node) list -> (key * node) list

val sort_kids : (key * node) list -> (key * node) list

val slash_led : node -> bool

val dyn_cond : node -> bool

val wild_cond : node -> bool

val optimize : node -> node

val parts_size : part list -> nat

val ops_fuel : part list -> nat

type router = { r_root : node; r_constraints : (bytes * bytes) list }

type insert_err =
| IETemplate of terr
| IEConflict of bytes * bytes list
| IEUnknownConstraint of bytes

type delete_err =
| DETemplate of terr
| DENotFound of bytes
| DEMismatch of bytes * bytes

type constraint_err =
| CEDuplicateName of bytes * bytes * bytes

type ('e, 'a) result =
| ROk of 'a
| RErr of 'e
| RPanic of nat

val registered : router -> bytes -> bool

val rconstraint :
  router -> bytes -> bytes -> router * (constraint_err, unit) result

val part_constraint : part -> bytes option

val bins0 : bytes -> bytes list -> bytes list

val bsort : bytes list -> bytes list

val dedup : bytes list -> bytes list

val count_slash : bytes -> n

val rinsert : router -> bytes -> n -> router * (insert_err, unit) result

val rdelete : router -> bytes -> router * (delete_err, n) result

val rEPL : bytes

val lossy : bytes -> bytes

val node_label : kind option -> key -> bytes

val bR_LAST : bytes

val bR_MID : bytes

val pAD_LAST : bytes

val pAD_MID : bytes

val mARK : bytes

val nL : bytes

val debug_node : node -> bytes -> bytes -> bool -> bool -> bytes

val is_ws : byte -> bool

val trim_end : bytes -> bytes

val display : node -> bytes

type chunk =
| CLit of bytes
| CField of bytes

type arrow =
| ANone
| ASpacesFixed of bytes * nat
| ASpacesCarets of bytes * bytes
| ADupRanges
| AConflictList of nat
| ADelegate
| AUntranslatable

val fmt_TemplateError_Empty : chunk list

val arrow_TemplateError_Empty : arrow

val fmt_TemplateError_MissingLeadingSlash : chunk list

val arrow_TemplateError_MissingLeadingSlash : arrow

val fmt_TemplateError_EmptyBraces : chunk list

val arrow_TemplateError_EmptyBraces : arrow

val fmt_TemplateError_UnbalancedBrace : chunk list

val arrow_TemplateError_UnbalancedBrace : arrow

val fmt_TemplateError_EmptyParentheses : chunk list

val arrow_TemplateError_EmptyParentheses : arrow

val fmt_TemplateError_UnbalancedParenthesis : chunk list

val arrow_TemplateError_UnbalancedParenthesis : arrow

val fmt_TemplateError_EmptyParameter : chunk list

val arrow_TemplateError_EmptyParameter : arrow

val fmt_TemplateError_InvalidParameter : chunk list

val arrow_TemplateError_InvalidParameter : arrow

val fmt_TemplateError_DuplicateParameter : chunk list

val arrow_TemplateError_DuplicateParameter : arrow

val fmt_TemplateError_EmptyWildcard : chunk list

val arrow_TemplateError_EmptyWildcard : arrow

val fmt_TemplateError_EmptyConstraint : chunk list

val arrow_TemplateError_EmptyConstraint : arrow

val fmt_TemplateError_InvalidConstraint : chunk list

val arrow_TemplateError_InvalidConstraint : arrow

val fmt_TemplateError_TouchingParameters : chunk list

val arrow_TemplateError_TouchingParameters : arrow

val arrow_InsertError_Template : arrow

val fmt_InsertError_Conflict : chunk list

val arrow_InsertError_Conflict : arrow

val fmt_InsertError_UnknownConstraint : chunk list

val arrow_InsertError_UnknownConstraint : arrow

val arrow_DeleteError_Template : arrow

val fmt_DeleteError_NotFound : chunk list

val arrow_DeleteError_NotFound : arrow

val fmt_DeleteError_Mismatch : chunk list

val arrow_DeleteError_Mismatch : arrow

val fmt_ConstraintError_DuplicateName : chunk list

val arrow_ConstraintError_DuplicateName : arrow

val b : n list -> bytes

val f_template : bytes

val f_position : bytes

val f_start : bytes

val f_length : bytes

val f_name : bytes

val f_arrow : bytes

val f_conflicts : bytes

val f_constraint : bytes

val f_inserted : bytes

val f_existing_type : bytes

val f_new_type : bytes

val f_first : bytes

val f_first_length : bytes

val f_second : bytes

val f_second_length : bytes

val lookup : 'a1 -> bytes -> (bytes * 'a1) list -> 'a1

val cARET : byte

val sP : byte

val set_carets : bytes -> nat -> nat -> bytes

val arrow_text : arrow -> (bytes * bytes) list -> (bytes * nat) list -> bytes

val join_nl : bytes list -> bytes

val conflicts_text : arrow -> bytes list -> bytes

val interp :
  chunk list -> arrow -> (bytes * bytes) list -> (bytes * nat) list -> bytes
  list -> bytes

val render_terr : terr -> bytes

val is_delegate : arrow -> bool

val render_insert_err : insert_err -> bytes

val render_delete_err : delete_err -> bytes

val render_constraint_err : constraint_err -> bytes

val is_digit : byte -> bool

val is_lower : byte -> bool

val dec_val : n -> bytes -> n

val u8_ok : bytes -> bool

val nAME_LOWER : bytes

val nAME_EVEN : bytes

val nAME_NOA : bytes

val nAME_U8 : bytes

val cfun : bytes -> bytes -> bool

type tok = bytes

val w0 : string -> bytes

val split_sp : bytes -> bytes -> tok list

val tokens : bytes -> tok list

type 'a p = tok list -> ('a * tok list) option

val pret : 'a1 -> 'a1 p

val pbind : 'a1 p -> ('a1 -> 'a2 p) -> 'a2 p

val pfail : 'a1 p

val ptok : tok p

val hexval : n -> n option

val unhex : bytes -> bytes option

val phex : bytes p

val decval : n -> bytes -> n option

val pnum : n p

val pnat : nat p

val pbool : bool p

val popt : 'a1 p -> 'a1 option p

val prep : nat -> 'a1 p -> 'a1 list p

val plist : 'a1 p -> 'a1 list p

type sres = (((bytes * bytes option) * n) * params) option

type rsearch_res =
| SPanic
| SRes of sres

type event =
| EvNew of n
| EvClone of n * n
| EvConstraint of n * bytes * bytes * (constraint_err, unit) result * bytes
| EvInsert of n * bytes * n * (insert_err, unit) result * bytes * node * bytes
| EvDelete of n * bytes * (delete_err, n) result * bytes * node * bytes
| EvSearch of n * bytes * rsearch_res
| EvDumpOf of n * node * bytes
| EvSame of n * n
| EvParse of bytes * expansion list out * bytes
| EvBuiltin of bytes * bytes * bool * bool
| EvOci of bytes * bytes * (bytes * params) option
| EvEnd

val pterr : terr p

val pinsert_res : (insert_err, unit) result p

val pdelete_res : (delete_err, n) result p

val pconstraint_res : (constraint_err, unit) result p

val pparam : (bytes * bytes) p

val psearch_res : rsearch_res p

val pdata : info option p

val pnode : nat -> node p

val ppart : part p

val pexpansion : expansion p

val pparse_res : expansion list out p

val pevent : nat -> event p

val parse_line : bytes -> event option

type fkind =
| FBadLine
| FPanic
| FOpsInsert
| FOpsDelete
| FOpsConstraint
| FOpsSearch
| FTree
| FFlags
| FDisplay
| FRenderInsert
| FRenderDelete
| FRenderConstraint
| FRenderParse
| FRenderField
| FParse
| FGrammar
| FErrOk
| FInv
| FCanonical
| FRoutes
| FWalkGenuine
| FWalkMissed
| FWalkPriority
| FGreedy
| FSpecInsert
| FSpecDelete
| FSpecConstraint
| FNoop
| FRoundtrip
| FInterfere
| FNotRouted
| FSame
| FDumpOf
| FBuiltin
| FOci
| FUnknownRouter

type finding = fkind * bytes list

val oinfo_eqb : info option -> info option -> bool

val node_eqb : node -> node -> bool

val flags_eqb : node -> node -> bool

val nat_list_eqb : nat list -> nat list -> bool

val terr_key : terr -> (n * bytes list) * nat list

val key3_eqb :
  ((n * bytes list) * nat list) -> ((n * bytes list) * nat list) -> bool

val terr_eqb : terr -> terr -> bool

val ierr_eqb : insert_err -> insert_err -> bool

val derr_eqb : delete_err -> delete_err -> bool

val cerr_eqb : constraint_err -> constraint_err -> bool

val result_eqb :
  ('a1 -> 'a1 -> bool) -> ('a2 -> 'a2 -> bool) -> ('a1, 'a2) result -> ('a1,
  'a2) result -> bool

val part_eqb : part -> part -> bool

val parts_eqb : part list -> part list -> bool

val exps_eqb : expansion list -> expansion list -> bool

val out_eqb : expansion list out -> expansion list out -> bool

val params_eqb : params -> params -> bool

val sres_of : res -> sres

val sres_eqb : sres -> sres -> bool

val infix_b : bytes -> bytes -> bool

val routes_sub : routes -> routes -> bool

val routes_same : routes -> routes -> bool

val slice_b : bytes -> nat -> nat -> bytes option

val unmatched_parens : nat -> bytes -> nat -> nat list -> nat list

val unescaped_at : nat -> bytes -> nat -> nat -> bool

val first_brace_fault : nat -> bytes -> nat -> nat option

val param_at : bytes -> nat -> (nat * bytes) option

val content_name : bytes -> bytes

val err_ok_b : bytes -> terr -> bool

val terr_template : terr -> bytes

val tEMPLATE_LABEL : bytes

val cARET_INDENT : bytes

val terr_caret : terr -> (nat * nat) option

val terr_render_ok : terr -> bytes -> bool

type rst = { rs_dump : node; rs_disp : bytes; rs_cons : (bytes * bytes) list;
             rs_live : live; rs_undo : ((bytes * node) * bytes) option;
             rs_before : ((bool * bytes) * (bytes * sres) list) option;
             rs_searches : (bytes * sres) list }

type state = (n * rst) list

val get_r : state -> n -> rst option

val set_r : state -> n -> rst -> state

val bUILTIN_NAMES : bytes list

val bUILTIN_TYPES : bytes list

val new_rst : rst

val fl : bool -> fkind -> bytes list -> finding list

val registered_b : (bytes * bytes) list -> bytes -> bool

val check_dump : live -> node -> bytes -> finding list

val single_group_free : live -> route option

val check_search : rst -> bytes -> sres -> finding list

val check_insert :
  rst -> bytes -> n -> (insert_err, unit) result -> bytes -> node -> bytes ->
  rst * finding list

val check_delete :
  rst -> bytes -> (delete_err, n) result -> bytes -> node -> bytes ->
  rst * finding list

val check_constraint :
  rst -> bytes -> bytes -> (constraint_err, unit) result -> bytes ->
  rst * finding list

val check_parse : bytes -> expansion list out -> bytes -> finding list

val step : state -> event -> state * finding list

val step_line : state -> bytes -> state * finding list

val oci_step : bytes -> finding list
