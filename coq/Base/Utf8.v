(* Recogniser of exactly the byte strings std::str::from_utf8 accepts. *)
From WF Require Import Base.Bytes.
Local Open Scope N_scope.

Definition inr (lo hi b : N) : bool := (lo <=? b) && (b <=? hi).
Definition cont (b : N) : bool := inr 128 191 b.

Fixpoint utf8_valid (l : bytes) : bool :=
  match l with
  | [] => true
  | b0 :: r =>
    if b0 <=? 127 then utf8_valid r
    else if inr 194 223 b0 then
      match r with b1 :: r' => cont b1 && utf8_valid r' | _ => false end
    else if inr 224 239 b0 then
      match r with
      | b1 :: b2 :: r' =>
        (if b0 =? 224 then inr 160 191 b1 else if b0 =? 237 then inr 128 159 b1 else cont b1)
        && cont b2 && utf8_valid r'
      | _ => false end
    else if inr 240 244 b0 then
      match r with
      | b1 :: b2 :: b3 :: r' =>
        (if b0 =? 240 then inr 144 191 b1 else if b0 =? 244 then inr 128 143 b1 else cont b1)
        && cont b2 && cont b3 && utf8_valid r'
      | _ => false end
    else false
  end.
