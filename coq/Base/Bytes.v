(* Bytes, byte strings, prefix tests, lexicographic order. No proofs here. *)
From Coq Require Export List NArith Bool.
Export ListNotations.

Definition byte := N.
Definition bytes := list byte.

Definition SL : byte := 47%N.      (* / *)
Definition BSL : byte := 92%N.     (* \ *)
Definition LP : byte := 40%N.      (* ( *)
Definition RP : byte := 41%N.      (* ) *)
Definition LB : byte := 123%N.     (* { *)
Definition RB : byte := 125%N.     (* } *)
Definition COLON : byte := 58%N.   (* : *)
Definition STAR : byte := 42%N.    (* * *)

Fixpoint beqb (a b : bytes) : bool :=
  match a, b with
  | [], [] => true
  | x :: a', y :: b' => N.eqb x y && beqb a' b'
  | _, _ => false
  end.

(* [starts_with p s] = Some rest  iff  s = p ++ rest *)
Fixpoint starts_with (p s : bytes) : option bytes :=
  match p, s with
  | [], _ => Some s
  | x :: p', y :: s' => if N.eqb x y then starts_with p' s' else None
  | _ :: _, [] => None
  end.

(* lexicographic comparison: the order of Rust's Vec<u8> / String *)
Fixpoint bcmp (a b : bytes) : comparison :=
  match a, b with
  | [], [] => Eq
  | [], _ :: _ => Lt
  | _ :: _, [] => Gt
  | x :: a', y :: b' => match N.compare x y with Eq => bcmp a' b' | c => c end
  end.

Definition obeqb (a b : option bytes) : bool :=
  match a, b with
  | None, None => true
  | Some x, Some y => beqb x y
  | _, _ => false
  end.

Definition ocmp (a b : option bytes) : comparison :=
  match a, b with
  | None, None => Eq
  | None, Some _ => Lt
  | Some _, None => Gt
  | Some x, Some y => bcmp x y
  end.

(* length of the longest common prefix *)
Fixpoint lcp (a b : bytes) : nat :=
  match a, b with
  | x :: a', y :: b' => if N.eqb x y then S (lcp a' b') else 0
  | _, _ => 0
  end.

Definition hd_is (b : byte) (s : bytes) : bool :=
  match s with x :: _ => N.eqb x b | [] => false end.

Definition count_byte (b : byte) (s : bytes) : nat := length (filter (N.eqb b) s).

Section FirstSome.
  Context {A B : Type}.
  Variable f : A -> option B.
  Fixpoint first_some (l : list A) : option B :=
    match l with
    | [] => None
    | x :: l' => match f x with Some r => Some r | None => first_some l' end
    end.
End FirstSome.

Section FilterMap.
  Context {A B : Type}.
  Variable f : A -> option B.
  Fixpoint filter_map (l : list A) : list B :=
    match l with
    | [] => []
    | x :: l' => match f x with Some y => y :: filter_map l' | None => filter_map l' end
    end.
End FilterMap.

Definition or_else {A} (a b : option A) : option A :=
  match a with Some _ => a | None => b end.
