(* C15, "Display lists exactly the live routes": what the labels of the tree spell.
   [spell lab n acc] walks the tree the way Display does and returns, for every node with data (marked [*]), the
   concatenation of the labels from the root down to it.  With the RAW labels (literal keys as stored bytes,
   parameter keys in braces) this is exactly the rendering of the stored routes - for every well-formed tree, hence
   for every router a history reaches, where the stored routes are the expansions of the live templates.
   With the PRINTED labels (Display decodes each literal key on its own with from_utf8_lossy) it is the same as
   long as every literal key is valid UTF-8; it is NOT when two literal siblings part inside a multi-byte
   character - refuted below by "/é" and "/ê" (known finding K2). *)
From Coq Require Import Lia.
From WF Require Import Base.Bytes Base.Utf8 Spec.Route Spec.Walk Model.Tree Model.Display Spec.Inv.
From WF Require Import Proofs.RefineP Proofs.InvP.

Definition ssub (lab : option kind -> key -> bytes) (acc : bytes) (k : option kind) (l : list (key * node)) :=
  flat_map (fun kc : key * node => spell lab (snd kc) (acc ++ lab k (fst kc))) l.

Lemma spell_eq lab n acc :
  spell lab n acc =
  (match n_data n with Some i => [(acc, i)] | None => [] end)
  ++ ssub lab acc None (n_st n) ++ ssub lab acc (Some KDC) (n_dc n) ++ ssub lab acc (Some KDY) (n_dy n)
  ++ ssub lab acc (Some KWC) (n_wc n) ++ ssub lab acc (Some KWI) (n_wi n)
  ++ ssub lab acc (Some KEC) (n_ec n) ++ ssub lab acc (Some KEN) (n_en n).
Proof. destruct n; reflexivity. Qed.

Definition spelled (acc : bytes) (ri : route * info) : bytes * info := (acc ++ render_route (fst ri), snd ri).

Lemma render_route_app a b : render_route (a ++ b) = render_route a ++ render_route b.
Proof. unfold render_route. rewrite map_app, concat_app. reflexivity. Qed.

Lemma render_AB k : render_route (map AB k) = k.
Proof. unfold render_route. induction k as [|b k IH]; [reflexivity|]. cbn [map concat render_atom app]. rewrite IH. reflexivity. Qed.

Lemma label_head k ky : node_label (Some k) ky = render_route [head_atom k ky].
Proof.
  unfold render_route. cbn [map concat]. rewrite app_nil_r. unfold node_label, head_atom, csuffix.
  destruct k; cbn [is_dyn render_atom]; reflexivity.
Qed.

Lemma map_spelled_cons acc pre rs :
  map (spelled acc) (cons_atoms pre rs) = map (spelled (acc ++ render_route pre)) rs.
Proof.
  unfold cons_atoms. rewrite map_map. apply map_ext. intros [r i]. unfold spelled. cbn [fst snd].
  rewrite render_route_app, app_assoc. reflexivity.
Qed.

Lemma ssub_cons lab acc k kc l :
  ssub lab acc k (kc :: l) = spell lab (snd kc) (acc ++ lab k (fst kc)) ++ ssub lab acc k l.
Proof. reflexivity. Qed.
Lemma kind_routes_cons k kc l :
  kind_routes k (kc :: l) = cons_atoms [head_atom k (fst kc)] (kid_routes k (snd kc)) ++ kind_routes k l.
Proof. reflexivity. Qed.
Lemma static_routes_cons kc l :
  static_routes (kc :: l) = cons_atoms (map AB (fst (fst kc))) (routes_of (snd kc)) ++ static_routes l.
Proof. reflexivity. Qed.

Theorem spell_raw_routes : forall n acc, wf n = true -> spell raw_label n acc = map (spelled acc) (routes_of n).
Proof.
  induction n using node_ind'. intros acc Hwf. rewrite spell_eq, routes_of_eq. rewrite wf_eq in Hwf.
  cbn [n_data n_st n_dc n_dy n_wc n_wi n_ec n_en] in *. cbv zeta in Hwf.
  repeat (apply andb_prop in Hwf; destruct Hwf as [Hwf ?]).
  (* static children *)
  assert (HS : forall l, AllP (fun c => forall acc, wf c = true -> spell raw_label c acc = map (spelled acc) (routes_of c)) l ->
               forallb (fun kc : key * node => alive (snd kc) && wf (snd kc)) l = true ->
               ssub raw_label acc None l = map (spelled acc) (static_routes l)).
  { induction l as [|kc l IHl]; intros Hall Hf; [reflexivity|]. unfold AllP in Hall. apply Forall_cons_iff in Hall as [Hkc Hall].
    cbn [forallb] in Hf. apply andb_prop in Hf as [Hf1 Hf2]. apply andb_prop in Hf1 as [_ Hw].
    rewrite ssub_cons, static_routes_cons, map_app. f_equal; [|apply (IHl Hall Hf2)].
    rewrite (Hkc _ Hw). rewrite map_spelled_cons, render_AB. reflexivity. }
  (* parameter children that carry subtrees *)
  assert (HM : forall k l, is_end k = false ->
               AllP (fun c => forall acc, wf c = true -> spell raw_label c acc = map (spelled acc) (routes_of c)) l ->
               forallb (fun kc : key * node => key_ok k (fst kc) && only_static_kids (snd kc)
                          && (if is_dyn k then true else negb (has_data (snd kc))) && alive (snd kc) && wf (snd kc)) l = true ->
               ssub raw_label acc (Some k) l = map (spelled acc) (kind_routes k l)).
  { intros k l Hk. induction l as [|kc l IHl]; intros Hall Hf; [reflexivity|]. unfold AllP in Hall. apply Forall_cons_iff in Hall as [Hkc Hall].
    cbn [forallb] in Hf. apply andb_prop in Hf as [Hf1 Hf2]. apply andb_prop in Hf1 as [_ Hw].
    rewrite ssub_cons, kind_routes_cons, map_app. f_equal; [|apply (IHl Hall Hf2)].
    unfold kid_routes. rewrite Hk. rewrite (Hkc _ Hw). rewrite map_spelled_cons. cbn [raw_label]. rewrite label_head. reflexivity. }
  (* catch-all children: a marked leaf *)
  assert (HE : forall k l, is_end k = true ->
               forallb (fun kc : key * node => key_ok k (fst kc) && has_data (snd kc) && no_kids_b (snd kc)) l = true ->
               ssub raw_label acc (Some k) l = map (spelled acc) (kind_routes k l)).
  { intros k l Hk. induction l as [|kc l IHl]; intros Hf; [reflexivity|].
    cbn [forallb] in Hf. apply andb_prop in Hf as [Hf1 Hf2]. apply andb_prop in Hf1 as [Hf1 Hnk]. apply andb_prop in Hf1 as [_ Hd].
    rewrite ssub_cons, kind_routes_cons, map_app. f_equal; [|apply (IHl Hf2)].
    unfold kid_routes. rewrite Hk. rewrite spell_eq. unfold no_kids_b, only_static_kids in Hnk.
    repeat (apply andb_prop in Hnk; destruct Hnk as [Hnk ?]).
    destruct (n_st (snd kc)); [|discriminate]. destruct (n_dc (snd kc)); [|discriminate]. destruct (n_dy (snd kc)); [|discriminate].
    destruct (n_wc (snd kc)); [|discriminate]. destruct (n_wi (snd kc)); [|discriminate]. destruct (n_ec (snd kc)); [|discriminate].
    destruct (n_en (snd kc)); [|discriminate]. unfold ssub. cbn [flat_map app]. rewrite app_nil_r.
    rewrite map_spelled_cons. cbn [raw_label]. rewrite label_head.
    destruct (n_data (snd kc)); [|reflexivity]. cbn [map spelled fst snd]. unfold spelled, render_route at 2. cbn [fst snd map concat]. rewrite app_nil_r. reflexivity. }
  rewrite !map_app. unfold data_routes. cbn [n_data].
  repeat match goal with H : (_ && _)%bool = true |- _ => apply andb_prop in H; destruct H end.
  f_equal; [destruct d; [|reflexivity]; unfold spelled, render_route; cbn [map fst snd concat]; rewrite app_nil_r; reflexivity|].
  rewrite (HS st) by assumption. f_equal.
  rewrite (HM KDC dc) by (try reflexivity; assumption). f_equal.
  rewrite (HM KDY dy) by (try reflexivity; assumption). f_equal.
  rewrite (HM KWC wc) by (try reflexivity; assumption). f_equal.
  rewrite (HM KWI wi) by (try reflexivity; assumption). f_equal.
  rewrite (HE KEC ec) by (try reflexivity; assumption). f_equal.
  apply (HE KEN en); [reflexivity|assumption].
Qed.

(* ---- the printed labels ---- *)
Lemma lossy_valid : forall l, utf8_valid l = true -> lossy l = l.
Proof.
  fix IH 1. intros l H. destruct l as [|b0 r]; [reflexivity|]. cbn [utf8_valid lossy] in *.
  destruct (N.leb b0 127); [rewrite (IH r H); reflexivity|].
  destruct (inr 194 223 b0).
  { destruct r as [|b1 r1]; [discriminate|]. apply andb_prop in H as [H1 H2]. rewrite H1, (IH r1 H2). reflexivity. }
  destruct (inr 224 239 b0).
  { destruct r as [|b1 [|b2 r2]]; try discriminate. apply andb_prop in H as [H12 H3]. apply andb_prop in H12 as [H1 H2].
    rewrite H1, H2, (IH r2 H3). reflexivity. }
  destruct (inr 240 244 b0); [|discriminate].
  destruct r as [|b1 [|b2 [|b3 r3]]]; try discriminate.
  apply andb_prop in H as [H123 H4]. apply andb_prop in H123 as [H12 H3]. apply andb_prop in H12 as [H1 H2].
  rewrite H1, H2, H3, (IH r3 H4). reflexivity.
Qed.

Lemma keys_utf8_eq n :
  keys_utf8 n =
  (let sub (l : list (key * node)) := forallb (fun kc : key * node => keys_utf8 (snd kc)) l in
   forallb (fun kc : key * node => utf8_valid (fst (fst kc))) (n_st n)
   && sub (n_st n) && sub (n_dc n) && sub (n_dy n) && sub (n_wc n) && sub (n_wi n) && sub (n_ec n) && sub (n_en n)).
Proof. destruct n; reflexivity. Qed.

Theorem spell_printed_is_raw : forall n acc, keys_utf8 n = true -> spell node_label n acc = spell raw_label n acc.
Proof.
  induction n using node_ind'. intros acc Hk. rewrite !spell_eq. rewrite keys_utf8_eq in Hk.
  cbn [n_data n_st n_dc n_dy n_wc n_wi n_ec n_en] in *. cbv zeta in Hk.
  repeat (apply andb_prop in Hk; destruct Hk as [Hk ?]).
  assert (HP : forall k l, AllP (fun c => forall acc, keys_utf8 c = true -> spell node_label c acc = spell raw_label c acc) l ->
               forallb (fun kc : key * node => keys_utf8 (snd kc)) l = true ->
               ssub node_label acc (Some k) l = ssub raw_label acc (Some k) l).
  { intros k l. induction l as [|kc l IHl]; intros Hall Hf; [reflexivity|]. unfold AllP in Hall. apply Forall_cons_iff in Hall as [Hkc Hall].
    cbn [forallb] in Hf. apply andb_prop in Hf as [Hf1 Hf2]. rewrite !ssub_cons, (IHl Hall Hf2), (Hkc _ Hf1). reflexivity. }
  assert (HS : forall l, AllP (fun c => forall acc, keys_utf8 c = true -> spell node_label c acc = spell raw_label c acc) l ->
               forallb (fun kc : key * node => keys_utf8 (snd kc)) l = true ->
               forallb (fun kc : key * node => utf8_valid (fst (fst kc))) l = true ->
               ssub node_label acc None l = ssub raw_label acc None l).
  { induction l as [|kc l IHl]; intros Hall Hf Hv; [reflexivity|]. unfold AllP in Hall. apply Forall_cons_iff in Hall as [Hkc Hall].
    cbn [forallb] in Hf, Hv. apply andb_prop in Hf as [Hf1 Hf2]. apply andb_prop in Hv as [Hv1 Hv2].
    rewrite !ssub_cons, (IHl Hall Hf2 Hv2), (Hkc _ Hf1). cbn [node_label raw_label]. rewrite (lossy_valid _ Hv1). reflexivity. }
  rewrite (HS st), (HP KDC dc), (HP KDY dy), (HP KWC wc), (HP KWI wi), (HP KEC ec), (HP KEN en) by assumption. reflexivity.
Qed.

(* ---- for every router a history reaches ---- *)
From WF Require Import Model.Parser Model.Router Proofs.ReachP.

Theorem reach_spell_raw b ops :
  spell raw_label (r_root (run b ops)) [] = map (spelled []) (routes_of (r_root (run b ops))).
Proof. apply spell_raw_routes. destruct (reachable_inv b ops) as [W _]. exact W. Qed.

Corollary reach_spell_printed b ops :
  keys_utf8 (r_root (run b ops)) = true ->
  spell node_label (r_root (run b ops)) [] = map (spelled []) (routes_of (r_root (run b ops))).
Proof. intros H. rewrite (spell_printed_is_raw _ _ H). apply reach_spell_raw. Qed.

(* ---- and the printed labels do NOT always spell the routes: two literal siblings that part inside a
        multi-byte character are each decoded on their own ---- *)
Definition T_E_ACUTE : bytes := [47; 195; 169]%N.   (* "/é" *)
Definition T_E_CIRC : bytes := [47; 195; 170]%N.    (* "/ê" *)
Theorem printed_labels_refuted :
  let r := run [] [OInsert T_E_ACUTE 1; OInsert T_E_CIRC 2] in
  map fst (spell raw_label (r_root r) []) = [T_E_ACUTE; T_E_CIRC]
  /\ map fst (spell node_label (r_root r) []) = [[47; 239; 191; 189; 239; 191; 189]; [47; 239; 191; 189; 239; 191; 189]]%N.
Proof. vm_compute. split; reflexivity. Qed.

(* the rendering of the route of a part list: literal parts verbatim (already unescaped by the parser),
   parameters in braces *)
Definition render_part (p : part) : bytes :=
  match p with
  | PS s => s
  | PD n c => [LB] ++ n ++ csuffix c ++ [RB]
  | PW n c => [LB] ++ [STAR] ++ n ++ csuffix c ++ [RB]
  end.

Lemma render_atoms_of ps : render_route (atoms_of ps) = concat (map render_part ps).
Proof.
  unfold atoms_of. induction ps as [|p ps IH]; [reflexivity|]. cbn [flat_map map concat]. rewrite render_route_app, IH. f_equal.
  destruct p; cbn [atoms_of_part render_part]; [apply render_AB| |]; unfold render_route; cbn [map concat render_atom]; rewrite app_nil_r; reflexivity.
Qed.
