(* C17: the executable URL decomposition used to judge the real example (Spec/OciSpec.v readings) finds exactly
   the declarative URL shapes of Proofs/OciSemP.v, for every valid UTF-8 URL. *)
From Coq Require Import Ascii String Lia Arith PeanoNat.
From WF Require Import Base.Bytes Base.Utf8 Spec.Route Spec.OciSpec.
From WF Require Import Proofs.BytesP Proofs.ParserSpecP Proofs.ExpandSpecP Proofs.OciSemP.
Import ListNotations.
Local Open Scope N_scope.

(* ---- split / join ---- *)
Lemma split_nonempty s cur : split_slash s cur <> [].
Proof. revert cur. induction s as [|b s IH]; intros cur; cbn [split_slash]; [discriminate|]. destruct (b =? 47); [discriminate|apply IH]. Qed.

Lemma split_app_slash a : forall b cur, split_slash (a ++ 47 :: b) cur = split_slash a cur ++ split_slash b [].
Proof.
  induction a as [|x a IH]; intros b cur; cbn [app split_slash].
  - reflexivity.
  - destruct (x =? 47); [rewrite IH; reflexivity|apply IH].
Qed.

Lemma split_noslash d : forall cur, ~ In 47 d -> split_slash d cur = [rev cur ++ d].
Proof.
  induction d as [|x d IH]; intros cur H; cbn [split_slash].
  - rewrite app_nil_r. reflexivity.
  - destruct (N.eqb_spec x 47) as [->|Hne]; [destruct H; left; reflexivity|].
    rewrite IH by (intros Hin; apply H; right; exact Hin). cbn [rev]. rewrite <- app_assoc. reflexivity.
Qed.

Lemma join_cons h t : join_slash (h :: t) = h ++ flat_map (fun y => 47 :: y) t.
Proof. reflexivity. Qed.

Lemma join_cons2 h t : t <> [] -> join_slash (h :: t) = h ++ 47 :: join_slash t.
Proof. destruct t as [|h' t']; [congruence|]. intros _. reflexivity. Qed.

Lemma join_split s : forall cur, join_slash (split_slash s cur) = rev cur ++ s.
Proof.
  induction s as [|x s IH]; intros cur; cbn [split_slash].
  - cbn. rewrite !app_nil_r. reflexivity.
  - destruct (N.eqb_spec x 47) as [->|Hne].
    + rewrite (join_cons2 _ _ (split_nonempty s [])), IH. reflexivity.
    + rewrite IH. cbn [rev]. rewrite <- app_assoc. reflexivity.
Qed.

Lemma join_snoc2 a x y : a <> [] -> join_slash (a ++ [x; y]) = join_slash a ++ 47 :: x ++ 47 :: y.
Proof.
  destruct a as [|h t]; [congruence|]. intros _. cbn [app]. rewrite !join_cons, flat_map_app. cbn [flat_map]. rewrite app_nil_r. rewrite <- ?app_assoc. cbn [app]. rewrite <- ?app_assoc. reflexivity.
Qed.

Lemma join_snoc3 a x y z : a <> [] -> join_slash (a ++ [x; y; z]) = join_slash a ++ 47 :: x ++ 47 :: y ++ 47 :: z.
Proof.
  destruct a as [|h t]; [congruence|]. intros _. cbn [app]. rewrite !join_cons, flat_map_app. cbn [flat_map]. rewrite app_nil_r. rewrite <- ?app_assoc. cbn [app]. rewrite <- ?app_assoc. cbn [app]. rewrite <- ?app_assoc. reflexivity.
Qed.

Lemma last_two {A} (l : list A) d : (2 <= length l)%nat ->
  l = firstn (length l - 2) l ++ [nth (length l - 2) l d; nth (length l - 1) l d].
Proof.
  intros H. rewrite <- (firstn_skipn (length l - 2) l) at 1. f_equal.
  assert (Hs : length (skipn (length l - 2) l) = 2%nat) by (rewrite skipn_length; lia).
  destruct (skipn (length l - 2) l) as [|a [|b [|c r]]] eqn:E; cbn in Hs; try lia.
  assert (Hl : l = firstn (length l - 2) l ++ [a; b]) by (rewrite <- E; symmetry; apply firstn_skipn).
  assert (Hf : length (firstn (length l - 2) l) = (length l - 2)%nat) by (rewrite firstn_length; lia).
  f_equal; [|f_equal].
  - rewrite Hl at 2. rewrite app_nth2 by lia. rewrite Hf, Nat.sub_diag. reflexivity.
  - rewrite Hl at 2. rewrite app_nth2 by lia. rewrite Hf. replace (length l - 1 - (length l - 2))%nat with 1%nat by lia. reflexivity.
Qed.

Lemma last_three {A} (l : list A) d : (3 <= length l)%nat ->
  l = firstn (length l - 3) l ++ [nth (length l - 3) l d; nth (length l - 2) l d; nth (length l - 1) l d].
Proof.
  intros H. rewrite <- (firstn_skipn (length l - 3) l) at 1. f_equal.
  assert (Hs : length (skipn (length l - 3) l) = 3%nat) by (rewrite skipn_length; lia).
  destruct (skipn (length l - 3) l) as [|a [|b [|c [|e r]]]] eqn:E; cbn in Hs; try lia.
  assert (Hl : l = firstn (length l - 3) l ++ [a; b; c]) by (rewrite <- E; symmetry; apply firstn_skipn).
  assert (Hf : length (firstn (length l - 3) l) = (length l - 3)%nat) by (rewrite firstn_length; lia).
  f_equal; [|f_equal; [|f_equal]].
  - rewrite Hl at 2. rewrite app_nth2 by lia. rewrite Hf, Nat.sub_diag. reflexivity.
  - rewrite Hl at 2. rewrite app_nth2 by lia. rewrite Hf. replace (length l - 2 - (length l - 3))%nat with 1%nat by lia. reflexivity.
  - rewrite Hl at 2. rewrite app_nth2 by lia. rewrite Hf. replace (length l - 1 - (length l - 3))%nat with 2%nat by lia. reflexivity.
Qed.

(* ---- ASCII ---- *)
Lemma ascii_utf8 s : forallb (fun b => b <=? 127) s = true -> utf8_valid s = true.
Proof. induction s as [|b s IH]; [reflexivity|]. cbn [forallb utf8_valid]. intros H. apply andb_prop in H as [H1 H2]. rewrite H1. apply IH, H2. Qed.

Lemma alnum_ascii b : alnum b = true -> (b <=? 127) = true.
Proof. unfold alnum. intros H. apply N.leb_le. apply orb_prop in H as [H|H]; apply andb_prop in H as [_ H]; apply N.leb_le in H; lia. Qed.

Lemma comp_ok_ascii c : forall st, comp_ok c st = true -> forallb (fun b => b <=? 127) c = true.
Proof.
  induction c as [|b c IH]; intros st H; [reflexivity|]. cbn [comp_ok forallb] in *.
  destruct (alnum b) eqn:Ea; [rewrite (alnum_ascii b Ea); apply (IH _ H)|].
  destruct (N.eqb_spec b 46) as [->|N1]; [apply andb_prop in H as [_ H]; apply (IH _ H)|].
  destruct (N.eqb_spec b 95) as [->|N2].
  { destruct (st =? 1); [apply (IH _ H)|]. destruct (st =? 3); [apply (IH _ H)|discriminate]. }
  destruct (N.eqb_spec b 45) as [->|N3]; [|discriminate].
  destruct ((st =? 1) || (st =? 5))%bool; [apply (IH _ H)|discriminate].
Qed.

Lemma ascii_join l : forallb (fun c => forallb (fun b => b <=? 127) c) l = true -> forallb (fun b => b <=? 127) (join_slash l) = true.
Proof.
  destruct l as [|h t]; [reflexivity|]. rewrite join_cons. cbn [forallb]. intros H. apply andb_prop in H as [Hh Ht].
  rewrite forallb_app. apply andb_true_intro. split; [exact Hh|]. induction t as [|x t IH]; [reflexivity|]. cbn [flat_map forallb] in *.
  apply andb_prop in Ht as [Hx Ht]. rewrite forallb_app. apply andb_true_intro. split; [exact Hx|apply IH, Ht].
Qed.

Lemma name_ok_utf8 s : name_ok s = true -> utf8_valid s = true.
Proof.
  unfold name_ok. intros H. apply ascii_utf8. pose proof (join_split s []) as J. cbn [rev app] in J. rewrite <- J. apply ascii_join.
  rewrite forallb_forall in *. intros c Hc. apply (comp_ok_ascii c 0). apply (H c Hc).
Qed.

Lemma name_ok_nonempty s : name_ok s = true -> s <> [].
Proof. intros H ->. vm_compute in H. discriminate. Qed.

(* ---- the trailing slash ---- *)
Lemma strip_spec url : exists b, url = strip_trailing_slash url ++ tail b.
Proof.
  unfold strip_trailing_slash. destruct (rev url) as [|x r] eqn:E.
  - exists false. cbn [tail]. rewrite app_nil_r. reflexivity.
  - destruct (N.eqb_spec x 47) as [->|Hne].
    + exists true. cbn [tail]. rewrite <- (rev_involutive url), E. cbn [rev]. reflexivity.
    + exists false. cbn [tail]. rewrite app_nil_r. destruct x as [|p]; [reflexivity|].
      do 6 (destruct p as [p|p|]; try reflexivity); exfalso; apply Hne; reflexivity.
Qed.

(* ---- readings, block by block ---- *)
Definition rd (segs : list bytes) : list (shape * bytes * option bytes) :=
  let n := length segs in
  let nm k := join_slash (firstn k segs) in
  let seg k := nth k segs [] in
  (if Nat.leb 3 n && beqb (seg (n - 2)%nat) (w "blobs"%string) && token_ok (seg (n - 1)%nat) && name_ok (nm (n - 2)%nat)
   then [(ShBlob, nm (n - 2)%nat, Some (seg (n - 1)%nat))] else [])
  ++ (if Nat.leb 3 n && beqb (seg (n - 2)%nat) (w "manifests"%string) && token_ok (seg (n - 1)%nat) && name_ok (nm (n - 2)%nat)
      then [(ShManifest, nm (n - 2)%nat, Some (seg (n - 1)%nat))] else [])
  ++ (if Nat.leb 3 n && beqb (seg (n - 2)%nat) (w "blobs"%string) && beqb (seg (n - 1)%nat) (w "uploads"%string) && name_ok (nm (n - 2)%nat)
      then [(ShUploads, nm (n - 2)%nat, None)] else [])
  ++ (if Nat.leb 4 n && beqb (seg (n - 3)%nat) (w "blobs"%string) && beqb (seg (n - 2)%nat) (w "uploads"%string) && token_ok (seg (n - 1)%nat) && name_ok (nm (n - 3)%nat)
      then [(ShUpload, nm (n - 3)%nat, Some (seg (n - 1)%nat))] else [])
  ++ (if Nat.leb 3 n && beqb (seg (n - 2)%nat) (w "tags"%string) && beqb (seg (n - 1)%nat) (w "list"%string) && name_ok (nm (n - 2)%nat)
      then [(ShTags, nm (n - 2)%nat, None)] else []).

Lemma readings_eq url :
  readings url =
  match strip_trailing_slash url with
  | 47 :: 118 :: 50 :: rest =>
    match rest with
    | [] => [(ShRoot, [], None)]
    | 47 :: rest' => rd (split_slash rest' [])
    | _ => []
    end
  | _ => []
  end.
Proof. reflexivity. Qed.

Lemma token_ok_spec d : token_ok d = true <-> d <> [] /\ ~ In 47 d.
Proof.
  unfold token_ok. destruct d as [|x d]; [split; [discriminate|intros [H _]; congruence]|].
  rewrite negb_true_iff. split.
  - intros H. split; [discriminate|]. intros Hin. assert (existsb (N.eqb 47) (x :: d) = true) by (apply existsb_exists; exists 47; split; [exact Hin|apply N.eqb_refl]). congruence.
  - intros [_ H]. destruct (existsb (N.eqb 47) (x :: d)) eqn:E; [|reflexivity]. apply existsb_exists in E as (y & Hy & Ey). apply N.eqb_eq in Ey. subst y. contradiction.
Qed.

Lemma firstn_nonempty {A} k (l : list A) : (1 <= k)%nat -> l <> [] -> firstn k l <> [].
Proof. destruct k; [lia|]. destruct l; [congruence|]. discriminate. Qed.

(* the text after "/v2/" when the last two segments are x, y *)
Lemma rest_two rest' : let segs := split_slash rest' [] in (3 <= length segs)%nat ->
  rest' = join_slash (firstn (length segs - 2) segs) ++ 47 :: nth (length segs - 2) segs [] ++ 47 :: nth (length segs - 1) segs [].
Proof.
  intros segs Hn. pose proof (join_split rest' []) as J. cbn [rev app] in J. fold segs in J. rewrite <- J at 1.
  rewrite (last_two segs [] ltac:(lia)) at 1. apply join_snoc2. apply firstn_nonempty; [lia|]. intros E. rewrite E in Hn. cbn in Hn. lia.
Qed.

Lemma rest_three rest' : let segs := split_slash rest' [] in (4 <= length segs)%nat ->
  rest' = join_slash (firstn (length segs - 3) segs) ++ 47 :: nth (length segs - 3) segs [] ++ 47 :: nth (length segs - 2) segs [] ++ 47 :: nth (length segs - 1) segs [].
Proof.
  intros segs Hn. pose proof (join_split rest' []) as J. cbn [rev app] in J. fold segs in J. rewrite <- J at 1.
  rewrite (last_three segs [] ltac:(lia)) at 1. apply join_snoc3. apply firstn_nonempty; [lia|]. intros E. rewrite E in Hn. cbn in Hn. lia.
Qed.

(* validity of the pieces of a valid URL *)
Lemma utf8_tail_piece pre d b : utf8_valid (pre ++ 47 :: d ++ tail b) = true -> utf8_valid d = true.
Proof.
  intros H. apply utf8_cut in H as [_ H]; [|reflexivity]. destruct b; cbn [tail] in H.
  - apply utf8_cut in H as [H _]; [exact H|reflexivity].
  - rewrite app_nil_r in H. exact H.
Qed.

(* matches on byte literals, as tests *)
Lemma match47 {A} (x : N) (a b : A) : match x with 47 => a | _ => b end = if x =? 47 then a else b.
Proof. destruct x as [|p]; [reflexivity|]. do 7 (try (destruct p as [p|p|]; try reflexivity)). Qed.
Lemma match118 {A} (x : N) (a b : A) : match x with 118 => a | _ => b end = if x =? 118 then a else b.
Proof. destruct x as [|p]; [reflexivity|]. do 8 (try (destruct p as [p|p|]; try reflexivity)). Qed.
Lemma match50 {A} (x : N) (a b : A) : match x with 50 => a | _ => b end = if x =? 50 then a else b.
Proof. destruct x as [|p]; [reflexivity|]. do 7 (try (destruct p as [p|p|]; try reflexivity)). Qed.

(* readings, with the prefix test spelled out *)
Lemma readings_cases url :
  (exists rest, strip_trailing_slash url = w "/v2" ++ rest /\
     readings url = match rest with [] => [(ShRoot, [], None)] | c :: rest' => if c =? 47 then rd (split_slash rest' []) else [] end)
  \/ readings url = [].
Proof.
  rewrite readings_eq. destruct (strip_trailing_slash url) as [|c1 [|c2 [|c3 rest]]]; try (right; reflexivity).
  - right. rewrite match47. destruct (c1 =? 47); reflexivity.
  - right. rewrite match47. destruct (c1 =? 47); [|reflexivity]. rewrite match118. destruct (c2 =? 118); reflexivity.
  - rewrite match47. destruct (N.eqb_spec c1 47) as [->|]; [|right; reflexivity].
    rewrite match118. destruct (N.eqb_spec c2 118) as [->|]; [|right; reflexivity].
    rewrite match50. destruct (N.eqb_spec c3 50) as [->|]; [|right; reflexivity].
    left. exists rest. split; [reflexivity|]. destruct rest as [|c rest']; [reflexivity|]. apply match47.
Qed.

Ltac block Hin C := match type of Hin with In _ (if ?c then _ else _) => destruct c eqn:C; [|destruct Hin] end.

Theorem readings_sound url sh n last :
  utf8_valid url = true -> In (sh, n, last) (readings url) -> exists b, url_shape sh n last b url.
Proof.
  intros Hu Hin. destruct (strip_spec url) as (b & Hurl). exists b.
  destruct (readings_cases url) as [(rest & Hs & Hr)|Hr]; rewrite Hr in Hin; [|destruct Hin].
  rewrite Hs in Hurl. destruct rest as [|c rest'].
  { rewrite app_nil_r in Hurl. destruct Hin as [Heq|[]]. inversion Heq; subst sh n last. cbn [url_shape]. auto. }
  destruct (N.eqb_spec c 47) as [->|]; [|destruct Hin].
  assert (Hurl' : url = w "/v2/" ++ rest' ++ tail b) by (rewrite Hurl; reflexivity).
  unfold rd in Hin. set (segs := split_slash rest' []) in *. cbv zeta in Hin.
  repeat (apply in_app_or in Hin; destruct Hin as [Hin|Hin]).
  - (* blob *) block Hin C. destruct Hin as [Heq|[]]. inversion Heq; subst sh n last.
    apply andb_prop in C as [C Hname]. apply andb_prop in C as [C Htok]. apply andb_prop in C as [Hlen Hkw].
    apply Nat.leb_le in Hlen. apply beqb_eq in Hkw. apply token_ok_spec in Htok as [Ht1 Ht2].
    pose proof (rest_two rest' Hlen) as R. fold segs in R. rewrite Hkw in R.
    cbn [url_shape]. eexists. split; [reflexivity|].
    split; [split; [apply name_ok_nonempty; exact Hname|split; [apply name_ok_utf8; exact Hname|exact Hname]]|].
    assert (E : url = (w "/v2/" ++ join_slash (firstn (length segs - 2) segs) ++ 47 :: w "blobs") ++ 47 :: nth (length segs - 1) segs [] ++ tail b).
    { rewrite Hurl'. rewrite R at 1. rewrite <- ?app_assoc. cbn [app]. rewrite <- ?app_assoc. reflexivity. }
    split; [split; [exact Ht1|split; [exact Ht2|rewrite E in Hu; apply (utf8_tail_piece _ _ _ Hu)]]|].
    rewrite E. rewrite <- ?app_assoc. cbn [app]. rewrite <- ?app_assoc. reflexivity.
  - (* manifest *) block Hin C. destruct Hin as [Heq|[]]. inversion Heq; subst sh n last.
    apply andb_prop in C as [C Hname]. apply andb_prop in C as [C Htok]. apply andb_prop in C as [Hlen Hkw].
    apply Nat.leb_le in Hlen. apply beqb_eq in Hkw. apply token_ok_spec in Htok as [Ht1 Ht2].
    pose proof (rest_two rest' Hlen) as R. fold segs in R. rewrite Hkw in R.
    cbn [url_shape]. eexists. split; [reflexivity|].
    split; [split; [apply name_ok_nonempty; exact Hname|split; [apply name_ok_utf8; exact Hname|exact Hname]]|].
    assert (E : url = (w "/v2/" ++ join_slash (firstn (length segs - 2) segs) ++ 47 :: w "manifests") ++ 47 :: nth (length segs - 1) segs [] ++ tail b).
    { rewrite Hurl'. rewrite R at 1. rewrite <- ?app_assoc. cbn [app]. rewrite <- ?app_assoc. reflexivity. }
    split; [split; [exact Ht1|split; [exact Ht2|rewrite E in Hu; apply (utf8_tail_piece _ _ _ Hu)]]|].
    rewrite E. rewrite <- ?app_assoc. cbn [app]. rewrite <- ?app_assoc. reflexivity.
  - (* uploads *) block Hin C. destruct Hin as [Heq|[]]. inversion Heq; subst sh n last.
    apply andb_prop in C as [C Hname]. apply andb_prop in C as [C Hkw2]. apply andb_prop in C as [Hlen Hkw].
    apply Nat.leb_le in Hlen. apply beqb_eq in Hkw. apply beqb_eq in Hkw2.
    pose proof (rest_two rest' Hlen) as R. fold segs in R. rewrite Hkw, Hkw2 in R.
    cbn [url_shape]. split; [reflexivity|].
    split; [split; [apply name_ok_nonempty; exact Hname|split; [apply name_ok_utf8; exact Hname|exact Hname]]|].
    rewrite Hurl'. rewrite R at 1. rewrite <- ?app_assoc. cbn [app]. rewrite <- ?app_assoc. reflexivity.
  - (* upload *) block Hin C. destruct Hin as [Heq|[]]. inversion Heq; subst sh n last.
    apply andb_prop in C as [C Hname]. apply andb_prop in C as [C Htok]. apply andb_prop in C as [C Hkw2]. apply andb_prop in C as [Hlen Hkw].
    apply Nat.leb_le in Hlen. apply beqb_eq in Hkw. apply beqb_eq in Hkw2. apply token_ok_spec in Htok as [Ht1 Ht2].
    pose proof (rest_three rest' Hlen) as R. fold segs in R. rewrite Hkw, Hkw2 in R.
    cbn [url_shape]. eexists. split; [reflexivity|].
    split; [split; [apply name_ok_nonempty; exact Hname|split; [apply name_ok_utf8; exact Hname|exact Hname]]|].
    assert (E : url = (w "/v2/" ++ join_slash (firstn (length segs - 3) segs) ++ 47 :: w "blobs" ++ 47 :: w "uploads") ++ 47 :: nth (length segs - 1) segs [] ++ tail b).
    { rewrite Hurl'. rewrite R at 1. rewrite <- ?app_assoc. cbn [app]. rewrite <- ?app_assoc. cbn [app]. rewrite <- ?app_assoc. reflexivity. }
    split; [split; [exact Ht1|split; [exact Ht2|rewrite E in Hu; apply (utf8_tail_piece _ _ _ Hu)]]|].
    rewrite E. rewrite <- ?app_assoc. cbn [app]. rewrite <- ?app_assoc. cbn [app]. rewrite <- ?app_assoc. reflexivity.
  - (* tags *) block Hin C. destruct Hin as [Heq|[]]. inversion Heq; subst sh n last.
    apply andb_prop in C as [C Hname]. apply andb_prop in C as [C Hkw2]. apply andb_prop in C as [Hlen Hkw].
    apply Nat.leb_le in Hlen. apply beqb_eq in Hkw. apply beqb_eq in Hkw2.
    pose proof (rest_two rest' Hlen) as R. fold segs in R. rewrite Hkw, Hkw2 in R.
    cbn [url_shape]. split; [reflexivity|].
    split; [split; [apply name_ok_nonempty; exact Hname|split; [apply name_ok_utf8; exact Hname|exact Hname]]|].
    rewrite Hurl'. rewrite R at 1. rewrite <- ?app_assoc. cbn [app]. rewrite <- ?app_assoc. reflexivity.
Qed.

(* ---- completeness ---- *)
Lemma strip_eq s : strip_trailing_slash s = match rev s with x :: r => if x =? 47 then rev r else s | [] => s end.
Proof. unfold strip_trailing_slash. destruct (rev s) as [|x r]; [reflexivity|apply match47]. Qed.

Lemma strip_tail s0 x b : x <> 47 -> strip_trailing_slash ((s0 ++ [x]) ++ tail b) = s0 ++ [x].
Proof.
  intros Hx. rewrite strip_eq. destruct b; cbn [tail].
  - rewrite rev_app_distr. cbn [rev app]. rewrite rev_involutive. reflexivity.
  - rewrite app_nil_r, rev_app_distr. cbn [rev app]. destruct (N.eqb_spec x 47); [contradiction|reflexivity].
Qed.

Lemma tok_last d : d <> [] -> ~ In 47 d -> exists d0 x, d = d0 ++ [x] /\ x <> 47.
Proof.
  intros Hne Hns. destruct (exists_last Hne) as (d0 & x & ->). exists d0, x. split; [reflexivity|].
  intros ->. apply Hns. apply in_or_app. right. left. reflexivity.
Qed.

Lemma segs2 (A : list bytes) x y :
  let l := A ++ [x; y] in
  length l = (length A + 2)%nat /\ nth (length l - 2) l [] = x /\ nth (length l - 1) l [] = y /\ firstn (length l - 2) l = A.
Proof.
  intros l. assert (Hl : length l = (length A + 2)%nat) by (unfold l; rewrite app_length; reflexivity).
  split; [exact Hl|]. rewrite Hl. replace (length A + 2 - 2)%nat with (length A) by lia. replace (length A + 2 - 1)%nat with (S (length A)) by lia.
  unfold l. split; [rewrite app_nth2 by lia; rewrite Nat.sub_diag; reflexivity|].
  split; [rewrite app_nth2 by lia; replace (S (length A) - length A)%nat with 1%nat by lia; reflexivity|].
  rewrite firstn_app, Nat.sub_diag, firstn_all. cbn [firstn]. apply app_nil_r.
Qed.

Lemma segs3 (A : list bytes) x y z :
  let l := A ++ [x; y; z] in
  length l = (length A + 3)%nat /\ nth (length l - 3) l [] = x /\ nth (length l - 2) l [] = y /\ nth (length l - 1) l [] = z
  /\ firstn (length l - 3) l = A.
Proof.
  intros l. assert (Hl : length l = (length A + 3)%nat) by (unfold l; rewrite app_length; reflexivity).
  split; [exact Hl|]. rewrite Hl. replace (length A + 3 - 3)%nat with (length A) by lia.
  replace (length A + 3 - 2)%nat with (S (length A)) by lia. replace (length A + 3 - 1)%nat with (S (S (length A))) by lia.
  unfold l. split; [rewrite app_nth2 by lia; rewrite Nat.sub_diag; reflexivity|].
  split; [rewrite app_nth2 by lia; replace (S (length A) - length A)%nat with 1%nat by lia; reflexivity|].
  split; [rewrite app_nth2 by lia; replace (S (S (length A)) - length A)%nat with 2%nat by lia; reflexivity|].
  rewrite firstn_app, Nat.sub_diag, firstn_all. cbn [firstn]. apply app_nil_r.
Qed.

Lemma split_two n kw d : ~ In 47 kw -> ~ In 47 d ->
  split_slash (n ++ 47 :: kw ++ 47 :: d) [] = split_slash n [] ++ [kw; d].
Proof.
  intros Hk Hd. rewrite split_app_slash, split_app_slash, (split_noslash kw [] Hk), (split_noslash d [] Hd). reflexivity.
Qed.

Lemma split_three n k1 k2 d : ~ In 47 k1 -> ~ In 47 k2 -> ~ In 47 d ->
  split_slash (n ++ 47 :: k1 ++ 47 :: k2 ++ 47 :: d) [] = split_slash n [] ++ [k1; k2; d].
Proof.
  intros H1 H2 Hd. rewrite split_app_slash, split_app_slash, split_app_slash, (split_noslash k1 [] H1), (split_noslash k2 [] H2), (split_noslash d [] Hd). reflexivity.
Qed.

Lemma join_split0 s : join_slash (split_slash s []) = s.
Proof. apply (join_split s []). Qed.

Lemma split_len n : (1 <= length (split_slash n []))%nat.
Proof. pose proof (split_nonempty n []). destruct (split_slash n []); [congruence|cbn; lia]. Qed.

Lemma noslash_lit (s : string) : forallb (fun b => negb (b =? 47)) (w s) = true -> ~ In 47 (w s).
Proof. intros H Hin. rewrite forallb_forall in H. specialize (H 47 Hin). discriminate. Qed.

Lemma strip_v2 body x b : x <> 47 ->
  strip_trailing_slash (47 :: 118 :: 50 :: 47 :: (body ++ [x]) ++ tail b) = 47 :: 118 :: 50 :: 47 :: body ++ [x].
Proof. intros Hx. apply (strip_tail (47 :: 118 :: 50 :: 47 :: body) x b Hx). Qed.

Lemma leb3 k : (1 <= k)%nat -> Nat.leb 3 (k + 2) = true.
Proof. intros H. apply Nat.leb_le. lia. Qed.
Lemma leb4 k : (1 <= k)%nat -> Nat.leb 4 (k + 3) = true.
Proof. intros H. apply Nat.leb_le. lia. Qed.
Lemma beqb_refl' a : beqb a a = true.
Proof. apply beqb_eq. reflexivity. Qed.

Section Blocks.
  Variables (n d : bytes).
  Hypothesis Hname : name_ok n = true.
  Let A := split_slash n [].
  Let HJ : join_slash A = n := join_split0 n.
  Let HL : (1 <= length A)%nat := split_len n.

  Lemma rd_blob : token_ok d = true -> In (ShBlob, n, Some d) (rd (A ++ [w "blobs"; d])).
  Proof.
    intros Htok. unfold rd. destruct (segs2 A (w "blobs") d) as (Hl & H2 & H1 & Hf). cbv zeta.
    rewrite H2, H1, Hf, Hl. rewrite HJ, (leb3 _ HL), beqb_refl', Htok, Hname.
    cbn [andb]. left. reflexivity.
  Qed.

  Lemma rd_manifest : token_ok d = true -> In (ShManifest, n, Some d) (rd (A ++ [w "manifests"; d])).
  Proof.
    intros Htok. unfold rd. destruct (segs2 A (w "manifests") d) as (Hl & H2 & H1 & Hf). cbv zeta.
    rewrite H2, H1, Hf, Hl. rewrite HJ, (leb3 _ HL), beqb_refl', Htok, Hname.
    apply in_or_app. right. cbn [andb]. left. reflexivity.
  Qed.

  Lemma rd_uploads : In (ShUploads, n, None) (rd (A ++ [w "blobs"; w "uploads"])).
  Proof.
    unfold rd. destruct (segs2 A (w "blobs") (w "uploads")) as (Hl & H2 & H1 & Hf). cbv zeta.
    rewrite H2, H1, Hf, Hl. rewrite HJ, (leb3 _ HL), !beqb_refl', Hname.
    apply in_or_app. right. apply in_or_app. right. cbn [andb]. left. reflexivity.
  Qed.

  Lemma rd_tags : In (ShTags, n, None) (rd (A ++ [w "tags"; w "list"])).
  Proof.
    unfold rd. destruct (segs2 A (w "tags") (w "list")) as (Hl & H2 & H1 & Hf). cbv zeta.
    rewrite H2, H1, Hf, Hl. rewrite HJ, (leb3 _ HL), !beqb_refl', Hname.
    do 4 (apply in_or_app; right). cbn [andb]. left. reflexivity.
  Qed.

  Lemma rd_upload : token_ok d = true -> In (ShUpload, n, Some d) (rd (A ++ [w "blobs"; w "uploads"; d])).
  Proof.
    intros Htok. unfold rd. destruct (segs3 A (w "blobs") (w "uploads") d) as (Hl & H3 & H2 & H1 & Hf). cbv zeta.
    rewrite H3, H2, H1, Hf, Hl. rewrite HJ, (leb4 _ HL), !beqb_refl', Htok, Hname.
    do 3 (apply in_or_app; right). apply in_or_app. left. cbn [andb]. left. reflexivity.
  Qed.
End Blocks.

Lemma readings_v2 body x b rest' :
  x <> 47 -> body ++ [x] = rest' ->
  readings (47 :: 118 :: 50 :: 47 :: (body ++ [x]) ++ tail b) = rd (split_slash rest' []).
Proof. intros Hx <-. rewrite readings_eq, (strip_v2 body x b Hx). reflexivity. Qed.

Lemma noslash_blobs : ~ In 47 (w "blobs").      Proof. vm_compute. intuition discriminate. Qed.
Lemma noslash_manifests : ~ In 47 (w "manifests").  Proof. vm_compute. intuition discriminate. Qed.
Lemma noslash_uploads : ~ In 47 (w "uploads").  Proof. vm_compute. intuition discriminate. Qed.
Lemma noslash_tags : ~ In 47 (w "tags").        Proof. vm_compute. intuition discriminate. Qed.
Lemma noslash_list : ~ In 47 (w "list").        Proof. vm_compute. intuition discriminate. Qed.

Theorem readings_complete url sh n last b : url_shape sh n last b url -> In (sh, n, last) (readings url).
Proof.
  intros H. destruct sh; cbn [url_shape] in H; change Tokens.w with OciSpec.w in H.
  - (* root *) destruct H as (-> & -> & ->).
    pose proof (strip_tail [47; 118] 50 b ltac:(discriminate)) as E. cbn [app] in E.
    change (w "/v2" ++ tail b) with (47 :: 118 :: 50 :: tail b). rewrite readings_eq, E. left. reflexivity.
  - (* blob *) destruct H as (d & -> & (Hn1 & Hn2 & Hn3) & (Hd1 & Hd2 & Hd3) & ->).
    destruct (tok_last d Hd1 Hd2) as (d0 & x & Ed & Hx).
    replace (w "/v2/" ++ n ++ w "/blobs/" ++ d ++ tail b)
      with (47 :: 118 :: 50 :: 47 :: ((n ++ 47 :: w "blobs" ++ 47 :: d0) ++ [x]) ++ tail b)
      by (rewrite Ed; change (w "/v2/") with [47; 118; 50; 47]; change (w "/blobs/") with (47 :: w "blobs" ++ [47]); cbn [app]; rewrite <- ?app_assoc; cbn [app]; rewrite <- ?app_assoc; reflexivity).
    rewrite (readings_v2 _ x b (n ++ 47 :: w "blobs" ++ 47 :: d) Hx) by (rewrite Ed, <- ?app_assoc; cbn [app]; rewrite <- ?app_assoc; reflexivity).
    match goal with |- In _ (rd ?s) => replace s with (split_slash n [] ++ [w "blobs"; d]) by (symmetry; exact (split_two n (w "blobs") d noslash_blobs Hd2)) end. apply rd_blob; [exact Hn3|apply token_ok_spec; auto].
  - (* manifest *) destruct H as (d & -> & (Hn1 & Hn2 & Hn3) & (Hd1 & Hd2 & Hd3) & ->).
    destruct (tok_last d Hd1 Hd2) as (d0 & x & Ed & Hx).
    replace (w "/v2/" ++ n ++ w "/manifests/" ++ d ++ tail b)
      with (47 :: 118 :: 50 :: 47 :: ((n ++ 47 :: w "manifests" ++ 47 :: d0) ++ [x]) ++ tail b)
      by (rewrite Ed; change (w "/v2/") with [47; 118; 50; 47]; change (w "/manifests/") with (47 :: w "manifests" ++ [47]); cbn [app]; rewrite <- ?app_assoc; cbn [app]; rewrite <- ?app_assoc; reflexivity).
    rewrite (readings_v2 _ x b (n ++ 47 :: w "manifests" ++ 47 :: d) Hx) by (rewrite Ed, <- ?app_assoc; cbn [app]; rewrite <- ?app_assoc; reflexivity).
    match goal with |- In _ (rd ?s) => replace s with (split_slash n [] ++ [w "manifests"; d]) by (symmetry; exact (split_two n (w "manifests") d noslash_manifests Hd2)) end. apply rd_manifest; [exact Hn3|apply token_ok_spec; auto].
  - (* uploads *) destruct H as (-> & (Hn1 & Hn2 & Hn3) & ->).
    replace (w "/v2/" ++ n ++ w "/blobs/uploads" ++ tail b)
      with (47 :: 118 :: 50 :: 47 :: ((n ++ 47 :: w "blobs" ++ 47 :: w "upload") ++ [115]) ++ tail b)
      by (change (w "/v2/") with [47; 118; 50; 47]; change (w "/blobs/uploads") with (47 :: w "blobs" ++ 47 :: w "upload" ++ [115]); cbn [app]; rewrite <- ?app_assoc; cbn [app]; rewrite <- ?app_assoc; reflexivity).
    rewrite (readings_v2 _ 115 b (n ++ 47 :: w "blobs" ++ 47 :: w "uploads")) by (try discriminate; rewrite <- ?app_assoc; cbn [app]; rewrite <- ?app_assoc; reflexivity).
    match goal with |- In _ (rd ?s) => replace s with (split_slash n [] ++ [w "blobs"; w "uploads"]) by (symmetry; exact (split_two n (w "blobs") (w "uploads") noslash_blobs noslash_uploads)) end. apply rd_uploads. exact Hn3.
  - (* upload *) destruct H as (d & -> & (Hn1 & Hn2 & Hn3) & (Hd1 & Hd2 & Hd3) & ->).
    destruct (tok_last d Hd1 Hd2) as (d0 & x & Ed & Hx).
    replace (w "/v2/" ++ n ++ w "/blobs/uploads/" ++ d ++ tail b)
      with (47 :: 118 :: 50 :: 47 :: ((n ++ 47 :: w "blobs" ++ 47 :: w "uploads" ++ 47 :: d0) ++ [x]) ++ tail b)
      by (rewrite Ed; change (w "/v2/") with [47; 118; 50; 47]; change (w "/blobs/uploads/") with (47 :: w "blobs" ++ 47 :: w "uploads" ++ [47]); cbn [app]; rewrite <- ?app_assoc; cbn [app]; rewrite <- ?app_assoc; cbn [app]; rewrite <- ?app_assoc; reflexivity).
    rewrite (readings_v2 _ x b (n ++ 47 :: w "blobs" ++ 47 :: w "uploads" ++ 47 :: d) Hx) by (rewrite Ed, <- ?app_assoc; cbn [app]; rewrite <- ?app_assoc; cbn [app]; rewrite <- ?app_assoc; reflexivity).
    match goal with |- In _ (rd ?s) => replace s with (split_slash n [] ++ [w "blobs"; w "uploads"; d]) by (symmetry; exact (split_three n (w "blobs") (w "uploads") d noslash_blobs noslash_uploads Hd2)) end. apply rd_upload; [exact Hn3|apply token_ok_spec; auto].
  - (* tags *) destruct H as (-> & (Hn1 & Hn2 & Hn3) & ->).
    replace (w "/v2/" ++ n ++ w "/tags/list" ++ tail b)
      with (47 :: 118 :: 50 :: 47 :: ((n ++ 47 :: w "tags" ++ 47 :: w "lis") ++ [116]) ++ tail b)
      by (change (w "/v2/") with [47; 118; 50; 47]; change (w "/tags/list") with (47 :: w "tags" ++ 47 :: w "lis" ++ [116]); cbn [app]; rewrite <- ?app_assoc; cbn [app]; rewrite <- ?app_assoc; reflexivity).
    rewrite (readings_v2 _ 116 b (n ++ 47 :: w "tags" ++ 47 :: w "list")) by (try discriminate; rewrite <- ?app_assoc; cbn [app]; rewrite <- ?app_assoc; reflexivity).
    match goal with |- In _ (rd ?s) => replace s with (split_slash n [] ++ [w "tags"; w "list"]) by (symmetry; exact (split_two n (w "tags") (w "list") noslash_tags noslash_list)) end. apply rd_tags. exact Hn3.
Qed.

(* the oracle finds exactly the declarative shapes *)
Theorem readings_spec url sh n last :
  utf8_valid url = true -> (In (sh, n, last) (readings url) <-> exists b, url_shape sh n last b url).
Proof. intros Hu. split; [apply readings_sound; exact Hu|intros (b & H); apply (readings_complete _ _ _ _ _ H)]. Qed.
