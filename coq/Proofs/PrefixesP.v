(* The tests on literal prefixes in search_static, delete_static, insert_static and find_static, REGENERATED on every run
   (Gen/Prefixes.v), read over byte lists with the meaning of the Rust iterator expressions, are the predicates of the
   model: starts_with (and the slice that continues the walk is the rest it returns), same_first, lcp. *)
From Coq Require Import Ascii String List NArith Bool Lia.
From WF Require Import Base.Bytes Spec.Walk Model.Tree Model.Ops Check.Tokens Gen.Prefixes Proofs.BytesP.
Import ListNotations.
Local Open Scope string_scope.

(* k: the child's prefix; p: the slice at hand (path / prefix) *)
Definition sem_pcond (c : pcond) (k p : bytes) : bool :=
  match c with
  | PLenGe => Nat.leb (length k) (length p)                                         (* p.len() >= k.len() *)
  | PZipAllEq => forallb (fun ab : byte * byte => N.eqb (fst ab) (snd ab)) (combine k p)   (* k.iter().zip(p).all(|(a, b)| a == b) *)
  | PFirstEq => match k, p with a :: _, b :: _ => N.eqb a b | _, _ => false end      (* k[0] == p[0]; out of range: C07 *)
  | PNonEmpty => match k with [] => false | _ => true end
  | PUnknown => false
  end.
Definition sem_test (cs : list pcond) (k p : bytes) : bool := forallb (fun c => sem_pcond c k p) cs.

Lemma prefix_tests_table :
  gen_prefix_tests =
    [(w "search_static", [PLenGe; PZipAllEq], w "child.state.prefix.len()..");
     (w "delete_static", [PLenGe; PZipAllEq], w "child.state.prefix.len()..");
     (w "insert_static", [PFirstEq], []);
     (w "find_static", [PNonEmpty; PFirstEq], [])]
  /\ gen_common_prefix = [(w "insert_static", true); (w "find_static", true)].
Proof. vm_compute. split; reflexivity. Qed.

(* p.len() >= k.len() && k.iter().zip(p).all(==)  is  "k is a prefix of p", and &p[k.len()..] is what remains *)
Theorem prefix_test_is_starts_with (k p : bytes) :
  sem_test [PLenGe; PZipAllEq] k p = match starts_with k p with Some _ => true | None => false end
  /\ (forall rest, starts_with k p = Some rest -> skipn (length k) p = rest).
Proof.
  unfold sem_test. cbn [forallb sem_pcond]. rewrite andb_true_r.
  revert p; induction k as [|a k IH]; intros p.
  - cbn. split; [reflexivity|]. intros rest H. inversion H. reflexivity.
  - destruct p as [|b p]; [cbn; split; [reflexivity|discriminate]|].
    cbn [length combine forallb fst snd starts_with skipn]. change (Nat.leb (S (length k)) (S (length p))) with (Nat.leb (length k) (length p)).
    destruct (N.eqb a b) eqn:E.
    + cbn [andb]. apply IH.
    + rewrite andb_false_r. cbn [andb]. split; [reflexivity|discriminate].
Qed.

Theorem first_byte_test_is_same_first (k p : bytes) :
  sem_test [PFirstEq] k p = same_first k p /\ sem_test [PNonEmpty; PFirstEq] k p = same_first k p.
Proof.
  unfold sem_test, same_first. cbn [forallb sem_pcond].
  destruct k as [|a k]; destruct p as [|b p]; cbn; rewrite ?andb_true_r; split; reflexivity.
Qed.

(* prefix.iter().zip(child prefix).take_while(|&(x, y)| x == y).count() *)
Fixpoint take_while_count (l : list (byte * byte)) : nat :=
  match l with
  | ab :: l' => if N.eqb (fst ab) (snd ab) then S (take_while_count l') else 0
  | [] => 0
  end.
Theorem common_prefix_is_lcp (p k : bytes) : take_while_count (combine p k) = lcp p k.
Proof.
  revert k; induction p as [|x p IH]; intros k; [reflexivity|].
  destruct k as [|y k]; [reflexivity|]. cbn [combine take_while_count lcp fst snd].
  destruct (N.eqb x y); [rewrite IH; reflexivity|reflexivity].
Qed.

Theorem regenerated_prefix_tests_are_the_model_predicates :
  (forall f cs sl, In (f, cs, sl) gen_prefix_tests ->
     (f = w "search_static" \/ f = w "delete_static") ->
     sl = w "child.state.prefix.len().." /\
     forall k p, sem_test cs k p = match starts_with k p with Some _ => true | None => false end
                 /\ (forall rest, starts_with k p = Some rest -> skipn (length k) p = rest))
  /\ (forall f cs sl, In (f, cs, sl) gen_prefix_tests ->
     (f = w "insert_static" \/ f = w "find_static") -> forall k p, sem_test cs k p = same_first k p)
  /\ Forall (fun fb : bytes * bool => snd fb = true) gen_common_prefix
  /\ (forall p k, take_while_count (combine p k) = lcp p k)
  /\ map (fun x : bytes * list pcond * bytes => fst (fst x)) gen_prefix_tests
     = [w "search_static"; w "delete_static"; w "insert_static"; w "find_static"].
Proof.
  destruct prefix_tests_table as [Ht Hc]. rewrite Ht, Hc. clear Ht Hc.
  split; [|split; [|split; [|split]]].
  - intros f cs sl Hin Hf.
    destruct Hin as [H|[H|[H|[H|[]]]]]; inversion H; subst; clear H;
      try (split; [reflexivity|intros k p; apply prefix_test_is_starts_with]);
      exfalso; destruct Hf as [Hf|Hf]; vm_compute in Hf; discriminate.
  - intros f cs sl Hin Hf.
    destruct Hin as [H|[H|[H|[H|[]]]]]; inversion H; subst; clear H;
      try (intros k p; apply first_byte_test_is_same_first);
      exfalso; destruct Hf as [Hf|Hf]; vm_compute in Hf; discriminate.
  - repeat constructor.
  - exact common_prefix_is_lcp.
  - reflexivity.
Qed.
