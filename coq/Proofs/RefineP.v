(* The tree search refines the reference walk: for every tree satisfying the structural
   invariant [inv_b], every path and every constraint predicate,
       search chk t p = W chk (routes_of t) p.                                              *)
From Coq Require Import Lia.
From WF Require Import Base.Bytes Base.Utf8 Spec.Route Spec.Walk Model.Tree Spec.Inv.
From WF Require Import Proofs.BytesP Proofs.WalkP Proofs.WalkFuelP.

(* ---- induction principle over all seven child lists ---- *)
Section NodeInd.
  Variable P : node -> Prop.
  Definition AllP (l : list (key * node)) := Forall (fun kc : key * node => P (snd kc)) l.
  Hypothesis H : forall d st dc dy wc wi ec en f1 f2 f3,
    AllP st -> AllP dc -> AllP dy -> AllP wc -> AllP wi -> AllP ec -> AllP en ->
    P (Node d st dc dy wc wi ec en f1 f2 f3).
  Fixpoint node_ind' (n : node) : P n :=
    match n with
    | Node d st dc dy wc wi ec en f1 f2 f3 =>
      let fix go (l : list (key * node)) : AllP l :=
        match l with
        | [] => Forall_nil _
        | kc :: l' => Forall_cons kc (node_ind' (snd kc)) (go l')
        end in
      H d st dc dy wc wi ec en f1 f2 f3 (go st) (go dc) (go dy) (go wc) (go wi) (go ec) (go en)
    end.
End NodeInd.

(* ---- cons_atoms ---- *)
Lemma cons_atoms_nil rs : cons_atoms [] rs = rs.
Proof. unfold cons_atoms. induction rs as [|[r i] rs IH]; cbn; [reflexivity|]. f_equal. exact IH. Qed.

Lemma cons_atoms_cons a pre rs : cons_atoms (a :: pre) rs = cons_atoms [a] (cons_atoms pre rs).
Proof. unfold cons_atoms. rewrite map_map. reflexivity. Qed.

Lemma strip_cons_atoms_eq b pre rs : filter_map (strip b) (cons_atoms (AB b :: pre) rs) = cons_atoms pre rs.
Proof.
  unfold cons_atoms. rewrite filter_map_map.
  induction rs as [|[r i] rs IH]; [reflexivity|].
  cbn [filter_map map]. unfold strip at 1. cbn [fst snd app]. rewrite N.eqb_refl. f_equal. exact IH.
Qed.

Lemma strip_cons_atoms_neq b x pre rs : x <> b -> filter_map (strip b) (cons_atoms (AB x :: pre) rs) = [].
Proof.
  intros Hne. unfold cons_atoms. rewrite filter_map_map. apply filter_map_none.
  intros [r i] _. unfold strip. cbn [fst snd app]. destruct (N.eqb_spec x b); [contradiction|reflexivity].
Qed.

Lemma key_of_cons_atoms_AB k x pre rs : filter_map (key_of k) (cons_atoms (AB x :: pre) rs) = [].
Proof.
  apply filter_map_none. intros ri Hin. unfold cons_atoms in Hin. apply in_map_iff in Hin as ([r i] & <- & _).
  reflexivity.
Qed.

Lemma groups_nil_of_no_keys k rs : filter_map (key_of k) rs = [] -> groups k rs = [].
Proof. unfold groups. intros ->. reflexivity. Qed.

Lemma done_cons_atoms a pre rs : done (cons_atoms (a :: pre) rs) = None.
Proof.
  unfold done. rewrite filter_map_none; [reflexivity|].
  intros ri Hin. unfold cons_atoms in Hin. apply in_map_iff in Hin as ([r i] & <- & _). reflexivity.
Qed.

Section Prefix.
  Variable chk : bytes -> bytes -> bool.

  Lemma first_some_all_none {A B} (f : A -> option B) l : (forall x, In x l -> f x = None) -> first_some f l = None.
  Proof. intros H. apply first_some_none. exact H. Qed.

  (* a literal prefix shared by all routes collapses to one prefix comparison *)
  Lemma walk_static_prefix : forall (k : bytes) rs rest f,
    length rest < f ->
    walk chk f (cons_atoms (map AB k) rs) rest =
    match starts_with k rest with Some r => walk chk f rs r | None => None end.
  Proof.
    induction k as [|x k IH]; intros rs rest f Hf.
    - cbn. rewrite cons_atoms_nil. reflexivity.
    - destruct f as [|f]; [lia|]. cbn [map]. rewrite walk_S.
      destruct rest as [|y rest]; [cbn; apply done_cons_atoms|].
      cbn [length] in Hf. cbn [starts_with].
      assert (Hk : first_some (fun k0 => first_some (fun kg : key * routes =>
                     pick chk (walk chk f (snd kg)) (fst kg) (cands k0 (y :: rest)))
                     (groups k0 (cons_atoms (AB x :: map AB k) rs))) all_kinds = None).
      { apply first_some_all_none. intros k0 _. rewrite groups_nil_of_no_keys; [reflexivity|].
        apply key_of_cons_atoms_AB. }
      rewrite Hk, or_else_none_r.
      destruct (N.eqb_spec x y) as [->|Hne].
      + rewrite strip_cons_atoms_eq. rewrite IH by lia.
        destruct (starts_with k rest) as [r|] eqn:E; [|reflexivity].
        apply starts_with_spec in E. subst rest. rewrite app_length in Hf.
        apply walk_fuel; lia.
      + rewrite strip_cons_atoms_neq by exact Hne. apply walk_nil.
  Qed.
End Prefix.

(* ---- the routes of a node, by child list ---- *)
Definition static_routes (l : list (key * node)) : routes :=
  flat_map (fun kc : key * node => cons_atoms (map AB (fst (fst kc))) (routes_of (snd kc))) l.

Definition kid_routes (k : kind) (c : node) : routes :=
  if is_end k then match n_data c with Some i => [([], i)] | None => [] end else routes_of c.

Definition kind_routes (k : kind) (l : list (key * node)) : routes :=
  flat_map (fun kc : key * node => cons_atoms [head_atom k (fst kc)] (kid_routes k (snd kc))) l.

Definition data_routes (n : node) : routes := match n_data n with Some i => [([], i)] | None => [] end.

Lemma end_routes_eq k l : is_end k = true ->
  flat_map (fun kc : key * node => match n_data (snd kc) with Some i => [([head_atom k (fst kc)], i)] | None => [] end) l
  = kind_routes k l.
Proof.
  intros He. unfold kind_routes, kid_routes. rewrite He.
  induction l as [|kc l IH]; cbn [flat_map]; [reflexivity|]. rewrite IH. f_equal.
  destruct (n_data (snd kc)); reflexivity.
Qed.

Lemma routes_of_eq n :
  routes_of n = data_routes n ++ static_routes (n_st n)
                ++ kind_routes KDC (n_dc n) ++ kind_routes KDY (n_dy n)
                ++ kind_routes KWC (n_wc n) ++ kind_routes KWI (n_wi n)
                ++ kind_routes KEC (n_ec n) ++ kind_routes KEN (n_en n).
Proof.
  rewrite <- (end_routes_eq KEC) by reflexivity. rewrite <- (end_routes_eq KEN) by reflexivity.
  destruct n; reflexivity.
Qed.

Lemma inv_b_eq n :
  inv_b n =
  (let mid (k : kind) (l : list (key * node)) :=
    strictly_sorted l
    && forallb (fun kc : key * node =>
         key_kind_ok k (fst kc) && only_static_kids (snd kc)
         && (if is_dyn k then true else negb (has_data (snd kc)))
         && negb (is_nil (routes_of (snd kc)))
         && inv_b (snd kc)) l in
  let ends (k : kind) (l : list (key * node)) :=
    strictly_sorted l
    && forallb (fun kc : key * node => key_kind_ok k (fst kc) && has_data (snd kc)) l in
  static_keys_ok (n_st n)
  && forallb (fun kc : key * node => inv_b (snd kc)) (n_st n)
  && mid KDC (n_dc n) && mid KDY (n_dy n) && mid KWC (n_wc n) && mid KWI (n_wi n)
  && ends KEC (n_ec n) && ends KEN (n_en n)
  && implb (n_dflag n) (forallb (fun kc : key * node => slash_ok (snd kc)) (n_dc n ++ n_dy n))
  && implb (n_wflag n) (forallb (fun kc : key * node => slash_ok (snd kc)) (n_wc n ++ n_wi n))).
Proof. destruct n; reflexivity. Qed.

(* the invariant, unpacked *)
Record InvN (n : node) : Prop := {
  iv_static_keys : static_keys_ok (n_st n) = true;
  iv_static_inv : forall kc, In kc (n_st n) -> inv_b (snd kc) = true;
  iv_sorted : forall k, strictly_sorted (kids k n) = true;
  iv_key_ok : forall k kc, In kc (kids k n) -> key_kind_ok k (fst kc) = true;
  iv_mid : forall k kc, is_end k = false -> In kc (kids k n) ->
           only_static_kids (snd kc) = true /\ (is_dyn k = false -> n_data (snd kc) = None)
           /\ routes_of (snd kc) <> [] /\ inv_b (snd kc) = true;
  iv_end : forall k kc, is_end k = true -> In kc (kids k n) -> exists i, n_data (snd kc) = Some i;
  iv_dflag : n_dflag n = true -> forall kc, In kc (n_dc n ++ n_dy n) -> slash_ok (snd kc) = true;
  iv_wflag : n_wflag n = true -> forall kc, In kc (n_wc n ++ n_wi n) -> slash_ok (snd kc) = true }.

Lemma has_data_some c : has_data c = true -> exists i, n_data c = Some i.
Proof. unfold has_data. destruct (n_data c); [eauto|discriminate]. Qed.

Lemma inv_unpack n : inv_b n = true -> InvN n.
Proof.
  rewrite inv_b_eq. cbv zeta. intros H.
  repeat (apply andb_true_iff in H; destruct H as [H ?]).
  repeat match goal with
         | Hx : (_ && _) = true |- _ => apply andb_true_iff in Hx; destruct Hx
         end.
  assert (Hmid : forall k l,
     forallb (fun kc : key * node =>
         key_kind_ok k (fst kc) && only_static_kids (snd kc)
         && (if is_dyn k then true else negb (has_data (snd kc)))
         && negb (is_nil (routes_of (snd kc))) && inv_b (snd kc)) l = true ->
     forall kc, In kc l ->
       key_kind_ok k (fst kc) = true /\ only_static_kids (snd kc) = true
       /\ (is_dyn k = false -> n_data (snd kc) = None) /\ routes_of (snd kc) <> [] /\ inv_b (snd kc) = true).
  { intros k l Hf kc Hin. rewrite forallb_forall in Hf. specialize (Hf kc Hin).
    repeat (apply andb_true_iff in Hf; destruct Hf as [Hf ?]).
    repeat split; auto.
    - intros Hd. rewrite Hd in *. unfold has_data in *. destruct (n_data (snd kc)); [discriminate|reflexivity].
    - intros E. rewrite E in *. discriminate. }
  assert (Hend : forall k l,
     forallb (fun kc : key * node => key_kind_ok k (fst kc) && has_data (snd kc)) l = true ->
     forall kc, In kc l -> key_kind_ok k (fst kc) = true /\ exists i, n_data (snd kc) = Some i).
  { intros k l Hf kc Hin. rewrite forallb_forall in Hf. specialize (Hf kc Hin).
    apply andb_true_iff in Hf as [Hk Hd]. split; [exact Hk|apply has_data_some; exact Hd]. }
  constructor.
  - assumption.
  - intros kc Hin. match goal with Hx : forallb (fun kc => inv_b (snd kc)) _ = true |- _ => rewrite forallb_forall in Hx; apply Hx; exact Hin end.
  - intros k; destruct k; assumption.
  - intros k kc Hin. destruct k; cbn [kids] in Hin;
      first [ eapply Hmid in Hin; [apply Hin|eassumption]
            | eapply Hend in Hin; [apply Hin|eassumption] ].
  - intros k kc He Hin. destruct k; try discriminate; cbn [kids] in Hin;
      (eapply Hmid in Hin; [|eassumption]); destruct Hin as (_ & ? & ? & ? & ?); auto.
  - intros k kc He Hin. destruct k; try discriminate; cbn [kids] in Hin;
      (eapply Hend in Hin; [|eassumption]); apply Hin.
  - intros Hfl kc Hin. match goal with Hx : implb (n_dflag n) _ = true |- _ => rewrite Hfl in Hx; cbn in Hx; rewrite forallb_forall in Hx; apply Hx; exact Hin end.
  - intros Hfl kc Hin. match goal with Hx : implb (n_wflag n) _ = true |- _ => rewrite Hfl in Hx; cbn in Hx; rewrite forallb_forall in Hx; apply Hx; exact Hin end.
Qed.

(* ---- which routes have nothing left ---- *)
Lemma static_keys_nonempty l kc : static_keys_ok l = true -> In kc l -> exists b k', fst (fst kc) = b :: k' /\ snd (fst kc) = None.
Proof.
  induction l as [|x l IH]; cbn; [intros _ []|].
  intros H [<-|Hin].
  - apply andb_true_iff in H as [H _]. unfold first_byte in H.
    destruct (fst (fst x)) as [|b k']; [discriminate|]. destruct (snd (fst x)); [discriminate|]. eauto.
  - apply andb_true_iff in H as [_ H]. auto.
Qed.

Lemma in_cons_atoms pre rs r i : In (r, i) (cons_atoms pre rs) <-> exists r', r = pre ++ r' /\ In (r', i) rs.
Proof.
  unfold cons_atoms. rewrite in_map_iff. split.
  - intros ([r' i'] & E & Hin). cbn [fst snd] in E. inversion E; subst. exists r'. split; [reflexivity|exact Hin].
  - intros (r' & -> & Hin). exists (r', i). split; [reflexivity|exact Hin].
Qed.

Lemma in_static_routes l r i :
  In (r, i) (static_routes l) <-> exists kc r', In kc l /\ r = map AB (fst (fst kc)) ++ r' /\ In (r', i) (routes_of (snd kc)).
Proof.
  unfold static_routes. rewrite in_flat_map. split.
  - intros (kc & Hkc & Hin). apply in_cons_atoms in Hin as (r' & -> & Hin). exists kc, r'. repeat split; auto.
  - intros (kc & r' & Hkc & -> & Hin). exists kc. split; [exact Hkc|]. apply in_cons_atoms. exists r'. split; auto.
Qed.

Lemma in_kind_routes k l r i :
  In (r, i) (kind_routes k l) <-> exists kc r', In kc l /\ r = head_atom k (fst kc) :: r' /\ In (r', i) (kid_routes k (snd kc)).
Proof.
  unfold kind_routes. rewrite in_flat_map. split.
  - intros (kc & Hkc & Hin). apply in_cons_atoms in Hin as (r' & -> & Hin). exists kc, r'. repeat split; auto.
  - intros (kc & r' & Hkc & -> & Hin). exists kc. split; [exact Hkc|]. apply in_cons_atoms. exists r'. split; auto.
Qed.

Lemma nil_route_data n i : static_keys_ok (n_st n) = true -> In ([], i) (routes_of n) -> n_data n = Some i.
Proof.
  intros Hs. rewrite routes_of_eq. rewrite !in_app_iff. intros [H|[H|H]].
  - unfold data_routes in H. destruct (n_data n); [|destruct H]. destruct H as [H|[]]. congruence.
  - apply in_static_routes in H as (kc & r' & Hkc & E & _).
    destruct (static_keys_nonempty _ _ Hs Hkc) as (b & k' & Hk & _). rewrite Hk in E. discriminate.
  - repeat (destruct H as [H|H]); apply in_kind_routes in H as (kc & r' & _ & E & _); discriminate.
Qed.

Lemma done_routes_of n : static_keys_ok (n_st n) = true -> done (routes_of n) = match n_data n with Some i => Some (i, []) | None => None end.
Proof.
  intros Hs. unfold done.
  destruct (n_data n) as [i|] eqn:Ed.
  - rewrite routes_of_eq. unfold data_routes. rewrite Ed. reflexivity.
  - rewrite filter_map_none; [reflexivity|].
    intros [r i] Hin. cbn. destruct r; [|reflexivity].
    apply nil_route_data in Hin; [congruence|exact Hs].
Qed.

(* ---- classification of the routes below a parameter child ---- *)
Lemma classify_head k ky r' :
  key_kind_ok k ky = true -> (is_end k = true -> r' = []) -> ((k = KWC \/ k = KWI) -> r' <> []) ->
  classify (head_atom k ky :: r') = Some (k, ky, r').
Proof.
  destruct ky as [nm c]. unfold key_kind_ok. cbn [snd].
  destruct k, c; try discriminate; intros _ He Hw; cbn [head_atom classify fst snd];
    try reflexivity;
    try (rewrite (He eq_refl); reflexivity);
    (destruct r' as [|a r']; [exfalso; apply Hw; auto|reflexivity]).
Qed.

Lemma kind_eqb_eq a b : kind_eqb a b = true <-> a = b.
Proof. destruct a, b; cbn; split; congruence. Qed.

Lemma kind_eqb_refl a : kind_eqb a a = true.
Proof. destruct a; reflexivity. Qed.

Section Groups.
  (* the hypothesis on the children of kind k' that the invariant provides *)
  Definition kids_wf (k' : kind) (l : list (key * node)) : Prop :=
    forall kc, In kc l ->
      key_kind_ok k' (fst kc) = true
      /\ ((k' = KWC \/ k' = KWI) -> forall r i, In (r, i) (kid_routes k' (snd kc)) -> r <> []).

  Lemma kid_routes_end k c r i : is_end k = true -> In (r, i) (kid_routes k c) -> r = [].
  Proof.
    unfold kid_routes. intros ->. destruct (n_data c); [|intros []]. intros [H|[]]. congruence.
  Qed.

  Lemma key_of_kind_routes k k' l :
    kids_wf k' l ->
    filter_map (key_of k) (kind_routes k' l) =
    if kind_eqb k k' then flat_map (fun kc : key * node => map (fun x => (fst kc, x)) (kid_routes k' (snd kc))) l else [].
  Proof.
    intros Hwf. unfold kind_routes. rewrite filter_map_flat_map.
    assert (Hpt : forall kc, In kc l ->
      filter_map (key_of k) (cons_atoms [head_atom k' (fst kc)] (kid_routes k' (snd kc))) =
      if kind_eqb k k' then map (fun x => (fst kc, x)) (kid_routes k' (snd kc)) else []).
    { intros kc Hkc. destruct (Hwf kc Hkc) as [Hok Hne].
      unfold cons_atoms. rewrite filter_map_map.
      assert (Hone : forall x, In x (kid_routes k' (snd kc)) ->
                key_of k ([head_atom k' (fst kc)] ++ fst x, snd x) = if kind_eqb k k' then Some (fst kc, x) else None).
      { intros [r i] Hx. unfold key_of. cbn [fst snd app].
        rewrite classify_head; auto.
        - intros He. eapply kid_routes_end; eauto.
        - intros Hw. eapply Hne; eauto. }
      destruct (kind_eqb k k').
      - apply filter_map_all_some. exact Hone.
      - apply filter_map_none. exact Hone. }
    destruct (kind_eqb k k').
    - apply flat_map_ext_in. exact Hpt.
    - apply flat_map_nil. exact Hpt.
  Qed.

  (* inserting the members of sorted, non-empty groups one by one rebuilds the groups *)
  Fixpoint keys_sorted (l : list (key * routes)) : Prop :=
    match l with
    | [] => True
    | x :: l' => match l' with [] => True | y :: _ => kcmp (fst x) (fst y) = Lt end /\ keys_sorted l'
    end.

  Lemma fold_ginsert_group ky g (L : list (key * routes)) :
    g <> [] -> match L with [] => True | y :: _ => kcmp ky (fst y) = Lt end ->
    fold_right (fun (kx : key * (route * info)) gs => ginsert (fst kx) (snd kx) gs) L (map (fun x => (ky, x)) g) = (ky, g) :: L.
  Proof.
    intros Hg HL. induction g as [|x g IH]; [congruence|].
    cbn [map fold_right fst snd]. destruct g as [|x' g].
    - cbn [map fold_right]. destruct L as [|[k' g'] L]; [reflexivity|]. cbn [ginsert]. cbn [fst] in HL. rewrite HL. reflexivity.
    - rewrite IH by discriminate. cbn [ginsert]. rewrite kcmp_refl. reflexivity.
  Qed.

  Lemma fold_ginsert_sorted (L : list (key * routes)) :
    keys_sorted L -> (forall kg, In kg L -> snd kg <> []) ->
    fold_right (fun (kx : key * (route * info)) gs => ginsert (fst kx) (snd kx) gs) []
               (flat_map (fun kg : key * routes => map (fun x => (fst kg, x)) (snd kg)) L) = L.
  Proof.
    induction L as [|[ky g] L IH]; intros Hs Hne; [reflexivity|].
    cbn [flat_map fst snd]. rewrite fold_right_app. rewrite IH.
    - apply fold_ginsert_group.
      + apply (Hne (ky, g)). left; reflexivity.
      + destruct Hs as [Hs _]. destruct L; [exact I|exact Hs].
    - destruct Hs as [_ Hs]. exact Hs.
    - intros kg Hkg. apply Hne. right; exact Hkg.
  Qed.
End Groups.

Lemma strictly_sorted_keys (l : list (key * node)) (f : key * node -> routes) :
  strictly_sorted l = true -> keys_sorted (map (fun kc => (fst kc, f kc)) l).
Proof.
  induction l as [|x l IH]; cbn [strictly_sorted map keys_sorted]; [auto|].
  intros H. apply andb_true_iff in H as [H1 H2]. split; [|apply IH; exact H2].
  destruct l as [|y l]; cbn [map]; [exact I|]. cbn [fst]. destruct (kcmp (fst x) (fst y)); try discriminate. reflexivity.
Qed.

(* ---- the groups of the routes of a node are its child lists ---- *)
Lemma kids_wf_inv n : InvN n -> forall k', kids_wf k' (kids k' n).
Proof.
  intros I k' kc Hkc. split; [eapply iv_key_ok; eauto|].
  intros Hw r i Hin E. subst r.
  assert (He : is_end k' = false) by (destruct Hw; subst; reflexivity).
  destruct (iv_mid n I k' kc He Hkc) as (_ & Hnd & _ & Hinv).
  unfold kid_routes in Hin. rewrite He in Hin.
  apply nil_route_data in Hin.
  - rewrite Hnd in Hin; [discriminate|]. destruct Hw; subst; reflexivity.
  - apply inv_unpack in Hinv. apply (iv_static_keys _ Hinv).
Qed.

Lemma key_of_data k n : filter_map (key_of k) (data_routes n) = [].
Proof. unfold data_routes. destruct (n_data n); reflexivity. Qed.

Lemma key_of_static k l : static_keys_ok l = true -> filter_map (key_of k) (static_routes l) = [].
Proof.
  intros Hs. unfold static_routes. rewrite filter_map_flat_map. apply flat_map_nil.
  intros kc Hkc. destruct (static_keys_nonempty _ _ Hs Hkc) as (b & k' & Hk & _). rewrite Hk. cbn [map].
  apply key_of_cons_atoms_AB.
Qed.

Lemma kid_routes_nonempty n k kc : InvN n -> In kc (kids k n) -> kid_routes k (snd kc) <> [].
Proof.
  intros I Hkc. unfold kid_routes. destruct (is_end k) eqn:He.
  - destruct (iv_end n I k kc He Hkc) as (i & ->). discriminate.
  - destruct (iv_mid n I k kc He Hkc) as (_ & _ & Hne & _). exact Hne.
Qed.

Lemma groups_routes_of n k : InvN n ->
  groups k (routes_of n) = map (fun kc : key * node => (fst kc, kid_routes k (snd kc))) (kids k n).
Proof.
  intros I. unfold groups. rewrite routes_of_eq. rewrite !filter_map_app.
  rewrite key_of_data, (key_of_static k _ (iv_static_keys n I)).
  rewrite (key_of_kind_routes k KDC (n_dc n) (kids_wf_inv n I KDC)).
  rewrite (key_of_kind_routes k KDY (n_dy n) (kids_wf_inv n I KDY)).
  rewrite (key_of_kind_routes k KWC (n_wc n) (kids_wf_inv n I KWC)).
  rewrite (key_of_kind_routes k KWI (n_wi n) (kids_wf_inv n I KWI)).
  rewrite (key_of_kind_routes k KEC (n_ec n) (kids_wf_inv n I KEC)).
  rewrite (key_of_kind_routes k KEN (n_en n) (kids_wf_inv n I KEN)).
  assert (Hfin : fold_right (fun (kx : key * (route * info)) gs => ginsert (fst kx) (snd kx) gs) []
                   (flat_map (fun kc : key * node => map (fun x => (fst kc, x)) (kid_routes k (snd kc))) (kids k n))
                 = map (fun kc : key * node => (fst kc, kid_routes k (snd kc))) (kids k n)).
  { etransitivity; [|apply (fold_ginsert_sorted (map (fun kc : key * node => (fst kc, kid_routes k (snd kc))) (kids k n)))].
    - f_equal. rewrite (flat_map_concat_map _ (map _ _)), map_map, <- flat_map_concat_map. reflexivity.
    - apply strictly_sorted_keys. apply (iv_sorted n I).
    - intros kg Hkg. apply in_map_iff in Hkg as (kc & <- & Hkc). cbn [snd]. eapply kid_routes_nonempty; eauto. }
  destruct k; cbn [kind_eqb app]; rewrite ?app_nil_r; exact Hfin.
Qed.

(* ---- candidate enumerations ---- *)
Lemma dyn_seg_filter : forall p pre,
  filter boundary (cands_from true pre p) =
  let '(s, t) := span_seg p in match s with [] => [] | _ => [(pre ++ s, t)] end.
Proof.
  induction p as [|b r IH]; intros pre; [reflexivity|].
  cbn [cands_from span_seg]. destruct (N.eqb_spec b SL) as [->|Hb]; cbn [andb]; [reflexivity|].
  cbn [filter]. rewrite IH.
  destruct r as [|c r'].
  - cbn. reflexivity.
  - unfold boundary at 1. cbn [snd]. cbn [span_seg].
    destruct (N.eqb_spec c SL) as [->|Hc].
    + reflexivity.
    + destruct (span_seg r') as [s' t']. rewrite <- app_assoc. reflexivity.
Qed.

Lemma seg_cands_filter k p : is_end k = false -> seg_cands k p = filter boundary (cands k p).
Proof.
  intros He. unfold seg_cands, cands. rewrite He. destruct (is_dyn k) eqn:Ed; [|reflexivity].
  rewrite dyn_seg_filter. destruct (span_seg p) as [s t]. reflexivity.
Qed.

Section Main.
  Variable chk : bytes -> bytes -> bool.

  Lemma search_eq n p :
    search chk n p =
    match p with
    | [] => node_done n
    | _ :: _ =>
      or_else
        (first_some (fun kc : key * node =>
           match starts_with (fst (fst kc)) p with
           | Some rest => search chk (snd kc) rest
           | None => None
           end) (n_st n))
        (first_some (fun k =>
           first_some (fun kc : key * node => pick chk (search chk (snd kc)) (fst kc) (tcands n k p))
                      (kids k n))
           all_kinds)
    end.
  Proof. destruct n, p; reflexivity. Qed.

  (* a node whose literal children all start with '/' and that has no parameter children cannot
     continue with a byte other than '/' *)
  Lemma search_nonslash_none c x r :
    slash_ok c = true -> only_static_kids c = true -> x <> SL -> search chk c (x :: r) = None.
  Proof.
    intros Hs Ho Hx. rewrite search_eq.
    unfold only_static_kids in Ho. repeat (apply andb_true_iff in Ho; destruct Ho as [Ho ?]).
    assert (Hk : forall k, kids k c = []).
    { intros k. destruct k; cbn [kids]; match goal with Hn : is_nil ?l = true |- ?l = [] => destruct l; [reflexivity|discriminate] end. }
    rewrite (first_some_all_none (fun k => first_some _ (kids k c))) by (intros k _; rewrite Hk; reflexivity).
    rewrite or_else_none_r. apply first_some_all_none. intros kc Hkc.
    unfold slash_ok in Hs. rewrite forallb_forall in Hs. specialize (Hs kc Hkc).
    unfold hd_is in Hs. destruct (fst (fst kc)) as [|y k']; [discriminate|]. apply N.eqb_eq in Hs. subst y.
    cbn [starts_with]. destruct (N.eqb_spec SL x); [congruence|reflexivity].
  Qed.

  Lemma tcands_pick n k kc p :
    InvN n -> In kc (kids k n) ->
    pick chk (search chk (snd kc)) (fst kc) (tcands n k p) = pick chk (search chk (snd kc)) (fst kc) (cands k p).
  Proof.
    intros I Hkc.
    assert (Hseg : is_end k = false ->
              (forall kc', In kc' (kids k n) -> slash_ok (snd kc') = true) ->
              pick chk (search chk (snd kc)) (fst kc) (seg_cands k p) = pick chk (search chk (snd kc)) (fst kc) (cands k p)).
    { intros He Hsl. rewrite seg_cands_filter by exact He. apply pick_filter.
      intros [v r] _ Hb. unfold boundary in Hb. cbn [snd] in *. destruct r as [|x r]; [discriminate|].
      destruct (iv_mid n I k kc He Hkc) as (Ho & _ & _ & _).
      apply search_nonslash_none; auto.
      intros ->. rewrite N.eqb_refl in Hb. discriminate. }
    destruct k; cbn [tcands]; try reflexivity.
    - destruct (n_dflag n) eqn:Ef; [|reflexivity]. apply Hseg; [reflexivity|].
      intros kc' Hkc'. apply (iv_dflag n I Ef). apply in_or_app. left. exact Hkc'.
    - destruct (n_dflag n) eqn:Ef; [|reflexivity]. apply Hseg; [reflexivity|].
      intros kc' Hkc'. apply (iv_dflag n I Ef). apply in_or_app. right. exact Hkc'.
    - destruct (n_wflag n) eqn:Ef; [|reflexivity]. apply Hseg; [reflexivity|].
      intros kc' Hkc'. apply (iv_wflag n I Ef). apply in_or_app. left. exact Hkc'.
    - destruct (n_wflag n) eqn:Ef; [|reflexivity]. apply Hseg; [reflexivity|].
      intros kc' Hkc'. apply (iv_wflag n I Ef). apply in_or_app. right. exact Hkc'.
  Qed.

  (* ---- the literal step ---- *)
  Definition strip_static (b : byte) (kc : key * node) : routes :=
    match fst (fst kc) with
    | x :: k' => if N.eqb x b then cons_atoms (map AB k') (routes_of (snd kc)) else []
    | [] => []
    end.

  Lemma strip_kind_routes b k l : filter_map (strip b) (kind_routes k l) = [].
  Proof.
    apply filter_map_none. intros [r i] Hin. apply in_kind_routes in Hin as (kc & r' & _ & -> & _).
    unfold strip. cbn [fst]. destruct k; reflexivity.
  Qed.

  Lemma strip_routes_of n b : InvN n ->
    filter_map (strip b) (routes_of n) = flat_map (strip_static b) (n_st n).
  Proof.
    intros I. rewrite routes_of_eq, !filter_map_app, !strip_kind_routes, !app_nil_r.
    assert (Hd : filter_map (strip b) (data_routes n) = []) by (unfold data_routes; destruct (n_data n); reflexivity).
    rewrite Hd. cbn [app]. unfold static_routes. rewrite filter_map_flat_map.
    apply flat_map_ext_in. intros kc Hkc. unfold strip_static.
    destruct (static_keys_nonempty _ _ (iv_static_keys n I) Hkc) as (x & k' & Hk & _). rewrite Hk. cbn [map].
    destruct (N.eqb_spec x b) as [->|Hne]; [apply strip_cons_atoms_eq|apply strip_cons_atoms_neq; exact Hne].
  Qed.

  Lemma static_others_none b (l : list (key * node)) :
    (forall kc, In kc l -> match first_byte (fst kc) with Some b' => N.eqb b b' = false | None => False end) ->
    forall rest,
    first_some (fun kc : key * node =>
       match starts_with (fst (fst kc)) (b :: rest) with Some r => search chk (snd kc) r | None => None end) l = None
    /\ flat_map (strip_static b) l = [].
  Proof.
    intros H rest. split.
    - apply first_some_all_none. intros kc Hkc. specialize (H kc Hkc). unfold first_byte in H.
      destruct (fst (fst kc)) as [|y k']; [destruct H|]. cbn [starts_with].
      rewrite N.eqb_sym, H. reflexivity.
    - apply flat_map_nil. intros kc Hkc. specialize (H kc Hkc). unfold first_byte in H. unfold strip_static.
      destruct (fst (fst kc)) as [|y k']; [reflexivity|]. rewrite N.eqb_sym, H. reflexivity.
  Qed.

  Lemma search_static_walk f b rest : forall l,
    static_keys_ok l = true -> length rest < f ->
    (forall kc, In kc l -> forall p, length p < f -> search chk (snd kc) p = walk chk f (routes_of (snd kc)) p) ->
    first_some (fun kc : key * node =>
       match starts_with (fst (fst kc)) (b :: rest) with Some r => search chk (snd kc) r | None => None end) l
    = walk chk f (flat_map (strip_static b) l) rest.
  Proof.
    induction l as [|kc l IH]; intros Hs Hf HI; [symmetry; apply walk_nil|].
    cbn [static_keys_ok] in Hs. apply andb_true_iff in Hs as [Hk Hs].
    cbn [first_some flat_map].
    unfold first_byte in Hk. unfold strip_static at 1.
    destruct (fst (fst kc)) as [|x k'] eqn:Ek; [discriminate|].
    destruct (snd (fst kc)); [discriminate|].
    cbn [starts_with]. destruct (N.eqb_spec x b) as [->|Hne].
    - (* this child owns byte b; no other child does *)
      assert (Hoth : forall kc', In kc' l -> match first_byte (fst kc') with Some b' => N.eqb b b' = false | None => False end).
      { intros kc' Hkc'. apply negb_true_iff in Hk. 
        assert (Hx : existsb (fun y : key * node => match first_byte (fst y) with Some b' => N.eqb b b' | None => true end) l = false) by exact Hk.
        rewrite <- not_true_iff_false in Hx. rewrite existsb_exists in Hx.
        destruct (first_byte (fst kc')) as [b'|] eqn:E.
        - destruct (N.eqb b b') eqn:E'; [|reflexivity]. exfalso. apply Hx. exists kc'. rewrite E. auto.
        - apply Hx. exists kc'. rewrite E. auto. }
      destruct (static_others_none b l Hoth rest) as [H1 H2]. rewrite H2, app_nil_r.
      match goal with |- context [first_some ?g l] => replace (first_some g l) with (@None (info * params)) by (symmetry; exact H1) end.
      rewrite walk_static_prefix by exact Hf.
      destruct (starts_with k' rest) as [r|] eqn:E; [|reflexivity].
      rewrite (HI kc (or_introl eq_refl) r).
      + destruct (walk chk f (routes_of (snd kc)) r); reflexivity.
      + apply starts_with_spec in E. subst rest. rewrite app_length in Hf. lia.
    - cbn [app]. apply IH; auto. intros kc' Hkc'. apply HI. right; exact Hkc'.
  Qed.

  (* ---- the theorem ---- *)
  Definition Refines (n : node) : Prop :=
    inv_b n = true -> forall p f, length p < f -> search chk n p = walk chk f (routes_of n) p.

  Lemma refines_step n :
    (forall kc, In kc (n_st n) -> Refines (snd kc)) ->
    (forall k kc, In kc (kids k n) -> Refines (snd kc)) ->
    Refines n.
  Proof.
    intros IHst IHk Hinv p f Hf.
    pose proof (inv_unpack n Hinv) as I.
    destruct f as [|f]; [lia|]. rewrite search_eq, walk_S.
    destruct p as [|b rest].
    - rewrite done_routes_of by apply (iv_static_keys n I). reflexivity.
    - cbn [length] in Hf. f_equal.
      + rewrite strip_routes_of by exact I.
        apply search_static_walk; [apply (iv_static_keys n I)|lia|].
        intros kc Hkc p' Hp'. apply IHst; auto. apply (iv_static_inv n I kc Hkc).
      + apply first_some_ext. intros k _.
        rewrite groups_routes_of by exact I. rewrite first_some_map.
        apply first_some_ext. intros kc Hkc. cbn [fst snd].
        rewrite tcands_pick by (exact I || exact Hkc).
        apply pick_ext. intros c Hc.
        pose proof (cands_shorter k (b :: rest) c ltac:(discriminate) Hc) as Hlen. cbn [length] in Hlen.
        unfold kid_routes. destruct (is_end k) eqn:He.
        * destruct c as [v r]. apply cands_spec in Hc as (_ & _ & _ & Hr); [|discriminate].
          cbn [snd]. rewrite (Hr He). destruct (iv_end n I k kc He Hkc) as (i & Hd).
          rewrite search_eq. unfold node_done. rewrite Hd.
          destruct f as [|f]; [lia|]. reflexivity.
        * destruct (iv_mid n I k kc He Hkc) as (_ & _ & _ & Hci).
          apply IHk with (k := k); auto. lia.
  Qed.

  Theorem search_refines_walk : forall n, Refines n.
  Proof.
    induction n using node_ind'.
    apply refines_step.
    - cbn [n_st]. intros kc Hkc. unfold AllP in *. rewrite Forall_forall in *. auto.
    - intros k kc Hkc. unfold AllP in *. rewrite Forall_forall in *.
      destruct k; cbn [kids n_dc n_dy n_wc n_wi n_ec n_en] in Hkc; auto.
  Qed.

  Corollary search_refines_W n p : inv_b n = true -> search chk n p = W chk (routes_of n) p.
  Proof. intros H. unfold W. apply search_refines_walk; [exact H|lia]. Qed.
End Main.

Print Assumptions search_refines_W.
