(* C14, first half on the model: what the errors of the parser model point at.
   Group errors: the reported text is the input; EmptyParentheses points at "()", UnbalancedParenthesis at a
   parenthesis.  (Nested scans run on balanced segments and can only report an empty pair.) *)
From Coq Require Import Lia Arith PeanoNat ZArith.
From WF Require Import Base.Bytes Base.Utf8 Spec.Route Spec.Grammar Model.Parser.
From WF Require Import Proofs.BytesP Proofs.ParserPartsP Proofs.ParserSafeP Proofs.ExpandP Proofs.ParserSpecP Proofs.ExpandSpecP.

Definition empty_paren_err (input : bytes) (e : terr) : Prop :=
  match e with
  | EEmptyParentheses t p => t = input /\ nth_error input p = Some LP /\ nth_error input (S p) = Some RP
  | _ => False
  end.

Definition paren_err_ok (input : bytes) (e : terr) : Prop :=
  match e with
  | EEmptyParentheses t p => t = input /\ nth_error input p = Some LP /\ nth_error input (S p) = Some RP
  | EUnbalancedParenthesis t p => t = input /\ (nth_error input p = Some LP \/ nth_error input p = Some RP)
  | _ => False
  end.

Lemma empty_paren_is_ok input e : empty_paren_err input e -> paren_err_ok input e.
Proof. destruct e; cbn; intros H; try exact H; try contradiction. Qed.

Lemma bind_err {A B} (m : out A) (f : A -> out B) e :
  bind m f = Err e -> m = Err e \/ exists a, m = Ret a /\ f a = Err e.
Proof. destruct m; cbn; intros H; try discriminate; [right; eauto|left; inversion H; reflexivity]. Qed.

Lemma idx_not_err l i site e : idx l i site <> Err e.
Proof. unfold idx. destruct (nth_error l i); discriminate. Qed.
Lemma slice_not_err l a b site e : slice l a b site <> Err e.
Proof. unfold slice. destruct (_ && _)%bool; discriminate. Qed.
Lemma subn_not_err a b site e : subn a b site <> Err e.
Proof. unfold subn. destruct (Nat.leb b a); discriminate. Qed.

Lemma da_single_plain c d : N.eqb c BSL = false -> N.eqb c LP = false -> N.eqb c RP = false -> depth_after [c] d = Some d.
Proof. intros H1 H2 H3. cbn [depth_after]. rewrite H1, H2, H3. reflexivity. Qed.

Section Scan.
  Variable input : bytes.
  Notation sg := (seg input).

  (* the state of the scanner inside a group: the group starts right after a '(' and the text scanned since
     then brings nesting depth 1 to the current depth *)
  Definition in_group (group cursor : nat) (depth : Z) : Prop :=
    (1 <= depth)%Z -> 1 <= group /\ nth_error input (group - 1) = Some LP
                      /\ depth_after (sg group cursor) 1 = Some (Z.to_nat depth).

  Lemma sg_split a b c : a <= b -> b <= c -> c <= length input -> sg a c = sg a b ++ sg b c.
  Proof.
    intros H1 H2 H3. unfold seg. replace (c - a) with ((b - a) + (c - b)) by lia.
    rewrite <- (firstn_skipn (b - a) (skipn a input)) at 1.
    rewrite firstn_app. rewrite firstn_length, skipn_length. replace (Nat.min (b - a) (length input - a)) with (b - a) by lia.
    replace (b - a + (c - b) - (b - a)) with (c - b) by lia.
    rewrite firstn_firstn. replace (Nat.min (b - a + (c - b)) (b - a)) with (b - a) by lia. f_equal.
    rewrite skipn_skipn'. replace (a + (b - a)) with b by lia. reflexivity.
  Qed.

  Variables (start en : nat).
  Hypothesis Hse : start <= en.
  Hypothesis Hen : en <= length input.
  Variable rec : nat -> nat -> out (list bytes).
  Hypothesis Hrec : forall g c e, 1 <= g -> nth_error input (g - 1) = Some LP -> g <= c -> c <= length input ->
                      depth_after (sg g c) 1 = Some 1 -> rec g c = Err e -> empty_paren_err input e.

  (* one step of the bookkeeping, shared by both lemmas *)
  Lemma in_group_step group cursor depth c :
    group <= cursor -> nth_error input cursor = Some c -> (1 <= depth)%Z -> in_group group cursor depth ->
    forall d', depth_after [c] (Z.to_nat depth) = Some d' -> 1 <= d' ->
    forall depth', Z.to_nat depth' = d' -> in_group group (S cursor) depth'.
  Proof.
    intros Hgc Hn Hd Hin d' Hda Hd' depth' Hz _. destruct (Hin Hd) as (G1 & G2 & G3).
    split; [exact G1|]. split; [exact G2|]. rewrite (seg_snoc input group cursor c Hgc Hn).
    rewrite (da_app _ [c] 1 _ G3), Hda, Hz. reflexivity.
  Qed.

  (* ---- inside a balanced range: only an empty pair can be reported ---- *)
  Lemma scan_err_nested : forall steps cursor group depth result e,
    depth_after (sg start en) 1 = Some 1 ->
    start <= group -> group <= cursor -> cursor <= en -> (0 <= depth)%Z ->
    depth_after (sg start cursor) 1 = Some (S (Z.to_nat depth)) ->
    in_group group cursor depth ->
    scan_f rec input start en steps cursor group depth result = Err e -> empty_paren_err input e.
  Proof.
    induction steps as [|steps IH]; intros cursor group depth result e Hbal Hsg Hgc Hce Hd Hpre Hin H; [discriminate|].
    rewrite scan_f_S in H. destruct (Nat.ltb cursor en) eqn:El.
    - apply Nat.ltb_lt in El.
      destruct (nth_error input cursor) as [c|] eqn:En; [|apply nth_error_None in En; lia].
      rewrite (idx_nth input cursor 1 c En) in H. cbn [bind] in H.
      (* what follows the scanned prefix brings depth S d to 1 *)
      assert (Hrest : depth_after (c :: sg (S cursor) en) (S (Z.to_nat depth)) = Some 1).
      { rewrite <- (seg_cons input cursor en c El En). rewrite <- (da_app _ _ 1 _ Hpre).
        rewrite <- (sg_split start cursor en) by lia. exact Hbal. }
      assert (Hpre1 : forall d', depth_after [c] (S (Z.to_nat depth)) = Some d' -> depth_after (sg start (S cursor)) 1 = Some d').
      { intros d' Hd'. rewrite (seg_snoc input start cursor c ltac:(lia) En). rewrite (da_app _ [c] 1 _ Hpre). exact Hd'. }
      destruct (N.eqb c BSL) eqn:EB.
      + destruct (nth_error input (S cursor)) as [y|] eqn:En1; cbn [andb] in H.
        * destruct (Nat.ltb (S cursor) en) eqn:El1.
          -- apply Nat.ltb_lt in El1. replace (cursor + 2) with (S (S cursor)) in H by lia.
             assert (Hp2 : depth_after (sg start (S (S cursor))) 1 = Some (S (Z.to_nat depth))).
             { rewrite (seg_snoc input start (S cursor) y ltac:(lia) En1), (seg_snoc input start cursor c ltac:(lia) En), <- app_assoc.
               rewrite (da_app _ ([c] ++ [y]) 1 _ Hpre). cbn [app depth_after]. rewrite EB. reflexivity. }
             apply (IH (S (S cursor)) group depth result e Hbal Hsg ltac:(lia) ltac:(lia) Hd Hp2); [|exact H].
             intros Hd1. destruct (Hin Hd1) as (G1 & G2 & G3). split; [exact G1|]. split; [exact G2|].
             rewrite (seg_snoc input group (S cursor) y ltac:(lia) En1), (seg_snoc input group cursor c Hgc En), <- app_assoc.
             rewrite (da_app _ ([c] ++ [y]) 1 _ G3). cbn [app depth_after]. rewrite EB. reflexivity.
          -- (* the pair would straddle the end of a balanced range *)
             apply Nat.ltb_ge in El1. assert (S cursor = en) by lia. subst en. rewrite seg_nil in Hrest.
             cbn [depth_after] in Hrest. rewrite EB in Hrest. discriminate.
        * assert (Hl : S cursor = length input) by (apply nth_error_None in En1; lia).
          assert (S cursor = en) by lia. subst en. rewrite seg_nil in Hrest. cbn [depth_after] in Hrest. rewrite EB in Hrest. discriminate.
      + cbn [andb] in H. destruct (N.eqb c LP) eqn:ELP.
        * assert (Hc : c = LP) by (apply N.eqb_eq; exact ELP). subst c.
          destruct (Z.eqb depth 0) eqn:Ed.
          -- apply Z.eqb_eq in Ed. subst depth. apply bind_err in H as [H|(lit & _ & H)]; [destruct (slice_not_err _ _ _ _ _ H)|].
             eapply (IH (S cursor) (S cursor) (0 + 1)%Z _ e Hbal); [lia|lia|lia|lia| | |exact H].
             ++ apply Hpre1. reflexivity.
             ++ intros _. split; [lia|]. split; [replace (S cursor - 1) with cursor by lia; exact En|]. rewrite seg_nil. reflexivity.
          -- apply Z.eqb_neq in Ed.
             apply (IH (S cursor) group (depth + 1)%Z result e Hbal Hsg ltac:(lia) ltac:(lia) ltac:(lia)); [| |exact H].
             ++ rewrite (Hpre1 (S (S (Z.to_nat depth)))) by reflexivity. f_equal. lia.
             ++ apply (in_group_step group cursor depth LP Hgc En ltac:(lia) Hin (S (Z.to_nat depth))); [reflexivity|lia|lia].
        * destruct (N.eqb c RP) eqn:ERP.
          -- assert (Hc : c = RP) by (apply N.eqb_eq; exact ERP). subst c. cbv zeta in H.
             cbn [depth_after] in Hrest. change (N.eqb RP BSL) with false in Hrest. change (N.eqb RP LP) with false in Hrest.
             change (N.eqb RP RP) with true in Hrest. cbv iota in Hrest.
             destruct (Z.ltb (depth - 1) 0) eqn:Elt.
             ++ apply Z.ltb_lt in Elt. assert (depth = 0%Z) by lia. subst depth. cbn [Z.to_nat] in Hrest. discriminate.
             ++ apply Z.ltb_ge in Elt. destruct (Z.eqb (depth - 1) 0) eqn:Ed1.
                ** apply Z.eqb_eq in Ed1. assert (depth = 1%Z) by lia. subst depth.
                   destruct (Hin ltac:(lia)) as (G1 & G2 & G3).
                   destruct (Nat.eqb cursor group) eqn:Ecg.
                   --- apply Nat.eqb_eq in Ecg. subst group. rewrite (subn_ok cursor 1 3) in H by lia. cbn [bind] in H.
                       inversion H; subst. cbn [empty_paren_err]. split; [reflexivity|]. split; [exact G2|]. replace (S (cursor - 1)) with cursor by lia. exact En.
                   --- apply Nat.eqb_neq in Ecg. apply bind_err in H as [H|(opts & _ & H)].
                       +++ apply (Hrec group cursor e G1 G2 Hgc ltac:(lia) G3 H).
                       +++ eapply (IH (S cursor) (S cursor) (1 - 1)%Z _ e Hbal); [lia|lia|lia|lia| | |exact H].
                           *** apply Hpre1. cbn [depth_after]. reflexivity.
                           *** intros Hc. lia.
                ** apply Z.eqb_neq in Ed1.
                   assert (Hdn : exists dn, Z.to_nat depth = S (S dn)) by (exists (Z.to_nat depth - 2); lia). destruct Hdn as (dn & Hdn).
                   apply (IH (S cursor) group (depth - 1)%Z result e Hbal Hsg ltac:(lia) ltac:(lia) ltac:(lia)); [| |exact H].
                   --- rewrite (Hpre1 (S (S dn))); [f_equal; lia|]. rewrite Hdn. reflexivity.
                   --- apply (in_group_step group cursor depth RP Hgc En ltac:(lia) Hin (S dn)); [rewrite Hdn; reflexivity|lia|lia].
          -- apply (IH (S cursor) group depth result e Hbal Hsg ltac:(lia) ltac:(lia) Hd); [| |exact H].
             ++ apply Hpre1. apply da_single_plain; assumption.
             ++ intros Hd1. apply (in_group_step group cursor depth c Hgc En Hd1 Hin (Z.to_nat depth)); [apply da_single_plain; assumption|lia|reflexivity|exact Hd1].
    - apply Nat.ltb_ge in El. assert (cursor = en) by lia. subst cursor.
      rewrite Hbal in Hpre. inversion Hpre as [Hz].
      destruct (Z.eqb depth 0) eqn:Ed; cbn [negb] in H.
      + destruct (Nat.ltb group en); [|discriminate]. apply bind_err in H as [H|(lit & _ & H)]; [destruct (slice_not_err _ _ _ _ _ H)|discriminate].
      + apply Z.eqb_neq in Ed. lia.
  Qed.
End Scan.

(* a nested call runs on a balanced range right after a '(' *)
Lemma expand_err_nested : forall fuel (input : bytes) g c e,
  1 <= g -> nth_error input (g - 1) = Some LP -> g <= c -> c <= length input ->
  depth_after (seg input g c) 1 = Some 1 ->
  expand fuel input g c = Err e -> empty_paren_err input e.
Proof.
  induction fuel as [|f IH]; intros input g c e Hg Hlp Hgc Hc Hbal H; [discriminate|].
  rewrite expand_S in H.
  apply (scan_err_nested input g c Hgc Hc (expand f input) (fun g' c' e' => IH input g' c' e')
           (S (length input)) g g 0%Z [[]] e Hbal); try lia.
  - rewrite seg_nil. reflexivity.
  - intros Hd. lia.
  - exact H.
Qed.

(* ---- the top-level scan ---- *)
Section Top.
  Variable input : bytes.
  Notation sg := (seg input).
  Variable rec : nat -> nat -> out (list bytes).
  Hypothesis Hrec : forall g c e, 1 <= g -> nth_error input (g - 1) = Some LP -> g <= c -> c <= length input ->
                      depth_after (sg g c) 1 = Some 1 -> rec g c = Err e -> empty_paren_err input e.

  Lemma scan_err_top : forall steps cursor group depth result e,
    group <= cursor -> cursor <= length input -> (0 <= depth)%Z ->
    in_group input group cursor depth ->
    scan_f rec input 0 (length input) steps cursor group depth result = Err e -> paren_err_ok input e.
  Proof.
    induction steps as [|steps IH]; intros cursor group depth result e Hgc Hce Hd Hin H; [discriminate|].
    rewrite scan_f_S in H. destruct (Nat.ltb cursor (length input)) eqn:El.
    - apply Nat.ltb_lt in El.
      destruct (nth_error input cursor) as [c|] eqn:En; [|apply nth_error_None in En; lia].
      rewrite (idx_nth input cursor 1 c En) in H. cbn [bind] in H.
      destruct (N.eqb c BSL) eqn:EB.
      + destruct (nth_error input (S cursor)) as [y|] eqn:En1; cbn [andb] in H.
        * assert (Hlt1 : S cursor < length input) by (apply nth_error_Some; congruence).
          replace (cursor + 2) with (S (S cursor)) in H by lia.
          apply (IH (S (S cursor)) group depth result e ltac:(lia) ltac:(lia) Hd); [|exact H].
          intros Hd1. destruct (Hin Hd1) as (G1 & G2 & G3). split; [exact G1|]. split; [exact G2|].
          rewrite (seg_snoc input group (S cursor) y ltac:(lia) En1), (seg_snoc input group cursor c Hgc En), <- app_assoc.
          rewrite (da_app _ ([c] ++ [y]) 1 _ G3). cbn [app depth_after]. rewrite EB. reflexivity.
        * (* trailing backslash: the last byte of the input, an ordinary byte; but then depth_after would be None *)
          assert (Hc : c = BSL) by (apply N.eqb_eq; exact EB). subst c.
          change (N.eqb BSL LP) with false in H. change (N.eqb BSL RP) with false in H. cbv iota in H.
          assert (Hl : S cursor = length input) by (apply nth_error_None in En1; lia).
          destruct steps as [|steps']; [discriminate|]. rewrite scan_f_S in H.
          replace (Nat.ltb (S cursor) (length input)) with false in H by (symmetry; apply Nat.ltb_ge; lia).
          destruct (Z.eqb depth 0) eqn:Ed; cbn [negb] in H.
          -- destruct (Nat.ltb group (length input)); [|discriminate].
             apply bind_err in H as [H|(lit & _ & H)]; [destruct (slice_not_err _ _ _ _ _ H)|discriminate].
          -- apply Z.eqb_neq in Ed. destruct (Hin ltac:(lia)) as (G1 & G2 & _).
             rewrite (subn_ok (0 + group) 1 4) in H by lia. cbn [bind] in H. inversion H; subst.
             cbn [paren_err_ok]. split; [reflexivity|]. left. cbn [Nat.add]. exact G2.
      + cbn [andb] in H. destruct (N.eqb c LP) eqn:ELP.
        * assert (Hc : c = LP) by (apply N.eqb_eq; exact ELP). subst c.
          destruct (Z.eqb depth 0) eqn:Ed.
          -- apply Z.eqb_eq in Ed. subst depth. apply bind_err in H as [H|(lit & _ & H)]; [destruct (slice_not_err _ _ _ _ _ H)|].
             eapply (IH (S cursor) (S cursor) (0 + 1)%Z _ e); [lia|lia|lia| |exact H].
             intros _. split; [lia|]. split; [replace (S cursor - 1) with cursor by lia; exact En|]. rewrite seg_nil. reflexivity.
          -- apply Z.eqb_neq in Ed.
             apply (IH (S cursor) group (depth + 1)%Z result e ltac:(lia) ltac:(lia) ltac:(lia)); [|exact H].
             apply (in_group_step input group cursor depth LP Hgc En ltac:(lia) Hin (S (Z.to_nat depth))); [reflexivity|lia|lia].
        * destruct (N.eqb c RP) eqn:ERP.
          -- assert (Hc : c = RP) by (apply N.eqb_eq; exact ERP). subst c. cbv zeta in H.
             destruct (Z.ltb (depth - 1) 0) eqn:Elt.
             ++ inversion H; subst. cbn [paren_err_ok]. split; [reflexivity|]. right. exact En.
             ++ apply Z.ltb_ge in Elt. destruct (Z.eqb (depth - 1) 0) eqn:Ed1.
                ** apply Z.eqb_eq in Ed1. assert (depth = 1%Z) by lia. subst depth.
                   destruct (Hin ltac:(lia)) as (G1 & G2 & G3).
                   destruct (Nat.eqb cursor group) eqn:Ecg.
                   --- apply Nat.eqb_eq in Ecg. subst group. rewrite (subn_ok cursor 1 3) in H by lia. cbn [bind] in H.
                       inversion H; subst. cbn [paren_err_ok]. split; [reflexivity|]. split; [exact G2|].
                       replace (S (cursor - 1)) with cursor by lia. exact En.
                   --- apply bind_err in H as [H|(opts & _ & H)].
                       +++ apply empty_paren_is_ok. apply (Hrec group cursor e G1 G2 Hgc ltac:(lia) G3 H).
                       +++ eapply (IH (S cursor) (S cursor) (1 - 1)%Z _ e); [lia|lia|lia| |exact H]. intros Hc. lia.
                ** apply Z.eqb_neq in Ed1.
                   assert (Hdn : exists dn, Z.to_nat depth = S (S dn)) by (exists (Z.to_nat depth - 2); lia). destruct Hdn as (dn & Hdn).
                   apply (IH (S cursor) group (depth - 1)%Z result e ltac:(lia) ltac:(lia) ltac:(lia)); [|exact H].
                   apply (in_group_step input group cursor depth RP Hgc En ltac:(lia) Hin (S dn)); [rewrite Hdn; reflexivity|lia|lia].
          -- apply (IH (S cursor) group depth result e ltac:(lia) ltac:(lia) Hd); [|exact H].
             intros Hd1. apply (in_group_step input group cursor depth c Hgc En Hd1 Hin (Z.to_nat depth)); [apply da_single_plain; assumption|lia|reflexivity|exact Hd1].
    - destruct (Z.eqb depth 0) eqn:Ed; cbn [negb] in H.
      + destruct (Nat.ltb group (length input)); [|discriminate].
        apply bind_err in H as [H|(lit & _ & H)]; [destruct (slice_not_err _ _ _ _ _ H)|discriminate].
      + apply Z.eqb_neq in Ed. destruct (Hin ltac:(lia)) as (G1 & G2 & _).
        rewrite (subn_ok (0 + group) 1 4) in H by lia. cbn [bind] in H. inversion H; subst.
        cbn [paren_err_ok]. split; [reflexivity|]. left. cbn [Nat.add]. exact G2.
  Qed.
End Top.

(* C14, group errors: the reported text is the input; an empty pair is pointed at as "()", an unbalanced
   parenthesis error points at a parenthesis *)
Theorem expand_err_ok (input : bytes) e :
  expand (S (length input)) input 0 (length input) = Err e -> paren_err_ok input e.
Proof.
  rewrite expand_S. intros H.
  apply (scan_err_top input (expand (length input) input) (fun g c e' => expand_err_nested (length input) input g c e')
           (S (length input)) 0 0 0%Z [[]] e); try lia; [|exact H].
  intros Hd. lia.
Qed.

(* ======== errors of one expansion ======== *)
Definition braced (raw : bytes) (s l : nat) : Prop :=
  2 <= l /\ s + l <= length raw /\ nth_error raw s = Some LB /\ nth_error raw (s + l - 1) = Some RB.

Definition tmpl_err_ok (raw : bytes) (e : terr) : Prop :=
  match e with
  | EMissingLeadingSlash t => t = raw /\ exists b r, raw = b :: r /\ b <> SL
  | EEmptyBraces t p => t = raw /\ nth_error raw p = Some LB /\ nth_error raw (S p) = Some RB
  | EUnbalancedBrace t p => t = raw /\ (nth_error raw p = Some LB \/ nth_error raw p = Some RB)
  | EEmptyParameter t s l | EEmptyWildcard t s l | EEmptyConstraint t s l => t = raw /\ braced raw s l
  | EInvalidParameter t _ s l | EInvalidConstraint t _ s l => t = raw /\ braced raw s l
  | EDuplicateParameter t _ f fl s sl => t = raw /\ braced raw f fl /\ braced raw s sl /\ f + fl <= s
  | ETouchingParameters t s l => t = raw /\ exists l1, l1 < l /\ braced raw s l1 /\ braced raw (s + l1) (l - l1)
  | _ => False
  end.

Definition span_err (raw : bytes) (cursor len : nat) (e : terr) : Prop :=
  match e with
  | EEmptyParameter t s l | EEmptyWildcard t s l | EEmptyConstraint t s l => t = raw /\ s = cursor /\ l = len
  | EInvalidParameter t _ s l | EInvalidConstraint t _ s l => t = raw /\ s = cursor /\ l = len
  | _ => False
  end.

Lemma impl_tail_cases raw cursor len en name constraint :
  (forall e, impl_tail raw cursor len en name constraint = Err e -> span_err raw cursor len e)
  /\ (forall p next, impl_tail raw cursor len en name constraint = Ret (p, next) -> next = S en).
Proof.
  unfold impl_tail. destruct name as [|n0 name'].
  { split; [intros e H; inversion H; cbn; auto|discriminate]. }
  cbv zeta. destruct (hd_is STAR (n0 :: name') && _)%bool.
  { split; [intros e H; inversion H; cbn; auto|discriminate]. }
  destruct (has_invalid _).
  { split; [intros e H; inversion H; cbn; auto|discriminate]. }
  destruct constraint as [[|c1 cs]|].
  - split; [intros e H; inversion H; cbn; auto|discriminate].
  - destruct (has_invalid (c1 :: cs)).
    { split; [intros e H; inversion H; cbn; auto|discriminate]. }
    destruct (negb (utf8_valid _)); [split; [intros e H; inversion H; cbn; auto|discriminate]|].
    destruct (negb (utf8_valid (c1 :: cs))); [split; [intros e H; inversion H; cbn; auto|discriminate]|].
    split; [discriminate|intros p next H; inversion H; reflexivity].
  - destruct (negb (utf8_valid _)); [split; [intros e H; inversion H; cbn; auto|discriminate]|].
    cbn [negb]. split; [discriminate|intros p next H; inversion H; reflexivity].
Qed.

Lemma nth_after_content (raw : bytes) a e content rest :
  skipn a raw = content ++ RB :: rest -> length content = e - a -> a <= e -> nth_error raw e = Some RB.
Proof.
  intros H Hl Hae. rewrite nth_error_skipn_hd. replace e with (a + (e - a)) by lia. rewrite <- skipn_skipn', H.
  rewrite skipn_app, Hl, Nat.sub_diag. rewrite (skipn_all2 content) by lia. reflexivity.
Qed.

Lemma parameter_part_shape (raw : bytes) cursor :
  nth_error raw cursor = Some LB ->
  (forall e, parameter_part raw cursor = Err e -> tmpl_err_ok raw e)
  /\ (forall p next, parameter_part raw cursor = Ret (p, next) ->
        braced raw cursor (next - cursor) /\ cursor < next /\ next <= length raw).
Proof.
  intros Hn. assert (Hlt : cursor < length raw) by (apply nth_error_Some; congruence).
  pose proof (brace_scan_spec (S (length raw)) raw (S cursor) 1) as Hb. cbn [Nat.sub] in Hb.
  unfold parameter_part.
  destruct (brace_content (skipn (S cursor) raw) 0) as [[content rest]|].
  2:{ destruct Hb as (e0 & c' & -> & Hne); [lia|lia|lia|]. cbn [bind]. destruct c'; [congruence|]. cbn [Nat.eqb negb].
      split; [|discriminate]. intros e H. inversion H; subst. cbn [tmpl_err_ok]. auto. }
  destruct Hb as (en & -> & H1 & H2 & H3 & H4); [lia|lia|lia|]. cbn [bind Nat.eqb negb].
  rewrite (slice_val raw (S cursor) en 22) by lia.
  replace (firstn (en - S cursor) (skipn (S cursor) raw)) with content by (rewrite H3; symmetry; apply firstn_exact; exact H4).
  cbn [bind]. pose proof (nth_after_content raw (S cursor) en content rest H3 H4 H1) as Hrb.
  destruct content as [|c0 content'].
  { cbn [length] in H4. assert (en = S cursor) by lia. subst en.
    split; [|discriminate]. intros e H. inversion H; subst. cbn [tmpl_err_ok]. auto. }
  cbv beta iota. remember (c0 :: content') as content eqn:Econt.
  assert (Hbr : braced raw cursor (en - cursor + 1)).
  { unfold braced. split; [lia|]. split; [lia|]. split; [exact Hn|]. replace (cursor + (en - cursor + 1) - 1) with en by lia. exact Hrb. }
  assert (Hsplit : exists name constraint,
     match find_colon content with
     | None => Ret (content, None)
     | Some cp => do a <- slice content 0 cp 23; do b <- slice content (S cp) (length content) 24; Ret (a, Some b)
     end = @Ret (bytes * option bytes) (name, constraint)).
  { destruct (find_colon content) as [cp|] eqn:Ef; [|eauto]. apply find_colon_lt in Ef.
    rewrite (slice_val content 0 cp 23) by lia. cbn [bind]. rewrite (slice_val content (S cp) (length content) 24) by lia.
    cbn [bind]. eauto. }
  destruct Hsplit as (name & constraint & Hsp).
  match goal with |- context [bind ?m _] =>
    match m with
    | match find_colon content with _ => _ end => replace m with (@Ret (bytes * option bytes) (name, constraint)) by (symmetry; exact Hsp)
    end end.
  cbn [bind]. rewrite (subn_ok en cursor 25) by lia. cbn [bind].
  change ((forall e, impl_tail raw cursor (en - cursor + 1) en name constraint = Err e -> tmpl_err_ok raw e) /\
         (forall p next, impl_tail raw cursor (en - cursor + 1) en name constraint = Ret (p, next) ->
            braced raw cursor (next - cursor) /\ cursor < next /\ next <= length raw)).
  destruct (impl_tail_cases raw cursor (en - cursor + 1) en name constraint) as [He Hr]. split.
  - intros e H. specialize (He e H). destruct e; cbn [span_err] in He; try contradiction;
      destruct He as (-> & -> & ->); cbn [tmpl_err_ok]; auto.
  - intros p next H. rewrite (Hr p next H). replace (S en - cursor) with (en - cursor + 1) by lia. split; [exact Hbr|lia].
Qed.

Definition seen_braced (raw : bytes) (cursor : nat) (seen : list (bytes * nat * nat)) : Prop :=
  forall n s l, In (n, s, l) seen -> braced raw s l /\ s + l <= cursor.

Lemma last_opt_in {A} (l : list A) x : last_opt l = Some x -> In x l.
Proof.
  unfold last_opt. destruct (rev l) as [|y r] eqn:E; [discriminate|]. intros H. inversion H; subst.
  apply in_rev. rewrite E. left; reflexivity.
Qed.

Lemma template_loop_err_param steps
  (IH : forall (raw : bytes) cursor seen parts e,
     cursor <= length raw -> seen_braced raw cursor seen ->
     template_loop steps raw cursor seen parts = Err e -> tmpl_err_ok raw e)
  (raw : bytes) cursor seen parts e p next :
  cursor <= length raw -> seen_braced raw cursor seen ->
  braced raw cursor (next - cursor) -> cursor < next -> next <= length raw ->
  match part_name p with
  | Some name =>
    match find (fun x : bytes * nat * nat => beqb (fst (fst x)) name) seen with
    | Some (_, s, l) => do sl <- subn next cursor 32; Err (EDuplicateParameter raw name s l cursor sl)
    | None => do sl <- subn next cursor 33;
              template_loop steps raw next (seen ++ [(name, cursor, sl)]) (parts ++ [p])
    end
  | None => template_loop steps raw next seen (parts ++ [p])
  end = Err e -> tmpl_err_ok raw e.
Proof.
  intros Hc Hseen Hbr Hn1 Hn2 H.
  assert (Hmono : seen_braced raw next seen).
  { intros n s l Hin. destruct (Hseen n s l Hin) as [Hb Hle]. split; [exact Hb|lia]. }
  destruct (part_name p) as [name|]; [|apply (IH raw next seen (parts ++ [p]) e Hn2 Hmono H)].
  destruct (find _ seen) as [[[fn fs] fl]|] eqn:Ef.
  - apply find_some in Ef as [Hin _]. destruct (Hseen fn fs fl Hin) as [Hb Hle].
    rewrite (subn_ok next cursor 32) in H by lia. cbn [bind] in H. inversion H; subst.
    cbn [tmpl_err_ok]. auto.
  - rewrite (subn_ok next cursor 33) in H by lia. cbn [bind] in H.
    eapply (IH raw next _ _ e Hn2); [|exact H].
    intros n s l Hin. apply in_app_or in Hin as [Hin|[Heq|[]]]; [apply (Hmono n s l Hin)|].
    inversion Heq; subst. split; [exact Hbr|lia].
Qed.

Lemma template_loop_err : forall steps (raw : bytes) cursor seen parts e,
  cursor <= length raw -> seen_braced raw cursor seen ->
  template_loop steps raw cursor seen parts = Err e -> tmpl_err_ok raw e.
Proof.
  induction steps as [|steps IH]; intros raw cursor seen parts e Hc Hseen H; [discriminate|].
  rewrite template_loop_S in H.
  destruct (Nat.ltb cursor (length raw)) eqn:El; [|discriminate]. apply Nat.ltb_lt in El.
  destruct (nth_error raw cursor) as [c|] eqn:En; [|apply nth_error_None in En; lia].
  rewrite (idx_nth raw cursor 30 c En) in H. cbn [bind] in H.
  destruct (N.eqb c LB) eqn:ELB.
  - assert (Hc' : c = LB) by (apply N.eqb_eq; exact ELB). subst c.
    destruct (parameter_part_shape raw cursor En) as [Herr Hret].
    apply bind_err in H as [H|([p next] & Hp & H)]; [apply Herr; exact H|].
    destruct (Hret p next Hp) as (Hbr & Hn1 & Hn2).
    destruct (last_opt seen) as [[[ln ls] ll]|] eqn:Elast.
    + destruct (Nat.eqb cursor (ls + ll)) eqn:Et.
      * apply Nat.eqb_eq in Et. destruct (Hseen ln ls ll (last_opt_in _ _ Elast)) as [Hb1 _].
        rewrite (subn_ok next ls 31) in H by lia. cbn [bind] in H. inversion H; subst.
        cbn [tmpl_err_ok]. split; [reflexivity|]. exists ll. split; [lia|]. split; [exact Hb1|].
        replace (next - ls - ll) with (next - (ls + ll)) by lia. exact Hbr.
      * apply (template_loop_err_param steps IH raw cursor seen parts e p next Hc Hseen Hbr Hn1 Hn2 H).
    + apply (template_loop_err_param steps IH raw cursor seen parts e p next Hc Hseen Hbr Hn1 Hn2 H).
  - destruct (N.eqb c RB) eqn:ERB.
    + assert (Hc' : c = RB) by (apply N.eqb_eq; exact ERB). subst c. inversion H; subst. cbn [tmpl_err_ok]. auto.
    + destruct (static_part_ok (S (length raw)) raw cursor [] Hc) as (s0 & e0 & He0 & H1 & H2 & _); [lia|].
      rewrite He0 in H. cbn [bind] in H.
      apply (IH raw e0 seen (parts ++ [PS s0]) e H2); [|exact H].
      intros n s l Hin. destruct (Hseen n s l Hin) as [Hb Hle]. split; [exact Hb|lia].
Qed.

Lemma parse_template_err (raw : bytes) e : parse_template raw = Err e -> tmpl_err_ok raw e.
Proof.
  unfold parse_template. destruct raw as [|b raw'].
  - intros H. apply bind_err in H as [H|(ps & _ & H)]; [|discriminate]. cbn in H. discriminate.
  - destruct (negb (N.eqb b SL)) eqn:Eb.
    + intros H. inversion H; subst. cbn [tmpl_err_ok]. split; [reflexivity|]. exists b, raw'. split; [reflexivity|].
      apply Bool.negb_true_iff in Eb. apply N.eqb_neq. exact Eb.
    + intros H. apply bind_err in H as [H|(ps & _ & H)]; [|discriminate].
      eapply (template_loop_err _ _ 0 [] [] e); [lia| |exact H]. intros n s l [].
Qed.

Lemma map_out_err {A B} (f : A -> out B) : forall l e, map_out f l = Err e -> exists x, In x l /\ f x = Err e.
Proof.
  induction l as [|x l IH]; intros e H; [discriminate|]. cbn [map_out] in H.
  apply bind_err in H as [H|(y & _ & H)]; [exists x; split; [left; reflexivity|exact H]|].
  apply bind_err in H as [H|(ys & _ & H)]; [|discriminate].
  destruct (IH e H) as (x' & Hin & Hx). exists x'. split; [right; exact Hin|exact Hx].
Qed.

(* C14, first half: every template error of the parser model names a fault that is present.
   - group errors report the input itself and point at "()" or at a parenthesis;
   - every other error reports one of the documented expansions of the input and points, inside it, at the
     brace-delimited parameter(s) concerned, at "{}", at a brace, or says that it does not start with '/'. *)
Theorem parse_err_ok (t : bytes) e :
  parse t = Err e ->
  (e = EEmpty /\ t = [])
  \/ paren_err_ok t e
  \/ exists es raw, expansions_spec t = Some es /\ In raw es /\ tmpl_err_ok raw e.
Proof.
  unfold parse. destruct t as [|b t']; [intros H; inversion H; left; auto|].
  remember (b :: t') as t eqn:Et. intros H.
  apply bind_err in H as [H|(raws & Hr & H)]; [right; left; apply expand_err_ok; exact H|].
  right; right. apply map_out_err in H as (raw & Hin & Hp).
  pose proof (expand_spec t) as Hs. rewrite Hr in Hs. cbn [to_opt] in Hs.
  rewrite expansions_spec_G. destruct (G t) as [its [|] rest|]; try discriminate. destruct rest; [|discriminate].
  cbn [denote] in Hs. inversion Hs; subst raws.
  exists (map fix_empty (expand_items its)), (fix_empty raw). split; [reflexivity|]. split; [apply in_map; exact Hin|].
  apply parse_template_err. exact Hp.
Qed.

(* ======== finer: what is wrong inside the braces ======== *)
(* the text between the braces of the parameter spanning [s, s+l) *)
Definition inside (raw : bytes) (s l : nat) : bytes := firstn (l - 2) (skipn (S s) raw).

Definition strip_star (n : bytes) : bytes := if hd_is STAR n then tl n else n.

(* the cause each parameter error states, in terms of the text between the braces split at its first ':' *)
Definition cause_ok (content : bytes) (e : terr) : Prop :=
  let name := fst (split_colon content) in
  let constraint := snd (split_colon content) in
  match e with
  | EEmptyParameter _ _ _ => name = []
  | EEmptyWildcard _ _ _ => name = [STAR]
  | EInvalidParameter _ n _ _ => n = strip_star name /\ (existsb invalid_name_char n = true \/ utf8_valid n = false)
  | EEmptyConstraint _ _ _ => constraint = Some []
  | EInvalidConstraint _ c _ _ => constraint = Some c /\ (existsb invalid_name_char c = true \/ utf8_valid c = false)
  | _ => True
  end.

Lemma impl_tail_cause raw cursor len en name constraint e :
  impl_tail raw cursor len en name constraint = Err e ->
  match e with
  | EEmptyParameter _ _ _ => name = []
  | EEmptyWildcard _ _ _ => name = [STAR]
  | EInvalidParameter _ n _ _ => n = strip_star name /\ (existsb invalid_name_char n = true \/ utf8_valid n = false)
  | EEmptyConstraint _ _ _ => constraint = Some []
  | EInvalidConstraint _ c _ _ => constraint = Some c /\ (existsb invalid_name_char c = true \/ utf8_valid c = false)
  | _ => True
  end.
Proof.
  unfold impl_tail, strip_star. destruct name as [|n0 name']; [intros H; injection H as <-; reflexivity|].
  cbv zeta. remember (if hd_is STAR (n0 :: name') then tl (n0 :: name') else n0 :: name') as nm eqn:Enm.
  destruct (hd_is STAR (n0 :: name') && match nm with [] => true | _ :: _ => false end)%bool eqn:Ew.
  { intros H. injection H as <-. apply andb_true_iff in Ew as [Hs Hn]. rewrite Hs in Enm. cbn [hd_is] in Hs. apply N.eqb_eq in Hs. subst n0.
    cbn [tl] in Enm. subst nm. destruct name'; [reflexivity|discriminate]. }
  rewrite !has_invalid_spec.
  destruct (existsb invalid_name_char nm) eqn:Ei.
  { intros H. injection H as <-. split; [exact Enm|left; exact Ei]. }
  destruct constraint as [[|c1 cs]|].
  - intros H. injection H as <-. reflexivity.
  - rewrite has_invalid_spec. destruct (existsb invalid_name_char (c1 :: cs)) eqn:Eic.
    { intros H. injection H as <-. split; [reflexivity|left; exact Eic]. }
    destruct (utf8_valid nm) eqn:Eu; cbn [negb].
    + destruct (utf8_valid (c1 :: cs)) eqn:Euc; cbn [negb]; [discriminate|].
      intros H. injection H as <-. split; [reflexivity|right; exact Euc].
    + intros H. injection H as <-. split; [exact Enm|right; exact Eu].
  - destruct (utf8_valid nm) eqn:Eu; cbn [negb]; [discriminate|].
    intros H. injection H as <-. split; [exact Enm|right; exact Eu].
Qed.

Definition err_span (e : terr) : option (nat * nat) :=
  match e with
  | EEmptyParameter _ s l | EEmptyWildcard _ s l | EEmptyConstraint _ s l
  | EInvalidParameter _ _ s l | EInvalidConstraint _ _ s l => Some (s, l)
  | _ => None
  end.

Definition cause_at (raw : bytes) (e : terr) : Prop :=
  match err_span e with Some (s, l) => cause_ok (inside raw s l) e | None => True end.

Lemma parameter_part_cause (raw : bytes) cursor e :
  nth_error raw cursor = Some LB -> parameter_part raw cursor = Err e -> cause_at raw e.
Proof.
  intros Hn. assert (Hlt : cursor < length raw) by (apply nth_error_Some; congruence).
  pose proof (brace_scan_spec (S (length raw)) raw (S cursor) 1) as Hb. cbn [Nat.sub] in Hb.
  unfold parameter_part.
  destruct (brace_content (skipn (S cursor) raw) 0) as [[content rest]|].
  2:{ destruct Hb as (e0 & c' & -> & Hne); [lia|lia|lia|]. cbn [bind]. destruct c'; [congruence|]. cbn [Nat.eqb negb].
      intros H. injection H as <-. exact I. }
  destruct Hb as (en & -> & H1 & H2 & H3 & H4); [lia|lia|lia|]. cbn [bind Nat.eqb negb].
  rewrite (slice_val raw (S cursor) en 22) by lia.
  assert (Hcont : firstn (en - S cursor) (skipn (S cursor) raw) = content) by (rewrite H3; apply firstn_exact; exact H4).
  rewrite Hcont. cbn [bind].
  destruct content as [|c0 content']; [intros H; injection H as <-; exact I|].
  cbv beta iota. remember (c0 :: content') as content eqn:Econt.
  assert (Hsplit : exists name constraint,
     match find_colon content with
     | None => Ret (content, None)
     | Some cp => do a <- slice content 0 cp 23; do b <- slice content (S cp) (length content) 24; Ret (a, Some b)
     end = @Ret (bytes * option bytes) (name, constraint) /\ split_colon content = (name, constraint)).
  { pose proof (find_colon_split content) as Hf. destruct (find_colon content) as [cp|] eqn:Ef.
    - destruct Hf as (Hs & Hl & _). rewrite (slice_val content 0 cp 23) by lia. cbn [bind].
      rewrite (slice_val content (S cp) (length content) 24) by lia. cbn [bind skipn]. rewrite Nat.sub_0_r.
      rewrite (firstn_all2 (skipn (S cp) content)) by (rewrite skipn_length; lia). eauto.
    - eauto. }
  destruct Hsplit as (name & constraint & Hsp & Hspec).
  match goal with |- context [bind ?m _] =>
    match m with
    | match find_colon content with _ => _ end => replace m with (@Ret (bytes * option bytes) (name, constraint)) by (symmetry; exact Hsp)
    end end.
  cbn [bind]. rewrite (subn_ok en cursor 25) by lia. cbn [bind].
  change (impl_tail raw cursor (en - cursor + 1) en name constraint = Err e -> cause_at raw e).
  intros H. pose proof (impl_tail_cause _ _ _ _ _ _ _ H) as Hc.
  pose proof (proj1 (impl_tail_cases raw cursor (en - cursor + 1) en name constraint) e H) as Hsp'.
  unfold cause_at. destruct e; cbn [span_err] in Hsp'; try contradiction; destruct Hsp' as (-> & -> & ->); cbn [err_span];
    unfold cause_ok, inside; replace (en - cursor + 1 - 2) with (en - S cursor) by lia; rewrite Hcont, Hspec; cbn [fst snd]; exact Hc.
Qed.

Lemma template_loop_cause : forall steps (raw : bytes) cursor seen parts e,
  template_loop steps raw cursor seen parts = Err e -> cause_at raw e.
Proof.
  induction steps as [|steps IH]; intros raw cursor seen parts e H; [discriminate|].
  rewrite template_loop_S in H.
  destruct (Nat.ltb cursor (length raw)) eqn:El; [|discriminate].
  apply bind_err in H as [H|(c & Hc & H)]; [destruct (idx_not_err _ _ _ _ H)|].
  assert (En : nth_error raw cursor = Some c).
  { unfold idx in Hc. destruct (nth_error raw cursor); inversion Hc; reflexivity. }
  destruct (N.eqb c LB) eqn:ELB.
  - assert (Hc' : c = LB) by (apply N.eqb_eq; exact ELB). subst c.
    apply bind_err in H as [H|([p next] & Hp & H)]; [apply (parameter_part_cause raw cursor e En H)|].
    destruct (match last_opt seen with Some (_, s, l) => if Nat.eqb cursor (s + l) then Some (s, l) else None | None => None end) as [[s l]|].
    { apply bind_err in H as [H|(x & _ & H)]; [destruct (subn_not_err _ _ _ _ H)|]. injection H as <-. exact I. }
    destruct (part_name p) as [name|]; [|apply (IH _ _ _ _ _ H)].
    destruct (find _ seen) as [[[fn fs] fl]|].
    + apply bind_err in H as [H|(x & _ & H)]; [destruct (subn_not_err _ _ _ _ H)|]. injection H as <-. exact I.
    + apply bind_err in H as [H|(x & _ & H)]; [destruct (subn_not_err _ _ _ _ H)|]. apply (IH _ _ _ _ _ H).
  - destruct (N.eqb c RB); [injection H as <-; exact I|].
    apply bind_err in H as [H|([s next] & _ & H)]; [|apply (IH _ _ _ _ _ H)].
    exfalso. clear -H. revert H. generalize (@nil byte) as acc. generalize cursor as en. generalize (S (length raw)) as st.
    induction st as [|st IHs]; intros en acc H; [discriminate|]. cbn [static_part] in H.
    destruct (Nat.ltb en (length raw)); [|discriminate].
    apply bind_err in H as [H|(c0 & _ & H)]; [destruct (idx_not_err _ _ _ _ H)|].
    destruct (N.eqb c0 BSL); [destruct (nth_error raw (S en)); apply (IHs _ _ H)|].
    destruct (N.eqb c0 LB || N.eqb c0 RB)%bool; [discriminate|apply (IHs _ _ H)].
Qed.

Lemma parse_template_cause (raw : bytes) e : parse_template raw = Err e -> cause_at raw e.
Proof.
  unfold parse_template. destruct (match raw with [] => false | b :: _ => negb (N.eqb b SL) end).
  - intros H. injection H as <-. exact I.
  - intros H. apply bind_err in H as [H|(ps & _ & H)]; [|discriminate]. apply (template_loop_cause _ _ _ _ _ _ H).
Qed.

(* C14, complete for the parameter errors: the error also states correctly WHAT is wrong between the braces *)
Theorem parse_err_cause (t : bytes) e :
  parse t = Err e ->
  (e = EEmpty /\ t = []) \/ paren_err_ok t e
  \/ exists es raw, expansions_spec t = Some es /\ In raw es /\ tmpl_err_ok raw e /\ cause_at raw e.
Proof.
  unfold parse. destruct t as [|b t']; [intros H; inversion H; left; auto|].
  remember (b :: t') as t eqn:Et. intros H.
  apply bind_err in H as [H|(raws & Hr & H)]; [right; left; apply expand_err_ok; exact H|].
  right; right. apply map_out_err in H as (raw & Hin & Hp).
  pose proof (expand_spec t) as Hs. rewrite Hr in Hs. cbn [to_opt] in Hs.
  rewrite expansions_spec_G. destruct (G t) as [its [|] rest|]; try discriminate. destruct rest; [|discriminate].
  cbn [denote] in Hs. inversion Hs; subst raws.
  exists (map fix_empty (expand_items its)), (fix_empty raw). split; [reflexivity|]. split; [apply in_map; exact Hin|].
  split; [apply parse_template_err; exact Hp|apply parse_template_cause; exact Hp].
Qed.

(* ---- duplicates: both parameters carry the reported name ---- *)
Definition name_inside (raw : bytes) (s l : nat) : bytes := strip_star (fst (split_colon (inside raw s l))).

Lemma impl_tail_ret_name raw cursor len en name constraint p next :
  impl_tail raw cursor len en name constraint = Ret (p, next) -> part_name p = Some (strip_star name).
Proof.
  unfold impl_tail, strip_star. destruct name as [|n0 name']; [discriminate|]. cbv zeta.
  destruct (hd_is STAR (n0 :: name')) eqn:Ew; cbn [andb].
  - cbn [tl]. destruct name' as [|n1 name'']; [discriminate|].
    destruct (has_invalid _); [discriminate|].
    destruct constraint as [[|c1 cs]|].
    + discriminate.
    + destruct (has_invalid (c1 :: cs)); [discriminate|]. destruct (negb (utf8_valid _)); [discriminate|].
      destruct (negb (utf8_valid (c1 :: cs))); [discriminate|]. intros H; injection H as <- _; reflexivity.
    + destruct (negb (utf8_valid _)); [discriminate|]. cbn [negb]. intros H; injection H as <- _; reflexivity.
  - destruct (has_invalid _); [discriminate|].
    destruct constraint as [[|c1 cs]|].
    + discriminate.
    + destruct (has_invalid (c1 :: cs)); [discriminate|]. destruct (negb (utf8_valid _)); [discriminate|].
      destruct (negb (utf8_valid (c1 :: cs))); [discriminate|]. intros H; injection H as <- _; reflexivity.
    + destruct (negb (utf8_valid _)); [discriminate|]. cbn [negb]. intros H; injection H as <- _; reflexivity.
Qed.

Lemma parameter_part_ret_name (raw : bytes) cursor p next :
  nth_error raw cursor = Some LB -> parameter_part raw cursor = Ret (p, next) ->
  part_name p = Some (name_inside raw cursor (next - cursor)).
Proof.
  intros Hn. assert (Hlt : cursor < length raw) by (apply nth_error_Some; congruence).
  pose proof (brace_scan_spec (S (length raw)) raw (S cursor) 1) as Hb. cbn [Nat.sub] in Hb.
  unfold parameter_part.
  destruct (brace_content (skipn (S cursor) raw) 0) as [[content rest]|].
  2:{ destruct Hb as (e0 & c' & -> & Hne); [lia|lia|lia|]. cbn [bind]. destruct c'; [congruence|]. discriminate. }
  destruct Hb as (en & -> & H1 & H2 & H3 & H4); [lia|lia|lia|]. cbn [bind Nat.eqb negb].
  rewrite (slice_val raw (S cursor) en 22) by lia.
  assert (Hcont : firstn (en - S cursor) (skipn (S cursor) raw) = content) by (rewrite H3; apply firstn_exact; exact H4).
  rewrite Hcont. cbn [bind].
  destruct content as [|c0 content']; [discriminate|].
  cbv beta iota. remember (c0 :: content') as content eqn:Econt.
  assert (Hsplit : exists name constraint,
     match find_colon content with
     | None => Ret (content, None)
     | Some cp => do a <- slice content 0 cp 23; do b <- slice content (S cp) (length content) 24; Ret (a, Some b)
     end = @Ret (bytes * option bytes) (name, constraint) /\ split_colon content = (name, constraint)).
  { pose proof (find_colon_split content) as Hf. destruct (find_colon content) as [cp|] eqn:Ef.
    - destruct Hf as (Hs & Hl & _). rewrite (slice_val content 0 cp 23) by lia. cbn [bind].
      rewrite (slice_val content (S cp) (length content) 24) by lia. cbn [bind skipn]. rewrite Nat.sub_0_r.
      rewrite (firstn_all2 (skipn (S cp) content)) by (rewrite skipn_length; lia). eauto.
    - eauto. }
  destruct Hsplit as (name & constraint & Hsp & Hspec).
  match goal with |- context [bind ?m _] =>
    match m with
    | match find_colon content with _ => _ end => replace m with (@Ret (bytes * option bytes) (name, constraint)) by (symmetry; exact Hsp)
    end end.
  cbn [bind]. rewrite (subn_ok en cursor 25) by lia. cbn [bind].
  change (impl_tail raw cursor (en - cursor + 1) en name constraint = Ret (p, next) -> part_name p = Some (name_inside raw cursor (next - cursor))).
  intros H. rewrite (impl_tail_ret_name _ _ _ _ _ _ _ _ H).
  pose proof (proj2 (impl_tail_cases raw cursor (en - cursor + 1) en name constraint) p next H) as ->.
  unfold name_inside, inside. replace (S en - cursor - 2) with (en - S cursor) by lia. rewrite Hcont, Hspec. reflexivity.
Qed.

Lemma parameter_part_not_dup (raw : bytes) cursor t n f fl s sl :
  nth_error raw cursor = Some LB -> parameter_part raw cursor <> Err (EDuplicateParameter t n f fl s sl).
Proof.
  intros Hn. assert (Hlt : cursor < length raw) by (apply nth_error_Some; congruence).
  pose proof (brace_scan_spec (S (length raw)) raw (S cursor) 1) as Hb. cbn [Nat.sub] in Hb.
  unfold parameter_part.
  destruct (brace_content (skipn (S cursor) raw) 0) as [[content rest]|].
  2:{ destruct Hb as (e0 & c' & -> & Hne); [lia|lia|lia|]. cbn [bind]. destruct c'; [congruence|]. discriminate. }
  destruct Hb as (en & -> & H1 & H2 & H3 & H4); [lia|lia|lia|]. cbn [bind Nat.eqb negb].
  rewrite (slice_val raw (S cursor) en 22) by lia.
  assert (Hcont : firstn (en - S cursor) (skipn (S cursor) raw) = content) by (rewrite H3; apply firstn_exact; exact H4).
  rewrite Hcont. cbn [bind].
  destruct content as [|c0 content']; [discriminate|].
  cbv beta iota. remember (c0 :: content') as content eqn:Econt.
  assert (Hsplit : exists name constraint,
     match find_colon content with
     | None => Ret (content, None)
     | Some cp => do a <- slice content 0 cp 23; do b <- slice content (S cp) (length content) 24; Ret (a, Some b)
     end = @Ret (bytes * option bytes) (name, constraint)).
  { pose proof (find_colon_split content) as Hf. destruct (find_colon content) as [cp|] eqn:Ef.
    - destruct Hf as (Hs & Hl & _). rewrite (slice_val content 0 cp 23) by lia. cbn [bind].
      rewrite (slice_val content (S cp) (length content) 24) by lia. cbn [bind skipn]. eauto.
    - eauto. }
  destruct Hsplit as (name & constraint & Hsp).
  match goal with |- context [bind ?m _] =>
    match m with
    | match find_colon content with _ => _ end => replace m with (@Ret (bytes * option bytes) (name, constraint)) by (symmetry; exact Hsp)
    end end.
  cbn [bind]. rewrite (subn_ok en cursor 25) by lia. cbn [bind].
  change (impl_tail raw cursor (en - cursor + 1) en name constraint <> Err (EDuplicateParameter t n f fl s sl)).
  intros H. apply (proj1 (impl_tail_cases raw cursor (en - cursor + 1) en name constraint) _ H).
Qed.

Definition seen_named (raw : bytes) (seen : list (bytes * nat * nat)) : Prop :=
  forall n s l, In (n, s, l) seen -> n = name_inside raw s l.

Definition dup_ok (raw : bytes) (e : terr) : Prop :=
  match e with
  | EDuplicateParameter _ n f fl s sl => n = name_inside raw f fl /\ n = name_inside raw s sl
  | _ => True
  end.

Lemma template_loop_dup : forall steps (raw : bytes) cursor seen parts e,
  seen_named raw seen -> template_loop steps raw cursor seen parts = Err e -> dup_ok raw e.
Proof.
  induction steps as [|steps IH]; intros raw cursor seen parts e Hseen H; [discriminate|].
  rewrite template_loop_S in H.
  destruct (Nat.ltb cursor (length raw)) eqn:El; [|discriminate].
  apply bind_err in H as [H|(c & Hc & H)]; [destruct (idx_not_err _ _ _ _ H)|].
  assert (En : nth_error raw cursor = Some c).
  { unfold idx in Hc. destruct (nth_error raw cursor); inversion Hc; reflexivity. }
  destruct (N.eqb c LB) eqn:ELB.
  - assert (Hc' : c = LB) by (apply N.eqb_eq; exact ELB). subst c.
    apply bind_err in H as [H|([p next] & Hp & H)].
    { destruct e; try exact I. destruct (parameter_part_not_dup raw cursor _ _ _ _ _ _ En H). }
    pose proof (parameter_part_ret_name raw cursor p next En Hp) as Hname.
    destruct (parameter_part_shape raw cursor En) as [_ Hret]. destruct (Hret p next Hp) as (_ & Hn1 & Hn2).
    destruct (match last_opt seen with Some (_, s, l) => if Nat.eqb cursor (s + l) then Some (s, l) else None | None => None end) as [[s l]|].
    { apply bind_err in H as [H|(x & _ & H)]; [destruct (subn_not_err _ _ _ _ H)|]. injection H as <-. exact I. }
    rewrite Hname in H.
    destruct (find _ seen) as [[[fn fs] fl]|] eqn:Ef.
    + apply find_some in Ef as [Hin Hb]. cbn [fst] in Hb. apply beqb_eq in Hb.
      rewrite (subn_ok next cursor 32) in H by lia. cbn [bind] in H. injection H as <-.
      cbn [dup_ok]. split; [|reflexivity]. rewrite <- Hb. apply (Hseen fn fs fl Hin).
    + rewrite (subn_ok next cursor 33) in H by lia. cbn [bind] in H. refine (IH _ _ _ _ _ _ H). intros n s l Hin.
      apply in_app_or in Hin as [Hin|[Heq|[]]]; [apply (Hseen n s l Hin)|]. inversion Heq; subst. reflexivity.
  - destruct (N.eqb c RB); [injection H as <-; exact I|].
    apply bind_err in H as [H|([s next] & _ & H)]; [|apply (IH _ _ _ _ _ Hseen H)].
    exfalso. clear -H. revert H. generalize (@nil byte) as acc. generalize cursor as en. generalize (S (length raw)) as st.
    induction st as [|st IHs]; intros en acc H; [discriminate|]. cbn [static_part] in H.
    destruct (Nat.ltb en (length raw)); [|discriminate].
    apply bind_err in H as [H|(c0 & _ & H)]; [destruct (idx_not_err _ _ _ _ H)|].
    destruct (N.eqb c0 BSL); [destruct (nth_error raw (S en)); apply (IHs _ _ H)|].
    destruct (N.eqb c0 LB || N.eqb c0 RB)%bool; [discriminate|apply (IHs _ _ H)].
Qed.

Lemma parse_template_dup (raw : bytes) e : parse_template raw = Err e -> dup_ok raw e.
Proof.
  unfold parse_template. destruct (match raw with [] => false | b :: _ => negb (N.eqb b SL) end).
  - intros H. injection H as <-. exact I.
  - intros H. apply bind_err in H as [H|(ps & _ & H)]; [|discriminate]. refine (template_loop_dup _ _ _ _ _ _ _ H). intros n s l [].
Qed.

(* C14, full: position (tmpl_err_ok), what is wrong between the braces (cause_at), and for duplicates
   that both braced spans carry exactly the reported name (dup_ok) *)
Theorem parse_err_full (t : bytes) e :
  parse t = Err e ->
  (e = EEmpty /\ t = []) \/ paren_err_ok t e
  \/ exists es raw, expansions_spec t = Some es /\ In raw es /\ tmpl_err_ok raw e /\ cause_at raw e /\ dup_ok raw e.
Proof.
  unfold parse. destruct t as [|b t']; [intros H; inversion H; left; auto|].
  remember (b :: t') as t eqn:Et. intros H.
  apply bind_err in H as [H|(raws & Hr & H)]; [right; left; apply expand_err_ok; exact H|].
  right; right. apply map_out_err in H as (raw & Hin & Hp).
  pose proof (expand_spec t) as Hs. rewrite Hr in Hs. cbn [to_opt] in Hs.
  rewrite expansions_spec_G. destruct (G t) as [its [|] rest|]; try discriminate. destruct rest; [|discriminate].
  cbn [denote] in Hs. inversion Hs; subst raws.
  exists (map fix_empty (expand_items its)), (fix_empty raw). split; [reflexivity|]. split; [apply in_map; exact Hin|].
  split; [apply parse_template_err; exact Hp|]. split; [apply parse_template_cause; exact Hp|apply parse_template_dup; exact Hp].
Qed.
