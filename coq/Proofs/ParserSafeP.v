(* The parser model never reaches an out-of-range index, slice or subtraction and never runs out of fuel:
   every input is either parsed or rejected with a template error. *)
From Coq Require Import Lia ZArith Arith PeanoNat.
From WF Require Import Base.Bytes Base.Utf8 Spec.Route Model.Parser.
From WF Require Import Proofs.BytesP Proofs.ParserPartsP Proofs.ExpandP.

Definition safe {A} (m : out A) : Prop := match m with Ret _ | Err _ => True | Panic _ | Fuel => False end.

Lemma safe_bind {A B} (m : out A) (f : A -> out B) :
  safe m -> (forall a, m = Ret a -> safe (f a)) -> safe (bind m f).
Proof. destruct m; cbn; intros H Hf; auto. Qed.

Lemma idx_ret l i site : i < length l -> exists b, idx l i site = Ret b.
Proof.
  intros H. unfold idx. destruct (nth_error l i) eqn:E; [eauto|]. apply nth_error_None in E. lia.
Qed.

Lemma slice_ok l a b site : a <= b -> b <= length l -> exists s, slice l a b site = Ret s /\ length s = b - a.
Proof.
  intros H1 H2. unfold slice. replace (Nat.leb a b && Nat.leb b (length l))%bool with true.
  - eexists. split; [reflexivity|]. rewrite firstn_length, skipn_length. lia.
  - symmetry. apply andb_true_iff. split; apply Nat.leb_le; assumption.
Qed.

Lemma subn_ok a b site : b <= a -> subn a b site = Ret (a - b).
Proof. intros H. unfold subn. replace (Nat.leb b a) with true; [reflexivity|]. symmetry. apply Nat.leb_le. exact H. Qed.

(* ---- brace_scan ---- *)
Lemma brace_scan_ok : forall steps raw en count,
  1 <= count -> en <= length raw -> length raw - en < steps ->
  exists en' c', brace_scan steps raw en count = Ret (en', c') /\ en <= en' /\ en' <= length raw
                 /\ (c' = 0 -> en' < length raw).
Proof.
  induction steps as [|steps IH]; intros raw en count Hc He Hs; [lia|]. cbn [brace_scan].
  destruct (Nat.ltb en (length raw)) eqn:El.
  - apply Nat.ltb_lt in El. destruct (idx_ret raw en 20 El) as (c & ->). cbn [bind].
    destruct (N.eqb c LB).
    { destruct (IH raw (S en) (S count)) as (en' & c' & -> & H1 & H2 & H3); [lia|lia|lia|].
      exists en', c'. repeat split; auto; lia. }
    destruct (N.eqb c RB).
    { rewrite (subn_ok count 1 21 Hc). cbn [bind]. destruct (Nat.eqb (count - 1) 0) eqn:E0.
      - exists en, 0. repeat split; auto.
      - apply Nat.eqb_neq in E0.
        destruct (IH raw (S en) (count - 1)) as (en' & c' & -> & H1 & H2 & H3); [lia|lia|lia|].
        exists en', c'. repeat split; auto; lia. }
    destruct (IH raw (S en) count) as (en' & c' & -> & H1 & H2 & H3); [lia|lia|lia|].
    exists en', c'. repeat split; auto; lia.
  - apply Nat.ltb_ge in El. exists en, count. repeat split; auto; lia.
Qed.

Lemma find_colon_lt s cp : find_colon s = Some cp -> cp < length s.
Proof.
  revert cp. induction s as [|c s IH]; intros cp H; [discriminate|]. cbn [find_colon] in H.
  destruct (N.eqb c COLON); [inversion H; cbn; lia|].
  destruct (find_colon s) as [k|]; [|discriminate]. inversion H. specialize (IH k eq_refl). cbn. lia.
Qed.

(* ---- parameter_part ---- *)
Lemma parameter_part_safe raw cursor :
  cursor < length raw ->
  safe (parameter_part raw cursor)
  /\ forall p next, parameter_part raw cursor = Ret (p, next) -> cursor < next /\ next <= length raw.
Proof.
  intros Hc. unfold parameter_part.
  destruct (brace_scan_ok (S (length raw)) raw (S cursor) 1) as (en & count & -> & H1 & H2 & H3); [lia|lia|lia|].
  cbn [bind]. destruct (Nat.eqb count 0) eqn:E0; cbn [negb]; [|split; [exact I|discriminate]].
  apply Nat.eqb_eq in E0. specialize (H3 E0).
  destruct (slice_ok raw (S cursor) en 22 H1 H2) as (content & -> & Hlen). cbn [bind].
  destruct content as [|c0 content']; [split; [exact I|discriminate]|].
  cbv beta iota. remember (c0 :: content') as content eqn:Econt.
  assert (Hnc : exists name constraint,
     match find_colon content with
     | None => Ret (content, None)
     | Some cp => do a <- slice content 0 cp 23; do b <- slice content (S cp) (length content) 24; Ret (a, Some b)
     end = Ret (name, constraint)).
  { destruct (find_colon content) as [cp|] eqn:Ef; [|eauto]. apply find_colon_lt in Ef.
    destruct (slice_ok content 0 cp 23) as (a & -> & _); [lia|lia|].
    destruct (slice_ok content (S cp) (length content) 24) as (b & -> & _); [lia|lia|]. cbn [bind]. eauto. }
  destruct Hnc as (name & constraint & Hnc).
  match goal with |- safe (bind ?m _) /\ _ => replace m with (@Ret (bytes * option bytes) (name, constraint)) by (symmetry; exact Hnc) end.
  cbn [bind].
  rewrite (subn_ok en cursor 25) by lia. cbn [bind].
  destruct name as [|n0 name']; [split; [exact I|discriminate]|].
  cbv beta iota zeta. remember (n0 :: name') as name eqn:Ename.
  destruct (hd_is STAR name && _)%bool; [split; [exact I|discriminate]|].
  destruct (has_invalid _); [split; [exact I|discriminate]|].
  destruct (match constraint with Some [] => _ | Some c => _ | None => _ end); [split; [exact I|discriminate]|].
  destruct (negb (utf8_valid _)); [split; [exact I|discriminate]|].
  destruct (negb _); [split; [exact I|discriminate]|].
  split; [exact I|]. intros p next H. inversion H; subst. lia.
Qed.

(* ---- static_part ---- *)
Lemma static_part_ok : forall steps raw en acc,
  en <= length raw -> length raw - en < steps ->
  exists s e, static_part steps raw en acc = Ret (s, e) /\ en <= e /\ e <= length raw
     /\ (forall c, nth_error raw en = Some c -> N.eqb c LB = false -> N.eqb c RB = false -> en < e).
Proof.
  induction steps as [|steps IH]; intros raw en acc He Hs; [lia|]. cbn [static_part].
  destruct (Nat.ltb en (length raw)) eqn:El.
  - apply Nat.ltb_lt in El. destruct (idx_ret raw en 10 El) as (c & Hidx). rewrite Hidx. cbn [bind].
    assert (Hnth : nth_error raw en = Some c).
    { unfold idx in Hidx. destruct (nth_error raw en); inversion Hidx; reflexivity. }
    destruct (N.eqb c BSL) eqn:Eb.
    { assert (HnLB : N.eqb c LB = false /\ N.eqb c RB = false).
      { apply N.eqb_eq in Eb. subst c. split; reflexivity. }
      destruct (nth_error raw (S en)) as [nx|] eqn:En.
      - assert (S en < length raw) by (apply nth_error_Some; congruence).
        destruct (IH raw (en + 2) (acc ++ [nx])) as (s & e & -> & H1 & H2 & _); [lia|lia|].
        exists s, e. repeat split; auto; try lia.
      - destruct (IH raw (en + 1) (acc ++ [BSL])) as (s & e & -> & H1 & H2 & _); [lia|lia|].
        exists s, e. repeat split; auto; try lia. }
    destruct (N.eqb c LB || N.eqb c RB)%bool eqn:Ebr.
    { exists acc, en. repeat split; auto. intros c' Hc' H1 H2. rewrite Hnth in Hc'. inversion Hc'; subst c'.
      rewrite H1, H2 in Ebr. discriminate. }
    destruct (IH raw (en + 1) (acc ++ [c])) as (s & e & -> & H1 & H2 & _); [lia|lia|].
    exists s, e. repeat split; auto; try lia.
  - apply Nat.ltb_ge in El. exists acc, en. repeat split; auto.
    intros c Hc. assert (en < length raw) by (apply nth_error_Some; congruence). lia.
Qed.

(* ---- template_loop ---- *)
Lemma template_loop_safe : forall steps raw cursor seen parts,
  cursor <= length raw -> length raw - cursor < steps ->
  safe (template_loop steps raw cursor seen parts).
Proof.
  induction steps as [|steps IH]; intros raw cursor seen parts Hc Hs; [lia|]. cbn [template_loop].
  destruct (Nat.ltb cursor (length raw)) eqn:El; [|exact I].
  apply Nat.ltb_lt in El. destruct (idx_ret raw cursor 30 El) as (c & Hidx). rewrite Hidx. cbn [bind].
  assert (Hnth : nth_error raw cursor = Some c).
  { unfold idx in Hidx. destruct (nth_error raw cursor); inversion Hidx; reflexivity. }
  destruct (N.eqb c LB) eqn:ELB.
  - destruct (parameter_part_safe raw cursor El) as [Hsafe Hnext].
    destruct (parameter_part raw cursor) as [[p next]| | |]; try exact Hsafe. cbn [bind].
    destruct (Hnext p next eq_refl) as [Hn1 Hn2].
    destruct (match last_opt seen with Some (_, s, l) => if Nat.eqb cursor (s + l) then Some (s, l) else None | None => None end)
      as [[s l]|] eqn:Elast.
    { assert (s <= cursor).
      { destruct (last_opt seen) as [[[n0 s0] l0]|]; [|discriminate].
        destruct (Nat.eqb cursor (s0 + l0)) eqn:E; [|discriminate]. apply Nat.eqb_eq in E. inversion Elast; subst. lia. }
      rewrite (subn_ok next s 31) by lia. exact I. }
    destruct (part_name p) as [name|].
    + destruct (find _ seen) as [[[n0 s0] l0]|].
      * rewrite (subn_ok next cursor 32) by lia. exact I.
      * rewrite (subn_ok next cursor 33) by lia. cbn [bind]. apply IH; lia.
    + apply IH; lia.
  - destruct (N.eqb c RB) eqn:ERB; [exact I|].
    destruct (static_part_ok (S (length raw)) raw cursor [] Hc) as (s & e & -> & H1 & H2 & H3); [lia|].
    cbn [bind]. specialize (H3 c Hnth ELB ERB). apply IH; lia.
Qed.

Lemma parse_template_safe raw : safe (parse_template raw).
Proof.
  unfold parse_template. destruct (match raw with [] => false | b :: _ => negb (N.eqb b SL) end); [exact I|].
  apply safe_bind; [apply template_loop_safe; lia|]. intros ps _. exact I.
Qed.

Lemma map_out_safe {A B} (f : A -> out B) l : (forall x, safe (f x)) -> safe (map_out f l).
Proof.
  intros Hf. induction l as [|x l IH]; [exact I|]. cbn [map_out].
  apply safe_bind; [apply Hf|]. intros y _. apply safe_bind; [exact IH|]. intros ys _. exact I.
Qed.

(* ---- expand ---- *)
Lemma scan_safe rec input start en :
  start <= en -> en <= length input ->
  (forall g c, S start <= g -> g <= c -> c < en -> safe (rec g c)) ->
  forall steps cursor group depth result,
    start <= group -> group <= cursor -> group <= en -> cursor <= length input ->
    (0 <= depth)%Z -> ((0 < depth)%Z -> S start <= group) ->
    length input - cursor < steps ->
    safe (scan_f rec input start en steps cursor group depth result).
Proof.
  intros Hse Hen Hrec. induction steps as [|steps IH]; intros cursor group depth result Hsg Hgc Hge Hcl Hd Hdg Hst; [lia|].
  rewrite scan_f_S. destruct (Nat.ltb cursor en) eqn:El.
  - apply Nat.ltb_lt in El. destruct (idx_ret input cursor 1) as (c & ->); [lia|]. cbn [bind].
    destruct (N.eqb c BSL && _)%bool eqn:Eesc.
    { apply andb_true_iff in Eesc as [_ Hn]. destruct (nth_error input (S cursor)) eqn:En; [|discriminate].
      assert (S cursor < length input) by (apply nth_error_Some; congruence).
      apply IH; try lia; auto. }
    destruct (N.eqb c LP).
    { destruct (Z.eqb depth 0) eqn:Ed.
      - destruct (slice_ok input group cursor 2) as (lit & -> & _); [lia|lia|]. cbn [bind].
        apply IH; try lia.
      - apply Z.eqb_neq in Ed. apply IH; try lia. }
    destruct (N.eqb c RP); [|apply IH; try lia; auto]. cbv zeta.
    destruct (Z.ltb (depth - 1) 0) eqn:Elt; [exact I|]. apply Z.ltb_ge in Elt.
    destruct (Z.eqb (depth - 1) 0) eqn:Ed.
    + apply Z.eqb_eq in Ed. assert (Hg1 : S start <= group) by (apply Hdg; lia).
      destruct (Nat.eqb cursor group) eqn:Ecg.
      * rewrite (subn_ok cursor 1 3) by lia. exact I.
      * apply Nat.eqb_neq in Ecg. apply safe_bind; [apply Hrec; lia|]. intros opts _. apply IH; try lia.
    + apply Z.eqb_neq in Ed. apply IH; try lia.
  - apply Nat.ltb_ge in El. destruct (negb (Z.eqb depth 0)) eqn:Ed.
    + apply Bool.negb_true_iff in Ed. apply Z.eqb_neq in Ed. assert (S start <= group) by (apply Hdg; lia).
      rewrite (subn_ok (start + group) 1 4) by lia. exact I.
    + destruct (Nat.ltb group en) eqn:Eg; [|exact I].
      destruct (slice_ok input group en 5) as (lit & -> & _); [lia|lia|]. exact I.
Qed.

Lemma expand_safe : forall fuel input start en,
  start <= en -> en <= length input -> en - start < fuel -> safe (expand fuel input start en).
Proof.
  induction fuel as [|fuel IH]; intros input start en Hse Hen Hf; [lia|]. rewrite expand_S.
  apply scan_safe; try lia.
  intros g c Hg Hgc Hc. apply IH; lia.
Qed.

(* C07, parser part: every input is parsed or rejected; no out-of-range access, no fuel exhaustion *)
Theorem parse_safe t : safe (parse t).
Proof.
  unfold parse. destruct t as [|b t]; [exact I|].
  apply safe_bind; [apply expand_safe; cbn [length]; lia|]. intros raws _.
  apply map_out_safe. intros raw. apply parse_template_safe.
Qed.

Corollary parse_total t : (exists es, parse t = Ret es) \/ (exists e, parse t = Err e).
Proof. pose proof (parse_safe t) as H. destruct (parse t); cbn in H; [eauto|eauto|destruct H|destruct H]. Qed.

(* hence no router operation of the model reports a panic *)
From WF Require Import Spec.Walk Model.Tree Model.Ops Model.Router.
Theorem rinsert_never_panics r t d s : snd (rinsert r t d) <> RPanic s.
Proof.
  unfold rinsert. pose proof (parse_safe t) as H. destruct (parse t) as [es| | |]; cbn in H; try destruct H; cbn [snd]; try discriminate.
  destruct (first_some _ es); cbn [snd]; [discriminate|]. destruct (filter_map _ es); cbn [snd]; discriminate.
Qed.

Theorem rdelete_never_panics r t s : snd (rdelete r t) <> RPanic s.
Proof.
  unfold rdelete. pose proof (parse_safe t) as H. destruct (parse t) as [es| | |]; cbn in H; try destruct H; cbn [snd]; try discriminate.
  destruct (first_some _ es); cbn [snd]; [discriminate|]. destruct (existsb _ es); cbn [snd]; [discriminate|].
  destruct (fold_left _ es (r_root r, None)) as [root [d|]]; cbn [snd]; discriminate.
Qed.
