(* optimize establishes order and flags on every tree that satisfies the dirty discipline, and
   preserves the structural invariant. *)
From Coq Require Import Lia Sorted Permutation.
From WF Require Import Base.Bytes Base.Utf8 Spec.Route Spec.Walk Model.Tree Model.Ops Spec.Inv.
From WF Require Import Proofs.BytesP Proofs.WalkP Proofs.GroupsP Proofs.RefineP Proofs.InvP.

(* ---- sorting child lists ---- *)
Lemma ins_sorted_perm x l : Permutation (ins_sorted x l) (x :: l).
Proof.
  induction l as [|y l IH]; cbn [ins_sorted]; [apply Permutation_refl|].
  destruct (kcmp (fst x) (fst y)); try apply Permutation_refl.
  eapply Permutation_trans; [apply perm_skip; exact IH|apply perm_swap].
Qed.

Lemma sort_kids_perm l : Permutation (sort_kids l) l.
Proof.
  induction l as [|x l IH]; cbn; [constructor|].
  eapply Permutation_trans; [apply ins_sorted_perm|]. apply perm_skip. exact IH.
Qed.

Definition kklt (a b : key * node) : Prop := klt (fst a) (fst b).

Lemma ins_sorted_SS x l :
  StronglySorted kklt l -> (forall y, In y l -> fst y <> fst x) -> StronglySorted kklt (ins_sorted x l).
Proof.
  induction l as [|y l IH]; intros Hs Hne; cbn [ins_sorted]; [repeat constructor|].
  apply StronglySorted_inv in Hs as [Hs Hall].
  destruct (kcmp (fst x) (fst y)) eqn:E.
  - exfalso. apply kcmp_eq in E. apply (Hne y (or_introl eq_refl)). congruence.
  - constructor; [constructor; assumption|]. constructor; [exact E|].
    eapply Forall_impl; [|exact Hall]. intros a Ha. unfold kklt in *. eapply klt_trans; eauto.
  - constructor.
    + apply IH; [exact Hs|]. intros z Hz. apply Hne. right; exact Hz.
    + assert (Hperm := ins_sorted_perm x l).
      apply Forall_forall. intros z Hz. apply (Permutation_in _ Hperm) in Hz as [<-|Hz].
      * unfold kklt. apply kcmp_gt_lt. exact E.
      * rewrite Forall_forall in Hall. apply Hall. exact Hz.
Qed.

Lemma keys_nodup_spec l : keys_nodup l = true <-> NoDup (map fst l).
Proof.
  induction l as [|x l IH]; cbn [keys_nodup map]; [split; [constructor|reflexivity]|].
  rewrite andb_true_iff, IH, negb_true_iff. split.
  - intros [Hn Hd]. constructor; [|exact Hd]. intros Hin. apply in_map_iff in Hin as (y & Hy & Hin).
    rewrite <- not_true_iff_false in Hn. apply Hn. apply existsb_exists. exists y. split; [exact Hin|].
    apply keqb_eq. congruence.
  - intros Hd. apply NoDup_cons_iff in Hd as [Hnin Hd]. split; [|exact Hd].
    rewrite <- not_true_iff_false. intros He. apply existsb_exists in He as (y & Hy & Hk). apply keqb_eq in Hk.
    apply Hnin. apply in_map_iff. exists y. auto.
Qed.

Lemma sort_kids_SS l : keys_nodup l = true -> StronglySorted kklt (sort_kids l).
Proof.
  induction l as [|x l IH]; cbn [sort_kids fold_right keys_nodup]; [constructor|].
  intros H. apply andb_true_iff in H as [Hn Hd].
  apply ins_sorted_SS; [apply IH; exact Hd|].
  intros y Hy Heq. apply (Permutation_in _ (sort_kids_perm l)) in Hy.
  apply negb_true_iff in Hn. rewrite <- not_true_iff_false in Hn. apply Hn.
  apply existsb_exists. exists y. split; [exact Hy|]. apply keqb_eq. congruence.
Qed.

Lemma SS_strictly_sorted l : StronglySorted kklt l -> strictly_sorted l = true.
Proof.
  induction 1 as [|x l Hs IH Hall]; [reflexivity|].
  cbn [strictly_sorted]. rewrite IH, andb_true_r.
  destruct l as [|y l]; [reflexivity|]. apply Forall_inv in Hall. unfold kklt, klt in Hall. rewrite Hall. reflexivity.
Qed.

Lemma sort_kids_strict l : keys_nodup l = true -> strictly_sorted (sort_kids l) = true.
Proof. intros H. apply SS_strictly_sorted. apply sort_kids_SS. exact H. Qed.

Lemma keys_nodup_perm l l' : Permutation l l' -> keys_nodup l = true -> keys_nodup l' = true.
Proof.
  intros Hp H. apply keys_nodup_spec. apply keys_nodup_spec in H.
  eapply Permutation_NoDup; [apply Permutation_map; exact Hp|exact H].
Qed.

(* static keys: each has a first byte and no constraint; first bytes pairwise distinct *)
Definition skey_good (kc : key * node) : Prop := first_byte (fst kc) <> None /\ snd (fst kc) = None.

Lemma static_keys_ok_spec l :
  static_keys_ok l = true <-> Forall skey_good l /\ NoDup (map (fun kc : key * node => first_byte (fst kc)) l).
Proof.
  induction l as [|x l IH]; cbn [static_keys_ok map]; [split; [split; constructor|reflexivity]|].
  rewrite andb_true_iff, IH. split.
  - intros [Hx [Hg Hd]]. unfold skey_good.
    destruct (first_byte (fst x)) as [b|] eqn:Eb; [|discriminate]. destruct (snd (fst x)) eqn:Ec; [discriminate|].
    apply negb_true_iff in Hx. rewrite <- not_true_iff_false in Hx.
    split.
    + constructor; [rewrite Eb, Ec; split; [discriminate|reflexivity]|exact Hg].
    + constructor; [|exact Hd]. intros Hin. apply in_map_iff in Hin as (y & Hy & Hin).
      apply Hx. apply existsb_exists. exists y. split; [exact Hin|]. rewrite Hy. apply N.eqb_refl.
  - intros [Hg Hd]. apply Forall_inv in Hg as Hx. apply Forall_inv_tail in Hg.
    apply NoDup_cons_iff in Hd as [Hnin Hd]. split; [|split; assumption].
    destruct Hx as [Hb Hc]. destruct (first_byte (fst x)) as [b|] eqn:Eb; [|congruence]. rewrite Hc.
    apply negb_true_iff. rewrite <- not_true_iff_false. intros He. apply existsb_exists in He as (y & Hy & Hk).
    rewrite Forall_forall in Hg. destruct (Hg y Hy) as [Hyb _].
    destruct (first_byte (fst y)) as [b'|] eqn:Eb'; [|congruence]. apply N.eqb_eq in Hk. subst b'.
    apply Hnin. apply in_map_iff. exists y. auto.
Qed.

Lemma static_keys_ok_perm l l' : Permutation l l' -> static_keys_ok l = true -> static_keys_ok l' = true.
Proof.
  intros Hp H. apply static_keys_ok_spec. apply static_keys_ok_spec in H as [Hg Hd]. split.
  - eapply Permutation_Forall; eauto.
  - eapply Permutation_NoDup; [apply Permutation_map; exact Hp|exact Hd].
Qed.

Lemma static_keys_nodup l : static_keys_ok l = true -> keys_nodup l = true.
Proof.
  intros H. apply keys_nodup_spec. apply static_keys_ok_spec in H as [_ Hd].
  assert (Hm : map (fun kc : key * node => first_byte (fst kc)) l = map first_byte (map fst l)) by (rewrite map_map; reflexivity).
  rewrite Hm in Hd. eapply NoDup_map_inv. exact Hd.
Qed.

Lemma forallb_perm {A} (f : A -> bool) l l' : Permutation l l' -> forallb f l = forallb f l'.
Proof.
  induction 1; cbn; auto.
  - rewrite IHPermutation. reflexivity.
  - destruct (f x), (f y); reflexivity.
  - congruence.
Qed.

Lemma forallb_map' {A B} (f : B -> bool) (g : A -> B) l : forallb f (map g l) = forallb (fun x => f (g x)) l.
Proof. induction l as [|x l IH]; cbn; [reflexivity|]. rewrite IH. reflexivity. Qed.

(* ---- optimize ---- *)
Definition opt_list (l : list (key * node)) : list (key * node) :=
  sort_kids (map (fun kc : key * node => (fst kc, optimize (snd kc))) l).

Lemma optimize_eq n :
  optimize n =
  if negb (n_dirty n) then n else
  let n' := Node (n_data n) (opt_list (n_st n)) (opt_list (n_dc n)) (opt_list (n_dy n))
                 (opt_list (n_wc n)) (opt_list (n_wi n)) (opt_list (n_ec n)) (opt_list (n_en n))
                 false false false in
  set_flags (dyn_cond n') (wild_cond n') n'.
Proof. destruct n; reflexivity. Qed.

(* what optimize leaves alone *)
Lemma optimize_data n : n_data (optimize n) = n_data n.
Proof. rewrite optimize_eq. destruct (negb (n_dirty n)); reflexivity. Qed.

Lemma opt_list_nil l : is_nil (opt_list l) = is_nil l.
Proof.
  unfold opt_list. destruct l as [|x l]; [reflexivity|].
  assert (Hp := sort_kids_perm (map (fun kc : key * node => (fst kc, optimize (snd kc))) (x :: l))).
  destruct (sort_kids _) eqn:E; [|reflexivity].
  apply Permutation_nil in Hp. discriminate.
Qed.

Lemma optimize_only_static n : only_static_kids (optimize n) = only_static_kids n.
Proof.
  rewrite optimize_eq. destruct (negb (n_dirty n)); [reflexivity|].
  unfold only_static_kids. cbn. rewrite !opt_list_nil. reflexivity.
Qed.

Lemma optimize_no_kids n : no_kids_b (optimize n) = no_kids_b n.
Proof.
  unfold no_kids_b. rewrite optimize_only_static. f_equal.
  rewrite optimize_eq. destruct (negb (n_dirty n)); [reflexivity|]. cbn. apply opt_list_nil.
Qed.

Lemma optimize_has_data n : has_data (optimize n) = has_data n.
Proof. unfold has_data. rewrite optimize_data. reflexivity. Qed.

Lemma optimize_alive n : alive (optimize n) = alive n.
Proof. unfold alive. rewrite optimize_has_data, optimize_no_kids. reflexivity. Qed.

Lemma opt_list_perm l : Permutation (opt_list l) (map (fun kc : key * node => (fst kc, optimize (snd kc))) l).
Proof. apply sort_kids_perm. Qed.

Lemma optimize_slash_ok n : slash_ok (optimize n) = slash_ok n.
Proof.
  unfold slash_ok. rewrite optimize_eq. destruct (negb (n_dirty n)); [reflexivity|]. cbn [n_st set_flags].
  rewrite (forallb_perm _ _ _ (opt_list_perm (n_st n))). rewrite forallb_map'. reflexivity.
Qed.

Lemma in_opt_list l x : In x (opt_list l) <-> exists kc, In kc l /\ x = (fst kc, optimize (snd kc)).
Proof.
  split.
  - intros H. apply (Permutation_in _ (opt_list_perm l)) in H. apply in_map_iff in H as (kc & <- & Hkc). eauto.
  - intros (kc & Hkc & ->). apply (Permutation_in _ (Permutation_sym (opt_list_perm l))). apply in_map_iff. eauto.
Qed.

Lemma opt_list_keys_nodup l : keys_nodup l = true -> keys_nodup (opt_list l) = true.
Proof.
  intros H. eapply keys_nodup_perm; [apply Permutation_sym; apply opt_list_perm|].
  apply keys_nodup_spec. rewrite map_map. cbn [fst]. apply keys_nodup_spec. exact H.
Qed.

Lemma opt_list_static_ok l : static_keys_ok l = true -> static_keys_ok (opt_list l) = true.
Proof.
  intros H. eapply static_keys_ok_perm; [apply Permutation_sym; apply opt_list_perm|].
  apply static_keys_ok_spec. apply static_keys_ok_spec in H as [Hg Hd]. split.
  - apply Forall_forall. intros x Hx. apply in_map_iff in Hx as (kc & <- & Hkc).
    rewrite Forall_forall in Hg. apply (Hg kc Hkc).
  - rewrite map_map. cbn [fst]. exact Hd.
Qed.

Lemma opt_list_sorted l : keys_nodup l = true -> strictly_sorted (opt_list l) = true.
Proof.
  intros H. apply sort_kids_strict. apply keys_nodup_spec. rewrite map_map. cbn [fst]. apply keys_nodup_spec. exact H.
Qed.

Definition Opt (n : node) : Prop :=
  wf n = true -> disc n = true -> wf (optimize n) = true /\ tidy (optimize n) = true.

Lemma forallb_opt_list (P : key * node -> bool) l :
  (forall kc, In kc l -> P (fst kc, optimize (snd kc)) = true) -> forallb P (opt_list l) = true.
Proof.
  intros H. apply forallb_forall. intros x Hx. apply in_opt_list in Hx as (kc & Hkc & ->). apply H. exact Hkc.
Qed.

Lemma optimize_step n :
  (forall kc, In kc (n_st n) -> Opt (snd kc)) ->
  (forall k kc, In kc (kids k n) -> Opt (snd kc)) ->
  Opt n.
Proof.
  intros IHst IHk Hwf Hdisc.
  pose proof (wf_unpack n Hwf) as W.
  rewrite optimize_eq. rewrite disc_eq in Hdisc. cbv zeta in Hdisc.
  destruct (n_dirty n) eqn:Ed; cbn [negb]; [|split; assumption].
  split_andb.
  assert (Dst : forall kc, In kc (n_st n) -> disc (snd kc) = true).
  { intros kc Hkc. match goal with Hx : forallb _ (n_st n) = true |- _ => rewrite forallb_forall in Hx; apply Hx; exact Hkc end. }
  assert (Dk : forall k kc, In kc (kids k n) -> disc (snd kc) = true).
  { intros k kc Hkc. destruct k; cbn [kids] in Hkc;
      match goal with Hx : forallb _ ?l = true, Hy : In kc ?l |- _ => rewrite forallb_forall in Hx; apply Hx; exact Hy end. }
  (* children after optimisation *)
  assert (Ost : forall kc, In kc (n_st n) -> wf (optimize (snd kc)) = true /\ tidy (optimize (snd kc)) = true).
  { intros kc Hkc. apply IHst; [exact Hkc|apply (wn_static n W kc Hkc)|apply Dst; exact Hkc]. }
  assert (Omid : forall k kc, is_end k = false -> In kc (kids k n) ->
                 wf (optimize (snd kc)) = true /\ tidy (optimize (snd kc)) = true).
  { intros k kc He Hkc. apply (IHk k kc Hkc); [apply (wn_mid n W k kc He Hkc)|apply (Dk k kc Hkc)]. }
  assert (Oend : forall k kc, is_end k = true -> In kc (kids k n) -> optimize (snd kc) = snd kc \/ True) by auto.
  set (n' := Node (n_data n) (opt_list (n_st n)) (opt_list (n_dc n)) (opt_list (n_dy n))
                  (opt_list (n_wc n)) (opt_list (n_wi n)) (opt_list (n_ec n)) (opt_list (n_en n)) false false false).
  (* structure *)
  assert (Wmid : forall k, is_end k = false ->
     keys_nodup (opt_list (kids k n))
     && forallb (fun kc : key * node =>
          key_ok k (fst kc) && only_static_kids (snd kc)
          && (if is_dyn k then true else negb (has_data (snd kc)))
          && alive (snd kc) && wf (snd kc)) (opt_list (kids k n)) = true).
  { intros k He. rewrite (opt_list_keys_nodup _ (wn_nodup n W k)). cbn [andb].
    apply forallb_opt_list. intros kc Hkc. cbn [fst snd].
    destruct (wn_mid n W k kc He Hkc) as (Ho & Hnd & Ha & Hw).
    rewrite (wn_key n W k kc Hkc), optimize_only_static, Ho, optimize_alive, Ha, optimize_has_data.
    rewrite (proj1 (Omid k kc He Hkc)).
    destruct (is_dyn k) eqn:Edy; [reflexivity|]. rewrite (Hnd eq_refl). reflexivity. }
  assert (Wend : forall k, is_end k = true ->
     keys_nodup (opt_list (kids k n))
     && forallb (fun kc : key * node => key_ok k (fst kc) && has_data (snd kc) && no_kids_b (snd kc)) (opt_list (kids k n)) = true).
  { intros k He. rewrite (opt_list_keys_nodup _ (wn_nodup n W k)). cbn [andb].
    apply forallb_opt_list. intros kc Hkc. cbn [fst snd].
    destruct (wn_end n W k kc He Hkc) as (Hd & Hnk).
    rewrite (wn_key n W k kc Hkc), optimize_has_data, Hd, optimize_no_kids, Hnk. reflexivity. }
  assert (Wst : forallb (fun kc : key * node => alive (snd kc) && wf (snd kc)) (opt_list (n_st n)) = true).
  { apply forallb_opt_list. intros kc Hkc. cbn [snd].
    rewrite optimize_alive, (proj1 (wn_static n W kc Hkc)), (proj1 (Ost kc Hkc)). reflexivity. }
  assert (Hwf' : wf (set_flags (dyn_cond n') (wild_cond n') n') = true).
  { rewrite wf_eq. cbv zeta. cbn [set_flags n' n_st n_dc n_dy n_wc n_wi n_ec n_en n_data].
    rewrite (opt_list_static_ok _ (wn_static_keys n W)), Wst.
    pose proof (Wmid KDC eq_refl) as M1. pose proof (Wmid KDY eq_refl) as M2.
    pose proof (Wmid KWC eq_refl) as M3. pose proof (Wmid KWI eq_refl) as M4.
    pose proof (Wend KEC eq_refl) as E1. pose proof (Wend KEN eq_refl) as E2.
    cbn [kids] in M1, M2, M3, M4, E1, E2. rewrite M1, M2, M3, M4, E1, E2. reflexivity. }
  split; [exact Hwf'|].
  (* order and flags *)
  rewrite tidy_eq. cbv zeta. cbn [set_flags n' n_st n_dc n_dy n_wc n_wi n_ec n_en n_dflag n_wflag].
  assert (Hsorted : lists_sorted (set_flags (dyn_cond n') (wild_cond n') n') = true).
  { unfold lists_sorted. cbn [set_flags n' n_st n_dc n_dy n_wc n_wi n_ec n_en].
    rewrite (opt_list_sorted _ (static_keys_nodup _ (wn_static_keys n W))).
    pose proof (opt_list_sorted _ (wn_nodup n W KDC)) as S1. pose proof (opt_list_sorted _ (wn_nodup n W KDY)) as S2.
    pose proof (opt_list_sorted _ (wn_nodup n W KWC)) as S3. pose proof (opt_list_sorted _ (wn_nodup n W KWI)) as S4.
    pose proof (opt_list_sorted _ (wn_nodup n W KEC)) as S5. pose proof (opt_list_sorted _ (wn_nodup n W KEN)) as S6.
    cbn [kids] in S1, S2, S3, S4, S5, S6. rewrite S1, S2, S3, S4, S5, S6. reflexivity. }
  rewrite Hsorted.
  (* the recomputed flags are justified *)
  assert (Hsl : forall k (l : list (key * node)),
     (forall kc, In kc l -> key_ok k (fst kc) = true /\ only_static_kids (snd kc) = true) ->
     forall f, forallb (fun kc : key * node => f (fst kc) || slash_led (snd kc)) l = true ->
     (forall kc, In kc l -> f (fst kc) = false) ->
     forallb (fun kc : key * node => slash_ok (snd kc)) l = true).
  { intros k l Hl f Hf Hnf. apply forallb_forall. intros kc Hkc. rewrite forallb_forall in Hf.
    specialize (Hf kc Hkc). rewrite (Hnf kc Hkc) in Hf. cbn [orb] in Hf.
    unfold slash_led in Hf. apply orb_true_iff in Hf as [Hn|Hs]; [|exact Hs].
    unfold slash_ok. unfold no_kids in Hn. destruct (n_st (snd kc)); [reflexivity|discriminate]. }
  assert (Hflags : flags_ok (set_flags (dyn_cond n') (wild_cond n') n') = true).
  { unfold flags_ok. cbn [set_flags n' n_dflag n_wflag n_dc n_dy n_wc n_wi].
    apply andb_true_iff. split.
    - destruct (dyn_cond n') eqn:Ec; [|reflexivity]. cbn [implb].
      unfold dyn_cond in Ec. cbn [n' n_dc n_dy] in Ec. apply andb_true_iff in Ec as [E1 E2].
      rewrite forallb_app. apply andb_true_iff. split.
      + apply (Hsl KDC _) with (f := fun ky => hd_is SL (fst ky)); [|exact E1|].
        * intros kc Hkc. apply in_opt_list in Hkc as (kc0 & Hkc0 & ->). cbn [fst snd].
          split; [apply (wn_key n W KDC kc0 Hkc0)|rewrite optimize_only_static; apply (wn_mid n W KDC kc0 eq_refl Hkc0)].
        * intros kc Hkc. apply in_opt_list in Hkc as (kc0 & Hkc0 & ->). cbn [fst].
          pose proof (wn_key n W KDC kc0 Hkc0) as Hk. unfold key_ok in Hk. apply andb_true_iff in Hk as [_ Hk].
          apply negb_true_iff in Hk. exact Hk.
      + apply (Hsl KDY _) with (f := fun ky => hd_is SL (fst ky)); [|exact E2|].
        * intros kc Hkc. apply in_opt_list in Hkc as (kc0 & Hkc0 & ->). cbn [fst snd].
          split; [apply (wn_key n W KDY kc0 Hkc0)|rewrite optimize_only_static; apply (wn_mid n W KDY kc0 eq_refl Hkc0)].
        * intros kc Hkc. apply in_opt_list in Hkc as (kc0 & Hkc0 & ->). cbn [fst].
          pose proof (wn_key n W KDY kc0 Hkc0) as Hk. unfold key_ok in Hk. apply andb_true_iff in Hk as [_ Hk].
          apply negb_true_iff in Hk. exact Hk.
    - destruct (wild_cond n') eqn:Ec; [|reflexivity]. cbn [implb].
      unfold wild_cond in Ec. cbn [n' n_wc n_wi] in Ec. apply andb_true_iff in Ec as [E1 E2].
      rewrite forallb_app. apply andb_true_iff. split.
      + apply (Hsl KWC _) with (f := fun _ => false); [| |reflexivity].
        * intros kc Hkc. apply in_opt_list in Hkc as (kc0 & Hkc0 & ->). cbn [fst snd].
          split; [apply (wn_key n W KWC kc0 Hkc0)|rewrite optimize_only_static; apply (wn_mid n W KWC kc0 eq_refl Hkc0)].
        * exact E1.
      + apply (Hsl KWI _) with (f := fun _ => false); [| |reflexivity].
        * intros kc Hkc. apply in_opt_list in Hkc as (kc0 & Hkc0 & ->). cbn [fst snd].
          split; [apply (wn_key n W KWI kc0 Hkc0)|rewrite optimize_only_static; apply (wn_mid n W KWI kc0 eq_refl Hkc0)].
        * exact E2. }
  rewrite Hflags. cbn [andb].
  (* children are tidy *)
  assert (Tst : forallb (fun kc : key * node => tidy (snd kc)) (opt_list (n_st n)) = true).
  { apply forallb_opt_list. intros kc Hkc. cbn [snd]. apply (Ost kc Hkc). }
  assert (Tmid : forall k, is_end k = false -> forallb (fun kc : key * node => tidy (snd kc)) (opt_list (kids k n)) = true).
  { intros k He. apply forallb_opt_list. intros kc Hkc. cbn [snd]. apply (Omid k kc He Hkc). }
  assert (Tend : forall k, is_end k = true -> forallb (fun kc : key * node => tidy (snd kc)) (opt_list (kids k n)) = true).
  { intros k He. apply forallb_opt_list. intros kc Hkc. cbn [snd].
    apply (IHk k kc Hkc); [|apply (Dk k kc Hkc)].
    (* an end node is well formed: data, no children *)
    destruct (wn_end n W k kc He Hkc) as (Hd & Hnk).
    rewrite wf_eq. cbv zeta. unfold no_kids_b, only_static_kids in Hnk. split_andb.
    repeat match goal with Hx : is_nil ?l = true |- _ => destruct l; [clear Hx|discriminate] end. reflexivity. }
  rewrite Tst.
  pose proof (Tmid KDC eq_refl) as M1. pose proof (Tmid KDY eq_refl) as M2.
  pose proof (Tmid KWC eq_refl) as M3. pose proof (Tmid KWI eq_refl) as M4.
  pose proof (Tend KEC eq_refl) as E1. pose proof (Tend KEN eq_refl) as E2.
  cbn [kids] in M1, M2, M3, M4, E1, E2. rewrite M1, M2, M3, M4, E1, E2. reflexivity.
Qed.

Theorem optimize_wf_tidy : forall n, wf n = true -> disc n = true -> wf (optimize n) = true /\ tidy (optimize n) = true.
Proof.
  induction n using node_ind'. apply optimize_step.
  - cbn [n_st]. intros kc Hkc. unfold AllP in *. rewrite Forall_forall in *. unfold Opt. auto.
  - intros k kc Hkc. unfold AllP in *. rewrite Forall_forall in *. unfold Opt.
    destruct k; cbn [kids n_dc n_dy n_wc n_wi n_ec n_en] in Hkc; auto.
Qed.
