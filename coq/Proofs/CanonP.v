(* For every history the tree of the model router is in canonical form (Spec/Inv.v canonical_b): the root
   holds no data and at most one child, a literal one starting with '/'; below it nothing is empty, every leaf
   is marked, no literal node is compressible, all sibling lists are strictly sorted. *)
From Coq Require Import Lia Arith PeanoNat Permutation.
From WF Require Import Base.Bytes Base.Utf8 Spec.Route Spec.Walk Model.Tree Model.Parser Model.Ops Model.Router Spec.Inv.
From WF Require Import Proofs.BytesP Proofs.RefineP Proofs.InvP Proofs.OpsLemmasP Proofs.InsertP Proofs.OptimizeP Proofs.DeleteP
     Proofs.RoutesP Proofs.ParserPartsP Proofs.ParserLeadP Proofs.RouterP Proofs.ReachP Proofs.RouterRoutesP Proofs.CompP.

(* ---- the root ---- *)
Definition RootOK (n : node) : Prop :=
  n_data n = None /\ (forall k, kids k n = []) /\ forall kc, In kc (n_st n) -> hd_is SL (fst (fst kc)) = true.

Lemma hd_is_firstn b k cp : 1 <= cp -> hd_is b (firstn cp k) = hd_is b k.
Proof. destruct cp; [lia|]. destruct k; reflexivity. Qed.
Lemma hd_is_app b k m : hd_is b k = true -> hd_is b (k ++ m) = true.
Proof. destruct k; [discriminate|]. auto. Qed.

Lemma insert_static_root f n s ps d :
  RootOK n -> RootOK (insert_static f n (SL :: s) ps d).
Proof.
  intros (Hd & Hk & Hs). destruct f as [|f]; [repeat split; auto|]. rewrite insert_static_S.
  destruct (upd_first _ _ (n_st n)) as [l|] eqn:Eu.
  - apply upd_first_some in Eu as (a & x & b & Hl & Hx & _ & ->). split; [|split].
    + rewrite data_set_dirty, data_set_st. exact Hd.
    + intros k. rewrite kids_set_dirty, kids_set_st. apply Hk.
    + intros kc. rewrite st_set_dirty, st_set_st. intros Hin. apply in_app_or in Hin as [Hin|[<-|Hin]].
      * apply Hs. rewrite Hl. apply in_or_app. left; exact Hin.
      * assert (Hxin : In x (n_st n)) by (rewrite Hl; apply in_elt). specialize (Hs x Hxin).
        unfold split_fn. destruct (Nat.leb (length (fst (fst x))) (lcp (SL :: s) (fst (fst x)))); cbn [fst]; [exact Hs|].
        rewrite hd_is_firstn; [exact Hs|]. apply same_first_lcp. exact Hx.
      * apply Hs. rewrite Hl. apply in_or_app. right; right; exact Hin.
  - split; [|split].
    + rewrite data_set_dirty, data_set_st. exact Hd.
    + intros k. rewrite kids_set_dirty, kids_set_st. apply Hk.
    + intros kc. rewrite st_set_dirty, st_set_st. intros Hin. apply in_app_or in Hin as [Hin|[<-|[]]]; [apply Hs; exact Hin|].
      reflexivity.
Qed.

Lemma insert_root n ps d : RootOK n -> leads_with_slash ps -> RootOK (insert (ops_fuel ps) n ps d).
Proof. intros HR (s & ps' & ->). unfold ops_fuel. rewrite insert_S. apply insert_static_root. exact HR. Qed.

Lemma delete_static_root f n p ps : RootOK n -> RootOK (fst (delete_static f n p ps)).
Proof.
  intros (Hd & Hk & Hs). destruct f as [|f]; [repeat split; auto|]. rewrite delete_static_S.
  destruct (split_at _ (n_st n)) as [[[a kc] b]|] eqn:Es; [|repeat split; auto].
  apply split_at_some in Es as (Hl & _). cbv zeta.
  assert (Hkc : hd_is SL (fst (fst kc)) = true) by (apply Hs; rewrite Hl; apply in_elt).
  assert (Hrest : forall x, In x (a ++ b) -> hd_is SL (fst (fst x)) = true).
  { intros x Hx. apply Hs. rewrite Hl. apply in_app_or in Hx as [Hx|Hx]; apply in_or_app; [left|right; right]; exact Hx. }
  assert (Hbuild : forall l, (forall x, In x l -> hd_is SL (fst (fst x)) = true) -> RootOK (set_st l n)).
  { intros l Hl'. split; [|split]; [rewrite data_set_st; exact Hd|intros k; rewrite kids_set_st; apply Hk|rewrite st_set_st; exact Hl']. }
  assert (Hmid : forall y, hd_is SL (fst (fst y)) = true -> forall x, In x (a ++ y :: b) -> hd_is SL (fst (fst x)) = true).
  { intros y Hy x Hx. apply in_app_or in Hx as [Hx|[<-|Hx]]; [apply Hrest, in_or_app; left; exact Hx|exact Hy|apply Hrest, in_or_app; right; exact Hx]. }
  destruct (match skipn (length (fst (fst kc))) p with [] => _ | _ :: _ => _ end) as [c' r].
  destruct (is_empty c'); cbn [fst].
  - destruct (Hbuild (a ++ b) Hrest) as (R1 & R2 & R3). split; [|split];
      [rewrite data_set_dirty; exact R1|intros k; rewrite kids_set_dirty; apply R2|rewrite st_set_dirty; exact R3].
  - destruct (is_compressible c').
    + destruct (n_st c') as [|[mk m] [|y l]]; cbn [fst]; try (repeat split; auto; fail).
      apply Hbuild. apply Hmid. cbn [fst]. apply hd_is_app. exact Hkc.
    + cbn [fst]. apply Hbuild. apply Hmid. exact Hkc.
Qed.

Lemma delete_root n ps : RootOK n -> leads_with_slash ps -> RootOK (fst (delete (ops_fuel ps) n ps)).
Proof. intros HR (s & ps' & ->). unfold ops_fuel. rewrite delete_S. apply delete_static_root. exact HR. Qed.

Lemma optimize_root n : RootOK n -> RootOK (optimize n).
Proof.
  intros (Hd & Hk & Hs). split; [|split].
  - rewrite optimize_data. exact Hd.
  - intros k. rewrite kids_optimize. destruct (negb (n_dirty n)); [apply Hk|]. rewrite Hk; reflexivity.
  - intros kc. rewrite optimize_eq. destruct (negb (n_dirty n)); [apply Hs|]. cbn [n_st set_flags].
    intros Hin. apply in_opt_list in Hin as (x & Hx & ->). cbn [fst]. apply Hs. exact Hx.
Qed.

(* ---- the router operations keep the root shape and the compression ---- *)
Definition CInvR (r : router) : Prop := RootOK (r_root r) /\ comp (r_root r) = true.

Definition PartsLead (es : list expansion) : Prop := Forall (fun e : expansion => leads_with_slash (snd e)) es.

Lemma ins_all_canon mk : forall es root, PartsOK es -> PartsNorm es -> PartsLead es ->
  wf root = true -> disc root = true -> RootOK root -> comp root = true ->
  RootOK (ins_all mk es root) /\ comp (ins_all mk es root) = true.
Proof.
  induction es as [|e es IH]; intros root Hok Hnorm Hlead Hwf Hd HR Hc; cbn [ins_all fold_left]; [auto|].
  apply Forall_inv in Hok as He. apply Forall_inv_tail in Hok.
  apply Forall_inv in Hnorm as Hne. apply Forall_inv_tail in Hnorm.
  apply Forall_inv in Hlead as Hle. apply Forall_inv_tail in Hlead.
  destruct (one_insert_wf root (snd e) (mk e) Hwf Hd He) as [W1 D1].
  apply IH; auto.
  - apply insert_root; assumption.
  - apply (proj1 (insert_comp (ops_fuel (snd e))) root (snd e) (mk e) false); auto.
Qed.

Lemma del_all_canon : forall es acc, PartsLead es -> RootOK (fst acc) -> comp (fst acc) = true ->
  RootOK (fst (del_all es acc)) /\ comp (fst (del_all es acc)) = true.
Proof.
  induction es as [|e es IH]; intros acc Hlead HR Hc; cbn [del_all fold_left]; [auto|].
  apply Forall_inv in Hlead as Hle. apply Forall_inv_tail in Hlead.
  pose proof (delete_root (fst acc) (snd e) HR Hle) as R1.
  pose proof (proj1 (delete_comp (ops_fuel (snd e))) (fst acc) (snd e) Hc) as C1.
  destruct (delete (ops_fuel (snd e)) (fst acc) (snd e)) as [root1 x]. cbn [fst] in R1, C1.
  apply (IH (root1, match x with Some i => Some (i_data i) | None => snd acc end)); auto.
Qed.

Lemma cinv_step r o : RInv r -> CInvR r -> CInvR (step r o).
Proof.
  intros [Hwf Ht] [HR Hc]. destruct o as [t d|t|n ty]; cbn [step].
  - rewrite rinsert_unfold. destruct (parse t) as [es| | |] eqn:Ep; cbn [fst]; try (split; assumption).
    destruct (first_some _ es); cbn [fst]; [split; assumption|]. cbv zeta.
    destruct (filter_map _ es); cbn [fst]; [|split; assumption]. cbn [r_root].
    destruct (ins_all_canon (mk_info t (match es with _ :: _ :: _ => true | _ => false end) d) es (r_root r)
                (parse_parts_wf t es Ep) (parse_parts_norm t es Ep) (parse_parts_lead t es Ep) Hwf (tidy_disc _ Ht) HR Hc) as [R1 C1].
    split; [apply optimize_root; exact R1|apply optimize_comp; exact C1].
  - rewrite rdelete_unfold. destruct (parse t) as [es| | |] eqn:Ep; cbn [fst]; try (split; assumption).
    destruct (first_some _ es); cbn [fst]; [split; assumption|].
    destruct (existsb _ es); cbn [fst]; [split; assumption|].
    destruct (del_all_canon es (r_root r, None) (parse_parts_lead t es Ep) HR Hc) as [R1 C1].
    destruct (snd (del_all es (r_root r, None))); cbn [fst r_root]; [|split; assumption].
    split; [apply optimize_root; exact R1|apply optimize_comp; exact C1].
  - unfold rconstraint. destruct (find _ (r_constraints r)) as [[a b]|]; cbn [fst r_root]; split; assumption.
Qed.

Theorem reachable_cinv builtins ops : CInvR (run builtins ops).
Proof.
  unfold run.
  assert (H0 : RInv (new_router builtins) /\ CInvR (new_router builtins)).
  { split; [split; reflexivity|]. split; [|reflexivity]. split; [reflexivity|]. split; [intros k; destruct k; reflexivity|intros kc []]. }
  revert H0. generalize (new_router builtins). induction ops as [|o ops IH]; intros r [HR HC]; cbn [fold_left]; [exact HC|].
  apply IH. split; [|apply cinv_step; assumption].
  destruct o; cbn [step]; [apply rinsert_inv|apply rdelete_inv|apply rconstraint_inv]; exact HR.
Qed.

(* ---- from the invariants to the canonical shape ---- *)
Lemma canon_of_invariants : forall n st,
  wf n = true -> tidy n = true -> comp n = true -> alive n = true -> (st = true -> ncomp n = true) ->
  canon_node st n = true.
Proof.
  induction n using node_ind'. set (n := Node d st dc dy wc wi ec en f1 f2 f3) in *.
  intros st0 Hwf Ht Hc Ha Hn.
  pose proof (wf_unpack n Hwf) as W. pose proof (tidy_unpack n Ht) as T. apply comp_iff in Hc as [Hsc Hkcomp].
  assert (Hsub : forall k, is_end k = false ->
            AllP (fun c => forall st1, wf c = true -> tidy c = true -> comp c = true -> alive c = true ->
                                       (st1 = true -> ncomp c = true) -> canon_node st1 c = true) (kids k n) ->
            strictly_sorted (kids k n) && forallb (fun kc : key * node => canon_node false (snd kc)) (kids k n) = true).
  { intros k He Hall. rewrite (tn_sorted n T k). cbn [andb]. apply forallb_forall. intros kc Hkc.
    unfold AllP in Hall. rewrite Forall_forall in Hall.
    destruct (wn_mid n W k kc He Hkc) as (_ & _ & Hal & Hw).
    apply (Hall kc Hkc false); auto; [apply (tn_kids n T k kc Hkc)|apply (kids_comp_in _ kc (Hkcomp k He) Hkc)|discriminate]. }
  assert (Hend : forall k, is_end k = true ->
            strictly_sorted (kids k n) && forallb (fun kc : key * node => has_data (snd kc) && no_kids_b (snd kc)) (kids k n) = true).
  { intros k He. rewrite (tn_sorted n T k). cbn [andb]. apply forallb_forall. intros kc Hkc.
    destruct (wn_end n W k kc He Hkc) as [-> ->]. reflexivity. }
  change (canon_node st0 n) with
    ((has_data n || negb (no_kids_b n)) && negb (st0 && compressible_b n)
     && (strictly_sorted st && forallb (fun kc : key * node => canon_node true (snd kc)) st)
     && (strictly_sorted dc && forallb (fun kc : key * node => canon_node false (snd kc)) dc)
     && (strictly_sorted dy && forallb (fun kc : key * node => canon_node false (snd kc)) dy)
     && (strictly_sorted wc && forallb (fun kc : key * node => canon_node false (snd kc)) wc)
     && (strictly_sorted wi && forallb (fun kc : key * node => canon_node false (snd kc)) wi)
     && (strictly_sorted ec && forallb (fun kc : key * node => has_data (snd kc) && no_kids_b (snd kc)) ec)
     && (strictly_sorted en && forallb (fun kc : key * node => has_data (snd kc) && no_kids_b (snd kc)) en)).
  unfold alive in Ha. rewrite Ha. cbn [andb].
  assert (Hnc : negb (st0 && compressible_b n) = true).
  { destruct st0; [|reflexivity]. cbn [andb]. apply (Hn eq_refl). }
  rewrite Hnc. cbn [andb].
  assert (Hst : strictly_sorted st && forallb (fun kc : key * node => canon_node true (snd kc)) st = true).
  { pose proof (tn_sorted_st n T) as S1. cbn [n n_st] in S1. rewrite S1. cbn [andb]. apply forallb_forall. intros kc Hkc.
    unfold AllP in H. rewrite Forall_forall in H.
    destruct (wn_static n W kc Hkc) as [Hal Hw]. destruct (st_comp_in _ kc Hsc Hkc) as [Hn1 Hn2].
    apply (H kc Hkc true); auto. apply (tn_st n T kc Hkc). }
  rewrite Hst. cbn [andb].
  pose proof (Hsub KDC eq_refl H0) as S1. pose proof (Hsub KDY eq_refl H1) as S2.
  pose proof (Hsub KWC eq_refl H2) as S3. pose proof (Hsub KWI eq_refl H3) as S4.
  pose proof (Hend KEC eq_refl) as S5. pose proof (Hend KEN eq_refl) as S6.
  cbn [kids n n_dc n_dy n_wc n_wi n_ec n_en] in S1, S2, S3, S4, S5, S6.
  rewrite S1, S2, S3, S4, S5, S6. reflexivity.
Qed.

Theorem reachable_canonical builtins ops : canonical_b (r_root (run builtins ops)) = true.
Proof.
  destruct (reachable_inv builtins ops) as [Hwf Ht]. destruct (reachable_cinv builtins ops) as [(Hd & Hk & Hs) Hc].
  set (root := r_root (run builtins ops)) in *.
  pose proof (wf_unpack root Hwf) as W. pose proof (tidy_unpack root Ht) as T.
  unfold canonical_b. unfold has_data. rewrite Hd. cbn [negb andb].
  assert (Hos : only_static_kids root = true).
  { unfold only_static_kids. pose proof (Hk KDC) as K1. pose proof (Hk KDY) as K2. pose proof (Hk KWC) as K3.
    pose proof (Hk KWI) as K4. pose proof (Hk KEC) as K5. pose proof (Hk KEN) as K6. cbn [kids] in *.
    rewrite K1, K2, K3, K4, K5, K6. reflexivity. }
  rewrite Hos. cbn [andb].
  destruct (n_st root) as [|kc [|kc2 l]] eqn:Est; [reflexivity| |].
  - assert (Hin : In kc (n_st root)) by (rewrite Est; left; reflexivity).
    destruct (wn_static root W kc Hin) as [Hal Hw].
    apply comp_iff in Hc as [Hsc _]. destruct (st_comp_in _ kc Hsc Hin) as [Hn1 Hn2].
    apply canon_of_invariants; auto. apply (tn_st root T kc Hin).
  - (* two children would both start with '/' *)
    exfalso. pose proof (wn_static_keys root W) as Hkeys. try rewrite Est in Hkeys.
    assert (H1 : hd_is SL (fst (fst kc)) = true) by (apply Hs; try rewrite Est; left; reflexivity).
    assert (H2 : hd_is SL (fst (fst kc2)) = true) by (apply Hs; try rewrite Est; right; left; reflexivity).
    cbn [static_keys_ok existsb] in Hkeys. unfold first_byte in Hkeys.
    destruct (fst (fst kc)) as [|b1 k1]; [discriminate|]. destruct (fst (fst kc2)) as [|b2 k2]; [discriminate|].
    cbn [hd_is] in H1, H2. apply N.eqb_eq in H1, H2. subst b1 b2.
    destruct (snd (fst kc)); [discriminate|]. rewrite N.eqb_refl in Hkeys. discriminate.
Qed.
