(* C16, the reference-count bookkeeping: in every family of routers reachable by insert, delete, clone and drop,
   every Arc is held by the nodes of one template in one router only and its strong count is the number of those
   nodes; hence Router::delete always gets the data back from the last node, and no operation on one router
   changes anything another router holds.  With the derived Clone of the pinned commit this fails. *)
From Coq Require Import List NArith Arith Bool Lia.
From WF Require Import Base.Bytes Proofs.BytesP Model.Arcs.
Import ListNotations.

Definition Own (v : aview) : Prop :=
  forall n, In n v ->
    a_cnt n = held (a_id n) v
    /\ forall m, In m v -> a_id m = a_id n -> a_slot m = a_slot n /\ a_tmpl m = a_tmpl n.

(* ---- held ---- *)
Lemma held_app i a b : held i (a ++ b) = held i a + held i b.
Proof. unfold held. rewrite filter_app, app_length. reflexivity. Qed.

Lemma held_cons i n v : held i (n :: v) = (if N.eqb (a_id n) i then 1 else 0) + held i v.
Proof. unfold held. cbn [filter]. destruct (N.eqb (a_id n) i); reflexivity. Qed.

Lemma held_zero i v : (forall m, In m v -> a_id m <> i) -> held i v = 0.
Proof.
  induction v as [|n v IH]; intros H; [reflexivity|]. rewrite held_cons, IH by (intros m Hm; apply H; right; exact Hm).
  destruct (N.eqb (a_id n) i) eqn:E; [|reflexivity]. apply N.eqb_eq in E. destruct (H n (or_introl eq_refl) E).
Qed.

Lemma held_pos i v n : In n v -> a_id n = i -> 1 <= held i v.
Proof.
  induction v as [|x v IH]; intros Hin Hid; [destruct Hin|]. rewrite held_cons. destruct Hin as [->|Hin].
  - rewrite Hid, N.eqb_refl. lia.
  - specialize (IH Hin Hid). lia.
Qed.

Lemma held_split f i v : held i v = held i (filter f v) + held i (filter (fun n => negb (f n)) v).
Proof.
  induction v as [|n v IH]; [reflexivity|]. cbn [filter]. destruct (f n); cbn [negb]; rewrite !held_cons, IH; lia.
Qed.

Lemma held_map_dec rm i v : held i (map (dec rm) v) = held i v.
Proof. induction v as [|n v IH]; [reflexivity|]. cbn [map]. rewrite !held_cons, IH. reflexivity. Qed.

Lemma fresh_gt v n : In n v -> (a_id n < fresh v)%N.
Proof.
  unfold fresh. induction v as [|x v IH]; intros Hin; [destruct Hin|]. cbn [map fold_right]. destruct Hin as [->|Hin].
  - lia.
  - specialize (IH Hin). lia.
Qed.

Lemma held_fresh v j : (fresh v <= j)%N -> held j v = 0.
Proof. intros H. apply held_zero. intros m Hm E. pose proof (fresh_gt v m Hm). lia. Qed.

(* ---- the executable invariant is the invariant ---- *)
Lemma at_tmpl_true s t m : at_tmpl s t m = true <-> a_slot m = s /\ a_tmpl m = t.
Proof. unfold at_tmpl. rewrite andb_true_iff, N.eqb_eq, beqb_eq. tauto. Qed.

Lemma own_b_spec v : own_b v = true <-> Own v.
Proof.
  unfold own_b, Own. rewrite forallb_forall. split.
  - intros H n Hn. specialize (H n Hn). apply andb_true_iff in H as [H1 H2]. apply Nat.eqb_eq in H1. split; [exact H1|].
    intros m Hm E. rewrite forallb_forall in H2. specialize (H2 m Hm). apply orb_true_iff in H2 as [H2|H2].
    + apply negb_true_iff, N.eqb_neq in H2. contradiction.
    + apply at_tmpl_true in H2. exact H2.
  - intros H n Hn. destruct (H n Hn) as [H1 H2]. apply andb_true_iff. split; [apply Nat.eqb_eq; exact H1|].
    apply forallb_forall. intros m Hm. destruct (N.eqb (a_id m) (a_id n)) eqn:E; [|reflexivity]. cbn [negb orb].
    apply N.eqb_eq in E. apply at_tmpl_true. apply (H2 m Hm E).
Qed.

(* ---- joining views that share no Arc ---- *)
Lemma own_app v1 v2 :
  Own v1 -> Own v2 -> (forall n m, In n v1 -> In m v2 -> a_id n <> a_id m) -> Own (v1 ++ v2).
Proof.
  intros H1 H2 Hd n Hn. apply in_app_or in Hn as [Hn|Hn].
  - destruct (H1 n Hn) as [C S]. split.
    + rewrite held_app, (held_zero (a_id n) v2) by (intros m Hm E; apply (Hd n m Hn Hm); congruence). lia.
    + intros m Hm E. apply in_app_or in Hm as [Hm|Hm]; [apply (S m Hm E)|]. destruct (Hd n m Hn Hm). congruence.
  - destruct (H2 n Hn) as [C S]. split.
    + rewrite held_app, (held_zero (a_id n) v1) by (intros m Hm E; apply (Hd m n Hm Hn); congruence). lia.
    + intros m Hm E. apply in_app_or in Hm as [Hm|Hm]; [|apply (S m Hm E)]. destruct (Hd m n Hm Hn). congruence.
Qed.

(* ---- insert ---- *)
Lemma held_repeat i n k : held i (repeat n k) = if N.eqb (a_id n) i then k else 0.
Proof. induction k as [|k IH]; cbn [repeat]; [destruct (N.eqb _ _); reflexivity|]. rewrite held_cons, IH. destruct (N.eqb _ _); reflexivity. Qed.

Theorem own_ins s t k v : Own v -> Own (a_ins s t k v).
Proof.
  intros H. unfold a_ins. apply own_app; [exact H| |].
  - intros n Hn. apply repeat_spec in Hn. subst n. cbn [a_cnt a_id a_slot a_tmpl]. split.
    + rewrite held_repeat. cbn [a_id]. rewrite N.eqb_refl. reflexivity.
    + intros m Hm _. apply repeat_spec in Hm. subst m. split; reflexivity.
  - intros n m Hn Hm. apply repeat_spec in Hm. subst m. cbn [a_id]. pose proof (fresh_gt v n Hn). lia.
Qed.

(* ---- removing whole classes ---- *)
Lemma in_remove_where f v n' :
  In n' (remove_where f v) -> exists n, In n v /\ f n = false /\ n' = dec (filter f v) n.
Proof.
  unfold remove_where. intros H. apply in_map_iff in H as (n & <- & Hn). apply filter_In in Hn as [Hn Hf].
  exists n. split; [exact Hn|]. split; [apply negb_true_iff; exact Hf|reflexivity].
Qed.

Theorem own_remove f v :
  Own v -> (forall n m, In n v -> In m v -> a_id m = a_id n -> f m = f n) -> Own (remove_where f v).
Proof.
  intros H Hf n' Hn'. apply in_remove_where in Hn' as (n & Hn & Hfn & ->).
  destruct (H n Hn) as [C S].
  assert (Hz : held (a_id n) (filter f v) = 0).
  { apply held_zero. intros m Hm E. apply filter_In in Hm as [Hm Hfm]. rewrite (Hf n m Hn Hm E) in Hfm. congruence. }
  cbn [dec a_cnt a_id a_slot a_tmpl]. split.
  - unfold remove_where. rewrite held_map_dec. rewrite Hz, Nat.sub_0_r, C. rewrite (held_split f (a_id n) v), Hz. reflexivity.
  - intros m' Hm' E. apply in_remove_where in Hm' as (m & Hm & _ & ->). cbn [dec a_id a_slot a_tmpl] in *. apply (S m Hm E).
Qed.

(* and nothing else is touched: the surviving nodes are exactly the old ones, counts included *)
Lemma remove_where_keeps f v :
  Own v -> (forall n m, In n v -> In m v -> a_id m = a_id n -> f m = f n) ->
  remove_where f v = filter (fun n => negb (f n)) v.
Proof.
  intros H Hf. unfold remove_where. rewrite <- (map_id (filter (fun n => negb (f n)) v)) at 2.
  apply map_ext_in. intros n Hn. apply filter_In in Hn as [Hn Hfn]. apply negb_true_iff in Hfn.
  assert (Hz : held (a_id n) (filter f v) = 0).
  { apply held_zero. intros m Hm E. apply filter_In in Hm as [Hm Hfm]. rewrite (Hf n m Hn Hm E) in Hfm. congruence. }
  unfold dec. rewrite Hz, Nat.sub_0_r. destruct n; reflexivity.
Qed.

Lemma own_class_tmpl s t v : Own v -> forall n m, In n v -> In m v -> a_id m = a_id n -> at_tmpl s t m = at_tmpl s t n.
Proof. intros H n m Hn Hm E. destruct (H n Hn) as [_ S]. destruct (S m Hm E) as [E1 E2]. unfold at_tmpl. rewrite E1, E2. reflexivity. Qed.

Lemma own_class_slot s v : Own v -> forall n m, In n v -> In m v -> a_id m = a_id n -> at_slot s m = at_slot s n.
Proof. intros H n m Hn Hm E. destruct (H n Hn) as [_ S]. destruct (S m Hm E) as [E1 _]. unfold at_slot. rewrite E1. reflexivity. Qed.

Theorem own_del s t v : Own v -> Own (a_del s t v).
Proof. intros H. apply own_remove; [exact H|apply own_class_tmpl; exact H]. Qed.

Theorem own_drop s v : Own v -> Own (a_drop s v).
Proof. intros H. apply own_remove; [exact H|apply own_class_slot; exact H]. Qed.

(* ---- clone ---- *)
Lemma copies_ids b src : forall i m, In m (copies b src i) -> (i <= a_id m)%N /\ a_cnt m = 1 /\ a_slot m = b.
Proof.
  induction src as [|n r IH]; intros i m Hm; [destruct Hm|]. cbn [copies] in Hm. destruct Hm as [<-|Hm].
  - cbn. split; [lia|auto].
  - destruct (IH _ _ Hm) as (H1 & H2 & H3). split; [lia|auto].
Qed.

Lemma own_copies b src : forall i, Own (copies b src i).
Proof.
  induction src as [|n r IH]; intros i; [intros m []|]. cbn [copies].
  change (Own ([AN b (a_tmpl n) i 1] ++ copies b r (N.succ i))). apply own_app; [|apply IH|].
  - intros m [<-|[]]. cbn. split; [rewrite N.eqb_refl; reflexivity|]. intros m' [<-|[]] _. split; reflexivity.
  - intros x m [<-|[]] Hm. cbn [a_id]. destruct (copies_ids _ _ _ _ Hm) as [Hle _]. lia.
Qed.

Lemma in_remove_ids f v n' : In n' (remove_where f v) -> exists n, In n v /\ a_id n = a_id n'.
Proof. intros H. apply in_remove_where in H as (n & Hn & _ & ->). exists n. split; [exact Hn|reflexivity]. Qed.

Theorem own_clone a b v : Own v -> Own (a_clone a b v).
Proof.
  intros H. unfold a_clone. apply own_app; [apply own_drop; exact H|apply own_copies|].
  intros n m Hn Hm. apply in_remove_ids in Hn as (n0 & Hn0 & <-). destruct (copies_ids _ _ _ _ Hm) as [Hle _].
  pose proof (fresh_gt v n0 Hn0). lia.
Qed.

(* ---- every reachable family ---- *)
Theorem own_step v o : Own v -> Own (astep v o).
Proof. intros H. destruct o; cbn [astep]; [apply own_ins|apply own_del|apply own_clone|apply own_drop|]; exact H. Qed.

Theorem own_reachable (ops : list aop) : Own (fold_left astep ops []).
Proof.
  assert (G : forall v, Own v -> Own (fold_left astep ops v)).
  { induction ops as [|o ops IH]; intros v H; [exact H|]. cbn [fold_left]. apply IH, own_step, H. }
  apply G. intros n [].
Qed.

(* ---- delete hands the data back ---- *)
Lemma unwraps_last : forall pre done n,
  a_cnt n - (length (filter (N.eqb (a_id n)) done) + held (a_id n) pre) = 1 -> unwraps done (pre ++ [n]) = true.
Proof.
  induction pre as [|x pre IH]; intros done n H.
  - cbn [app unwraps]. unfold held in H. cbn [filter length] in H. rewrite Nat.add_0_r in H. rewrite H. reflexivity.
  - cbn [app unwraps]. apply orb_true_iff. right. apply IH. cbn [filter]. rewrite held_cons in H.
    rewrite (N.eqb_sym (a_id n) (a_id x)). destruct (N.eqb (a_id x) (a_id n)); cbn [length]; lia.
Qed.

Theorem delete_returns_data s t v :
  Own v -> (exists n, In n v /\ at_tmpl s t n = true) -> a_del_returns s t v = true.
Proof.
  intros H (n0 & Hn0 & Hat0). unfold a_del_returns.
  assert (Hne : filter (at_tmpl s t) v <> []).
  { intros E. assert (Hin : In n0 (filter (at_tmpl s t) v)) by (apply filter_In; auto). rewrite E in Hin. destruct Hin. }
  destruct (exists_last Hne) as (pre & n & Hsplit). rewrite Hsplit.
  assert (Hn : In n (filter (at_tmpl s t) v)) by (rewrite Hsplit; apply in_or_app; right; left; reflexivity).
  apply filter_In in Hn as [Hn Hat]. destruct (H n Hn) as [C _].
  apply unwraps_last. cbn [filter length].
  (* every holder of n's Arc is among the removed nodes *)
  assert (Hz : held (a_id n) (filter (fun m => negb (at_tmpl s t m)) v) = 0).
  { apply held_zero. intros m Hm E. apply filter_In in Hm as [Hm Hf]. rewrite (own_class_tmpl s t v H n m Hn Hm E), Hat in Hf. discriminate. }
  rewrite (held_split (at_tmpl s t) (a_id n) v), Hz, Hsplit, held_app in C. rewrite held_cons, N.eqb_refl in C.
  unfold held at 2 in C. cbn [filter length] in C. lia.
Qed.

Corollary reachable_delete_returns_data (ops : list aop) s t :
  (exists n, In n (fold_left astep ops []) /\ at_tmpl s t n = true) ->
  a_del_returns s t (fold_left astep ops []) = true.
Proof. apply delete_returns_data, own_reachable. Qed.

(* ---- no effect on the other routers ---- *)
Definition target (o : aop) : option N :=
  match o with AIns s _ _ | ADel s _ | ANew s => Some s | AClone _ b => Some b | ANop => None end.

Lemma filter_filter_comm {A} (f g : A -> bool) l : filter f (filter g l) = filter g (filter f l).
Proof. induction l as [|x l IH]; [reflexivity|]. cbn [filter]. destruct (g x) eqn:G, (f x) eqn:F; cbn [filter]; rewrite ?G, ?F, IH; reflexivity. Qed.

Lemma filter_none {A} (f : A -> bool) l : (forall x, In x l -> f x = false) -> filter f l = [].
Proof. induction l as [|x l IH]; intros H; [reflexivity|]. cbn [filter]. rewrite (H x (or_introl eq_refl)). apply IH. intros y Hy. apply H. right. exact Hy. Qed.

Lemma filter_all {A} (f : A -> bool) l : (forall x, In x l -> f x = true) -> filter f l = l.
Proof. induction l as [|x l IH]; intros H; [reflexivity|]. cbn [filter]. rewrite (H x (or_introl eq_refl)). f_equal. apply IH. intros y Hy. apply H. right. exact Hy. Qed.

Theorem step_frame v o s :
  Own v -> target o = Some s ->
  filter (fun n => negb (at_slot s n)) (astep v o) = filter (fun n => negb (at_slot s n)) v.
Proof.
  intros H Ht. destruct o as [s0 t k|s0 t|a b|s0|]; cbn [target] in Ht; inversion Ht; subst; cbn [astep].
  - unfold a_ins. rewrite filter_app. rewrite (filter_none _ (repeat _ _)); [apply app_nil_r|].
    intros x Hx. apply repeat_spec in Hx. subst x. unfold at_slot. cbn [a_slot]. rewrite N.eqb_refl. reflexivity.
  - unfold a_del. rewrite (remove_where_keeps _ v H (own_class_tmpl s t v H)). rewrite filter_filter_comm.
    apply filter_all. intros x Hx. apply filter_In in Hx as [_ Hx]. unfold at_tmpl. unfold at_slot in Hx.
    apply negb_true_iff in Hx. rewrite Hx. reflexivity.
  - unfold a_clone, a_drop. rewrite filter_app. rewrite (remove_where_keeps _ v H (own_class_slot s v H)).
    rewrite (filter_none _ (copies _ _ _)).
    + rewrite app_nil_r. apply filter_all. intros x Hx. apply filter_In in Hx as [_ Hx]. exact Hx.
    + intros x Hx. destruct (copies_ids _ _ _ _ Hx) as (_ & _ & Hs). unfold at_slot. rewrite Hs, N.eqb_refl. reflexivity.
  - unfold a_drop. rewrite (remove_where_keeps _ v H (own_class_slot s v H)).
    apply filter_all. intros x Hx. apply filter_In in Hx as [_ Hx]. exact Hx.
Qed.

(* ---- the derived Clone of the pinned commit breaks it ---- *)
Definition T_AB : bytes := [47; 97; 40; 47; 98; 41]%N.      (* "/a(/b)" *)
Theorem shared_clone_refuted :
  exists v, v = a_clone_shared 0 1 (a_ins 0 T_AB 2 []) /\ own_b v = false /\ a_del_returns 0 T_AB v = false.
Proof. eexists. split; [reflexivity|]. split; vm_compute; reflexivity. Qed.
Example fixed_clone_fine :
  let v := a_clone 0 1 (a_ins 0 T_AB 2 []) in
  own_b v = true /\ a_del_returns 0 T_AB v = true /\ a_del_returns 1 T_AB v = true
  /\ a_del_returns 1 T_AB (a_del 0 T_AB v) = true.
Proof. vm_compute. repeat split. Qed.
