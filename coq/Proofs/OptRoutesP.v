(* optimize does not change the routes of a tree. *)
From Coq Require Import Lia Permutation.
From WF Require Import Base.Bytes Base.Utf8 Spec.Route Spec.Walk Model.Tree Model.Ops Spec.Inv.
From WF Require Import Proofs.BytesP Proofs.WalkP Proofs.GroupsP Proofs.RefineP Proofs.InvP Proofs.OptimizeP
     Proofs.OpsLemmasP Proofs.InsertP Proofs.RoutesP.

Definition SameRoutes (n n' : node) : Prop := forall r i, In (r, i) (routes_of n') <-> In (r, i) (routes_of n).

Lemma optimize_st n : n_dirty n = true -> n_st (optimize n) = opt_list (n_st n).
Proof. intros H. rewrite optimize_eq, H. reflexivity. Qed.
Lemma optimize_kids n k : n_dirty n = true -> kids k (optimize n) = opt_list (kids k n).
Proof. intros H. rewrite optimize_eq, H. destruct k; reflexivity. Qed.

Lemma optimize_routes_step n :
  (forall kc, In kc (n_st n) -> SameRoutes (snd kc) (optimize (snd kc))) ->
  (forall k kc, In kc (kids k n) -> SameRoutes (snd kc) (optimize (snd kc))) ->
  SameRoutes n (optimize n).
Proof.
  intros IHst IHk r i. destruct (n_dirty n) eqn:Ed.
  2:{ rewrite optimize_eq, Ed. reflexivity. }
  rewrite !in_routes_of, optimize_data.
  split; intros [H|[H|H]].
  - left. exact H.
  - right. left. destruct H as (kc' & r' & Hkc' & -> & Hr). rewrite (optimize_st n Ed) in Hkc'.
    apply in_opt_list in Hkc' as (kc & Hkc & ->). cbn [fst snd] in *. exists kc, r'. repeat split; auto. apply (IHst kc Hkc). exact Hr.
  - right. right. destruct H as (k & kc' & r' & Hkc' & -> & Hr). rewrite (optimize_kids n k Ed) in Hkc'.
    apply in_opt_list in Hkc' as (kc & Hkc & ->). cbn [fst snd] in *. exists k, kc, r'. repeat split; auto.
    unfold kid_routes in *. destruct (is_end k); [rewrite optimize_data in Hr; exact Hr|apply (IHk k kc Hkc); exact Hr].
  - left. exact H.
  - right. left. destruct H as (kc & r' & Hkc & -> & Hr). exists (fst kc, optimize (snd kc)), r'. cbn [fst snd].
    repeat split; auto; [rewrite (optimize_st n Ed); apply in_opt_list; eauto|apply (IHst kc Hkc); exact Hr].
  - right. right. destruct H as (k & kc & r' & Hkc & -> & Hr). exists k, (fst kc, optimize (snd kc)), r'. cbn [fst snd].
    repeat split; auto; [rewrite (optimize_kids n k Ed); apply in_opt_list; eauto|].
    unfold kid_routes in *. destruct (is_end k); [rewrite optimize_data; exact Hr|apply (IHk k kc Hkc); exact Hr].
Qed.

Theorem optimize_routes : forall n, SameRoutes n (optimize n).
Proof.
  induction n using node_ind'. apply optimize_routes_step.
  - cbn [n_st]. intros kc Hkc. unfold AllP in *. rewrite Forall_forall in *. auto.
  - intros k kc Hkc. unfold AllP in *. rewrite Forall_forall in *.
    destruct k; cbn [kids n_dc n_dy n_wc n_wi n_ec n_en] in Hkc; auto.
Qed.
