(* Obligations over the tables regenerated from the Rust sources (coq/Gen/Tables.v).
   All are closed computations: if a source edit changes a table, the corresponding lemma
   stops checking. *)
From Coq Require Import Ascii String.
From WF Require Import Base.Bytes Spec.Walk Model.Parser Check.Tokens Gen.Tables.

Definition bytes_list_eqb (a b : list bytes) : bool :=
  (fix go (a b : list bytes) := match a, b with
     | [], [] => true | x :: a', y :: b' => beqb x y && go a' b' | _, _ => false end) a b.

(* C11: the characters a parameter or constraint name may not contain *)
Lemma invalid_chars_documented :
  gen_invalid_param_chars = Some INVALID_PARAM_CHARS.
Proof. vm_compute. reflexivity. Qed.

(* C13: seventeen built-ins, each NAME wired to the same-named type (ipv4/ipv6 to the address
   types), every body is `part.parse::<Self>().is_ok()`, and Router::new registers all of them *)
Definition builtin_expected : list (string * string) :=
  [("u8","u8"); ("u16","u16"); ("u32","u32"); ("u64","u64"); ("u128","u128"); ("usize","usize");
   ("i8","i8"); ("i16","i16"); ("i32","i32"); ("i64","i64"); ("i128","i128"); ("isize","isize");
   ("f32","f32"); ("f64","f64"); ("bool","bool"); ("Ipv4Addr","ipv4"); ("Ipv6Addr","ipv6")]%string.

Lemma builtin_table_ok :
  gen_builtin_impl_count = 17
  /\ forallb (fun x : bytes * bytes * bool => snd x) gen_builtin_impls = true
  /\ bytes_list_eqb (map (fun x : bytes * bytes * bool => fst (fst x)) gen_builtin_impls) (map (fun p => w (fst p)) builtin_expected) = true
  /\ bytes_list_eqb (map (fun x : bytes * bytes * bool => snd (fst x)) gen_builtin_impls) (map (fun p => w (snd p)) builtin_expected) = true
  /\ bytes_list_eqb gen_builtin_registered (map (fun p => w (fst p)) builtin_expected) = true.
Proof. vm_compute. repeat split; reflexivity. Qed.

(* C03: the order of attempts in Node::search is the documented one, dynamic kinds gated by the
   dynamic flag, wildcard kinds by the wildcard flag, the flag selecting the *_segment variant *)
Definition search_order_expected : list (string * string * string) :=
  [("", "search_static", "search_static");
   ("dynamic_children_shortcut", "search_dynamic_constrained_segment", "search_dynamic_constrained_inline");
   ("dynamic_children_shortcut", "search_dynamic_segment", "search_dynamic_inline");
   ("wildcard_children_shortcut", "search_wildcard_constrained_segment", "search_wildcard_constrained_inline");
   ("wildcard_children_shortcut", "search_wildcard_segment", "search_wildcard_inline");
   ("", "search_end_wildcard_constrained", "search_end_wildcard_constrained");
   ("", "search_end_wildcard", "search_end_wildcard")]%string.

Lemma search_order_documented :
  bytes_list_eqb (flat_map (fun x : bytes * bytes * bytes => [fst (fst x); snd (fst x); snd x]) gen_search_order)
                 (flat_map (fun x : string * string * string => [w (fst (fst x)); w (snd (fst x)); w (snd x)]) search_order_expected) = true.
Proof. vm_compute. reflexivity. Qed.

(* the model tries the kinds in the same order *)
Lemma model_kind_order : all_kinds = [KDC; KDY; KWC; KWI; KEC; KEN].
Proof. reflexivity. Qed.
