(* Optional-group expansion: the index-based scanner of the parser model (expand) enumerates exactly the
   expansions of the documented grammar (Spec/Grammar.v: gparse, expand_items), in the same order.
   Route: (1) expand = expandL, a list-level copy of the scanner; (2) expandL = the grammar. *)
From Coq Require Import Lia Arith PeanoNat ZArith.
From WF Require Import Base.Bytes Base.Utf8 Spec.Route Spec.Grammar Model.Parser.
From WF Require Import Proofs.BytesP Proofs.ParserPartsP Proofs.ParserSafeP Proofs.ExpandP Proofs.ParserSpecP.

(* ---- concatenation product of two lists of texts, first factor major ---- *)
Definition product (A B : list bytes) : list bytes := flat_map (fun a => map (fun b => a ++ b) B) A.

Lemma product_nil_l B : product [] B = [].  Proof. reflexivity. Qed.
Lemma product_cons a A B : product (a :: A) B = map (fun b => a ++ b) B ++ product A B.
Proof. reflexivity. Qed.
Lemma product_app A1 A2 B : product (A1 ++ A2) B = product A1 B ++ product A2 B.
Proof. unfold product. apply flat_map_app. Qed.
Lemma product_single_l p B : product [p] B = map (fun b => p ++ b) B.
Proof. unfold product. cbn. apply app_nil_r. Qed.
Lemma product_single_r A p : product A [p] = map (fun a => a ++ p) A.
Proof. unfold product. induction A as [|a A IH]; [reflexivity|]. cbn. f_equal; try exact IH. Qed.
Lemma product_unit_r A : product A [[]] = A.
Proof. rewrite product_single_r. induction A as [|a A IH]; [reflexivity|]. cbn [map]. rewrite app_nil_r, IH. reflexivity. Qed.

Lemma map_product p A B : map (fun x => p ++ x) (product A B) = product (map (fun a => p ++ a) A) B.
Proof.
  unfold product. induction A as [|a A IH]; [reflexivity|]. cbn [flat_map map]. rewrite map_app, IH. f_equal.
  rewrite map_map. apply map_ext. intros b. apply app_assoc.
Qed.

Lemma product_assoc A B C : product (product A B) C = product A (product B C).
Proof.
  induction A as [|a A IH]; [reflexivity|]. rewrite !product_cons, product_app, IH. f_equal.
  rewrite map_product. reflexivity.
Qed.

(* ---- the expansions of an item list ---- *)
Lemma expand_items_cons x its : expand_items (x :: its) = product (alts x) (expand_items its).
Proof. reflexivity. Qed.

Lemma alts_group g : alts (Group g) = expand_items g ++ [[]].
Proof.
  reflexivity.
Qed.

Lemma expand_items_push b its : expand_items (push_byte b its) = map (cons b) (expand_items its).
Proof.
  unfold push_byte. destruct its as [|[s|g] its'].
  - reflexivity.
  - rewrite !expand_items_cons. cbn [alts]. rewrite !product_single_l, map_map. apply map_ext. reflexivity.
  - rewrite (expand_items_cons (Chunk [b])). cbn [alts]. rewrite product_single_l. apply map_ext. reflexivity.
Qed.

(* ---- gparse: unfolding, rest is a suffix, fuel is irrelevant once large enough ---- *)
Lemma gparse_S f s :
  gparse (S f) s =
    match s with
    | [] => GOk [] false []
    | b :: s' =>
      if N.eqb b BSL then
        match s' with
        | x :: s'' =>
          match gparse f s'' with
          | GOk its cl rest => GOk (push_byte b (push_byte x its)) cl rest
          | GErr => GErr
          end
        | [] => GOk [Chunk [b]] false []
        end
      else if N.eqb b LP then
        match gparse f s' with
        | GOk g true rest =>
          match g with
          | [] => GErr
          | _ =>
            match gparse f rest with
            | GOk its cl rest' => GOk (Group g :: its) cl rest'
            | GErr => GErr
            end
          end
        | _ => GErr
        end
      else if N.eqb b RP then GOk [] true s'
      else
        match gparse f s' with
        | GOk its cl rest => GOk (push_byte b its) cl rest
        | GErr => GErr
        end
    end.
Proof. reflexivity. Qed.

Lemma gparse_rest_len : forall f s its cl rest, gparse f s = GOk its cl rest -> length rest <= length s.
Proof.
  induction f as [|f IH]; intros s its cl rest H; [discriminate|]. rewrite gparse_S in H.
  destruct s as [|b s']; [inversion H; cbn; lia|].
  destruct (N.eqb b BSL).
  { destruct s' as [|x s'']; [inversion H; cbn; lia|].
    destruct (gparse f s'') as [its0 cl0 rest0|] eqn:E; [|discriminate]. inversion H; subst.
    apply IH in E. cbn [length]. lia. }
  destruct (N.eqb b LP).
  { destruct (gparse f s') as [g [|] rest0|] eqn:E; try discriminate.
    destruct g as [|g0 g']; [discriminate|].
    destruct (gparse f rest0) as [its0 cl0 rest1|] eqn:E1; [|discriminate]. inversion H; subst.
    apply IH in E. apply IH in E1. cbn [length]. lia. }
  destruct (N.eqb b RP); [inversion H; subst; cbn [length]; lia|].
  destruct (gparse f s') as [its0 cl0 rest0|] eqn:E; [|discriminate]. inversion H; subst.
  apply IH in E. cbn [length]. lia.
Qed.

Lemma gparse_fuel : forall f1 f2 s, length s < f1 -> length s < f2 -> gparse f1 s = gparse f2 s.
Proof.
  induction f1 as [|f1 IH]; intros f2 s H1 H2; [lia|]. destruct f2 as [|f2]; [lia|].
  rewrite !gparse_S. destruct s as [|b s']; [reflexivity|]. cbn [length] in H1, H2.
  destruct (N.eqb b BSL).
  { destruct s' as [|x s'']; [reflexivity|]. cbn [length] in H1, H2. rewrite (IH f2 s'') by lia. reflexivity. }
  destruct (N.eqb b LP).
  { rewrite (IH f2 s') by lia. destruct (gparse f2 s') as [g [|] rest0|] eqn:E; try reflexivity.
    destruct g as [|g0 g']; [reflexivity|]. apply gparse_rest_len in E. rewrite (IH f2 rest0) by lia. reflexivity. }
  destruct (N.eqb b RP); [reflexivity|]. rewrite (IH f2 s') by lia. reflexivity.
Qed.

(* the canonical call *)
Definition G (s : bytes) : gres := gparse (S (length s)) s.

Lemma G_of f s : length s < f -> gparse f s = G s.
Proof. intros H. apply gparse_fuel; [exact H|lia]. Qed.

Lemma G_nil : G [] = GOk [] false [].  Proof. reflexivity. Qed.

Lemma G_cons b s' :
  G (b :: s') =
    if N.eqb b BSL then
      match s' with
      | x :: s'' =>
        match G s'' with
        | GOk its cl rest => GOk (push_byte b (push_byte x its)) cl rest
        | GErr => GErr
        end
      | [] => GOk [Chunk [b]] false []
      end
    else if N.eqb b LP then
      match G s' with
      | GOk g true rest =>
        match g with
        | [] => GErr
        | _ =>
          match G rest with
          | GOk its cl rest' => GOk (Group g :: its) cl rest'
          | GErr => GErr
          end
        end
      | _ => GErr
      end
    else if N.eqb b RP then GOk [] true s'
    else
      match G s' with
      | GOk its cl rest => GOk (push_byte b its) cl rest
      | GErr => GErr
      end.
Proof.
  unfold G at 1. rewrite gparse_S. cbn [length].
  destruct (N.eqb b BSL).
  { destruct s' as [|x s'']; [reflexivity|]. cbn [length]. rewrite (G_of _ s'') by lia. reflexivity. }
  destruct (N.eqb b LP).
  { rewrite (G_of _ s') by lia. destruct (G s') as [g [|] rest0|] eqn:E; try reflexivity.
    destruct g as [|g0 g']; [reflexivity|].
    unfold G in E. apply gparse_rest_len in E. rewrite (G_of _ rest0) by lia. reflexivity. }
  destruct (N.eqb b RP); [reflexivity|]. rewrite (G_of _ s') by lia. reflexivity.
Qed.

Lemma expansions_spec_G t :
  expansions_spec t = match G t with
                      | GOk its false [] => Some (map (fun e => match e with [] => [SL] | _ => e end) (expand_items its))
                      | _ => None end.
Proof. reflexivity. Qed.

(* ---- the scanner over lists ---- *)
Definition comb (result opts : list bytes) : list bytes :=
  flat_map (fun t => map (fun o => t ++ o) opts ++ [t]) result.

Lemma comb_product result opts : comb result opts = product result (opts ++ [[]]).
Proof.
  unfold comb, product. apply flat_map_ext. intros t. rewrite map_app. cbn [map]. rewrite app_nil_r. reflexivity.
Qed.

Definition finish (depth : nat) (acc : bytes) (result : list bytes) : option (list bytes) :=
  match depth with O => Some (map (fun t => t ++ acc) result) | S _ => None end.

Fixpoint scanL (rec : bytes -> option (list bytes)) (s acc : bytes) (depth : nat) (result : list bytes) {struct s}
  : option (list bytes) :=
  match s with
  | [] => finish depth acc result
  | c :: s' =>
    if N.eqb c BSL then
      match s' with
      | x :: s'' => scanL rec s'' (acc ++ [c; x]) depth result
      | [] => finish depth (acc ++ [c]) result
      end
    else if N.eqb c LP then
      match depth with
      | O => scanL rec s' [] 1 (map (fun t => t ++ acc) result)
      | S _ => scanL rec s' (acc ++ [c]) (S depth) result
      end
    else if N.eqb c RP then
      match depth with
      | O => None
      | S O =>
        match acc with
        | [] => None
        | _ => match rec acc with
               | Some opts => scanL rec s' [] 0 (comb result opts)
               | None => None
               end
        end
      | S d => scanL rec s' (acc ++ [c]) d result
      end
    else scanL rec s' (acc ++ [c]) depth result
  end.

Fixpoint expandL (fuel : nat) (s : bytes) : option (list bytes) :=
  match fuel with
  | O => None
  | S f => scanL (expandL f) s [] 0 [[]]
  end.

(* the text of a group: given the text after its '(' (at nesting depth d >= 1), the inner text and what follows ')' *)
Fixpoint split_close (s : bytes) (d : nat) {struct s} : option (bytes * bytes) :=
  match s with
  | [] => None
  | c :: s' =>
    let pre (p : bytes) (r : option (bytes * bytes)) := option_map (fun xr : bytes * bytes => (p ++ fst xr, snd xr)) r in
    if N.eqb c BSL then
      match s' with
      | x :: s'' => pre [c; x] (split_close s'' d)
      | [] => None
      end
    else if N.eqb c LP then pre [c] (split_close s' (S d))
    else if N.eqb c RP then
      match d with
      | O => None
      | S O => Some ([], s')
      | S d' => pre [c] (split_close s' d')
      end
    else pre [c] (split_close s' d)
  end.

Lemma split_close_len : forall s d x rest, split_close s d = Some (x, rest) -> length x + S (length rest) = length s.
Proof.
  assert (Hpre : forall p (r : option (bytes * bytes)) x rest,
            option_map (fun xr : bytes * bytes => (p ++ fst xr, snd xr)) r = Some (x, rest) ->
            exists x0, r = Some (x0, rest) /\ x = p ++ x0).
  { intros p [[x0 r0]|] x rest H; [|discriminate]. cbn in H. inversion H; subst. eauto. }
  fix IH 1. intros s d x rest H. destruct s as [|c s']; [discriminate|]. cbn [split_close] in H.
  destruct (N.eqb c BSL).
  { destruct s' as [|y s'']; [discriminate|]. apply Hpre in H as (x0 & H & ->). apply IH in H. cbn [length app]. cbn [length] in H. lia. }
  destruct (N.eqb c LP).
  { apply Hpre in H as (x0 & H & ->). apply IH in H. cbn [length app]. lia. }
  destruct (N.eqb c RP).
  { destruct d as [|[|d']]; [discriminate|inversion H; subst; cbn; lia|].
    apply Hpre in H as (x0 & H & ->). apply IH in H. cbn [length app]. lia. }
  apply Hpre in H as (x0 & H & ->). apply IH in H. cbn [length app]. lia.
Qed.

Definition after_group (rec : bytes -> option (list bytes)) (k : bytes -> list bytes -> option (list bytes))
           (acc : bytes) (result : list bytes) (r : option (bytes * bytes)) : option (list bytes) :=
  match r with
  | None => None
  | Some (x, rest) =>
    match acc ++ x with
    | [] => None
    | inner => match rec inner with
               | Some opts => k rest (comb result opts)
               | None => None
               end
    end
  end.

Lemma after_group_pre rec k acc result p r :
  after_group rec k acc result (option_map (fun xr : bytes * bytes => (p ++ fst xr, snd xr)) r)
  = after_group rec k (acc ++ p) result r.
Proof. destruct r as [[x rest]|]; [|reflexivity]. cbn [option_map after_group fst snd]. rewrite app_assoc. reflexivity. Qed.

Lemma scanL_depth rec : forall s acc d result, 1 <= d ->
  scanL rec s acc d result = after_group rec (fun rest res => scanL rec rest [] 0 res) acc result (split_close s d).
Proof.
  fix IH 1. intros s acc d result Hd. destruct s as [|c s']; [destruct d; [lia|reflexivity]|].
  cbn [scanL split_close].
  destruct (N.eqb c BSL).
  { destruct s' as [|y s'']; [destruct d; [lia|reflexivity]|]. rewrite after_group_pre. apply IH. exact Hd. }
  destruct (N.eqb c LP).
  { destruct d as [|d']; [lia|]. rewrite after_group_pre. apply IH. lia. }
  destruct (N.eqb c RP).
  { destruct d as [|[|d']]; [lia| |].
    - cbn [after_group]. rewrite app_nil_r. destruct acc; reflexivity.
    - rewrite after_group_pre. apply IH. lia. }
  rewrite after_group_pre. apply IH. exact Hd.
Qed.

(* ---- nesting depth after scanning a text (escape pairs skipped); None when a ')' would close depth 1,
        or the text ends in a dangling backslash ---- *)
Fixpoint depth_after (x : bytes) (d : nat) {struct x} : option nat :=
  match x with
  | [] => Some d
  | c :: x' =>
    if N.eqb c BSL then
      match x' with
      | _ :: x'' => depth_after x'' d
      | [] => None
      end
    else if N.eqb c LP then depth_after x' (S d)
    else if N.eqb c RP then
      match d with
      | O | S O => None
      | S d' => depth_after x' d'
      end
    else depth_after x' d
  end.

Lemma da_app : forall a b d d1, depth_after a d = Some d1 -> depth_after (a ++ b) d = depth_after b d1.
Proof.
  fix IH 1. intros a b d d1 H. destruct a as [|c a']; [inversion H; reflexivity|]. cbn [depth_after app] in *.
  destruct (N.eqb c BSL).
  { destruct a' as [|y a'']; [discriminate|]. cbn [app]. apply IH. exact H. }
  destruct (N.eqb c LP); [apply IH; exact H|].
  destruct (N.eqb c RP); [destruct d as [|[|d']]; try discriminate; apply IH; exact H|].
  apply IH. exact H.
Qed.

Lemma da_shift : forall x d e k, depth_after x d = Some e -> depth_after x (d + k) = Some (e + k).
Proof.
  fix IH 1. intros x d e k H. destruct x as [|c x']; [inversion H; reflexivity|]. cbn [depth_after] in *.
  destruct (N.eqb c BSL).
  { destruct x' as [|y x'']; [discriminate|]. apply IH. exact H. }
  destruct (N.eqb c LP); [apply (IH x' (S d) e k); exact H|].
  destruct (N.eqb c RP).
  { destruct d as [|[|d']]; try discriminate. cbn [Nat.add]. apply (IH x' (S d') e k). exact H. }
  apply IH. exact H.
Qed.

Lemma da_ge1 : forall x d e, depth_after x d = Some e -> 1 <= d -> 1 <= e.
Proof.
  fix IH 1. intros x d e H Hd. destruct x as [|c x']; [inversion H; subst; exact Hd|]. cbn [depth_after] in H.
  destruct (N.eqb c BSL).
  { destruct x' as [|y x'']; [discriminate|]. apply (IH x'' d e H Hd). }
  destruct (N.eqb c LP); [apply (IH x' (S d) e H); lia|].
  destruct (N.eqb c RP); [destruct d as [|[|d']]; try discriminate; apply (IH x' (S d') e H); lia|].
  apply (IH x' d e H Hd).
Qed.

(* split_close in terms of depth_after *)
Lemma split_close_of_da : forall x d rest, depth_after x d = Some 1 -> split_close (x ++ RP :: rest) d = Some (x, rest).
Proof.
  fix IH 1. intros x d rest H. destruct x as [|c x'].
  - inversion H; subst. reflexivity.
  - cbn [depth_after] in H. cbn [app split_close].
    destruct (N.eqb c BSL).
    { destruct x' as [|y x'']; [discriminate|]. cbn [app]. rewrite (IH x'' d rest H). reflexivity. }
    destruct (N.eqb c LP); [rewrite (IH x' (S d) rest H); reflexivity|].
    destruct (N.eqb c RP).
    { destruct d as [|[|d']]; try discriminate. rewrite (IH x' (S d') rest H). reflexivity. }
    rewrite (IH x' d rest H). reflexivity.
Qed.

Lemma da_of_split_close : forall s d x rest, 1 <= d -> split_close s d = Some (x, rest) ->
  s = x ++ RP :: rest /\ depth_after x d = Some 1.
Proof.
  assert (Hpre : forall p (r : option (bytes * bytes)) x rest,
            option_map (fun xr : bytes * bytes => (p ++ fst xr, snd xr)) r = Some (x, rest) ->
            exists x0, r = Some (x0, rest) /\ x = p ++ x0).
  { intros p [[x0 r0]|] x rest H; [|discriminate]. cbn in H. inversion H; subst. eauto. }
  fix IH 1. intros s d x rest Hd H. destruct s as [|c s']; [discriminate|]. cbn [split_close] in H.
  destruct (N.eqb c BSL) eqn:EB.
  { destruct s' as [|y s'']; [discriminate|]. apply Hpre in H as (x0 & H & ->). apply (IH _ _ _ _ Hd) in H as [-> H].
    split; [reflexivity|]. cbn [app depth_after]. rewrite EB. exact H. }
  destruct (N.eqb c LP) eqn:EL.
  { apply Hpre in H as (x0 & H & ->). apply IH in H as [-> H]; [|lia]. split; [reflexivity|].
    cbn [app depth_after]. rewrite EB, EL. exact H. }
  destruct (N.eqb c RP) eqn:ER.
  { apply N.eqb_eq in ER. subst c. destruct d as [|[|d']]; [lia| |].
    - inversion H; subst. split; reflexivity.
    - apply Hpre in H as (x0 & H & ->). apply IH in H as [-> H]; [|lia]. split; [reflexivity|].
      cbn [app depth_after]. change (N.eqb RP BSL) with false. change (N.eqb RP LP) with false. change (N.eqb RP RP) with true.
      cbv iota. exact H. }
  apply Hpre in H as (x0 & H & ->). apply (IH _ _ _ _ Hd) in H as [-> H]. split; [reflexivity|].
  cbn [app depth_after]. rewrite EB, EL, ER. exact H.
Qed.

(* a text that brings depth d+1 down to e <= d contains the ')' that first closes the level *)
Lemma da_split : forall n x d e, length x <= n -> depth_after x (S d) = Some e -> 1 <= d -> e <= d ->
  exists y1 y2, x = y1 ++ RP :: y2 /\ depth_after y1 1 = Some 1 /\ depth_after y2 d = Some e.
Proof.
  induction n as [|n IH]; intros x d e Hlen H Hd He.
  - destruct x; [|cbn in Hlen; lia]. inversion H. lia.
  - destruct x as [|c x']; [inversion H; lia|]. cbn [length] in Hlen. cbn [depth_after] in H.
    destruct (N.eqb c BSL) eqn:EB.
    { destruct x' as [|y x'']; [discriminate|]. cbn [length] in Hlen.
      destruct (IH x'' d e) as (y1 & y2 & -> & H1 & H2); [lia|exact H|exact Hd|exact He|].
      exists (c :: y :: y1), y2. split; [reflexivity|]. split; [|exact H2]. cbn [depth_after]. rewrite EB. exact H1. }
    destruct (N.eqb c LP) eqn:EL.
    { destruct (IH x' (S d) e) as (z1 & z2 & -> & H1 & H2); [lia|exact H|lia|lia|].
      assert (Hz2 : length z2 <= n) by (rewrite app_length in Hlen; cbn [length] in Hlen; lia).
      destruct (IH z2 d e Hz2 H2 Hd He) as (w1 & w2 & -> & H3 & H4).
      exists (c :: z1 ++ RP :: w1), w2. split; [cbn [app]; rewrite <- app_assoc; reflexivity|]. split; [|exact H4].
      cbn [depth_after]. rewrite EB, EL.
      rewrite (da_app z1 (RP :: w1) 2 2) by (apply (da_shift z1 1 1 1 H1)).
      cbn [depth_after]. change (N.eqb RP BSL) with false. change (N.eqb RP LP) with false. change (N.eqb RP RP) with true.
      cbv iota. exact H3. }
    destruct (N.eqb c RP) eqn:ER.
    { apply N.eqb_eq in ER. subst c. destruct d as [|d']; [lia|].
      exists [], x'. split; [reflexivity|]. split; [reflexivity|exact H]. }
    destruct (IH x' d e) as (y1 & y2 & -> & H1 & H2); [lia|exact H|exact Hd|exact He|].
    exists (c :: y1), y2. split; [reflexivity|]. split; [|exact H2]. cbn [depth_after]. rewrite EB, EL, ER. exact H1.
Qed.

(* ---- the grammar on a balanced prefix followed by ')' ---- *)
Lemma G_balanced : forall n x rest, length x <= n -> depth_after x 1 = Some 1 ->
  (G x = GErr /\ G (x ++ RP :: rest) = GErr)
  \/ (exists g, G x = GOk g false [] /\ G (x ++ RP :: rest) = GOk g true rest).
Proof.
  induction n as [|n IH]; intros x rest Hlen Hda.
  - destruct x; [|cbn in Hlen; lia]. right. exists []. split; reflexivity.
  - destruct x as [|c x']; [right; exists []; split; reflexivity|].
    cbn [length] in Hlen. cbn [depth_after] in Hda. cbn [app]. rewrite !G_cons.
    destruct (N.eqb c BSL) eqn:EB.
    { destruct x' as [|y x'']; [discriminate|]. cbn [length] in Hlen. cbn [app].
      destruct (IH x'' rest) as [[E1 E2]|(g & E1 & E2)]; [lia|exact Hda| |]; rewrite E1, E2; [left; auto|right; eauto]. }
    destruct (N.eqb c LP) eqn:EL.
    { destruct (da_split (length x') x' 1 1) as (y1 & y2 & -> & H1 & H2); [lia|exact Hda|lia|lia|].
      assert (L1 : length y1 <= n) by (rewrite app_length in Hlen; cbn [length] in Hlen; lia).
      assert (L2 : length y2 <= n) by (rewrite app_length in Hlen; cbn [length] in Hlen; lia).
      rewrite <- app_assoc. cbn [app].
      destruct (IH y1 y2 L1 H1) as [[A1 A2]|(g1 & A1 & A2)];
        destruct (IH y1 (y2 ++ RP :: rest) L1 H1) as [[B1 B2]|(g1' & B1 & B2)]; try congruence.
      - rewrite A2, B2. left; auto.
      - rewrite B1 in A1. inversion A1; subst g1'. rewrite A2, B2.
        destruct g1 as [|i1 g1']; [left; auto|].
        destruct (IH y2 rest L2 H2) as [[C1 C2]|(its & C1 & C2)]; rewrite C1, C2; [left; auto|right; eauto]. }
    destruct (N.eqb c RP) eqn:ER; [discriminate|].
    destruct (IH x' rest) as [[E1 E2]|(g & E1 & E2)]; [lia|exact Hda| |]; rewrite E1, E2; [left; auto|right; eauto].
Qed.

(* a group that is never closed: the grammar does not report a closed group *)
Lemma G_unclosed : forall n s, length s <= n -> split_close s 1 = None -> forall g rest, G s <> GOk g true rest.
Proof.
  induction n as [|n IH]; intros s Hlen Hsc g rest.
  - destruct s; [discriminate|cbn in Hlen; lia].
  - destruct s as [|c s']; [discriminate|]. cbn [length] in Hlen. rewrite G_cons. cbn [split_close] in Hsc.
    destruct (N.eqb c BSL).
    { destruct s' as [|y s'']; [discriminate|]. cbn [length] in Hlen.
      destruct (split_close s'' 1) as [[x0 r0]|] eqn:E; [discriminate|].
      destruct (G s'') as [its cl r|] eqn:EG; [|discriminate]. intros H. inversion H; subst. apply (IH s'' ltac:(lia) E its rest). exact EG. }
    destruct (N.eqb c LP).
    { destruct (G s') as [g1 [|] r1|] eqn:EG; try discriminate.
      destruct g1 as [|i1 g1']; [discriminate|].
      (* the inner group closes at r1: s' = y1 ++ RP :: r1 *)
      destruct (split_close s' 1) as [[y1 t2]|] eqn:E1; [|exfalso; apply (IH s' ltac:(lia) E1 (i1 :: g1') r1); exact EG].
      apply da_of_split_close in E1 as [-> D1]; [|lia].
      destruct (G_balanced (length y1) y1 t2 (le_n _) D1) as [[_ A2]|(g' & _ & A2)]; rewrite A2 in EG; [discriminate|].
      inversion EG; subst g' r1.
      (* depth 2 split of s' = depth 1 split of y1, then depth 1 split of t2 *)
      assert (Ht2 : split_close t2 1 = None).
      { destruct (split_close t2 1) as [[y2 t3]|] eqn:E2; [|reflexivity]. exfalso.
        apply da_of_split_close in E2 as [-> D2]; [|lia].
        assert (D : depth_after (y1 ++ RP :: y2) 2 = Some 1).
        { rewrite (da_app y1 (RP :: y2) 2 2) by (apply (da_shift y1 1 1 1 D1)). exact D2. }
        pose proof (split_close_of_da _ 2 t3 D) as Hd2. rewrite <- app_assoc in Hd2. cbn [app] in Hd2.
        rewrite Hd2 in Hsc. discriminate. }
      destruct (G t2) as [its cl r2|] eqn:EG2; [|discriminate]. intros H. inversion H; subst.
      rewrite app_length in Hlen. cbn [length] in Hlen. apply (IH t2 ltac:(lia) Ht2 its rest). exact EG2. }
    destruct (N.eqb c RP); [destruct s'; discriminate|].
    destruct (split_close s' 1) as [[x0 r0]|] eqn:E; [discriminate|].
    destruct (G s') as [its cl r|] eqn:EG; [|discriminate]. intros H. inversion H; subst. apply (IH s' ltac:(lia) E its rest). exact EG.
Qed.

Lemma push_byte_nonnil b its : push_byte b its <> [].
Proof. unfold push_byte. destruct its as [|[s|g] its']; discriminate. Qed.

Lemma G_items_nil x rest : G x = GOk [] false rest -> x = [].
Proof.
  destruct x as [|c x']; [reflexivity|]. rewrite G_cons.
  destruct (N.eqb c BSL).
  { destruct x' as [|y x'']; [discriminate|]. destruct (G x'') as [its cl r|]; [|discriminate].
    intros H. inversion H. exfalso. eapply push_byte_nonnil; eassumption. }
  destruct (N.eqb c LP).
  { destruct (G x') as [g [|] r|]; try discriminate. destruct g; [discriminate|]. destruct (G r); discriminate. }
  destruct (N.eqb c RP); [discriminate|].
  destruct (G x') as [its cl r|]; [|discriminate]. intros H. inversion H. exfalso. eapply push_byte_nonnil; eassumption.
Qed.

Definition denote (r : gres) : option (list bytes) :=
  match r with GOk its false [] => Some (expand_items its) | _ => None end.

Definition denote_with (result : list bytes) (acc : bytes) (r : gres) : option (list bytes) :=
  match r with
  | GOk its false [] => Some (product result (map (fun e => acc ++ e) (expand_items its)))
  | _ => None
  end.

Lemma map_app_nil_l (E : list bytes) : map (fun e : bytes => [] ++ e) E = E.
Proof. induction E as [|e E IH]; [reflexivity|]. cbn [map app]. f_equal. exact IH. Qed.

(* the depth-0 run of the list scanner computes the grammar's expansions *)
Lemma scanL_top rec (bound : nat)
  (Hrec : forall x, length x < bound -> rec x = denote (G x)) :
  forall m t acc result, length t <= m -> length t <= bound ->
    scanL rec t acc 0 result = denote_with result acc (G t).
Proof.
  induction m as [|m IH]; intros t acc result Hm Hb.
  - destruct t; [|cbn in Hm; lia]. cbn [scanL finish G denote_with]. rewrite G_nil. cbn [denote_with expand_items map].
    rewrite product_single_r. f_equal. apply map_ext. intros a. rewrite app_nil_r. reflexivity.
  - destruct t as [|c t'].
    { rewrite G_nil. cbn [scanL finish denote_with expand_items map].
      rewrite product_single_r. f_equal. apply map_ext. intros a. rewrite app_nil_r. reflexivity. }
    cbn [length] in Hm, Hb. cbn [scanL]. rewrite G_cons.
    destruct (N.eqb c BSL) eqn:EB.
    { destruct t' as [|y t''].
      - cbn [finish denote_with]. change (expand_items [Chunk [c]]) with [[c] ++ []]. cbn [map].
        rewrite product_single_r. reflexivity.
      - cbn [length] in Hm, Hb. rewrite (IH t'' (acc ++ [c; y]) result) by lia.
        destruct (G t'') as [its [|] rest|]; try reflexivity. destruct rest; [|reflexivity].
        cbn [denote_with]. rewrite !expand_items_push, !map_map. f_equal. f_equal. apply map_ext. intros e.
        rewrite <- app_assoc. reflexivity. }
    destruct (N.eqb c LP) eqn:EL.
    { rewrite scanL_depth by lia.
      destruct (split_close t' 1) as [[x rest]|] eqn:Es.
      2:{ cbn [after_group]. pose proof (G_unclosed (length t') t' (le_n _) Es) as Hu.
          destruct (G t') as [g [|] r|]; try reflexivity. exfalso. apply (Hu g r). reflexivity. }
      apply da_of_split_close in Es as [-> Dx]; [|lia]. cbn [after_group app].
      destruct x as [|x0 x'].
      { (* "()" *) cbn [app]. rewrite (G_cons RP rest). reflexivity. }
      remember (x0 :: x') as x eqn:Ex.
      assert (Hxl : length x < bound) by (rewrite app_length in Hb; cbn [length] in Hb; lia).
      replace (match x with [] => None | _ :: _ => match rec x with Some opts => scanL rec rest [] 0 (comb (map (fun t0 : list byte => t0 ++ acc) result) opts) | None => None end end)
        with (match rec x with Some opts => scanL rec rest [] 0 (comb (map (fun t0 : list byte => t0 ++ acc) result) opts) | None => None end)
        by (rewrite Ex; reflexivity).
      rewrite (Hrec x Hxl).
      destruct (G_balanced (length x) x rest (le_n _) Dx) as [[A1 A2]|(g & A1 & A2)]; rewrite A1, A2; [reflexivity|].
      cbn [denote].
      destruct g as [|i0 g']; [apply G_items_nil in A1; rewrite Ex in A1; discriminate|].
      remember (i0 :: g') as g eqn:Eg.
      rewrite app_length in Hm, Hb. cbn [length] in Hm, Hb.
      rewrite (IH rest [] _) by lia.
      replace (match g with [] => GErr | _ :: _ => match G rest with GOk its cl rest' => GOk (Group g :: its) cl rest' | GErr => GErr end end)
        with (match G rest with GOk its cl rest' => GOk (Group g :: its) cl rest' | GErr => GErr end) by (rewrite Eg; reflexivity).
      destruct (G rest) as [its [|] r|]; try reflexivity. destruct r; [|reflexivity].
      cbn [denote_with]. f_equal.
      rewrite map_app_nil_l, comb_product, (expand_items_cons (Group g) its), alts_group.
      rewrite <- (product_single_r result acc), <- (product_single_l acc).
      rewrite !product_assoc. reflexivity. }
    destruct (N.eqb c RP) eqn:ER; [reflexivity|].
    rewrite (IH t' (acc ++ [c]) result) by lia.
    destruct (G t') as [its [|] rest|]; try reflexivity. destruct rest; [|reflexivity].
    cbn [denote_with]. rewrite expand_items_push, map_map. f_equal. f_equal. apply map_ext. intros e.
    rewrite <- app_assoc. reflexivity.
Qed.

Theorem expandL_spec : forall n s f, length s <= n -> length s < f -> expandL f s = denote (G s).
Proof.
  induction n as [|n IH]; intros s f Hn Hf.
  - destruct s; [|cbn in Hn; lia]. destruct f; [lia|]. reflexivity.
  - destruct f as [|f]; [lia|]. cbn [expandL].
    rewrite (scanL_top (expandL f) (length s)) with (m := length s); [| |lia|lia].
    + unfold denote_with, denote. destruct (G s) as [its [|] rest|]; try reflexivity. destruct rest; [|reflexivity].
      f_equal. rewrite map_app_nil_l. unfold product. cbn [flat_map]. rewrite app_nil_r. apply map_app_nil_l.
    + intros x Hx. apply (IH x f); lia.
Qed.

(* ======== (1) the index-based scanner is the list scanner ======== *)
Section Impl.
  Variable input : bytes.
  Definition seg (a b : nat) : bytes := firstn (b - a) (skipn a input).

  Lemma seg_nil a : seg a a = [].
  Proof. unfold seg. rewrite Nat.sub_diag. reflexivity. Qed.

  Lemma seg_len a b : a <= b -> b <= length input -> length (seg a b) = b - a.
  Proof. intros H1 H2. unfold seg. rewrite firstn_length, skipn_length. lia. Qed.

  Lemma seg_cons a b c : a < b -> nth_error input a = Some c -> seg a b = c :: seg (S a) b.
  Proof.
    intros Hab Hn. unfold seg. rewrite (skipn_nth_cons input a c Hn).
    replace (b - a) with (S (b - S a)) by lia. reflexivity.
  Qed.

  Lemma seg_snoc a b c : a <= b -> nth_error input b = Some c -> seg a (S b) = seg a b ++ [c].
  Proof.
    intros Hab Hn. unfold seg. assert (Hlt : b < length input) by (apply nth_error_Some; congruence).
    replace (S b - a) with ((b - a) + 1) by lia.
    rewrite <- (firstn_skipn (b - a) (skipn a input)) at 1.
    rewrite firstn_app. rewrite firstn_length, skipn_length.
    replace (Nat.min (b - a) (length input - a)) with (b - a) by lia.
    replace (b - a + 1 - (b - a)) with 1 by lia.
    rewrite firstn_firstn. replace (Nat.min (b - a + 1) (b - a)) with (b - a) by lia. f_equal.
    rewrite skipn_skipn'. replace (a + (b - a)) with b by lia. rewrite (skipn_nth_cons input b c Hn). reflexivity.
  Qed.

  Lemma slice_seg a b site : a <= b -> b <= length input -> slice input a b site = Ret (seg a b).
  Proof. intros. apply slice_val. lia. Qed.

  Lemma map_app_nil_r (l : list bytes) : map (fun t : bytes => t ++ []) l = l.
  Proof. induction l as [|x l IH]; [reflexivity|]. cbn [map]. rewrite app_nil_r, IH. reflexivity. Qed.

  Variables (start en : nat).
  Hypothesis Hse : start <= en.
  Hypothesis Hen : en <= length input.
  Variables (rec : nat -> nat -> out (list bytes)) (recL : bytes -> option (list bytes)).
  Hypothesis Hrec : forall g c, g <= c -> c <= length input -> to_opt (rec g c) = recL (seg g c).

  Lemma to_opt_bind {A B} (m : out A) (f : A -> out B) :
    to_opt (bind m f) = match to_opt m with Some a => to_opt (f a) | None => None end.
  Proof. destruct m; reflexivity. Qed.

  Lemma scan_is_scanL : forall steps cursor group depth result,
    start <= group -> group <= cursor -> cursor <= en -> (0 <= depth)%Z ->
    length input - cursor < steps ->
    to_opt (scan_f rec input start en steps cursor group depth result)
    = scanL recL (seg cursor en) (seg group cursor) (Z.to_nat depth) result.
  Proof.
    induction steps as [|steps IH]; intros cursor group depth result Hsg Hgc Hce Hd Hst; [lia|].
    rewrite scan_f_S. destruct (Nat.ltb cursor en) eqn:El.
    - apply Nat.ltb_lt in El.
      destruct (nth_error input cursor) as [c|] eqn:En; [|apply nth_error_None in En; lia].
      rewrite (idx_nth input cursor 1 c En). cbn [bind]. rewrite (seg_cons cursor en c El En). cbn [scanL].
      pose proof (seg_snoc group cursor c Hgc En) as Hsn.
      destruct (N.eqb c BSL) eqn:EB.
      + destruct (nth_error input (S cursor)) as [y|] eqn:En1; cbn [andb].
        * assert (Hlt1 : S cursor < length input) by (apply nth_error_Some; congruence).
          destruct (Nat.ltb (S cursor) en) eqn:El1.
          -- apply Nat.ltb_lt in El1. rewrite (seg_cons (S cursor) en y El1 En1).
             replace (cursor + 2) with (S (S cursor)) by lia.
             rewrite (IH (S (S cursor)) group depth result) by lia.
             rewrite (seg_snoc group (S cursor) y ltac:(lia) En1), Hsn, <- app_assoc. reflexivity.
          -- apply Nat.ltb_ge in El1. assert (S cursor = en) by lia. subst en.
             rewrite seg_nil. destruct steps as [|steps']; [lia|]. rewrite scan_f_S.
             replace (Nat.ltb (cursor + 2) (S cursor)) with false by (symmetry; apply Nat.ltb_ge; lia).
             rewrite <- Hsn. unfold finish.
             destruct (Z.eqb depth 0) eqn:Ed; cbn [negb].
             ++ apply Z.eqb_eq in Ed. subst depth. cbn [Z.to_nat].
                replace (Nat.ltb group (S cursor)) with true by (symmetry; apply Nat.ltb_lt; lia).
                rewrite (slice_seg group (S cursor) 5) by lia. reflexivity.
             ++ apply Z.eqb_neq in Ed. destruct (Z.to_nat depth) eqn:Ez; [lia|].
                destruct (subn (start + group) 1 4); reflexivity.
        * (* a backslash with nothing after it in the whole input: an ordinary byte *)
          change (N.eqb c LP) with (N.eqb c LP). assert (Hc : c = BSL) by (apply N.eqb_eq; exact EB). subst c.
          change (N.eqb BSL LP) with false. change (N.eqb BSL RP) with false. cbv iota.
          assert (Hl : S cursor = length input) by (apply nth_error_None in En1; lia).
          assert (S cursor = en) by lia. subst en. rewrite seg_nil.
          rewrite (IH (S cursor) group depth result) by lia. rewrite seg_nil, Hsn. reflexivity.
      + cbn [andb]. destruct (N.eqb c LP) eqn:ELP.
        * destruct (Z.eqb depth 0) eqn:Ed.
          -- apply Z.eqb_eq in Ed. subst depth. cbn [Z.to_nat].
             rewrite (slice_seg group cursor 2) by lia. cbn [bind].
             rewrite (IH (S cursor) (S cursor) (0 + 1)%Z _) by lia. rewrite seg_nil. reflexivity.
          -- apply Z.eqb_neq in Ed. destruct (Z.to_nat depth) as [|dn] eqn:Ez; [lia|].
             rewrite (IH (S cursor) group (depth + 1)%Z result) by lia.
             rewrite Hsn. replace (Z.to_nat (depth + 1)) with (S (S dn)) by lia. reflexivity.
        * destruct (N.eqb c RP) eqn:ERP.
          -- cbv zeta. destruct (Z.ltb (depth - 1) 0) eqn:Elt.
             ++ apply Z.ltb_lt in Elt. assert (depth = 0%Z) by lia. subst depth. reflexivity.
             ++ apply Z.ltb_ge in Elt. destruct (Z.eqb (depth - 1) 0) eqn:Ed1.
                ** apply Z.eqb_eq in Ed1. assert (depth = 1%Z) by lia. subst depth. cbn [Z.to_nat Pos.to_nat Pos.iter_op Nat.add].
                   destruct (Nat.eqb cursor group) eqn:Ecg.
                   --- apply Nat.eqb_eq in Ecg. subst group. rewrite seg_nil.
                       destruct (subn cursor 1 3); reflexivity.
                   --- apply Nat.eqb_neq in Ecg.
                       assert (Hne : seg group cursor <> []).
                       { intros E. apply (f_equal (@length _)) in E. rewrite seg_len in E by lia. cbn in E. lia. }
                       destruct (seg group cursor) as [|a0 acc'] eqn:Eacc; [congruence|]. rewrite <- Eacc.
                       rewrite to_opt_bind, (Hrec group cursor) by lia.
                       destruct (recL (seg group cursor)) as [opts|]; [|reflexivity].
                       rewrite (IH (S cursor) (S cursor) (1 - 1)%Z _) by lia. rewrite seg_nil. reflexivity.
                ** apply Z.eqb_neq in Ed1. destruct (Z.to_nat depth) as [|[|dn]] eqn:Ez; [lia|lia|].
                   rewrite (IH (S cursor) group (depth - 1)%Z result) by lia.
                   rewrite Hsn. replace (Z.to_nat (depth - 1)) with (S dn) by lia. reflexivity.
          -- rewrite (IH (S cursor) group depth result) by lia. rewrite Hsn. reflexivity.
    - apply Nat.ltb_ge in El. assert (cursor = en) by lia. subst cursor. rewrite seg_nil. cbn [scanL]. unfold finish.
      destruct (Z.eqb depth 0) eqn:Ed; cbn [negb].
      + apply Z.eqb_eq in Ed. subst depth. cbn [Z.to_nat].
        destruct (Nat.ltb group en) eqn:Eg.
        * rewrite (slice_seg group en 5) by lia. reflexivity.
        * apply Nat.ltb_ge in Eg. assert (group = en) by lia. subst group. rewrite seg_nil, map_app_nil_r. reflexivity.
      + apply Z.eqb_neq in Ed. destruct (Z.to_nat depth) eqn:Ez; [lia|].
        destruct (subn (start + group) 1 4); reflexivity.
  Qed.
End Impl.

Theorem expand_is_expandL : forall fuel (input : bytes) start en,
  start <= en -> en <= length input ->
  to_opt (expand fuel input start en) = expandL fuel (seg input start en).
Proof.
  induction fuel as [|f IH]; intros input start en Hse Hen; [reflexivity|].
  rewrite expand_S.
  rewrite (scan_is_scanL input start en Hse Hen (expand f input) (expandL f)); try lia.
  - rewrite seg_nil. reflexivity.
  - intros g c Hgc Hc. apply IH; assumption.
Qed.

Theorem expand_spec (t : bytes) :
  to_opt (expand (S (length t)) t 0 (length t)) = denote (G t).
Proof.
  rewrite (expand_is_expandL (S (length t)) t 0 (length t)) by lia.
  unfold seg. rewrite Nat.sub_0_r. cbn [skipn]. rewrite firstn_all.
  apply (expandL_spec (length t)); lia.
Qed.

(* ---- valid UTF-8 in, valid UTF-8 out ---- *)
Lemma utf8_app : forall n a b, length a <= n -> utf8_valid a = true -> utf8_valid b = true -> utf8_valid (a ++ b) = true.
Proof.
  induction n as [|n IH]; intros a b Hlen Ha Hb.
  - destruct a; [exact Hb|cbn in Hlen; lia].
  - destruct a as [|b0 r]; [exact Hb|]. cbn [app]. cbn [utf8_valid] in *. cbn [length] in Hlen.
    destruct (N.leb b0 127); [apply IH; [lia|exact Ha|exact Hb]|].
    destruct (inr 194 223 b0).
    { destruct r as [|b1 r']; [discriminate|]. cbn [app]. apply andb_true_iff in Ha as [H1 Ha]. rewrite H1. cbn [andb length] in *.
      apply IH; [lia|exact Ha|exact Hb]. }
    destruct (inr 224 239 b0).
    { destruct r as [|b1 [|b2 r']]; try discriminate. cbn [app]. apply andb_true_iff in Ha as [H12 Ha]. rewrite H12. cbn [andb length] in *.
      apply IH; [lia|exact Ha|exact Hb]. }
    destruct (inr 240 244 b0); [|discriminate].
    destruct r as [|b1 [|b2 [|b3 r']]]; try discriminate. cbn [app]. apply andb_true_iff in Ha as [H123 Ha]. rewrite H123. cbn [andb length] in *.
    apply IH; [lia|exact Ha|exact Hb].
Qed.

Definition all_valid (l : list bytes) : Prop := Forall (fun e => utf8_valid e = true) l.

Lemma all_valid_map_app result acc : all_valid result -> utf8_valid acc = true -> all_valid (map (fun t => t ++ acc) result).
Proof.
  intros H Ha. unfold all_valid in *. rewrite Forall_forall in *. intros e He. apply in_map_iff in He as (t & <- & Ht).
  apply (utf8_app (length t)); auto.
Qed.

Lemma all_valid_comb result opts : all_valid result -> all_valid opts -> all_valid (comb result opts).
Proof.
  intros Hr Ho. unfold all_valid, comb in *. rewrite Forall_forall in *. intros e He.
  apply in_flat_map in He as (t & Ht & He). apply in_app_or in He as [He|[<-|[]]]; [|apply Hr; exact Ht].
  apply in_map_iff in He as (o & <- & Hoin). apply (utf8_app (length t)); auto.
Qed.

Lemma scanL_valid rec :
  (forall x opts, utf8_valid x = true -> rec x = Some opts -> all_valid opts) ->
  forall s acc depth result out,
    utf8_valid (acc ++ s) = true -> all_valid result ->
    scanL rec s acc depth result = Some out -> all_valid out.
Proof.
  intros Hrec. fix IH 1. intros s acc depth result out Hu Hres H.
  assert (Hfin : forall acc0, utf8_valid acc0 = true -> finish depth acc0 result = Some out -> all_valid out).
  { intros acc0 Ha Hf. unfold finish in Hf. destruct depth; [|discriminate]. inversion Hf; subst. apply all_valid_map_app; assumption. }
  destruct s as [|c s']; [rewrite app_nil_r in Hu; cbn [scanL] in H; apply (Hfin acc Hu H)|].
  cbn [scanL] in H.
  destruct (N.eqb c BSL) eqn:EB.
  { destruct s' as [|y s''].
    - apply (Hfin (acc ++ [c]) Hu H).
    - apply (IH s'' (acc ++ [c; y]) depth result out); [rewrite <- app_assoc; exact Hu|exact Hres|exact H]. }
  destruct (N.eqb c LP) eqn:EL.
  { apply N.eqb_eq in EL. subst c. destruct depth as [|d].
    - apply utf8_cut in Hu as [Ha Hs]; [|reflexivity].
      apply (IH s' [] 1 (map (fun t => t ++ acc) result) out); [exact Hs|apply all_valid_map_app; assumption|exact H].
    - apply (IH s' (acc ++ [LP]) (S (S d)) result out); [rewrite <- app_assoc; exact Hu|exact Hres|exact H]. }
  destruct (N.eqb c RP) eqn:ER.
  { apply N.eqb_eq in ER. subst c. destruct depth as [|[|d]]; [discriminate| |].
    - apply utf8_cut in Hu as [Ha Hs]; [|reflexivity].
      destruct acc as [|a0 acc']; [discriminate|]. destruct (rec (a0 :: acc')) as [opts|] eqn:Er; [|discriminate].
      apply (IH s' [] 0 (comb result opts) out); [exact Hs| |exact H]. apply all_valid_comb; [exact Hres|]. apply (Hrec _ _ Ha Er).
    - apply (IH s' (acc ++ [RP]) (S d) result out); [rewrite <- app_assoc; exact Hu|exact Hres|exact H]. }
  apply (IH s' (acc ++ [c]) depth result out); [rewrite <- app_assoc; exact Hu|exact Hres|exact H].
Qed.

Lemma expandL_valid : forall f s out, utf8_valid s = true -> expandL f s = Some out -> all_valid out.
Proof.
  induction f as [|f IH]; intros s out Hu H; [discriminate|]. cbn [expandL] in H.
  apply (scanL_valid (expandL f) (fun x opts Hx Ho => IH x opts Hx Ho) s [] 0 [[]] out); [exact Hu| |exact H].
  constructor; [reflexivity|constructor].
Qed.

(* ======== the whole parser = the documented language ======== *)
Definition fix_empty (e : bytes) : bytes := match e with [] => [SL] | _ => e end.

Fixpoint all_wellformed (l : list bytes) : option (list (bytes * list part)) :=
  match l with
  | [] => Some []
  | e :: l' => match wellformed_exp e, all_wellformed l' with
               | Some ps, Some r => Some ((e, ps) :: r)
               | _, _ => None
               end
  end.

Lemma template_spec_unfold t :
  template_spec t = match t with
                    | [] => None
                    | _ => match expansions_spec t with None => None | Some es => all_wellformed es end
                    end.
Proof. destruct t; reflexivity. Qed.

Lemma map_out_spec (raws : list bytes) :
  all_valid raws ->
  to_opt (map_out (fun raw => parse_template (match raw with [] => [SL] | _ => raw end)) raws)
  = all_wellformed (map fix_empty raws).
Proof.
  induction raws as [|raw raws IH]; intros Hv; [reflexivity|].
  apply Forall_inv in Hv as Hr. apply Forall_inv_tail in Hv. specialize (IH Hv).
  cbn [map_out map all_wellformed]. fold (fix_empty raw).
  assert (Hne : fix_empty raw <> []) by (destruct raw; discriminate).
  assert (Hu : utf8_valid (fix_empty raw) = true) by (destruct raw; [reflexivity|exact Hr]).
  pose proof (parse_template_spec (fix_empty raw) Hne Hu) as Hp.
  rewrite to_opt_bind, Hp. destruct (wellformed_exp (fix_empty raw)) as [ps|]; [|reflexivity].
  cbn [option_map]. rewrite to_opt_bind, IH. destruct (all_wellformed (map fix_empty raws)); reflexivity.
Qed.

Theorem parse_is_template_spec (t : bytes) : utf8_valid t = true -> to_opt (parse t) = template_spec t.
Proof.
  intros Hu. rewrite template_spec_unfold. unfold parse. destruct t as [|b t']; [reflexivity|].
  remember (b :: t') as t eqn:Et.
  rewrite to_opt_bind, expand_spec, expansions_spec_G.
  pose proof (expandL_spec (length t) t (S (length t)) (le_n _) ltac:(lia)) as HL.
  destruct (G t) as [its [|] rest|] eqn:EG; try reflexivity. destruct rest; [|reflexivity]. cbn [denote] in *.
  apply (map_out_spec (expand_items its)). apply (expandL_valid (S (length t)) t _ Hu HL).
Qed.

Corollary parse_accepts_iff (t : bytes) es :
  utf8_valid t = true -> (parse t = Ret es <-> template_spec t = Some es).
Proof.
  intros Hu. pose proof (parse_is_template_spec t Hu) as H. split; intros E.
  - rewrite E in H. rewrite <- H. reflexivity.
  - rewrite E in H. destruct (parse t); cbn [to_opt] in H; congruence.
Qed.

Corollary parse_rejects_iff (t : bytes) :
  utf8_valid t = true -> ((exists e, parse t = Err e) <-> template_spec t = None).
Proof.
  intros Hu. pose proof (parse_is_template_spec t Hu) as H. pose proof (parse_safe t) as Hs. split.
  - intros (e & E). rewrite E in H. rewrite <- H. reflexivity.
  - intros E. rewrite E in H. destruct (parse t) as [x|e| |]; cbn [to_opt safe] in *; try discriminate; try contradiction. eauto.
Qed.
