(* C14 / C07: which TemplateError each function of src/parser.rs can construct, in source order, REGENERATED on every run
   (Gen/ParserErrors.v) - the seventeen sites the checked-style parser model (Model/Parser.v) has, function by function,
   and every one of the thirteen variants of the model's error type occurs. *)
From Coq Require Import Ascii String List Bool.
From WF Require Import Base.Bytes Check.Tokens Gen.ParserErrors.
Import ListNotations.
Local Open Scope string_scope.

Definition expected_parser_errors : list (string * string) :=
  [("new", "Empty");
   ("expand_optional_groups", "UnbalancedParenthesis"); ("expand_optional_groups", "EmptyParentheses");
   ("expand_optional_groups", "UnbalancedParenthesis");
   ("parse_template", "MissingLeadingSlash"); ("parse_template", "TouchingParameters");
   ("parse_template", "DuplicateParameter"); ("parse_template", "UnbalancedBrace");
   ("parse_parameter_part", "UnbalancedBrace"); ("parse_parameter_part", "EmptyBraces");
   ("parse_parameter_part", "EmptyParameter"); ("parse_parameter_part", "EmptyWildcard");
   ("parse_parameter_part", "InvalidParameter"); ("parse_parameter_part", "EmptyConstraint");
   ("parse_parameter_part", "InvalidConstraint"); ("parse_parameter_part", "InvalidParameter");
   ("parse_parameter_part", "InvalidConstraint")].

Fixpoint pe_eqb (a : list (bytes * bytes)) (b : list (string * string)) : bool :=
  match a, b with
  | [], [] => true
  | (f, v) :: a', (f', v') :: b' => beqb f (w f') && beqb v (w v') && pe_eqb a' b'
  | _, _ => false
  end.

Definition thirteen_variants : list string :=
  ["Empty"; "MissingLeadingSlash"; "EmptyBraces"; "UnbalancedBrace"; "EmptyParentheses"; "UnbalancedParenthesis";
   "EmptyParameter"; "InvalidParameter"; "DuplicateParameter"; "EmptyWildcard"; "EmptyConstraint"; "InvalidConstraint";
   "TouchingParameters"].

Lemma parser_error_sites :
  pe_eqb gen_parser_errors expected_parser_errors = true
  /\ forallb (fun v => existsb (fun fv : bytes * bytes => beqb (snd fv) (w v)) gen_parser_errors) thirteen_variants = true
  /\ forallb (fun fv : bytes * bytes => existsb (fun v => beqb (snd fv) (w v)) thirteen_variants) gen_parser_errors = true.
Proof. vm_compute. repeat split; reflexivity. Qed.
