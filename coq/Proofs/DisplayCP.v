(* C07 for the printer: the checked-style printer (Model/DisplayC.v, the child counter as an explicit subtraction)
   equals the functional printer of Model/Display.v on EVERY tree, so `count -= 1` never underflows. *)
From Coq Require Import Lia Arith PeanoNat.
From WF Require Import Base.Bytes Base.Utf8 Spec.Route Spec.Walk Model.Tree Model.Parser Model.Display Model.DisplayC.
From WF Require Import Proofs.RefineP.
Import ListNotations.

Lemma subn_ok a b site : b <= a -> subn a b site = Ret (a - b).
Proof. intros H. unfold subn. replace (Nat.leb b a) with true by (symmetry; apply Nat.leb_le; exact H). reflexivity. Qed.

Theorem debug_node_c_refines : forall n label padding r l,
  debug_node_c n label padding r l = Ret (debug_node n label padding r l).
Proof.
  induction n using node_ind'. intros label padding r l.
  cbn [debug_node_c debug_node n_data n_st n_dc n_dy n_wc n_wi n_ec n_en].
  match goal with |- context [go_c ?R None _ _ st] => set (Rc := R) end.
  match goal with |- _ = Ret (?L ++ ?G None ?c st ++ _) => set (line := L); set (Gf := G) end.
  assert (HG : forall k l0,
    AllP (fun c0 => forall label padding r l, debug_node_c c0 label padding r l = Ret (debug_node c0 label padding r l)) l0 ->
    forall acc count, length l0 <= count ->
      go_c Rc k acc count l0 = Ret (acc ++ Gf k count l0, count - length l0)).
  { intros k l0 Hall. induction l0 as [|kc l0 IHl]; intros acc count Hc.
    - cbn [go_c length]. subst Gf. cbn. rewrite app_nil_r, Nat.sub_0_r. reflexivity.
    - unfold AllP in Hall. apply Forall_cons_iff in Hall as [Hkc Hall]. cbn [length] in Hc.
      cbn [go_c]. rewrite subn_ok by lia. cbn [bind]. unfold Rc at 1. rewrite Hkc. cbn [bind].
      rewrite (IHl Hall) by lia. f_equal. f_equal.
      + rewrite <- app_assoc. f_equal. subst Gf. cbn [length].
        replace (Nat.eqb (count - 1) 0) with (Nat.eqb count 1)
          by (destruct count as [|[|c]]; [lia|reflexivity|reflexivity]).
        replace (count - 1) with (pred count) by lia. reflexivity.
      + cbn [length]. lia. }
  rewrite (HG None st H) by lia. cbn [bind fst snd].
  rewrite (HG (Some KDC) dc H0) by lia. cbn [bind fst snd].
  rewrite (HG (Some KDY) dy H1) by lia. cbn [bind fst snd].
  rewrite (HG (Some KWC) wc H2) by lia. cbn [bind fst snd].
  rewrite (HG (Some KWI) wi H3) by lia. cbn [bind fst snd].
  rewrite (HG (Some KEC) ec H4) by lia. cbn [bind fst snd].
  rewrite (HG (Some KEN) en H5) by lia. cbn [bind fst snd].
  rewrite <- !app_assoc. reflexivity.
Qed.

Theorem display_c_refines n : display_c n = Ret (display n).
Proof. unfold display_c, display. rewrite debug_node_c_refines. reflexivity. Qed.
