(* Every expansion the parser returns starts with a literal part whose first byte is '/'. *)
From Coq Require Import Lia Arith PeanoNat.
From WF Require Import Base.Bytes Base.Utf8 Spec.Route Model.Parser.
From WF Require Import Proofs.BytesP Proofs.ParserPartsP.

Lemma static_part_acc : forall steps raw en acc s e,
  static_part steps raw en acc = Ret (s, e) -> exists t, s = acc ++ t.
Proof.
  induction steps as [|steps IH]; intros raw en acc s e H; [discriminate|]. cbn [static_part] in H.
  destruct (Nat.ltb en (length raw)).
  - apply bind_ret in H as (c & _ & H).
    destruct (N.eqb c BSL).
    { destruct (nth_error raw (S en)) as [nx|]; apply IH in H as (t & ->); rewrite <- app_assoc; eauto. }
    destruct (N.eqb c LB || N.eqb c RB)%bool.
    { inversion H; subst. exists []. rewrite app_nil_r. reflexivity. }
    apply IH in H as (t & ->). rewrite <- app_assoc. eauto.
  - inversion H; subst. exists []. rewrite app_nil_r. reflexivity.
Qed.

Lemma template_loop_acc : forall steps raw cursor seen parts ps,
  template_loop steps raw cursor seen parts = Ret ps -> exists t, ps = parts ++ t.
Proof.
  induction steps as [|steps IH]; intros raw cursor seen parts ps H; [discriminate|]. cbn [template_loop] in H.
  destruct (Nat.ltb cursor (length raw)); [|inversion H; subst; exists []; rewrite app_nil_r; reflexivity].
  apply bind_ret in H as (c & _ & H).
  destruct (N.eqb c LB).
  - apply bind_ret in H as ([p next] & _ & H).
    destruct (match last_opt seen with Some (_, s, l) => if Nat.eqb cursor (s + l) then Some (s, l) else None | None => None end) as [[s l]|].
    { apply bind_ret in H as (x & _ & H). discriminate. }
    destruct (part_name p) as [name|].
    + destruct (find _ seen) as [[[n0 s0] l0]|].
      * apply bind_ret in H as (x & _ & H). discriminate.
      * apply bind_ret in H as (x & _ & H). apply IH in H as (t & ->). rewrite <- app_assoc. eauto.
    + apply IH in H as (t & ->). rewrite <- app_assoc. eauto.
  - destruct (N.eqb c RB); [discriminate|].
    apply bind_ret in H as ([s next] & _ & H). apply IH in H as (t & ->). rewrite <- app_assoc. eauto.
Qed.

Definition leads_with_slash (ps : list part) : Prop := exists s ps', ps = PS (SL :: s) :: ps'.

Lemma static_part_first k (raw : bytes) en acc (c : byte) :
  nth_error raw en = Some c -> N.eqb c BSL = false -> N.eqb c LB = false -> N.eqb c RB = false ->
  static_part (S k) raw en acc = static_part k raw (en + 1) (acc ++ [c]).
Proof.
  intros Hn H1 H2 H3. cbn [static_part].
  assert (Hlt : en < length raw) by (apply nth_error_Some; congruence).
  apply Nat.ltb_lt in Hlt. rewrite Hlt. unfold idx. rewrite Hn. cbn [bind]. rewrite H1, H2, H3. reflexivity.
Qed.

Lemma parse_template_lead raw e : parse_template raw = Ret e -> raw <> [] -> leads_with_slash (snd e).
Proof.
  unfold parse_template. destruct raw as [|b raw']; [congruence|]. intros H _.
  destruct (negb (N.eqb b SL)) eqn:Eb; [discriminate|]. apply Bool.negb_false_iff in Eb. apply N.eqb_eq in Eb. subst b.
  apply bind_ret in H as (ps & Hl & H). inversion H; subst. cbn [snd].
  cbn [template_loop] in Hl.
  change (Nat.ltb 0 (length (SL :: raw'))) with true in Hl.
  change (idx (SL :: raw') 0 30) with (@Ret byte SL) in Hl. cbn [bind] in Hl.
  change (N.eqb SL LB) with false in Hl. change (N.eqb SL RB) with false in Hl. cbv iota in Hl.
  apply bind_ret in Hl as ([s next] & Hs & Hl).
  rewrite (static_part_first _ (SL :: raw') 0 [] SL eq_refl eq_refl eq_refl eq_refl) in Hs.
  apply static_part_acc in Hs as (t & ->). apply template_loop_acc in Hl as (t' & ->).
  exists t, t'. reflexivity.
Qed.

Theorem parse_parts_lead t es : parse t = Ret es -> Forall (fun e : expansion => leads_with_slash (snd e)) es.
Proof.
  unfold parse. destruct t as [|b t]; [discriminate|]. intros H.
  apply bind_ret in H as (raws & _ & H).
  eapply map_out_forall; [|exact H]. intros raw e He. cbv beta in He.
  apply (parse_template_lead _ e He). destruct raw; discriminate.
Qed.
