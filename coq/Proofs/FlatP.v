(* Expansion texts are group-free: every text the optional-group scanner returns consists of ordinary bytes and
   escape pairs only (possibly one trailing backslash), so expanding it again returns just itself. *)
From Coq Require Import Lia Arith PeanoNat.
From WF Require Import Base.Bytes Base.Utf8 Spec.Route Spec.Grammar Model.Parser.
From WF Require Import Proofs.BytesP Proofs.ParserPartsP Proofs.ParserSafeP Proofs.ExpandP Proofs.ParserSpecP Proofs.ExpandSpecP.

(* token sequences: ordinary bytes and escape pairs; [paren]: may '(' and ')' occur as ordinary tokens;
   [last]: may the text end in a lone backslash *)
Inductive toks (paren last : bool) : bytes -> Prop :=
| T_nil : toks paren last []
| T_plain c s : N.eqb c BSL = false -> (paren = false -> N.eqb c LP = false /\ N.eqb c RP = false) ->
                toks paren last s -> toks paren last (c :: s)
| T_pair x s : toks paren last s -> toks paren last (BSL :: x :: s)
| T_last : last = true -> toks paren last [BSL].

Definition flat' := toks false false.   (* group-free, no trailing lone backslash *)
Definition flat := toks false true.     (* group-free *)

Lemma toks_weaken_last paren s : toks paren false s -> toks paren true s.
Proof. induction 1 as [| | |Hl]; [apply T_nil|apply T_plain; assumption|apply T_pair; assumption|discriminate Hl]. Qed.

Lemma toks_app paren last a b : toks paren false a -> toks paren last b -> toks paren last (a ++ b).
Proof.
  intros Ha Hb. induction Ha as [|c s Hc Hp Hs IH|x s Hs IH|Hl].
  - exact Hb.
  - cbn [app]. apply T_plain; assumption.
  - cbn [app]. apply T_pair. exact IH.
  - discriminate Hl.
Qed.

Lemma toks_snoc_plain paren acc c : toks paren false acc -> N.eqb c BSL = false ->
  (paren = false -> N.eqb c LP = false /\ N.eqb c RP = false) -> toks paren false (acc ++ [c]).
Proof. intros Ha Hc Hp. apply toks_app; [exact Ha|]. apply T_plain; [exact Hc|exact Hp|apply T_nil]. Qed.

Lemma toks_snoc_pair paren acc x : toks paren false acc -> toks paren false (acc ++ [BSL; x]).
Proof. intros Ha. apply toks_app; [exact Ha|]. apply T_pair. apply T_nil. Qed.

Lemma flat'_toks s : flat' s -> toks true false s.
Proof. induction 1 as [| | |Hl]; [apply T_nil|apply T_plain; [assumption|intros E; discriminate|assumption]|apply T_pair; assumption|discriminate Hl]. Qed.

Lemma toks_tail_plain paren last c tl : toks paren last (c :: tl) -> N.eqb c BSL = false -> toks paren last tl.
Proof. intros Ht Hc. inversion Ht; subst; try assumption; cbn in Hc; discriminate. Qed.

Definition all_flat (last : bool) (l : list bytes) : Prop := Forall (toks false last) l.

Lemma all_flat_map_app last result acc : all_flat false result -> toks false last acc -> all_flat last (map (fun t => t ++ acc) result).
Proof.
  intros H Ha. unfold all_flat in *. rewrite Forall_forall in *. intros e He. apply in_map_iff in He as (t & <- & Ht).
  apply toks_app; auto.
Qed.

Lemma all_flat_comb result opts : all_flat false result -> all_flat false opts -> all_flat false (comb result opts).
Proof.
  intros Hr Ho. unfold all_flat, comb in *. rewrite Forall_forall in *. intros e He.
  apply in_flat_map in He as (t & Ht & He). apply in_app_or in He as [He|[<-|[]]]; [|apply Hr; exact Ht].
  apply in_map_iff in He as (o & <- & Hoin). apply toks_app; auto.
Qed.

(* the scanner: what it returns is group-free; strictly so when the remaining text has no trailing lone backslash *)
Lemma scanL_flat rec :
  (forall x opts, toks true false x -> rec x = Some opts -> all_flat false opts) ->
  forall s acc depth result out (strict : bool),
    (strict = true -> toks true false s) ->
    (depth = 0 -> toks false false acc) -> (1 <= depth -> toks true false acc) -> all_flat false result ->
    scanL rec s acc depth result = Some out -> all_flat (negb strict) out.
Proof.
  intros Hrec. fix IH 1. intros s acc depth result out strict Hs H0 H1 Hres H.
  assert (Hfin : forall acc0, (depth = 0 -> toks false (negb strict) acc0) -> finish depth acc0 result = Some out -> all_flat (negb strict) out).
  { intros acc0 Ha Hf. unfold finish in Hf. destruct depth; [|discriminate]. inversion Hf; subst. apply all_flat_map_app; auto. }
  destruct s as [|c s'].
  { cbn [scanL] in H. apply (Hfin acc); [|exact H]. intros Hd. specialize (H0 Hd). destruct strict; [exact H0|apply toks_weaken_last; exact H0]. }
  cbn [scanL] in H.
  destruct (N.eqb c BSL) eqn:EB.
  { assert (c = BSL) by (apply N.eqb_eq; exact EB). subst c.
    destruct s' as [|y s''].
    - (* a lone trailing backslash: impossible when strict *)
      destruct strict.
      + exfalso. specialize (Hs eq_refl). inversion Hs; subst; try discriminate.
      + apply (Hfin (acc ++ [BSL])); [|exact H]. intros Hd. cbn [negb]. apply toks_app; [apply H0; exact Hd|]. apply T_last. reflexivity.
    - apply (IH s'' (acc ++ [BSL; y]) depth result out strict); [| | |exact Hres|exact H].
      + intros Hst. specialize (Hs Hst). inversion Hs; subst; try discriminate; assumption.
      + intros Hd. apply toks_snoc_pair. auto.
      + intros Hd. apply toks_snoc_pair. auto. }
  assert (Htl : strict = true -> toks true false s') by (intros Hst; apply (toks_tail_plain _ _ c s' (Hs Hst) EB)).
  destruct (N.eqb c LP) eqn:EL.
  { destruct depth as [|d].
    - apply (IH s' [] 1 (map (fun t => t ++ acc) result) out strict); [exact Htl| | | |exact H].
      + intros Hd. discriminate.
      + intros _. apply T_nil.
      + apply all_flat_map_app; auto.
    - apply (IH s' (acc ++ [c]) (S (S d)) result out strict); [exact Htl| | |exact Hres|exact H].
      + intros Hd. discriminate.
      + intros _. apply toks_snoc_plain; [apply H1; lia|exact EB|intros E; discriminate]. }
  destruct (N.eqb c RP) eqn:ER.
  { destruct depth as [|[|d]]; [discriminate| |].
    - destruct acc as [|a0 acc']; [discriminate|]. destruct (rec (a0 :: acc')) as [opts|] eqn:Er; [|discriminate].
      apply (IH s' [] 0 (comb result opts) out strict); [exact Htl| | | |exact H].
      + intros _. apply T_nil.
      + intros Hd. lia.
      + apply all_flat_comb; [exact Hres|]. apply (Hrec _ _ (H1 ltac:(lia)) Er).
    - apply (IH s' (acc ++ [c]) (S d) result out strict); [exact Htl| | |exact Hres|exact H].
      + intros Hd. discriminate.
      + intros _. apply toks_snoc_plain; [apply H1; lia|exact EB|intros E; discriminate]. }
  apply (IH s' (acc ++ [c]) depth result out strict); [exact Htl| | |exact Hres|exact H].
  - intros Hd. apply toks_snoc_plain; [apply H0; exact Hd|exact EB|intros _; auto].
  - intros Hd. apply toks_snoc_plain; [apply H1; exact Hd|exact EB|intros E; discriminate].
Qed.

Lemma expandL_flat_strict : forall f x opts, toks true false x -> expandL f x = Some opts -> all_flat false opts.
Proof.
  induction f as [|f IH]; intros x opts Hx H; [discriminate|]. cbn [expandL] in H.
  apply (scanL_flat (expandL f) (fun y o Hy Ho => IH y o Hy Ho) x [] 0 [[]] opts true); auto.
  - intros _. apply T_nil.
  - intros Hd. lia.
  - constructor; [apply T_nil|constructor].
Qed.

Theorem expandL_flat f s out : expandL f s = Some out -> all_flat true out.
Proof.
  destruct f as [|f]; [discriminate|]. cbn [expandL]. intros H.
  apply (scanL_flat (expandL f) (expandL_flat_strict f) s [] 0 [[]] out false); auto.
  - intros E; discriminate.
  - intros _. apply T_nil.
  - intros Hd. lia.
  - constructor; [apply T_nil|constructor].
Qed.

(* a group-free text expands to itself *)
Lemma scanL_of_flat rec x : toks false true x ->
  forall acc result, scanL rec x acc 0 result = Some (map (fun t => t ++ (acc ++ x)) result).
Proof.
  induction 1 as [|c s Hc Hp Hs IH|y s Hs IH|Hl]; intros acc result.
  - cbn [scanL finish]. rewrite app_nil_r. reflexivity.
  - cbn [scanL]. rewrite Hc. destruct (Hp eq_refl) as [-> ->]. rewrite IH, <- app_assoc. reflexivity.
  - cbn [scanL]. change (N.eqb BSL BSL) with true. cbv iota. rewrite IH, <- app_assoc. reflexivity.
  - cbn [scanL finish]. change (N.eqb BSL BSL) with true. reflexivity.
Qed.

Lemma expandL_of_flat f x : toks false true x -> expandL (S f) x = Some [x].
Proof. intros H. cbn [expandL]. rewrite (scanL_of_flat _ x H). reflexivity. Qed.

Lemma expand_of_flat (x : bytes) : toks false true x -> expand (S (length x)) x 0 (length x) = Ret [x].
Proof.
  intros H. pose proof (expand_is_expandL (S (length x)) x 0 (length x) ltac:(lia) ltac:(lia)) as E.
  unfold seg in E. rewrite Nat.sub_0_r in E. cbn [skipn] in E. rewrite firstn_all, (expandL_of_flat _ x H) in E.
  destruct (expand (S (length x)) x 0 (length x)); cbn [to_opt] in E; congruence.
Qed.

Lemma map_out_forall2 {A B} (f : A -> out B) : forall l ys, map_out f l = Ret ys -> Forall2 (fun x y => f x = Ret y) l ys.
Proof.
  induction l as [|x l IH]; intros ys H; cbn [map_out] in H; [inversion H; constructor|].
  apply bind_ret in H as (y & Hy & H). apply bind_ret in H as (ys' & Hys & H). inversion H; subst. constructor; [exact Hy|apply IH; exact Hys].
Qed.

Lemma parse_template_fst raw e : parse_template raw = Ret e -> fst e = raw.
Proof.
  unfold parse_template. destruct (match raw with [] => false | b :: _ => negb (N.eqb b SL) end); [discriminate|].
  intros H. apply bind_ret in H as (ps & _ & H). inversion H. reflexivity.
Qed.

(* C04: each expansion text of an accepted template is itself a template with exactly that one expansion *)
Theorem parse_expansion_text t es : parse t = Ret es -> forall e, In e es -> parse (fst e) = Ret [e].
Proof.
  unfold parse at 1. destruct t as [|b t']; [discriminate|]. remember (b :: t') as t eqn:Et. intros H e He.
  apply bind_ret in H as (raws & Hr & H).
  assert (Hflat : all_flat true raws).
  { pose proof (expand_is_expandL (S (length t)) t 0 (length t) ltac:(lia) ltac:(lia)) as E. rewrite Hr in E. cbn [to_opt] in E.
    unfold seg in E. rewrite Nat.sub_0_r in E. cbn [skipn] in E. rewrite firstn_all in E.
    apply (expandL_flat (S (length t)) t raws). symmetry. exact E. }
  apply map_out_forall2 in H.
  assert (Hex : exists x, toks false true x /\ x <> [] /\ parse_template x = Ret e).
  { clear -H He Hflat. induction H as [|x0 y l ys Hxy Hl IH]; [destruct He|].
    unfold all_flat in Hflat. apply Forall_cons_iff in Hflat as [Hx0 Hfl]. destruct He as [->|He]; [|apply IH; assumption].
    exists (match x0 with [] => [SL] | _ => x0 end). split; [|split; [destruct x0; discriminate|exact Hxy]].
    destruct x0; [apply T_plain; [reflexivity|intros _; split; reflexivity|apply T_nil]|exact Hx0]. }
  destruct Hex as (x & Hx & Hne & Hp).
  rewrite (parse_template_fst x e Hp). unfold parse. destruct x as [|x0 x']; [congruence|].
  rewrite (expand_of_flat (x0 :: x') Hx). cbn [bind map_out]. cbv beta iota. rewrite Hp. reflexivity.
Qed.
