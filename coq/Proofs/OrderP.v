(* Obligation over the regenerated order of search attempts (closed computation). *)
From Coq Require Import Ascii String.
From WF Require Import Base.Bytes Spec.Walk Model.Parser Check.Tokens Gen.Tables.

Definition bytes_list_eqb (a b : list bytes) : bool :=
  (fix go (a b : list bytes) := match a, b with
     | [], [] => true | x :: a', y :: b' => beqb x y && go a' b' | _, _ => false end) a b.

(* C03: the order of attempts in Node::search is the documented one, dynamic kinds gated by the
   dynamic flag, wildcard kinds by the wildcard flag, the flag selecting the *_segment variant *)
Definition search_order_expected : list (string * string * string) :=
  [("", "search_static", "search_static");
   ("dynamic_children_shortcut", "search_dynamic_constrained_segment", "search_dynamic_constrained_inline");
   ("dynamic_children_shortcut", "search_dynamic_segment", "search_dynamic_inline");
   ("wildcard_children_shortcut", "search_wildcard_constrained_segment", "search_wildcard_constrained_inline");
   ("wildcard_children_shortcut", "search_wildcard_segment", "search_wildcard_inline");
   ("", "search_end_wildcard_constrained", "search_end_wildcard_constrained");
   ("", "search_end_wildcard", "search_end_wildcard")]%string.

Lemma search_order_documented :
  bytes_list_eqb (flat_map (fun x : bytes * bytes * bytes => [fst (fst x); snd (fst x); snd x]) gen_search_order)
                 (flat_map (fun x : string * string * string => [w (fst (fst x)); w (snd (fst x)); w (snd x)]) search_order_expected) = true.
Proof. vm_compute. reflexivity. Qed.

(* the model tries the kinds in the same order *)
Lemma model_kind_order : all_kinds = [KDC; KDY; KWC; KWI; KEC; KEN].
Proof. reflexivity. Qed.

