(* The optional-group expansion of the parser model, with its inner loop given a name, and first facts:
   a template that parses has at least one expansion. *)
From Coq Require Import Lia ZArith.
From WF Require Import Base.Bytes Base.Utf8 Spec.Route Model.Parser.
From WF Require Import Proofs.BytesP Proofs.ParserPartsP.

(* the inner loop of [expand]; [rec] is the recursive call for a group *)
Fixpoint scan_f (rec : nat -> nat -> out (list bytes)) (input : bytes) (start en : nat)
         (steps : nat) (cursor group : nat) (depth : Z) (result : list bytes) {struct steps} : out (list bytes) :=
  match steps with
  | O => Fuel
  | S steps' =>
    if Nat.ltb cursor en then
      do c <- idx input cursor 1;
      if (N.eqb c BSL && match nth_error input (S cursor) with Some _ => true | None => false end)%bool
      then scan_f rec input start en steps' (cursor + 2) group depth result
      else if N.eqb c LP then
        if Z.eqb depth 0 then
          do lit <- slice input group cursor 2;
          scan_f rec input start en steps' (S cursor) (S cursor) (depth + 1)%Z (map (fun t => t ++ lit) result)
        else scan_f rec input start en steps' (S cursor) group (depth + 1)%Z result
      else if N.eqb c RP then
        let depth := (depth - 1)%Z in
        if Z.ltb depth 0 then Err (EUnbalancedParenthesis input cursor)
        else if Z.eqb depth 0 then
          if Nat.eqb cursor group then
            do p <- subn cursor 1 3; Err (EEmptyParentheses input p)
          else
            do opts <- rec group cursor;
            let result := flat_map (fun t => map (fun o => t ++ o) opts ++ [t]) result in
            scan_f rec input start en steps' (S cursor) (S cursor) depth result
        else scan_f rec input start en steps' (S cursor) group depth result
      else scan_f rec input start en steps' (S cursor) group depth result
    else
      if negb (Z.eqb depth 0) then
        do p <- subn (start + group) 1 4; Err (EUnbalancedParenthesis input p)
      else if Nat.ltb group en then
        do lit <- slice input group en 5; Ret (map (fun t => t ++ lit) result)
      else Ret result
  end.

Lemma scan_f_S rec input start en steps cursor group depth result :
  scan_f rec input start en (S steps) cursor group depth result =
    if Nat.ltb cursor en then
      do c <- idx input cursor 1;
      if (N.eqb c BSL && match nth_error input (S cursor) with Some _ => true | None => false end)%bool
      then scan_f rec input start en steps (cursor + 2) group depth result
      else if N.eqb c LP then
        if Z.eqb depth 0 then
          do lit <- slice input group cursor 2;
          scan_f rec input start en steps (S cursor) (S cursor) (depth + 1)%Z (map (fun t => t ++ lit) result)
        else scan_f rec input start en steps (S cursor) group (depth + 1)%Z result
      else if N.eqb c RP then
        let depth := (depth - 1)%Z in
        if Z.ltb depth 0 then Err (EUnbalancedParenthesis input cursor)
        else if Z.eqb depth 0 then
          if Nat.eqb cursor group then
            do p <- subn cursor 1 3; Err (EEmptyParentheses input p)
          else
            do opts <- rec group cursor;
            let result := flat_map (fun t => map (fun o => t ++ o) opts ++ [t]) result in
            scan_f rec input start en steps (S cursor) (S cursor) depth result
        else scan_f rec input start en steps (S cursor) group depth result
      else scan_f rec input start en steps (S cursor) group depth result
    else
      if negb (Z.eqb depth 0) then
        do p <- subn (start + group) 1 4; Err (EUnbalancedParenthesis input p)
      else if Nat.ltb group en then
        do lit <- slice input group en 5; Ret (map (fun t => t ++ lit) result)
      else Ret result.
Proof. reflexivity. Qed.

Lemma expand_S_raw fuel input start en :
  expand (S fuel) input start en =
    (fix scan (steps : nat) (cursor group : nat) (depth : Z) (result : list bytes) {struct steps}
       : out (list bytes) :=
       match steps with
       | O => Fuel
       | S steps' =>
         if Nat.ltb cursor en then
           do c <- idx input cursor 1;
           if (N.eqb c BSL && match nth_error input (S cursor) with Some _ => true | None => false end)%bool
           then scan steps' (cursor + 2) group depth result
           else if N.eqb c LP then
             if Z.eqb depth 0 then
               do lit <- slice input group cursor 2;
               scan steps' (S cursor) (S cursor) (depth + 1)%Z (map (fun t => t ++ lit) result)
             else scan steps' (S cursor) group (depth + 1)%Z result
           else if N.eqb c RP then
             let depth := (depth - 1)%Z in
             if Z.ltb depth 0 then Err (EUnbalancedParenthesis input cursor)
             else if Z.eqb depth 0 then
               if Nat.eqb cursor group then
                 do p <- subn cursor 1 3; Err (EEmptyParentheses input p)
               else
                 do opts <- expand fuel input group cursor;
                 let result := flat_map (fun t => map (fun o => t ++ o) opts ++ [t]) result in
                 scan steps' (S cursor) (S cursor) depth result
             else scan steps' (S cursor) group depth result
           else scan steps' (S cursor) group depth result
         else
           if negb (Z.eqb depth 0) then
             do p <- subn (start + group) 1 4; Err (EUnbalancedParenthesis input p)
           else if Nat.ltb group en then
             do lit <- slice input group en 5; Ret (map (fun t => t ++ lit) result)
           else Ret result
       end) (S (length input)) start start 0%Z [[]].
Proof. reflexivity. Qed.

Lemma scan_raw_eq fuel input start en : forall steps cursor group depth result,
    (fix scan (steps : nat) (cursor group : nat) (depth : Z) (result : list bytes) {struct steps}
       : out (list bytes) :=
       match steps with
       | O => Fuel
       | S steps' =>
         if Nat.ltb cursor en then
           do c <- idx input cursor 1;
           if (N.eqb c BSL && match nth_error input (S cursor) with Some _ => true | None => false end)%bool
           then scan steps' (cursor + 2) group depth result
           else if N.eqb c LP then
             if Z.eqb depth 0 then
               do lit <- slice input group cursor 2;
               scan steps' (S cursor) (S cursor) (depth + 1)%Z (map (fun t => t ++ lit) result)
             else scan steps' (S cursor) group (depth + 1)%Z result
           else if N.eqb c RP then
             let depth := (depth - 1)%Z in
             if Z.ltb depth 0 then Err (EUnbalancedParenthesis input cursor)
             else if Z.eqb depth 0 then
               if Nat.eqb cursor group then
                 do p <- subn cursor 1 3; Err (EEmptyParentheses input p)
               else
                 do opts <- expand fuel input group cursor;
                 let result := flat_map (fun t => map (fun o => t ++ o) opts ++ [t]) result in
                 scan steps' (S cursor) (S cursor) depth result
             else scan steps' (S cursor) group depth result
           else scan steps' (S cursor) group depth result
         else
           if negb (Z.eqb depth 0) then
             do p <- subn (start + group) 1 4; Err (EUnbalancedParenthesis input p)
           else if Nat.ltb group en then
             do lit <- slice input group en 5; Ret (map (fun t => t ++ lit) result)
           else Ret result
       end)  steps cursor group depth result
  = scan_f (expand fuel input) input start en steps cursor group depth result.
Proof.
  induction steps as [|steps IH]; intros cursor group depth result; [reflexivity|].
  rewrite scan_f_S. lazy beta iota fix.
  destruct (Nat.ltb cursor en); [|reflexivity].
  destruct (idx input cursor 1) as [c| | |]; try reflexivity. cbn [bind].
  destruct (N.eqb c BSL && _)%bool; [apply IH|].
  destruct (N.eqb c LP).
  { destruct (Z.eqb depth 0); [|apply IH]. destruct (slice input group cursor 2); try reflexivity. cbn [bind]. apply IH. }
  destruct (N.eqb c RP); [|apply IH]. cbv zeta.
  destruct (Z.ltb (depth - 1) 0); [reflexivity|].
  destruct (Z.eqb (depth - 1) 0); [|apply IH].
  destruct (Nat.eqb cursor group); [reflexivity|].
  destruct (expand fuel input group cursor); try reflexivity. cbn [bind]. apply IH.
Qed.

Lemma expand_S fuel input start en :
  expand (S fuel) input start en
  = scan_f (expand fuel input) input start en (S (length input)) start start 0%Z [[]].
Proof. exact (eq_trans (expand_S_raw fuel input start en) (scan_raw_eq fuel input start en (S (length input)) start start 0%Z [[]])). Qed.

Lemma flat_map_nonempty {A B} (f : A -> list B) l : l <> [] -> (forall x, f x <> []) -> flat_map f l <> [].
Proof. destruct l as [|x l]; [congruence|]. intros _ H. cbn. specialize (H x). destruct (f x); [congruence|discriminate]. Qed.

Lemma scan_nonempty rec input start en : forall steps cursor group depth result rs,
  result <> [] -> scan_f rec input start en steps cursor group depth result = Ret rs -> rs <> [].
Proof.
  induction steps as [|steps IH]; intros cursor group depth result rs Hne H; [discriminate|].
  rewrite scan_f_S in H.
  destruct (Nat.ltb cursor en).
  - apply bind_ret in H as (c & _ & H).
    destruct (N.eqb c BSL && _)%bool; [eapply IH; eauto|].
    destruct (N.eqb c LP).
    { destruct (Z.eqb depth 0); [|eapply IH; eauto].
      apply bind_ret in H as (lit & _ & H). eapply IH; [|exact H]. destruct result; [congruence|discriminate]. }
    destruct (N.eqb c RP); [|eapply IH; eauto]. cbv zeta in H.
    destruct (Z.ltb (depth - 1) 0); [discriminate|].
    destruct (Z.eqb (depth - 1) 0); [|eapply IH; eauto].
    destruct (Nat.eqb cursor group).
    { apply bind_ret in H as (p & _ & H). discriminate. }
    apply bind_ret in H as (opts & _ & H). eapply IH; [|exact H].
    apply flat_map_nonempty; [exact Hne|]. intros x. destruct (map (fun o : list byte => x ++ o) opts); discriminate.
  - destruct (negb (Z.eqb depth 0)).
    { apply bind_ret in H as (p & _ & H). discriminate. }
    destruct (Nat.ltb group en).
    + apply bind_ret in H as (lit & _ & H). inversion H. destruct result; [congruence|discriminate].
    + inversion H; subst. exact Hne.
Qed.

Lemma expand_nonempty fuel input start en rs : expand fuel input start en = Ret rs -> rs <> [].
Proof.
  destruct fuel as [|fuel]; [discriminate|]. rewrite expand_S. apply scan_nonempty. discriminate.
Qed.

Lemma map_out_length {A B} (f : A -> out B) : forall l ys, map_out f l = Ret ys -> length ys = length l.
Proof.
  induction l as [|x l IH]; intros ys H; cbn [map_out] in H; [inversion H; reflexivity|].
  apply bind_ret in H as (y & _ & H). apply bind_ret in H as (ys' & Hys & H). inversion H; subst.
  cbn [length]. f_equal. apply IH. exact Hys.
Qed.

Theorem parse_nonempty t es : parse t = Ret es -> es <> [].
Proof.
  unfold parse. destruct t as [|b t]; [discriminate|]. intros H.
  apply bind_ret in H as (raws & Hr & H). apply expand_nonempty in Hr. apply map_out_length in H.
  destruct es; [|discriminate]. destruct raws; [congruence|discriminate].
Qed.
