(* Obligations over Gen/Shapes.v (REGENERATED from src/node/{display,optimize,delete}.rs on every run; closed
   computations): the printer, optimize and the emptiness / compressibility tests each go over the seven child lists
   of a node, all of them, in the order of kinds the model uses. *)
From Coq Require Import Ascii String List.
From WF Require Import Base.Bytes Spec.Walk Model.Tree Model.Ops Check.Tokens Gen.Shapes.
Import ListNotations.
Local Open Scope string_scope.

Definition bl_eqb (a : list bytes) (b : list string) : bool :=
  (fix go (a : list bytes) (b : list string) :=
     match a, b with [], [] => true | x :: a', y :: b' => beqb x (w y) && go a' b' | _, _ => false end) a b.

Definition seven_lists : list string :=
  ["static_children"; "dynamic_constrained_children"; "dynamic_children"; "wildcard_constrained_children";
   "wildcard_children"; "end_wildcard_constrained_children"; "end_wildcard_children"].

(* C15: debug_node prints the seven lists in this order, each child through `count -= 1; debug_node(.., count == 0)?`,
   there is no other loop (the 8th `for` is the one of `impl Display for Node`), and `count` starts as the sum of the
   seven lengths - what Model/Display.v and Model/DisplayC.v implement *)
Lemma display_shape :
  bl_eqb gen_display_loops seven_lists = true
  /\ gen_display_for_count = 8
  /\ bl_eqb gen_display_count_terms (map (fun f => "node." ++ f ++ ".len()") seven_lists) = true.
Proof. vm_compute. repeat split; reflexivity. Qed.

(* C05: optimize returns early exactly on a clean node, recurses into all seven lists, sorts all seven, then refreshes
   the two shortcut flags and clears the dirty mark - what Model/Ops.v optimize implements *)
Lemma optimize_shape :
  bl_eqb gen_optimize_recursion seven_lists = true
  /\ bl_eqb gen_optimize_sorts seven_lists = true
  /\ gen_optimize_for_count = 7
  /\ bl_eqb gen_optimize_statements
       ["if !self.needs_optimization {"; "return"; "self.update_dynamic_children_shortcut()";
        "self.update_wildcard_children_shortcut()"; "self.needs_optimization = false"] = true.
Proof. vm_compute. repeat split; reflexivity. Qed.

(* C09 / C10: a node is pruned iff it has no data and all seven lists are empty; merged with its only literal child iff
   it has no data, exactly one literal child and the other six lists are empty - Model/Ops.v is_empty, is_compressible *)
Lemma prune_tests_shape :
  bl_eqb gen_is_empty ("self.data.is_none()" :: map (fun f => "self." ++ f ++ ".is_empty()") seven_lists) = true
  /\ bl_eqb gen_is_compressible
       ("self.data.is_none()" :: "self.static_children.len() == 1"
        :: map (fun f => "self." ++ f ++ ".is_empty()") (tl seven_lists)) = true.
Proof. vm_compute. repeat split; reflexivity. Qed.

(* C08 / C10 / C09: the steps of Router::insert and Router::delete in the order the model takes them (Model/Router.v
   rinsert: parse; unknown constraint over all expansions and their parts - return; find over all expansions collecting
   conflicts; if any: sort, then dedup, return Conflict; insert every expansion (two textual sites: shared / single);
   optimize; Ok.  rdelete: parse; find over all expansions - Mismatch returns; find over all expansions - NotFound
   returns; delete over all expansions; NotFound if nothing came out, BEFORE optimize; optimize; Ok) *)
Lemma router_steps_shape :
  bl_eqb gen_insert_steps
    ["parse"; "loop"; "loop"; "return"; "unknown-constraint"; "loop"; "find"; "push"; "if-conflicts"; "sort"; "dedup";
     "return"; "conflict"; "loop"; "insert"; "insert"; "optimize"; "ok"] = true
  /\ bl_eqb gen_delete_steps
    ["parse"; "loop"; "find"; "continue"; "continue"; "return"; "mismatch"; "loop"; "find"; "return"; "not-found";
     "loop"; "delete"; "return"; "not-found"; "optimize"; "ok"] = true.
Proof. vm_compute. split; reflexivity. Qed.

(* ---- the prune / merge tests read over the model's nodes: compiled (closed computation), then equal to Model/Ops.v
        is_empty / is_compressible on EVERY node ---- *)
Inductive conj := JNoData | JEmpty (i : nat) | JOneStatic.

Definition conj_of (c : bytes) : option conj :=
  if beqb c (w "self.data.is_none()") then Some JNoData
  else if beqb c (w "self.static_children.len() == 1") then Some JOneStatic
  else (fix go (i : nat) (l : list string) : option conj :=
          match l with
          | [] => None
          | f :: l' => if beqb c (w ("self." ++ f ++ ".is_empty()")) then Some (JEmpty i) else go (S i) l'
          end) 0 seven_lists.

Fixpoint all_conj (l : list bytes) : option (list conj) :=
  match l with
  | [] => Some []
  | c :: l' => match conj_of c, all_conj l' with Some j, Some js => Some (j :: js) | _, _ => None end
  end.

Lemma prune_tests_compile :
  all_conj gen_is_empty = Some [JNoData; JEmpty 0; JEmpty 1; JEmpty 2; JEmpty 3; JEmpty 4; JEmpty 5; JEmpty 6]
  /\ all_conj gen_is_compressible = Some [JNoData; JOneStatic; JEmpty 1; JEmpty 2; JEmpty 3; JEmpty 4; JEmpty 5; JEmpty 6].
Proof. vm_compute. split; reflexivity. Qed.

Definition nth_list (i : nat) (n : node) : list (key * node) :=
  match i with 0 => n_st n | 1 => n_dc n | 2 => n_dy n | 3 => n_wc n | 4 => n_wi n | 5 => n_ec n | _ => n_en n end.
Definition nilb' {A} (l : list A) : bool := match l with [] => true | _ => false end.
Definition sem_conj (j : conj) (n : node) : bool :=
  match j with
  | JNoData => match n_data n with None => true | Some _ => false end
  | JEmpty i => nilb' (nth_list i n)
  | JOneStatic => match n_st n with [_] => true | _ => false end
  end.

Theorem prune_tests_are_the_model_tests n :
  forallb (fun j => sem_conj j n) [JNoData; JEmpty 0; JEmpty 1; JEmpty 2; JEmpty 3; JEmpty 4; JEmpty 5; JEmpty 6] = is_empty n
  /\ forallb (fun j => sem_conj j n) [JNoData; JOneStatic; JEmpty 1; JEmpty 2; JEmpty 3; JEmpty 4; JEmpty 5; JEmpty 6]
     = is_compressible n.
Proof.
  unfold is_empty, is_compressible, no_kids. cbn [forallb sem_conj nth_list].
  destruct (n_data n); destruct (n_st n) as [|? [|? ?]]; destruct (n_dc n); destruct (n_dy n); destruct (n_wc n);
    destruct (n_wi n); destruct (n_ec n); destruct (n_en n); split; reflexivity.
Qed.

Lemma regenerated_prune_tests_are_the_model_tests :
  exists je jc, all_conj gen_is_empty = Some je /\ all_conj gen_is_compressible = Some jc
     /\ forall n, forallb (fun j => sem_conj j n) je = is_empty n /\ forallb (fun j => sem_conj j n) jc = is_compressible n.
Proof.
  eexists. eexists. split; [exact (proj1 prune_tests_compile)|]. split; [exact (proj2 prune_tests_compile)|].
  exact prune_tests_are_the_model_tests.
Qed.
