(* Obligations over Gen/Shapes.v (REGENERATED from src/node/{display,optimize,delete}.rs on every run; closed
   computations): the printer, optimize and the emptiness / compressibility tests each go over the seven child lists
   of a node, all of them, in the order of kinds the model uses. *)
From Coq Require Import Ascii String List.
From WF Require Import Base.Bytes Spec.Walk Model.Tree Model.Ops Check.Tokens Gen.Shapes.
Import ListNotations.
Local Open Scope string_scope.

Definition bl_eqb (a : list bytes) (b : list string) : bool :=
  (fix go (a : list bytes) (b : list string) :=
     match a, b with [], [] => true | x :: a', y :: b' => beqb x (w y) && go a' b' | _, _ => false end) a b.

Definition seven_lists : list string :=
  ["static_children"; "dynamic_constrained_children"; "dynamic_children"; "wildcard_constrained_children";
   "wildcard_children"; "end_wildcard_constrained_children"; "end_wildcard_children"].

(* C15: debug_node prints the seven lists in this order, each child through `count -= 1; debug_node(.., count == 0)?`,
   there is no other loop (the 8th `for` is the one of `impl Display for Node`), and `count` starts as the sum of the
   seven lengths - what Model/Display.v and Model/DisplayC.v implement *)
Lemma display_shape :
  bl_eqb gen_display_loops seven_lists = true
  /\ gen_display_for_count = 8
  /\ bl_eqb gen_display_count_terms (map (fun f => "node." ++ f ++ ".len()") seven_lists) = true.
Proof. vm_compute. repeat split; reflexivity. Qed.

(* C05: optimize returns early exactly on a clean node, recurses into all seven lists, sorts all seven, then refreshes
   the two shortcut flags and clears the dirty mark - what Model/Ops.v optimize implements *)
Lemma optimize_shape :
  bl_eqb gen_optimize_recursion seven_lists = true
  /\ bl_eqb gen_optimize_sorts seven_lists = true
  /\ gen_optimize_for_count = 7
  /\ bl_eqb gen_optimize_statements
       ["if !self.needs_optimization {"; "return"; "self.update_dynamic_children_shortcut()";
        "self.update_wildcard_children_shortcut()"; "self.needs_optimization = false"] = true.
Proof. vm_compute. repeat split; reflexivity. Qed.

(* C09 / C10: a node is pruned iff it has no data and all seven lists are empty; merged with its only literal child iff
   it has no data, exactly one literal child and the other six lists are empty - Model/Ops.v is_empty, is_compressible *)
Lemma prune_tests_shape :
  bl_eqb gen_is_empty ("self.data.is_none()" :: map (fun f => "self." ++ f ++ ".is_empty()") seven_lists) = true
  /\ bl_eqb gen_is_compressible
       ("self.data.is_none()" :: "self.static_children.len() == 1"
        :: map (fun f => "self." ++ f ++ ".is_empty()") (tl seven_lists)) = true.
Proof. vm_compute. repeat split; reflexivity. Qed.

(* C08 / C10 / C09: the steps of Router::insert and Router::delete in the order the model takes them (Model/Router.v
   rinsert: parse; unknown constraint over all expansions and their parts - return; find over all expansions collecting
   conflicts; if any: sort, then dedup, return Conflict; insert every expansion (two textual sites: shared / single);
   optimize; Ok.  rdelete: parse; find over all expansions - Mismatch returns; find over all expansions - NotFound
   returns; delete over all expansions; NotFound if nothing came out, BEFORE optimize; optimize; Ok) *)
Lemma router_steps_shape :
  bl_eqb gen_insert_steps
    ["parse"; "loop"; "loop"; "return"; "unknown-constraint"; "loop"; "find"; "push"; "if-conflicts"; "sort"; "dedup";
     "return"; "conflict"; "loop"; "insert"; "insert"; "optimize"; "ok"] = true
  /\ bl_eqb gen_delete_steps
    ["parse"; "loop"; "find"; "continue"; "continue"; "return"; "mismatch"; "loop"; "find"; "return"; "not-found";
     "loop"; "delete"; "return"; "not-found"; "optimize"; "ok"] = true.
Proof. vm_compute. split; reflexivity. Qed.
