(* C12: on a single route the walk returns the leftmost-longest assignment. *)
From Coq Require Import Lia.
From WF Require Import Base.Bytes Base.Utf8 Spec.Route Spec.Walk.
From WF Require Import Proofs.BytesP Proofs.WalkP Proofs.WalkFuelP Proofs.WalkCompleteP.

Definition is_param (a : atom) : Prop := match a with AB _ => False | _ => True end.

Section G.
  Variable chk : bytes -> bytes -> bool.

  (* leftmost-longest: the values fit, and at every parameter no strictly longer value (earlier
     values fixed) admits a fit of the remaining route *)
  Inductive LL : route -> bytes -> list bytes -> Prop :=
  | LL_nil : LL [] [] []
  | LL_byte b r rest vs : LL r rest vs -> LL (AB b :: r) (b :: rest) vs
  | LL_param a r v rest vs :
      is_param a ->
      fits chk (a :: r) (v ++ rest) (v :: vs) ->
      LL r rest vs ->
      (forall v' rest' vs', v' ++ rest' = v ++ rest -> length v < length v' ->
                            ~ fits chk (a :: r) (v' ++ rest') (v' :: vs')) ->
      LL (a :: r) (v ++ rest) (v :: vs).

  Lemma better_refl i : better i i = true.
  Proof. unfold better. rewrite N.compare_refl. apply N.leb_refl. Qed.

  (* with a single possible info, pick returns the LAST successful candidate *)
  Definition pickfold (srch : bytes -> res) (ky : key) (cs : list cand) (acc : res) : res :=
    fold_left (pick_step chk srch ky) cs acc.

  Lemma pickfold_snoc srch ky cs c acc :
    pickfold srch ky (cs ++ [c]) acc = pick_step chk srch ky (pickfold srch ky cs acc) c.
  Proof. unfold pickfold. rewrite fold_left_app. reflexivity. Qed.

  Lemma fold_pick_last srch ky i cs :
    (forall c i' ps, In c cs -> srch (snd c) = Some (i', ps) -> i' = i) ->
    forall i0 ps0, pickfold srch ky cs None = Some (i0, ps0) ->
    exists cs1 v rest' cs2 ps',
      cs = cs1 ++ (v, rest') :: cs2 /\ ok chk ky v = true /\ srch rest' = Some (i0, ps')
      /\ ps0 = (fst ky, v) :: ps'
      /\ forall c2, In c2 cs2 -> ok chk ky (fst c2) = true -> srch (snd c2) = None.
  Proof.
    induction cs as [|c cs IH] using rev_ind; intros Hsame i0 ps0 H; [discriminate|].
    rewrite pickfold_snoc in H.
    assert (Hsame' : forall c0 i' ps, In c0 cs -> srch (snd c0) = Some (i', ps) -> i' = i).
    { intros c0 i' ps Hin. apply Hsame. apply in_or_app. left; exact Hin. }
    specialize (IH Hsame').
    destruct (pickfold srch ky cs None) as [[bi bps]|] eqn:Eacc.
    - assert (bi = i).
      { destruct (IH bi bps eq_refl) as (cs1' & v' & r'' & cs2' & ps'' & Hcs & _ & Hs' & _).
        apply (Hsame' (v', r'') bi ps''); [|exact Hs']. rewrite Hcs. apply in_or_app. right; left; reflexivity. }
      subst bi. unfold pick_step in H.
      destruct (ok chk ky (fst c)) eqn:Eok.
      + destruct (srch (snd c)) as [[ic psc]|] eqn:Es.
        * assert (ic = i) by (eapply Hsame; [apply in_or_app; right; left; reflexivity|exact Es]). subst ic.
          rewrite better_refl in H. inversion H; subst i0 ps0.
          exists cs, (fst c), (snd c), [], psc.
          split; [destruct c; reflexivity|]. split; [exact Eok|]. split; [exact Es|]. split; [reflexivity|].
          intros c2 [].
        * destruct (IH i0 ps0 H) as (cs1 & v & r' & cs2 & ps' & Hcs & Hok & Hs & Hps & Hlater).
          exists cs1, v, r', (cs2 ++ [c]), ps'. split; [rewrite Hcs, <- app_assoc; reflexivity|].
          repeat split; auto. intros c2 Hin Hok2. apply in_app_or in Hin as [Hin|[<-|[]]]; [apply Hlater; assumption|exact Es].
      + destruct (IH i0 ps0 H) as (cs1 & v & r' & cs2 & ps' & Hcs & Hok & Hs & Hps & Hlater).
        exists cs1, v, r', (cs2 ++ [c]), ps'. split; [rewrite Hcs, <- app_assoc; reflexivity|].
        repeat split; auto. intros c2 Hin Hok2. apply in_app_or in Hin as [Hin|[<-|[]]]; [apply Hlater; assumption|congruence].
    - rewrite pick_step_none in H.
      destruct (ok chk ky (fst c)) eqn:Eok; [|discriminate].
      destruct (srch (snd c)) as [[ic psc]|] eqn:Es; [|discriminate].
      inversion H; subst i0 ps0.
      exists cs, (fst c), (snd c), [], psc.
      split; [destruct c; reflexivity|]. split; [exact Eok|]. split; [exact Es|]. split; [reflexivity|].
      intros c2 [].
  Qed.

  Lemma pick_last srch ky i cs :
    (forall c i' ps, In c cs -> srch (snd c) = Some (i', ps) -> i' = i) ->
    forall i0 ps0, pick chk srch ky cs = Some (i0, ps0) ->
    exists cs1 v rest' cs2 ps',
      cs = cs1 ++ (v, rest') :: cs2 /\ ok chk ky v = true /\ srch rest' = Some (i0, ps')
      /\ ps0 = (fst ky, v) :: ps'
      /\ forall c2, In c2 cs2 -> ok chk ky (fst c2) = true -> srch (snd c2) = None.
  Proof. intros Hs i0 ps0 H. eapply fold_pick_last; eauto. Qed.

  (* candidate values get strictly longer along the list *)
  Lemma cands_from_longer dyn : forall rest pre cs1 x cs2,
    cands_from dyn pre rest = cs1 ++ x :: cs2 ->
    forall y, In y cs2 -> length (fst x) < length (fst y).
  Proof.
    induction rest as [|b rest IH]; intros pre cs1 x cs2 H y Hy; cbn [cands_from] in H.
    - destruct cs1; discriminate.
    - destruct (dyn && N.eqb b SL); [destruct cs1; discriminate|].
      destruct cs1 as [|c1 cs1]; cbn [app] in H.
      + inversion H; subst. cbn [fst].
        destruct y as [vy ry]. apply cands_from_spec in Hy as (w & Hw & -> & _). cbn [fst].
        rewrite !app_length. cbn. destruct w; [congruence|cbn; lia].
      + inversion H; subst. eapply IH; eauto.
  Qed.

  Lemma cands_longer k p cs1 x cs2 y :
    cands k p = cs1 ++ x :: cs2 -> In y cs2 -> length (fst x) < length (fst y).
  Proof.
    unfold cands. destruct (is_end k).
    - intros H. destruct cs1 as [|c cs1]; [inversion H; subst; intros []|destruct cs1; discriminate].
    - intros H Hy. eapply cands_from_longer; eauto.
  Qed.

  Lemma in_split_pos {A} (l cs1 cs2 : list A) x y :
    l = cs1 ++ x :: cs2 -> In y l -> In y cs1 \/ y = x \/ In y cs2.
  Proof. intros -> H. apply in_app_or in H as [H|[H|H]]; auto. Qed.

  Lemma cands_shorter_before k p cs1 x cs2 y :
    cands k p = cs1 ++ x :: cs2 -> In y cs1 -> length (fst y) < length (fst x).
  Proof.
    intros H Hy. apply in_split in Hy as (a & b & ->).
    rewrite <- app_assoc in H. cbn [app] in H.
    eapply cands_longer; [exact H|]. apply in_or_app. right; left; reflexivity.
  Qed.

  Lemma groups_singleton k r i :
    groups k [(r, i)] = match key_of k (r, i) with Some (ky, x) => [(ky, [x])] | None => [] end.
  Proof. unfold groups. cbn [filter_map]. destruct (key_of k (r, i)) as [[ky x]|]; reflexivity. Qed.

  Lemma LL_fits r p vs : LL r p vs -> fits chk r p vs.
  Proof. induction 1; [constructor|constructor; assumption|assumption]. Qed.

  Lemma fits_param_inv k ky r v rest vs :
    fits chk ((if is_dyn k then AD (fst ky) (snd ky) else AW (fst ky) (snd ky)) :: r) (v ++ rest) (v :: vs) ->
    v <> [] /\ utf8_valid v = true /\ copt chk (snd ky) v = true
    /\ (is_dyn k = true -> ~ In SL v) /\ fits chk r rest vs.
  Proof.
    destruct (is_dyn k); intros H; inversion H; subst;
      match goal with Hx : ?v0 ++ ?r0 = v ++ rest |- _ => apply app_inv_head in Hx; subst end;
      repeat split; auto; discriminate.
  Qed.

  Theorem walk_singleton_greedy : forall f r i p i' ps,
    length p < f -> walk chk f [(r, i)] p = Some (i', ps) -> LL r p (map snd ps).
  Proof.
    induction f as [|f IH]; intros r i p i' ps Hf H; [lia|].
    rewrite walk_S in H. destruct p as [|b rest].
    - apply done_some in H as [-> [H|[]]]. inversion H; subst. constructor.
    - cbn [length] in Hf.
      destruct (walk chk f (filter_map (strip b) [(r, i)]) rest) as [[i1 ps1]|] eqn:E1; unfold or_else in H.
      + inversion H; subst. cbn [filter_map] in E1.
        destruct (strip b (r, i)) as [[r' i2]|] eqn:Es; [|rewrite walk_nil in E1; discriminate].
        apply strip_some in Es as [Hr Hi]. cbn [fst snd] in *. subst.
        constructor. eapply IH; [|exact E1]. lia.
      + apply first_some_some in H as (k & _ & H). rewrite groups_singleton in H.
        destruct (key_of k (r, i)) as [[ky [r' i2]]|] eqn:Ek; [|discriminate].
        cbn [first_some fst snd] in H.
        destruct (pick chk (walk chk f [(r', i2)]) ky (cands k (b :: rest))) as [[i3 ps3]|] eqn:Ep; [|discriminate].
        inversion H; subst i3 ps3. clear H.
        apply key_of_shape in Ek as (Hr & Hi & Hend). cbn [fst snd] in *. subst i2.
        assert (Hsame : forall c i0 ps0, In c (cands k (b :: rest)) -> walk chk f [(r', i)] (snd c) = Some (i0, ps0) -> i0 = i).
        { intros c i0 ps0 _ Hw. apply walk_sound in Hw as (r0 & [Hin|[]] & _). inversion Hin; reflexivity. }
        destruct (pick_last _ ky i _ Hsame i' ps Ep) as (cs1 & v & rest' & cs2 & ps' & Hcs & Hok & Hw & -> & Hlater).
        assert (Hc : In (v, rest') (cands k (b :: rest))) by (rewrite Hcs; apply in_or_app; right; left; reflexivity).
        pose proof (cands_shorter k (b :: rest) _ ltac:(discriminate) Hc) as Hlen. cbn [snd length] in Hlen.
        apply cands_spec in Hc as (Hv & Hp & Hd & He); [|discriminate].
        unfold ok in Hok. apply andb_true_iff in Hok as [Hu Hcc].
        assert (HLL : LL r' rest' (map snd ps')) by (eapply IH; [|exact Hw]; lia).
        cbn [map snd]. rewrite Hp, Hr.
        set (a := if is_dyn k then AD (fst ky) (snd ky) else AW (fst ky) (snd ky)).
        assert (Hfit : fits chk (a :: r') (v ++ rest') (v :: map snd ps')).
        { unfold a. destruct (is_dyn k) eqn:Ed; [apply F_dyn|apply F_wild]; auto using LL_fits. }
        apply LL_param; [unfold a; destruct (is_dyn k); exact I|exact Hfit|exact HLL|].
        intros v' rest'' vs' Heq Hlonger Hfit'.
        (* the longer candidate is in the list, accepted, and its continuation is answered *)
        unfold a in Hfit'. apply fits_param_inv in Hfit' as (Hv' & Hu' & Hc' & Hd' & Hr').
        assert (Hin' : In (v', rest'') (cands k (b :: rest))).
        { rewrite Hp, <- Heq. unfold cands. destruct (is_end k) eqn:Ee.
          - specialize (Hend eq_refl). subst r'. apply fits_nil_path' in Hr'. subst rest''.
            specialize (He eq_refl). subst rest'. rewrite !app_nil_r in *. subst v'. lia.
          - apply (cands_from_complete (is_dyn k) v' [] rest''); auto. }
        assert (Hlen' : length rest'' < f).
        { apply cands_shorter in Hin'; [|discriminate]. cbn [snd length] in Hin'. lia. }
        destruct (in_split_pos _ _ _ _ _ Hcs Hin') as [H1|[H2|H3]].
        * apply (cands_shorter_before k (b :: rest) cs1 (v, rest') cs2 (v', rest'') Hcs) in H1. cbn [fst] in H1. lia.
        * inversion H2; subst. lia.
        * assert (Hok' : ok chk ky v' = true) by (unfold ok; rewrite Hu', Hc'; reflexivity).
          specialize (Hlater (v', rest'') H3 Hok'). cbn [snd] in Hlater.
          revert Hlater. eapply walk_complete; [exact Hlen'|left; reflexivity|exact Hr'].
  Qed.

  Corollary W_singleton_greedy r i p i' ps : W chk [(r, i)] p = Some (i', ps) -> LL r p (map snd ps).
  Proof. intros H. unfold W in H. eapply walk_singleton_greedy; [|exact H]. lia. Qed.
End G.
