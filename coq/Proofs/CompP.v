(* Maximal compression: below the root, no literal child is a data-less node whose only child is one
   literal node.  Preserved by insert (on the normalised part lists the parser produces), delete and optimize. *)
From Coq Require Import Lia Arith PeanoNat Permutation.
From WF Require Import Base.Bytes Base.Utf8 Spec.Route Spec.Walk Model.Tree Model.Ops Spec.Inv.
From WF Require Import Proofs.BytesP Proofs.InvP Proofs.OpsLemmasP Proofs.InsertP Proofs.OptimizeP Proofs.DeleteP Proofs.RoutesP.

Definition ncomp (n : node) : bool := negb (compressible_b n).

Fixpoint comp (n : node) {struct n} : bool :=
  let sub (l : list (key * node)) := forallb (fun kc : key * node => comp (snd kc)) l in
  forallb (fun kc : key * node => ncomp (snd kc) && comp (snd kc)) (n_st n)
  && sub (n_dc n) && sub (n_dy n) && sub (n_wc n) && sub (n_wi n).

Definition st_comp (l : list (key * node)) : bool := forallb (fun kc : key * node => ncomp (snd kc) && comp (snd kc)) l.
Definition kids_comp (l : list (key * node)) : bool := forallb (fun kc : key * node => comp (snd kc)) l.

Lemma comp_eq n :
  comp n = st_comp (n_st n) && kids_comp (n_dc n) && kids_comp (n_dy n) && kids_comp (n_wc n) && kids_comp (n_wi n).
Proof. destruct n; reflexivity. Qed.

Lemma comp_iff n :
  comp n = true <-> st_comp (n_st n) = true /\ forall k, is_end k = false -> kids_comp (kids k n) = true.
Proof.
  rewrite comp_eq. split.
  - intros H. split_andb. split; [assumption|]. intros k He. destruct k; try discriminate; assumption.
  - intros [Hs Hk]. pose proof (Hk KDC eq_refl) as H1. pose proof (Hk KDY eq_refl) as H2.
    pose proof (Hk KWC eq_refl) as H3. pose proof (Hk KWI eq_refl) as H4. cbn [kids] in H1, H2, H3, H4.
    rewrite Hs, H1, H2, H3, H4. reflexivity.
Qed.

Lemma comp_same_lists n n' : n_st n' = n_st n -> (forall k, kids k n' = kids k n) -> comp n' = comp n.
Proof.
  intros Hs Hk. rewrite !comp_eq, Hs.
  rewrite (Hk KDC : n_dc n' = n_dc n), (Hk KDY : n_dy n' = n_dy n), (Hk KWC : n_wc n' = n_wc n), (Hk KWI : n_wi n' = n_wi n).
  reflexivity.
Qed.

Lemma comp_empty : comp empty_node = true.  Proof. reflexivity. Qed.

Lemma kids_nonempty_not_only_static n k : kids k n <> [] -> only_static_kids n = false.
Proof. unfold only_static_kids. destruct k; cbn [kids]; intros H; destruct (n_dc n), (n_dy n), (n_wc n), (n_wi n), (n_ec n), (n_en n); cbn; try reflexivity; congruence. Qed.

Lemma ncomp_of_data n : has_data n = true -> ncomp n = true.
Proof. unfold ncomp, compressible_b. intros ->. reflexivity. Qed.
Lemma ncomp_of_kids n k : kids k n <> [] -> ncomp n = true.
Proof. intros H. unfold ncomp, compressible_b. rewrite (kids_nonempty_not_only_static n k H). rewrite andb_false_r. reflexivity. Qed.
Lemma ncomp_of_two n : 2 <= length (n_st n) -> ncomp n = true.
Proof. unfold ncomp, compressible_b. destruct (n_st n) as [|x [|y l]]; cbn [length]; [lia|lia|]. intros _. rewrite andb_false_r. reflexivity. Qed.

(* a live node that cannot be compressed stays so when data, child kinds and literal children only grow *)
Lemma ncomp_mono n n' :
  alive n = true -> ncomp n = true ->
  (has_data n = true -> has_data n' = true) ->
  (forall k, kids k n <> [] -> kids k n' <> []) ->
  length (n_st n) <= length (n_st n') ->
  ncomp n' = true.
Proof.
  intros Ha Hn Hd Hk Hl.
  destruct (has_data n) eqn:Ed; [apply ncomp_of_data; auto|].
  destruct (only_static_kids n) eqn:Eo.
  - unfold ncomp, compressible_b in Hn. rewrite Ed, Eo in Hn. cbn in Hn.
    unfold alive, no_kids_b in Ha. rewrite Ed, Eo in Ha. cbn in Ha. rewrite andb_true_r in Ha.
    apply ncomp_of_two. destruct (n_st n) as [|x [|y l]]; cbn in *; try discriminate; lia.
  - assert (exists k, kids k n <> []) as (k & Hkk).
    { unfold only_static_kids in Eo.
      destruct (n_dc n) eqn:E1; [|exists KDC; cbn [kids]; congruence].
      destruct (n_dy n) eqn:E2; [|exists KDY; cbn [kids]; congruence].
      destruct (n_wc n) eqn:E3; [|exists KWC; cbn [kids]; congruence].
      destruct (n_wi n) eqn:E4; [|exists KWI; cbn [kids]; congruence].
      destruct (n_ec n) eqn:E5; [|exists KEC; cbn [kids]; congruence].
      destruct (n_en n) eqn:E6; [|exists KEN; cbn [kids]; congruence]. discriminate. }
    apply (ncomp_of_kids n' k). apply Hk. exact Hkk.
Qed.

(* ---- what an insertion does to the top node ---- *)
Definition Grows (n n' : node) : Prop :=
  (has_data n = true -> has_data n' = true)
  /\ (forall k, kids k n <> [] -> kids k n' <> [])
  /\ length (n_st n) <= length (n_st n').

Lemma grows_refl n : Grows n n.
Proof. split; [|split]; auto. Qed.

Lemma has_data_set_dirty b n : has_data (set_dirty b n) = has_data n.
Proof. unfold has_data. rewrite data_set_dirty. reflexivity. Qed.

Lemma insert_static_grows fuel n p ps d : Grows n (insert_static fuel n p ps d).
Proof.
  destruct fuel as [|f]; [apply grows_refl|]. rewrite insert_static_S.
  destruct (upd_first _ _ (n_st n)) as [l|] eqn:Eu.
  - apply upd_first_some in Eu as (a & x & b & Hl & _ & _ & ->).
    split; [|split].
    + unfold has_data. rewrite data_set_dirty, data_set_st. auto.
    + intros k. rewrite kids_set_dirty, kids_set_st. auto.
    + rewrite st_set_dirty, st_set_st, Hl, !app_length. cbn [length]. lia.
  - split; [|split].
    + unfold has_data. rewrite data_set_dirty, data_set_st. auto.
    + intros k. rewrite kids_set_dirty, kids_set_st. auto.
    + rewrite st_set_dirty, st_set_st, app_length. lia.
Qed.

Lemma insert_grows fuel n ps d : Grows n (insert fuel n ps d).
Proof.
  destruct fuel as [|f]; [apply grows_refl|]. rewrite insert_S.
  destruct ps as [|[s|nm c|nm c] ps'].
  - split; [|split].
    + intros _. unfold has_data. rewrite data_set_dirty, data_set_data. reflexivity.
    + intros k. rewrite kids_set_dirty, kids_set_data. auto.
    + rewrite st_set_dirty, st_set_data. lia.
  - apply insert_static_grows.
  - destruct (part_kind (PD nm c) ps') as [[k ky]|]; [|apply grows_refl].
    assert (Hset : forall l, (forall k', kids k' n <> [] -> k' = k -> l <> []) -> Grows n (set_dirty true (set_kids k l n))).
    { intros l Hl. split; [|split].
      - unfold has_data. rewrite data_set_dirty, data_set_kids. auto.
      - intros k' Hk'. rewrite kids_set_dirty. destruct (kind_eq_dec k k') as [<-|Hne].
        + rewrite kids_set_kids_same. apply (Hl k Hk' eq_refl).
        + rewrite kids_set_kids_other by exact Hne. exact Hk'.
      - rewrite st_set_dirty, st_set_kids. lia. }
    destruct (is_end k).
    + destruct (existsb _ (kids k n)); [apply grows_refl|]. apply Hset. intros _ _ _. apply app_not_nil.
    + destruct (upd_first _ _ (kids k n)) as [l|] eqn:Eu.
      * apply upd_first_some in Eu as (a & x & b & _ & _ & _ & ->). apply Hset. intros _ _ _. apply app_mid_not_nil.
      * apply Hset. intros _ _ _. apply app_not_nil.
  - destruct (part_kind (PW nm c) ps') as [[k ky]|]; [|apply grows_refl].
    assert (Hset : forall l, (forall k', kids k' n <> [] -> k' = k -> l <> []) -> Grows n (set_dirty true (set_kids k l n))).
    { intros l Hl. split; [|split].
      - unfold has_data. rewrite data_set_dirty, data_set_kids. auto.
      - intros k' Hk'. rewrite kids_set_dirty. destruct (kind_eq_dec k k') as [<-|Hne].
        + rewrite kids_set_kids_same. apply (Hl k Hk' eq_refl).
        + rewrite kids_set_kids_other by exact Hne. exact Hk'.
      - rewrite st_set_dirty, st_set_kids. lia. }
    destruct (is_end k).
    + destruct (existsb _ (kids k n)); [apply grows_refl|]. apply Hset. intros _ _ _. apply app_not_nil.
    + destruct (upd_first _ _ (kids k n)) as [l|] eqn:Eu.
      * apply upd_first_some in Eu as (a & x & b & _ & _ & _ & ->). apply Hset. intros _ _ _. apply app_mid_not_nil.
      * apply Hset. intros _ _ _. apply app_not_nil.
Qed.

(* inserting a part list that does not start with a literal leaves a node that cannot be compressed *)
Lemma insert_head_param_ncomp f n ps d :
  no_ps_head ps = true -> parts_size ps < f -> ncomp (insert f n ps d) = true.
Proof.
  intros Hh Hf. destruct f as [|f]; [lia|]. rewrite insert_S.
  destruct ps as [|[s|nm c|nm c] ps']; [|discriminate| |].
  - apply ncomp_of_data. unfold has_data. rewrite data_set_dirty, data_set_data. reflexivity.
  - destruct (part_kind (PD nm c) ps') as [[k ky]|] eqn:Epk; [|destruct c; discriminate].
    destruct (is_end k).
    + destruct (existsb _ (kids k n)) eqn:Ex.
      * apply (ncomp_of_kids n k). apply existsb_exists in Ex as (y & Hy & _). intros E. rewrite E in Hy. destruct Hy.
      * apply (ncomp_of_kids _ k). rewrite kids_set_dirty, kids_set_kids_same. apply app_not_nil.
    + destruct (upd_first _ _ (kids k n)) as [l|] eqn:Eu.
      * apply upd_first_some in Eu as (a & x & b & _ & _ & _ & ->).
        apply (ncomp_of_kids _ k). rewrite kids_set_dirty, kids_set_kids_same. apply app_mid_not_nil.
      * apply (ncomp_of_kids _ k). rewrite kids_set_dirty, kids_set_kids_same. apply app_not_nil.
  - destruct (part_kind (PW nm c) ps') as [[k ky]|] eqn:Epk; [|destruct c, ps'; discriminate].
    destruct (is_end k).
    + destruct (existsb _ (kids k n)) eqn:Ex.
      * apply (ncomp_of_kids n k). apply existsb_exists in Ex as (y & Hy & _). intros E. rewrite E in Hy. destruct Hy.
      * apply (ncomp_of_kids _ k). rewrite kids_set_dirty, kids_set_kids_same. apply app_not_nil.
    + destruct (upd_first _ _ (kids k n)) as [l|] eqn:Eu.
      * apply upd_first_some in Eu as (a & x & b & _ & _ & _ & ->).
        apply (ncomp_of_kids _ k). rewrite kids_set_dirty, kids_set_kids_same. apply app_mid_not_nil.
      * apply (ncomp_of_kids _ k). rewrite kids_set_dirty, kids_set_kids_same. apply app_not_nil.
Qed.

(* ---- list-level helpers ---- *)
Lemma st_comp_replace a x b x' :
  st_comp (a ++ x :: b) = true -> ncomp (snd x') = true -> comp (snd x') = true -> st_comp (a ++ x' :: b) = true.
Proof.
  unfold st_comp. rewrite !forallb_app. cbn [forallb]. intros H H1 H2. split_andb. rewrite H1, H2.
  repeat (apply andb_true_iff; split); auto.
Qed.
Lemma st_comp_snoc l x : st_comp l = true -> ncomp (snd x) = true -> comp (snd x) = true -> st_comp (l ++ [x]) = true.
Proof. unfold st_comp. rewrite forallb_app. cbn [forallb]. intros -> -> ->. reflexivity. Qed.
Lemma kids_comp_replace a x b x' :
  kids_comp (a ++ x :: b) = true -> comp (snd x') = true -> kids_comp (a ++ x' :: b) = true.
Proof.
  unfold kids_comp. rewrite !forallb_app. cbn [forallb]. intros H H1. split_andb. rewrite H1.
  repeat (apply andb_true_iff; split); auto.
Qed.
Lemma kids_comp_snoc l x : kids_comp l = true -> comp (snd x) = true -> kids_comp (l ++ [x]) = true.
Proof. unfold kids_comp. rewrite forallb_app. cbn [forallb]. intros -> ->. reflexivity. Qed.
Lemma st_comp_in l x : st_comp l = true -> In x l -> ncomp (snd x) = true /\ comp (snd x) = true.
Proof. unfold st_comp. rewrite forallb_forall. intros H Hin. specialize (H x Hin). apply andb_true_iff in H. exact H. Qed.
Lemma kids_comp_in l x : kids_comp l = true -> In x l -> comp (snd x) = true.
Proof. unfold kids_comp. rewrite forallb_forall. intros H Hin. apply (H x Hin). Qed.

Lemma comp_set_kind n k l :
  comp n = true -> (is_end k = false -> kids_comp l = true) -> comp (set_dirty true (set_kids k l n)) = true.
Proof.
  intros Hc Hl. apply comp_iff in Hc as [Hs Hk]. apply comp_iff. split.
  - rewrite st_set_dirty, st_set_kids. exact Hs.
  - intros k' He. rewrite kids_set_dirty. destruct (kind_eq_dec k k') as [<-|Hne].
    + rewrite kids_set_kids_same. apply Hl. exact He.
    + rewrite kids_set_kids_other by exact Hne. apply Hk. exact He.
Qed.

Lemma comp_set_static n l : comp n = true -> st_comp l = true -> comp (set_dirty true (set_st l n)) = true.
Proof.
  intros Hc Hl. apply comp_iff in Hc as [_ Hk]. apply comp_iff. split.
  - rewrite st_set_dirty, st_set_st. exact Hl.
  - intros k He. rewrite kids_set_dirty, kids_set_st. apply Hk. exact He.
Qed.

(* the node created by a split, holding only the old child under the rest of its key *)
Lemma wf_split_parent (k0 : bytes) c cp dfl wfl :
  cp < length k0 -> alive c = true -> wf c = true ->
  wf (set_st [((skipn cp k0, None), c)] (Node None [] [] [] [] [] [] [] dfl wfl true)) = true.
Proof.
  intros Hcp Ha Hw. apply wf_iff. split.
  - rewrite st_set_st. unfold st_wf. apply andb_true_iff. split.
    + apply static_keys_ok_spec. split.
      * constructor; [|constructor]. split; [|reflexivity]. cbn [fst]. rewrite first_byte_skipn. intros E. apply nth_error_None in E. lia.
      * cbn [map]. constructor; [intros []|constructor].
    + cbn [forallb snd]. rewrite Ha, Hw. reflexivity.
  - intros k. rewrite kids_set_st. destruct k; reflexivity.
Qed.

(* ---- insert preserves compression ---- *)
Theorem insert_comp : forall fuel,
  (forall n ps d b, parts_size ps < fuel -> wf n = true -> parts_wf b ps = true -> parts_norm ps = true ->
                    comp n = true -> comp (insert fuel n ps d) = true)
  /\ (forall n p ps d, length p + parts_size ps < fuel -> p <> [] -> wf n = true -> parts_wf false ps = true ->
                       parts_norm ps = true -> no_ps_head ps = true ->
                       comp n = true -> comp (insert_static fuel n p ps d) = true).
Proof.
  induction fuel as [|f [IHi IHs]]; [split; intros; lia|]. split.
  - intros n ps d b Hfuel Hwf Hps Hnorm Hc. rewrite insert_S. pose proof (wf_unpack n Hwf) as W.
    destruct ps as [|p0 ps'].
    + rewrite (comp_same_lists n); [exact Hc|rewrite st_set_dirty, st_set_data; reflexivity|
        intros k; rewrite kids_set_dirty, kids_set_data; reflexivity].
    + pose proof (parts_norm_tail _ _ Hnorm) as Hnorm'.
      destruct p0 as [s|nm c|nm c]; cbn [parts_size parts_wf] in *.
      * apply andb_true_iff in Hps as [Hs Hps]. apply IHs; auto; [lia|destruct s; discriminate|apply (parts_norm_ps s); exact Hnorm].
      * destruct (part_kind (PD nm c) ps') as [[k ky]|] eqn:Epk; [|exact Hc].
        destruct (part_kind_dyn _ _ _ _ _ Epk) as (-> & Hkk & He & Hdy). rewrite He.
        apply andb_true_iff in Hps as [_ Hps].
        pose proof (proj2 (proj1 (comp_iff n) Hc) k He) as Hkc.
        destruct (upd_first _ _ (kids k n)) as [l|] eqn:Eu.
        -- apply upd_first_some in Eu as (a & x & b0 & Hl & _ & _ & ->). apply comp_set_kind; [exact Hc|]. intros _.
           assert (Hxin : In x (kids k n)) by (rewrite Hl; apply in_or_app; right; left; reflexivity).
           destruct (wn_mid n W k x He Hxin) as (_ & _ & _ & Hwx).
           rewrite Hl in Hkc. eapply kids_comp_replace; [exact Hkc|]. cbn [snd].
           apply (IHi (snd x) ps' d true); auto; [lia|]. apply (kids_comp_in _ x) in Hkc; [exact Hkc|apply in_or_app; right; left; reflexivity].
        -- apply comp_set_kind; [exact Hc|]. intros _. apply kids_comp_snoc; [exact Hkc|]. cbn [snd].
           apply (IHi empty_node ps' d true); auto. lia.
      * destruct (part_kind (PW nm c) ps') as [[k ky]|] eqn:Epk; [|exact Hc].
        destruct (part_kind_wild _ _ _ _ _ Epk) as (-> & Hkk & Hdy & Hne).
        apply andb_true_iff in Hps as [_ Hps].
        destruct (is_end k) eqn:He.
        -- destruct (existsb _ (kids k n)); [exact Hc|]. apply comp_set_kind; [exact Hc|]. intros E. congruence.
        -- pose proof (proj2 (proj1 (comp_iff n) Hc) k He) as Hkc.
           destruct (upd_first _ _ (kids k n)) as [l|] eqn:Eu.
           ++ apply upd_first_some in Eu as (a & x & b0 & Hl & _ & _ & ->). apply comp_set_kind; [exact Hc|]. intros _.
              assert (Hxin : In x (kids k n)) by (rewrite Hl; apply in_or_app; right; left; reflexivity).
              destruct (wn_mid n W k x He Hxin) as (_ & _ & _ & Hwx).
              rewrite Hl in Hkc. eapply kids_comp_replace; [exact Hkc|]. cbn [snd].
              apply (IHi (snd x) ps' d true); auto; [lia|]. apply (kids_comp_in _ x) in Hkc; [exact Hkc|apply in_or_app; right; left; reflexivity].
           ++ apply comp_set_kind; [exact Hc|]. intros _. apply kids_comp_snoc; [exact Hkc|]. cbn [snd].
              apply (IHi empty_node ps' d true); auto. lia.
  - intros n p ps d Hfuel Hp Hwf Hps Hnorm Hhead Hc. rewrite insert_static_S. pose proof (wf_unpack n Hwf) as W.
    assert (Hlenp : 1 <= length p) by (destruct p; [congruence|cbn; lia]).
    assert (Hpsz : 1 <= parts_size ps) by (destruct ps as [|[?|? ?|? ?] ?]; cbn; lia).
    pose proof (proj1 (proj1 (comp_iff n) Hc)) as Hsc.
    assert (Hfresh : ncomp (insert f empty_node ps d) = true /\ comp (insert f empty_node ps d) = true).
    { split; [apply insert_head_param_ncomp; [exact Hhead|lia]|]. apply (IHi empty_node ps d false); auto. lia. }
    destruct (upd_first _ _ (n_st n)) as [l|] eqn:Eu.
    + apply upd_first_some in Eu as (a & x & b & Hl & Hx & _ & ->).
      assert (Hxin : In x (n_st n)) by (rewrite Hl; apply in_or_app; right; left; reflexivity).
      destruct (wn_static n W x Hxin) as [Hxa Hxw].
      destruct (st_comp_in _ x Hsc Hxin) as [Hxn Hxc].
      destruct x as [[k0 xcn] c]. cbn [fst snd] in *.
      apply comp_set_static; [exact Hc|]. rewrite Hl in Hsc. eapply st_comp_replace; [exact Hsc| |];
        unfold split_fn; cbn [fst snd]; set (cp := lcp p k0);
        assert (Hcp1 : 1 <= cp) by (apply same_first_lcp; exact Hx);
        destruct (lcp_le p k0) as [Hcp_p Hcp_k]; fold cp in Hcp_p, Hcp_k.
      * (* not compressible *)
        destruct (Nat.leb (length k0) cp) eqn:Ek; cbn [snd].
        -- destruct (Nat.leb (length p) cp).
           ++ destruct (insert_grows f c ps d) as (G1 & G2 & G3). apply (ncomp_mono c); auto.
           ++ destruct (insert_static_grows f c (skipn cp p) ps d) as (G1 & G2 & G3). apply (ncomp_mono c); auto.
        -- destruct (Nat.leb (length p) cp) eqn:Epl.
           ++ apply insert_head_param_ncomp; [exact Hhead|lia].
           ++ apply ncomp_of_two. rewrite st_set_st. cbn [length]. lia.
      * (* compressed below *)
        destruct (Nat.leb (length k0) cp) eqn:Ek; cbn [snd].
        -- apply Nat.leb_le in Ek. destruct (Nat.leb (length p) cp) eqn:Epl.
           ++ apply (IHi c ps d false); auto. lia.
           ++ apply Nat.leb_gt in Epl. apply IHs; auto.
              ** rewrite skipn_length. lia.
              ** intros E. apply (f_equal (@length _)) in E. rewrite skipn_length in E. cbn in E. lia.
        -- apply Nat.leb_gt in Ek.
           assert (Ha : st_comp [((skipn cp k0, @None bytes), c)] = true) by (unfold st_comp; cbn [forallb snd]; rewrite Hxn, Hxc; reflexivity).
           destruct (Nat.leb (length p) cp) eqn:Epl.
           ++ apply (IHi _ ps d false); auto; [lia|apply wf_split_parent; auto|].
              apply comp_iff. split; [rewrite st_set_st; exact Ha|]. intros k _. rewrite kids_set_st. destruct k; reflexivity.
           ++ apply comp_iff. split; [|intros k _; rewrite kids_set_st; destruct k; reflexivity].
              rewrite st_set_st. destruct Hfresh as [F1 F2]. unfold st_comp. cbn [forallb snd]. rewrite Hxn, Hxc, F1, F2. reflexivity.
    + destruct Hfresh as [F1 F2]. apply comp_set_static; [exact Hc|]. apply st_comp_snoc; auto.
Qed.

(* ---- optimize keeps compression ---- *)
From WF Require Import Proofs.RefineP.

Lemma optimize_st_length n : length (n_st (optimize n)) = length (n_st n).
Proof.
  rewrite optimize_eq. destruct (negb (n_dirty n)); [reflexivity|]. cbn [n_st set_flags].
  rewrite (Permutation_length (opt_list_perm (n_st n))). apply map_length.
Qed.

Lemma ncomp_optimize n : ncomp (optimize n) = ncomp n.
Proof.
  unfold ncomp, compressible_b. rewrite optimize_has_data, optimize_only_static.
  pose proof (optimize_st_length n) as Hl.
  destruct (n_st (optimize n)) as [|x [|y l]], (n_st n) as [|x' [|y' l']]; cbn [length] in Hl; try lia; reflexivity.
Qed.

Lemma kids_optimize k n :
  kids k (optimize n) = if negb (n_dirty n) then kids k n else opt_list (kids k n).
Proof. rewrite optimize_eq. destruct (negb (n_dirty n)); [reflexivity|]. destruct k; reflexivity. Qed.

Theorem optimize_comp : forall n, comp n = true -> comp (optimize n) = true.
Proof.
  induction n using node_ind'. set (n := Node d st dc dy wc wi ec en f1 f2 f3) in *. intros Hc.
  destruct (negb (n_dirty n)) eqn:Ed; [rewrite optimize_eq, Ed; exact Hc|].
  apply comp_iff in Hc as [Hs Hk]. apply comp_iff. split.
  - rewrite optimize_eq, Ed. cbn [n_st set_flags]. unfold st_comp. apply forallb_opt_list.
    intros kc Hkc. cbn [snd]. destruct (st_comp_in _ kc Hs Hkc) as [Hn1 Hn2].
    rewrite ncomp_optimize, Hn1. cbn [andb].
    unfold AllP in *. rewrite Forall_forall in H. apply (H kc Hkc Hn2).
  - intros k He. rewrite kids_optimize, Ed. unfold kids_comp. apply forallb_opt_list.
    intros kc Hkc. cbn [snd]. pose proof (kids_comp_in _ kc (Hk k He) Hkc) as Hn2.
    unfold AllP in *. rewrite Forall_forall in *.
    destruct k; try discriminate; cbn [kids n n_dc n_dy n_wc n_wi] in Hkc; auto.
Qed.

(* ---- delete keeps compression ---- *)
Lemma is_compressible_eq n : is_compressible n = compressible_b n.
Proof.
  unfold is_compressible, compressible_b, has_data, only_static_kids.
  destruct (n_data n), (n_st n) as [|x [|y l]], (n_dc n), (n_dy n), (n_wc n), (n_wi n), (n_ec n), (n_en n); reflexivity.
Qed.

Lemma comp_set_dirty b n : comp (set_dirty b n) = comp n.
Proof. apply comp_same_lists; [apply st_set_dirty|intros k; apply kids_set_dirty]. Qed.
Lemma ncomp_set_dirty b n : ncomp (set_dirty b n) = ncomp n.
Proof. destruct n; reflexivity. Qed.

Lemma comp_set_kids n k l : comp n = true -> (is_end k = false -> kids_comp l = true) -> comp (set_kids k l n) = true.
Proof. intros Hc Hl. rewrite <- (comp_set_dirty true). apply comp_set_kind; assumption. Qed.
Lemma comp_set_st n l : comp n = true -> st_comp l = true -> comp (set_st l n) = true.
Proof. intros Hc Hl. rewrite <- (comp_set_dirty true). apply comp_set_static; assumption. Qed.

Lemma forallb_remove' {A} (f : A -> bool) a x b : forallb f (a ++ x :: b) = true -> forallb f (a ++ b) = true.
Proof. rewrite !forallb_app. cbn [forallb]. intros H. split_andb. apply andb_true_iff. auto. Qed.

Theorem delete_comp : forall fuel,
  (forall n ps, comp n = true -> comp (fst (delete fuel n ps)) = true)
  /\ (forall n p ps, comp n = true -> comp (fst (delete_static fuel n p ps)) = true).
Proof.
  induction fuel as [|f [IHd IHs]]; [split; intros; exact H|]. split.
  - intros n ps Hc. rewrite delete_S. destruct ps as [|p0 ps'].
    + destruct (n_data n); [|exact Hc]. cbn [fst]. rewrite comp_set_dirty.
      rewrite (comp_same_lists n); [exact Hc|apply st_set_data|intros k; apply kids_set_data].
    + assert (Hparam : forall k ky,
         comp (fst (match split_at (fun kc : key * node => keqb (fst kc) ky) (kids k n) with
                    | None => (n, None)
                    | Some (a, kc, b) =>
                      if is_end k then
                        match n_data (snd kc) with
                        | None => (set_kids k (a ++ b) n, None)
                        | Some d => (set_dirty true (set_kids k (a ++ b) n), Some d)
                        end
                      else
                        let '(c', r) := delete f (snd kc) ps' in
                        if is_empty c' then (set_dirty true (set_kids k (a ++ b) n), r)
                        else (set_kids k (a ++ (fst kc, c') :: b) n, r)
                    end)) = true).
      { intros k ky. destruct (split_at _ (kids k n)) as [[[a kc] b]|] eqn:Es; [|exact Hc].
        apply split_at_some in Es as (Hl & _).
        destruct (is_end k) eqn:He.
        - destruct (n_data (snd kc)); cbn [fst]; rewrite ?comp_set_dirty; apply comp_set_kids; auto; intros E; congruence.
        - pose proof (proj2 (proj1 (comp_iff n) Hc) k He) as Hkc. rewrite Hl in Hkc.
          pose proof (IHd (snd kc) ps' (kids_comp_in _ kc Hkc (in_elt kc a b))) as Hc'.
          destruct (delete f (snd kc) ps') as [c' r]. cbn [fst] in Hc'.
          destruct (is_empty c'); cbn [fst]; rewrite ?comp_set_dirty; apply comp_set_kids; auto; intros _.
          + apply (forallb_remove' _ a kc b). exact Hkc.
          + eapply kids_comp_replace; [exact Hkc|exact Hc']. }
      destruct p0 as [s|nm c|nm c].
      * apply IHs. exact Hc.
      * destruct (part_kind (PD nm c) ps') as [[k ky]|]; [apply Hparam|exact Hc].
      * destruct (part_kind (PW nm c) ps') as [[k ky]|]; [apply Hparam|exact Hc].
  - intros n p ps Hc. rewrite delete_static_S.
    destruct (split_at _ (n_st n)) as [[[a kc] b]|] eqn:Es; [|exact Hc].
    apply split_at_some in Es as (Hl & _). cbv zeta.
    pose proof (proj1 (proj1 (comp_iff n) Hc)) as Hsc. rewrite Hl in Hsc.
    destruct (st_comp_in _ kc Hsc (in_elt kc a b)) as [_ Hkc].
    assert (Hc' : comp (fst (match skipn (length (fst (fst kc))) p with
                             | [] => delete f (set_dirty true (snd kc)) ps
                             | _ :: _ => delete_static f (set_dirty true (snd kc)) (skipn (length (fst (fst kc))) p) ps
                             end)) = true).
    { destruct (skipn (length (fst (fst kc))) p); [apply IHd|apply IHs]; rewrite comp_set_dirty; exact Hkc. }
    destruct (match skipn (length (fst (fst kc))) p with [] => _ | _ :: _ => _ end) as [c' r]. cbn [fst] in Hc'.
    destruct (is_empty c'); cbn [fst].
    + rewrite comp_set_dirty. apply comp_set_st; [exact Hc|]. apply (forallb_remove' _ a kc b). exact Hsc.
    + destruct (is_compressible c') eqn:Ecomp.
      * destruct (n_st c') as [|[mk m] [|y l]] eqn:Est; cbn [fst]; try exact Hc.
        apply comp_set_st; [exact Hc|].
        pose proof (proj1 (proj1 (comp_iff c') Hc')) as Hsc'. rewrite Est in Hsc'.
        unfold st_comp in Hsc'. cbn [forallb snd] in Hsc'. split_andb.
        eapply st_comp_replace; [exact Hsc| |]; cbn [snd]; [rewrite ncomp_set_dirty|rewrite comp_set_dirty]; assumption.
      * cbn [fst]. apply comp_set_st; [exact Hc|].
        eapply st_comp_replace; [exact Hsc| |]; cbn [snd]; [|exact Hc'].
        unfold ncomp. rewrite <- is_compressible_eq, Ecomp. reflexivity.
Qed.
