(* C07 for the search: the index-level search of Model/SearchC.v (cursors, slices, unwrap - each a possible
   Panic) computes exactly the functional search of Model/Tree.v, hence never reaches a Panic, on every well-formed
   tree whose constraint names are registered - in particular on every router a history reaches, for every path. *)
From Coq Require Import Lia Arith PeanoNat.
From WF Require Import Base.Bytes Base.Utf8 Spec.Route Spec.Walk Model.Tree Model.Parser Model.Constraints Model.SearchC Spec.Inv.
From WF Require Import Proofs.BytesP Proofs.RefineP Proofs.InvP.
Import ListNotations.

(* ---- indices and slices of a split list ---- *)
Lemma idx_mid pre b r site : idx (pre ++ b :: r) (length pre) site = Ret b.
Proof. unfold idx. rewrite nth_error_app2 by lia. rewrite Nat.sub_diag. reflexivity. Qed.

Lemma slice_pre pre rest site : slice (pre ++ rest) 0 (length pre) site = Ret pre.
Proof.
  unfold slice. rewrite app_length. replace (Nat.leb 0 (length pre) && Nat.leb (length pre) (length pre + length rest))%bool with true
    by (symmetry; apply andb_true_intro; split; apply Nat.leb_le; lia).
  cbn [skipn]. rewrite Nat.sub_0_r, firstn_app, Nat.sub_diag, firstn_all. cbn [firstn]. rewrite app_nil_r. reflexivity.
Qed.

Lemma slice_rest pre rest site : slice (pre ++ rest) (length pre) (length (pre ++ rest)) site = Ret rest.
Proof.
  unfold slice. rewrite app_length. replace (Nat.leb (length pre) (length pre + length rest) && Nat.leb (length pre + length rest) (length pre + length rest))%bool with true
    by (symmetry; apply andb_true_intro; split; apply Nat.leb_le; lia).
  rewrite skipn_app, skipn_all, Nat.sub_diag. cbn [skipn app]. replace (length pre + length rest - length pre) with (length rest) by lia.
  rewrite firstn_all. reflexivity.
Qed.

Section Refine.
  Variable cons : list (bytes * bytes).
  Notation chk := (cfun_of cons).

  Definition reg (c : option bytes) : Prop :=
    match c with Some name => List.find (fun nt : bytes * bytes => beqb (fst nt) name) cons <> None | None => True end.

  (* check_constraint followed by the from_utf8 test = the model's [ok] *)
  Lemma check_ok (ky : key) seg : reg (snd ky) ->
    exists okc, check_c cons (snd ky) seg = Ret okc /\ (okc && utf8_valid seg)%bool = ok chk ky seg.
  Proof.
    unfold check_c, ok, copt, cfun_of, reg. destruct (snd ky) as [name|]; intros H.
    - destruct (List.find _ cons) as [[a ty]|]; [|congruence]. eexists. split; [reflexivity|].
      destruct (utf8_valid seg); [rewrite andb_true_r; reflexivity|reflexivity].
    - exists true. split; [reflexivity|]. cbn [andb]. rewrite andb_true_r. reflexivity.
  Qed.

  (* ---- the grow-the-capture loop = the fold of [pick] over the candidate enumeration ---- *)
  Definition step_of (srch : bytes -> res) (ky : key) (best : res) (c : cand) : res :=
    if ok chk ky (fst c) then
      match srch (snd c) with
      | Some (i, ps) =>
        match best with
        | Some (bi, _) => if better i bi then Some (i, (fst ky, fst c) :: ps) else best
        | None => Some (i, (fst ky, fst c) :: ps)
        end
      | None => best
      end
    else best.

  Lemma pick_fold srch ky cs : pick chk srch ky cs = fold_left (step_of srch ky) cs None.
  Proof. reflexivity. Qed.

  Definition cs_of (m : mode) (pre rest : bytes) : list cand :=
    match m with
    | MDynInline => cands_from true pre rest
    | MWildInline => cands_from false pre rest
    | MWildSegment => filter boundary (cands_from false pre rest)
    end.

  Lemma grow_spec m rec srch ky :
    (forall rest, rec rest = Ret (srch rest)) -> reg (snd ky) ->
    forall fuel pre rest best, length rest < fuel ->
      grow cons m rec ky (pre ++ rest) fuel (length pre) best = Ret (fold_left (step_of srch ky) (cs_of m pre rest) best).
  Proof.
    intros Hrec Hreg. induction fuel as [|f IH]; intros pre rest best Hf; [lia|]. cbn [grow].
    destruct rest as [|b r].
    - rewrite app_nil_r, Nat.ltb_irrefl. destruct m; reflexivity.
    - rewrite app_length. cbn [length]. replace (Nat.ltb (length pre) (length pre + S (length r))) with true by (symmetry; apply Nat.ltb_lt; lia).
      assert (Hnext : forall best', grow cons m rec ky (pre ++ b :: r) f (S (length pre)) best'
                        = Ret (fold_left (step_of srch ky) (cs_of m (pre ++ [b]) r) best')).
      { intros best'. replace (pre ++ b :: r) with ((pre ++ [b]) ++ r) by (rewrite <- app_assoc; reflexivity).
        replace (S (length pre)) with (length (pre ++ [b])) by (rewrite app_length; cbn; lia). apply IH. cbn [length] in Hf. lia. }
      (* the body once the cursor has moved: slices, constraint, recursion *)
      assert (Hbody : forall best',
        (do seg <- slice (pre ++ b :: r) 0 (S (length pre)) 43;
         do okc <- check_c cons (snd ky) seg;
         if negb okc then grow cons m rec ky (pre ++ b :: r) f (S (length pre)) best' else
         if negb (utf8_valid seg) then grow cons m rec ky (pre ++ b :: r) f (S (length pre)) best' else
         do rest0 <- slice (pre ++ b :: r) (S (length pre)) (length pre + S (length r)) 44;
         do r0 <- rec rest0;
         match r0 with
         | None => grow cons m rec ky (pre ++ b :: r) f (S (length pre)) best'
         | Some (i, ps) => grow cons m rec ky (pre ++ b :: r) f (S (length pre)) (keep_best best' ky seg i ps)
         end)
        = Ret (fold_left (step_of srch ky) (cs_of m (pre ++ [b]) r) (step_of srch ky best' (pre ++ [b], r)))).
      { intros best'.
        replace (slice (pre ++ b :: r) 0 (S (length pre)) 43) with (@Ret bytes (pre ++ [b])).
        2:{ symmetry. replace (pre ++ b :: r) with ((pre ++ [b]) ++ r) by (rewrite <- app_assoc; reflexivity).
            replace (S (length pre)) with (length (pre ++ [b])) by (rewrite app_length; cbn; lia). apply slice_pre. }
        cbn [bind]. destruct (check_ok ky (pre ++ [b]) Hreg) as (okc & -> & Hok). cbn [bind].
        unfold step_of at 2. cbn [fst snd]. rewrite <- Hok.
        destruct okc; cbn [negb andb]; [|apply Hnext].
        destruct (utf8_valid (pre ++ [b])); cbn [negb]; [|apply Hnext].
        replace (slice (pre ++ b :: r) (S (length pre)) (length pre + S (length r)) 44) with (@Ret bytes r).
        2:{ symmetry. replace (pre ++ b :: r) with ((pre ++ [b]) ++ r) by (rewrite <- app_assoc; reflexivity).
            replace (S (length pre)) with (length (pre ++ [b])) by (rewrite app_length; cbn; lia).
            replace (length pre + S (length r)) with (length ((pre ++ [b]) ++ r)) by (rewrite !app_length; cbn; lia). apply slice_rest. }
        cbn [bind]. rewrite Hrec. cbn [bind]. destruct (srch r) as [[i ps]|]; [|apply Hnext].
        rewrite Hnext. unfold keep_best. reflexivity. }
      destruct m.
      + (* dynamic inline: stop at '/' *)
        rewrite idx_mid. cbn [bind]. cbn [cs_of cands_from andb]. destruct (N.eqb b SL); [reflexivity|]. cbn [bind].
        rewrite Hbody. reflexivity.
      + cbn [bind]. cbn [cs_of cands_from andb]. rewrite Hbody. reflexivity.
      + (* wildcard, whole segments: a capture may only stop at a boundary *)
        cbn [bind]. cbn [cs_of cands_from andb filter].
        destruct r as [|b2 r2].
        * replace (Nat.ltb (S (length pre)) (length pre + S (length (@nil byte)))) with false by (symmetry; apply Nat.ltb_ge; cbn; lia).
          cbn [bind]. unfold boundary at 1. cbn [snd]. rewrite Hbody. reflexivity.
        * replace (Nat.ltb (S (length pre)) (length pre + S (length (b2 :: r2)))) with true by (symmetry; apply Nat.ltb_lt; cbn; lia).
          replace (idx (pre ++ b :: b2 :: r2) (S (length pre)) 42) with (@Ret byte b2).
          2:{ symmetry. replace (pre ++ b :: b2 :: r2) with ((pre ++ [b]) ++ b2 :: r2) by (rewrite <- app_assoc; reflexivity).
              replace (S (length pre)) with (length (pre ++ [b])) by (rewrite app_length; cbn; lia). apply idx_mid. }
          cbn [bind]. unfold boundary at 1. cbn [snd]. destruct (N.eqb b2 SL); cbn [negb].
          -- rewrite Hbody. reflexivity.
          -- rewrite Hnext. reflexivity.
  Qed.
End Refine.

Section Refine2.
  Variable cons : list (bytes * bytes).
  Notation chk := (cfun_of cons).

  (* ---- the sequencing combinators ---- *)
  Lemma first_some_c_spec {X} (f : X -> out res) (g : X -> res) l :
    (forall x, In x l -> f x = Ret (g x)) -> first_some_c f l = Ret (first_some g l).
  Proof.
    induction l as [|x l IH]; intros H; [reflexivity|]. cbn [first_some_c first_some]. rewrite (H x (or_introl eq_refl)). cbn [bind].
    destruct (g x); [reflexivity|]. apply IH. intros y Hy. apply H. right. exact Hy.
  Qed.

  Lemma or_else_c_spec a b (x y : res) : a = Ret x -> b = Ret y -> or_else_c a b = Ret (or_else x y).
  Proof. intros -> ->. unfold or_else_c, or_else. cbn [bind]. destruct x; reflexivity. Qed.

  (* ---- whole-segment dynamic search ---- *)
  Lemma span_seg_split p : p = fst (span_seg p) ++ snd (span_seg p).
  Proof. induction p as [|b r IH]; [reflexivity|]. cbn [span_seg]. destruct (N.eqb b SL); [reflexivity|]. destruct (span_seg r) as [s t]. cbn [fst snd app] in *. f_equal. exact IH. Qed.

  Lemma slash_pos_span p : slash_pos p = length (fst (span_seg p)).
  Proof. induction p as [|b r IH]; [reflexivity|]. cbn [slash_pos span_seg]. destruct (N.eqb b SL); [reflexivity|]. destruct (span_seg r) as [s t]. cbn [fst length] in *. rewrite IH. reflexivity. Qed.

  Definition dcands (path : bytes) : list cand :=
    let '(s, t) := span_seg path in match s with [] => [] | _ => [(s, t)] end.

  Lemma dyn_segment_spec (rec : node -> bytes -> out res) (srch : node -> bytes -> res) path l :
    (forall kc rest, In kc l -> rec (snd kc) rest = Ret (srch (snd kc) rest)) ->
    (forall kc, In kc l -> reg cons (snd (fst kc))) ->
    dyn_segment cons rec path l = Ret (first_some (fun kc : key * node => pick chk (srch (snd kc)) (fst kc) (dcands path)) l).
  Proof.
    unfold key in *. intros Hrec Hreg. pose proof (span_seg_split path) as Hsplit. pose proof (slash_pos_span path) as Hpos.
    unfold dcands. destruct (span_seg path) as [s t] eqn:Esp. cbn [fst snd] in Hsplit, Hpos.
    induction l as [|kc l IH]; [reflexivity|]. cbn [dyn_segment first_some]. rewrite Hpos.
    destruct s as [|b0 s'].
    - cbn [length Nat.eqb]. rewrite pick_fold. cbn [fold_left].
      symmetry. f_equal. apply first_some_none. intros x _. reflexivity.
    - cbn [length Nat.eqb]. assert (Hl : S (length s') = length (b0 :: s')) by reflexivity. rewrite Hl. clear Hl. remember (b0 :: s') as s eqn:Es.
      replace (slice path 0 (length s) 45) with (@Ret bytes s) by (symmetry; rewrite Hsplit; apply (slice_pre s t 45)).
      cbn [bind]. destruct (check_ok cons (fst kc) s (Hreg kc (or_introl eq_refl))) as (okc & Hc & Hok). unfold key in *. rewrite Hc. cbn [bind].
      rewrite pick_fold. cbn [fold_left]. unfold step_of at 1. cbn [fst snd]. rewrite <- Hok.
      destruct okc; cbn [negb andb].
      + destruct (utf8_valid s) eqn:Eu; cbn [negb].
        * replace (slice path (length s) (length path) 46) with (@Ret bytes t) by (symmetry; rewrite Hsplit; apply (slice_rest s t 46)).
          cbn [bind]. rewrite (Hrec kc t (or_introl eq_refl)). cbn [bind]. destruct (srch (snd kc) t) as [[i ps]|]; [reflexivity|].
          apply IH; intros; [apply Hrec|apply Hreg]; right; assumption.
        * (* from_utf8(segment).ok()? : no later sibling can accept this segment either *)
          symmetry. f_equal. apply first_some_none. intros x Hx. rewrite pick_fold. cbn [fold_left]. unfold step_of. cbn [fst snd].
          unfold ok. rewrite Eu. reflexivity.
      + apply IH; intros; [apply Hrec|apply Hreg]; right; assumption.
  Qed.

  (* ---- literal children ---- *)
  Lemma starts_with_index p s :
    starts_with p s = if (Nat.leb (length p) (length s) && beqb p (firstn (length p) s))%bool then Some (skipn (length p) s) else None.
  Proof.
    revert s. induction p as [|x p IH]; intros s; [reflexivity|]. destruct s as [|y s]; [reflexivity|]. cbn [starts_with length firstn skipn beqb Nat.leb].
    destruct (N.eqb x y); cbn [andb]; [apply IH|]. rewrite andb_false_r. reflexivity.
  Qed.

  Lemma slice_skip p n site : n <= length p -> slice p n (length p) site = Ret (skipn n p).
  Proof.
    intros H. unfold slice. replace (Nat.leb n (length p) && Nat.leb (length p) (length p))%bool with true by (symmetry; apply andb_true_intro; split; apply Nat.leb_le; lia).
    f_equal. apply firstn_all2. rewrite skipn_length. lia.
  Qed.

  (* ---- catch-alls ---- *)
  Lemma end_constrained_spec path l :
    (forall kc, In kc l -> reg cons (snd (fst kc)) /\ has_data (snd kc) = true) ->
    end_constrained cons path l = Ret (first_some (fun kc : key * node => pick chk (fun rest => match rest with [] => node_done (snd kc) | _ => None end) (fst kc) [(path, [])]) l).
  Proof.
    unfold key in *. induction l as [|kc l IH]; intros H; [reflexivity|]. cbn [end_constrained first_some].
    destruct (H kc (or_introl eq_refl)) as [Hr Hd]. destruct (check_ok cons (fst kc) path Hr) as (okc & Hc & Hok). unfold key in *. rewrite Hc. cbn [bind].
    rewrite pick_fold. cbn [fold_left]. unfold step_of at 1. cbn [fst snd]. rewrite <- Hok.
    destruct okc; cbn [negb andb]; [|apply IH; intros; apply H; right; assumption].
    destruct (utf8_valid path) eqn:Eu; cbn [negb].
    - unfold node_done, has_data in *. destruct (n_data (snd kc)); [reflexivity|discriminate].
    - symmetry. f_equal. apply first_some_none. intros x _. rewrite pick_fold. cbn [fold_left]. unfold step_of. cbn [fst snd]. unfold ok. rewrite Eu. reflexivity.
  Qed.

  Lemma end_plain_spec path l :
    (forall kc, In kc l -> snd (fst kc) = None /\ has_data (snd kc) = true) ->
    end_plain path l = Ret (first_some (fun kc : key * node => pick chk (fun rest => match rest with [] => node_done (snd kc) | _ => None end) (fst kc) [(path, [])]) l).
  Proof.
    destruct l as [|kc l]; intros H; [reflexivity|]. cbn [end_plain first_some].
    destruct (H kc (or_introl eq_refl)) as [Hn Hd]. rewrite pick_fold. cbn [fold_left]. unfold step_of at 1. cbn [fst snd]. unfold ok at 1. unfold key in *. rewrite Hn. cbn [copt]. rewrite andb_true_r.
    destruct (utf8_valid path) eqn:Eu; cbn [negb].
    - unfold node_done, has_data in *. destruct (n_data (snd kc)); [reflexivity|discriminate].
    - symmetry. f_equal. apply first_some_none. intros x Hx. destruct (H x (or_intror Hx)) as [Hxn _].
      rewrite pick_fold. cbn [fold_left]. unfold step_of. cbn [fst snd]. unfold ok. rewrite Eu. reflexivity.
  Qed.
End Refine2.

(* ---- the whole search ---- *)
From WF Require Import Proofs.WalkP.

Section Main.
  Variable cons : list (bytes * bytes).
  Notation chk := (cfun_of cons).

  Definition regb (c : option bytes) : bool :=
    match c with
    | Some name => match List.find (fun nt : bytes * bytes => beqb (fst nt) name) cons with Some _ => true | None => false end
    | None => true
    end.

  Lemma regb_reg c : regb c = true -> reg cons c.
  Proof. unfold regb, reg. destruct c as [name|]; [|auto]. destruct (List.find _ cons); [intros _; discriminate|discriminate]. Qed.

  (* what the index-level search needs of a tree: constraint names registered (the `unwrap`), catch-all children carry
     data, unconstrained catch-all keys have no constraint *)
  Fixpoint sc_ok (n : node) : bool :=
    let mid (l : list (key * node)) := forallb (fun kc : key * node => regb (snd (fst kc)) && sc_ok (snd kc)) l in
    forallb (fun kc : key * node => sc_ok (snd kc)) (n_st n)
    && mid (n_dc n) && mid (n_dy n) && mid (n_wc n) && mid (n_wi n)
    && forallb (fun kc : key * node => regb (snd (fst kc)) && has_data (snd kc)) (n_ec n)
    && forallb (fun kc : key * node => match snd (fst kc) with None => true | Some _ => false end && has_data (snd kc)) (n_en n).

  Lemma sc_ok_eq n :
    sc_ok n =
    (let mid (l : list (key * node)) := forallb (fun kc : key * node => regb (snd (fst kc)) && sc_ok (snd kc)) l in
     forallb (fun kc : key * node => sc_ok (snd kc)) (n_st n)
     && mid (n_dc n) && mid (n_dy n) && mid (n_wc n) && mid (n_wi n)
     && forallb (fun kc : key * node => regb (snd (fst kc)) && has_data (snd kc)) (n_ec n)
     && forallb (fun kc : key * node => match snd (fst kc) with None => true | Some _ => false end && has_data (snd kc)) (n_en n)).
  Proof. destruct n; reflexivity. Qed.

  Lemma search_c_eq n path :
    search_c cons n path =
    match path with
    | [] => Ret (node_done n)
    | _ :: _ =>
      let fuel := S (length path) in
      let inline (m : mode) (l : list (key * node)) :=
        first_some_c (fun kc : key * node => grow cons m (search_c cons (snd kc)) (fst kc) path fuel 0 None) l in
      or_else_c
        (first_some_c (fun kc : key * node =>
           let prefix := fst (fst kc) in
           if (Nat.leb (length prefix) (length path) && beqb prefix (firstn (length prefix) path))%bool then
             do rest <- slice path (length prefix) (length path) 47; search_c cons (snd kc) rest
           else Ret None) (n_st n))
      (or_else_c (if n_dflag n then dyn_segment cons (search_c cons) path (n_dc n) else inline MDynInline (n_dc n))
      (or_else_c (if n_dflag n then dyn_segment cons (search_c cons) path (n_dy n) else inline MDynInline (n_dy n))
      (or_else_c (inline (if n_wflag n then MWildSegment else MWildInline) (n_wc n))
      (or_else_c (inline (if n_wflag n then MWildSegment else MWildInline) (n_wi n))
      (or_else_c (end_constrained cons path (n_ec n))
                 (end_plain path (n_en n)))))))
    end.
  Proof. destruct n, path; reflexivity. Qed.

  Lemma or_else_none_r' {X} (a : option X) : or_else a None = a.
  Proof. destruct a; reflexivity. Qed.

  Lemma first_some_kinds {X} (f : kind -> option X) :
    first_some f all_kinds = or_else (f KDC) (or_else (f KDY) (or_else (f KWC) (or_else (f KWI) (or_else (f KEC) (or_else (f KEN) None))))).
  Proof.
    unfold all_kinds. cbn [first_some]. destruct (f KDC); [reflexivity|]. destruct (f KDY); [reflexivity|]. destruct (f KWC); [reflexivity|].
    destruct (f KWI); [reflexivity|]. destruct (f KEC); [reflexivity|]. destruct (f KEN); reflexivity.
  Qed.

  Theorem search_c_refines : forall n path, sc_ok n = true -> search_c cons n path = Ret (search chk n path).
  Proof.
    induction n using node_ind'. intros path Hok. rewrite search_c_eq, search_eq. destruct path as [|b0 p0]; [reflexivity|].
    remember (b0 :: p0) as path eqn:Epath. rewrite sc_ok_eq in Hok. cbn [n_data n_st n_dc n_dy n_wc n_wi n_ec n_en n_dflag n_wflag] in *. cbv zeta in Hok |- *.
    apply andb_prop in Hok as [Hok Hen]. apply andb_prop in Hok as [Hok Hec]. apply andb_prop in Hok as [Hok Hwi]. apply andb_prop in Hok as [Hok Hwc].
    apply andb_prop in Hok as [Hok Hdy]. apply andb_prop in Hok as [Hst Hdc].
    (* children answer as the model does *)
    assert (HR : forall l, AllP (fun c => forall path, sc_ok c = true -> search_c cons c path = Ret (search chk c path)) l ->
                 forall kc, In kc l -> sc_ok (snd kc) = true -> forall rest, search_c cons (snd kc) rest = Ret (search chk (snd kc) rest)).
    { intros l Hall kc Hin Hs rest. unfold AllP in Hall. rewrite Forall_forall in Hall. apply (Hall kc Hin rest Hs). }
    assert (Hmid : forall l, forallb (fun kc : key * node => regb (snd (fst kc)) && sc_ok (snd kc)) l = true ->
                   forall kc, In kc l -> reg cons (snd (fst kc)) /\ sc_ok (snd kc) = true).
    { intros l Hf kc Hin. rewrite forallb_forall in Hf. specialize (Hf kc Hin). apply andb_prop in Hf as [G1 G2]. split; [apply regb_reg; exact G1|exact G2]. }
    (* inline loops *)
    assert (HI : forall m (k : kind) l, AllP (fun c => forall path, sc_ok c = true -> search_c cons c path = Ret (search chk c path)) l ->
                 forallb (fun kc : key * node => regb (snd (fst kc)) && sc_ok (snd kc)) l = true ->
                 first_some_c (fun kc : key * node => grow cons m (search_c cons (snd kc)) (fst kc) path (S (length path)) 0 None) l
                 = Ret (first_some (fun kc : key * node => pick chk (search chk (snd kc)) (fst kc) (cs_of m [] path)) l)).
    { intros m k l Hall Hf. apply first_some_c_spec. intros kc Hin. destruct (Hmid l Hf kc Hin) as [Hr Hs].
      rewrite pick_fold. apply (grow_spec cons m (search_c cons (snd kc)) (search chk (snd kc)) (fst kc) (HR l Hall kc Hin Hs) Hr (S (length path)) [] path None). lia. }
    (* whole-segment dynamic *)
    assert (HD : forall l, AllP (fun c => forall path, sc_ok c = true -> search_c cons c path = Ret (search chk c path)) l ->
                 forallb (fun kc : key * node => regb (snd (fst kc)) && sc_ok (snd kc)) l = true ->
                 dyn_segment cons (search_c cons) path l
                 = Ret (first_some (fun kc : key * node => pick chk (search chk (snd kc)) (fst kc) (dcands path)) l)).
    { intros l Hall Hf. apply (dyn_segment_spec cons (search_c cons) (search chk) path l).
      - intros kc rest Hin. destruct (Hmid l Hf kc Hin) as [_ Hs]. apply (HR l Hall kc Hin Hs).
      - intros kc Hin. apply (Hmid l Hf kc Hin). }
    rewrite first_some_kinds. cbn [kids n_dc n_dy n_wc n_wi n_ec n_en].
    (* assemble *)
    apply or_else_c_spec.
    - (* literal children *)
      apply first_some_c_spec. intros kc Hin. rewrite starts_with_index.
      destruct (Nat.leb (length (fst (fst kc))) (length path) && beqb (fst (fst kc)) (firstn (length (fst (fst kc))) path))%bool eqn:E; [|reflexivity].
      apply andb_prop in E as [El _]. apply Nat.leb_le in El. rewrite (slice_skip path _ 47 El). cbn [bind].
      rewrite forallb_forall in Hst. apply (HR st H kc Hin (Hst kc Hin)).
    - (* the six parameter kinds, in order *)
      unfold tcands. cbn [n_dflag n_wflag].
      apply or_else_c_spec; [destruct f1; [apply (HD dc H0 Hdc)|apply (HI MDynInline KDC dc H0 Hdc)]|].
      apply or_else_c_spec; [destruct f1; [apply (HD dy H1 Hdy)|apply (HI MDynInline KDY dy H1 Hdy)]|].
      apply or_else_c_spec; [destruct f2; [apply (HI MWildSegment KWC wc H2 Hwc)|apply (HI MWildInline KWC wc H2 Hwc)]|].
      apply or_else_c_spec; [destruct f2; [apply (HI MWildSegment KWI wi H3 Hwi)|apply (HI MWildInline KWI wi H3 Hwi)]|].
      rewrite (or_else_none_r' (first_some _ en)).
      apply or_else_c_spec.
      + etransitivity; [apply (end_constrained_spec cons path ec)|].
        * intros kc Hin. rewrite forallb_forall in Hec. specialize (Hec kc Hin). apply andb_prop in Hec as [E1 E2]. split; [apply regb_reg; exact E1|exact E2].
        * f_equal. apply first_some_ext. intros kc _. apply pick_ext. intros c [<-|[]]. cbn [snd]. rewrite search_eq. reflexivity.
      + etransitivity; [apply (end_plain_spec cons path en)|].
        * intros kc Hin. rewrite forallb_forall in Hen. specialize (Hen kc Hin). apply andb_prop in Hen as [E1 E2]. split; [unfold key in *; destruct (snd (fst kc)); [discriminate E1|reflexivity]|exact E2].
        * f_equal. apply first_some_ext. intros kc _. apply pick_ext. intros c [<-|[]]. cbn [snd]. rewrite search_eq. reflexivity.
  Qed.
End Main.

(* ---- every router a history reaches meets the precondition ---- *)
From WF Require Import Model.Router Proofs.RoutesP Proofs.InsRoutesP Proofs.ReachP Proofs.RouterRoutesP Proofs.ConsRegP.

Section Reach.
  Variable cons : list (bytes * bytes).

  Definition RouteReg (n : node) : Prop :=
    forall r0 i c, In (r0, i) (routes_of n) -> In c (route_cons r0) -> regb cons (Some c) = true.

  Lemma route_cons_app a b : route_cons (a ++ b) = route_cons a ++ route_cons b.
  Proof. unfold route_cons. apply flat_map_app. Qed.

  Lemma route_cons_AB k : route_cons (map AB k) = [].
  Proof. unfold route_cons. induction k as [|b k IH]; [reflexivity|]. cbn [map flat_map atom_cons app]. exact IH. Qed.

  Lemma sc_ok_of : forall n, wf n = true -> RouteReg n -> sc_ok cons n = true.
  Proof.
    induction n using node_ind'. intros Hwf HR. set (n := Node d st dc dy wc wi ec en f1 f2 f3) in *.
    pose proof (wf_unpack n Hwf) as W. rewrite sc_ok_eq. cbv zeta.
    (* a parameter child: its key is registered, and the child inherits the hypothesis *)
    assert (Hmid : forall k, is_end k = false -> AllP (fun c => wf c = true -> RouteReg c -> sc_ok cons c = true) (kids k n) ->
              forallb (fun kc : key * node => regb cons (snd (fst kc)) && sc_ok cons (snd kc)) (kids k n) = true).
    { intros k He Hall. apply forallb_forall. intros kc Hkc. destruct (wn_mid n W k kc He Hkc) as (_ & _ & Ha & Hw).
      unfold AllP in Hall. rewrite Forall_forall in Hall.
      assert (Hsub : forall r i, In (r, i) (routes_of (snd kc)) -> In (head_atom k (fst kc) :: r, i) (routes_of n)).
      { intros r i Hr. apply (routes_of_kind_in n k kc r i Hkc). unfold kid_routes. rewrite He. exact Hr. }
      apply andb_true_intro. split.
      - destruct (snd (fst kc)) as [c|] eqn:Ec; [|reflexivity].
        pose proof (alive_routes (snd kc) Hw Ha) as Hne. destruct (routes_of (snd kc)) as [|[r i] rs] eqn:Er; [congruence|].
        apply (HR (head_atom k (fst kc) :: r) i c); [apply Hsub; left; reflexivity|].
        unfold route_cons. cbn [flat_map]. apply in_or_app. left. unfold head_atom. destruct k; rewrite Ec; left; reflexivity.
      - apply (Hall kc Hkc Hw). intros r0 i c Hr Hc. apply (HR (head_atom k (fst kc) :: r0) i c (Hsub r0 i Hr)).
        change (head_atom k (fst kc) :: r0) with ([head_atom k (fst kc)] ++ r0). rewrite route_cons_app. apply in_or_app. right. exact Hc. }
    assert (Hend : forall k, is_end k = true ->
              forall kc, In kc (kids k n) -> has_data (snd kc) = true /\ (forall c, snd (fst kc) = Some c -> regb cons (Some c) = true)).
    { intros k He kc Hkc. destruct (wn_end n W k kc He Hkc) as [Hd _]. split; [exact Hd|]. intros c Ec.
      unfold has_data in Hd. destruct (n_data (snd kc)) as [i|] eqn:Ed; [|discriminate].
      apply (HR [head_atom k (fst kc)] i c).
      - apply (routes_of_kind_in n k kc [] i Hkc). unfold kid_routes. rewrite He, Ed. left. reflexivity.
      - unfold route_cons. cbn [flat_map]. apply in_or_app. left. unfold head_atom. destruct k; rewrite Ec; left; reflexivity. }
    repeat (apply andb_true_intro; split).
    - apply forallb_forall. intros kc Hkc. destruct (wn_static n W kc Hkc) as [_ Hw]. unfold AllP in H. rewrite Forall_forall in H.
      apply (H kc Hkc Hw). intros r0 i c Hr Hc. apply (HR (map AB (fst (fst kc)) ++ r0) i c (routes_of_static_in n kc r0 i Hkc Hr)).
      rewrite route_cons_app, route_cons_AB. exact Hc.
    - apply (Hmid KDC eq_refl H0).
    - apply (Hmid KDY eq_refl H1).
    - apply (Hmid KWC eq_refl H2).
    - apply (Hmid KWI eq_refl H3).
    - apply forallb_forall. intros kc Hkc. destruct (Hend KEC eq_refl kc Hkc) as [Hd Hc]. apply andb_true_intro. split; [|exact Hd].
      destruct (snd (fst kc)) as [c|] eqn:Ec; [apply (Hc c eq_refl)|reflexivity].
    - apply forallb_forall. intros kc Hkc. destruct (Hend KEN eq_refl kc Hkc) as [Hd _]. apply andb_true_intro. split; [|exact Hd].
      pose proof (wn_key n W KEN kc Hkc) as Hk. unfold key_ok, key_kind_ok in Hk. apply andb_prop in Hk as [Hk _].
      destruct (snd (fst kc)); [discriminate|reflexivity].
  Qed.
End Reach.

Lemma registered_regb (r : router) c : registered r c = true -> regb (r_constraints r) (Some c) = true.
Proof.
  unfold registered, regb. intros H. apply existsb_exists in H as (nt & Hin & Hb).
  destruct (List.find (fun nt0 : bytes * bytes => beqb (fst nt0) c) (r_constraints r)) eqn:E; [reflexivity|].
  pose proof (find_none _ _ E nt Hin) as Hn. cbv beta in Hn. congruence.
Qed.

(* C07: for every history and every path the index-level search computes the model's answer - it never reaches an
   out-of-range index or slice, an unwrap of None, or the end of its fuel *)
Theorem reachable_search_c b ops path :
  search_c (r_constraints (run b ops)) (r_root (run b ops)) path
  = Ret (search (cfun_of (r_constraints (run b ops))) (r_root (run b ops)) path).
Proof.
  apply search_c_refines. destruct (reachable_inv b ops) as [W _]. apply sc_ok_of; [exact W|].
  intros r0 i c Hr Hc. apply registered_regb. apply (reachable_constraints_registered b ops r0 i c Hr Hc).
Qed.
