(* C17: which URLs the model routers of the regenerated table route, in declarative terms.
   A URL is routed by the router of method m iff it has the shape of an endpoint registered for m:
   "/v2", or "/v2/" name kw [last], each optionally followed by one "/", where name is a repository name
   (accepted by the name grammar), last a non-empty token without '/'; and the match carries the handler of that
   table entry with name (and last) as parameters, verbatim. *)
From Coq Require Import Ascii String Lia.
From WF Require Import Base.Bytes Base.Utf8 Spec.Route Spec.Walk Spec.OciSpec Model.Tree Model.Parser Model.Router.
From WF Require Import Check.Tokens Check.Oci Gen.Oci.
From WF Require Import Proofs.BytesP Proofs.FitsP Proofs.InsRoutesP Proofs.ReachP Proofs.RouterRoutesP Proofs.RegistryP Proofs.ReachOpsP
     Proofs.OciP Proofs.OciTableP.
Import ListNotations.

(* ---- fits, read from left to right ---- *)
Lemma fits_nil_iff chk p vs : fits chk [] p vs <-> p = [] /\ vs = [].
Proof. split; [intros H; inversion H; auto|intros [-> ->]; constructor]. Qed.

Lemma fits_lit_iff chk s r p vs :
  fits chk (map AB s ++ r) p vs <-> exists p', p = s ++ p' /\ fits chk r p' vs.
Proof.
  revert p. induction s as [|b s IH]; intros p; cbn [map app].
  - split; [intros H; exists p; auto|intros (p' & -> & H); exact H].
  - split.
    + intros H. inversion H; subst. apply IH in H4 as (p' & -> & H'). exists p'. auto.
    + intros (p' & -> & H). cbn [app]. constructor. apply IH. exists p'. auto.
Qed.

Lemma fits_wild_iff chk n c r p vs :
  fits chk (AW n c :: r) p vs <->
  exists v rest vs', p = v ++ rest /\ vs = v :: vs' /\ v <> [] /\ utf8_valid v = true /\ copt chk c v = true /\ fits chk r rest vs'.
Proof.
  split.
  - intros H. inversion H; subst. exists v, rest, vs0. auto 10.
  - intros (v & rest & vs' & -> & -> & H1 & H2 & H3 & H4). constructor; assumption.
Qed.

Lemma fits_dyn_iff chk n c r p vs :
  fits chk (AD n c :: r) p vs <->
  exists v rest vs', p = v ++ rest /\ vs = v :: vs' /\ v <> [] /\ ~ In SL v /\ utf8_valid v = true /\ copt chk c v = true /\ fits chk r rest vs'.
Proof.
  split.
  - intros H. inversion H; subst. exists v, rest, vs0. auto 10.
  - intros (v & rest & vs' & -> & -> & H1 & H2 & H3 & H4 & H5). constructor; assumption.
Qed.

(* ---- the declarative URL shapes ---- *)
Definition tok (v : bytes) : Prop := v <> [] /\ ~ In SL v /\ utf8_valid v = true.
Definition rname (v : bytes) : Prop := v <> [] /\ utf8_valid v = true /\ name_ok v = true.
Definition tail (b : bool) : bytes := if b then [SL] else [].

(* url_shape sh name last b url: the URL of shape sh for repository [name] and last token [last], followed by one
   '/' iff b *)
Definition url_shape (sh : shape) (n : bytes) (last : option bytes) (b : bool) (url : bytes) : Prop :=
  match sh with
  | ShRoot => n = [] /\ last = None /\ url = w "/v2" ++ tail b
  | ShBlob => exists d, last = Some d /\ rname n /\ tok d /\ url = w "/v2/" ++ n ++ w "/blobs/" ++ d ++ tail b
  | ShManifest => exists d, last = Some d /\ rname n /\ tok d /\ url = w "/v2/" ++ n ++ w "/manifests/" ++ d ++ tail b
  | ShUploads => last = None /\ rname n /\ url = w "/v2/" ++ n ++ w "/blobs/uploads" ++ tail b
  | ShUpload => exists d, last = Some d /\ rname n /\ tok d /\ url = w "/v2/" ++ n ++ w "/blobs/uploads/" ++ d ++ tail b
  | ShTags => last = None /\ rname n /\ url = w "/v2/" ++ n ++ w "/tags/list" ++ tail b
  end.

(* ---- the routes of the six templates ---- *)
Definition lit (s : string) : route := map AB (w s).
Definition PNAME : atom := AW (w "name") (Some (w "name")).
Definition rtail (b : bool) : route := if b then [AB SL] else [].
Definition shape_route (sh : shape) (b : bool) : route :=
  match sh with
  | ShRoot => lit "/v2" ++ rtail b
  | ShBlob => lit "/v2/" ++ [PNAME] ++ lit "/blobs/" ++ [AD (w "digest") None] ++ rtail b
  | ShManifest => lit "/v2/" ++ [PNAME] ++ lit "/manifests/" ++ [AD (w "reference") None] ++ rtail b
  | ShUploads => lit "/v2/" ++ [PNAME] ++ lit "/blobs/uploads" ++ rtail b
  | ShUpload => lit "/v2/" ++ [PNAME] ++ lit "/blobs/uploads/" ++ [AD (w "reference") None] ++ rtail b
  | ShTags => lit "/v2/" ++ [PNAME] ++ lit "/tags/list" ++ rtail b
  end.

Lemma shape_parse sh :
  exists e1 e2, parse (shape_template sh) = Ret [e1; e2] /\ exp_route e1 = shape_route sh true /\ exp_route e2 = shape_route sh false.
Proof. destruct sh; vm_compute; eexists _, _; repeat split. Qed.

Lemma fits_rtail chk b p vs : fits chk (rtail b) p vs <-> p = tail b /\ vs = [].
Proof.
  destruct b; cbn [rtail tail].
  - split; [intros H; inversion H; subst; match goal with H' : fits _ [] _ _ |- _ => inversion H'; subst end; auto|intros [-> ->]; repeat constructor].
  - apply fits_nil_iff.
Qed.

Definition values (sh : shape) (n : bytes) (last : option bytes) : list bytes :=
  match sh with ShRoot => [] | _ => n :: match last with Some d => [d] | None => [] end end.

Lemma oci_chk_name v : copt oci_chk (Some (w "name")) v = name_ok v.
Proof. reflexivity. Qed.

Theorem fits_shape sh b url vs :
  fits oci_chk (shape_route sh b) url vs <-> exists n last, url_shape sh n last b url /\ vs = values sh n last.
Proof.
  destruct sh; unfold shape_route, lit, PNAME; cbn [url_shape values].
  - (* root *) rewrite fits_lit_iff. split.
    + intros (p' & -> & H). apply fits_rtail in H as [-> ->]. exists [], None. auto.
    + intros (n & last & (-> & -> & ->) & ->). exists (tail b). split; [reflexivity|apply fits_rtail; auto].
  - (* blob *) rewrite fits_lit_iff. split.
    + intros (p1 & -> & H). cbn [app] in H. apply fits_wild_iff in H as (v & rest & vs' & -> & -> & Hv1 & Hv2 & Hv3 & H).
      apply fits_lit_iff in H as (p2 & -> & H). cbn [app] in H.
      apply fits_dyn_iff in H as (d & rest2 & vs2 & -> & -> & Hd1 & Hd2 & Hd3 & _ & H). apply fits_rtail in H as [-> ->].
      exists v, (Some d). split; [|reflexivity]. exists d. rewrite oci_chk_name in Hv3. unfold rname, tok. auto 10.
    + intros (n & last & (d & -> & (Hn1 & Hn2 & Hn3) & (Hd1 & Hd2 & Hd3) & ->) & ->).
      exists (n ++ w "/blobs/" ++ d ++ tail b). split; [reflexivity|]. cbn [app]. apply fits_wild_iff.
      exists n, (w "/blobs/" ++ d ++ tail b), [d]. repeat split; auto. apply fits_lit_iff. exists (d ++ tail b). split; [reflexivity|].
      cbn [app]. apply fits_dyn_iff. exists d, (tail b), []. repeat split; auto. apply fits_rtail. auto.
  - (* manifest *) rewrite fits_lit_iff. split.
    + intros (p1 & -> & H). cbn [app] in H. apply fits_wild_iff in H as (v & rest & vs' & -> & -> & Hv1 & Hv2 & Hv3 & H).
      apply fits_lit_iff in H as (p2 & -> & H). cbn [app] in H.
      apply fits_dyn_iff in H as (d & rest2 & vs2 & -> & -> & Hd1 & Hd2 & Hd3 & _ & H). apply fits_rtail in H as [-> ->].
      exists v, (Some d). split; [|reflexivity]. exists d. rewrite oci_chk_name in Hv3. unfold rname, tok. auto 10.
    + intros (n & last & (d & -> & (Hn1 & Hn2 & Hn3) & (Hd1 & Hd2 & Hd3) & ->) & ->).
      exists (n ++ w "/manifests/" ++ d ++ tail b). split; [reflexivity|]. cbn [app]. apply fits_wild_iff.
      exists n, (w "/manifests/" ++ d ++ tail b), [d]. repeat split; auto. apply fits_lit_iff. exists (d ++ tail b). split; [reflexivity|].
      cbn [app]. apply fits_dyn_iff. exists d, (tail b), []. repeat split; auto. apply fits_rtail. auto.
  - (* uploads *) rewrite fits_lit_iff. split.
    + intros (p1 & -> & H). cbn [app] in H. apply fits_wild_iff in H as (v & rest & vs' & -> & -> & Hv1 & Hv2 & Hv3 & H).
      apply fits_lit_iff in H as (p2 & -> & H). apply fits_rtail in H as [-> ->].
      exists v, None. split; [|reflexivity]. rewrite oci_chk_name in Hv3. unfold rname. auto 10.
    + intros (n & last & (-> & (Hn1 & Hn2 & Hn3) & ->) & ->).
      exists (n ++ w "/blobs/uploads" ++ tail b). split; [reflexivity|]. cbn [app]. apply fits_wild_iff.
      exists n, (w "/blobs/uploads" ++ tail b), []. repeat split; auto. apply fits_lit_iff. exists (tail b). split; [reflexivity|]. apply fits_rtail. auto.
  - (* upload *) rewrite fits_lit_iff. split.
    + intros (p1 & -> & H). cbn [app] in H. apply fits_wild_iff in H as (v & rest & vs' & -> & -> & Hv1 & Hv2 & Hv3 & H).
      apply fits_lit_iff in H as (p2 & -> & H). cbn [app] in H.
      apply fits_dyn_iff in H as (d & rest2 & vs2 & -> & -> & Hd1 & Hd2 & Hd3 & _ & H). apply fits_rtail in H as [-> ->].
      exists v, (Some d). split; [|reflexivity]. exists d. rewrite oci_chk_name in Hv3. unfold rname, tok. auto 10.
    + intros (n & last & (d & -> & (Hn1 & Hn2 & Hn3) & (Hd1 & Hd2 & Hd3) & ->) & ->).
      exists (n ++ w "/blobs/uploads/" ++ d ++ tail b). split; [reflexivity|]. cbn [app]. apply fits_wild_iff.
      exists n, (w "/blobs/uploads/" ++ d ++ tail b), [d]. repeat split; auto. apply fits_lit_iff. exists (d ++ tail b). split; [reflexivity|].
      cbn [app]. apply fits_dyn_iff. exists d, (tail b), []. repeat split; auto. apply fits_rtail. auto.
  - (* tags *) rewrite fits_lit_iff. split.
    + intros (p1 & -> & H). cbn [app] in H. apply fits_wild_iff in H as (v & rest & vs' & -> & -> & Hv1 & Hv2 & Hv3 & H).
      apply fits_lit_iff in H as (p2 & -> & H). apply fits_rtail in H as [-> ->].
      exists v, None. split; [|reflexivity]. rewrite oci_chk_name in Hv3. unfold rname. auto 10.
    + intros (n & last & (-> & (Hn1 & Hn2 & Hn3) & ->) & ->).
      exists (n ++ w "/tags/list" ++ tail b). split; [reflexivity|]. cbn [app]. apply fits_wild_iff.
      exists n, (w "/tags/list" ++ tail b), []. repeat split; auto. apply fits_lit_iff. exists (tail b). split; [reflexivity|]. apply fits_rtail. auto.
Qed.

(* ---- the table slice of a method ---- *)
Fixpoint slice_from (m : bytes) (l : list (bytes * bytes * bytes)) (idx : N) : list (bytes * N) :=
  match l with
  | [] => []
  | (me, t, _) :: l' => if beqb me m then slice_from m l' (idx + 1)%N ++ [(t, idx)] else slice_from m l' (idx + 1)%N
  end.

Lemma table_slice_eq m : table_slice m = slice_from m oci_routes 0%N.
Proof. unfold table_slice. generalize 0%N. induction oci_routes as [|[[me t] h] l IH]; intros idx; [reflexivity|].
  cbn [slice_from]. rewrite <- IH. reflexivity. Qed.

Lemma slice_from_in m l : forall idx t d,
  In (t, d) (slice_from m l idx) <->
  exists k h, nth_error l k = Some (m, t, h) /\ d = (idx + N.of_nat k)%N.
Proof.
  induction l as [|[[me t0] h0] l IH]; intros idx t d; cbn [slice_from].
  - split; [intros []|intros (k & h & H & _); destruct k; discriminate].
  - destruct (beqb me m) eqn:E.
    + apply beqb_eq in E. subst me. rewrite in_app_iff, IH. split.
      * intros [(k & h & Hn & ->)|[Heq|[]]].
        -- exists (S k), h. split; [exact Hn|lia].
        -- inversion Heq; subst. exists 0, h0. split; [reflexivity|lia].
      * intros (k & h & Hn & ->). destruct k as [|k].
        -- cbn in Hn. inversion Hn; subst. right. left. f_equal. lia.
        -- left. exists k, h. split; [exact Hn|lia].
    + rewrite IH. split.
      * intros (k & h & Hn & ->). exists (S k), h. split; [exact Hn|lia].
      * intros (k & h & Hn & ->). destruct k as [|k].
        -- cbn in Hn. inversion Hn; subst. rewrite (proj2 (beqb_eq m m) eq_refl) in E. discriminate.
        -- exists k, h. split; [exact Hn|lia].
Qed.

Lemma table_slice_in m t d :
  In (t, d) (table_slice m) <-> exists h, nth_error oci_routes (N.to_nat d) = Some (m, t, h).
Proof.
  rewrite table_slice_eq, slice_from_in. split.
  - intros (k & h & Hn & ->). exists h. rewrite N.add_0_l, Nnat.Nat2N.id. exact Hn.
  - intros (h & Hn). exists (N.to_nat d), h. split; [exact Hn|]. rewrite Nnat.N2Nat.id. reflexivity.
Qed.

(* the live templates of each method's model router are its slice of the table *)
Fixpoint lveqb (a b : list (bytes * N)) : bool :=
  match a, b with
  | [], [] => true
  | (t1, d1) :: a', (t2, d2) :: b' => beqb t1 t2 && N.eqb d1 d2 && lveqb a' b'
  | _, _ => false
  end.
Lemma lveqb_eq a : forall b, lveqb a b = true -> a = b.
Proof.
  induction a as [|[t1 d1] a IH]; intros [|[t2 d2] b] H; try discriminate; [reflexivity|].
  cbn [lveqb] in H. apply andb_prop in H as [H12 H3]. apply andb_prop in H12 as [H1 H2].
  apply beqb_eq in H1. apply N.eqb_eq in H2. subst. f_equal. apply IH, H3.
Qed.
Lemma live_is_slice_b : forallb (fun m => lveqb (live_of oci_builtins (oci_ops m)) (table_slice m)) methods = true.
Proof. vm_compute. reflexivity. Qed.
Lemma live_is_slice m : In m methods -> live_of oci_builtins (oci_ops m) = table_slice m.
Proof. intros H. apply lveqb_eq. apply (proj1 (forallb_forall _ _) live_is_slice_b m H). Qed.

(* ---- entries of the table are specified (method, shape) pairs ---- *)
Lemma entry_eqb_eq a b : entry_eqb a b = true -> a = b.
Proof.
  destruct a as [[a1 a2] a3], b as [[b1 b2] b3]. unfold entry_eqb. cbn [fst snd]. intros H.
  apply andb_prop in H as [H12 H3]. apply andb_prop in H12 as [H1 H2].
  apply beqb_eq in H1. apply beqb_eq in H2. apply beqb_eq in H3. subst. reflexivity.
Qed.

Lemma spec_table_in m t h : In (m, t, h) spec_table -> exists sh, t = shape_template sh /\ spec_handler m sh = Some h.
Proof.
  unfold spec_table. intros H. apply in_flat_map in H as (m' & _ & H). apply in_flat_map in H as (sh & _ & H).
  destruct (spec_handler m' sh) as [h'|] eqn:E; [|destruct H]. destruct H as [H|[]]. inversion H; subst. exists sh. auto.
Qed.

Lemma table_entry_shape m t h : In (m, t, h) oci_routes -> exists sh, t = shape_template sh /\ spec_handler m sh = Some h.
Proof.
  intros H. pose proof (proj1 (forallb_forall _ _) table_within_spec _ H) as Hx.
  apply existsb_exists in Hx as (e & He & Heq). apply entry_eqb_eq in Heq. subst e. apply (spec_table_in _ _ _ He).
Qed.

Lemma shape_template_inj sh1 sh2 : shape_template sh1 = shape_template sh2 -> sh1 = sh2.
Proof. destruct sh1, sh2; intros H; try reflexivity; vm_compute in H; discriminate. Qed.

(* ---- the theorem ---- *)
Definition pvalues (sh : shape) (n : bytes) (last : option bytes) : params := expected_params n sh last.

Lemma params_of_shape sh b n last ps :
  map fst ps = param_names (shape_route sh b) -> map snd ps = values sh n last ->
  (match sh with ShBlob | ShManifest | ShUpload => exists d, last = Some d | _ => last = None end) ->
  ps = expected_params n sh last.
Proof.
  intros Hn Hv Hl.
  destruct sh; cbn in Hn, Hv; cbn [expected_params last_param_name].
  - destruct ps; [reflexivity|discriminate].
  - destruct Hl as (d & ->). destruct ps as [|[k1 v1] [|[k2 v2] [|? ?]]]; try discriminate. cbn in Hn, Hv. inversion Hn; inversion Hv; subst. reflexivity.
  - destruct Hl as (d & ->). destruct ps as [|[k1 v1] [|[k2 v2] [|? ?]]]; try discriminate. cbn in Hn, Hv. inversion Hn; inversion Hv; subst. reflexivity.
  - subst last. destruct ps as [|[k1 v1] [|? ?]]; try discriminate. cbn in Hn, Hv. inversion Hn; inversion Hv; subst. reflexivity.
  - destruct Hl as (d & ->). destruct ps as [|[k1 v1] [|[k2 v2] [|? ?]]]; try discriminate. cbn in Hn, Hv. inversion Hn; inversion Hv; subst. reflexivity.
  - subst last. destruct ps as [|[k1 v1] [|? ?]]; try discriminate. cbn in Hn, Hv. inversion Hn; inversion Hv; subst. reflexivity.
Qed.

Lemma url_shape_last sh n last b url : url_shape sh n last b url ->
  match sh with ShBlob | ShManifest | ShUpload => exists d, last = Some d | _ => last = None end.
Proof. destruct sh; cbn [url_shape]; intros H; try (destruct H as (d & -> & _); eauto); tauto. Qed.

(* a routed URL: the shape of an endpoint registered for the method, its handler, its parameters *)
Theorem oci_routed_means m url i ps :
  In m methods -> rsearch oci_chk (oci_router m) url = Some (i, ps) ->
  exists sh n last b h,
    In (m, shape_template sh, h) oci_routes /\ spec_handler m sh = Some h
    /\ url_shape sh n last b url /\ handler_of (i_data i) = h /\ ps = expected_params n sh last.
Proof.
  intros Hm H. destruct (oci_routed_is_genuine m url i ps H) as (r & HRM & Hnames & Hfits).
  apply oci_routes_are_the_table in HRM as (t & d & es & Hlive & Hparse & Hti).
  rewrite (live_is_slice m Hm) in Hlive. apply table_slice_in in Hlive as (h & Hnth).
  pose proof (nth_error_In _ _ Hnth) as Hin. destruct (table_entry_shape m t h Hin) as (sh & -> & Hspec).
  apply tinfo_some in Hti as (e & He & Hr & _ & Hd).
  destruct (shape_parse sh) as (e1 & e2 & Hp & R1 & R2). rewrite Hp in Hparse. inversion Hparse; subst es.
  assert (Hb : exists b, r = shape_route sh b).
  { destruct He as [<-|[<-|[]]]; [exists true|exists false]; congruence. }
  destruct Hb as (b & ->).
  apply fits_shape in Hfits as (n & last & Hshape & Hvals).
  exists sh, n, last, b, h. split; [exact Hin|]. split; [exact Hspec|]. split; [exact Hshape|]. split.
  - unfold handler_of. rewrite Hd, Hnth. reflexivity.
  - apply (params_of_shape sh b n last ps Hnames Hvals (url_shape_last _ _ _ _ _ Hshape)).
Qed.

(* and every URL of the shape of an endpoint registered for the method is routed *)
Theorem oci_shape_is_routed m sh h n last b url :
  In m methods -> In (m, shape_template sh, h) oci_routes -> url_shape sh n last b url ->
  rsearch oci_chk (oci_router m) url <> None.
Proof.
  intros Hm Hin Hshape. apply In_nth_error in Hin as (k & Hnth).
  assert (Hlive : In (shape_template sh, N.of_nat k) (live_of oci_builtins (oci_ops m))).
  { rewrite (live_is_slice m Hm). apply table_slice_in. exists h. rewrite Nnat.Nat2N.id. exact Hnth. }
  destruct (shape_parse sh) as (e1 & e2 & Hp & R1 & R2).
  assert (Hrt : route_of_template (shape_template sh) (shape_route sh b)).
  { exists [e1; e2]. destruct b; [exists e1|exists e2]; (split; [exact Hp|]); (split; [cbn; auto|congruence]). }
  pose proof (reachable_abs oci_builtins (oci_ops m)) as A.
  destruct (abs_complete _ _ A _ _ _ Hlive Hrt) as (i & HRM & _).
  rewrite <- oci_router_is_run in HRM.
  apply (oci_fitting_url_is_routed m url (shape_route sh b) i (values sh n last) HRM).
  apply fits_shape. exists n, last. auto.
Qed.

Corollary oci_routing_semantics m url :
  In m methods ->
  (rsearch oci_chk (oci_router m) url <> None <->
   exists sh n last b h, In (m, shape_template sh, h) oci_routes /\ url_shape sh n last b url).
Proof.
  intros Hm. split.
  - intros H. destruct (rsearch oci_chk (oci_router m) url) as [[i ps]|] eqn:E; [|congruence].
    destruct (oci_routed_means m url i ps Hm E) as (sh & n & last & b & h & H1 & _ & H3 & _). exists sh, n, last, b, h. auto.
  - intros (sh & n & last & b & h & H1 & H2). apply (oci_shape_is_routed m sh h n last b url Hm H1 H2).
Qed.

(* ---- against end-1..end-10 directly ---- *)
Lemma spec_handler_method m sh h : spec_handler m sh = Some h -> In m all_methods.
Proof.
  unfold all_methods. intros H.
  destruct (beqb m (OciSpec.w "GET")) eqn:E1; [apply beqb_eq in E1; subst m; cbn; tauto|].
  destruct (beqb m (OciSpec.w "HEAD")) eqn:E2; [apply beqb_eq in E2; subst m; cbn; tauto|].
  destruct (beqb m (OciSpec.w "POST")) eqn:E3; [apply beqb_eq in E3; subst m; cbn; tauto|].
  destruct (beqb m (OciSpec.w "PUT")) eqn:E4; [apply beqb_eq in E4; subst m; cbn; tauto|].
  destruct (beqb m (OciSpec.w "PATCH")) eqn:E5; [apply beqb_eq in E5; subst m; cbn; tauto|].
  destruct (beqb m (OciSpec.w "DELETE")) eqn:E6; [apply beqb_eq in E6; subst m; cbn; tauto|].
  exfalso. unfold spec_handler in H. cbv beta zeta in H. destruct sh; cbv beta iota in H; rewrite ?E1, ?E2, ?E3, ?E4, ?E5, ?E6 in H; cbn [orb] in H; cbv iota in H; discriminate.
Qed.

Lemma spec_table_complete m sh h : spec_handler m sh = Some h -> In (m, shape_template sh, h) spec_table.
Proof.
  intros H. unfold spec_table. apply in_flat_map. exists m. split; [apply (spec_handler_method m sh h H)|].
  apply in_flat_map. exists sh. split; [destruct sh; cbn; tauto|]. rewrite H. left. reflexivity.
Qed.

Lemma existsb_entry_in e l : existsb (entry_eqb e) l = true -> In e l.
Proof. intros H. apply existsb_exists in H as (x & Hx & Heq). apply entry_eqb_eq in Heq. subst. exact Hx. Qed.

(* for every HTTP method and every URL: the model router routes the URL iff end-1..end-10 define an endpoint of
   that method with a URL of that shape - end-5 only if the example registers it (it does not: K1) *)
Theorem oci_spec_semantics m url :
  In m methods ->
  (rsearch oci_chk (oci_router m) url <> None <->
   exists sh n last b h,
     spec_handler m sh = Some h /\ ((m, shape_template sh, h) = END5 -> end5_present = true) /\ url_shape sh n last b url).
Proof.
  intros Hm. rewrite (oci_routing_semantics m url Hm). split.
  - intros (sh & n & last & b & h & Hin & Hs). destruct (table_entry_shape m _ h Hin) as (sh' & Ht & Hspec).
    apply shape_template_inj in Ht. subst sh'. exists sh, n, last, b, h. split; [exact Hspec|]. split; [|exact Hs].
    intros Heq. unfold end5_present. apply existsb_exists. exists END5. split; [rewrite <- Heq; exact Hin|].
    unfold entry_eqb. rewrite !(proj2 (beqb_eq _ _) eq_refl). reflexivity.
  - intros (sh & n & last & b & h & Hspec & H5 & Hs). exists sh, n, last, b, h. split; [|exact Hs].
    pose proof (spec_table_complete m sh h Hspec) as Hst.
    pose proof (proj1 (forallb_forall _ _) spec_within_table_except_end5 _ Hst) as Hx.
    apply orb_prop in Hx as [Hx|Hx]; [apply existsb_entry_in; exact Hx|].
    apply entry_eqb_eq in Hx. specialize (H5 Hx). unfold end5_present in H5. rewrite Hx. apply existsb_entry_in. exact H5.
Qed.
