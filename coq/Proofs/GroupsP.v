(* Characterisation of [groups]: strictly sorted keys, each group is exactly the sub-list of the
   members with that key (in list order). *)
From Coq Require Import Lia Sorted Permutation.
From WF Require Import Base.Bytes Base.Utf8 Spec.Route Spec.Walk Proofs.BytesP Proofs.WalkP.

Definition klt (a b : key) : Prop := kcmp a b = Lt.
Definition glt (a b : key * routes) : Prop := klt (fst a) (fst b).

Lemma klt_trans a b c : klt a b -> klt b c -> klt a c.
Proof. apply kcmp_lt_trans. Qed.
Lemma klt_irrefl a : ~ klt a a.
Proof. unfold klt. rewrite kcmp_refl. discriminate. Qed.
Lemma kcmp_gt_lt a b : kcmp a b = Gt -> klt b a.
Proof. unfold klt. rewrite (kcmp_antisym a b). intros ->. reflexivity. Qed.
Lemma keqb_refl k : keqb k k = true.
Proof. apply keqb_eq. reflexivity. Qed.
Lemma keqb_neq a b : a <> b -> keqb a b = false.
Proof. intros H. destruct (keqb a b) eqn:E; [|reflexivity]. apply keqb_eq in E. contradiction. Qed.
Lemma keqb_sym a b : keqb a b = keqb b a.
Proof.
  destruct (keqb a b) eqn:E.
  - apply keqb_eq in E. subst. symmetry. apply keqb_refl.
  - symmetry. apply keqb_neq. intros ->. rewrite keqb_refl in E. discriminate.
Qed.

Definition ginsert' (kx : key * (route * info)) (gs : list (key * routes)) := ginsert (fst kx) (snd kx) gs.
Definition gfold (l : list (key * (route * info))) : list (key * routes) := fold_right ginsert' [] l.

Lemma groups_gfold k rs : groups k rs = gfold (filter_map (key_of k) rs).
Proof. reflexivity. Qed.

(* ---- sortedness ---- *)
Lemma ginsert_sorted k x gs :
  StronglySorted glt gs ->
  StronglySorted glt (ginsert k x gs)
  /\ (forall b, Forall (glt b) gs -> klt (fst b) k -> Forall (glt b) (ginsert k x gs)).
Proof.
  induction gs as [|[k' g'] gs IH]; intros Hs; cbn [ginsert].
  - split; [repeat constructor|]. intros b _ Hb. repeat constructor. exact Hb.
  - apply StronglySorted_inv in Hs as [Hs Hall].
    destruct (kcmp k k') eqn:E.
    + apply kcmp_eq in E; subst k'. split.
      * constructor; [exact Hs|]. exact Hall.
      * intros b Hb _. apply Forall_inv in Hb as Hb1. apply Forall_inv_tail in Hb.
        constructor; [exact Hb1|exact Hb].
    + split.
      * constructor; [constructor; auto|].
        constructor; [exact E|]. eapply Forall_impl; [|exact Hall].
        intros a Ha. unfold glt in *. cbn [fst] in *. eapply klt_trans; eauto.
      * intros b Hb Hbk. constructor; [exact Hbk|exact Hb].
    + destruct (IH Hs) as [IH1 IH2]. split.
      * constructor; [exact IH1|]. apply (IH2 (k', g')); [exact Hall|]. cbn [fst]. apply kcmp_gt_lt. exact E.
      * intros b Hb Hbk. apply Forall_inv in Hb as Hb1. apply Forall_inv_tail in Hb.
        constructor; [exact Hb1|]. apply IH2; auto.
Qed.

Lemma gfold_sorted l : StronglySorted glt (gfold l).
Proof.
  induction l as [|kx l IH]; cbn; [constructor|]. apply ginsert_sorted. exact IH.
Qed.

(* ---- lookup ---- *)
Definition glookup (ky : key) (gs : list (key * routes)) : option routes :=
  option_map snd (List.find (fun kg : key * routes => keqb (fst kg) ky) gs).

Lemma glookup_cons ky k g gs : glookup ky ((k, g) :: gs) = if keqb k ky then Some g else glookup ky gs.
Proof. unfold glookup. cbn [find fst]. destruct (keqb k ky); reflexivity. Qed.

Lemma glookup_nil ky : glookup ky [] = None.
Proof. reflexivity. Qed.

Lemma glookup_absent ky gs : Forall (fun kg => fst kg <> ky) gs -> glookup ky gs = None.
Proof.
  induction gs as [|[k g] gs IH]; intros H; [reflexivity|].
  apply Forall_inv in H as H1. apply Forall_inv_tail in H. cbn [fst] in *.
  rewrite glookup_cons, keqb_neq by exact H1. apply IH. exact H.
Qed.

Lemma glookup_ginsert ky k0 x0 gs :
  StronglySorted glt gs ->
  glookup ky (ginsert k0 x0 gs) =
  if keqb ky k0 then Some (x0 :: match glookup k0 gs with Some g => g | None => [] end)
  else glookup ky gs.
Proof.
  induction gs as [|[k' g'] gs IH]; intros Hs; cbn [ginsert].
  - rewrite glookup_cons, !glookup_nil. rewrite (keqb_sym k0 ky). destruct (keqb ky k0); reflexivity.
  - apply StronglySorted_inv in Hs as [Hs Hall].
    destruct (kcmp k0 k') eqn:E.
    + apply kcmp_eq in E; subst k'. rewrite !glookup_cons, keqb_refl.
      rewrite (keqb_sym k0 ky). destruct (keqb ky k0); reflexivity.
    + assert (Habs : glookup k0 ((k', g') :: gs) = None).
      { apply glookup_absent. constructor.
        - cbn [fst]. intros ->. apply (klt_irrefl k0). exact E.
        - eapply Forall_impl; [|exact Hall]. intros a Ha Heq. unfold glt in Ha. cbn [fst] in Ha.
          subst k0. apply (klt_irrefl (fst a)). eapply klt_trans; eauto. }
      rewrite Habs. rewrite (glookup_cons ky k0). rewrite (keqb_sym k0 ky).
      destruct (keqb ky k0); reflexivity.
    + rewrite (glookup_cons ky k'), (glookup_cons ky k'), (glookup_cons k0 k').
      assert (Hne : keqb k' k0 = false).
      { apply keqb_neq. intros ->. rewrite kcmp_refl in E. discriminate. }
      rewrite Hne.
      destruct (keqb k' ky) eqn:Ek.
      * apply keqb_eq in Ek. subst ky. rewrite Hne. reflexivity.
      * apply IH. exact Hs.
Qed.

(* the members with key ky, in order *)
Definition sel (ky : key) (l : list (key * (route * info))) : routes :=
  map snd (filter (fun kx : key * (route * info) => keqb (fst kx) ky) l).

Lemma glookup_gfold ky l :
  glookup ky (gfold l) = match sel ky l with [] => None | g => Some g end.
Proof.
  induction l as [|[k0 x0] l IH]; [reflexivity|].
  cbn [gfold fold_right]. unfold ginsert' at 1. cbn [fst snd].
  rewrite glookup_ginsert by apply gfold_sorted. fold (gfold l).
  unfold sel. cbn [filter fst]. rewrite (keqb_sym k0 ky).
  destruct (keqb ky k0) eqn:E.
  - apply keqb_eq in E. subst k0. cbn [map snd]. fold (sel ky l). rewrite IH.
    destruct (sel ky l); reflexivity.
  - fold (sel ky l). exact IH.
Qed.

(* a strictly sorted group list is determined by its keys and its lookups *)
Lemma sorted_determined gs :
  StronglySorted glt gs ->
  gs = map (fun ky => (ky, match glookup ky gs with Some g => g | None => [] end)) (map fst gs).
Proof.
  induction gs as [|[k g] gs IH]; intros Hs; [reflexivity|].
  apply StronglySorted_inv in Hs as [Hs Hall].
  cbn [map fst]. f_equal.
  - rewrite glookup_cons, keqb_refl. reflexivity.
  - rewrite (IH Hs) at 1. rewrite !map_map. apply map_ext_in. intros [k' g'] Hin. cbn [fst]. f_equal.
    rewrite (glookup_cons k' k).
    rewrite Forall_forall in Hall. specialize (Hall _ Hin). unfold glt in Hall. cbn [fst] in Hall.
    rewrite keqb_neq; [reflexivity|]. intros ->. apply (klt_irrefl k'). exact Hall.
Qed.

Lemma in_keys_glookup ky gs : In ky (map fst gs) <-> glookup ky gs <> None.
Proof.
  induction gs as [|[k g] gs IH]; cbn [map fst].
  - split; [intros []|intros H; exfalso; apply H; reflexivity].
  - rewrite glookup_cons. destruct (keqb k ky) eqn:E.
    + apply keqb_eq in E. subst. split; [intros _; discriminate|intros _; left; reflexivity].
    + rewrite <- IH. split.
      * intros [->|H]; [rewrite keqb_refl in E; discriminate|exact H].
      * intros H. right. exact H.
Qed.

Lemma gkeys_spec ky l : In ky (map fst (gfold l)) <-> exists x, In (ky, x) l.
Proof.
  rewrite in_keys_glookup, glookup_gfold. unfold sel. split.
  - intros H. destruct (filter _ l) as [|[k x] fl] eqn:E; [cbn in H; congruence|].
    assert (Hin : In (k, x) (filter (fun kx : key * (route * info) => keqb (fst kx) ky) l)) by (rewrite E; left; reflexivity).
    apply filter_In in Hin as [Hin Hk]. cbn [fst] in Hk. apply keqb_eq in Hk. subst. eauto.
  - intros (x & Hin).
    assert (Hf : In (ky, x) (filter (fun kx : key * (route * info) => keqb (fst kx) ky) l)).
    { apply filter_In. split; [exact Hin|]. cbn [fst]. apply keqb_refl. }
    destruct (filter _ l); [destruct Hf|]. cbn. discriminate.
Qed.

(* two strictly sorted key lists with the same members are equal *)
Lemma sorted_keys_unique (a b : list key) :
  StronglySorted klt a -> StronglySorted klt b -> (forall k, In k a <-> In k b) -> a = b.
Proof.
  revert b; induction a as [|x a IH]; intros b Ha Hb Hm.
  - destruct b as [|y b]; [reflexivity|]. exfalso. apply (proj2 (Hm y)). left; reflexivity.
  - destruct b as [|y b]; [exfalso; apply (proj1 (Hm x)); left; reflexivity|].
    apply StronglySorted_inv in Ha as [Ha Hxa]. apply StronglySorted_inv in Hb as [Hb Hyb].
    rewrite Forall_forall in Hxa, Hyb.
    assert (x = y).
    { destruct (proj1 (Hm x) (or_introl eq_refl)) as [->|Hxb]; [reflexivity|].
      destruct (proj2 (Hm y) (or_introl eq_refl)) as [->|Hya]; [reflexivity|].
      exfalso. apply (klt_irrefl x). eapply klt_trans; [apply Hxa; exact Hya|apply Hyb; exact Hxb]. }
    subst y. f_equal. apply IH; auto.
    intros k. split; intros Hk.
    + destruct (proj1 (Hm k) (or_intror Hk)) as [->|H]; [|exact H].
      exfalso. apply (klt_irrefl k). apply Hxa. exact Hk.
    + destruct (proj2 (Hm k) (or_intror Hk)) as [->|H]; [|exact H].
      exfalso. apply (klt_irrefl k). apply Hyb. exact Hk.
Qed.

Lemma gfold_keys_sorted l : StronglySorted klt (map fst (gfold l)).
Proof.
  pose proof (gfold_sorted l) as H. induction H as [|a gs Hs IH Hall]; cbn; [constructor|].
  constructor; [exact IH|]. rewrite Forall_forall in *. intros k Hk. apply in_map_iff in Hk as (b & <- & Hb). apply Hall. exact Hb.
Qed.

(* the full characterisation *)
Lemma gfold_char l :
  gfold l = map (fun ky => (ky, sel ky l)) (map fst (gfold l)).
Proof.
  rewrite (sorted_determined (gfold l) (gfold_sorted l)) at 1.
  apply map_ext. intros ky. rewrite glookup_gfold. destruct (sel ky l); reflexivity.
Qed.

(* permuting the members keeps the keys and permutes each group *)
Lemma gfold_keys_perm l1 l2 : Permutation l1 l2 -> map fst (gfold l1) = map fst (gfold l2).
Proof.
  intros Hp. apply sorted_keys_unique; try apply gfold_keys_sorted.
  intros k. rewrite !gkeys_spec. split; intros (x & Hx); exists x.
  - eapply Permutation_in; eauto.
  - eapply Permutation_in; [apply Permutation_sym|]; eauto.
Qed.

Lemma sel_perm ky l1 l2 : Permutation l1 l2 -> Permutation (sel ky l1) (sel ky l2).
Proof.
  intros Hp. unfold sel. apply Permutation_map.
  induction Hp; cbn [filter].
  - constructor.
  - destruct (keqb (fst x) ky); [constructor|]; exact IHHp.
  - destruct (keqb (fst x) ky), (keqb (fst y) ky); try constructor; apply Permutation_refl.
  - eapply Permutation_trans; eauto.
Qed.
