(* The rendered error messages contain the strings the errors are about.  The format strings are
   regenerated from the Rust sources (Gen/Formats.v) on every run; the per-format facts below are
   closed computations over them, the general lemmas are about the interpreter Model/Render.v. *)
From Coq Require Import Lia.
From WF Require Import Base.Bytes Spec.Route Model.Parser Model.Router Model.Display Gen.Formats Model.Render.
From WF Require Import Proofs.BytesP.

Definition Infix (x y : bytes) : Prop := exists a b, y = a ++ x ++ b.

Lemma Infix_app_l x y a : Infix x y -> Infix x (a ++ y).
Proof. intros (p & q & ->). exists (a ++ p), q. rewrite <- app_assoc. reflexivity. Qed.
Lemma Infix_app_r x y b : Infix x y -> Infix x (y ++ b).
Proof. intros (p & q & ->). exists p, (q ++ b). rewrite <- !app_assoc. reflexivity. Qed.
Lemma Infix_refl x : Infix x x.
Proof. exists [], []. rewrite app_nil_r. reflexivity. Qed.

Definition field_text (ar : arrow) senv nenv cs (c : chunk) : bytes :=
  match c with
  | CLit s => s
  | CField f =>
    if beqb f F_arrow then arrow_text ar senv nenv
    else if beqb f F_conflicts then conflicts_text ar cs
    else lookup [] f senv
  end.

Lemma interp_eq fmt ar senv nenv cs : interp fmt ar senv nenv cs = flat_map (field_text ar senv nenv cs) fmt.
Proof. reflexivity. Qed.

Lemma flat_map_infix {A} (g : A -> bytes) l x : In x l -> Infix (g x) (flat_map g l).
Proof.
  induction l as [|y l IH]; [intros []|]. intros [<-|Hin]; cbn [flat_map].
  - apply Infix_app_r. apply Infix_refl.
  - apply Infix_app_l. apply IH. exact Hin.
Qed.

(* a {field} placeholder shows the field's value *)
Lemma interp_contains fmt ar senv nenv cs f :
  In (CField f) fmt -> beqb f F_arrow = false -> beqb f F_conflicts = false ->
  Infix (lookup [] f senv) (interp fmt ar senv nenv cs).
Proof.
  intros Hin H1 H2. rewrite interp_eq.
  pose proof (flat_map_infix (field_text ar senv nenv cs) fmt (CField f) Hin) as H.
  cbn [field_text] in H. rewrite H1, H2 in H. exact H.
Qed.

Lemma interp_contains_conflicts fmt ar senv nenv cs :
  In (CField F_conflicts) fmt -> Infix (conflicts_text ar cs) (interp fmt ar senv nenv cs).
Proof.
  intros Hin. rewrite interp_eq.
  pose proof (flat_map_infix (field_text ar senv nenv cs) fmt (CField F_conflicts) Hin) as H.
  exact H.
Qed.

Lemma join_nl_infix (l : list bytes) x : In x l -> Infix x (join_nl l).
Proof.
  induction l as [|y l IH]; [intros []|]. intros [<-|Hin].
  - destruct l; cbn [join_nl]; [apply Infix_refl|apply Infix_app_r; apply Infix_refl].
  - destruct l as [|z l]; [destruct Hin|]. cbn [join_nl]. apply Infix_app_l. apply Infix_app_l. apply IH. exact Hin.
Qed.

Lemma Infix_trans x y z : Infix x y -> Infix y z -> Infix x z.
Proof.
  intros (a & b & ->) (c & d & ->). exists (c ++ a), (b ++ d). rewrite <- !app_assoc. reflexivity.
Qed.

(* every conflicting template appears verbatim in the conflict list (no trimming) *)
Lemma conflicts_text_contains indent cs c :
  In c cs -> Infix c (conflicts_text (AConflictList indent false) cs).
Proof.
  intros Hin. cbn [conflicts_text].
  eapply Infix_trans; [|apply join_nl_infix; apply in_map; exact Hin].
  apply Infix_app_l. apply Infix_app_l. apply Infix_refl.
Qed.

(* ---- per error: closed computations over the regenerated formats ---- *)
Ltac field_in := vm_compute; repeat (try (left; reflexivity); right).

Theorem render_conflict_contains t cs :
  Infix t (render_insert_err (IEConflict t cs))
  /\ forall c, In c cs -> Infix c (render_insert_err (IEConflict t cs)).
Proof.
  split.
  - apply (interp_contains fmt_InsertError_Conflict arrow_InsertError_Conflict [(F_template, t)] [] cs F_template);
      [field_in|reflexivity|reflexivity].
  - intros c Hc. eapply Infix_trans; [apply (conflicts_text_contains 8 cs c Hc)|].
    apply (interp_contains_conflicts fmt_InsertError_Conflict arrow_InsertError_Conflict [(F_template, t)] [] cs). field_in.
Qed.

Theorem render_unknown_contains c : Infix c (render_insert_err (IEUnknownConstraint c)).
Proof.
  apply (interp_contains fmt_InsertError_UnknownConstraint arrow_InsertError_UnknownConstraint [(F_constraint, c)] [] [] F_constraint);
    [field_in|reflexivity|reflexivity].
Qed.

Theorem render_notfound_contains t : Infix t (render_delete_err (DENotFound t)).
Proof.
  apply (interp_contains fmt_DeleteError_NotFound arrow_DeleteError_NotFound [(F_template, t)] [] [] F_template);
    [field_in|reflexivity|reflexivity].
Qed.

Theorem render_mismatch_contains t i :
  Infix t (render_delete_err (DEMismatch t i)) /\ Infix i (render_delete_err (DEMismatch t i)).
Proof.
  split.
  - apply (interp_contains fmt_DeleteError_Mismatch arrow_DeleteError_Mismatch [(F_template, t); (F_inserted, i)] [] [] F_template);
      [field_in|reflexivity|reflexivity].
  - pose proof (interp_contains fmt_DeleteError_Mismatch arrow_DeleteError_Mismatch [(F_template, t); (F_inserted, i)] [] [] F_inserted) as H.
    apply H; [field_in|reflexivity|reflexivity].
Qed.

Theorem render_duplicate_contains n old new :
  Infix n (render_constraint_err (CEDuplicateName n old new))
  /\ Infix old (render_constraint_err (CEDuplicateName n old new))
  /\ Infix new (render_constraint_err (CEDuplicateName n old new)).
Proof.
  repeat split.
  - apply (interp_contains fmt_ConstraintError_DuplicateName arrow_ConstraintError_DuplicateName
             [(F_name, n); (F_existing_type, old); (F_new_type, new)] [] [] F_name); [field_in|reflexivity|reflexivity].
  - pose proof (interp_contains fmt_ConstraintError_DuplicateName arrow_ConstraintError_DuplicateName
             [(F_name, n); (F_existing_type, old); (F_new_type, new)] [] [] F_existing_type) as H.
    apply H; [field_in|reflexivity|reflexivity].
  - pose proof (interp_contains fmt_ConstraintError_DuplicateName arrow_ConstraintError_DuplicateName
             [(F_name, n); (F_existing_type, old); (F_new_type, new)] [] [] F_new_type) as H.
    apply H; [field_in|reflexivity|reflexivity].
Qed.

(* InsertError::Template and DeleteError::Template delegate to the template error *)
Theorem render_delegates te :
  render_insert_err (IETemplate te) = render_terr te /\ render_delete_err (DETemplate te) = render_terr te.
Proof. split; reflexivity. Qed.

(* ---- template errors: "Template: <t>" followed by the caret line ---- *)
(* find  {template} CLit mid {arrow}  in a format *)
Fixpoint find_tpl_arrow (fmt : list chunk) : option bytes :=
  match fmt with
  | CField f :: ((CLit mid :: CField g :: _) as rest) =>
    if beqb f F_template && beqb g F_arrow then Some mid else find_tpl_arrow rest
  | _ :: rest => find_tpl_arrow rest
  | [] => None
  end.

Lemma find_tpl_arrow_sound fmt mid ar senv nenv cs :
  find_tpl_arrow fmt = Some mid ->
  Infix (lookup [] F_template senv ++ mid ++ arrow_text ar senv nenv) (interp fmt ar senv nenv cs).
Proof.
  rewrite interp_eq. induction fmt as [|c fmt IH]; [discriminate|].
  cbn [find_tpl_arrow flat_map].
  destruct c as [s|f].
  - intros H. apply Infix_app_l. apply IH. exact H.
  - destruct fmt as [|[mid'|g0] [|[s2|g] fmt2]]; try (intros H; apply Infix_app_l; apply IH; exact H).
    destruct (beqb f F_template && beqb g F_arrow) eqn:E.
    + intros H; inversion H; subst. apply andb_true_iff in E as [E1 E2].
      apply beqb_eq in E1, E2. subst f g.
      cbn [flat_map field_text]. 
      exists [], (flat_map (field_text ar senv nenv cs) fmt2). cbn [app].
      replace (beqb F_template F_arrow) with false by reflexivity.
      replace (beqb F_template F_conflicts) with false by reflexivity.
      replace (beqb F_arrow F_arrow) with true by reflexivity.
      rewrite <- !app_assoc. reflexivity.
    + intros H. apply Infix_app_l. apply IH. exact H.
Qed.

Definition CARET_MID : bytes := NL ++ repeat SP 14.

Theorem render_terr_caret_line e :
  match e with
  | EEmptyBraces t p | EEmptyParentheses t p =>
    Infix (t ++ CARET_MID ++ repeat SP p ++ repeat CARET 2) (render_terr e)
  | EUnbalancedBrace t p | EUnbalancedParenthesis t p =>
    Infix (t ++ CARET_MID ++ repeat SP p ++ repeat CARET 1) (render_terr e)
  | EEmptyParameter t s l | EInvalidParameter t _ s l | EEmptyWildcard t s l
  | EEmptyConstraint t s l | EInvalidConstraint t _ s l | ETouchingParameters t s l =>
    Infix (t ++ CARET_MID ++ repeat SP s ++ repeat CARET l) (render_terr e)
  | EMissingLeadingSlash t => Infix t (render_terr e)
  | EDuplicateParameter t n f fl s sl =>
    Infix (t ++ CARET_MID ++ set_carets (set_carets (repeat SP (length t)) f fl) s sl) (render_terr e)
    /\ Infix n (render_terr e)
  | EEmpty => True
  end.
Proof.
  destruct e; cbn [render_terr]; try exact I;
    try (match goal with
         | |- Infix _ (interp ?fmt ?ar ?senv ?nenv ?cs) =>
           apply (find_tpl_arrow_sound fmt CARET_MID ar senv nenv cs); vm_compute; reflexivity
         end).
  - apply (interp_contains fmt_TemplateError_MissingLeadingSlash arrow_TemplateError_MissingLeadingSlash [(F_template, t)] [] [] F_template);
      [field_in|reflexivity|reflexivity].
  - split.
    + assert (Hf : find_tpl_arrow fmt_TemplateError_DuplicateParameter = Some CARET_MID) by (vm_compute; reflexivity).
      exact (find_tpl_arrow_sound fmt_TemplateError_DuplicateParameter CARET_MID arrow_TemplateError_DuplicateParameter
               [(F_template, t); (F_name, name)]
               [(F_first, first); (F_first_length, first_len); (F_second, second); (F_second_length, second_len)] [] Hf).
    + pose proof (interp_contains fmt_TemplateError_DuplicateParameter arrow_TemplateError_DuplicateParameter
               [(F_template, t); (F_name, name)] [(F_first, first); (F_first_length, first_len); (F_second, second); (F_second_length, second_len)] [] F_name) as H.
      apply H; [field_in|reflexivity|reflexivity].
Qed.
