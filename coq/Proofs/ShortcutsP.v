(* C05 / C06 / C03: the two shortcut flags.  src/node/optimize.rs update_dynamic_children_shortcut and
   update_wildcard_children_shortcut are REGENERATED on every run into a small condition language (Gen/Shortcuts.v);
   here that table is compiled (closed computation), given its meaning over the model's nodes, and proved equal to
   the flag conditions of Model/Ops.v (dyn_cond, wild_cond) - for EVERY node. *)
From Coq Require Import Ascii String List Bool.
From WF Require Import Base.Bytes Base.Utf8 Spec.Route Spec.Walk Model.Tree Model.Ops Check.Tokens Gen.Shortcuts Proofs.ShapesP.
Import ListNotations.

Inductive lsel := LDC | LDY | LWC | LWI.
Inductive dis := DName | DNoKids | DStatics.

Definition sel_of (f : bytes) : option lsel :=
  if beqb f (w "dynamic_constrained_children") then Some LDC
  else if beqb f (w "dynamic_children") then Some LDY
  else if beqb f (w "wildcard_constrained_children") then Some LWC
  else if beqb f (w "wildcard_children") then Some LWI
  else None.

Definition dis_of (c : scond) : option dis :=
  match c with
  | SNameSlash => Some DName
  | SNoChildren l => if bl_eqb l seven_lists then Some DNoKids else None     (* all seven lists of the child, no fewer *)
  | SStaticsSlash => Some DStatics
  | SUnknown => None
  end.

Fixpoint all_some {A} (l : list (option A)) : option (list A) :=
  match l with
  | [] => Some []
  | Some x :: l' => option_map (cons x) (all_some l')
  | None :: _ => None
  end.

Fixpoint bytes_list_eqb (a b : list bytes) : bool :=
  match a, b with [], [] => true | x :: a', y :: b' => beqb x y && bytes_list_eqb a' b' | _, _ => false end.

(* a flag compiles when every check iterates one of the four parameter lists with recognised disjuncts and the flag is
   the conjunction of exactly its checks, in order *)
Definition compile_flag (fl : bytes * list (bytes * bytes * list scond) * list bytes) : option (list (lsel * list dis)) :=
  let '(_, checks, comb) := fl in
  if bytes_list_eqb (map (fun c : bytes * bytes * list scond => fst (fst c)) checks) comb then
    all_some (map (fun c : bytes * bytes * list scond =>
                match sel_of (snd (fst c)), all_some (map dis_of (snd c)) with
                | Some s, Some ds => Some (s, ds)
                | _, _ => None
                end) checks)
  else None.

Definition compiled_flag (name : string) : option (list (lsel * list dis)) :=
  match List.find (fun fl : bytes * list (bytes * bytes * list scond) * list bytes => beqb (fst (fst fl)) (w name)) gen_shortcuts with
  | Some fl => compile_flag fl
  | None => None
  end.

(* ---- closed computations over the regenerated table ---- *)
Lemma dynamic_flag_compiles :
  compiled_flag "dynamic_children_shortcut" = Some [(LDC, [DName; DNoKids; DStatics]); (LDY, [DName; DNoKids; DStatics])].
Proof. vm_compute. reflexivity. Qed.

Lemma wildcard_flag_compiles :
  compiled_flag "wildcard_children_shortcut" = Some [(LWC, [DNoKids; DStatics]); (LWI, [DNoKids; DStatics])].
Proof. vm_compute. reflexivity. Qed.

Lemma two_flags_only : length gen_shortcuts = 2.
Proof. reflexivity. Qed.

(* ---- what a compiled flag means on a node of the model ---- *)
Definition sel_list (s : lsel) (n : node) : list (key * node) :=
  match s with LDC => n_dc n | LDY => n_dy n | LWC => n_wc n | LWI => n_wi n end.

Definition sem_dis (d : dis) (kc : key * node) : bool :=
  match d with
  | DName => hd_is SL (fst (fst kc))                                                     (* child.state.name starts with '/' *)
  | DNoKids => no_kids (snd kc)                                                          (* all seven lists of the child empty *)
  | DStatics => forallb (fun kc' : key * node => hd_is SL (fst (fst kc'))) (n_st (snd kc))  (* every literal child starts with '/' *)
  end.

(* `.iter().all(|child| { if d1 { return true } ... false })` per check, `&&` over the checks *)
Definition sem_flag (cf : list (lsel * list dis)) (n : node) : bool :=
  forallb (fun c : lsel * list dis => forallb (fun kc => existsb (fun d => sem_dis d kc) (snd c)) (sel_list (fst c) n)) cf.

Lemma forallb_ext' {A} (f g : A -> bool) l : (forall x, f x = g x) -> forallb f l = forallb g l.
Proof. intros H. induction l as [|x l IH]; [reflexivity|]. cbn [forallb]. rewrite H, IH. reflexivity. Qed.

Theorem dynamic_flag_is_dyn_cond n :
  sem_flag [(LDC, [DName; DNoKids; DStatics]); (LDY, [DName; DNoKids; DStatics])] n = dyn_cond n.
Proof.
  unfold sem_flag, dyn_cond. cbn [forallb fst snd sel_list]. rewrite andb_true_r.
  f_equal; apply forallb_ext'; intros kc; cbn [existsb sem_dis]; unfold slash_led; rewrite orb_false_r; reflexivity.
Qed.

Theorem wildcard_flag_is_wild_cond n :
  sem_flag [(LWC, [DNoKids; DStatics]); (LWI, [DNoKids; DStatics])] n = wild_cond n.
Proof.
  unfold sem_flag, wild_cond. cbn [forallb fst snd sel_list]. rewrite andb_true_r.
  f_equal; apply forallb_ext'; intros kc; cbn [existsb sem_dis]; unfold slash_led; rewrite orb_false_r; reflexivity.
Qed.

(* the regenerated computations ARE the model's flag conditions, on every node *)
Theorem regenerated_shortcuts_are_the_model_conditions :
  exists cd cw,
    compiled_flag "dynamic_children_shortcut" = Some cd /\ compiled_flag "wildcard_children_shortcut" = Some cw
    /\ forall n, sem_flag cd n = dyn_cond n /\ sem_flag cw n = wild_cond n.
Proof.
  eexists. eexists. split; [exact dynamic_flag_compiles|]. split; [exact wildcard_flag_compiles|].
  intros n. split; [apply dynamic_flag_is_dyn_cond|apply wildcard_flag_is_wild_cond].
Qed.
