(* The routes of a tree after Node::insert: the inserted route is there, every other route is
   untouched. *)
From Coq Require Import Lia Arith PeanoNat Permutation.
From WF Require Import Base.Bytes Base.Utf8 Spec.Route Spec.Walk Model.Tree Model.Ops Spec.Inv.
From WF Require Import Proofs.BytesP Proofs.WalkP Proofs.GroupsP Proofs.RefineP Proofs.InvP Proofs.OptimizeP
     Proofs.OpsLemmasP Proofs.InsertP Proofs.RoutesP.

Definition ends_in_wild (r : route) : bool := match rev r with AW _ _ :: _ => true | _ => false end.

Definition Mem := route -> info -> Prop.
Definition mem_of (R : routes) : Mem := fun r i => In (r, i) R.

(* M' is M with route r0 set to d (an existing catch-all route keeps its old info) *)
Definition InsM (M M' : Mem) (r0 : route) (d : info) : Prop :=
  (forall r i, r <> r0 -> (M' r i <-> M r i))
  /\ (M' r0 d \/ (ends_in_wild r0 = true /\ exists o, M r0 o /\ M' r0 o))
  /\ (ends_in_wild r0 = true -> forall o, M r0 o -> M' r0 o).

Lemma ends_in_wild_app pre r : r <> [] -> ends_in_wild (pre ++ r) = ends_in_wild r.
Proof.
  intros Hr. unfold ends_in_wild. rewrite rev_app_distr. destruct (rev r) eqn:E; [|reflexivity].
  apply (f_equal (@rev _)) in E. rewrite rev_involutive in E. cbn in E. congruence.
Qed.

(* a change below the prefix [pre] lifts to the parent *)
Lemma InsM_lift (X C C' M M' : Mem) pre r0' d :
  (forall r i, M r i <-> X r i \/ exists r', r = pre ++ r' /\ C r' i) ->
  (forall r i, M' r i <-> X r i \/ exists r', r = pre ++ r' /\ C' r' i) ->
  (ends_in_wild r0' = true -> r0' <> []) ->
  (r0' = [] -> ends_in_wild pre = true -> forall o, C [] o -> C' [] o) ->
  InsM C C' r0' d -> InsM M M' (pre ++ r0') d.
Proof.
  intros HM HM' Hw Hnil (Ha & Hb & Hc). split; [|split].
  - intros r i Hne. rewrite HM, HM'. split; intros [H|(r' & -> & H)]; auto; right; exists r'; split; auto;
      apply (Ha r' i); auto; intros ->; apply Hne; reflexivity.
  - destruct Hb as [Hb|(Hw' & o & Ho & Ho')].
    + left. apply HM'. right. exists r0'. auto.
    + right. split; [rewrite ends_in_wild_app; auto|]. exists o. split; [apply HM|apply HM']; right; exists r0'; auto.
  - intros Hwd o Ho. apply HM'. apply HM in Ho as [Ho|(r' & Hr & Ho)]; [left; exact Ho|].
    right. exists r'. split; [exact Hr|]. apply app_inv_head in Hr. subst r'.
    destruct r0' as [|a0 r0''].
    + rewrite app_nil_r in Hwd. apply (Hnil eq_refl Hwd o Ho).
    + apply Hc; [rewrite ends_in_wild_app in Hwd by discriminate; exact Hwd|exact Ho].
Qed.

Lemma ends_in_wild_AB k : ends_in_wild (map AB k) = false.
Proof.
  unfold ends_in_wild. rewrite <- map_rev. destruct (rev k); reflexivity.
Qed.

Lemma ends_in_wild_nonempty r : ends_in_wild r = true -> r <> [].
Proof. intros H ->. discriminate. Qed.

(* membership of a node's routes, with one static child singled out *)
Lemma mem_static_split n a x b :
  n_st n = a ++ x :: b ->
  forall r i, In (r, i) (routes_of n) <->
    ((r = [] /\ n_data n = Some i)
     \/ (exists kc r', (In kc a \/ In kc b) /\ r = map AB (fst (fst kc)) ++ r' /\ In (r', i) (routes_of (snd kc)))
     \/ (exists k kc r', In kc (kids k n) /\ r = head_atom k (fst kc) :: r' /\ In (r', i) (kid_routes k (snd kc))))
    \/ exists r', r = map AB (fst (fst x)) ++ r' /\ In (r', i) (routes_of (snd x)).
Proof.
  intros Hs r i. rewrite in_routes_of, Hs. split.
  - intros [H|[(kc & r' & Hkc & Hr)|H]]; [left; left; exact H| |left; right; right; exact H].
    apply in_split_mid in Hkc as [Hkc|[->|Hkc]].
    + left; right; left. exists kc, r'. split; [left; exact Hkc|exact Hr].
    + right. exists r'. exact Hr.
    + left; right; left. exists kc, r'. split; [right; exact Hkc|exact Hr].
  - intros [[H|[(kc & r' & Hkc & Hr)|H]]|(r' & Hr)]; [left; exact H| |right; right; exact H|].
    + right; left. exists kc, r'. split; [|exact Hr]. apply in_split_mid. destruct Hkc; auto.
    + right; left. exists x, r'. split; [|exact Hr]. apply in_split_mid. auto.
Qed.

(* ... with one child of kind k singled out *)
Lemma mem_kind_split n k a x b :
  kids k n = a ++ x :: b ->
  forall r i, In (r, i) (routes_of n) <->
    ((r = [] /\ n_data n = Some i)
     \/ (exists kc r', In kc (n_st n) /\ r = map AB (fst (fst kc)) ++ r' /\ In (r', i) (routes_of (snd kc)))
     \/ (exists k' kc r', (k' <> k /\ In kc (kids k' n) \/ k' = k /\ (In kc a \/ In kc b))
                          /\ r = head_atom k' (fst kc) :: r' /\ In (r', i) (kid_routes k' (snd kc))))
    \/ exists r', r = [head_atom k (fst x)] ++ r' /\ In (r', i) (kid_routes k (snd x)).
Proof.
  intros Hs r i. rewrite in_routes_of. split.
  - intros [H|[H|(k' & kc & r' & Hkc & Hr)]]; [left; left; exact H|left; right; left; exact H|].
    destruct (kind_eq_dec k' k) as [->|Hne].
    + rewrite Hs in Hkc. apply in_split_mid in Hkc as [Hkc|[->|Hkc]].
      * left; right; right. exists k, kc, r'. split; [right; split; auto|exact Hr].
      * right. exists r'. exact Hr.
      * left; right; right. exists k, kc, r'. split; [right; split; auto|exact Hr].
    + left; right; right. exists k', kc, r'. split; [left; split; auto|exact Hr].
  - intros [[H|[H|(k' & kc & r' & Hkc & Hr)]]|(r' & Hr)]; [left; exact H|right; left; exact H| |].
    + right; right. exists k', kc, r'. split; [|exact Hr].
      destruct Hkc as [[_ Hkc]|[-> Hkc]]; [exact Hkc|]. rewrite Hs. apply in_split_mid. destruct Hkc; auto.
    + right; right. exists k, x, r'. split; [|exact Hr]. rewrite Hs. apply in_split_mid. auto.
Qed.

(* ---- "everything but one slot" as an explicit predicate ---- *)
Definition StX (dat : option info) (kd : kind -> list (key * node)) (a b : list (key * node)) : Mem :=
  fun r i =>
    (r = [] /\ dat = Some i)
    \/ (exists kc r', (In kc a \/ In kc b) /\ r = map AB (fst (fst kc)) ++ r' /\ In (r', i) (routes_of (snd kc)))
    \/ (exists k kc r', In kc (kd k) /\ r = head_atom k (fst kc) :: r' /\ In (r', i) (kid_routes k (snd kc))).

Lemma mem_static_slot n a x b :
  n_st n = a ++ x :: b ->
  forall r i, In (r, i) (routes_of n) <->
    StX (n_data n) (fun k => kids k n) a b r i
    \/ exists r', r = map AB (fst (fst x)) ++ r' /\ In (r', i) (routes_of (snd x)).
Proof. intros Hs. apply mem_static_split. exact Hs. Qed.

Lemma StX_ext dat kd kd' a b r i : (forall k, kd' k = kd k) -> StX dat kd' a b r i <-> StX dat kd a b r i.
Proof.
  intros H. unfold StX. split; intros [Hx|[Hx|(k & kc & r' & Hkc & Hr)]]; auto; right; right; exists k, kc, r';
    [rewrite <- H|rewrite H]; auto.
Qed.

Definition KdX (dat : option info) (st : list (key * node)) (kd : kind -> list (key * node)) (k : kind)
           (a b : list (key * node)) : Mem :=
  fun r i =>
    (r = [] /\ dat = Some i)
    \/ (exists kc r', In kc st /\ r = map AB (fst (fst kc)) ++ r' /\ In (r', i) (routes_of (snd kc)))
    \/ (exists k' kc r', (k' <> k /\ In kc (kd k') \/ k' = k /\ (In kc a \/ In kc b))
                         /\ r = head_atom k' (fst kc) :: r' /\ In (r', i) (kid_routes k' (snd kc))).

Lemma mem_kind_slot n k a x b :
  kids k n = a ++ x :: b ->
  forall r i, In (r, i) (routes_of n) <->
    KdX (n_data n) (n_st n) (fun k => kids k n) k a b r i
    \/ exists r', r = [head_atom k (fst x)] ++ r' /\ In (r', i) (kid_routes k (snd x)).
Proof. intros Hs. apply mem_kind_split. exact Hs. Qed.

Lemma KdX_ext dat st kd kd' k a b r i :
  (forall k', k' <> k -> kd' k' = kd k') -> KdX dat st kd' k a b r i <-> KdX dat st kd k a b r i.
Proof.
  intros H. unfold KdX. split; intros [Hx|[Hx|(k' & kc & r' & Hkc & Hr)]]; auto; right; right; exists k', kc, r';
    (split; [|exact Hr]); destruct Hkc as [[Hne Hkc]|Hkc]; auto; left; split; auto;
    [rewrite <- H|rewrite H]; auto.
Qed.

(* the slot at the END of a list: everything else is the old node *)
Lemma KdX_snoc_is_old n k r i :
  KdX (n_data n) (n_st n) (fun k => kids k n) k (kids k n) [] r i <-> In (r, i) (routes_of n).
Proof.
  rewrite in_routes_of. unfold KdX. split.
  - intros [H|[H|(k' & kc & r' & Hkc & Hr)]]; auto. right; right. exists k', kc, r'. split; [|exact Hr].
    destruct Hkc as [[_ Hkc]|[-> [Hkc|[]]]]; exact Hkc.
  - intros [H|[H|(k' & kc & r' & Hkc & Hr)]]; auto. right; right. exists k', kc, r'. split; [|exact Hr].
    destruct (kind_eq_dec k' k) as [->|Hne]; [right; split; auto|left; split; auto].
Qed.

Lemma StX_snoc_is_old n r i :
  StX (n_data n) (fun k => kids k n) (n_st n) [] r i <-> In (r, i) (routes_of n).
Proof.
  rewrite in_routes_of. unfold StX. split.
  - intros [H|[(kc & r' & Hkc & Hr)|H]]; auto. right; left. exists kc, r'. split; [|exact Hr]. destruct Hkc as [Hkc|[]]; exact Hkc.
  - intros [H|[(kc & r' & Hkc & Hr)|H]]; auto. right; left. exists kc, r'. split; [left; exact Hkc|exact Hr].
Qed.

(* a fresh leaf or chain below an empty node *)
Lemma mem_empty r i : ~ In (r, i) (routes_of empty_node).
Proof. intros H. exact H. Qed.

Lemma InsM_ext (M1 M2 M1' M2' : Mem) r0 d :
  (forall r i, M1 r i <-> M2 r i) -> (forall r i, M1' r i <-> M2' r i) -> InsM M1 M1' r0 d -> InsM M2 M2' r0 d.
Proof.
  intros H H' (Ha & Hb & Hc). split; [|split].
  - intros r i Hne. rewrite <- H, <- H'. apply Ha. exact Hne.
  - destruct Hb as [Hb|(Hw & o & Ho & Ho')]; [left; apply H'; exact Hb|].
    right. split; [exact Hw|]. exists o. split; [apply H|apply H']; assumption.
  - intros Hw o Ho. apply H'. apply Hc; [exact Hw|apply H; exact Ho].
Qed.

Definition RM (n : node) : Mem := mem_of (routes_of n).

(* replacing / adding a child of kind k *)
Lemma InsM_kind_replace n n' k a x b c' r0' d :
  kids k n = a ++ x :: b -> kids k n' = a ++ (fst x, c') :: b ->
  n_data n' = n_data n -> n_st n' = n_st n -> (forall k', k' <> k -> kids k' n' = kids k' n) ->
  is_end k = false -> (ends_in_wild r0' = true -> r0' <> []) ->
  (r0' = [] -> is_dyn k = true) ->
  InsM (RM (snd x)) (RM c') r0' d ->
  InsM (RM n) (RM n') ([head_atom k (fst x)] ++ r0') d.
Proof.
  intros Hk Hk' Hd Hs Ho He Hw Hdy HI.
  apply (InsM_lift (KdX (n_data n) (n_st n) (fun k => kids k n) k a b) (RM (snd x)) (RM c')); auto;
    [| |intros Hnil Hwd; specialize (Hdy Hnil); destruct k; discriminate].
  - intros r i. unfold RM, mem_of. rewrite (mem_kind_slot n k a x b Hk). unfold kid_routes. rewrite He. reflexivity.
  - intros r i. unfold RM, mem_of. rewrite (mem_kind_slot n' k a (fst x, c') b Hk'). cbn [fst snd]. unfold kid_routes. rewrite He.
    rewrite Hd, Hs. rewrite (KdX_ext _ _ (fun k0 => kids k0 n) (fun k0 => kids k0 n')); [reflexivity|exact Ho].
Qed.

Lemma InsM_kind_snoc n n' k ky c' r0' d (C' : Mem) :
  kids k n' = kids k n ++ [(ky, c')] ->
  n_data n' = n_data n -> n_st n' = n_st n -> (forall k', k' <> k -> kids k' n' = kids k' n) ->
  (forall r i, C' r i <-> In (r, i) (kid_routes k c')) ->
  (ends_in_wild r0' = true -> r0' <> []) ->
  InsM (fun _ _ => False) C' r0' d ->
  InsM (RM n) (RM n') ([head_atom k ky] ++ r0') d.
Proof.
  intros Hk' Hd Hs Ho HC Hw HI.
  apply (InsM_lift (RM n) (fun _ _ => False) C'); auto; [| |intros _ _ o []].
  - intros r i. split; [auto|]. intros [H|(r' & _ & [])]. exact H.
  - intros r i. unfold RM, mem_of. rewrite (mem_kind_slot n' k (kids k n) (ky, c') [] Hk'). cbn [fst snd].
    rewrite Hd, Hs. rewrite (KdX_ext _ _ (fun k0 => kids k0 n) (fun k0 => kids k0 n')) by exact Ho.
    rewrite KdX_snoc_is_old. split; intros [H|(r' & Hr & Hin)]; auto; right; exists r'; split; auto; apply HC; exact Hin.
Qed.

Lemma InsM_static_replace n n' a x b c' r0' d :
  n_st n = a ++ x :: b -> n_st n' = a ++ (fst x, c') :: b ->
  n_data n' = n_data n -> (forall k, kids k n' = kids k n) ->
  (ends_in_wild r0' = true -> r0' <> []) ->
  InsM (RM (snd x)) (RM c') r0' d ->
  InsM (RM n) (RM n') (map AB (fst (fst x)) ++ r0') d.
Proof.
  intros Hs Hs' Hd Hk Hw HI.
  apply (InsM_lift (StX (n_data n) (fun k => kids k n) a b) (RM (snd x)) (RM c')); auto;
    [| |intros _ Hwd; rewrite ends_in_wild_AB in Hwd; discriminate].
  - intros r i. unfold RM, mem_of. apply (mem_static_slot n a x b Hs).
  - intros r i. unfold RM, mem_of. rewrite (mem_static_slot n' a (fst x, c') b Hs'). cbn [fst snd].
    rewrite Hd. rewrite (StX_ext _ (fun k0 => kids k0 n) (fun k0 => kids k0 n')); [reflexivity|exact Hk].
Qed.

Lemma InsM_static_snoc n n' p c' r0' d :
  n_st n' = n_st n ++ [((p, None), c')] ->
  n_data n' = n_data n -> (forall k, kids k n' = kids k n) ->
  (ends_in_wild r0' = true -> r0' <> []) ->
  InsM (fun _ _ => False) (RM c') r0' d ->
  InsM (RM n) (RM n') (map AB p ++ r0') d.
Proof.
  intros Hs' Hd Hk Hw HI.
  apply (InsM_lift (RM n) (fun _ _ => False) (RM c')); auto; [| |intros _ _ o []].
  - intros r i. split; [auto|]. intros [H|(r' & _ & [])]. exact H.
  - intros r i. unfold RM, mem_of. rewrite (mem_static_slot n' (n_st n) ((p, None), c') [] Hs'). cbn [fst snd].
    rewrite Hd. rewrite (StX_ext _ (fun k0 => kids k0 n) (fun k0 => kids k0 n')) by exact Hk.
    rewrite StX_snoc_is_old. reflexivity.
Qed.

(* inserting into the empty node: the old membership is empty *)
Lemma InsM_from_empty (M' : Mem) r0 d : InsM (RM empty_node) M' r0 d -> InsM (fun _ _ => False) M' r0 d.
Proof. apply InsM_ext; [|reflexivity]. intros r i. split; [intros []|intros []]. Qed.

Lemma atoms_wild_nonempty b ps : parts_wf b ps = true -> ends_in_wild (atoms_of ps) = true -> atoms_of ps <> [].
Proof. intros _ H. apply ends_in_wild_nonempty. exact H. Qed.

Lemma head_atom_dyn k nm c ps' : part_kind (PD nm c) ps' = Some (k, (nm, c)) -> head_atom k (nm, c) = AD nm c.
Proof. cbn [part_kind]. destruct c; intros H; inversion H; reflexivity. Qed.
Lemma head_atom_wild k nm c ps' : part_kind (PW nm c) ps' = Some (k, (nm, c)) -> head_atom k (nm, c) = AW nm c.
Proof. cbn [part_kind]. destruct c, ps'; intros H; inversion H; reflexivity. Qed.

(* ---- catch-all ---- *)
Lemma insert_routes_end n d k ky :
  wf n = true -> is_end k = true ->
  InsM (RM n)
       (RM (if existsb (fun kc : key * node => keqb (fst kc) ky) (kids k n) then n
            else set_dirty true (set_kids k (kids k n ++ [(ky, set_data (Some d) empty_node)]) n)))
       ([head_atom k ky] ++ []) d.
Proof.
  intros Hwf He. pose proof (wf_unpack n Hwf) as W.
  destruct (existsb _ (kids k n)) eqn:Ex.
  - apply existsb_exists in Ex as (kc & Hkc & Hk). apply keqb_eq in Hk. subst ky.
    destruct (wn_end n W k kc He Hkc) as [Hd _]. apply has_data_some in Hd as (o & Ho).
    split; [intros r i _; reflexivity|]. split; [|intros _ o' Ho'; exact Ho'].
    right. split; [destruct k; try discriminate; reflexivity|].
    assert (Hin : RM n ([head_atom k (fst kc)] ++ []) o).
    { unfold RM, mem_of. apply in_routes_of. right. right. exists k, kc, []. repeat split; auto.
      unfold kid_routes. rewrite He, Ho. left; reflexivity. }
    exists o. split; exact Hin.
  - apply (InsM_kind_snoc n _ k ky (set_data (Some d) empty_node) [] d (fun r i => r = [] /\ i = d)).
    + rewrite kids_set_dirty, kids_set_kids_same. reflexivity.
    + rewrite data_set_dirty, data_set_kids. reflexivity.
    + rewrite st_set_dirty, st_set_kids. reflexivity.
    + intros k' Hne. rewrite kids_set_dirty. apply kids_set_kids_other. congruence.
    + intros r i. unfold kid_routes. rewrite He. cbn. split; [intros [-> ->]; left; reflexivity|].
      intros [H|[]]. inversion H; auto.
    + discriminate.
    + split; [intros r i Hne; split; [intros [E _]; congruence|intros []]|split; [left; auto|intros _ o []]].
Qed.

(* ---- dynamic / mid-route wildcard ---- *)
Lemma insert_routes_param f
  (IHi : forall n ps d b, parts_size ps < f -> wf n = true -> parts_wf b ps = true ->
                          InsM (RM n) (RM (insert f n ps d)) (atoms_of ps) d)
  n ps' d k ky :
  parts_size ps' < f -> wf n = true -> is_end k = false -> parts_wf true ps' = true ->
  (atoms_of ps' = [] -> is_dyn k = true) ->
  InsM (RM n)
       (RM (match upd_first (fun kc : key * node => keqb (fst kc) ky)
                            (fun kc => (fst kc, insert f (snd kc) ps' d)) (kids k n) with
            | Some l => set_dirty true (set_kids k l n)
            | None => set_dirty true (set_kids k (kids k n ++ [(ky, insert f empty_node ps' d)]) n)
            end))
       ([head_atom k ky] ++ atoms_of ps') d.
Proof.
  intros Hfuel Hwf He Hps Hdy. pose proof (wf_unpack n Hwf) as W.
  destruct (upd_first _ _ (kids k n)) as [l|] eqn:Eu.
  - apply upd_first_some in Eu as (a & x & b & Hl & Hx & _ & ->). apply keqb_eq in Hx. subst ky.
    assert (Hxin : In x (kids k n)) by (rewrite Hl; apply in_or_app; right; left; reflexivity).
    destruct (wn_mid n W k x He Hxin) as (_ & _ & _ & Hwx).
    apply (InsM_kind_replace n _ k a x b (insert f (snd x) ps' d)); auto.
    + rewrite kids_set_dirty, kids_set_kids_same. reflexivity.
    + rewrite data_set_dirty, data_set_kids. reflexivity.
    + rewrite st_set_dirty, st_set_kids. reflexivity.
    + intros k' Hne. rewrite kids_set_dirty. apply kids_set_kids_other. congruence.
    + apply ends_in_wild_nonempty.
    + apply (IHi (snd x) ps' d true); auto.
  - apply (InsM_kind_snoc n _ k ky (insert f empty_node ps' d) (atoms_of ps') d (RM (insert f empty_node ps' d))).
    + rewrite kids_set_dirty, kids_set_kids_same. reflexivity.
    + rewrite data_set_dirty, data_set_kids. reflexivity.
    + rewrite st_set_dirty, st_set_kids. reflexivity.
    + intros k' Hne. rewrite kids_set_dirty. apply kids_set_kids_other. congruence.
    + intros r i. unfold kid_routes. rewrite He. reflexivity.
    + apply ends_in_wild_nonempty.
    + apply InsM_from_empty. apply (IHi empty_node ps' d true); auto.
Qed.

(* ---- literal part ---- *)
Lemma routes_of_one_static dfl wfl p c r i :
  In (r, i) (routes_of (set_st [((p, None), c)] (Node None [] [] [] [] [] [] [] dfl wfl true)))
  <-> exists r', r = map AB p ++ r' /\ In (r', i) (routes_of c).
Proof.
  rewrite in_routes_of. cbn [n_data n_st set_st fst snd]. split.
  - intros [[_ H]|[(kc & r' & [<-|[]] & -> & Hr)|(k & kc & r' & Hkc & _)]]; [discriminate|eauto|destruct k; destruct Hkc].
  - intros (r' & -> & Hr). right. left. exists ((p, None), c), r'. cbn. auto.
Qed.

Lemma routes_of_two_static dfl wfl p1 c1 p2 c2 r i :
  In (r, i) (routes_of (set_st [((p1, None), c1); ((p2, None), c2)] (Node None [] [] [] [] [] [] [] dfl wfl true)))
  <-> (exists r', r = map AB p1 ++ r' /\ In (r', i) (routes_of c1))
      \/ (exists r', r = map AB p2 ++ r' /\ In (r', i) (routes_of c2)).
Proof.
  rewrite in_routes_of. cbn [n_data n_st set_st fst snd]. split.
  - intros [[_ H]|[(kc & r' & [<-|[<-|[]]] & -> & Hr)|(k & kc & r' & Hkc & _)]];
      [discriminate|left; eauto|right; eauto|destruct k; destruct Hkc].
  - intros [(r' & -> & Hr)|(r' & -> & Hr)]; right; left.
    + exists ((p1, None), c1), r'. cbn. auto.
    + exists ((p2, None), c2), r'. cbn. auto.
Qed.

Lemma insert_routes_static f
  (IHi : forall n ps d b, parts_size ps < f -> wf n = true -> parts_wf b ps = true ->
                          InsM (RM n) (RM (insert f n ps d)) (atoms_of ps) d)
  (IHs : forall n p ps d, length p + parts_size ps < f -> p <> [] -> wf n = true -> parts_wf false ps = true ->
                          InsM (RM n) (RM (insert_static f n p ps d)) (map AB p ++ atoms_of ps) d) :
  forall n p ps d, length p + parts_size ps < S f -> p <> [] -> wf n = true -> parts_wf false ps = true ->
                   InsM (RM n) (RM (insert_static (S f) n p ps d)) (map AB p ++ atoms_of ps) d.
Proof.
  intros n p ps d Hfuel Hp Hwf Hps. rewrite insert_static_S. pose proof (wf_unpack n Hwf) as W.
  assert (Hlenp : 1 <= length p) by (destruct p; [congruence|cbn; lia]).
  assert (Hpsz : 1 <= parts_size ps) by (destruct ps as [|[?|? ?|? ?] ?]; cbn; lia).
  assert (Hfresh : InsM (fun _ _ => False) (RM (insert f empty_node ps d)) (atoms_of ps) d).
  { apply InsM_from_empty. apply (IHi empty_node ps d false); auto. lia. }
  destruct (upd_first _ _ (n_st n)) as [l|] eqn:Eu.
  - apply upd_first_some in Eu as (a & x & b & Hl & Hx & _ & ->).
    assert (Hxin : In x (n_st n)) by (rewrite Hl; apply in_or_app; right; left; reflexivity).
    destruct (wn_static n W x Hxin) as [_ Hxw].
    destruct (static_keys_nonempty _ _ (wn_static_keys n W) Hxin) as (b0 & k0' & Hk0 & Hcn).
    destruct x as [[k0 xcn] c]. cbn [fst snd] in *. subst xcn.
    set (cp := lcp p k0).
    assert (Hcp1 : 1 <= cp) by (apply same_first_lcp; exact Hx).
    destruct (lcp_le p k0) as [Hcp_p Hcp_k]. fold cp in Hcp_p, Hcp_k.
    assert (Hdat : n_data (set_dirty true (set_st (a ++ split_fn f p ps d ((k0, None), c) :: b) n)) = n_data n)
      by (rewrite data_set_dirty, data_set_st; reflexivity).
    assert (Hkd : forall k, kids k (set_dirty true (set_st (a ++ split_fn f p ps d ((k0, None), c) :: b) n)) = kids k n)
      by (intros k; rewrite kids_set_dirty, kids_set_st; reflexivity).
    assert (Hst : n_st (set_dirty true (set_st (a ++ split_fn f p ps d ((k0, None), c) :: b) n)) = a ++ split_fn f p ps d ((k0, None), c) :: b)
      by (rewrite st_set_dirty, st_set_st; reflexivity).
    unfold split_fn in *. cbn [fst snd] in *. fold cp in Hdat, Hkd, Hst |- *.
    destruct (Nat.leb (length k0) cp) eqn:Ek.
    + (* the child's prefix is a prefix of p *)
      apply Nat.leb_le in Ek. destruct (lcp_full_prefix p k0 Ek) as [Hpk Hcpk]. fold cp in Hpk, Hcpk.
      assert (Hroute : map AB p ++ atoms_of ps = map AB k0 ++ (map AB (skipn cp p) ++ atoms_of ps)).
      { rewrite app_assoc, <- map_app, <- Hpk. reflexivity. }
      rewrite Hroute.
      destruct (Nat.leb (length p) cp) eqn:Epl.
      * apply Nat.leb_le in Epl.
        assert (Hsk : skipn cp p = []) by (apply skipn_all2; exact Epl).
        rewrite Hsk. cbn [map app].
        apply (InsM_static_replace n _ a ((k0, None), c) b (insert f c ps d) (atoms_of ps) d Hl Hst Hdat Hkd).
        -- apply ends_in_wild_nonempty.
        -- apply (IHi c ps d false); auto. lia.
      * apply Nat.leb_gt in Epl.
        apply (InsM_static_replace n _ a ((k0, None), c) b (insert_static f c (skipn cp p) ps d) _ d Hl Hst Hdat Hkd).
        -- apply ends_in_wild_nonempty.
        -- apply IHs; auto.
           ++ rewrite skipn_length. lia.
           ++ intros E. apply (f_equal (@length _)) in E. rewrite skipn_length in E. cbn in E. lia.
    + (* split *)
      apply Nat.leb_gt in Ek.
      set (parent0 := Node None [] [] [] [] [] [] [] (n_dflag c) (n_wflag c) true) in *.
      assert (Hk0split : k0 = firstn cp k0 ++ skipn cp k0) by (symmetry; apply firstn_skipn).
      assert (Hfirst : firstn cp k0 = firstn cp p) by (symmetry; apply lcp_firstn).
      destruct (Nat.leb (length p) cp) eqn:Epl.
      * (* p is a proper prefix of the child's prefix *)
        apply Nat.leb_le in Epl.
        assert (Hpp : firstn cp p = p) by (apply firstn_all2; exact Epl).
        set (B := set_st [((skipn cp k0, None), c)] parent0) in *.
        assert (HwB : wf B = true).
        { apply wf_iff. split.
          - unfold B. rewrite st_set_st. unfold st_wf. apply andb_true_iff. split.
            + apply static_keys_ok_spec. split.
              * constructor; [|constructor]. split; [|reflexivity]. cbn [fst]. rewrite first_byte_skipn. intros E. apply nth_error_None in E. lia.
              * cbn [map]. constructor; [intros []|constructor].
            + destruct (wn_static n W _ Hxin) as [Hxa _]. cbn [forallb snd] in *. rewrite Hxa, Hxw. reflexivity.
          - intros k. unfold B. rewrite kids_set_st. destruct k; reflexivity. }
        assert (HI : InsM (RM B) (RM (insert f B ps d)) (atoms_of ps) d) by (apply (IHi B ps d false); auto; lia).
        (* routes through the old child = p . routes(B) *)
        apply (InsM_lift (StX (n_data n) (fun k => kids k n) a b) (RM B) (RM (insert f B ps d))); auto.
        -- intros r i. unfold RM, mem_of. rewrite (mem_static_slot n a ((k0, None), c) b Hl). cbn [fst snd].
           split; (intros [H|(r' & Hr & Hin)]; [left; exact H|right]).
           ++ exists (map AB (skipn cp k0) ++ r'). split.
              ** rewrite Hr, Hk0split at 1. rewrite map_app, <- app_assoc, Hfirst, Hpp. reflexivity.
              ** unfold B. apply routes_of_one_static. eauto.
           ++ unfold B in Hin. apply routes_of_one_static in Hin as (r2 & -> & Hin). exists r2. split; [|exact Hin].
              rewrite Hr, app_assoc, <- map_app. rewrite <- Hpp at 1. rewrite <- Hfirst, <- Hk0split. reflexivity.
        -- intros r i. unfold RM, mem_of. rewrite (mem_static_slot _ a _ b Hst). cbn [fst snd].
           rewrite Hdat, Hfirst, Hpp. rewrite (StX_ext _ (fun k0 => kids k0 n) _ a b r i Hkd). reflexivity.
        -- apply ends_in_wild_nonempty.
        -- intros _ Hwd. rewrite ends_in_wild_AB in Hwd. discriminate.
      * (* both continue *)
        apply Nat.leb_gt in Epl.
        assert (Hpsplit : p = firstn cp k0 ++ skipn cp p) by (rewrite Hfirst; symmetry; apply firstn_skipn).
        set (c1 := insert f empty_node ps d) in *.
        apply (InsM_lift (RM n) (fun _ _ => False) (RM c1)); auto.
        -- intros r i. split; [auto|]. intros [H|(r' & _ & [])]. exact H.
        -- intros r i. unfold RM, mem_of. rewrite (mem_static_slot _ a _ b Hst). cbn [fst snd].
           rewrite Hdat. rewrite (StX_ext _ (fun k0 => kids k0 n) _ a b r i Hkd).
           rewrite (mem_static_slot n a ((k0, None), c) b Hl). cbn [fst snd].
           split.
           ++ intros [H|(r' & Hr & Hin)]; [left; left; exact H|].
              apply routes_of_two_static in Hin as [(r2 & -> & Hin)|(r2 & -> & Hin)].
              ** left; right. exists r2. split; [|exact Hin]. rewrite Hr, app_assoc, <- map_app, <- Hk0split. reflexivity.
              ** right. exists r2. split; [|exact Hin]. rewrite Hr, app_assoc, <- map_app, <- Hpsplit. reflexivity.
           ++ intros [[H|(r' & Hr & Hin)]|(r' & Hr & Hin)]; [left; exact H| |]; right.
              ** exists (map AB (skipn cp k0) ++ r'). split; [rewrite Hr, Hk0split at 1; rewrite map_app, <- app_assoc; reflexivity|].
                 apply routes_of_two_static. left. eauto.
              ** exists (map AB (skipn cp p) ++ r'). split; [rewrite Hr, Hpsplit at 1; rewrite map_app, <- app_assoc; reflexivity|].
                 apply routes_of_two_static. right. eauto.
        -- apply ends_in_wild_nonempty.
        -- intros _ _ o [].
  - apply (InsM_static_snoc n _ p (insert f empty_node ps d) (atoms_of ps) d);
      [rewrite st_set_dirty, st_set_st; reflexivity
      |rewrite data_set_dirty, data_set_st; reflexivity
      |intros k; rewrite kids_set_dirty, kids_set_st; reflexivity
      |apply ends_in_wild_nonempty
      |exact Hfresh].
Qed.

Lemma insert_routes : forall fuel,
  (forall n ps d b, parts_size ps < fuel -> wf n = true -> parts_wf b ps = true ->
                    InsM (RM n) (RM (insert fuel n ps d)) (atoms_of ps) d)
  /\ (forall n p ps d, length p + parts_size ps < fuel -> p <> [] -> wf n = true -> parts_wf false ps = true ->
                       InsM (RM n) (RM (insert_static fuel n p ps d)) (map AB p ++ atoms_of ps) d).
Proof.
  induction fuel as [|f [IHi IHs]]; [split; intros; lia|].
  assert (Hwild : forall r, ends_in_wild r = true -> r <> []) by apply ends_in_wild_nonempty.
  split.
  - intros n ps d b Hfuel Hwf Hps. rewrite insert_S. pose proof (wf_unpack n Hwf) as W.
    destruct ps as [|p0 ps'].
    + (* data at this node *)
      cbn [atoms_of flat_map]. split.
      * intros r i Hne. unfold RM, mem_of. rewrite !in_routes_of.
        rewrite st_set_dirty, st_set_data, data_set_dirty, data_set_data.
        split; intros [[E _]|[H|(k & kc & r' & Hkc & Hr)]]; try congruence; auto; right; right; exists k, kc, r'.
        -- rewrite kids_set_dirty, kids_set_data in Hkc. auto.
        -- rewrite kids_set_dirty, kids_set_data. auto.
      * split; [|intros Hw; discriminate].
        left. unfold RM, mem_of. apply in_routes_data. rewrite data_set_dirty, data_set_data. reflexivity.
    + rewrite atoms_of_cons. destruct p0 as [s|nm c|nm c]; cbn [atoms_of_part parts_size parts_wf] in *.
      * (* literal *)
        apply andb_true_iff in Hps as [Hs Hps].
        apply IHs; auto; [lia|destruct s; discriminate].
      * destruct (part_kind (PD nm c) ps') as [[k ky]|] eqn:Epk; [|destruct c; discriminate].
        destruct (part_kind_dyn _ _ _ _ _ Epk) as (-> & Hkk & He & Hdy). rewrite He.
        rewrite <- (head_atom_dyn k nm c ps' Epk).
        apply andb_true_iff in Hps as [_ Hps].
        apply (insert_routes_param f IHi n ps' d k (nm, c)); auto. lia.
      * destruct (part_kind (PW nm c) ps') as [[k ky]|] eqn:Epk; [|destruct c, ps'; discriminate].
        destruct (part_kind_wild _ _ _ _ _ Epk) as (-> & Hkk & Hdy & Hne).
        rewrite <- (head_atom_wild k nm c ps' Epk).
        apply andb_true_iff in Hps as [_ Hps].
        destruct (is_end k) eqn:He.
        -- assert (Hps' : ps' = []) by (destruct c, ps'; inversion Epk; subst; try discriminate; reflexivity).
           subst ps'. cbn [atoms_of flat_map].
           apply (insert_routes_end n d k (nm, c)); auto.
        -- apply (insert_routes_param f IHi n ps' d k (nm, c)); auto; [lia|].
           intros Hnil. exfalso. apply (parts_wf_atoms_nonempty true ps' Hps (Hne eq_refl) Hnil).
  - apply (insert_routes_static f IHi IHs).
Qed.
