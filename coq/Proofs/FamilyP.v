(* C16 on the model: a family of routers with insert, delete, constraint registration and clone.  Model routers are
   values, so a clone IS its original at the moment of cloning, and every router of a family is the router a
   single history builds on its own: the history of a slot is what was applied to it and, before its clone, to
   its ancestors.  (What the value semantics cannot show - the reference counts of the shared data - is the
   subject of Model/Arcs.v and Proofs/ArcsP.v.) *)
From Coq Require Import List NArith Lia.
From WF Require Import Base.Bytes Spec.Route Spec.Walk Model.Tree Model.Parser Model.Router Model.Display.
From WF Require Import Proofs.ReachP Proofs.RegistryP Proofs.ReachOpsP Proofs.UniqueP Proofs.UniqueDisplayP.
Import ListNotations.

Inductive fop :=
| FOp (s : N) (o : op)        (* insert / delete / constraint on router s *)
| FClone (a b : N)            (* router b := clone of router a *)
| FNew (s : N).               (* router s := Router::new() *)

Definition upd {A} (f : N -> A) (s : N) (x : A) : N -> A := fun s' => if N.eqb s' s then x else f s'.

Section Family.
  Variable b : list (bytes * bytes).

  Definition fstep (f : N -> router) (o : fop) : N -> router :=
    match o with
    | FOp s o => upd f s (step (f s) o)
    | FClone a c => upd f c (f a)
    | FNew s => upd f s (new_router b)
    end.
  Definition frun (ops : list fop) : N -> router := fold_left fstep ops (fun _ => new_router b).

  (* the history of each slot *)
  Definition hstep (h : N -> list op) (o : fop) : N -> list op :=
    match o with
    | FOp s o => upd h s (h s ++ [o])
    | FClone a c => upd h c (h a)
    | FNew s => upd h s []
    end.
  Definition hist (ops : list fop) : N -> list op := fold_left hstep ops (fun _ => []).

  Lemma run_snoc h o : run b (h ++ [o]) = step (run b h) o.
  Proof. unfold run. rewrite fold_left_app. reflexivity. Qed.

  Theorem family_is_histories (ops : list fop) (s : N) : frun ops s = run b (hist ops s).
  Proof.
    unfold frun, hist.
    assert (G : forall f h, (forall s, f s = run b (h s)) ->
                forall s, fold_left fstep ops f s = run b (fold_left hstep ops h s)).
    { induction ops as [|o ops IH]; intros f h H s0; [apply H|]. cbn [fold_left]. apply IH. intros s1.
      destruct o as [s2 o|a c|s2]; cbn [fstep hstep]; unfold upd.
      - destruct (N.eqb s1 s2); [rewrite run_snoc, H; reflexivity|apply H].
      - destruct (N.eqb s1 c); apply H.
      - destruct (N.eqb s1 s2); [reflexivity|apply H]. }
    apply G. intros s0. reflexivity.
  Qed.

  (* at the moment of cloning the copy is the original: every search, the printed tree *)
  Theorem clone_is_original (ops : list fop) a c : frun (ops ++ [FClone a c]) c = frun ops a.
  Proof. unfold frun. rewrite fold_left_app. cbn [fold_left fstep]. unfold upd. rewrite N.eqb_refl. reflexivity. Qed.

  (* an operation on one router leaves every other router of the family as it was *)
  Theorem other_routers_untouched (ops : list fop) o s s' :
    match o with FOp x _ | FNew x => x | FClone _ x => x end = s -> s' <> s -> frun (ops ++ [o]) s' = frun ops s'.
  Proof.
    intros Ht Hne. unfold frun. rewrite fold_left_app. cbn [fold_left].
    destruct o as [x o|a x|x]; cbn [fstep]; unfold upd; subst s; (destruct (N.eqb s' x) eqn:E; [apply N.eqb_eq in E; contradiction|reflexivity]).
  Qed.

  (* hence every router of a family behaves as a router built independently with the same live templates:
     same answers, same printed tree, and every later operation returns what it returns there *)
  Theorem family_router_as_independent (ops : list fop) s b' ops' :
    (forall x, In x (live_of b (hist ops s)) <-> In x (live_of b' ops')) ->
    (forall chk p, rsearch chk (frun ops s) p = rsearch chk (run b' ops') p)
    /\ display (r_root (frun ops s)) = display (r_root (run b' ops'))
    /\ erase (r_root (frun ops s)) = erase (r_root (run b' ops')).
  Proof.
    intros H. rewrite family_is_histories. split; [intros chk p; apply reach_same_live; exact H|].
    apply reach_same_live_display. exact H.
  Qed.

  Theorem family_op_as_independent (ops : list fop) s o :
    frun (ops ++ [FOp s o]) s = step (run b (hist ops s)) o.
  Proof.
    unfold frun. rewrite fold_left_app. cbn [fold_left fstep]. unfold upd. rewrite N.eqb_refl.
    change (fold_left fstep ops (fun _ => new_router b) s) with (frun ops s). rewrite family_is_histories. reflexivity.
  Qed.
End Family.
