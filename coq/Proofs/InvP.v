(* wf + tidy imply the invariant of the refinement theorem; tidy implies the dirty discipline. *)
From Coq Require Import Lia.
From WF Require Import Base.Bytes Base.Utf8 Spec.Route Spec.Walk Model.Tree Spec.Inv.
From WF Require Import Proofs.BytesP Proofs.WalkP Proofs.RefineP.

Ltac split_andb :=
  repeat match goal with
         | H : (_ && _) = true |- _ => apply andb_true_iff in H; destruct H
         end.

Lemma wf_eq n :
  wf n =
  (let mid (k : kind) (l : list (key * node)) :=
    keys_nodup l
    && forallb (fun kc : key * node =>
         key_ok k (fst kc) && only_static_kids (snd kc)
         && (if is_dyn k then true else negb (has_data (snd kc)))
         && alive (snd kc) && wf (snd kc)) l in
  let ends (k : kind) (l : list (key * node)) :=
    keys_nodup l
    && forallb (fun kc : key * node => key_ok k (fst kc) && has_data (snd kc) && no_kids_b (snd kc)) l in
  static_keys_ok (n_st n)
  && forallb (fun kc : key * node => alive (snd kc) && wf (snd kc)) (n_st n)
  && mid KDC (n_dc n) && mid KDY (n_dy n) && mid KWC (n_wc n) && mid KWI (n_wi n)
  && ends KEC (n_ec n) && ends KEN (n_en n)).
Proof. destruct n; reflexivity. Qed.

Lemma tidy_eq n :
  tidy n =
  (let sub (l : list (key * node)) := forallb (fun kc : key * node => tidy (snd kc)) l in
  lists_sorted n && flags_ok n
  && sub (n_st n) && sub (n_dc n) && sub (n_dy n) && sub (n_wc n) && sub (n_wi n) && sub (n_ec n) && sub (n_en n)).
Proof. destruct n; reflexivity. Qed.

Lemma disc_eq n :
  disc n =
  (let sub (l : list (key * node)) := forallb (fun kc : key * node => disc (snd kc)) l in
  if n_dirty n
  then sub (n_st n) && sub (n_dc n) && sub (n_dy n) && sub (n_wc n) && sub (n_wi n) && sub (n_ec n) && sub (n_en n)
  else tidy n).
Proof. destruct n; reflexivity. Qed.

(* the structural invariant, unpacked *)
Record WfN (n : node) : Prop := {
  wn_static_keys : static_keys_ok (n_st n) = true;
  wn_static : forall kc, In kc (n_st n) -> alive (snd kc) = true /\ wf (snd kc) = true;
  wn_nodup : forall k, keys_nodup (kids k n) = true;
  wn_key : forall k kc, In kc (kids k n) -> key_ok k (fst kc) = true;
  wn_mid : forall k kc, is_end k = false -> In kc (kids k n) ->
           only_static_kids (snd kc) = true /\ (is_dyn k = false -> has_data (snd kc) = false)
           /\ alive (snd kc) = true /\ wf (snd kc) = true;
  wn_end : forall k kc, is_end k = true -> In kc (kids k n) ->
           has_data (snd kc) = true /\ no_kids_b (snd kc) = true }.

Lemma wf_unpack n : wf n = true -> WfN n.
Proof.
  rewrite wf_eq. cbv zeta. intros H. split_andb.
  assert (Hmid : forall k l,
     forallb (fun kc : key * node =>
         key_ok k (fst kc) && only_static_kids (snd kc)
         && (if is_dyn k then true else negb (has_data (snd kc)))
         && alive (snd kc) && wf (snd kc)) l = true ->
     forall kc, In kc l ->
       key_ok k (fst kc) = true /\ only_static_kids (snd kc) = true
       /\ (is_dyn k = false -> has_data (snd kc) = false) /\ alive (snd kc) = true /\ wf (snd kc) = true).
  { intros k l Hf kc Hin. rewrite forallb_forall in Hf. specialize (Hf kc Hin). split_andb.
    repeat split; auto. intros Hd. rewrite Hd in *. apply negb_true_iff. assumption. }
  assert (Hend : forall k l,
     forallb (fun kc : key * node => key_ok k (fst kc) && has_data (snd kc) && no_kids_b (snd kc)) l = true ->
     forall kc, In kc l -> key_ok k (fst kc) = true /\ has_data (snd kc) = true /\ no_kids_b (snd kc) = true).
  { intros k l Hf kc Hin. rewrite forallb_forall in Hf. specialize (Hf kc Hin). split_andb. auto. }
  constructor.
  - assumption.
  - intros kc Hin.
    match goal with Hx : forallb (fun kc => alive (snd kc) && wf (snd kc)) _ = true |- _ =>
      rewrite forallb_forall in Hx; specialize (Hx kc Hin); apply andb_true_iff in Hx; exact Hx end.
  - intros k; destruct k; assumption.
  - intros k kc Hin. destruct k; cbn [kids] in Hin;
      first [ eapply Hmid in Hin; [apply Hin|eassumption] | eapply Hend in Hin; [apply Hin|eassumption] ].
  - intros k kc He Hin. destruct k; try discriminate; cbn [kids] in Hin;
      (eapply Hmid in Hin; [|eassumption]); destruct Hin as (_ & ? & ? & ? & ?); auto.
  - intros k kc He Hin. destruct k; try discriminate; cbn [kids] in Hin;
      (eapply Hend in Hin; [|eassumption]); destruct Hin as (_ & ? & ?); auto.
Qed.

Record TidyN (n : node) : Prop := {
  tn_sorted_st : strictly_sorted (n_st n) = true;
  tn_sorted : forall k, strictly_sorted (kids k n) = true;
  tn_flags : flags_ok n = true;
  tn_st : forall kc, In kc (n_st n) -> tidy (snd kc) = true;
  tn_kids : forall k kc, In kc (kids k n) -> tidy (snd kc) = true }.

Lemma tidy_unpack n : tidy n = true -> TidyN n.
Proof.
  rewrite tidy_eq. cbv zeta. intros H. split_andb.
  unfold lists_sorted in *. split_andb.
  constructor; auto.
  - intros k; destruct k; assumption.
  - intros kc Hin. match goal with Hx : forallb _ (n_st n) = true |- _ => rewrite forallb_forall in Hx; apply Hx; exact Hin end.
  - intros k kc Hin. destruct k; cbn [kids] in Hin;
      match goal with Hx : forallb _ ?l = true, Hy : In kc ?l |- _ => rewrite forallb_forall in Hx; apply Hx; exact Hy end.
Qed.

(* a live, well-formed node holds at least one route *)
Lemma in_routes_data n i : n_data n = Some i -> In ([], i) (routes_of n).
Proof. intros H. rewrite routes_of_eq. apply in_or_app. left. unfold data_routes. rewrite H. left; reflexivity. Qed.

Lemma routes_of_static_in n kc r i :
  In kc (n_st n) -> In (r, i) (routes_of (snd kc)) -> In (map AB (fst (fst kc)) ++ r, i) (routes_of n).
Proof.
  intros Hkc Hr. rewrite routes_of_eq. apply in_or_app. right. apply in_or_app. left.
  apply in_static_routes. exists kc, r. auto.
Qed.

Lemma routes_of_kind_in n k kc r i :
  In kc (kids k n) -> In (r, i) (kid_routes k (snd kc)) -> In (head_atom k (fst kc) :: r, i) (routes_of n).
Proof.
  intros Hkc Hr. rewrite routes_of_eq.
  assert (H : In (head_atom k (fst kc) :: r, i) (kind_routes k (kids k n))) by (apply in_kind_routes; exists kc, r; auto).
  destruct k; cbn [kids] in H; repeat (apply in_or_app; first [left; exact H|right]). exact H.
Qed.

Lemma alive_routes : forall n, wf n = true -> alive n = true -> routes_of n <> [].
Proof.
  induction n using node_ind'. intros Hwf Hal.
  set (n := Node d st dc dy wc wi ec en f1 f2 f3) in *.
  pose proof (wf_unpack n Hwf) as W.
  unfold alive in Hal. apply orb_true_iff in Hal as [Hd|Hk].
  - unfold has_data in Hd. destruct (n_data n) as [i|] eqn:E; [|discriminate].
    intros Hnil. pose proof (in_routes_data n i E) as Hin. rewrite Hnil in Hin. destruct Hin.
  - apply negb_true_iff in Hk. unfold no_kids_b, only_static_kids in Hk.
    (* some child list is non-empty *)
    assert (Hex : (exists kc, In kc (n_st n)) \/ exists k kc, In kc (kids k n)).
    { destruct (n_st n) as [|x ?] eqn:E0; [|left; exists x; left; reflexivity]. right.
      destruct (n_dc n) as [|x ?] eqn:E1; [|exists KDC, x; cbn [kids]; rewrite E1; left; reflexivity].
      destruct (n_dy n) as [|x ?] eqn:E2; [|exists KDY, x; cbn [kids]; rewrite E2; left; reflexivity].
      destruct (n_wc n) as [|x ?] eqn:E3; [|exists KWC, x; cbn [kids]; rewrite E3; left; reflexivity].
      destruct (n_wi n) as [|x ?] eqn:E4; [|exists KWI, x; cbn [kids]; rewrite E4; left; reflexivity].
      destruct (n_ec n) as [|x ?] eqn:E5; [|exists KEC, x; cbn [kids]; rewrite E5; left; reflexivity].
      destruct (n_en n) as [|x ?] eqn:E6; [|exists KEN, x; cbn [kids]; rewrite E6; left; reflexivity].
      cbn in Hk. discriminate. }
    destruct Hex as [(kc & Hkc)|(k & kc & Hkc)].
    + destruct (wn_static n W kc Hkc) as [Ha Hw].
      assert (Hne : routes_of (snd kc) <> []).
      { unfold AllP in *. cbn [n_st n] in Hkc. rewrite Forall_forall in H. apply (H kc Hkc); assumption. }
      destruct (routes_of (snd kc)) as [|[r i] l] eqn:E; [congruence|].
      intros Hnil. pose proof (routes_of_static_in n kc r i Hkc ltac:(rewrite E; left; reflexivity)) as Hin.
      rewrite Hnil in Hin. destruct Hin.
    + destruct (is_end k) eqn:He.
      * destruct (wn_end n W k kc He Hkc) as [Hd _]. apply has_data_some in Hd as (i & Hd).
        intros Hnil. pose proof (routes_of_kind_in n k kc [] i Hkc) as Hin.
        unfold kid_routes in Hin. rewrite He, Hd in Hin. specialize (Hin (or_introl eq_refl)).
        rewrite Hnil in Hin. destruct Hin.
      * destruct (wn_mid n W k kc He Hkc) as (_ & _ & Ha & Hw).
        assert (Hne : routes_of (snd kc) <> []).
        { unfold AllP in *. rewrite Forall_forall in *.
          destruct k; try discriminate; cbn [kids n n_dc n_dy n_wc n_wi] in Hkc; eauto. }
        destruct (routes_of (snd kc)) as [|[r i] l] eqn:E; [congruence|].
        intros Hnil. pose proof (routes_of_kind_in n k kc r i Hkc) as Hin.
        unfold kid_routes in Hin. rewrite He, E in Hin. specialize (Hin (or_introl eq_refl)).
        rewrite Hnil in Hin. destruct Hin.
Qed.

Lemma key_ok_kind k ky : key_ok k ky = true -> key_kind_ok k ky = true.
Proof. unfold key_ok. intros H. apply andb_true_iff in H. apply H. Qed.

(* ---- wf + tidy give the invariant the refinement theorem needs ---- *)
Theorem wf_tidy_inv : forall n, wf n = true -> tidy n = true -> inv_b n = true.
Proof.
  induction n using node_ind'. intros Hwf Htidy.
  set (n := Node d st dc dy wc wi ec en f1 f2 f3) in *.
  pose proof (wf_unpack n Hwf) as W. pose proof (tidy_unpack n Htidy) as T.
  assert (IHst : forall kc, In kc (n_st n) -> inv_b (snd kc) = true).
  { intros kc Hkc. unfold AllP in *. rewrite Forall_forall in H. cbn [n n_st] in Hkc.
    apply (H kc Hkc); [apply (wn_static n W kc Hkc)|apply (tn_st n T kc Hkc)]. }
  assert (IHk : forall k kc, is_end k = false -> In kc (kids k n) -> inv_b (snd kc) = true).
  { intros k kc He Hkc. destruct (wn_mid n W k kc He Hkc) as (_ & _ & _ & Hw).
    pose proof (tn_kids n T k kc Hkc) as Ht.
    unfold AllP in *. rewrite Forall_forall in *.
    destruct k; try discriminate; cbn [kids n n_dc n_dy n_wc n_wi] in Hkc; eauto. }
  assert (Hmid : forall k, is_end k = false ->
     strictly_sorted (kids k n)
     && forallb (fun kc : key * node =>
          key_kind_ok k (fst kc) && only_static_kids (snd kc)
          && (if is_dyn k then true else negb (has_data (snd kc)))
          && negb (is_nil (routes_of (snd kc))) && inv_b (snd kc)) (kids k n) = true).
  { intros k He. rewrite (tn_sorted n T k). cbn [andb]. apply forallb_forall. intros kc Hkc.
    destruct (wn_mid n W k kc He Hkc) as (Ho & Hnd & Ha & Hw).
    rewrite (key_ok_kind _ _ (wn_key n W k kc Hkc)), Ho, (IHk k kc He Hkc).
    assert (Hr : negb (is_nil (routes_of (snd kc))) = true).
    { pose proof (alive_routes (snd kc) Hw Ha) as Hne. destruct (routes_of (snd kc)); [congruence|reflexivity]. }
    rewrite Hr. destruct (is_dyn k) eqn:Ed; [reflexivity|]. rewrite (Hnd eq_refl). reflexivity. }
  assert (Hend : forall k, is_end k = true ->
     strictly_sorted (kids k n)
     && forallb (fun kc : key * node => key_kind_ok k (fst kc) && has_data (snd kc)) (kids k n) = true).
  { intros k He. rewrite (tn_sorted n T k). cbn [andb]. apply forallb_forall. intros kc Hkc.
    destruct (wn_end n W k kc He Hkc) as (Hd & _).
    rewrite (key_ok_kind _ _ (wn_key n W k kc Hkc)), Hd. reflexivity. }
  rewrite inv_b_eq. cbv zeta.
  rewrite (wn_static_keys n W).
  assert (Hs : forallb (fun kc : key * node => inv_b (snd kc)) (n_st n) = true) by (apply forallb_forall; exact IHst).
  rewrite Hs.
  pose proof (Hmid KDC eq_refl) as M1. pose proof (Hmid KDY eq_refl) as M2.
  pose proof (Hmid KWC eq_refl) as M3. pose proof (Hmid KWI eq_refl) as M4.
  pose proof (Hend KEC eq_refl) as E1. pose proof (Hend KEN eq_refl) as E2.
  cbn [kids] in M1, M2, M3, M4, E1, E2. rewrite M1, M2, M3, M4, E1, E2.
  pose proof (tn_flags n T) as F. unfold flags_ok in F. exact F.
Qed.

(* ---- a tidy tree satisfies the dirty discipline, whatever its dirty marks ---- *)
Theorem tidy_disc : forall n, tidy n = true -> disc n = true.
Proof.
  induction n using node_ind'. intros Htidy.
  set (n := Node d st dc dy wc wi ec en f1 f2 f3) in *.
  rewrite disc_eq. cbv zeta. destruct (n_dirty n); [|exact Htidy].
  pose proof (tidy_unpack n Htidy) as T.
  assert (Hsub : forall l, AllP (fun c => tidy c = true -> disc c = true) l ->
                           (forall kc, In kc l -> tidy (snd kc) = true) ->
                           forallb (fun kc : key * node => disc (snd kc)) l = true).
  { intros l Hall Ht. apply forallb_forall. intros kc Hkc. unfold AllP in Hall. rewrite Forall_forall in Hall. auto. }
  cbn [n n_st n_dc n_dy n_wc n_wi n_ec n_en].
  rewrite (Hsub st H (tn_st n T)).
  rewrite (Hsub dc H0 (tn_kids n T KDC)), (Hsub dy H1 (tn_kids n T KDY)).
  rewrite (Hsub wc H2 (tn_kids n T KWC)), (Hsub wi H3 (tn_kids n T KWI)).
  rewrite (Hsub ec H4 (tn_kids n T KEC)), (Hsub en H5 (tn_kids n T KEN)). reflexivity.
Qed.
