(* Tree-level corollaries of the refinement theorem and the facts about W. *)
From Coq Require Import Lia Permutation.
From WF Require Import Base.Bytes Base.Utf8 Spec.Route Spec.Walk Model.Tree Spec.Inv.
From WF Require Import Proofs.BytesP Proofs.WalkP Proofs.WalkFuelP Proofs.RefineP Proofs.FitsP
     Proofs.WalkCompleteP Proofs.WalkPermP Proofs.WalkNonintP.

Section T.
  Variable chk : bytes -> bytes -> bool.

  Theorem search_complete t p r i vs :
    inv_b t = true -> In (r, i) (routes_of t) -> fits chk r p vs -> search chk t p <> None.
  Proof.
    intros Hinv Hin Hf. rewrite (search_refines_W chk t p Hinv). eapply W_complete; eauto.
  Qed.

  Theorem search_none_iff t p :
    inv_b t = true ->
    (search chk t p = None <-> forall r i vs, In (r, i) (routes_of t) -> ~ fits chk r p vs).
  Proof.
    intros Hinv. split.
    - intros Hn r i vs Hin Hf. eapply search_complete; eauto.
    - intros H. destruct (search chk t p) as [[i ps]|] eqn:E; [|reflexivity].
      apply search_genuine in E as (r & Hin & _ & Hf); [|exact Hinv]. exfalso. eapply H; eauto.
  Qed.

  (* the tree answers like the walk over ANY arrangement of its routes *)
  Theorem search_is_W_of rs t p :
    inv_b t = true -> Permutation (routes_of t) rs -> NoDup (map fst (routes_of t)) ->
    search chk t p = W chk rs p.
  Proof.
    intros Hinv Hp Hn. rewrite (search_refines_W chk t p Hinv). apply W_perm; assumption.
  Qed.

  Theorem search_same_routes t1 t2 p :
    inv_b t1 = true -> inv_b t2 = true ->
    Permutation (routes_of t1) (routes_of t2) -> NoDup (map fst (routes_of t1)) ->
    search chk t1 p = search chk t2 p.
  Proof.
    intros H1 H2 Hp Hn. rewrite (search_refines_W chk t1 p H1), (search_refines_W chk t2 p H2).
    apply W_perm; assumption.
  Qed.

  Theorem search_noninterference t t' new p :
    inv_b t = true -> inv_b t' = true ->
    Permutation (routes_of t') (new ++ routes_of t) -> NoDup (map fst (routes_of t')) ->
    (forall r i vs, In (r, i) new -> ~ fits chk r p vs) ->
    search chk t' p = search chk t p.
  Proof.
    intros H H' Hp Hn Hnf. rewrite (search_refines_W chk t p H), (search_refines_W chk t' p H').
    eapply W_nonint; eauto.
  Qed.

  Theorem search_new_route_matched t' new p r i vs :
    inv_b t' = true -> (forall x, In x new -> In x (routes_of t')) ->
    In (r, i) new -> fits chk r p vs -> search chk t' p <> None.
  Proof. intros H' Hsub Hin Hf. eapply search_complete; eauto. Qed.
End T.
