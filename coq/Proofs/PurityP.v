(* Obligation over the regenerated purity inventory (closed computation). *)
From WF Require Import Base.Bytes Gen.Purity.

(* C18: nothing in src/ can carry state between or during searches: no static items, no interior
   mutability, no unsafe (also forbidden by the lint), and constraint types are Send + Sync *)
Lemma purity_ok :
  gen_impure_sites = [] /\ gen_forbid_unsafe = true /\ gen_constraint_send_sync = true.
Proof. vm_compute. repeat split; reflexivity. Qed.
