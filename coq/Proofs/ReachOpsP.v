(* The operation-level theorems, stated for every router the model can reach by a history of operations,
   together with the list of templates that history left live. *)
From Coq Require Import Lia Permutation Sorted.
From WF Require Import Base.Bytes Base.Utf8 Spec.Route Spec.Walk Model.Tree Model.Parser Model.Ops Model.Router Spec.Inv.
From WF Require Import Proofs.RoutesP Proofs.InsRoutesP Proofs.RouterP Proofs.ReachP Proofs.TreeCorP Proofs.InvP
     Proofs.RouterRoutesP Proofs.RegistryP.

Definition live_of (builtins : list (bytes * bytes)) (ops : list op) : live :=
  snd (run_live (new_router builtins) [] ops).

Section Reach.
  Variables (b : list (bytes * bytes)) (ops : list op).
  Let r := run b ops.
  Let L := live_of b ops.

  Lemma reach_abs : Abs r L.
  Proof. apply reachable_abs. Qed.
  Lemma reach_inv : RInv r.
  Proof. apply reachable_inv. Qed.

  (* C06 *)
  Theorem reach_insert_nonint chk t d r' p :
    rinsert r t d = (r', ROk tt) ->
    (forall es e vs, parse t = Ret es -> In e es -> ~ fits chk (exp_route e) p vs) ->
    rsearch chk r' p = rsearch chk r p.
  Proof. apply rinsert_noninterference. exact reach_inv. Qed.

  Theorem reach_insert_matched chk t d r' es e p vs :
    rinsert r t d = (r', ROk tt) -> parse t = Ret es -> In e es -> fits chk (exp_route e) p vs ->
    rsearch chk r' p <> None.
  Proof. apply (insert_ok_routable r L reach_abs). Qed.

  Theorem reach_delete_nonint chk t d r' p :
    rdelete r t = (r', ROk d) ->
    (forall es e vs, parse t = Ret es -> In e es -> ~ fits chk (exp_route e) p vs) ->
    rsearch chk r' p = rsearch chk r p.
  Proof. apply rdelete_noninterference. exact reach_inv. Qed.

  (* C08 *)
  Theorem reach_insert_conflict t d r' t' cs :
    rinsert r t d = (r', RErr (IEConflict t' cs)) ->
    r' = r /\ t' = t /\ StronglySorted blt cs /\ cs <> []
    /\ forall c, In c cs <-> (exists dc, In (c, dc) L) /\ exists r0, route_of_template t r0 /\ route_of_template c r0.
  Proof. apply (insert_conflict_live r L reach_abs). Qed.

  Theorem reach_insert_outcome t d es :
    parse t = Ret es -> unknown_constraint r es = None ->
    ((exists c dc r0, In (c, dc) L /\ route_of_template t r0 /\ route_of_template c r0) ->
        exists cs, rinsert r t d = (r, RErr (IEConflict t cs)))
    /\ ((forall c dc r0, In (c, dc) L -> route_of_template t r0 -> ~ route_of_template c r0) ->
        exists r', rinsert r t d = (r', ROk tt)).
  Proof. apply (insert_outcome_live r L reach_abs). Qed.

  (* C09 *)
  Theorem reach_delete_ok_iff_live t d : (exists r', rdelete r t = (r', ROk d)) <-> In (t, d) L.
  Proof. apply (delete_ok_iff_live r L reach_abs). Qed.

  Theorem reach_delete_removes t d r' :
    rdelete r t = (r', ROk d) ->
    exists es, parse t = Ret es
      /\ (forall e i, In e es -> ~ RM (r_root r') (exp_route e) i)
      /\ (forall r0 i, (forall e, In e es -> r0 <> exp_route e) -> (RM (r_root r') r0 i <-> RM (r_root r) r0 i)).
  Proof.
    intros H. destruct (rdelete_ok_routes r t d r' reach_inv H) as (es & Ep & _ & Hg & Ho & _). eauto.
  Qed.

  Theorem reach_delete_mismatch t r' t' ins :
    rdelete r t = (r', RErr (DEMismatch t' ins)) ->
    r' = r /\ t' = t /\ ins <> t /\ (exists d, In (ins, d) L) /\ (forall d, ~ In (t, d) L)
    /\ exists r0, route_of_template t r0 /\ route_of_template ins r0.
  Proof. apply (delete_mismatch_live r L reach_abs). Qed.

  Theorem reach_delete_notfound t r' t' :
    rdelete r t = (r', RErr (DENotFound t')) ->
    r' = r /\ t' = t /\ (forall d, ~ In (t, d) L)
    /\ forall t0 d0 r0, In (t0, d0) L -> route_of_template t r0 -> ~ route_of_template t0 r0.
  Proof. apply (delete_notfound_live r L reach_abs). Qed.

  Theorem reach_delete_not_live t es :
    parse t = Ret es -> (forall d, ~ In (t, d) L) ->
    ((exists t0 d0 r0, In (t0, d0) L /\ route_of_template t r0 /\ route_of_template t0 r0) ->
        exists ins, rdelete r t = (r, RErr (DEMismatch t ins)))
    /\ ((forall t0 d0 r0, In (t0, d0) L -> route_of_template t r0 -> ~ route_of_template t0 r0) ->
        rdelete r t = (r, RErr (DENotFound t))).
  Proof. apply (delete_not_live r L reach_abs). Qed.

  (* C10 *)
  Theorem reach_delete_error_noop t r' e : rdelete r t = (r', RErr e) -> r' = r.
  Proof. apply rdelete_error_noop_strong. exact reach_inv. Qed.

  Theorem reach_roundtrip t d r1 :
    rinsert r t d = (r1, ROk tt) ->
    exists r2, rdelete r1 t = (r2, ROk d)
      /\ r_constraints r2 = r_constraints r
      /\ (forall r0 i, RM (r_root r2) r0 i <-> RM (r_root r) r0 i)
      /\ (forall chk p, rsearch chk r2 p = rsearch chk r p).
  Proof.
    intros Hi. destruct (insert_then_delete r t d r1 reach_inv Hi) as (r2 & Hd). exists r2. split; [exact Hd|].
    destruct (insert_delete_roundtrip r t d r1 r2 d reach_inv Hi Hd) as (_ & H). exact H.
  Qed.
End Reach.

(* C05 without side conditions: two histories leaving the same routes answer alike *)
Theorem reach_same_routes b1 b2 ops1 ops2 chk p :
  (forall r0 i, RM (r_root (run b1 ops1)) r0 i <-> RM (r_root (run b2 ops2)) r0 i) ->
  rsearch chk (run b1 ops1) p = rsearch chk (run b2 ops2) p.
Proof. apply same_RM_search; apply reachable_inv. Qed.

(* C05: two histories that leave the same set of live (template, data) pairs answer every path alike *)
Theorem reach_same_live b1 b2 ops1 ops2 chk p :
  (forall x, In x (live_of b1 ops1) <-> In x (live_of b2 ops2)) ->
  rsearch chk (run b1 ops1) p = rsearch chk (run b2 ops2) p.
Proof. intros H. apply (same_live_same_answers _ _ _ _ chk p (reachable_abs b1 ops1) (reachable_abs b2 ops2) H). Qed.

Theorem reach_same_live_routes b1 b2 ops1 ops2 :
  (forall x, In x (live_of b1 ops1) <-> In x (live_of b2 ops2)) ->
  forall r0 i, RM (r_root (run b1 ops1)) r0 i <-> RM (r_root (run b2 ops2)) r0 i.
Proof. intros H. apply (same_live_same_routes _ _ _ _ (reachable_abs b1 ops1) (reachable_abs b2 ops2) H). Qed.

(* C01 at history level: a match names a live template, carries the data given at its insertion, and one of its
   expansions fits the path with exactly the returned parameter names and values *)
From WF Require Import Proofs.FitsP.
Theorem reach_match_is_live b ops chk p i ps :
  rsearch chk (run b ops) p = Some (i, ps) ->
  In (i_template i, i_data i) (live_of b ops)
  /\ exists es e, parse (i_template i) = Ret es /\ In e es
       /\ map fst ps = param_names (exp_route e) /\ fits chk (exp_route e) p (map snd ps)
       /\ tinfo (i_template i) (i_data i) es (exp_route e) = Some i.
Proof.
  intros H. unfold rsearch in H.
  destruct (search_genuine chk _ p i ps (reachable_inv_b b ops) H) as (r0 & Hin & Hnames & Hfits).
  pose proof (reachable_abs b ops) as A.
  destruct (abs_sound _ _ A r0 i Hin) as [Hlive _].
  apply (abs_exact _ _ A) in Hin as (t & d & es & HL & Ep & Ht).
  destruct (tinfo_some t d es r0 i Ht) as (e & He & Hr & Hit & Hid). subst r0.
  split; [exact Hlive|]. rewrite Hit, Hid. exists es, e. repeat split; auto.
Qed.

(* C12 at history level: a router whose history left a single, group-free template live *)
From WF Require Import Proofs.RefineP Proofs.WalkGreedyP.
Lemma nodup_singleton {A} (l : list A) a : NoDup l -> (forall x, In x l <-> x = a) -> l = [a].
Proof.
  intros Hn H. destruct l as [|x l]; [exfalso; destruct (proj2 (H a) eq_refl)|].
  assert (x = a) by (apply H; left; reflexivity). subst x. f_equal.
  destruct l as [|y l]; [reflexivity|]. exfalso. assert (y = a) by (apply H; right; left; reflexivity). subst y.
  apply NoDup_cons_iff in Hn as [Hn _]. apply Hn. left; reflexivity.
Qed.

Theorem reach_single_template_greedy b ops chk t d e p i ps :
  live_of b ops = [(t, d)] -> parse t = Ret [e] ->
  rsearch chk (run b ops) p = Some (i, ps) -> LL chk (exp_route e) p (map snd ps).
Proof.
  intros HL Ep H. pose proof (reachable_abs b ops) as A. unfold live_of in HL. rewrite HL in A.
  pose proof (reachable_inv b ops) as [Wf Td].
  assert (Hroutes : routes_of (r_root (run b ops)) = [(exp_route e, mk_info t false d e)]).
  { apply nodup_singleton; [apply NoDup_of_fst, routes_nodup, Wf|].
    intros [r0 j]. change (In (r0, j) (routes_of (r_root (run b ops)))) with (RM (r_root (run b ops)) r0 j).
    rewrite (abs_exact _ _ A r0 j). split.
    - intros (t0 & d0 & es & [Heq|[]] & Ep0 & Ht). inversion Heq; subst t0 d0. rewrite Ep in Ep0. inversion Ep0; subst es.
      rewrite tinfo_single in Ht. destruct (route_eq_dec (exp_route e) r0) as [<-|]; [|discriminate]. inversion Ht. reflexivity.
    - intros Heq. inversion Heq; subst r0 j. exists t, d, [e]. split; [left; reflexivity|]. split; [exact Ep|].
      rewrite tinfo_single. destruct (route_eq_dec (exp_route e) (exp_route e)); [reflexivity|congruence]. }
  unfold rsearch in H. rewrite (search_refines_W chk _ p (wf_tidy_inv _ Wf Td)), Hroutes in H.
  eapply W_singleton_greedy. exact H.
Qed.
