(* Node::delete preserves the structural invariant and tidiness (no optimize needed afterwards:
   removing and merging never unsorts a list nor unjustifies a stored-true flag). *)
From Coq Require Import Lia Permutation Arith PeanoNat Sorted.
From WF Require Import Base.Bytes Base.Utf8 Spec.Route Spec.Walk Model.Tree Model.Ops Spec.Inv.
From WF Require Import Proofs.BytesP Proofs.WalkP Proofs.GroupsP Proofs.RefineP Proofs.InvP Proofs.OptimizeP
     Proofs.OpsLemmasP Proofs.InsertP.

(* ---- unfolding ---- *)
Lemma delete_S f n ps :
  delete (S f) n ps =
  match ps with
  | [] => match n_data n with
          | None => (n, None)
          | Some d => (set_dirty true (set_data None n), Some d)
          end
  | PS p :: ps' => delete_static f n p ps'
  | p :: ps' =>
    match part_kind p ps' with
    | None => (n, None)
    | Some (k, ky) =>
      match split_at (fun kc : key * node => keqb (fst kc) ky) (kids k n) with
      | None => (n, None)
      | Some (a, kc, b) =>
        if is_end k then
          match n_data (snd kc) with
          | None => (set_kids k (a ++ b) n, None)
          | Some d => (set_dirty true (set_kids k (a ++ b) n), Some d)
          end
        else
          let '(c', r) := delete f (snd kc) ps' in
          if is_empty c' then (set_dirty true (set_kids k (a ++ b) n), r)
          else (set_kids k (a ++ (fst kc, c') :: b) n, r)
      end
    end
  end.
Proof. reflexivity. Qed.

Lemma delete_static_S f n p ps :
  delete_static (S f) n p ps =
  match split_at (fun kc : key * node =>
          match starts_with (fst (fst kc)) p with Some _ => true | None => false end) (n_st n) with
  | None => (n, None)
  | Some (a, kc, b) =>
    let k := fst (fst kc) in
    let c := set_dirty true (snd kc) in
    let rem := skipn (length k) p in
    let '(c', r) := match rem with [] => delete f c ps | _ => delete_static f c rem ps end in
    if is_empty c' then (set_dirty true (set_st (a ++ b) n), r)
    else if is_compressible c' then
      match n_st c' with
      | [(mk, m)] => (set_st (a ++ ((k ++ fst mk, None), set_dirty true m) :: b) n, r)
      | _ => (n, None)
      end
    else (set_st (a ++ ((k, None), c') :: b) n, r)
  end.
Proof. reflexivity. Qed.

(* ---- what a deletion guarantees about the node it returns ---- *)
Definition DelOK (n n' : node) : Prop :=
  wf n' = true /\ tidy n' = true
  /\ (forall k, kids k n = [] -> kids k n' = [])
  /\ (n_data n = None -> n_data n' = None)
  /\ (slash_ok n = true -> slash_ok n' = true)
  /\ n_dflag n' = n_dflag n /\ n_wflag n' = n_wflag n.

Lemma no_kids_eq n : no_kids n = no_kids_b n.
Proof.
  unfold no_kids, no_kids_b, only_static_kids.
  destruct (n_st n), (n_dc n), (n_dy n), (n_wc n), (n_wi n), (n_ec n), (n_en n); reflexivity.
Qed.

Lemma is_empty_alive n : is_empty n = negb (alive n).
Proof.
  unfold is_empty, alive, has_data. rewrite no_kids_eq. destruct (n_data n); cbn; [reflexivity|].
  destruct (no_kids_b n); reflexivity.
Qed.

(* tidy is about lists and flags only *)
Lemma tidy_iff n :
  tidy n = true <->
  lists_sorted n = true /\ flags_ok n = true
  /\ (forall kc, In kc (n_st n) -> tidy (snd kc) = true)
  /\ (forall k kc, In kc (kids k n) -> tidy (snd kc) = true).
Proof.
  split.
  - intros H. pose proof (tidy_unpack n H) as T. rewrite tidy_eq in H. cbv zeta in H. split_andb.
    repeat split; auto; [apply (tn_st n T)|apply (tn_kids n T)].
  - intros (H1 & H2 & H3 & H4). rewrite tidy_eq. cbv zeta. rewrite H1, H2. cbn [andb].
    assert (Hs : forall l, (forall kc, In kc l -> tidy (snd kc) = true) -> forallb (fun kc : key * node => tidy (snd kc)) l = true)
      by (intros l Hl; apply forallb_forall; exact Hl).
    pose proof (Hs _ (H4 KDC)) as S1. pose proof (Hs _ (H4 KDY)) as S2. pose proof (Hs _ (H4 KWC)) as S3.
    pose proof (Hs _ (H4 KWI)) as S4. pose proof (Hs _ (H4 KEC)) as S5. pose proof (Hs _ (H4 KEN)) as S6.
    cbn [kids] in S1, S2, S3, S4, S5, S6.
    rewrite (Hs _ H3), S1, S2, S3, S4, S5, S6. reflexivity.
Qed.

(* strict sortedness survives removal and same-key replacement *)
Lemma strictly_sorted_SS l : strictly_sorted l = true -> StronglySorted kklt l.
Proof.
  induction l as [|x l IH]; intros H; [constructor|]. cbn [strictly_sorted] in H. apply andb_true_iff in H as [H1 H2].
  specialize (IH H2). constructor; [exact IH|].
  destruct l as [|y l]; [constructor|].
  assert (Hxy : kklt x y) by (unfold kklt, klt; destruct (kcmp (fst x) (fst y)); try discriminate; reflexivity).
  constructor; [exact Hxy|]. apply StronglySorted_inv in IH as [_ Hall].
  eapply Forall_impl; [|exact Hall]. intros a Ha. unfold kklt in *. eapply klt_trans; eauto.
Qed.

Lemma SS_remove {A} (R : A -> A -> Prop) a x b : StronglySorted R (a ++ x :: b) -> StronglySorted R (a ++ b).
Proof.
  induction a as [|y a IH]; cbn [app]; intros H.
  - apply StronglySorted_inv in H. apply H.
  - apply StronglySorted_inv in H as [H1 H2]. constructor; [apply IH; exact H1|].
    rewrite Forall_forall in *. intros z Hz. apply H2. apply in_app_or in Hz as [Hz|Hz]; apply in_or_app; [left|right; right]; exact Hz.
Qed.

Lemma strictly_sorted_remove a x b : strictly_sorted (a ++ x :: b) = true -> strictly_sorted (a ++ b) = true.
Proof. intros H. apply SS_strictly_sorted. eapply SS_remove. apply strictly_sorted_SS. exact H. Qed.

Lemma SS_replace_key a x b x' :
  StronglySorted kklt (a ++ x :: b) ->
  (forall y, In y a \/ In y b -> kcmp (fst x') (fst y) = kcmp (fst x) (fst y) /\ kcmp (fst y) (fst x') = kcmp (fst y) (fst x)) ->
  StronglySorted kklt (a ++ x' :: b).
Proof.
  induction a as [|y a IH]; cbn [app]; intros H Hc.
  - apply StronglySorted_inv in H as [H1 H2]. constructor; [exact H1|].
    rewrite Forall_forall in *. intros z Hz. unfold kklt, klt in *. rewrite (proj1 (Hc z (or_intror Hz))). apply H2. exact Hz.
  - apply StronglySorted_inv in H as [H1 H2]. constructor.
    + apply IH; [exact H1|]. intros z Hz. apply Hc. destruct Hz; [left; right|right]; assumption.
    + rewrite Forall_forall in *. intros z Hz. apply in_app_or in Hz as [Hz|[<-|Hz]].
      * apply H2. apply in_or_app. left; exact Hz.
      * unfold kklt, klt. rewrite (proj2 (Hc y (or_introl (or_introl eq_refl)))). apply H2. apply in_or_app. right; left; reflexivity.
      * apply H2. apply in_or_app. right; right; exact Hz.
Qed.

Lemma strictly_sorted_replace_same a x b x' :
  strictly_sorted (a ++ x :: b) = true -> fst x' = fst x -> strictly_sorted (a ++ x' :: b) = true.
Proof.
  intros H Hk. apply SS_strictly_sorted. eapply SS_replace_key; [apply strictly_sorted_SS; exact H|].
  intros y _. rewrite Hk. auto.
Qed.

(* ---- removal from child lists ---- *)
Lemma NoDup_remove_mid {A} (a : list A) x b : NoDup (a ++ x :: b) -> NoDup (a ++ b).
Proof. apply NoDup_remove_1. Qed.

Lemma static_keys_ok_remove a x b : static_keys_ok (a ++ x :: b) = true -> static_keys_ok (a ++ b) = true.
Proof.
  intros H. apply static_keys_ok_spec. apply static_keys_ok_spec in H as [Hg Hd]. split.
  - apply Forall_app in Hg as [H1 H2]. apply Forall_inv_tail in H2. apply Forall_app. auto.
  - rewrite map_app in *. cbn [map] in Hd. apply NoDup_remove_1 in Hd. exact Hd.
Qed.

Lemma forallb_remove {A} (f : A -> bool) a x b : forallb f (a ++ x :: b) = true -> forallb f (a ++ b) = true.
Proof.
  rewrite !forallb_app. cbn [forallb]. intros H. apply andb_true_iff in H as [H1 H2]. apply andb_true_iff in H2 as [_ H2].
  rewrite H1, H2. reflexivity.
Qed.

Lemma keys_nodup_remove a x b : keys_nodup (a ++ x :: b) = true -> keys_nodup (a ++ b) = true.
Proof.
  intros H. apply keys_nodup_spec. apply keys_nodup_spec in H. rewrite map_app in *. cbn [map] in H.
  apply NoDup_remove_1 in H. exact H.
Qed.

Lemma st_wf_remove a x b : st_wf (a ++ x :: b) = true -> st_wf (a ++ b) = true.
Proof.
  unfold st_wf. intros H. apply andb_true_iff in H as [H1 H2].
  rewrite (static_keys_ok_remove _ _ _ H1), (forallb_remove _ _ _ _ H2). reflexivity.
Qed.

Lemma kind_wf_remove k a x b : kind_wf k (a ++ x :: b) = true -> kind_wf k (a ++ b) = true.
Proof.
  unfold kind_wf, mid_wf, end_wf. destruct (is_end k); intros H; apply andb_true_iff in H as [H1 H2];
    rewrite (keys_nodup_remove _ _ _ H1), (forallb_remove _ _ _ _ H2); reflexivity.
Qed.

(* ---- comparing static keys with different first bytes ---- *)
Lemma bcmp_first x a y b : x <> y -> bcmp (x :: a) (y :: b) = N.compare x y.
Proof. intros H. cbn [bcmp]. destruct (N.compare x y) eqn:E; try reflexivity. apply N.compare_eq in E. contradiction. Qed.

Lemma kcmp_static_first x a a' y b :
  x <> y -> kcmp (x :: a, None) (y :: b, None) = kcmp (x :: a', None) (y :: b, None)
            /\ kcmp (y :: b, None) (x :: a, None) = kcmp (y :: b, None) (x :: a', None).
Proof.
  intros H. unfold kcmp. cbn [fst snd]. rewrite !(bcmp_first x _ y _ H).
  assert (H' : y <> x) by congruence. rewrite !(bcmp_first y _ x _ H'). auto.
Qed.

(* flags depend on the flagged lists only through slash_ok of their members *)
Lemma flags_ok_shrink n n' :
  flags_ok n = true -> n_dflag n' = n_dflag n -> n_wflag n' = n_wflag n ->
  (forall k kc', is_end k = false -> In kc' (kids k n') ->
                 exists kc, In kc (kids k n) /\ (slash_ok (snd kc) = true -> slash_ok (snd kc') = true)) ->
  flags_ok n' = true.
Proof.
  unfold flags_ok. intros H Hd Hw Hsub. apply andb_true_iff in H as [H1 H2]. rewrite Hd, Hw.
  assert (Hgen : forall k1 k2, is_end k1 = false -> is_end k2 = false ->
            forallb (fun kc : key * node => slash_ok (snd kc)) (kids k1 n ++ kids k2 n) = true ->
            forallb (fun kc : key * node => slash_ok (snd kc)) (kids k1 n' ++ kids k2 n') = true).
  { intros k1 k2 E1 E2 Hf. rewrite forallb_forall in Hf. apply forallb_forall. intros kc' Hin.
    apply in_app_or in Hin as [Hin|Hin].
    - destruct (Hsub k1 kc' E1 Hin) as (kc & Hkc & Himp). apply Himp. apply Hf. apply in_or_app. left; exact Hkc.
    - destruct (Hsub k2 kc' E2 Hin) as (kc & Hkc & Himp). apply Himp. apply Hf. apply in_or_app. right; exact Hkc. }
  apply andb_true_iff. split.
  - destruct (n_dflag n); [|reflexivity]. cbn [implb] in *. apply (Hgen KDC KDY eq_refl eq_refl H1).
  - destruct (n_wflag n); [|reflexivity]. cbn [implb] in *. apply (Hgen KWC KWI eq_refl eq_refl H2).
Qed.

Lemma lists_sorted_iff n :
  lists_sorted n = true <-> strictly_sorted (n_st n) = true /\ forall k, strictly_sorted (kids k n) = true.
Proof.
  unfold lists_sorted. split.
  - intros H. split_andb. split; [assumption|]. intros k; destruct k; assumption.
  - intros [H1 H2]. rewrite H1.
    pose proof (H2 KDC) as S1. pose proof (H2 KDY) as S2. pose proof (H2 KWC) as S3.
    pose proof (H2 KWI) as S4. pose proof (H2 KEC) as S5. pose proof (H2 KEN) as S6.
    cbn [kids] in *. rewrite S1, S2, S3, S4, S5, S6. reflexivity.
Qed.

(* the node with one kind's list replaced, dirty mark arbitrary *)
Lemma flag_set_kids k l n : n_dflag (set_kids k l n) = n_dflag n /\ n_wflag (set_kids k l n) = n_wflag n.
Proof. destruct k, n; split; reflexivity. Qed.
Lemma flag_set_st l n : n_dflag (set_st l n) = n_dflag n /\ n_wflag (set_st l n) = n_wflag n.
Proof. destruct n; split; reflexivity. Qed.
Lemma flag_set_dirty b n : n_dflag (set_dirty b n) = n_dflag n /\ n_wflag (set_dirty b n) = n_wflag n.
Proof. destruct n; split; reflexivity. Qed.
Lemma flag_set_data d n : n_dflag (set_data d n) = n_dflag n /\ n_wflag (set_data d n) = n_wflag n.
Proof. destruct n; split; reflexivity. Qed.

Lemma slash_ok_same_st n n' : n_st n' = n_st n -> slash_ok n' = slash_ok n.
Proof. unfold slash_ok. intros ->. reflexivity. Qed.

(* wf / tidy are insensitive to the node's own dirty mark and data *)
Lemma wf_set_dirty b n : wf (set_dirty b n) = wf n.
Proof. apply wf_same_lists; [apply st_set_dirty|intros k; apply kids_set_dirty]. Qed.

Lemma tidy_same n n' :
  n_st n' = n_st n -> (forall k, kids k n' = kids k n) -> n_dflag n' = n_dflag n -> n_wflag n' = n_wflag n ->
  tidy n' = tidy n.
Proof.
  intros Hs Hk Hd Hw. rewrite !tidy_eq. cbv zeta. unfold lists_sorted, flags_ok.
  pose proof (Hk KDC) as K1. pose proof (Hk KDY) as K2. pose proof (Hk KWC) as K3.
  pose proof (Hk KWI) as K4. pose proof (Hk KEC) as K5. pose proof (Hk KEN) as K6.
  cbn [kids] in *. rewrite Hs, K1, K2, K3, K4, K5, K6, Hd, Hw. reflexivity.
Qed.

Lemma tidy_set_dirty b n : tidy (set_dirty b n) = tidy n.
Proof.
  apply tidy_same; [apply st_set_dirty|intros k; apply kids_set_dirty|apply flag_set_dirty|apply flag_set_dirty].
Qed.

Lemma DelOK_refl n : wf n = true -> tidy n = true -> DelOK n n.
Proof. intros H1 H2. unfold DelOK. repeat split; auto. Qed.

Definition mark (dm : bool) (n : node) : node := if dm then set_dirty true n else n.

Lemma mark_st dm n : n_st (mark dm n) = n_st n.
Proof. destruct dm; [apply st_set_dirty|reflexivity]. Qed.
Lemma mark_kids dm k n : kids k (mark dm n) = kids k n.
Proof. destruct dm; [apply kids_set_dirty|reflexivity]. Qed.
Lemma mark_data dm n : n_data (mark dm n) = n_data n.
Proof. destruct dm; [apply data_set_dirty|reflexivity]. Qed.
Lemma mark_flags dm n : n_dflag (mark dm n) = n_dflag n /\ n_wflag (mark dm n) = n_wflag n.
Proof. destruct dm; [apply flag_set_dirty|split; reflexivity]. Qed.

(* assemble DelOK for a node whose lists were edited *)
Lemma DelOK_build n n' :
  tidy n = true ->
  st_wf (n_st n') = true -> (forall k, kind_wf k (kids k n') = true) ->
  strictly_sorted (n_st n') = true -> (forall k, strictly_sorted (kids k n') = true) ->
  n_dflag n' = n_dflag n -> n_wflag n' = n_wflag n ->
  (forall k kc', is_end k = false -> In kc' (kids k n') ->
                 exists kc, In kc (kids k n) /\ (slash_ok (snd kc) = true -> slash_ok (snd kc') = true)) ->
  (forall kc, In kc (n_st n') -> tidy (snd kc) = true) ->
  (forall k kc, In kc (kids k n') -> tidy (snd kc) = true) ->
  (forall k, kids k n = [] -> kids k n' = []) ->
  (n_data n = None -> n_data n' = None) ->
  (slash_ok n = true -> slash_ok n' = true) ->
  DelOK n n'.
Proof.
  intros Ht Wst Wk Sst Sk Fd Fw Hsub Tst Tk Hk Hd Hs.
  pose proof (tidy_unpack n Ht) as T.
  unfold DelOK. split; [apply wf_iff; auto|]. split; [|repeat split; auto].
  apply tidy_iff. split; [apply lists_sorted_iff; auto|]. split; [|split; auto].
  eapply flags_ok_shrink; eauto. apply (tn_flags n T).
Qed.

(* editing the list of one kind *)
Lemma del_kind_edit n k l' dm :
  wf n = true -> tidy n = true ->
  kind_wf k l' = true -> strictly_sorted l' = true ->
  (forall kc', In kc' l' -> tidy (snd kc') = true
               /\ exists kc, In kc (kids k n) /\ (slash_ok (snd kc) = true -> slash_ok (snd kc') = true)) ->
  (kids k n = [] -> l' = []) ->
  DelOK n (mark dm (set_kids k l' n)).
Proof.
  intros Hwf Ht Wl Sl Hl Hnil.
  apply wf_iff in Hwf as [Wst Wk]. pose proof (tidy_unpack n Ht) as T.
  assert (Hkids : forall k', kids k' (mark dm (set_kids k l' n)) = if kind_eq_dec k k' then l' else kids k' n).
  { intros k'. rewrite mark_kids. destruct (kind_eq_dec k k') as [<-|Hne];
      [apply kids_set_kids_same|apply kids_set_kids_other; exact Hne]. }
  apply DelOK_build; auto.
  - rewrite mark_st, st_set_kids. exact Wst.
  - intros k'. rewrite Hkids. destruct (kind_eq_dec k k'); [subst; exact Wl|apply Wk].
  - rewrite mark_st, st_set_kids. apply (tn_sorted_st n T).
  - intros k'. rewrite Hkids. destruct (kind_eq_dec k k'); [exact Sl|apply (tn_sorted n T)].
  - rewrite (proj1 (mark_flags dm _)). apply flag_set_kids.
  - rewrite (proj2 (mark_flags dm _)). apply flag_set_kids.
  - intros k' kc' He Hin. rewrite Hkids in Hin. destruct (kind_eq_dec k k') as [<-|Hne].
    + apply (Hl kc' Hin).
    + exists kc'. auto.
  - intros kc Hin. rewrite mark_st, st_set_kids in Hin. apply (tn_st n T kc Hin).
  - intros k' kc Hin. rewrite Hkids in Hin. destruct (kind_eq_dec k k') as [<-|Hne].
    + apply (Hl kc Hin).
    + apply (tn_kids n T k' kc Hin).
  - intros k' Hn. rewrite Hkids. destruct (kind_eq_dec k k') as [<-|Hne]; [apply Hnil; exact Hn|exact Hn].
  - intros Hn. rewrite mark_data, data_set_kids. exact Hn.
  - intros Hs. rewrite (slash_ok_same_st n); [exact Hs|]. rewrite mark_st, st_set_kids. reflexivity.
Qed.

(* editing the static list *)
Lemma del_static_edit n l' dm :
  wf n = true -> tidy n = true ->
  st_wf l' = true -> strictly_sorted l' = true ->
  (forall kc', In kc' l' -> tidy (snd kc') = true) ->
  (slash_ok n = true -> forallb (fun kc : key * node => hd_is SL (fst (fst kc))) l' = true) ->
  DelOK n (mark dm (set_st l' n)).
Proof.
  intros Hwf Ht Wl Sl Hl Hsl.
  apply wf_iff in Hwf as [Wst Wk]. pose proof (tidy_unpack n Ht) as T.
  apply DelOK_build; auto.
  - rewrite mark_st, st_set_st. exact Wl.
  - intros k. rewrite mark_kids, kids_set_st. apply Wk.
  - rewrite mark_st, st_set_st. exact Sl.
  - intros k. rewrite mark_kids, kids_set_st. apply (tn_sorted n T).
  - rewrite (proj1 (mark_flags dm _)). apply flag_set_st.
  - rewrite (proj2 (mark_flags dm _)). apply flag_set_st.
  - intros k kc' He Hin. rewrite mark_kids, kids_set_st in Hin. exists kc'. auto.
  - intros kc Hin. rewrite mark_st, st_set_st in Hin. apply (Hl kc Hin).
  - intros k kc Hin. rewrite mark_kids, kids_set_st in Hin. apply (tn_kids n T k kc Hin).
  - intros k Hn. rewrite mark_kids, kids_set_st. exact Hn.
  - intros Hn. rewrite mark_data, data_set_st. exact Hn.
  - intros Hs. unfold slash_ok. rewrite mark_st, st_set_st. apply Hsl. exact Hs.
Qed.

Lemma in_mid_or {A} (a : list A) x b y : In y (a ++ b) -> In y (a ++ x :: b).
Proof. intros H. apply in_app_or in H as [H|H]; apply in_or_app; [left|right; right]; exact H. Qed.

Lemma strictly_sorted_static_rekey a k c b k' c' :
  strictly_sorted (a ++ ((k, None), c) :: b) = true ->
  static_keys_ok (a ++ ((k, None), c) :: b) = true ->
  first_byte (k', @None bytes) = first_byte (k, @None bytes) ->
  strictly_sorted (a ++ ((k', None), c') :: b) = true.
Proof.
  intros Hs Hk Hfb. apply SS_strictly_sorted. eapply SS_replace_key; [apply strictly_sorted_SS; exact Hs|].
  intros y Hy. cbn [fst].
  apply static_keys_ok_spec in Hk as [Hg Hd].
  assert (Hyin : In y (a ++ ((k, None), c) :: b)) by (destruct Hy as [Hy|Hy]; apply in_or_app; [left|right; right]; exact Hy).
  rewrite Forall_forall in Hg. destruct (Hg y Hyin) as [Hyb Hyc].
  destruct (Hg ((k, None), c) ltac:(apply in_or_app; right; left; reflexivity)) as [Hkb _].
  unfold first_byte in *. cbn [fst] in *.
  destruct y as [[yk yc] yn]. cbn [fst snd] in *. subst yc.
  destruct k as [|x k0]; [congruence|]. destruct k' as [|x' k0']; [discriminate|]. inversion Hfb; subst x'.
  destruct yk as [|yb yk]; [congruence|].
  assert (Hne : x <> yb).
  { intros ->. rewrite map_app in Hd. cbn [map fst] in Hd.
    destruct Hy as [Hy|Hy].
    - apply in_split in Hy as (a1 & a2 & ->). rewrite map_app in Hd. cbn [map fst] in Hd.
      rewrite <- app_assoc in Hd. cbn [app] in Hd. apply NoDup_remove_2 in Hd. apply Hd.
      apply in_or_app. right. apply in_or_app. right. left. reflexivity.
    - apply NoDup_remove_2 in Hd. apply Hd. apply in_or_app. right.
      apply in_map_iff. exists ((yb :: yk, None), yn). auto. }
  split; apply kcmp_static_first; congruence.
Qed.

Lemma delete_ok : forall fuel,
  (forall n ps, wf n = true -> tidy n = true -> DelOK n (fst (delete fuel n ps)))
  /\ (forall n p ps, wf n = true -> tidy n = true -> DelOK n (fst (delete_static fuel n p ps))).
Proof.
  induction fuel as [|f [IHd IHs]]; [split; intros; apply DelOK_refl; assumption|].
  split.
  - (* delete *)
    intros n ps Hwf Ht. rewrite delete_S.
    pose proof (proj1 (wf_iff n) Hwf) as [Wst Wk]. pose proof (tidy_unpack n Ht) as T.
    destruct ps as [|p0 ps'].
    + destruct (n_data n) eqn:Ed; [|apply DelOK_refl; assumption]. cbn [fst].
      apply DelOK_build.
      * exact Ht.
      * rewrite st_set_dirty, st_set_data. exact Wst.
      * intros k. rewrite kids_set_dirty, kids_set_data. apply Wk.
      * rewrite st_set_dirty, st_set_data. apply (tn_sorted_st n T).
      * intros k. rewrite kids_set_dirty, kids_set_data. apply (tn_sorted n T).
      * rewrite (proj1 (flag_set_dirty _ _)). apply flag_set_data.
      * rewrite (proj2 (flag_set_dirty _ _)). apply flag_set_data.
      * intros k kc' He Hin. rewrite kids_set_dirty, kids_set_data in Hin. exists kc'. auto.
      * intros kc Hin. rewrite st_set_dirty, st_set_data in Hin. apply (tn_st n T kc Hin).
      * intros k kc Hin. rewrite kids_set_dirty, kids_set_data in Hin. apply (tn_kids n T k kc Hin).
      * intros k Hn. rewrite kids_set_dirty, kids_set_data. exact Hn.
      * intros _. rewrite data_set_dirty, data_set_data. reflexivity.
      * intros Hs. rewrite (slash_ok_same_st n); [exact Hs|]. rewrite st_set_dirty, st_set_data. reflexivity.
    + assert (Hparam : forall k ky,
               DelOK n (fst (match split_at (fun kc : key * node => keqb (fst kc) ky) (kids k n) with
                             | None => (n, None)
                             | Some (a, kc, b) =>
                               if is_end k then
                                 match n_data (snd kc) with
                                 | None => (set_kids k (a ++ b) n, None)
                                 | Some d => (set_dirty true (set_kids k (a ++ b) n), Some d)
                                 end
                               else
                                 let '(c', r) := delete f (snd kc) ps' in
                                 if is_empty c' then (set_dirty true (set_kids k (a ++ b) n), r)
                                 else (set_kids k (a ++ (fst kc, c') :: b) n, r)
                             end))).
      { intros k ky.
        destruct (split_at _ (kids k n)) as [[[a kc] b]|] eqn:Es; [|apply DelOK_refl; assumption].
        apply split_at_some in Es as (Hl & _ & _).
        pose proof (Wk k) as Wkk. rewrite Hl in Wkk.
        pose proof (tn_sorted n T k) as Skk. rewrite Hl in Skk.
        assert (Hrem : forall dm, DelOK n (mark dm (set_kids k (a ++ b) n))).
        { intros dm. apply del_kind_edit; auto.
          - eapply kind_wf_remove; exact Wkk.
          - eapply strictly_sorted_remove; exact Skk.
          - intros kc' Hin. assert (Hin' : In kc' (kids k n)) by (rewrite Hl; apply in_mid_or; exact Hin).
            split; [apply (tn_kids n T k kc' Hin')|exists kc'; auto].
          - intros Hn. rewrite Hn in Hl. destruct a; discriminate. }
        destruct (is_end k) eqn:He.
        - destruct (n_data (snd kc)); cbn [fst]; [apply (Hrem true)|apply (Hrem false)].
        - destruct (delete f (snd kc) ps') as [c' r] eqn:Edel.
          assert (Hkc : In kc (kids k n)) by (rewrite Hl; apply in_or_app; right; left; reflexivity).
          assert (Hkok : mid_child_ok k kc = true).
          { unfold kind_wf in Wkk. rewrite He in Wkk. unfold mid_wf in Wkk. apply andb_true_iff in Wkk as [_ Wf].
            rewrite forallb_forall in Wf. apply Wf. apply in_or_app. right; left; reflexivity. }
          unfold mid_child_ok in Hkok. split_andb.
          assert (Hc' : DelOK (snd kc) c').
          { pose proof (IHd (snd kc) ps') as Hx. rewrite Edel in Hx. apply Hx; [assumption|apply (tn_kids n T k kc Hkc)]. }
          destruct Hc' as (C1 & C2 & C3 & C4 & C5 & _ & _).
          destruct (is_empty c') eqn:Eem; cbn [fst]; [apply (Hrem true)|].
          apply (del_kind_edit n k (a ++ (fst kc, c') :: b) false); auto.
          + unfold kind_wf. rewrite He. unfold kind_wf in Wkk. rewrite He in Wkk.
            eapply mid_wf_replace; [exact Wkk|reflexivity|]. unfold mid_child_ok. cbn [fst snd].
            assert (Hos : only_static_kids c' = true).
            { assert (Hnil : forall l : list (key * node), is_nil l = true -> l = []) by (intros [|? ?]; [reflexivity|discriminate]).
              unfold only_static_kids in *. split_andb.
              pose proof (C3 KDC) as K1. pose proof (C3 KDY) as K2. pose proof (C3 KWC) as K3.
              pose proof (C3 KWI) as K4. pose proof (C3 KEC) as K5. pose proof (C3 KEN) as K6.
              cbn [kids] in K1, K2, K3, K4, K5, K6.
              rewrite K1, K2, K3, K4, K5, K6 by (apply Hnil; assumption). reflexivity. }
            assert (Hal : alive c' = true) by (rewrite is_empty_alive in Eem; apply negb_false_iff in Eem; exact Eem).
            match goal with Hx : key_ok k (fst kc) = true |- _ => rewrite Hx end.
            rewrite Hos, Hal, C1.
            destruct (is_dyn k) eqn:Edy; [reflexivity|].
            match goal with Hx : negb (has_data (snd kc)) = true |- _ => apply negb_true_iff in Hx; unfold has_data in Hx end.
            unfold has_data. destruct (n_data (snd kc)) eqn:Edd; [discriminate|]. rewrite (C4 eq_refl). reflexivity.
          + eapply strictly_sorted_replace_same; [exact Skk|reflexivity].
          + intros kc' Hin. apply in_split_mid in Hin as [Hin|[->|Hin]].
            * assert (Hin' : In kc' (kids k n)) by (rewrite Hl; apply in_or_app; left; exact Hin).
              split; [apply (tn_kids n T k kc' Hin')|exists kc'; auto].
            * cbn [snd]. split; [exact C2|]. exists kc. auto.
            * assert (Hin' : In kc' (kids k n)) by (rewrite Hl; apply in_or_app; right; right; exact Hin).
              split; [apply (tn_kids n T k kc' Hin')|exists kc'; auto].
          + intros Hn. rewrite Hn in Hl. destruct a; discriminate. }
      destruct p0 as [s|nm c|nm c].
      * apply IHs; assumption.
      * destruct (part_kind (PD nm c) ps') as [[k ky]|]; [apply Hparam|apply DelOK_refl; assumption].
      * destruct (part_kind (PW nm c) ps') as [[k ky]|]; [apply Hparam|apply DelOK_refl; assumption].
  - (* delete_static *)
    intros n p ps Hwf Ht. rewrite delete_static_S.
    pose proof (proj1 (wf_iff n) Hwf) as [Wst Wk]. pose proof (tidy_unpack n Ht) as T.
    destruct (split_at _ (n_st n)) as [[[a kc] b]|] eqn:Es; [|apply DelOK_refl; assumption].
    apply split_at_some in Es as (Hl & _ & _).
    assert (Hkc : In kc (n_st n)) by (rewrite Hl; apply in_or_app; right; left; reflexivity).
    pose proof Wst as Wst'. rewrite Hl in Wst'. pose proof (tn_sorted_st n T) as Sst. rewrite Hl in Sst.
    unfold st_wf in Wst. apply andb_true_iff in Wst as [Wkeys Wch].
    destruct (static_keys_nonempty _ _ Wkeys Hkc) as (b0 & k0' & Hk0 & Hcn).
    assert (Hkca : alive (snd kc) = true /\ wf (snd kc) = true).
    { rewrite forallb_forall in Wch. specialize (Wch kc Hkc). apply andb_true_iff in Wch. exact Wch. }
    destruct Hkca as [Hka Hkw].
    pose proof (tn_st n T kc Hkc) as Hkt.
    destruct kc as [[k kcn] c0]. cbn [fst snd] in *. subst kcn. cbv zeta. cbn [fst snd].
    set (c := set_dirty true c0).
    assert (Hwc : wf c = true) by (unfold c; rewrite wf_set_dirty; exact Hkw).
    assert (Htc : tidy c = true) by (unfold c; rewrite tidy_set_dirty; exact Hkt).
    assert (Hrem : forall dm, DelOK n (mark dm (set_st (a ++ b) n))).
    { intros dm. apply del_static_edit; auto.
      - eapply st_wf_remove; exact Wst'.
      - eapply strictly_sorted_remove; exact Sst.
      - intros kc' Hin. apply (tn_st n T). rewrite Hl. apply in_mid_or. exact Hin.
      - intros Hs. unfold slash_ok in Hs. rewrite Hl in Hs. eapply forallb_remove. exact Hs. }
    destruct (match skipn (length k) p with [] => delete f c ps | _ :: _ => delete_static f c (skipn (length k) p) ps end)
      as [c' r] eqn:Edel.
    assert (Hc' : DelOK c c').
    { destruct (skipn (length k) p) eqn:Esk.
      - pose proof (IHd c ps Hwc Htc) as Hx. rewrite Edel in Hx. exact Hx.
      - pose proof (IHs c (b1 :: l) ps Hwc Htc) as Hx. rewrite Edel in Hx. exact Hx. }
    destruct Hc' as (C1 & C2 & C3 & C4 & C5 & _ & _).
    destruct (is_empty c') eqn:Eem; cbn [fst]; [apply (Hrem true)|].
    assert (Hal : alive c' = true) by (rewrite is_empty_alive in Eem; apply negb_false_iff in Eem; exact Eem).
    assert (Hslash : forall k', first_byte (k', @None bytes) = first_byte (k, @None bytes) ->
              slash_ok n = true ->
              forallb (fun kc : key * node => hd_is SL (fst (fst kc))) (a ++ ((k', None), c') :: b) = true
              /\ True).
    { intros k' Hfb Hs. split; [|exact I]. unfold slash_ok in Hs. rewrite Hl in Hs. rewrite forallb_app in *. cbn [forallb fst] in *.
      apply andb_true_iff in Hs as [Hs1 Hs2]. apply andb_true_iff in Hs2 as [Hs2 Hs3]. rewrite Hs1, Hs3.
      unfold first_byte in Hfb. cbn [fst] in Hfb. rewrite Hk0 in *.
      destruct k' as [|x k'']; [discriminate|]. inversion Hfb; subst. cbn [hd_is] in *. rewrite Hs2. reflexivity. }
    destruct (is_compressible c') eqn:Ecomp.
    + destruct (n_st c') as [|[mk m] [|? ?]] eqn:Est; cbn [fst]; try (apply DelOK_refl; assumption).
      (* merge with the only static child *)
      pose proof (proj1 (wf_iff c') C1) as [Wst2 _]. rewrite Est in Wst2.
      unfold st_wf in Wst2. apply andb_true_iff in Wst2 as [Wk2 Wc2]. cbn [forallb snd] in Wc2.
      rewrite andb_true_r in Wc2. apply andb_true_iff in Wc2 as [Hma Hmw].
      pose proof (tidy_unpack c' C2) as T2.
      assert (Hmt : tidy m = true) by (apply (tn_st c' T2 (mk, m)); rewrite Est; left; reflexivity).
      assert (Hfb : first_byte (k ++ fst mk, @None bytes) = first_byte (k, @None bytes))
        by (unfold first_byte; cbn [fst]; rewrite Hk0; reflexivity).
      apply (del_static_edit n (a ++ ((k ++ fst mk, None), set_dirty true m) :: b) false); auto.
      * eapply st_wf_replace; [exact Wst'| | |].
        -- unfold skey. cbn [fst snd]. f_equal. exact Hfb.
        -- cbn [snd]. unfold alive in *. unfold has_data, no_kids_b, only_static_kids in *.
           rewrite data_set_dirty, st_set_dirty.
           pose proof (kids_set_dirty KDC true m) as E1. pose proof (kids_set_dirty KDY true m) as E2.
           pose proof (kids_set_dirty KWC true m) as E3. pose proof (kids_set_dirty KWI true m) as E4.
           pose proof (kids_set_dirty KEC true m) as E5. pose proof (kids_set_dirty KEN true m) as E6.
           cbn [kids] in *. rewrite E1, E2, E3, E4, E5, E6. exact Hma.
        -- cbn [snd]. rewrite wf_set_dirty. exact Hmw.
      * rewrite Hl in Wkeys. eapply strictly_sorted_static_rekey; [exact Sst|exact Wkeys|exact Hfb].
      * intros kc' Hin. apply in_split_mid in Hin as [Hin|[->|Hin]].
        -- apply (tn_st n T). rewrite Hl. apply in_or_app. left; exact Hin.
        -- cbn [snd]. rewrite tidy_set_dirty. exact Hmt.
        -- apply (tn_st n T). rewrite Hl. apply in_or_app. right; right; exact Hin.
      * intros Hs. destruct (Hslash (k ++ fst mk) Hfb Hs) as [Hx _].
        rewrite forallb_app in *. cbn [forallb fst] in *. exact Hx.
    + apply (del_static_edit n (a ++ ((k, None), c') :: b) false); auto.
      * eapply st_wf_replace; [exact Wst'|reflexivity|exact Hal|exact C1].
      * eapply strictly_sorted_replace_same; [exact Sst|reflexivity].
      * intros kc' Hin. apply in_split_mid in Hin as [Hin|[->|Hin]].
        -- apply (tn_st n T). rewrite Hl. apply in_or_app. left; exact Hin.
        -- exact C2.
        -- apply (tn_st n T). rewrite Hl. apply in_or_app. right; right; exact Hin.
      * intros Hs. destruct (Hslash k eq_refl Hs) as [Hx _]. exact Hx.
Qed.

Theorem delete_wf_tidy fuel n ps :
  wf n = true -> tidy n = true -> wf (fst (delete fuel n ps)) = true /\ tidy (fst (delete fuel n ps)) = true.
Proof. intros H1 H2. destruct (proj1 (delete_ok fuel) n ps H1 H2) as (A & B & _). auto. Qed.
