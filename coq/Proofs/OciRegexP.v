(* C17: the regular expression of the example's name constraint (the text is REGENERATED from
   examples/oci/src/constraints/name.rs every run and parsed by Spec/Regex.v) denotes exactly the repository-name
   grammar name_ok of Spec/OciSpec.v - for every byte string. *)
From Coq Require Import Lia Arith PeanoNat.
From WF Require Import Base.Bytes Spec.OciSpec Spec.Regex Gen.Oci.
From WF Require Import Proofs.BytesP Proofs.OciReadP.
Import ListNotations.
Local Open Scope N_scope.

Lemma forallb_ext {X} (f g : X -> bool) l : (forall x, f x = g x) -> forallb f l = forallb g l.
Proof. intros H. induction l as [|x l IH]; [reflexivity|]. cbn [forallb]. rewrite H, IH. reflexivity. Qed.

(* ---- inversions ---- *)
Lemma M_cat_inv a b s : M (Cat a b) s -> exists u v, s = u ++ v /\ M a u /\ M b v.
Proof. intros H. inversion H; subst. eauto. Qed.
Lemma M_alt_inv a b s : M (Alt a b) s -> M a s \/ M b s.
Proof. intros H. inversion H; subst; auto. Qed.
Lemma M_cls_inv rs s : M (Cls rs) s -> exists b, s = [b] /\ in_cls rs b = true.
Proof. intros H. inversion H; subst. eauto. Qed.
Lemma M_plus_inv a s : M (Plus a) s -> exists u v, s = u ++ v /\ M a u /\ M (Star a) v.
Proof. intros H. inversion H; subst. eauto. Qed.
Lemma M_lit b s : M (lit b) s <-> s = [b].
Proof.
  unfold lit. split.
  - intros H. apply M_cls_inv in H as (c & -> & Hc). cbn in Hc. rewrite orb_false_r in Hc. apply andb_prop in Hc as [H1 H2].
    apply N.leb_le in H1. apply N.leb_le in H2. f_equal. lia.
  - intros ->. constructor. cbn. rewrite N.leb_refl. reflexivity.
Qed.

Lemma M_star_ind' (a : re) (P : bytes -> Prop) :
  P [] -> (forall s t, M a s -> M (Star a) t -> P t -> P (s ++ t)) -> forall s, M (Star a) s -> P s.
Proof.
  intros H0 Hc s H. remember (Star a) as r eqn:E. induction H; inversion E; subst.
  - exact H0.
  - apply Hc; auto.
Qed.

Lemma M_star_app a s t : M (Star a) s -> M (Star a) t -> M (Star a) (s ++ t).
Proof.
  intros Hs Ht. revert s Hs. apply M_star_ind'; [exact Ht|]. intros s1 t1 H1 _ IH. rewrite <- app_assoc. constructor; assumption.
Qed.

Lemma M_star_one a s : M a s -> M (Star a) s.
Proof. intros H. rewrite <- (app_nil_r s). constructor; [exact H|constructor]. Qed.

(* ---- runs of one class ---- *)
Lemma star_cls rs s : M (Star (Cls rs)) s <-> forallb (in_cls rs) s = true.
Proof.
  split.
  - revert s. apply M_star_ind'; [reflexivity|]. intros s t Hs _ IH. apply M_cls_inv in Hs as (b & -> & Hb). cbn [app forallb]. rewrite Hb. exact IH.
  - induction s as [|b s IH]; intros H; [constructor|]. cbn [forallb] in H. apply andb_prop in H as [Hb Hs].
    change (b :: s) with ([b] ++ s). constructor; [constructor; exact Hb|apply IH, Hs].
Qed.

Lemma plus_cls rs s : M (Plus (Cls rs)) s <-> s <> [] /\ forallb (in_cls rs) s = true.
Proof.
  split.
  - intros H. apply M_plus_inv in H as (u & v & -> & Hu & Hv). apply M_cls_inv in Hu as (b & -> & Hb). apply star_cls in Hv.
    split; [discriminate|]. cbn [app forallb]. rewrite Hb. exact Hv.
  - intros [Hne H]. destruct s as [|b s]; [congruence|]. cbn [forallb] in H. apply andb_prop in H as [Hb Hs].
    change (b :: s) with ([b] ++ s). constructor; [constructor; exact Hb|apply star_cls, Hs].
Qed.

(* ---- the pieces of the name pattern ---- *)
Definition A : re := Cls [(97, 122); (48, 57)].
Definition SEP : re := Alt (lit 46) (Alt (lit 95) (Alt (Cat (lit 95) (lit 95)) (Plus (lit 45)))).
Definition TAIL : re := Star (Cat SEP (Plus A)).
Definition COMP : re := Cat (Plus A) TAIL.
Definition NAME : re := Cat COMP (Star (Cat (Cat (lit 47) (Plus A)) TAIL)).

Lemma name_regex_parses : match oci_name_regex with Some s => parse_anchored s | None => None end = Some NAME.
Proof. vm_compute. reflexivity. Qed.

Lemma in_A b : in_cls [(97, 122); (48, 57)] b = alnum b.
Proof. unfold alnum. cbn. rewrite orb_false_r. reflexivity. Qed.

Lemma plusA u : M (Plus A) u <-> u <> [] /\ forallb alnum u = true.
Proof. unfold A. rewrite plus_cls. rewrite (forallb_ext (in_cls [(97, 122); (48, 57)]) alnum u in_A). reflexivity. Qed.

Lemma in_dash b : in_cls [(45, 45)] b = N.eqb 45 b.
Proof.
  unfold in_cls. cbn [existsb fst snd]. rewrite orb_false_r. destruct (N.eqb_spec 45 b) as [<-|Hne]; [rewrite N.leb_refl; reflexivity|].
  destruct (N.leb_spec 45 b), (N.leb_spec b 45); cbn [andb]; try reflexivity. lia.
Qed.

Lemma dashes w : M (Plus (lit 45)) w <-> w <> [] /\ forallb (N.eqb 45) w = true.
Proof. unfold lit. rewrite plus_cls. rewrite (forallb_ext (in_cls [(45, 45)]) (N.eqb 45) w in_dash). reflexivity. Qed.

Lemma sep_iff w : M SEP w <-> w = [46] \/ w = [95] \/ w = [95; 95] \/ (w <> [] /\ forallb (N.eqb 45) w = true).
Proof.
  unfold SEP. split.
  - intros H. apply M_alt_inv in H as [H|H]; [apply M_lit in H; auto|].
    apply M_alt_inv in H as [H|H]; [apply M_lit in H; auto|].
    apply M_alt_inv in H as [H|H].
    + apply M_cat_inv in H as (u & v & -> & Hu & Hv). apply M_lit in Hu. apply M_lit in Hv. subst. auto.
    + apply dashes in H. auto.
  - intros [->|[->|[->|H]]].
    + apply M_alt_l, M_lit. reflexivity.
    + apply M_alt_r, M_alt_l, M_lit. reflexivity.
    + apply M_alt_r, M_alt_r, M_alt_l. change [95; 95] with ([95] ++ [95]). constructor; apply M_lit; reflexivity.
    + apply M_alt_r, M_alt_r, M_alt_r, dashes. exact H.
Qed.

(* ---- from the pattern to the state machine ---- *)
Lemma alnum_run u r st : u <> [] -> forallb alnum u = true -> comp_ok (u ++ r) st = comp_ok r 1.
Proof.
  revert st. induction u as [|b u IH]; intros st Hne H; [congruence|]. cbn [forallb] in H. apply andb_prop in H as [Hb Hu].
  cbn [app comp_ok]. rewrite Hb. destruct u as [|c u']; [reflexivity|]. apply IH; [discriminate|exact Hu].
Qed.

Lemma dash_run w r st : (st = 1 \/ st = 5) -> w <> [] -> forallb (N.eqb 45) w = true -> comp_ok (w ++ r) st = comp_ok r 5.
Proof.
  revert st. induction w as [|b w IH]; intros st Hst Hne H; [congruence|]. cbn [forallb] in H. apply andb_prop in H as [Hb Hw].
  apply N.eqb_eq in Hb. subst b. cbn [app comp_ok]. change (alnum 45) with false. change (45 =? 46) with false. change (45 =? 95) with false. change (45 =? 45) with true. cbv iota.
  assert (Ht : ((st =? 1) || (st =? 5))%bool = true) by (destruct Hst as [->| ->]; reflexivity). rewrite Ht.
  destruct w as [|c w']; [reflexivity|]. apply IH; [right; reflexivity|discriminate|exact Hw].
Qed.

Lemma sep_step w u r : M SEP w -> u <> [] -> forallb alnum u = true -> comp_ok (w ++ u ++ r) 1 = comp_ok r 1.
Proof.
  intros Hw Hne Hu. apply sep_iff in Hw as [->|[->|[->|[Hw1 Hw2]]]].
  - cbn [app comp_ok]. change (alnum 46) with false. change (46 =? 46) with true. cbv iota. change (1 =? 1) with true. cbn [andb]. apply alnum_run; assumption.
  - cbn [app comp_ok]. change (alnum 95) with false. change (95 =? 46) with false. change (95 =? 95) with true. cbv iota. change (1 =? 1) with true. cbv iota. apply alnum_run; assumption.
  - cbn [app comp_ok]. change (alnum 95) with false. change (95 =? 46) with false. change (95 =? 95) with true. cbv iota. change (1 =? 1) with true. change (3 =? 1) with false. change (3 =? 3) with true. cbv iota.
    apply alnum_run; assumption.
  - etransitivity; [apply (dash_run w (u ++ r) 1 (or_introl eq_refl) Hw1 Hw2)|apply alnum_run; assumption].
Qed.

Lemma tail_step v r : M TAIL v -> comp_ok (v ++ r) 1 = comp_ok r 1.
Proof.
  unfold TAIL. revert v. apply M_star_ind'; [reflexivity|]. intros s t Hs _ IH.
  apply M_cat_inv in Hs as (w & u & -> & Hw & Hu). apply plusA in Hu as [Hu1 Hu2].
  rewrite <- !app_assoc. etransitivity; [apply (sep_step w u (t ++ r) Hw Hu1 Hu2)|exact IH].
Qed.

Lemma comp_to_machine c : M COMP c -> comp_ok c 0 = true.
Proof.
  unfold COMP. intros H. apply M_cat_inv in H as (u & v & -> & Hu & Hv). apply plusA in Hu as [Hu1 Hu2].
  etransitivity; [apply (alnum_run u v 0 Hu1 Hu2)|]. rewrite <- (app_nil_r v). etransitivity; [apply (tail_step v [] Hv)|reflexivity].
Qed.

(* ---- from the state machine to the pattern ---- *)
Definition Good (s : bytes) : Prop := exists u v, s = u ++ v /\ u <> [] /\ forallb alnum u = true /\ M TAIL v.
Definition Cont (s : bytes) : Prop := exists u v, s = u ++ v /\ forallb alnum u = true /\ M TAIL v.
Definition S3 (s : bytes) : Prop := Good s \/ exists s', s = 95 :: s' /\ Good s'.
Definition S5 (s : bytes) : Prop := exists k s', s = repeat 45 k ++ s' /\ Good s'.

Lemma tail_cons w u v : M SEP w -> u <> [] -> forallb alnum u = true -> M TAIL v -> M TAIL ((w ++ u) ++ v).
Proof. intros Hw Hu1 Hu2 Hv. unfold TAIL. constructor; [constructor; [exact Hw|apply plusA; auto]|exact Hv]. Qed.

Lemma good_after_sep w s : M SEP w -> Good s -> Cont (w ++ s).
Proof.
  intros Hw (u & v & -> & Hu1 & Hu2 & Hv). exists [], ((w ++ u) ++ v). split; [rewrite <- app_assoc; reflexivity|].
  split; [reflexivity|apply tail_cons; assumption].
Qed.

Lemma repeat_dash k : forallb (N.eqb 45) (repeat 45 k) = true.
Proof. induction k; [reflexivity|exact IHk]. Qed.

Lemma machine_states : forall s st, comp_ok s st = true ->
  (st = 1 -> Cont s) /\ (st = 3 -> S3 s) /\ (st = 5 -> S5 s) /\ (st <> 1 -> st <> 3 -> st <> 5 -> Good s).
Proof.
  induction s as [|b s IH]; intros st H.
  - cbn [comp_ok] in H. apply N.eqb_eq in H. subst st. split; [intros _; exists [], []; split; [reflexivity|split; [reflexivity|constructor]]|].
    split; [intros E; discriminate E|]. split; [intros E; discriminate E|]. intros E; congruence.
  - cbn [comp_ok] in H. destruct (alnum b) eqn:Ea.
    { destruct (IH 1 H) as [C _]. destruct (C eq_refl) as (u & v & -> & Hu & Hv).
      assert (G : Good (b :: u ++ v)).
      { exists (b :: u), v. split; [reflexivity|]. split; [discriminate|]. split; [cbn [forallb]; rewrite Ea; exact Hu|exact Hv]. }
      split; [intros _; exists (b :: u), v; repeat split; [cbn [forallb]; rewrite Ea; exact Hu|exact Hv]|].
      split; [intros _; left; exact G|]. split; [intros _; exists 0%nat, (b :: u ++ v); split; [reflexivity|exact G]|intros _ _ _; exact G]. }
    destruct (N.eqb_spec b 46) as [->|N46].
    { apply andb_prop in H as [Hst H]. apply N.eqb_eq in Hst. subst st. destruct (IH 2 H) as (_ & _ & _ & G).
      specialize (G ltac:(discriminate) ltac:(discriminate) ltac:(discriminate)).
      split; [intros _; apply (good_after_sep [46] s); [apply sep_iff; auto|exact G]|]. (split; [intros E; discriminate E|split; [intros E; discriminate E|intros E; congruence]]). }
    destruct (N.eqb_spec b 95) as [->|N95].
    { destruct (N.eqb_spec st 1) as [->|Nst1].
      - destruct (IH 3 H) as (_ & T & _). destruct (T eq_refl) as [G|(s' & -> & G)].
        + split; [intros _; apply (good_after_sep [95] s); [apply sep_iff; auto|exact G]|]. (split; [intros E; discriminate E|split; [intros E; discriminate E|intros E; congruence]]).
        + split; [intros _; apply (good_after_sep [95; 95] s'); [apply sep_iff; auto|exact G]|]. (split; [intros E; discriminate E|split; [intros E; discriminate E|intros E; congruence]]).
      - destruct (N.eqb_spec st 3) as [->|Nst3]; [|discriminate].
        destruct (IH 4 H) as (_ & _ & _ & G). specialize (G ltac:(discriminate) ltac:(discriminate) ltac:(discriminate)).
        split; [intros; discriminate|]. split; [intros _; right; exists s; auto|]. split; intros; try discriminate. congruence. }
    destruct (N.eqb_spec b 45) as [->|N45]; [|discriminate].
    destruct ((st =? 1) || (st =? 5))%bool eqn:Est; [|discriminate].
    destruct (IH 5 H) as (_ & _ & T & _). destruct (T eq_refl) as (k & s' & -> & G).
    apply orb_prop in Est as [E|E]; apply N.eqb_eq in E; subst st.
    + split; [|(split; [intros E; discriminate E|split; [intros E; discriminate E|intros E; congruence]])]. intros _.
      change (45 :: repeat 45 k ++ s') with (repeat 45 (S k) ++ s'). apply good_after_sep; [|exact G].
      apply sep_iff. right. right. right. split; [discriminate|apply repeat_dash].
    + split; [intros; discriminate|]. split; [intros; discriminate|]. split; [|intros; congruence].
      intros _. exists (S k), s'. split; [reflexivity|exact G].
Qed.

Lemma machine_to_comp c : comp_ok c 0 = true -> M COMP c.
Proof.
  intros H. destruct (machine_states c 0 H) as (_ & _ & _ & G).
  destruct (G ltac:(discriminate) ltac:(discriminate) ltac:(discriminate)) as (u & v & -> & Hu1 & Hu2 & Hv).
  unfold COMP. constructor; [apply plusA; auto|exact Hv].
Qed.

Theorem comp_iff c : M COMP c <-> comp_ok c 0 = true.
Proof. split; [apply comp_to_machine|apply machine_to_comp]. Qed.

(* ---- whole names ---- *)
Definition SLC : re := Cat (Cat (lit 47) (Plus A)) TAIL.

Lemma slc_iff x : M SLC x <-> exists c, x = 47 :: c /\ M COMP c.
Proof.
  unfold SLC, COMP. split.
  - intros H. apply M_cat_inv in H as (p & v & -> & Hp & Hv). apply M_cat_inv in Hp as (l & u & -> & Hl & Hu). apply M_lit in Hl. subst l.
    exists (u ++ v). split; [rewrite <- app_assoc; reflexivity|constructor; assumption].
  - intros (c & -> & H). apply M_cat_inv in H as (u & v & -> & Hu & Hv).
    change (47 :: u ++ v) with (([47] ++ u) ++ v). constructor; [constructor; [apply M_lit; reflexivity|exact Hu]|exact Hv].
Qed.

Lemma comp_noslash c : forall st, comp_ok c st = true -> ~ In 47 c.
Proof.
  induction c as [|b c IH]; intros st H Hin; [destruct Hin|]. cbn [comp_ok] in H. destruct Hin as [->|Hin].
  - change (alnum 47) with false in H. change (47 =? 46) with false in H. change (47 =? 95) with false in H. change (47 =? 45) with false in H. discriminate.
  - destruct (alnum b); [apply (IH _ H Hin)|]. destruct (b =? 46); [apply andb_prop in H as [_ H]; apply (IH _ H Hin)|].
    destruct (b =? 95); [destruct (st =? 1); [apply (IH _ H Hin)|destruct (st =? 3); [apply (IH _ H Hin)|discriminate]]|].
    destruct (b =? 45); [|discriminate]. destruct ((st =? 1) || (st =? 5))%bool; [apply (IH _ H Hin)|discriminate].
Qed.

Lemma name_to_machine s : M NAME s -> name_ok s = true.
Proof.
  unfold NAME. intros H. apply M_cat_inv in H as (c0 & rest & -> & Hc & Hr). apply comp_iff in Hc. fold SLC in Hr.
  unfold name_ok. revert c0 Hc. revert rest Hr.
  apply (M_star_ind' SLC (fun rest => forall c0, comp_ok c0 0 = true -> forallb (fun c => comp_ok c 0) (split_slash (c0 ++ rest) []) = true)).
  - intros c0 Hc. rewrite app_nil_r. rewrite (split_noslash c0 [] (comp_noslash c0 0 Hc)). cbn [rev app forallb]. rewrite Hc. reflexivity.
  - intros x t Hx _ IH c0 Hc. apply slc_iff in Hx as (c1 & -> & Hc1). apply comp_iff in Hc1.
    cbn [app]. rewrite split_app_slash. rewrite (split_noslash c0 [] (comp_noslash c0 0 Hc)). cbn [rev app forallb]. rewrite Hc. cbn [andb]. apply IH, Hc1.
Qed.

Lemma machine_to_name s : name_ok s = true -> M NAME s.
Proof.
  unfold name_ok. intros H. pose proof (join_split s []) as J. cbn [rev app] in J. rewrite <- J.
  destruct (split_slash s []) as [|c0 cs] eqn:E; [destruct (split_nonempty s [] E)|]. cbn [forallb] in H. apply andb_prop in H as [H0 Hs].
  rewrite join_cons. unfold NAME. fold SLC. constructor; [apply comp_iff; exact H0|].
  clear E J H0. induction cs as [|c cs IH]; [constructor|]. cbn [forallb] in Hs. apply andb_prop in Hs as [Hc Hs].
  cbn [flat_map]. constructor; [apply slc_iff; exists c; split; [reflexivity|apply comp_iff; exact Hc]|apply IH, Hs].
Qed.

(* the regenerated pattern denotes exactly the name grammar *)
Theorem name_regex_is_name_ok :
  exists R, match oci_name_regex with Some p => parse_anchored p | None => None end = Some R
            /\ forall s, M R s <-> name_ok s = true.
Proof. exists NAME. split; [exact name_regex_parses|]. intros s. split; [apply name_to_machine|apply machine_to_name]. Qed.
