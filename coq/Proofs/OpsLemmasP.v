(* Small facts about the building blocks of Model/Ops.v: field setters, upd_first, split_at, lcp. *)
From Coq Require Import Lia Permutation.
From WF Require Import Base.Bytes Base.Utf8 Spec.Route Spec.Walk Model.Tree Model.Ops Spec.Inv.
From WF Require Import Proofs.BytesP Proofs.WalkP Proofs.GroupsP Proofs.RefineP Proofs.InvP Proofs.OptimizeP.

(* ---- projections of the setters ---- *)
Lemma kids_set_kids_same k l n : kids k (set_kids k l n) = l.
Proof. destruct k, n; reflexivity. Qed.
Lemma kids_set_kids_other k k' l n : k <> k' -> kids k' (set_kids k l n) = kids k' n.
Proof. destruct k, k', n; try reflexivity; congruence. Qed.
Lemma st_set_kids k l n : n_st (set_kids k l n) = n_st n.
Proof. destruct k, n; reflexivity. Qed.
Lemma data_set_kids k l n : n_data (set_kids k l n) = n_data n.
Proof. destruct k, n; reflexivity. Qed.
Lemma dirty_set_kids k l n : n_dirty (set_kids k l n) = n_dirty n.
Proof. destruct k, n; reflexivity. Qed.
Lemma kids_set_st k l n : kids k (set_st l n) = kids k n.
Proof. destruct k, n; reflexivity. Qed.
Lemma st_set_st l n : n_st (set_st l n) = l.
Proof. destruct n; reflexivity. Qed.
Lemma data_set_st l n : n_data (set_st l n) = n_data n.
Proof. destruct n; reflexivity. Qed.
Lemma dirty_set_st l n : n_dirty (set_st l n) = n_dirty n.
Proof. destruct n; reflexivity. Qed.
Lemma kids_set_dirty k b n : kids k (set_dirty b n) = kids k n.
Proof. destruct k, n; reflexivity. Qed.
Lemma st_set_dirty b n : n_st (set_dirty b n) = n_st n.
Proof. destruct n; reflexivity. Qed.
Lemma data_set_dirty b n : n_data (set_dirty b n) = n_data n.
Proof. destruct n; reflexivity. Qed.
Lemma dirty_set_dirty b n : n_dirty (set_dirty b n) = b.
Proof. destruct n; reflexivity. Qed.
Lemma kids_set_data k d n : kids k (set_data d n) = kids k n.
Proof. destruct k, n; reflexivity. Qed.
Lemma st_set_data d n : n_st (set_data d n) = n_st n.
Proof. destruct n; reflexivity. Qed.
Lemma data_set_data d n : n_data (set_data d n) = d.
Proof. destruct n; reflexivity. Qed.
Lemma dirty_set_data d n : n_dirty (set_data d n) = n_dirty n.
Proof. destruct n; reflexivity. Qed.

(* ---- wf and disc as functions of the child lists ---- *)
Definition mid_wf (k : kind) (l : list (key * node)) : bool :=
  keys_nodup l
  && forallb (fun kc : key * node =>
       key_ok k (fst kc) && only_static_kids (snd kc)
       && (if is_dyn k then true else negb (has_data (snd kc)))
       && alive (snd kc) && wf (snd kc)) l.
Definition end_wf (k : kind) (l : list (key * node)) : bool :=
  keys_nodup l
  && forallb (fun kc : key * node => key_ok k (fst kc) && has_data (snd kc) && no_kids_b (snd kc)) l.
Definition kind_wf (k : kind) (l : list (key * node)) : bool := if is_end k then end_wf k l else mid_wf k l.
Definition st_wf (l : list (key * node)) : bool :=
  static_keys_ok l && forallb (fun kc : key * node => alive (snd kc) && wf (snd kc)) l.

Lemma wf_kinds n : wf n = st_wf (n_st n) && forallb (fun k => kind_wf k (kids k n)) all_kinds.
Proof.
  rewrite wf_eq. cbv zeta. unfold st_wf, all_kinds, kind_wf, mid_wf, end_wf. cbn [forallb is_end kids].
  rewrite andb_true_r, !andb_assoc. reflexivity.
Qed.

Lemma wf_iff n : wf n = true <-> st_wf (n_st n) = true /\ forall k, kind_wf k (kids k n) = true.
Proof.
  rewrite wf_kinds, andb_true_iff, forallb_forall. split; intros [H1 H2]; split; auto.
  - intros k. apply H2. destruct k; cbn; auto 10.
Qed.

Definition kids_disc (l : list (key * node)) : bool := forallb (fun kc : key * node => disc (snd kc)) l.

Lemma disc_dirty n : n_dirty n = true ->
  disc n = kids_disc (n_st n) && forallb (fun k => kids_disc (kids k n)) all_kinds.
Proof.
  intros Hd. rewrite disc_eq. cbv zeta. rewrite Hd. unfold all_kinds, kids_disc. cbn [forallb kids].
  rewrite andb_true_r, !andb_assoc. reflexivity.
Qed.

(* whatever the dirty mark, under the discipline every child satisfies it *)
Lemma disc_children n : disc n = true ->
  kids_disc (n_st n) = true /\ forall k, kids_disc (kids k n) = true.
Proof.
  intros H. destruct (n_dirty n) eqn:Ed.
  - rewrite (disc_dirty n Ed) in H. apply andb_true_iff in H as [H1 H2]. split; [exact H1|].
    intros k. rewrite forallb_forall in H2. apply H2. destruct k; cbn; auto 10.
  - rewrite disc_eq in H. cbv zeta in H. rewrite Ed in H. pose proof (tidy_unpack n H) as T.
    split.
    + apply forallb_forall. intros kc Hkc. apply tidy_disc. apply (tn_st n T kc Hkc).
    + intros k. apply forallb_forall. intros kc Hkc. apply tidy_disc. apply (tn_kids n T k kc Hkc).
Qed.

Lemma disc_of_children n :
  n_dirty n = true -> kids_disc (n_st n) = true -> (forall k, kids_disc (kids k n) = true) -> disc n = true.
Proof.
  intros Hd H1 H2. rewrite (disc_dirty n Hd), H1. cbn [andb]. apply forallb_forall. intros k _. apply H2.
Qed.

(* ---- upd_first ---- *)
Lemma upd_first_some {A} (pred : A -> bool) (f : A -> A) l l' :
  upd_first pred f l = Some l' ->
  exists a x b, l = a ++ x :: b /\ pred x = true /\ (forall y, In y a -> pred y = false) /\ l' = a ++ f x :: b.
Proof.
  revert l'; induction l as [|y l IH]; intros l' H; cbn [upd_first] in H; [discriminate|].
  destruct (pred y) eqn:E.
  - inversion H; subst. exists [], y, l. repeat split; auto. intros z [].
  - destruct (upd_first pred f l) as [l0|] eqn:E0; [|discriminate]. inversion H; subst.
    destruct (IH l0 eq_refl) as (a & x & b & -> & Hp & Hn & ->).
    exists (y :: a), x, b. repeat split; auto. intros z [<-|Hz]; auto.
Qed.

Lemma upd_first_none {A} (pred : A -> bool) (f : A -> A) l :
  upd_first pred f l = None -> forall y, In y l -> pred y = false.
Proof.
  induction l as [|x l IH]; intros H y Hy; [destruct Hy|]. cbn [upd_first] in H.
  destruct (pred x) eqn:E; [discriminate|].
  destruct (upd_first pred f l) eqn:E0; [discriminate|].
  destruct Hy as [<-|Hy]; auto.
Qed.

(* ---- split_at ---- *)
Lemma split_at_some {A} (pred : A -> bool) l a x b :
  split_at pred l = Some (a, x, b) ->
  l = a ++ x :: b /\ pred x = true /\ forall y, In y a -> pred y = false.
Proof.
  revert a x b; induction l as [|y l IH]; intros a x b H; cbn [split_at] in H; [discriminate|].
  destruct (pred y) eqn:E.
  - inversion H; subst. repeat split; auto. intros z [].
  - destruct (split_at pred l) as [[[a0 x0] b0]|] eqn:E0; [|discriminate]. inversion H; subst.
    destruct (IH a0 x b eq_refl) as (-> & Hp & Hn). repeat split; auto. intros z [<-|Hz]; auto.
Qed.

Lemma split_at_none {A} (pred : A -> bool) l : split_at pred l = None -> forall y, In y l -> pred y = false.
Proof.
  induction l as [|x l IH]; intros H y Hy; [destruct Hy|]. cbn [split_at] in H.
  destruct (pred x) eqn:E; [discriminate|].
  destruct (split_at pred l) as [[[? ?] ?]|] eqn:E0; [discriminate|].
  destruct Hy as [<-|Hy]; auto.
Qed.

(* ---- longest common prefix ---- *)
Lemma lcp_le a b : lcp a b <= length a /\ lcp a b <= length b.
Proof.
  revert b; induction a as [|x a IH]; intros [|y b]; cbn; try lia.
  destruct (N.eqb x y); cbn; [|lia]. specialize (IH b). lia.
Qed.

Lemma lcp_firstn a b : firstn (lcp a b) a = firstn (lcp a b) b.
Proof.
  revert b; induction a as [|x a IH]; intros [|y b]; cbn; try reflexivity.
  destruct (N.eqb_spec x y); cbn; [|reflexivity]. subst. f_equal. apply IH.
Qed.

Lemma lcp_next_differs a b :
  lcp a b < length a -> lcp a b < length b ->
  exists x y, nth_error a (lcp a b) = Some x /\ nth_error b (lcp a b) = Some y /\ x <> y.
Proof.
  revert b; induction a as [|x a IH]; intros [|y b]; cbn; try lia.
  destruct (N.eqb_spec x y); cbn.
  - intros H1 H2. apply IH; lia.
  - intros _ _. exists x, y. auto.
Qed.

Lemma same_first_lcp k p : same_first k p = true -> 1 <= lcp p k.
Proof.
  destruct k as [|a k], p as [|b p]; cbn; try discriminate.
  intros H. apply N.eqb_eq in H. subst. rewrite N.eqb_refl. lia.
Qed.

Lemma same_first_spec k p : same_first k p = true <-> exists b k' p', k = b :: k' /\ p = b :: p'.
Proof.
  destruct k as [|a k], p as [|b p]; cbn; split; try discriminate; try (intros (? & ? & ? & ? & ?); discriminate).
  - intros H. apply N.eqb_eq in H. subst. eauto.
  - intros (c & k' & p' & H1 & H2). inversion H1; inversion H2; subst. apply N.eqb_refl.
Qed.
