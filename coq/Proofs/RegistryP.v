(* The router as a registry of live templates: every history of operations keeps the tree in step with the
   list of (template, data) pairs inserted and not yet deleted; the outcome of insert and delete is then a
   function of that list. *)
From Coq Require Import Lia Arith PeanoNat Permutation Sorted.
From WF Require Import Base.Bytes Base.Utf8 Spec.Route Spec.Walk Model.Tree Model.Parser Model.Ops Model.Router Spec.Inv.
From WF Require Import Proofs.BytesP Proofs.RoutesP Proofs.InsRoutesP Proofs.ParserPartsP Proofs.RouterP Proofs.ReachP
     Proofs.ExpandP Proofs.RouterRoutesP Proofs.WalkPermP Proofs.TreeCorP Proofs.InvP.

Definition live := list (bytes * N).
Definition live_remove (L : live) (t : bytes) : live := filter (fun td : bytes * N => negb (beqb (fst td) t)) L.

(* the live list after one operation: a template becomes live by a successful insert and stops being live
   by a successful delete *)
Definition lstep (r : router) (L : live) (o : op) : live :=
  match o with
  | OInsert t d => match snd (rinsert r t d) with ROk _ => (t, d) :: L | _ => L end
  | ODelete t => match snd (rdelete r t) with ROk _ => live_remove L t | _ => L end
  | OConstraint _ _ => L
  end.

Fixpoint run_live (r : router) (L : live) (ops : list op) : router * live :=
  match ops with
  | [] => (r, L)
  | o :: ops' => run_live (step r o) (lstep r L o) ops'
  end.

(* route r0 is an expansion of template t *)
Definition route_of_template (t : bytes) (r0 : route) : Prop :=
  exists es e, parse t = Ret es /\ In e es /\ r0 = exp_route e.

Record Abs (r : router) (L : live) : Prop := {
  abs_inv : RInv r;
  abs_nodup : NoDup (map fst L);
  abs_parse : forall t d, In (t, d) L -> exists es, parse t = Ret es;
  (* every stored route belongs to a live template and carries its data *)
  abs_sound : forall r0 i, RM (r_root r) r0 i -> In (i_template i, i_data i) L /\ route_of_template (i_template i) r0;
  (* every expansion of a live template is stored under that template *)
  abs_complete : forall t d r0, In (t, d) L -> route_of_template t r0 ->
                  exists i, RM (r_root r) r0 i /\ i_template i = t /\ i_data i = d;
  (* exactly: the stored pairs are a function of the live list *)
  abs_exact : forall r0 i, RM (r_root r) r0 i <->
                exists t d es, In (t, d) L /\ parse t = Ret es /\ tinfo t d es r0 = Some i
}.

Lemma live_remove_in L t x : In x (live_remove L t) <-> In x L /\ fst x <> t.
Proof.
  unfold live_remove. rewrite filter_In. split; intros [H1 H2]; (split; [exact H1|]).
  - intros Heq. rewrite Heq, beqb_refl in H2. discriminate.
  - destruct (beqb (fst x) t) eqn:E; [apply beqb_eq in E; contradiction|reflexivity].
Qed.

Lemma NoDup_map_filter {A B} (f : A -> B) (g : A -> bool) l : NoDup (map f l) -> NoDup (map f (filter g l)).
Proof.
  induction l as [|x l IH]; intros H; [constructor|]. cbn [map] in H. apply NoDup_cons_iff in H as [Hx Hl].
  cbn [filter]. destruct (g x); [|apply IH; exact Hl]. cbn [map]. constructor; [|apply IH; exact Hl].
  intros Hin. apply Hx. apply in_map_iff in Hin as (y & Hy & Hin). apply filter_In in Hin as [Hin _].
  apply in_map_iff. eauto.
Qed.

Lemma abs_empty builtins : Abs (new_router builtins) [].
Proof.
  constructor.
  - split; reflexivity.
  - constructor.
  - intros t d [].
  - intros r0 i H. unfold RM, mem_of in H. cbn in H. destruct H.
  - intros t d r0 [].
  - intros r0 i. split; [intros H; unfold RM, mem_of in H; cbn in H; destruct H|intros (t & d & es & [] & _)].
Qed.

Lemma abs_unique_owner r L r0 t1 t2 d1 d2 :
  Abs r L -> In (t1, d1) L -> In (t2, d2) L -> route_of_template t1 r0 -> route_of_template t2 r0 -> t1 = t2.
Proof.
  intros A H1 H2 R1 R2.
  destruct (abs_complete r L A t1 d1 r0 H1 R1) as (i & Hi & Ht1 & _).
  destruct (abs_complete r L A t2 d2 r0 H2 R2) as (j & Hj & Ht2 & _).
  destruct (abs_inv r L A) as [W _]. rewrite (RM_unique _ _ _ _ W Hi Hj) in Ht1. congruence.
Qed.

(* ---- preservation ---- *)
Lemma abs_insert r L t d r' :
  Abs r L -> rinsert r t d = (r', ROk tt) -> Abs r' ((t, d) :: L).
Proof.
  intros A H. pose proof (abs_inv r L A) as HR.
  pose proof (rinsert_inv r t d HR) as HR'. rewrite H in HR'. cbn [fst] in HR'.
  destruct (rinsert_ok_routes r t d r' HR H) as (es & Ep & Hfree & Hnew & Hother & _).
  assert (Hnotlive : forall d0, ~ In (t, d0) L).
  { intros d0 Hin. destruct es as [|e es'] eqn:Ees; [apply (parse_nonempty t [] Ep); reflexivity|]. rewrite <- Ees in *.
    assert (He : In e es) by (rewrite Ees; left; reflexivity).
    destruct (abs_complete r L A t d0 (exp_route e) Hin) as (i & Hi & _); [exists es, e; auto|].
    apply (Hfree e i He Hi). }
  constructor.
  - exact HR'.
  - cbn [map fst]. constructor; [|apply (abs_nodup r L A)].
    intros Hin. apply in_map_iff in Hin as ([t0 d0] & Heq & Hin). cbn [fst] in Heq. subst t0. apply (Hnotlive d0 Hin).
  - intros t0 d0 [Heq|Hin]; [inversion Heq; subst; eauto|apply (abs_parse r L A t0 d0 Hin)].
  - intros r0 i Hi. destruct (is_exp es (r0, i)) eqn:Ex.
    + apply is_exp_true in Ex as (e & He & Heq). cbn [fst] in Heq. subst r0.
      destruct (Hnew e He) as (j & Hj & Hjt & Hjd). destruct HR' as [W' _].
      rewrite (RM_unique _ _ _ _ W' Hi Hj). rewrite Hjt, Hjd. split; [left; reflexivity|exists es, e; auto].
    + rewrite is_exp_false in Ex. cbn [fst] in Ex. apply (Hother r0 i Ex) in Hi.
      destruct (abs_sound r L A r0 i Hi) as [Hin Hr]. split; [right; exact Hin|exact Hr].
  - intros t0 d0 r0 [Heq|Hin] Hr.
    + inversion Heq; subst t0 d0. destruct Hr as (es' & e & Ep' & He & ->). rewrite Ep in Ep'. inversion Ep'; subst es'.
      apply Hnew. exact He.
    + destruct (abs_complete r L A t0 d0 r0 Hin Hr) as (i & Hi & Hit & Hid).
      exists i. split; [|split; assumption]. apply Hother; [|exact Hi].
      intros e He ->. apply (Hfree e i He Hi).
  - intros r0 i. destruct (rinsert_ok_exact r t d r' HR H) as (es' & Ep' & Hex). rewrite Ep in Ep'. inversion Ep'; subst es'.
    rewrite Hex, (abs_exact r L A r0 i). split.
    + intros [(t0 & d0 & es0 & Hin & Ep0 & Ht0)|Hn]; [exists t0, d0, es0; split; [right; exact Hin|auto]|].
      exists t, d, es. split; [left; reflexivity|auto].
    + intros (t0 & d0 & es0 & [Heq|Hin] & Ep0 & Ht0).
      * inversion Heq; subst t0 d0. rewrite Ep in Ep0. inversion Ep0; subst es0. right. exact Ht0.
      * left. exists t0, d0, es0. auto.
Qed.

Lemma abs_delete r L t d r' :
  Abs r L -> rdelete r t = (r', ROk d) -> Abs r' (live_remove L t) /\ In (t, d) L.
Proof.
  intros A H. pose proof (abs_inv r L A) as HR.
  pose proof (rdelete_inv r t HR) as HR'. rewrite H in HR'. cbn [fst] in HR'.
  destruct (rdelete_ok_routes r t d r' HR H) as (es & Ep & Hall & Hgone & Hother & Hsub & (e1 & i1 & He1 & Hi1 & Hd1)).
  assert (Hlive : In (t, d) L).
  { destruct (Hall e1 He1) as (j & Hj & Hjt). destruct HR as [W _].
    rewrite <- (RM_unique _ _ _ _ W Hi1 Hj) in Hjt.
    destruct (abs_sound r L A _ _ Hi1) as [Hin _]. rewrite Hjt, Hd1 in Hin. exact Hin. }
  split; [|exact Hlive]. constructor.
  - exact HR'.
  - apply NoDup_map_filter. apply (abs_nodup r L A).
  - intros t0 d0 Hin. apply live_remove_in in Hin as [Hin _]. apply (abs_parse r L A t0 d0 Hin).
  - intros r0 i Hi. pose proof (Hsub r0 i Hi) as Hold. destruct (abs_sound r L A r0 i Hold) as [Hin Hr].
    split; [|exact Hr]. apply live_remove_in. split; [exact Hin|]. cbn [fst]. intros Heq.
    rewrite Heq in Hr. destruct Hr as (es' & e & Ep' & He & ->). rewrite Ep in Ep'. inversion Ep'; subst es'.
    apply (Hgone e i He Hi).
  - intros t0 d0 r0 Hin Hr. apply live_remove_in in Hin as [Hin Hne]. cbn [fst] in Hne.
    destruct (abs_complete r L A t0 d0 r0 Hin Hr) as (i & Hi & Hit & Hid).
    exists i. split; [|split; assumption]. apply Hother; [|exact Hi].
    intros e He ->. destruct (Hall e He) as (j & Hj & Hjt). destruct HR as [W _].
    rewrite <- (RM_unique _ _ _ _ W Hi Hj) in Hjt. congruence.
  - intros r0 i. split.
    + intros Hi. pose proof (Hsub r0 i Hi) as Hold. apply (abs_exact r L A) in Hold as (t0 & d0 & es0 & Hin & Ep0 & Ht0).
      exists t0, d0, es0. split; [|auto]. apply live_remove_in. split; [exact Hin|]. cbn [fst]. intros ->.
      rewrite Ep in Ep0. inversion Ep0; subst es0. apply tinfo_some in Ht0 as (e & He & <- & _). apply (Hgone e i He Hi).
    + intros (t0 & d0 & es0 & Hin & Ep0 & Ht0). apply live_remove_in in Hin as [Hin Hne]. cbn [fst] in Hne.
      assert (Hold : RM (r_root r) r0 i) by (apply (abs_exact r L A); exists t0, d0, es0; auto).
      apply Hother; [|exact Hold]. intros e He ->. destruct (Hall e He) as (j & Hj & Hjt). destruct HR as [W _].
      rewrite <- (RM_unique _ _ _ _ W Hold Hj) in Hjt. apply tinfo_some in Ht0 as (_ & _ & _ & Hit & _). congruence.
Qed.

Lemma abs_same_root r r' L : Abs r L -> r_root r' = r_root r -> Abs r' L.
Proof.
  intros A Hr. destruct A as [HR Hn Hp Hs Hc Hx]. constructor; try assumption.
  - unfold RInv in *. rewrite Hr. exact HR.
  - rewrite Hr. exact Hs.
  - rewrite Hr. exact Hc.
  - rewrite Hr. exact Hx.
Qed.

Lemma abs_step r L o : Abs r L -> Abs (step r o) (lstep r L o).
Proof.
  intros A. pose proof (abs_inv r L A) as HR. destruct o as [t d|t|n ty]; cbn [step lstep].
  - destruct (rinsert r t d) as [r' [[]|e|s]] eqn:H; cbn [fst snd].
    + apply (abs_insert r L t d r' A H).
    + rewrite (rinsert_error_noop _ _ _ _ _ H). exact A.
    + rewrite (rinsert_panic_noop _ _ _ _ _ H). exact A.
  - destruct (rdelete r t) as [r' [d|e|s]] eqn:H; cbn [fst snd].
    + apply (abs_delete r L t d r' A H).
    + rewrite (rdelete_error_noop_strong _ _ _ _ HR H). exact A.
    + assert (r' = r) as ->; [|exact A].
      rewrite rdelete_unfold in H. destruct (parse t) as [es| | |]; try (inversion H; reflexivity).
      destruct (first_some _ es); [inversion H|]. destruct (existsb _ es); [inversion H|].
      destruct (snd (del_all _ _)); inversion H.
  - apply (abs_same_root r _ L A). unfold rconstraint. destruct (find _ (r_constraints r)) as [[a b]|]; reflexivity.
Qed.

(* every history: the tree and the live list stay in step *)
Theorem run_live_abs : forall ops r L, Abs r L -> Abs (fst (run_live r L ops)) (snd (run_live r L ops)).
Proof.
  induction ops as [|o ops IH]; intros r L A; cbn [run_live]; [exact A|]. apply IH. apply abs_step. exact A.
Qed.

Lemma run_live_fst : forall ops r L, fst (run_live r L ops) = fold_left step ops r.
Proof. induction ops as [|o ops IH]; intros r L; cbn [run_live fold_left]; [reflexivity|apply IH]. Qed.

Theorem reachable_abs builtins ops :
  Abs (run builtins ops) (snd (run_live (new_router builtins) [] ops)).
Proof.
  pose proof (run_live_abs ops (new_router builtins) [] (abs_empty builtins)) as A.
  rewrite run_live_fst in A. exact A.
Qed.

(* ---- the outcomes as functions of the live list ---- *)
Section Outcomes.
  Variables (r : router) (L : live).
  Hypothesis A : Abs r L.

  (* C09: delete succeeds exactly on the live templates, and returns the data given at insertion *)
  Theorem delete_ok_iff_live t d : (exists r', rdelete r t = (r', ROk d)) <-> In (t, d) L.
  Proof.
    pose proof (abs_inv r L A) as HR. split.
    - intros (r' & H). apply (abs_delete r L t d r' A H).
    - intros Hin. destruct (abs_parse r L A t d Hin) as (es & Ep).
      destruct (proj1 (rdelete_outcome r t es HR Ep)) as (r' & d' & H).
      + intros e He. destruct (abs_complete r L A t d (exp_route e) Hin) as (i & Hi & Hit & _); [exists es, e; auto|]. eauto.
      + destruct (abs_delete r L t d' r' A H) as [_ Hin'].
        assert (d' = d) as ->; [|eauto].
        eapply NoDup_fst_inj; [apply (abs_nodup r L A)|exact Hin'|exact Hin].
  Qed.

  (* a mismatch names a live template, different from the argument, that owns one of the argument's routes *)
  Theorem delete_mismatch_live t r' t' ins :
    rdelete r t = (r', RErr (DEMismatch t' ins)) ->
    r' = r /\ t' = t /\ ins <> t /\ (exists d, In (ins, d) L) /\ (forall d, ~ In (t, d) L)
    /\ exists r0, route_of_template t r0 /\ route_of_template ins r0.
  Proof.
    intros H. pose proof (abs_inv r L A) as HR.
    pose proof (rdelete_error_noop_strong _ _ _ _ HR H) as ->.
    pose proof (rdelete_payload_template _ _ _ _ H) as Ht. cbn in Ht. subst t'.
    destruct (rdelete_mismatch_spec r t r t ins HR H) as (Hne & es & e & i & Ep & He & Hi & Hit).
    destruct (abs_sound r L A _ _ Hi) as [Hin Hr]. rewrite Hit in Hin, Hr.
    split; [reflexivity|]. split; [reflexivity|]. split; [exact Hne|]. split; [eauto|]. split.
    - intros d Hd. apply delete_ok_iff_live in Hd as (r2 & Hd). rewrite H in Hd. inversion Hd.
    - exists (exp_route e). split; [exists es, e; auto|exact Hr].
  Qed.

  (* not-found: the argument is not live and none of its routes is stored *)
  Theorem delete_notfound_live t r' t' :
    rdelete r t = (r', RErr (DENotFound t')) ->
    r' = r /\ t' = t /\ (forall d, ~ In (t, d) L)
    /\ forall t0 d0 r0, In (t0, d0) L -> route_of_template t r0 -> ~ route_of_template t0 r0.
  Proof.
    intros H. pose proof (abs_inv r L A) as HR.
    pose proof (rdelete_error_noop_strong _ _ _ _ HR H) as ->.
    pose proof (rdelete_payload_template _ _ _ _ H) as Ht. cbn in Ht. subst t'.
    split; [reflexivity|]. split; [reflexivity|].
    assert (Hnl : forall d, ~ In (t, d) L).
    { intros d Hd. apply delete_ok_iff_live in Hd as (r2 & Hd). rewrite H in Hd. inversion Hd. }
    split; [exact Hnl|].
    intros t0 d0 r0 Hin (es & e & Ep & He & ->) Hr0.
    destruct (abs_complete r L A t0 d0 _ Hin Hr0) as (i & Hi & Hit & _).
    (* a stored route of another template would have produced a mismatch *)
    assert (Hne : t0 <> t) by (intros ->; apply (Hnl d0 Hin)).
    destruct (proj1 (proj2 (rdelete_outcome r t es HR Ep))) as (ins & Hm).
    - exists e, i. split; [exact He|]. split; [exact Hi|]. rewrite Hit. exact Hne.
    - rewrite H in Hm. inversion Hm.
  Qed.

  (* and conversely: a template that parses and is not live gets one of the two errors, according to whether
     one of its routes is owned by a live template *)
  Theorem delete_not_live t es :
    parse t = Ret es -> (forall d, ~ In (t, d) L) ->
    ((exists t0 d0 r0, In (t0, d0) L /\ route_of_template t r0 /\ route_of_template t0 r0) ->
        exists ins, rdelete r t = (r, RErr (DEMismatch t ins)))
    /\ ((forall t0 d0 r0, In (t0, d0) L -> route_of_template t r0 -> ~ route_of_template t0 r0) ->
        rdelete r t = (r, RErr (DENotFound t))).
  Proof.
    intros Ep Hnl. pose proof (abs_inv r L A) as HR. split.
    - intros (t0 & d0 & r0 & Hin & (es' & e & Ep' & He & ->) & Hr0). rewrite Ep in Ep'. inversion Ep'; subst es'.
      destruct (abs_complete r L A t0 d0 _ Hin Hr0) as (i & Hi & Hit & _).
      apply (proj1 (proj2 (rdelete_outcome r t es HR Ep))). exists e, i. split; [exact He|]. split; [exact Hi|].
      rewrite Hit. intros ->. apply (Hnl d0 Hin).
    - intros Hfree.
      assert (Hno : forall e i, In e es -> ~ RM (r_root r) (exp_route e) i).
      { intros e i He Hi. destruct (abs_sound r L A _ _ Hi) as [Hin Hr].
        apply (Hfree (i_template i) (i_data i) (exp_route e) Hin); [exists es, e; auto|exact Hr]. }
      apply (proj2 (proj2 (rdelete_outcome r t es HR Ep))).
      + intros e i He Hi. destruct (Hno e i He Hi).
      + destruct es as [|e es'] eqn:Ees; [destruct (parse_nonempty t [] Ep eq_refl)|].
        exists e. split; [left; reflexivity|]. intros i. apply Hno. left; reflexivity.
  Qed.

  (* C08: a conflict lists exactly the live templates owning a route of the candidate, sorted, each once *)
  Theorem insert_conflict_live t d r' t' cs :
    rinsert r t d = (r', RErr (IEConflict t' cs)) ->
    r' = r /\ t' = t /\ StronglySorted blt cs /\ cs <> []
    /\ forall c, In c cs <-> (exists dc, In (c, dc) L) /\ exists r0, route_of_template t r0 /\ route_of_template c r0.
  Proof.
    intros H. pose proof (abs_inv r L A) as HR.
    pose proof (rinsert_error_noop _ _ _ _ _ H) as ->.
    pose proof (rinsert_conflict_template _ _ _ _ _ _ H) as ->.
    destruct (rinsert_conflicts_sorted _ _ _ _ _ _ H) as [Hs Hne].
    destruct (rinsert_conflict_spec r t d r t cs HR H) as (es & Ep & Hcs).
    split; [reflexivity|]. split; [reflexivity|]. split; [exact Hs|]. split; [exact Hne|].
    intros c. rewrite Hcs. split.
    - intros (e & i & He & Hi & <-). destruct (abs_sound r L A _ _ Hi) as [Hin Hr].
      split; [eauto|]. exists (exp_route e). split; [exists es, e; auto|exact Hr].
    - intros ((dc & Hin) & r0 & (es' & e & Ep' & He & ->) & Hr0). rewrite Ep in Ep'. inversion Ep'; subst es'.
      destruct (abs_complete r L A c dc _ Hin Hr0) as (i & Hi & Hit & _). exists e, i. auto.
  Qed.

  (* ... and an insert is refused with a conflict exactly when such a live template exists *)
  Theorem insert_outcome_live t d es :
    parse t = Ret es -> unknown_constraint r es = None ->
    ((exists c dc r0, In (c, dc) L /\ route_of_template t r0 /\ route_of_template c r0) ->
        exists cs, rinsert r t d = (r, RErr (IEConflict t cs)))
    /\ ((forall c dc r0, In (c, dc) L -> route_of_template t r0 -> ~ route_of_template c r0) ->
        exists r', rinsert r t d = (r', ROk tt)).
  Proof.
    intros Ep Hu. pose proof (abs_inv r L A) as HR. split.
    - intros (c & dc & r0 & Hin & (es' & e & Ep' & He & ->) & Hr0). rewrite Ep in Ep'. inversion Ep'; subst es'.
      destruct (abs_complete r L A c dc _ Hin Hr0) as (i & Hi & _).
      apply (proj1 (rinsert_outcome r t d es HR Ep Hu)). exists e, i. auto.
    - intros Hfree. apply (proj2 (rinsert_outcome r t d es HR Ep Hu)).
      intros e i He Hi. destruct (abs_sound r L A _ _ Hi) as [Hin Hr].
      apply (Hfree (i_template i) (i_data i) (exp_route e) Hin); [exists es, e; auto|exact Hr].
  Qed.

  (* after a successful insert every expansion is routable: any path it fits is matched *)
  Theorem insert_ok_routable chk t d r' es e p vs :
    rinsert r t d = (r', ROk tt) -> parse t = Ret es -> In e es -> fits chk (exp_route e) p vs ->
    rsearch chk r' p <> None.
  Proof.
    intros H Ep He Hf. pose proof (abs_inv r L A) as HR.
    pose proof (rinsert_inv r t d HR) as HR'. rewrite H in HR'. cbn [fst] in HR'. destruct HR' as [W' T'].
    destruct (rinsert_ok_routes r t d r' HR H) as (es' & Ep' & _ & Hnew & _). rewrite Ep in Ep'. inversion Ep'; subst es'.
    destruct (Hnew e He) as (i & Hi & _). unfold rsearch.
    eapply (TreeCorP.search_complete chk (r_root r') p (exp_route e) i vs); [apply wf_tidy_inv; assumption|exact Hi|exact Hf].
  Qed.
End Outcomes.

(* C05: routers whose histories left the same set of live (template, data) pairs store the same routes with the
   same infos, hence answer every path alike *)
Theorem same_live_same_routes r1 L1 r2 L2 :
  Abs r1 L1 -> Abs r2 L2 -> (forall x, In x L1 <-> In x L2) ->
  forall r0 i, RM (r_root r1) r0 i <-> RM (r_root r2) r0 i.
Proof.
  intros A1 A2 HL r0 i. rewrite (abs_exact r1 L1 A1), (abs_exact r2 L2 A2).
  split; intros (t & d & es & Hin & H); exists t, d, es; (split; [apply HL; exact Hin|exact H]).
Qed.

Theorem same_live_same_answers r1 L1 r2 L2 chk p :
  Abs r1 L1 -> Abs r2 L2 -> (forall x, In x L1 <-> In x L2) ->
  rsearch chk r1 p = rsearch chk r2 p.
Proof.
  intros A1 A2 HL. apply same_RM_search; [apply (abs_inv r1 L1 A1)|apply (abs_inv r2 L2 A2)|].
  apply (same_live_same_routes r1 L1 r2 L2 A1 A2 HL).
Qed.
