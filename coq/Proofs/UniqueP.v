(* Uniqueness of the canonical tree: two well-formed, tidy, compressed trees that store the same routes with the
   same infos are the same tree up to the shortcut flags and dirty marks (which Display does not print). *)
From Coq Require Import Lia Arith PeanoNat Permutation Sorted.
From WF Require Import Base.Bytes Base.Utf8 Spec.Route Spec.Walk Model.Tree Model.Ops Spec.Inv.
From WF Require Import Proofs.BytesP Proofs.WalkP Proofs.GroupsP Proofs.RefineP Proofs.InvP Proofs.OpsLemmasP Proofs.InsertP
     Proofs.OptimizeP Proofs.DeleteP Proofs.RoutesP Proofs.InsRoutesP Proofs.CompP Proofs.WalkPermP.

(* ---- forgetting flags and dirty marks ---- *)
Fixpoint erase (n : node) {struct n} : node :=
  let sub (l : list (key * node)) := map (fun kc : key * node => (fst kc, erase (snd kc))) l in
  Node (n_data n) (sub (n_st n)) (sub (n_dc n)) (sub (n_dy n)) (sub (n_wc n)) (sub (n_wi n)) (sub (n_ec n)) (sub (n_en n))
       false false false.

Definition E (kc : key * node) : key * node := (fst kc, erase (snd kc)).

Lemma erase_eq n :
  erase n = Node (n_data n) (map E (n_st n)) (map E (n_dc n)) (map E (n_dy n)) (map E (n_wc n)) (map E (n_wi n))
                 (map E (n_ec n)) (map E (n_en n)) false false false.
Proof. destruct n; reflexivity. Qed.

Lemma erase_of_parts n1 n2 :
  n_data n1 = n_data n2 -> map E (n_st n1) = map E (n_st n2) -> (forall k, map E (kids k n1) = map E (kids k n2)) ->
  erase n1 = erase n2.
Proof.
  intros Hd Hs Hk. rewrite !erase_eq, Hd, Hs.
  rewrite (Hk KDC : map E (n_dc n1) = _), (Hk KDY : map E (n_dy n1) = _), (Hk KWC : map E (n_wc n1) = _),
          (Hk KWI : map E (n_wi n1) = _), (Hk KEC : map E (n_ec n1) = _), (Hk KEN : map E (n_en n1) = _).
  reflexivity.
Qed.

(* ---- two strictly sorted child lists with the same keys and matching children ---- *)
Lemma SS_kklt_keys l : StronglySorted kklt l -> StronglySorted klt (map fst l).
Proof.
  induction l as [|x l IH]; intros H; [constructor|]. apply StronglySorted_inv in H as [H Hx].
  cbn [map]. constructor; [apply IH; exact H|]. rewrite Forall_forall in *. intros k Hk.
  apply in_map_iff in Hk as (y & <- & Hy). apply (Hx y Hy).
Qed.

Lemma sorted_lists_equal (l1 l2 : list (key * node)) :
  strictly_sorted l1 = true -> strictly_sorted l2 = true ->
  (forall ky, (exists c, In (ky, c) l1) <-> (exists c, In (ky, c) l2)) ->
  (forall ky c1 c2, In (ky, c1) l1 -> In (ky, c2) l2 -> erase c1 = erase c2) ->
  map E l1 = map E l2.
Proof.
  intros S1 S2 Hkeys Hch.
  assert (Hk : map fst l1 = map fst l2).
  { apply sorted_keys_unique; [apply SS_kklt_keys, strictly_sorted_SS, S1|apply SS_kklt_keys, strictly_sorted_SS, S2|].
    intros k. split; intros Hin; apply in_map_iff in Hin as ([k' c] & <- & Hin); cbn [fst].
    - destruct (proj1 (Hkeys k') (ex_intro _ c Hin)) as (c2 & H2). apply in_map_iff. exists (k', c2). auto.
    - destruct (proj2 (Hkeys k') (ex_intro _ c Hin)) as (c1 & H1). apply in_map_iff. exists (k', c1). auto. }
  clear S1 S2 Hkeys. revert l2 Hk Hch. induction l1 as [|[k1 c1] l1 IH]; intros l2 Hk Hch.
  - destruct l2; [reflexivity|discriminate].
  - destruct l2 as [|[k2 c2] l2]; [discriminate|]. cbn [map fst] in Hk. inversion Hk as [[Hk1 Hk2]]. subst k2.
    cbn [map]. unfold E at 1 3. cbn [fst snd]. f_equal.
    + f_equal. apply (Hch k1 c1 c2); left; reflexivity.
    + apply IH; [exact Hk2|]. intros ky a b Ha Hb. apply (Hch ky a b); right; assumption.
Qed.

(* ---- which child a route comes from ---- *)
Definition tail_ok (k : kind) (r : route) : Prop :=
  if is_dyn k then True else if is_end k then r = [] else r <> [].

Lemma nodata_routes_nonempty c r i : wf c = true -> has_data c = false -> In (r, i) (routes_of c) -> r <> [].
Proof.
  intros Hwf Hd Hin ->. pose proof (wf_unpack c Hwf) as W.
  apply in_routes_of in Hin as [[_ H]|[(kc & r' & Hkc & Hr & _)|(k & kc & r' & _ & Hr & _)]].
  - unfold has_data in Hd. rewrite H in Hd. discriminate.
  - destruct (static_keys_nonempty _ _ (wn_static_keys c W) Hkc) as (b & k' & Hk & _). rewrite Hk in Hr. discriminate Hr.
  - discriminate Hr.
Qed.

Lemma kids_unique_key n k ky c c' : wf n = true -> In (ky, c) (kids k n) -> In (ky, c') (kids k n) -> c = c'.
Proof.
  intros Hwf H1 H2. pose proof (wf_unpack n Hwf) as W. pose proof (wn_nodup n W k) as Hn.
  apply keys_nodup_spec in Hn. eapply (NoDup_fst_inj (kids k n)); eassumption.
Qed.

(* the routes through the child with key ky of kind k *)
Lemma kind_child_routes n k ky c r i :
  wf n = true -> In (ky, c) (kids k n) ->
  (In (r, i) (kid_routes k c) <-> RM n (head_atom k ky :: r) i /\ tail_ok k r).
Proof.
  intros Hwf Hin. pose proof (wf_unpack n Hwf) as W.
  pose proof (key_ok_kind _ _ (wn_key n W k (ky, c) Hin)) as Hkk. cbn [fst] in Hkk.
  split.
  - intros Hr. split.
    + unfold RM, mem_of. apply in_routes_of. right. right. exists k, (ky, c), r. auto.
    + unfold tail_ok. destruct (is_dyn k) eqn:Ed; [exact I|]. destruct (is_end k) eqn:Ee.
      * unfold kid_routes in Hr. rewrite Ee in Hr. destruct (n_data c); [|destruct Hr]. destruct Hr as [Hr|[]]. inversion Hr. reflexivity.
      * unfold kid_routes in Hr. rewrite Ee in Hr. destruct (wn_mid n W k (ky, c) Ee Hin) as (_ & Hnd & _ & Hwc).
        apply (nodata_routes_nonempty c r i Hwc (Hnd Ed) Hr).
  - intros [HRM Ht]. unfold RM, mem_of in HRM. apply in_routes_of in HRM as [[H _]|[(kc & r' & Hkc & Hr & _)|(k' & kc' & r' & Hkc' & Hr & Hin')]].
    + discriminate H.
    + exfalso. destruct (static_keys_nonempty _ _ (wn_static_keys n W) Hkc) as (b & k0 & Hk & _). rewrite Hk in Hr.
      cbn [map app] in Hr. inversion Hr as [[Ha _]]. destruct k; discriminate Ha.
    + inversion Hr as [[Ha Hrr]]. subst r'.
      pose proof (key_ok_kind _ _ (wn_key n W k' kc' Hkc')) as Hkk'.
      destruct (head_atom_inj k (ky) k' (fst kc') Hkk Hkk' Ha) as [Hdyn Hky].
      assert (Hkeq : k' = k).
      { apply (kind_of_key k' k ky); [rewrite Hky; exact Hkk'|exact Hkk|congruence|].
        (* same end-ness: told by the tail *)
        unfold tail_ok in Ht. destruct (is_dyn k) eqn:Ed.
        - destruct k, k'; try discriminate; reflexivity.
        - destruct (is_end k) eqn:Ee; destruct (is_end k') eqn:Ee'; try reflexivity; exfalso.
          + (* k end, k' mid: r = [] but a mid child without data has no empty route *)
            subst r. unfold kid_routes in Hin'. rewrite Ee' in Hin'.
            destruct (wn_mid n W k' kc' Ee' Hkc') as (_ & Hnd & _ & Hwc).
            apply (nodata_routes_nonempty (snd kc') [] i Hwc (Hnd ltac:(congruence)) Hin'). reflexivity.
          + (* k mid, k' end: r <> [] but an end child only has the empty route *)
            unfold kid_routes in Hin'. rewrite Ee' in Hin'. destruct (n_data (snd kc')); [|destruct Hin'].
            destruct Hin' as [Hx|[]]. inversion Hx. subst r. apply Ht. reflexivity. }
      subst k'. destruct kc' as [ky' c']. cbn [fst snd] in *. subst ky'.
      rewrite (kids_unique_key n k ky c c' Hwf Hin Hkc'). exact Hin'.
Qed.

(* a key is present in the list of kind k iff some stored route starts with its atom (and has the right tail) *)
Lemma kind_key_present n k ky :
  wf n = true ->
  ((exists c, In (ky, c) (kids k n)) <-> key_kind_ok k ky = true /\ exists r i, RM n (head_atom k ky :: r) i /\ tail_ok k r).
Proof.
  intros Hwf. pose proof (wf_unpack n Hwf) as W. split.
  - intros (c & Hin). split; [apply (key_ok_kind _ _ (wn_key n W k (ky, c) Hin))|].
    assert (Hne : exists r i, In (r, i) (kid_routes k c)).
    { unfold kid_routes. destruct (is_end k) eqn:Ee.
      - destruct (wn_end n W k (ky, c) Ee Hin) as [Hd _]. cbn [snd] in Hd. unfold has_data in Hd.
        destruct (n_data c) as [d|]; [|discriminate]. exists [], d. left; reflexivity.
      - destruct (wn_mid n W k (ky, c) Ee Hin) as (_ & _ & Hal & Hwc). cbn [snd] in *.
        pose proof (alive_routes c Hwc Hal) as Hr. destruct (routes_of c) as [|[r i] l]; [congruence|]. exists r, i. left; reflexivity. }
    destruct Hne as (r & i & Hr). exists r, i. apply (kind_child_routes n k ky c r i Hwf Hin). exact Hr.
  - intros (Hkk & r & i & HRM & Ht). unfold RM, mem_of in HRM.
    apply in_routes_of in HRM as [[H _]|[(kc & r' & Hkc & Hr & _)|(k' & kc' & r' & Hkc' & Hr & Hin')]].
    + discriminate H.
    + exfalso. destruct (static_keys_nonempty _ _ (wn_static_keys n W) Hkc) as (b & k0 & Hk & _). rewrite Hk in Hr.
      cbn [map app] in Hr. inversion Hr as [[Ha _]]. destruct k; discriminate Ha.
    + inversion Hr as [[Ha Hrr]]. subst r'.
      pose proof (key_ok_kind _ _ (wn_key n W k' kc' Hkc')) as Hkk'.
      destruct (head_atom_inj k ky k' (fst kc') Hkk Hkk' Ha) as [Hdyn Hky].
      assert (Hkeq : k' = k).
      { apply (kind_of_key k' k ky); [rewrite Hky; exact Hkk'|exact Hkk|congruence|].
        unfold tail_ok in Ht. destruct (is_dyn k) eqn:Ed.
        - destruct k, k'; try discriminate; reflexivity.
        - destruct (is_end k) eqn:Ee; destruct (is_end k') eqn:Ee'; try reflexivity; exfalso.
          + subst r. unfold kid_routes in Hin'. rewrite Ee' in Hin'.
            destruct (wn_mid n W k' kc' Ee' Hkc') as (_ & Hnd & _ & Hwc).
            apply (nodata_routes_nonempty (snd kc') [] i Hwc (Hnd ltac:(congruence)) Hin'). reflexivity.
          + unfold kid_routes in Hin'. rewrite Ee' in Hin'. destruct (n_data (snd kc')); [|destruct Hin'].
            destruct Hin' as [Hx|[]]. inversion Hx. subst r. apply Ht. reflexivity. }
      subst k'. destruct kc' as [ky' c']. cbn [fst] in Hky. subst ky'. exists c'. exact Hkc'.
Qed.

(* ---- literal children ---- *)
Lemma map_AB_inj a b : map AB a = map AB b -> a = b.
Proof. revert b; induction a as [|x a IH]; intros [|y b] H; try discriminate; [reflexivity|]. inversion H. f_equal. auto. Qed.

Lemma NoDup_map_inj_in {A B} (f : A -> B) l x y : NoDup (map f l) -> In x l -> In y l -> f x = f y -> x = y.
Proof.
  induction l as [|a l IH]; intros Hn Hx Hy Hf; [destruct Hx|]. cbn [map] in Hn. apply NoDup_cons_iff in Hn as [Ha Hn].
  destruct Hx as [->|Hx], Hy as [->|Hy]; auto.
  - exfalso. apply Ha. rewrite Hf. apply in_map. exact Hy.
  - exfalso. apply Ha. rewrite <- Hf. apply in_map. exact Hx.
Qed.

Lemma static_same_first l kc1 kc2 :
  static_keys_ok l = true -> In kc1 l -> In kc2 l -> first_byte (fst kc1) = first_byte (fst kc2) -> kc1 = kc2.
Proof.
  intros H H1 H2 Hf. apply static_keys_ok_spec in H as [_ Hd].
  apply (NoDup_map_inj_in (fun kc : key * node => first_byte (fst kc)) l kc1 kc2 Hd H1 H2 Hf).
Qed.

(* a stored route starting with byte b goes through the literal child whose key starts with b *)
Lemma static_first_byte_routes n k c b k0 rest i :
  wf n = true -> In ((k, None), c) (n_st n) -> k = b :: k0 ->
  RM n (AB b :: rest) i -> exists r'', AB b :: rest = map AB k ++ r'' /\ RM c r'' i.
Proof.
  intros Hwf Hin Hk HRM. pose proof (wf_unpack n Hwf) as W. unfold RM, mem_of in HRM.
  apply in_routes_of in HRM as [[H _]|[(kc & r' & Hkc & Hr & Hin')|(k' & kc' & r' & Hkc' & Hr & _)]].
  - discriminate H.
  - destruct (static_keys_nonempty _ _ (wn_static_keys n W) Hkc) as (b' & k' & Hk' & _).
    assert (Hb : b' = b) by (rewrite Hk' in Hr; cbn [map app] in Hr; inversion Hr; reflexivity).
    assert (Heq : kc = ((k, None), c)).
    { apply (static_same_first _ _ _ (wn_static_keys n W) Hkc Hin). unfold first_byte. cbn [fst]. rewrite Hk', Hk, Hb. reflexivity. }
    subst kc. cbn [fst snd] in *. exists r'. split; [exact Hr|exact Hin'].
  - inversion Hr as [[Ha _]]. destruct k'; discriminate Ha.
Qed.

Lemma static_child_routes n k c r i :
  wf n = true -> In ((k, None), c) (n_st n) -> (RM c r i <-> RM n (map AB k ++ r) i).
Proof.
  intros Hwf Hin. pose proof (wf_unpack n Hwf) as W. split.
  - intros H. unfold RM, mem_of. apply in_routes_of. right. left. exists ((k, None), c), r. auto.
  - intros H. destruct (static_keys_nonempty _ _ (wn_static_keys n W) Hin) as (b & k0 & Hk & _). cbn [fst] in Hk.
    rewrite Hk in H. cbn [map app] in H.
    destruct (static_first_byte_routes n k c b k0 _ i Hwf Hin Hk H) as (r'' & Hr & Hc).
    rewrite Hk in Hr. cbn [map app] in Hr. inversion Hr as [Hr']. apply app_inv_head in Hr'. subst r''. exact Hc.
Qed.

Definition Good (n : node) : Prop := wf n = true /\ tidy n = true /\ comp n = true.

(* if the other tree reaches the same routes through a strictly longer key, this child would be compressible *)
Lemma longer_key_compressible nA nB kA cA kB cB m :
  wf nA = true -> wf nB = true -> (forall r i, RM nA r i <-> RM nB r i) ->
  In ((kA, None), cA) (n_st nA) -> In ((kB, None), cB) (n_st nB) -> kB = kA ++ m -> m <> [] ->
  compressible_b cA = true.
Proof.
  intros WA WB Hsame HA HB Hk Hm.
  pose proof (wf_unpack nA WA) as WAr. pose proof (wf_unpack nB WB) as WBr.
  destruct (wn_static nA WAr _ HA) as [HalA HwA]. cbn [snd] in HalA, HwA.
  destruct (static_keys_nonempty _ _ (wn_static_keys nA WAr) HA) as (b & kA0 & HkA & _). cbn [fst] in HkA.
  assert (HkB : kB = b :: (kA0 ++ m)) by (rewrite Hk, HkA; reflexivity).
  (* every route of cA continues with the bytes of m *)
  assert (Hcont : forall r i, RM cA r i -> exists rB, r = map AB m ++ rB).
  { intros r i Hr. apply (static_child_routes nA kA cA r i WA HA) in Hr. apply Hsame in Hr.
    rewrite HkA in Hr. cbn [map app] in Hr.
    destruct (static_first_byte_routes nB kB cB b (kA0 ++ m) _ i WB HB HkB Hr) as (r'' & Hr'' & _).
    rewrite HkB in Hr''. cbn [map app] in Hr''. inversion Hr'' as [Hx]. rewrite map_app, <- app_assoc in Hx.
    apply app_inv_head in Hx. eauto. }
  destruct m as [|x m']; [congruence|].
  pose proof (wf_unpack cA HwA) as WC.
  unfold compressible_b. apply andb_true_iff. split; [apply andb_true_iff; split|].
  - (* no data *)
    unfold has_data. destruct (n_data cA) as [d|] eqn:Ed; [|reflexivity]. exfalso.
    destruct (Hcont [] d) as (rB & Hr); [unfold RM, mem_of; apply in_routes_data; exact Ed|]. discriminate Hr.
  - (* no parameter children *)
    assert (Hk0 : forall k, kids k cA = []).
    { intros k. destruct (kids k cA) as [|[ky c'] l] eqn:Ek; [reflexivity|]. exfalso.
      assert (Hin0 : In (ky, c') (kids k cA)) by (rewrite Ek; left; reflexivity).
      destruct (proj1 (kind_key_present cA k ky HwA) (ex_intro _ c' Hin0)) as (_ & r & i & HRM & _).
      destruct (Hcont _ i HRM) as (rB & Hr). cbn [map app] in Hr. inversion Hr as [[Ha _]]. destruct k; discriminate Ha. }
    unfold only_static_kids. pose proof (Hk0 KDC) as K1. pose proof (Hk0 KDY) as K2. pose proof (Hk0 KWC) as K3.
    pose proof (Hk0 KWI) as K4. pose proof (Hk0 KEC) as K5. pose proof (Hk0 KEN) as K6. cbn [kids] in *.
    rewrite K1, K2, K3, K4, K5, K6. reflexivity.
  - (* exactly one literal child *)
    assert (Hfirst : forall kc, In kc (n_st cA) -> first_byte (fst kc) = Some x).
    { intros kc Hkc. destruct (wn_static cA WC kc Hkc) as [Hal Hw].
      destruct (static_keys_nonempty _ _ (wn_static_keys cA WC) Hkc) as (b' & k' & Hk' & Hnone).
      pose proof (alive_routes (snd kc) Hw Hal) as Hne. destruct (routes_of (snd kc)) as [|[r i] l] eqn:Er; [congruence|].
      assert (HRM : RM cA (map AB (fst (fst kc)) ++ r) i).
      { unfold RM, mem_of. apply in_routes_of. right. left. exists kc, r. split; [exact Hkc|]. split; [reflexivity|]. rewrite Er. left; reflexivity. }
      destruct (Hcont _ i HRM) as (rB & Hr). rewrite Hk' in Hr. cbn [map app] in Hr. injection Hr as Hbx _. unfold first_byte. rewrite Hk', Hbx. reflexivity. }
    destruct (n_st cA) as [|kc1 [|kc2 l]] eqn:Est.
    + (* alive without data and without parameter children: there is a literal child *)
      exfalso. unfold alive, no_kids_b in HalA. rewrite Est in HalA. cbn [is_nil andb] in HalA.
      assert (Hd : has_data cA = false).
      { unfold has_data. destruct (n_data cA) as [d|] eqn:Ed; [|reflexivity]. exfalso.
        destruct (Hcont [] d) as (rB & Hr); [unfold RM, mem_of; apply in_routes_data; exact Ed|]. discriminate Hr. }
      rewrite Hd in HalA. cbn [orb] in HalA.
      assert (Ho : only_static_kids cA = true).
      { assert (Hk0 : forall k, kids k cA = []).
        { intros k. destruct (kids k cA) as [|[ky c'] l] eqn:Ek; [reflexivity|]. exfalso.
          assert (Hin0 : In (ky, c') (kids k cA)) by (rewrite Ek; left; reflexivity).
      destruct (proj1 (kind_key_present cA k ky HwA) (ex_intro _ c' Hin0)) as (_ & r & i & HRM & _).
          destruct (Hcont _ i HRM) as (rB & Hr). cbn [map app] in Hr. inversion Hr as [[Ha _]]. destruct k; discriminate Ha. }
        unfold only_static_kids. pose proof (Hk0 KDC) as K1. pose proof (Hk0 KDY) as K2. pose proof (Hk0 KWC) as K3.
        pose proof (Hk0 KWI) as K4. pose proof (Hk0 KEC) as K5. pose proof (Hk0 KEN) as K6. cbn [kids] in *.
        rewrite K1, K2, K3, K4, K5, K6. reflexivity. }
      rewrite Ho in HalA. discriminate.
    + reflexivity.
    + exfalso. pose proof (wn_static_keys cA WC) as Hks. rewrite Est in Hks.
      assert (H12 : kc1 = kc2).
      { apply (static_same_first (kc1 :: kc2 :: l) kc1 kc2 Hks); [left; reflexivity|right; left; reflexivity|].
        rewrite (Hfirst kc1), (Hfirst kc2); [reflexivity|right; left; reflexivity|left; reflexivity]. }
      subst kc2. apply static_keys_ok_spec in Hks as [_ Hd]. cbn [map] in Hd. apply NoDup_cons_iff in Hd as [Hd _]. apply Hd. left; reflexivity.
Qed.

Lemma static_key_match nA nB kA cA :
  Good nA -> Good nB -> (forall r i, RM nA r i <-> RM nB r i) ->
  In ((kA, None), cA) (n_st nA) -> exists cB, In ((kA, None), cB) (n_st nB).
Proof.
  intros (WA & _ & CA) (WB & _ & CB) Hsame HA.
  pose proof (wf_unpack nA WA) as WAr. pose proof (wf_unpack nB WB) as WBr.
  destruct (wn_static nA WAr _ HA) as [HalA HwA]. cbn [snd] in HalA, HwA.
  destruct (static_keys_nonempty _ _ (wn_static_keys nA WAr) HA) as (b & kA0 & HkA & _). cbn [fst] in HkA.
  pose proof (alive_routes cA HwA HalA) as Hne. destruct (routes_of cA) as [|[r' i] l] eqn:Er; [congruence|].
  assert (HRA : RM nA (map AB kA ++ r') i).
  { apply (static_child_routes nA kA cA r' i WA HA). unfold RM, mem_of. rewrite Er. left; reflexivity. }
  pose proof (proj1 (Hsame _ _) HRA) as HRB. unfold RM, mem_of in HRB.
  apply in_routes_of in HRB as [[H _]|[(kc & r'' & Hkc & Hr & _)|(k' & kc' & r'' & _ & Hr & _)]].
  - rewrite HkA in H. discriminate H.
  - destruct kc as [[kB o] cB]. destruct (static_keys_nonempty _ _ (wn_static_keys nB WBr) Hkc) as (b' & kB0 & HkB & Ho).
    cbn [fst snd] in *. subst o.
    destruct (le_lt_dec (length kA) (length kB)) as [Hle|Hlt].
    + destruct (map_AB_app_inv kA kB r' r'' Hr Hle) as (m & Hm & _).
      destruct m as [|x m'].
      * rewrite app_nil_r in Hm. exists cB. rewrite <- Hm. exact Hkc.
      * exfalso. pose proof (longer_key_compressible nA nB kA cA kB cB (x :: m') WA WB Hsame HA Hkc Hm ltac:(discriminate)) as Hcomp.
        apply comp_iff in CA as [Hsc _]. destruct (st_comp_in _ _ Hsc HA) as [Hn _]. cbn [snd] in Hn.
        unfold ncomp in Hn. rewrite Hcomp in Hn. discriminate.
    + symmetry in Hr. destruct (map_AB_app_inv kB kA r'' r' Hr ltac:(lia)) as (m & Hm & _).
      destruct m as [|x m']; [rewrite app_nil_r in Hm; rewrite Hm in Hlt; lia|].
      exfalso. assert (Hsym : forall r0 i0, RM nB r0 i0 <-> RM nA r0 i0) by (intros; symmetry; apply Hsame).
      pose proof (longer_key_compressible nB nA kB cB kA cA (x :: m') WB WA Hsym Hkc HA Hm ltac:(discriminate)) as Hcomp.
      apply comp_iff in CB as [Hsc _]. destruct (st_comp_in _ _ Hsc Hkc) as [Hn _]. cbn [snd] in Hn.
      unfold ncomp in Hn. rewrite Hcomp in Hn. discriminate.
  - rewrite HkA in Hr. cbn [map app] in Hr. inversion Hr as [[Ha _]]. destruct k'; discriminate Ha.
Qed.

(* ---- the theorem ---- *)
Lemma good_static_child n kc : Good n -> In kc (n_st n) -> Good (snd kc).
Proof.
  intros (W & T & C) Hin. pose proof (wf_unpack n W) as Wr. pose proof (tidy_unpack n T) as Tr.
  apply comp_iff in C as [Hsc _]. destruct (wn_static n Wr kc Hin) as [_ Hw]. destruct (st_comp_in _ _ Hsc Hin) as [_ Hc].
  split; [exact Hw|]. split; [apply (tn_st n Tr kc Hin)|exact Hc].
Qed.

Lemma good_mid_child n k kc : Good n -> is_end k = false -> In kc (kids k n) -> Good (snd kc).
Proof.
  intros (W & T & C) He Hin. pose proof (wf_unpack n W) as Wr. pose proof (tidy_unpack n T) as Tr.
  apply comp_iff in C as [_ Hkc]. destruct (wn_mid n Wr k kc He Hin) as (_ & _ & _ & Hw).
  split; [exact Hw|]. split; [apply (tn_kids n Tr k kc Hin)|apply (kids_comp_in _ kc (Hkc k He) Hin)].
Qed.

Lemma erase_end_child c : no_kids_b c = true -> erase c = Node (n_data c) [] [] [] [] [] [] [] false false false.
Proof.
  intros H. unfold no_kids_b, only_static_kids in H. rewrite erase_eq.
  destruct (n_st c), (n_dc c), (n_dy c), (n_wc c), (n_wi c), (n_ec c), (n_en c); try discriminate. reflexivity.
Qed.

Theorem canonical_unique : forall n1 n2,
  Good n1 -> Good n2 -> (forall r i, RM n1 r i <-> RM n2 r i) -> erase n1 = erase n2.
Proof.
  induction n1 using node_ind'. set (n1 := Node d st dc dy wc wi ec en f1 f2 f3) in *.
  intros n2 G1 G2 Hsame. pose proof G1 as (W1 & T1 & C1). pose proof G2 as (W2 & T2 & C2).
  pose proof (wf_unpack n1 W1) as W1r. pose proof (wf_unpack n2 W2) as W2r.
  pose proof (tidy_unpack n1 T1) as T1r. pose proof (tidy_unpack n2 T2) as T2r.
  (* the induction hypothesis for every child of n1 *)
  assert (IHst : forall kc, In kc (n_st n1) -> forall c2, Good (snd kc) -> Good c2 ->
            (forall r i, RM (snd kc) r i <-> RM c2 r i) -> erase (snd kc) = erase c2).
  { intros kc Hkc. unfold AllP in H. rewrite Forall_forall in H. cbn [n1 n_st] in Hkc. apply (H kc Hkc). }
  assert (IHk : forall k kc, In kc (kids k n1) -> forall c2, Good (snd kc) -> Good c2 ->
            (forall r i, RM (snd kc) r i <-> RM c2 r i) -> erase (snd kc) = erase c2).
  { intros k kc Hkc. unfold AllP in *. rewrite Forall_forall in *.
    destruct k; cbn [kids n1 n_dc n_dy n_wc n_wi n_ec n_en] in Hkc; auto. }
  apply erase_of_parts.
  - (* data *)
    destruct (n_data n1) as [d1|] eqn:E1.
    + assert (HR : RM n1 [] d1) by (unfold RM, mem_of; apply in_routes_data; exact E1).
      apply Hsame in HR. unfold RM, mem_of in HR. apply in_routes_of in HR as [[_ HR]|[(kc & r' & Hkc & Hr & _)|(k & kc & r' & _ & Hr & _)]].
      * symmetry. exact HR.
      * destruct (static_keys_nonempty _ _ (wn_static_keys n2 W2r) Hkc) as (b & k' & Hk & _). rewrite Hk in Hr. discriminate Hr.
      * discriminate Hr.
    + destruct (n_data n2) as [d2|] eqn:E2; [|reflexivity]. exfalso.
      assert (HR : RM n2 [] d2) by (unfold RM, mem_of; apply in_routes_data; exact E2).
      apply Hsame in HR. unfold RM, mem_of in HR. apply in_routes_of in HR as [[_ HR]|[(kc & r' & Hkc & Hr & _)|(k & kc & r' & _ & Hr & _)]].
      * congruence.
      * destruct (static_keys_nonempty _ _ (wn_static_keys n1 W1r) Hkc) as (b & k' & Hk & _). rewrite Hk in Hr. discriminate Hr.
      * discriminate Hr.
  - (* literal children *)
    apply sorted_lists_equal; [apply (tn_sorted_st n1 T1r)|apply (tn_sorted_st n2 T2r)| |].
    + intros [ky o]. split; intros (c & Hin).
      * destruct (static_keys_nonempty _ _ (wn_static_keys n1 W1r) Hin) as (_ & _ & _ & Ho). cbn [fst snd] in Ho. subst o.
        apply (static_key_match n1 n2 ky c G1 G2 Hsame Hin).
      * destruct (static_keys_nonempty _ _ (wn_static_keys n2 W2r) Hin) as (_ & _ & _ & Ho). cbn [fst snd] in Ho. subst o.
        apply (static_key_match n2 n1 ky c G2 G1); [intros; symmetry; apply Hsame|exact Hin].
    + intros [ky o] c1 c2 Hi1 Hi2.
      destruct (static_keys_nonempty _ _ (wn_static_keys n1 W1r) Hi1) as (_ & _ & _ & Ho). cbn [fst snd] in Ho. subst o.
      apply (IHst ((ky, None), c1) Hi1 c2); [apply (good_static_child n1 _ G1 Hi1)|apply (good_static_child n2 _ G2 Hi2)|].
      intros r i. cbn [snd]. rewrite (static_child_routes n1 ky c1 r i W1 Hi1), (static_child_routes n2 ky c2 r i W2 Hi2). apply Hsame.
  - (* parameter children, kind by kind *)
    intros k. apply sorted_lists_equal; [apply (tn_sorted n1 T1r k)|apply (tn_sorted n2 T2r k)| |].
    + intros ky. rewrite (kind_key_present n1 k ky W1), (kind_key_present n2 k ky W2).
      split; intros (Hkk & r & i & HR & Ht); (split; [exact Hkk|]); exists r, i; (split; [apply Hsame; exact HR|exact Ht]).
    + intros ky c1 c2 Hi1 Hi2. destruct (is_end k) eqn:Ee.
      * (* a catch-all child: data and nothing else *)
        destruct (wn_end n1 W1r k _ Ee Hi1) as [Hd1 Hn1]. destruct (wn_end n2 W2r k _ Ee Hi2) as [Hd2 Hn2]. cbn [snd] in *.
        rewrite (erase_end_child c1 Hn1), (erase_end_child c2 Hn2). f_equal.
        unfold has_data in Hd1, Hd2. destruct (n_data c1) as [x1|] eqn:E1; [|discriminate]. destruct (n_data c2) as [x2|] eqn:E2; [|discriminate].
        assert (Hr1 : In ([], x1) (kid_routes k c1)) by (unfold kid_routes; rewrite Ee, E1; left; reflexivity).
        apply (kind_child_routes n1 k ky c1 [] x1 W1 Hi1) in Hr1 as [HR Ht]. apply Hsame in HR.
        assert (Hr2 : In ([], x1) (kid_routes k c2)) by (apply (kind_child_routes n2 k ky c2 [] x1 W2 Hi2); split; assumption).
        unfold kid_routes in Hr2. rewrite Ee, E2 in Hr2. destruct Hr2 as [Hx|[]]. inversion Hx. reflexivity.
      * apply (IHk k (ky, c1) Hi1 c2); [apply (good_mid_child n1 k _ G1 Ee Hi1)|apply (good_mid_child n2 k _ G2 Ee Hi2)|].
        intros r i. cbn [snd].
        pose proof (kind_child_routes n1 k ky c1 r i W1 Hi1) as K1. pose proof (kind_child_routes n2 k ky c2 r i W2 Hi2) as K2.
        unfold kid_routes in K1, K2. rewrite Ee in K1, K2. unfold RM at 1 2, mem_of. rewrite K1, K2.
        split; intros [HR Ht]; (split; [apply Hsame; exact HR|exact Ht]).
Qed.
