(* Node::insert preserves the structural invariant and the dirty discipline. *)
From Coq Require Import Lia Permutation Arith PeanoNat.
From WF Require Import Base.Bytes Base.Utf8 Spec.Route Spec.Walk Model.Tree Model.Ops Spec.Inv.
From WF Require Import Proofs.BytesP Proofs.WalkP Proofs.GroupsP Proofs.RefineP Proofs.InvP Proofs.OptimizeP Proofs.OpsLemmasP.

(* ---- what the parser guarantees about a part list ---- *)
Definition name_ok (n : bytes) : bool := negb (hd_is SL n).
Fixpoint parts_wf (prev_param : bool) (ps : list part) : bool :=
  match ps with
  | [] => true
  | PS s :: r => negb (is_nil s) && parts_wf false r
  | PD n _ :: r => negb prev_param && name_ok n && parts_wf true r
  | PW n _ :: r => negb prev_param && name_ok n && parts_wf true r
  end.
Definition head_static (ps : list part) : bool := match ps with [] | PS _ :: _ => true | _ => false end.

Lemma parts_wf_head ps : parts_wf true ps = true -> head_static ps = true.
Proof. destruct ps as [|[s|n c|n c] ps]; cbn; auto; discriminate. Qed.
Lemma parts_wf_weaken ps : parts_wf true ps = true -> parts_wf false ps = true.
Proof. destruct ps as [|[s|n c|n c] ps]; cbn; auto; discriminate. Qed.

(* ---- list surgery on child lists ---- *)
Definition skey (kc : key * node) : option byte * option bytes := (first_byte (fst kc), snd (fst kc)).

Lemma existsb_skeys b (l l' : list (key * node)) :
  map skey l = map skey l' ->
  existsb (fun y : key * node => match first_byte (fst y) with Some b' => N.eqb b b' | None => true end) l
  = existsb (fun y : key * node => match first_byte (fst y) with Some b' => N.eqb b b' | None => true end) l'.
Proof.
  revert l'; induction l as [|x l IH]; intros [|y l'] H; cbn [map] in H; try discriminate; [reflexivity|].
  assert (H1 : skey x = skey y) by congruence.
  assert (H2 : map skey l = map skey l') by congruence.
  assert (Hb : first_byte (fst x) = first_byte (fst y)) by (unfold skey in H1; congruence).
  cbn [existsb]. rewrite Hb, (IH l' H2). reflexivity.
Qed.

Lemma static_keys_ok_skeys l l' : map skey l = map skey l' -> static_keys_ok l = static_keys_ok l'.
Proof.
  revert l'; induction l as [|x l IH]; intros [|y l'] H; cbn [map] in H; try discriminate; [reflexivity|].
  assert (H1 : skey x = skey y) by congruence.
  assert (H2 : map skey l = map skey l') by congruence.
  assert (Hb : first_byte (fst x) = first_byte (fst y)) by (unfold skey in H1; congruence).
  assert (Hc : snd (fst x) = snd (fst y)) by (unfold skey in H1; congruence).
  cbn [static_keys_ok].
  rewrite Hb, Hc, (IH l' H2). f_equal.
  destruct (first_byte (fst y)); [|reflexivity]. destruct (snd (fst y)); [reflexivity|]. f_equal.
  apply existsb_skeys. exact H2.
Qed.

Lemma st_wf_replace a x b x' :
  st_wf (a ++ x :: b) = true -> skey x' = skey x -> alive (snd x') = true -> wf (snd x') = true ->
  st_wf (a ++ x' :: b) = true.
Proof.
  unfold st_wf. intros H Hk Ha Hw. apply andb_true_iff in H as [H1 H2]. apply andb_true_iff. split.
  - rewrite <- H1. apply static_keys_ok_skeys. rewrite !map_app. cbn [map]. rewrite Hk. reflexivity.
  - rewrite forallb_app in *. cbn [forallb] in *. apply andb_true_iff in H2 as [H2 H3]. apply andb_true_iff in H3 as [_ H3].
    rewrite H2, H3, Ha, Hw. reflexivity.
Qed.

Lemma static_keys_ok_snoc l p c :
  static_keys_ok l = true -> (forall y, In y l -> same_first (fst (fst y)) p = false) -> p <> [] ->
  static_keys_ok (l ++ [((p, None), c)]) = true.
Proof.
  intros H Hn Hp. apply static_keys_ok_spec. apply static_keys_ok_spec in H as [Hg Hd]. split.
  - apply Forall_app. split; [exact Hg|]. constructor; [|constructor]. unfold skey_good. cbn.
    destruct p; [congruence|]. split; [discriminate|reflexivity].
  - rewrite map_app. cbn [map]. apply NoDup_app_snoc; [exact Hd|].
    intros Hin. apply in_map_iff in Hin as (y & Hy & Hin). specialize (Hn y Hin).
    cbn [fst] in Hy. unfold first_byte in Hy. cbn [fst] in Hy.
    rewrite Forall_forall in Hg. destruct (Hg y Hin) as [Hb _]. unfold first_byte in Hb.
    destruct (fst (fst y)) as [|a k]; [congruence|]. destruct p as [|b p]; [congruence|].
    inversion Hy; subst. cbn in Hn. rewrite N.eqb_refl in Hn. discriminate.
Qed.

Lemma st_wf_snoc l p c :
  st_wf l = true -> (forall y, In y l -> same_first (fst (fst y)) p = false) -> p <> [] ->
  alive c = true -> wf c = true -> st_wf (l ++ [((p, None), c)]) = true.
Proof.
  unfold st_wf. intros H Hn Hp Ha Hw. apply andb_true_iff in H as [H1 H2]. apply andb_true_iff. split.
  - apply static_keys_ok_snoc; assumption.
  - rewrite forallb_app. cbn [forallb snd]. rewrite H2, Ha, Hw. reflexivity.
Qed.

Lemma keys_nodup_replace a x b x' : fst x' = fst x -> keys_nodup (a ++ x :: b) = keys_nodup (a ++ x' :: b).
Proof.
  intros Hk. assert (H : map fst (a ++ x :: b) = map fst (a ++ x' :: b)) by (rewrite !map_app; cbn [map]; rewrite Hk; reflexivity).
  destruct (keys_nodup (a ++ x :: b)) eqn:E1, (keys_nodup (a ++ x' :: b)) eqn:E2; try reflexivity.
  - apply keys_nodup_spec in E1. rewrite H in E1. apply keys_nodup_spec in E1. congruence.
  - apply keys_nodup_spec in E2. rewrite <- H in E2. apply keys_nodup_spec in E2. congruence.
Qed.

Lemma keys_nodup_snoc l ky c :
  keys_nodup l = true -> (forall y, In y l -> keqb (fst y) ky = false) -> keys_nodup (l ++ [(ky, c)]) = true.
Proof.
  intros H Hn. apply keys_nodup_spec. rewrite map_app. cbn [map fst]. apply NoDup_app_snoc; [apply keys_nodup_spec; exact H|].
  intros Hin. apply in_map_iff in Hin as (y & Hy & Hin). specialize (Hn y Hin). rewrite Hy, keqb_refl in Hn. discriminate.
Qed.

Definition mid_child_ok (k : kind) (kc : key * node) : bool :=
  key_ok k (fst kc) && only_static_kids (snd kc)
  && (if is_dyn k then true else negb (has_data (snd kc))) && alive (snd kc) && wf (snd kc).

Lemma mid_wf_replace k a x b x' :
  mid_wf k (a ++ x :: b) = true -> fst x' = fst x -> mid_child_ok k x' = true -> mid_wf k (a ++ x' :: b) = true.
Proof.
  unfold mid_wf. intros H Hk Hc. apply andb_true_iff in H as [H1 H2]. apply andb_true_iff. split.
  - rewrite <- (keys_nodup_replace a x b x' Hk). exact H1.
  - rewrite forallb_app in *. cbn [forallb] in *. apply andb_true_iff in H2 as [H2 H3]. apply andb_true_iff in H3 as [_ H3].
    rewrite H2, H3. fold (mid_child_ok k x'). rewrite Hc. reflexivity.
Qed.

Lemma mid_wf_snoc k l ky c :
  mid_wf k l = true -> (forall y, In y l -> keqb (fst y) ky = false) -> mid_child_ok k (ky, c) = true ->
  mid_wf k (l ++ [(ky, c)]) = true.
Proof.
  unfold mid_wf. intros H Hn Hc. apply andb_true_iff in H as [H1 H2]. apply andb_true_iff. split.
  - apply keys_nodup_snoc; assumption.
  - rewrite forallb_app. cbn [forallb]. rewrite H2. fold (mid_child_ok k (ky, c)). rewrite Hc. reflexivity.
Qed.

Lemma end_wf_snoc k l ky c :
  end_wf k l = true -> (forall y, In y l -> keqb (fst y) ky = false) ->
  key_ok k ky = true -> has_data c = true -> no_kids_b c = true -> end_wf k (l ++ [(ky, c)]) = true.
Proof.
  unfold end_wf. intros H Hn Hk Hd Hnk. apply andb_true_iff in H as [H1 H2]. apply andb_true_iff. split.
  - apply keys_nodup_snoc; assumption.
  - rewrite forallb_app. cbn [forallb fst snd]. rewrite H2, Hk, Hd, Hnk. reflexivity.
Qed.

Lemma kids_disc_replace a x b x' :
  kids_disc (a ++ x :: b) = true -> disc (snd x') = true -> kids_disc (a ++ x' :: b) = true.
Proof.
  unfold kids_disc. rewrite !forallb_app. cbn [forallb]. intros H Hd.
  apply andb_true_iff in H as [H2 H3]. apply andb_true_iff in H3 as [_ H3]. rewrite H2, H3, Hd. reflexivity.
Qed.

Lemma kids_disc_snoc l kc : kids_disc l = true -> disc (snd kc) = true -> kids_disc (l ++ [kc]) = true.
Proof. unfold kids_disc. rewrite forallb_app. cbn [forallb]. intros -> ->. reflexivity. Qed.

(* ---- the empty node and leaves ---- *)
Lemma wf_empty : wf empty_node = true.  Proof. reflexivity. Qed.
Lemma disc_empty : disc empty_node = true.  Proof. reflexivity. Qed.

(* wf and disc do not look at the node's own data; disc of a dirty node only at its children *)
Lemma wf_same_lists n n' :
  n_st n' = n_st n -> (forall k, kids k n' = kids k n) -> wf n' = wf n.
Proof.
  intros Hs Hk. rewrite !wf_kinds, Hs. f_equal. unfold all_kinds. cbn [forallb]. rewrite !Hk. reflexivity.
Qed.

Lemma alive_of_data n : has_data n = true -> alive n = true.
Proof. unfold alive. intros ->. reflexivity. Qed.
Lemma alive_of_st n : n_st n <> [] -> alive n = true.
Proof. unfold alive, no_kids_b. intros H. destruct (n_st n); [congruence|]. cbn. apply orb_true_r. Qed.
Lemma alive_of_kids n k : kids k n <> [] -> alive n = true.
Proof.
  unfold alive, no_kids_b, only_static_kids. intros H.
  destruct k; cbn [kids] in H; match goal with H : ?l <> [] |- _ => destruct l; [congruence|] end;
    cbn; rewrite ?andb_false_r; cbn; apply orb_true_r.
Qed.

Lemma only_static_same n n' : (forall k, kids k n' = kids k n) -> only_static_kids n' = only_static_kids n.
Proof.
  intros H. unfold only_static_kids.
  pose proof (H KDC) as H1. pose proof (H KDY) as H2. pose proof (H KWC) as H3.
  pose proof (H KWI) as H4. pose proof (H KEC) as H5. pose proof (H KEN) as H6.
  cbn [kids] in *. rewrite H1, H2, H3, H4, H5, H6. reflexivity.
Qed.

Lemma app_not_nil {A} (l : list A) x : l ++ [x] <> [].
Proof. destruct l; discriminate. Qed.
Lemma app_mid_not_nil {A} (a : list A) x b : a ++ x :: b <> [].
Proof. destruct a; discriminate. Qed.

(* ---- unfolding ---- *)
Lemma insert_S f n ps d :
  insert (S f) n ps d =
  match ps with
  | [] => set_dirty true (set_data (Some d) n)
  | PS p :: ps' => insert_static f n p ps' d
  | p :: ps' =>
    match part_kind p ps' with
    | None => n
    | Some (k, ky) =>
      if is_end k then
        if existsb (fun kc : key * node => keqb (fst kc) ky) (kids k n) then n
        else set_dirty true (set_kids k (kids k n ++ [(ky, set_data (Some d) empty_node)]) n)
      else
        match upd_first (fun kc : key * node => keqb (fst kc) ky)
                        (fun kc => (fst kc, insert f (snd kc) ps' d)) (kids k n) with
        | Some l => set_dirty true (set_kids k l n)
        | None => set_dirty true (set_kids k (kids k n ++ [(ky, insert f empty_node ps' d)]) n)
        end
    end
  end.
Proof. reflexivity. Qed.

Definition split_fn (f : nat) (p : bytes) (ps : list part) (d : info) (kc : key * node) : key * node :=
  let k := fst (fst kc) in
  let c := snd kc in
  let cp := lcp p k in
  if Nat.leb (length k) cp then
    (fst kc, if Nat.leb (length p) cp then insert f c ps d else insert_static f c (skipn cp p) ps d)
  else
    let a := ((skipn cp k, None), c) in
    let parent0 := Node None [] [] [] [] [] [] [] (n_dflag c) (n_wflag c) true in
    ((firstn cp k, None),
     if Nat.leb (length p) cp then insert f (set_st [a] parent0) ps d
     else set_st [a; ((skipn cp p, None), insert f empty_node ps d)] parent0).

Lemma insert_static_S f n p ps d :
  insert_static (S f) n p ps d =
  match upd_first (fun kc : key * node => same_first (fst (fst kc)) p) (split_fn f p ps d) (n_st n) with
  | Some l => set_dirty true (set_st l n)
  | None => set_dirty true (set_st (n_st n ++ [((p, None), insert f empty_node ps d)]) n)
  end.
Proof. reflexivity. Qed.

(* ---- what one insertion guarantees ---- *)
Definition InsOK (n n' : node) (ps : list part) : Prop :=
  wf n' = true /\ disc n' = true /\ alive n' = true
  /\ (ps <> [] -> n_data n' = n_data n)
  /\ (head_static ps = true -> forall k, kids k n' = kids k n).
Definition InsStOK (n n' : node) : Prop :=
  wf n' = true /\ disc n' = true /\ alive n' = true /\ n_data n' = n_data n /\ forall k, kids k n' = kids k n.

Lemma part_kind_dyn n c ps' k ky :
  part_kind (PD n c) ps' = Some (k, ky) ->
  ky = (n, c) /\ key_kind_ok k ky = true /\ is_end k = false /\ is_dyn k = true.
Proof. cbn [part_kind]. destruct c; intros H; inversion H; subst; repeat split; reflexivity. Qed.

Lemma part_kind_wild n c ps' k ky :
  part_kind (PW n c) ps' = Some (k, ky) ->
  ky = (n, c) /\ key_kind_ok k ky = true /\ is_dyn k = false /\ (is_end k = false -> ps' <> []).
Proof.
  cbn [part_kind]. destruct c, ps'; intros H; inversion H; subst; repeat split; try reflexivity;
    try discriminate; intros; discriminate.
Qed.

Lemma in_split_mid {A} (a : list A) x b y : In y (a ++ x :: b) <-> In y a \/ y = x \/ In y b.
Proof. rewrite in_app_iff. cbn. intuition congruence. Qed.

Lemma kind_eq_dec (a b : kind) : {a = b} + {a <> b}.
Proof. decide equality. Qed.

Lemma kind_wf_nil k : kind_wf k [] = true.
Proof. destruct k; reflexivity. Qed.

(* the tree after replacing / extending the list of kind k (and marking the node dirty) *)
Lemma wf_set_kind n k l :
  wf n = true -> kind_wf k l = true -> wf (set_dirty true (set_kids k l n)) = true.
Proof.
  intros Hwf Hl. apply wf_iff in Hwf as [Wst Wk]. apply wf_iff. split.
  - rewrite st_set_dirty, st_set_kids. exact Wst.
  - intros k'. rewrite kids_set_dirty. destruct (kind_eq_dec k k') as [<-|Hne].
    + rewrite kids_set_kids_same. exact Hl.
    + rewrite kids_set_kids_other by exact Hne. apply Wk.
Qed.

Lemma disc_set_kind n k l :
  disc n = true -> kids_disc l = true -> disc (set_dirty true (set_kids k l n)) = true.
Proof.
  intros Hd Hl. destruct (disc_children n Hd) as [Dst Dk]. apply disc_of_children.
  - apply dirty_set_dirty.
  - rewrite st_set_dirty, st_set_kids. exact Dst.
  - intros k'. rewrite kids_set_dirty. destruct (kind_eq_dec k k') as [<-|Hne].
    + rewrite kids_set_kids_same. exact Hl.
    + rewrite kids_set_kids_other by exact Hne. apply Dk.
Qed.

Lemma wf_set_static n l : wf n = true -> st_wf l = true -> wf (set_dirty true (set_st l n)) = true.
Proof.
  intros Hwf Hl. apply wf_iff in Hwf as [Wst Wk]. apply wf_iff. split.
  - rewrite st_set_dirty, st_set_st. exact Hl.
  - intros k. rewrite kids_set_dirty, kids_set_st. apply Wk.
Qed.

Lemma disc_set_static n l : disc n = true -> kids_disc l = true -> disc (set_dirty true (set_st l n)) = true.
Proof.
  intros Hd Hl. destruct (disc_children n Hd) as [Dst Dk]. apply disc_of_children.
  - apply dirty_set_dirty.
  - rewrite st_set_dirty, st_set_st. exact Hl.
  - intros k. rewrite kids_set_dirty, kids_set_st. apply Dk.
Qed.

Lemma existsb_false_all {A} (f : A -> bool) l : existsb f l = false -> forall y, In y l -> f y = false.
Proof.
  intros H y Hy. destruct (f y) eqn:E; [|reflexivity].
  assert (existsb f l = true) by (apply existsb_exists; eauto). congruence.
Qed.

(* ---- catch-all ---- *)
Lemma insert_end_case n d k ky ps :
  wf n = true -> disc n = true -> is_end k = true -> key_ok k ky = true -> ps <> [] -> head_static ps = false ->
  InsOK n (if existsb (fun kc : key * node => keqb (fst kc) ky) (kids k n) then n
           else set_dirty true (set_kids k (kids k n ++ [(ky, set_data (Some d) empty_node)]) n)) ps.
Proof.
  intros Hwf Hdisc He Hk Hne Hhs.
  apply wf_iff in Hwf as Hwf'. destruct Hwf' as [Wst Wk].
  destruct (existsb _ (kids k n)) eqn:Ex.
  - unfold InsOK. split; [|split; [|split; [|split]]]; auto.
    apply existsb_exists in Ex as (y & Hy & _). apply (alive_of_kids n k). intros E. rewrite E in Hy. destruct Hy.
  - unfold InsOK. split; [|split; [|split; [|split]]].
    + apply wf_set_kind; [exact Hwf|]. unfold kind_wf. rewrite He.
      apply end_wf_snoc; auto.
      * specialize (Wk k). unfold kind_wf in Wk. rewrite He in Wk. exact Wk.
      * apply existsb_false_all. exact Ex.
    + apply disc_set_kind; [exact Hdisc|]. apply kids_disc_snoc; [|reflexivity].
      apply (proj2 (disc_children n Hdisc) k).
    + apply (alive_of_kids _ k). rewrite kids_set_dirty, kids_set_kids_same. apply app_not_nil.
    + intros _. rewrite data_set_dirty, data_set_kids. reflexivity.
    + intros Hh. rewrite Hhs in Hh. discriminate.
Qed.

(* ---- dynamic / mid-route wildcard ---- *)
Lemma insert_param_case f
  (IHi : forall n ps d b, parts_size ps < f -> wf n = true -> disc n = true -> parts_wf b ps = true ->
                          InsOK n (insert f n ps d) ps)
  n ps' d k ky ps :
  wf n = true -> disc n = true -> is_end k = false -> key_ok k ky = true ->
  parts_wf true ps' = true -> parts_size ps' < f -> (is_dyn k = false -> ps' <> []) ->
  ps <> [] -> head_static ps = false ->
  InsOK n (match upd_first (fun kc : key * node => keqb (fst kc) ky)
                           (fun kc => (fst kc, insert f (snd kc) ps' d)) (kids k n) with
           | Some l => set_dirty true (set_kids k l n)
           | None => set_dirty true (set_kids k (kids k n ++ [(ky, insert f empty_node ps' d)]) n)
           end) ps.
Proof.
  intros Hwf Hdisc He Hk Hps' Hfuel Hwild Hne Hhs.
  apply wf_iff in Hwf as Hwf'. destruct Hwf' as [Wst Wk].
  pose proof (Wk k) as Wkk. unfold kind_wf in Wkk. rewrite He in Wkk.
  pose proof (proj2 (disc_children n Hdisc) k) as Dkk.
  pose proof (parts_wf_head ps' Hps') as Hhead.
  assert (Hchild : forall c ky0, key_ok k ky0 = true -> wf c = true -> disc c = true ->
             only_static_kids c = true -> (is_dyn k = false -> has_data c = false) ->
             let c' := insert f c ps' d in
             mid_child_ok k (ky0, c') = true /\ disc c' = true).
  { intros c ky0 Hk0 Hwc Hdc Hoc Hndc c'.
    destruct (IHi c ps' d true Hfuel Hwc Hdc Hps') as (H1 & H2 & H3 & H4 & H5). fold c' in H1, H2, H3, H4, H5.
    split; [|exact H2]. unfold mid_child_ok. cbn [fst snd].
    rewrite Hk0, (only_static_same c c' (H5 Hhead)), Hoc, H3, H1.
    destruct (is_dyn k) eqn:Ed; [reflexivity|].
    unfold has_data in *. rewrite (H4 (Hwild eq_refl)). rewrite (Hndc eq_refl). reflexivity. }
  destruct (upd_first _ _ (kids k n)) as [l|] eqn:Eu.
  - apply upd_first_some in Eu as (a & x & b & Hl & Hx & _ & ->).
    assert (Hxin : In x (kids k n)) by (rewrite Hl; apply in_or_app; right; left; reflexivity).
    assert (Hxok : mid_child_ok k x = true).
    { unfold mid_wf in Wkk. apply andb_true_iff in Wkk as [_ Wkk]. rewrite forallb_forall in Wkk. apply (Wkk x Hxin). }
    unfold mid_child_ok in Hxok. split_andb.
    assert (Hdx : disc (snd x) = true).
    { unfold kids_disc in Dkk. rewrite forallb_forall in Dkk. apply (Dkk x Hxin). }
    destruct (Hchild (snd x) (fst x)) as [Hc1 Hc2]; auto.
    { intros Hdy. match goal with Hy : (if is_dyn k then true else _) = true |- _ => rewrite Hdy in Hy; apply negb_true_iff in Hy; exact Hy end. }
    unfold InsOK. split; [|split; [|split; [|split]]].
    + apply wf_set_kind; [exact Hwf|]. unfold kind_wf. rewrite He.
      rewrite Hl in Wkk. eapply mid_wf_replace; [exact Wkk|reflexivity|exact Hc1].
    + apply disc_set_kind; [exact Hdisc|]. rewrite Hl in Dkk. eapply kids_disc_replace; [exact Dkk|exact Hc2].
    + apply (alive_of_kids _ k). rewrite kids_set_dirty, kids_set_kids_same. apply app_mid_not_nil.
    + intros _. rewrite data_set_dirty, data_set_kids. reflexivity.
    + intros Hh. rewrite Hhs in Hh. discriminate.
  - pose proof (upd_first_none _ _ _ Eu) as Hnone.
    destruct (Hchild empty_node ky) as [Hc1 Hc2]; auto.
    unfold InsOK. split; [|split; [|split; [|split]]].
    + apply wf_set_kind; [exact Hwf|]. unfold kind_wf. rewrite He. apply mid_wf_snoc; auto.
    + apply disc_set_kind; [exact Hdisc|]. apply kids_disc_snoc; [exact Dkk|exact Hc2].
    + apply (alive_of_kids _ k). rewrite kids_set_dirty, kids_set_kids_same. apply app_not_nil.
    + intros _. rewrite data_set_dirty, data_set_kids. reflexivity.
    + intros Hh. rewrite Hhs in Hh. discriminate.
Qed.

(* ---- literal part: descend, split or add a child ---- *)
Lemma first_byte_skipn (k : bytes) cp : first_byte (skipn cp k, @None bytes) = nth_error k cp.
Proof.
  unfold first_byte. cbn [fst]. revert k; induction cp as [|cp IH]; intros [|x k]; cbn; try reflexivity. apply IH.
Qed.

Lemma first_byte_firstn (k : bytes) cp : 1 <= cp -> first_byte (firstn cp k, @None bytes) = first_byte (k, @None bytes).
Proof. unfold first_byte. cbn [fst]. destruct cp; [lia|]. destruct k; reflexivity. Qed.

Lemma insert_static_case f
  (IHi : forall n ps d b, parts_size ps < f -> wf n = true -> disc n = true -> parts_wf b ps = true ->
                          InsOK n (insert f n ps d) ps)
  (IHs : forall n p ps d, length p + parts_size ps < f -> p <> [] -> wf n = true -> disc n = true ->
                          parts_wf false ps = true -> InsStOK n (insert_static f n p ps d)) :
  forall n p ps d, length p + parts_size ps < S f -> p <> [] -> wf n = true -> disc n = true ->
                   parts_wf false ps = true -> InsStOK n (insert_static (S f) n p ps d).
Proof.
  intros n p ps d Hfuel Hp Hwf Hdisc Hps. rewrite insert_static_S.
  apply wf_iff in Hwf as Hwf'. destruct Hwf' as [Wst Wk].
  destruct (disc_children n Hdisc) as [Dst Dk].
  assert (Hlenp : 1 <= length p) by (destruct p; [congruence|cbn; lia]).
  assert (Hpsz : 1 <= parts_size ps) by (destruct ps as [|[?|? ?|? ?] ?]; cbn; lia).
  (* a fresh chain below an empty node *)
  assert (Hfresh : let c1 := insert f empty_node ps d in wf c1 = true /\ disc c1 = true /\ alive c1 = true).
  { destruct (IHi empty_node ps d false) as (H1 & H2 & H3 & _); [lia|reflexivity|reflexivity|exact Hps|]. cbv zeta. auto. }
  destruct (upd_first _ _ (n_st n)) as [l|] eqn:Eu.
  - apply upd_first_some in Eu as (a & x & b & Hl & Hx & _ & ->).
    assert (Hxin : In x (n_st n)) by (rewrite Hl; apply in_or_app; right; left; reflexivity).
    unfold st_wf in Wst. apply andb_true_iff in Wst as [Wkeys Wch].
    assert (Hxc : alive (snd x) = true /\ wf (snd x) = true).
    { rewrite forallb_forall in Wch. specialize (Wch x Hxin). apply andb_true_iff in Wch. exact Wch. }
    destruct Hxc as [Hxa Hxw].
    assert (Hxd : disc (snd x) = true) by (unfold kids_disc in Dst; rewrite forallb_forall in Dst; apply (Dst x Hxin)).
    destruct (static_keys_nonempty _ _ Wkeys Hxin) as (b0 & k0' & Hk0 & Hcn).
    set (k0 := fst (fst x)) in *. set (c := snd x) in *. set (cp := lcp p k0).
    assert (Hcp1 : 1 <= cp) by (apply same_first_lcp; exact Hx).
    destruct (lcp_le p k0) as [Hcp_p Hcp_k]. fold cp in Hcp_p, Hcp_k.
    (* the replacement entry *)
    assert (Hnew : skey (split_fn f p ps d x) = skey x /\ alive (snd (split_fn f p ps d x)) = true
                   /\ wf (snd (split_fn f p ps d x)) = true /\ disc (snd (split_fn f p ps d x)) = true).
    { unfold split_fn. fold k0 c cp.
      destruct (Nat.leb (length k0) cp) eqn:Ek.
      - apply Nat.leb_le in Ek. cbn [fst snd]. split; [reflexivity|].
        destruct (Nat.leb (length p) cp) eqn:Epl.
        + destruct (IHi c ps d false) as (H1 & H2 & H3 & _); [lia|exact Hxw|exact Hxd|exact Hps|]. auto.
        + apply Nat.leb_gt in Epl.
          destruct (IHs c (skipn cp p) ps d) as (H1 & H2 & H3 & _); [| |exact Hxw|exact Hxd|exact Hps|auto].
          * rewrite skipn_length. lia.
          * intros E. apply (f_equal (@length _)) in E. rewrite skipn_length in E. cbn in E. lia.
      - apply Nat.leb_gt in Ek. cbn [fst snd].
        set (a0 := ((skipn cp k0, @None bytes), c)).
        set (parent0 := Node None [] [] [] [] [] [] [] (n_dflag c) (n_wflag c) true).
        assert (Hsk : skey ((firstn cp k0, @None bytes), c) = skey x).
        { unfold skey. cbn [fst snd]. rewrite first_byte_firstn by exact Hcp1.
          destruct x as [[xk xc] xn]. cbn [fst snd] in *. subst xc. reflexivity. }
        assert (Ha0 : first_byte (fst a0) <> None).
        { unfold a0. cbn [fst]. rewrite first_byte_skipn. intros E. apply nth_error_None in E. lia. }
        destruct (Nat.leb (length p) cp) eqn:Epl.
        + (* p is a proper prefix of the child's prefix: the route continues in the new parent *)
          set (B := set_st [a0] parent0).
          assert (HwB : wf B = true).
          { apply wf_iff. split.
            - unfold B. rewrite st_set_st. unfold st_wf. apply andb_true_iff. split.
              + apply static_keys_ok_spec. split.
                * constructor; [split; [exact Ha0|reflexivity]|constructor].
                * cbn [map]. constructor; [intros []|constructor].
              + cbn [forallb]. unfold a0. cbn [snd]. rewrite Hxa, Hxw. reflexivity.
            - intros k. unfold B. rewrite kids_set_st. destruct k; reflexivity. }
          assert (HdB : disc B = true).
          { apply disc_of_children; [reflexivity| |intros k; unfold B; rewrite kids_set_st; destruct k; reflexivity].
            unfold B. rewrite st_set_st. unfold kids_disc. cbn [forallb]. unfold a0. cbn [snd]. rewrite Hxd. reflexivity. }
          destruct (IHi B ps d false) as (H1 & H2 & H3 & _); [lia|exact HwB|exact HdB|exact Hps|].
          split; [exact Hsk|]. cbn [snd]. auto.
        + (* both continue: two children *)
          apply Nat.leb_gt in Epl.
          destruct Hfresh as (F1 & F2 & F3).
          set (b1 := ((skipn cp p, @None bytes), insert f empty_node ps d)).
          set (N1 := set_st [a0; b1] parent0).
          destruct (lcp_next_differs p k0) as (xp & xk & Hnp & Hnk & Hdiff); [exact Epl|exact Ek|]. fold cp in Hnp, Hnk.
          assert (HwN : wf N1 = true).
          { apply wf_iff. split.
            - unfold N1. rewrite st_set_st. unfold st_wf. apply andb_true_iff. split.
              + apply static_keys_ok_spec. split.
                * constructor; [split; [exact Ha0|reflexivity]|].
                  constructor; [|constructor]. split; [|reflexivity]. unfold b1. cbn [fst]. rewrite first_byte_skipn, Hnp. discriminate.
                * cbn [map]. unfold a0, b1. cbn [fst]. rewrite !first_byte_skipn, Hnp, Hnk.
                  constructor; [intros [E|[]]; congruence|]. constructor; [intros []|constructor].
              + cbn [forallb]. unfold a0, b1. cbn [snd]. rewrite Hxa, Hxw, F3, F1. reflexivity.
            - intros k. unfold N1. rewrite kids_set_st. destruct k; reflexivity. }
          assert (HdN : disc N1 = true).
          { apply disc_of_children; [reflexivity| |intros k; unfold N1; rewrite kids_set_st; destruct k; reflexivity].
            unfold N1. rewrite st_set_st. unfold kids_disc. cbn [forallb]. unfold a0, b1. cbn [snd]. rewrite Hxd, F2. reflexivity. }
          split; [exact Hsk|]. cbn [snd]. fold a0 parent0 b1 N1. repeat split; auto. }
    destruct Hnew as (Hsk & Hna & Hnw & Hnd).
    unfold InsStOK. split; [|split; [|split; [|split]]].
    + apply wf_set_static; [exact Hwf|]. eapply st_wf_replace; [|exact Hsk|exact Hna|exact Hnw].
      rewrite <- Hl. unfold st_wf. rewrite Wkeys, Wch. reflexivity.
    + apply disc_set_static; [exact Hdisc|]. rewrite Hl in Dst. eapply kids_disc_replace; [exact Dst|exact Hnd].
    + apply alive_of_st. rewrite st_set_dirty, st_set_st. apply app_mid_not_nil.
    + rewrite data_set_dirty, data_set_st. reflexivity.
    + intros k. rewrite kids_set_dirty, kids_set_st. reflexivity.
  - pose proof (upd_first_none _ _ _ Eu) as Hnone. destruct Hfresh as (F1 & F2 & F3).
    unfold InsStOK. split; [|split; [|split; [|split]]].
    + apply wf_set_static; [exact Hwf|]. apply st_wf_snoc; auto.
    + apply disc_set_static; [exact Hdisc|]. apply kids_disc_snoc; [exact Dst|exact F2].
    + apply alive_of_st. rewrite st_set_dirty, st_set_st. apply app_not_nil.
    + rewrite data_set_dirty, data_set_st. reflexivity.
    + intros k. rewrite kids_set_dirty, kids_set_st. reflexivity.
Qed.

Section Ins.
  Lemma insert_ok : forall fuel,
    (forall n ps d b, parts_size ps < fuel -> wf n = true -> disc n = true -> parts_wf b ps = true ->
                      InsOK n (insert fuel n ps d) ps)
    /\ (forall n p ps d, length p + parts_size ps < fuel -> p <> [] -> wf n = true -> disc n = true ->
                         parts_wf false ps = true -> InsStOK n (insert_static fuel n p ps d)).
  Proof.
    induction fuel as [|f [IHi IHs]]; [split; intros; lia|].
    split.
    - (* insert *)
      intros n ps d b Hfuel Hwf Hdisc Hps. rewrite insert_S.
      destruct (disc_children n Hdisc) as [Dst Dk].
      apply wf_iff in Hwf as Hwf'. destruct Hwf' as [Wst Wk].
      destruct ps as [|p0 ps'].
      + (* the route ends here *)
        unfold InsOK. split; [|split; [|split; [|split]]].
        * rewrite (wf_same_lists n); [exact Hwf|rewrite st_set_dirty, st_set_data; reflexivity|].
          intros k. rewrite kids_set_dirty, kids_set_data. reflexivity.
        * apply disc_of_children; [apply dirty_set_dirty|rewrite st_set_dirty, st_set_data; exact Dst|].
          intros k. rewrite kids_set_dirty, kids_set_data. apply Dk.
        * apply alive_of_data. unfold has_data. rewrite data_set_dirty, data_set_data. reflexivity.
        * congruence.
        * intros _ k. rewrite kids_set_dirty, kids_set_data. reflexivity.
      + destruct p0 as [s|nm c|nm c].
        * (* literal part *)
          cbn [parts_wf] in Hps. apply andb_true_iff in Hps as [Hs Hps].
          cbn [parts_size] in Hfuel.
          destruct (IHs n s ps' d) as (H1 & H2 & H3 & H4 & H5); try assumption; [lia|destruct s; [discriminate|discriminate]|].
          unfold InsOK. split; [|split; [|split; [|split]]]; auto.
        * (* dynamic parameter *)
          cbn [parts_wf] in Hps. apply andb_true_iff in Hps as [Hps Hrest]. apply andb_true_iff in Hps as [_ Hname].
          cbn [parts_size] in Hfuel.
          destruct (part_kind (PD nm c) ps') as [[k ky]|] eqn:Epk; [|destruct c; discriminate].
          destruct (part_kind_dyn _ _ _ _ _ Epk) as (-> & Hkk & He & Hdy).
          rewrite He.
          assert (Hkok : key_ok k (nm, c) = true) by (unfold key_ok; rewrite Hkk; exact Hname).
          apply (insert_param_case f IHi n ps' d k (nm, c)); auto; try lia; try discriminate.
          intros Hx. rewrite Hdy in Hx. discriminate.
        * (* wildcard parameter *)
          cbn [parts_wf] in Hps. apply andb_true_iff in Hps as [Hps Hrest]. apply andb_true_iff in Hps as [_ Hname].
          cbn [parts_size] in Hfuel.
          destruct (part_kind (PW nm c) ps') as [[k ky]|] eqn:Epk; [|destruct c, ps'; discriminate].
          destruct (part_kind_wild _ _ _ _ _ Epk) as (-> & Hkk & Hdy & Hne).
          assert (Hkok : key_ok k (nm, c) = true) by (unfold key_ok; rewrite Hkk; exact Hname).
          destruct (is_end k) eqn:He.
          -- (* catch-all *)
             apply (insert_end_case n d k (nm, c)); auto; discriminate.
          -- apply (insert_param_case f IHi n ps' d k (nm, c)); auto; try lia; try discriminate.
    - (* insert_static *)
      apply (insert_static_case f IHi IHs).
  Qed.
End Ins.
