(* Facts about the router-level operations of the model (validate, then mutate). *)
From Coq Require Import Lia.
From WF Require Import Base.Bytes Base.Utf8 Spec.Route Spec.Walk Model.Tree Model.Parser Model.Ops Model.Router.
From WF Require Import Proofs.BytesP.

(* ---- C10 first half: a call that returns an error leaves the router untouched ---- *)
Lemma rinsert_error_noop r t d r' e : rinsert r t d = (r', RErr e) -> r' = r.
Proof.
  unfold rinsert. destruct (parse t) as [es|te|s|]; [|intros H; inversion H; reflexivity..].
  destruct (first_some _ es); [intros H; inversion H; reflexivity|].
  destruct (filter_map _ es); intros H; inversion H; reflexivity.
Qed.

Lemma rinsert_panic_noop r t d r' s : rinsert r t d = (r', RPanic s) -> r' = r.
Proof.
  unfold rinsert. destruct (parse t) as [es|te|s'|]; [|intros H; inversion H; reflexivity..].
  destruct (first_some _ es); [intros H; inversion H|].
  destruct (filter_map _ es); intros H; inversion H.
Qed.

(* the single error that can follow the removal loop (nothing was removed although every expansion
   was found) leaves the tree that the loop produced; it is unreachable when find and delete agree *)
Lemma rdelete_error_noop r t r' e :
  rdelete r t = (r', RErr e) ->
  r' = r \/ (e = DENotFound t /\ exists root, r' = Router root (r_constraints r)).
Proof.
  unfold rdelete. destruct (parse t) as [es|te|s|]; [|intros H; inversion H; auto..].
  destruct (first_some _ es); [intros H; inversion H; auto|].
  destruct (existsb _ es); [intros H; inversion H; auto|].
  destruct (fold_left _ es (r_root r, None)) as [root [d|]]; intros H; inversion H; subst.
  right. split; [reflexivity|]. eauto.
Qed.

Lemma rconstraint_error_noop r n ty r' e : rconstraint r n ty = (r', RErr e) -> r' = r.
Proof.
  unfold rconstraint. destruct (find _ (r_constraints r)) as [[a b]|]; intros H; inversion H; reflexivity.
Qed.

(* searching never changes anything: it does not even return a router *)
Lemma rsearch_pure cfun r p : rsearch cfun r p = search cfun (r_root r) p.
Proof. reflexivity. Qed.

(* ---- C19: payloads ---- *)
Lemma rinsert_conflict_template r t d r' t' cs : rinsert r t d = (r', RErr (IEConflict t' cs)) -> t' = t.
Proof.
  unfold rinsert. destruct (parse t) as [es|te|s|]; [|intros H; inversion H..].
  destruct (first_some _ es); [intros H; inversion H|].
  destruct (filter_map _ es); intros H; inversion H. reflexivity.
Qed.

Lemma rdelete_payload_template r t r' e :
  rdelete r t = (r', RErr e) ->
  match e with DENotFound t' => t' = t | DEMismatch t' _ => t' = t | DETemplate _ => True end.
Proof.
  unfold rdelete. destruct (parse t) as [es|te|s|]; [|intros H; inversion H; exact I..].
  destruct (first_some _ es); [intros H; inversion H; reflexivity|].
  destruct (existsb _ es); [intros H; inversion H; reflexivity|].
  destruct (fold_left _ es (r_root r, None)) as [root [d|]]; intros H; inversion H; reflexivity.
Qed.

(* the unknown constraint reported is used by the template and not registered *)
Lemma rinsert_unknown_genuine r t d r' c :
  rinsert r t d = (r', RErr (IEUnknownConstraint c)) ->
  registered r c = false /\
  exists es e p, parse t = Ret es /\ In e es /\ In p (snd e) /\ part_constraint p = Some c.
Proof.
  unfold rinsert. destruct (parse t) as [es|te|s|] eqn:Ep; [|intros H; inversion H..].
  destruct (first_some _ es) as [c0|] eqn:Ef.
  - intros H. injection H as Hr Hc. subst c0. apply first_some_some in Ef as (e & He & Ef).
    apply first_some_some in Ef as (p & Hp & Ef). apply in_rev in Hp.
    destruct (part_constraint p) as [c1|] eqn:Epc; [|discriminate].
    destruct (registered r c1) eqn:Er; [discriminate|]. injection Ef as Ec. subst c1.
    split; [exact Er|]. exists es, e, p. auto.
  - destruct (filter_map _ es); intros H; inversion H.
Qed.

(* ---- C08: the conflict list is sorted and repetition-free ---- *)
From Coq Require Import Sorted.
Definition ble (a b : bytes) : Prop := bcmp a b <> Gt.
Definition blt (a b : bytes) : Prop := bcmp a b = Lt.

Lemma ble_trans a b c : ble a b -> ble b c -> ble a c.
Proof.
  unfold ble. intros H1 H2.
  destruct (bcmp a b) eqn:E1; [apply bcmp_eq in E1; subst; exact H2| |congruence].
  destruct (bcmp b c) eqn:E2; [apply bcmp_eq in E2; subst; rewrite E1; discriminate| |congruence].
  rewrite (bcmp_lt_trans _ _ _ E1 E2). discriminate.
Qed.

Lemma bins_forall x l a : ble a x -> Forall (ble a) l -> Forall (ble a) (bins x l).
Proof.
  intros Hx. induction l as [|y l IH]; intros Hl; cbn [bins]; [constructor; auto|].
  apply Forall_inv in Hl as Hy. apply Forall_inv_tail in Hl.
  destruct (bcmp x y); repeat constructor; auto.
Qed.

Lemma bins_sorted x l : StronglySorted ble l -> StronglySorted ble (bins x l).
Proof.
  induction l as [|y l IH]; intros Hs; cbn [bins]; [repeat constructor|].
  apply StronglySorted_inv in Hs as [Hs Hall].
  destruct (bcmp x y) eqn:E.
  - constructor; [constructor; assumption|]. apply bcmp_eq in E. subst y.
    constructor; [unfold ble; rewrite bcmp_refl; discriminate|exact Hall].
  - constructor; [constructor; assumption|].
    constructor; [unfold ble; rewrite E; discriminate|].
    eapply Forall_impl; [|exact Hall]. intros a Ha. eapply ble_trans; [|exact Ha]. unfold ble. rewrite E. discriminate.
  - constructor; [apply IH; exact Hs|]. apply bins_forall; [|exact Hall].
    unfold ble. rewrite (bcmp_antisym x y), E. discriminate.
Qed.

Lemma bsort_sorted l : StronglySorted ble (bsort l).
Proof. induction l as [|x l IH]; cbn; [constructor|]. apply bins_sorted. exact IH. Qed.

Lemma dedup_forall P l : Forall P l -> Forall P (dedup l).
Proof.
  induction l as [|x l IH]; intros H; [constructor|].
  apply Forall_inv in H as Hx. apply Forall_inv_tail in H.
  cbn [dedup]. destruct l as [|y l]; [constructor; auto|].
  destruct (beqb x y); [apply IH; exact H|]. constructor; [exact Hx|apply IH; exact H].
Qed.

Lemma dedup_strict l : StronglySorted ble l -> StronglySorted blt (dedup l).
Proof.
  induction l as [|x l IH]; intros Hs; [constructor|].
  apply StronglySorted_inv in Hs as [Hs Hall].
  cbn [dedup]. destruct l as [|y l]; [repeat constructor|].
  destruct (beqb x y) eqn:E; [apply IH; exact Hs|].
  constructor; [apply IH; exact Hs|].
  apply dedup_forall.
  apply Forall_inv in Hall as Hxy.
  assert (Hlt : blt x y).
  { unfold blt, ble in *. destruct (bcmp x y) eqn:Ec; [apply bcmp_eq in Ec; subst; rewrite beqb_refl in E; discriminate|reflexivity|congruence]. }
  constructor; [exact Hlt|].
  apply StronglySorted_inv in Hs as [_ Hy]. eapply Forall_impl; [|exact Hy].
  intros a Ha. unfold blt, ble in *.
  destruct (bcmp y a) eqn:Ea; [apply bcmp_eq in Ea; subst; exact Hlt|eapply bcmp_lt_trans; eauto|congruence].
Qed.

Lemma rinsert_conflicts_sorted r t d r' t' cs :
  rinsert r t d = (r', RErr (IEConflict t' cs)) -> StronglySorted blt cs /\ cs <> [].
Proof.
  unfold rinsert. destruct (parse t) as [es|te|s|]; [|intros H; inversion H..].
  destruct (first_some _ es); [intros H; inversion H|].
  destruct (filter_map _ es) as [|c0 cl] eqn:Ec; intros H; inversion H; subst.
  split; [apply dedup_strict; apply (bsort_sorted (c0 :: cl))|].
  (* non-empty: dedup and bins never produce [] from a non-empty list *)
  assert (Hb : forall l x, bins x l <> []) by (intros l x; destruct l; cbn; [discriminate|destruct (bcmp x b); discriminate]).
  assert (Hd : forall l, l <> [] -> dedup l <> []).
  { induction l as [|x l IH]; [congruence|]. intros _. cbn [dedup]. destruct l as [|y l]; [discriminate|].
    destruct (beqb x y); [apply IH; discriminate|discriminate]. }
  apply Hd. apply Hb.
Qed.

(* strictly increasing implies no repetitions *)
Lemma blt_sorted_nodup l : StronglySorted blt l -> NoDup l.
Proof.
  induction l as [|x l IH]; intros Hs; [constructor|].
  apply StronglySorted_inv in Hs as [Hs Hall]. constructor; [|apply IH; exact Hs].
  intros Hin. rewrite Forall_forall in Hall. specialize (Hall x Hin). unfold blt in Hall. rewrite bcmp_refl in Hall. discriminate.
Qed.
