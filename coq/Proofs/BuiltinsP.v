(* Obligation over the regenerated built-in constraint table (closed computation). *)
From Coq Require Import Ascii String.
From WF Require Import Base.Bytes Spec.Walk Model.Parser Check.Tokens Gen.Tables.

Definition bytes_list_eqb (a b : list bytes) : bool :=
  (fix go (a b : list bytes) := match a, b with
     | [], [] => true | x :: a', y :: b' => beqb x y && go a' b' | _, _ => false end) a b.

(* C13: seventeen built-ins, each NAME wired to the same-named type (ipv4/ipv6 to the address
   types), every body is `part.parse::<Self>().is_ok()`, and Router::new registers all of them *)
Definition builtin_expected : list (string * string) :=
  [("u8","u8"); ("u16","u16"); ("u32","u32"); ("u64","u64"); ("u128","u128"); ("usize","usize");
   ("i8","i8"); ("i16","i16"); ("i32","i32"); ("i64","i64"); ("i128","i128"); ("isize","isize");
   ("f32","f32"); ("f64","f64"); ("bool","bool"); ("Ipv4Addr","ipv4"); ("Ipv6Addr","ipv6")]%string.

Lemma builtin_table_ok :
  gen_builtin_impl_count = 17
  /\ forallb (fun x : bytes * bytes * bool => snd x) gen_builtin_impls = true
  /\ bytes_list_eqb (map (fun x : bytes * bytes * bool => fst (fst x)) gen_builtin_impls) (map (fun p => w (fst p)) builtin_expected) = true
  /\ bytes_list_eqb (map (fun x : bytes * bytes * bool => snd (fst x)) gen_builtin_impls) (map (fun p => w (snd p)) builtin_expected) = true
  /\ bytes_list_eqb gen_builtin_registered (map (fun p => w (fst p)) builtin_expected) = true.
Proof. vm_compute. repeat split; reflexivity. Qed.


(* C07: Router::new registers the built-ins by `router.constraint::<T>().unwrap()`, once per registered type, in the
   regenerated order; Router::constraint fails exactly on a name already present.  The model call for each of them,
   starting from the empty router, returns Ok - so none of the unwraps can panic. *)
From WF Require Import Model.Tree Model.Router.
Definition new_router_registrations : list (bytes * bytes) :=
  filter_map (fun ty : bytes =>
    option_map (fun x : bytes * bytes * bool => (snd (fst x), ty))
               (List.find (fun x : bytes * bytes * bool => beqb (fst (fst x)) ty) gen_builtin_impls))
    gen_builtin_registered.
Definition router_new_c : router * bool :=
  fold_left (fun (acc : router * bool) (nt : bytes * bytes) =>
               let '(r', res) := rconstraint (fst acc) (fst nt) (snd nt) in
               (r', snd acc && match res with ROk _ => true | _ => false end)%bool)
            new_router_registrations (Router empty_node [], true).
Lemma router_new_unwraps_ok :
  length new_router_registrations = length gen_builtin_registered
  /\ snd router_new_c = true
  /\ map fst (r_constraints (fst router_new_c)) = map fst new_router_registrations.
Proof. vm_compute. repeat split; reflexivity. Qed.
