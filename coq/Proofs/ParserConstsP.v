(* Obligation over the regenerated INVALID_PARAM_CHARS (closed computation). *)
From Coq Require Import Ascii String.
From WF Require Import Base.Bytes Spec.Walk Model.Parser Check.Tokens Gen.Tables.

Definition bytes_list_eqb (a b : list bytes) : bool :=
  (fix go (a b : list bytes) := match a, b with
     | [], [] => true | x :: a', y :: b' => beqb x y && go a' b' | _, _ => false end) a b.

(* C11: the characters a parameter or constraint name may not contain *)
Lemma invalid_chars_documented :
  gen_invalid_param_chars = Some INVALID_PARAM_CHARS.
Proof. vm_compute. reflexivity. Qed.

