(* The documented walk does not look inside the infos except for the two ranking fields: relabelling the infos of
   all routes by a function that keeps depth and length relabels the answer and changes nothing else. *)
From Coq Require Import Lia.
From WF Require Import Base.Bytes Base.Utf8 Spec.Route Spec.Walk.
From WF Require Import Proofs.BytesP Proofs.WalkP.

Section M.
  Variable chk : bytes -> bytes -> bool.
  Variable f : info -> info.
  Hypothesis Hdepth : forall i, i_depth (f i) = i_depth i.
  Hypothesis Hlen : forall i, i_length (f i) = i_length i.

  Definition mapf (rs : routes) : routes := map (fun ri : route * info => (fst ri, f (snd ri))) rs.
  Definition resf (r : res) : res := option_map (fun ip : info * params => (f (fst ip), snd ip)) r.

  Lemma better_f a b : better (f a) (f b) = better a b.
  Proof. unfold better. rewrite !Hdepth, !Hlen. reflexivity. Qed.

  Lemma done_mapf rs : done (mapf rs) = resf (done rs).
  Proof.
    unfold done, mapf. rewrite filter_map_map. cbn [fst snd].
    induction rs as [|[r i] rs IH]; [reflexivity|]. cbn [filter_map fst snd].
    destruct r; [reflexivity|exact IH].
  Qed.

  Lemma strip_f b r i : strip b (r, f i) = option_map (fun ri : route * info => (fst ri, f (snd ri))) (strip b (r, i)).
  Proof. unfold strip. cbn [fst snd]. destruct r as [|[x| |] r']; try reflexivity. destruct (N.eqb x b); reflexivity. Qed.

  Lemma strip_mapf b rs : filter_map (strip b) (mapf rs) = mapf (filter_map (strip b) rs).
  Proof.
    unfold mapf. induction rs as [|[r i] rs IH]; [reflexivity|].
    cbn [map filter_map fst snd]. rewrite strip_f. destruct (strip b (r, i)) as [[r' i']|]; cbn [option_map map fst snd]; rewrite IH; reflexivity.
  Qed.

  Definition mapg (gs : list (key * routes)) : list (key * routes) := map (fun kg : key * routes => (fst kg, mapf (snd kg))) gs.

  Lemma ginsert_mapg ky r i gs : ginsert ky (r, f i) (mapg gs) = mapg (ginsert ky (r, i) gs).
  Proof.
    induction gs as [|[k' g] gs IH]; [reflexivity|]. cbn [mapg map ginsert fst snd].
    destruct (kcmp ky k'); [reflexivity|reflexivity|]. cbn [map fst snd]. f_equal. exact IH.
  Qed.

  Lemma key_of_f k r i : key_of k (r, f i) = option_map (fun kx : key * (route * info) => (fst kx, (fst (snd kx), f (snd (snd kx))))) (key_of k (r, i)).
  Proof. unfold key_of. cbn [fst snd]. destruct (classify r) as [[[k' ky] r']|]; [|reflexivity]. destruct (kind_eqb k k'); reflexivity. Qed.

  Lemma groups_mapf k rs : groups k (mapf rs) = mapg (groups k rs).
  Proof.
    unfold groups, mapf. induction rs as [|[r i] rs IH]; [reflexivity|].
    cbn [map filter_map fst snd]. rewrite key_of_f. destruct (key_of k (r, i)) as [[ky [r' i']]|]; cbn [option_map fst snd]; [|exact IH].
    cbn [fold_right fst snd]. rewrite IH. apply ginsert_mapg.
  Qed.

  Lemma pick_mapf (srch : bytes -> res) ky cs :
    pick chk (fun p => resf (srch p)) ky cs = resf (pick chk srch ky cs).
  Proof.
    unfold pick.
    assert (H : forall acc, fold_left (fun (best : res) (c : cand) =>
                  if ok chk ky (fst c) then
                    match resf (srch (snd c)) with
                    | Some (i, ps) => match best with
                                      | Some (bi, _) => if better i bi then Some (i, (fst ky, fst c) :: ps) else best
                                      | None => Some (i, (fst ky, fst c) :: ps)
                                      end
                    | None => best
                    end
                  else best) cs (resf acc)
                = resf (fold_left (fun (best : res) (c : cand) =>
                  if ok chk ky (fst c) then
                    match srch (snd c) with
                    | Some (i, ps) => match best with
                                      | Some (bi, _) => if better i bi then Some (i, (fst ky, fst c) :: ps) else best
                                      | None => Some (i, (fst ky, fst c) :: ps)
                                      end
                    | None => best
                    end
                  else best) cs acc)).
    { induction cs as [|c cs IH]; intros acc; [reflexivity|]. cbn [fold_left]. rewrite <- IH. f_equal.
      destruct (ok chk ky (fst c)); [|reflexivity].
      destruct (srch (snd c)) as [[i ps]|]; [|reflexivity]. cbn [resf option_map fst snd].
      destruct acc as [[bi bps]|]; [|reflexivity]. cbn [resf option_map fst snd]. rewrite better_f.
      destruct (better i bi); reflexivity. }
    apply (H None).
  Qed.

  Lemma first_some_resf {A} (g : A -> res) l : first_some (fun x => resf (g x)) l = resf (first_some g l).
  Proof. induction l as [|x l IH]; [reflexivity|]. cbn [first_some]. destruct (g x) as [[i ps]|]; [reflexivity|exact IH]. Qed.

  Theorem walk_mapf : forall fuel rs p, walk chk fuel (mapf rs) p = resf (walk chk fuel rs p).
  Proof.
    induction fuel as [|fuel IH]; intros rs p; [reflexivity|]. rewrite !walk_S.
    destruct p as [|b rest]; [apply done_mapf|].
    rewrite strip_mapf, IH.
    destruct (walk chk fuel (filter_map (strip b) rs) rest) as [[i ps]|]; [reflexivity|]. cbn [resf option_map or_else].
    rewrite <- first_some_resf. apply first_some_ext. intros k _.
    rewrite groups_mapf. unfold mapg.
    rewrite <- first_some_resf.
    induction (groups k rs) as [|[ky g] gs IHg]; [reflexivity|]. cbn [map first_some fst snd].
    rewrite <- (pick_mapf (walk chk fuel g) ky (cands k (b :: rest))).
    assert (E : pick chk (walk chk fuel (mapf g)) ky (cands k (b :: rest))
                = pick chk (fun p0 => resf (walk chk fuel g p0)) ky (cands k (b :: rest))).
    { apply pick_ext. intros c _. apply IH. }
    rewrite E. destruct (pick chk (fun p0 => resf (walk chk fuel g p0)) ky (cands k (b :: rest))); [reflexivity|exact IHg].
  Qed.

  Corollary W_mapf rs p : W chk (mapf rs) p = resf (W chk rs p).
  Proof. apply walk_mapf. Qed.
End M.
