(* Membership in routes_of, distinctness of the routes of a well-formed tree, and lookup (find). *)
From Coq Require Import Lia Arith PeanoNat Permutation.
From WF Require Import Base.Bytes Base.Utf8 Spec.Route Spec.Walk Model.Tree Model.Ops Spec.Inv.
From WF Require Import Proofs.BytesP Proofs.WalkP Proofs.GroupsP Proofs.RefineP Proofs.InvP Proofs.OptimizeP
     Proofs.OpsLemmasP Proofs.InsertP.

(* ---- membership, by the first atom ---- *)
Lemma in_routes_of n r i :
  In (r, i) (routes_of n) <->
  (r = [] /\ n_data n = Some i)
  \/ (exists kc r', In kc (n_st n) /\ r = map AB (fst (fst kc)) ++ r' /\ In (r', i) (routes_of (snd kc)))
  \/ (exists k kc r', In kc (kids k n) /\ r = head_atom k (fst kc) :: r' /\ In (r', i) (kid_routes k (snd kc))).
Proof.
  rewrite routes_of_eq, !in_app_iff. split.
  - intros [H|[H|H]].
    + left. unfold data_routes in H. destruct (n_data n); [|destruct H]. destruct H as [H|[]]. inversion H; auto.
    + right. left. apply in_static_routes in H. exact H.
    + right. right.
      repeat (destruct H as [H|H]); apply in_kind_routes in H as (kc & r' & Hkc & Hr & Hin);
        [exists KDC|exists KDY|exists KWC|exists KWI|exists KEC|exists KEN]; exists kc, r'; auto.
  - intros [[-> Hd]|[(kc & r' & Hkc & -> & Hin)|(k & kc & r' & Hkc & -> & Hin)]].
    + left. unfold data_routes. rewrite Hd. left; reflexivity.
    + right. left. apply in_static_routes. eauto.
    + right. right.
      assert (H : In (head_atom k (fst kc) :: r', i) (kind_routes k (kids k n))) by (apply in_kind_routes; eauto).
      destruct k; cbn [kids] in H; auto 10.
Qed.

(* the first atom tells which child a route comes from *)
Lemma head_atom_inj k1 ky1 k2 ky2 :
  key_kind_ok k1 ky1 = true -> key_kind_ok k2 ky2 = true ->
  head_atom k1 ky1 = head_atom k2 ky2 -> is_dyn k1 = is_dyn k2 /\ ky1 = ky2.
Proof.
  destruct ky1 as [n1 c1], ky2 as [n2 c2]. unfold key_kind_ok. cbn [snd].
  destruct k1, k2, c1, c2; cbn; try discriminate; intros _ _ H; inversion H; subst; auto.
Qed.

Lemma kind_of_key k1 k2 ky :
  key_kind_ok k1 ky = true -> key_kind_ok k2 ky = true -> is_dyn k1 = is_dyn k2 -> is_end k1 = is_end k2 -> k1 = k2.
Proof.
  destruct ky as [n c]. unfold key_kind_ok. cbn [snd].
  destruct k1, k2, c; cbn; try discriminate; try reflexivity.
Qed.

(* ---- the routes of a well-formed tree are pairwise distinct ---- *)
Lemma NoDup_map_app {A B} (f : A -> B) l1 l2 :
  NoDup (map f l1) -> NoDup (map f l2) -> (forall x y, In x l1 -> In y l2 -> f x <> f y) -> NoDup (map f (l1 ++ l2)).
Proof.
  intros H1 H2 Hd. rewrite map_app. induction l1 as [|x l1 IH]; cbn [map app]; [exact H2|].
  cbn [map] in H1. apply NoDup_cons_iff in H1 as [Hx H1]. constructor.
  - intros Hin. apply in_app_or in Hin as [Hin|Hin]; [contradiction|].
    apply in_map_iff in Hin as (y & Hy & Hin). apply (Hd x y); [left; reflexivity|exact Hin|congruence].
  - apply IH; [exact H1|]. intros a b Ha Hb. apply Hd; [right; exact Ha|exact Hb].
Qed.

Lemma NoDup_flat_map_fst {A} (g : A -> routes) (l : list A) :
  NoDup l -> (forall a, In a l -> NoDup (map fst (g a))) ->
  (forall a b x y, In a l -> In b l -> a <> b -> In x (g a) -> In y (g b) -> fst x <> fst y) ->
  NoDup (map fst (flat_map g l)).
Proof.
  induction l as [|a l IH]; intros Hn Hg Hd; cbn [flat_map]; [constructor|].
  apply NoDup_cons_iff in Hn as [Ha Hn].
  apply NoDup_map_app.
  - apply Hg. left; reflexivity.
  - apply IH; [exact Hn| |].
    + intros b Hb. apply Hg. right; exact Hb.
    + intros b c x y Hb Hc. apply Hd; right; assumption.
  - intros x y Hx Hy. apply in_flat_map in Hy as (b & Hb & Hy).
    apply (Hd a b x y); [left; reflexivity|right; exact Hb| |exact Hx|exact Hy]. intros ->. contradiction.
Qed.

Lemma NoDup_cons_atoms pre rs : NoDup (map fst rs) -> NoDup (map fst (cons_atoms pre rs)).
Proof.
  intros H. assert (E : map fst (cons_atoms pre rs) = map (app pre) (map fst rs)).
  { unfold cons_atoms. rewrite !map_map. reflexivity. }
  rewrite E. apply FinFun.Injective_map_NoDup; [|exact H]. intros a b Hab. apply app_inv_head in Hab. exact Hab.
Qed.

Lemma keys_nodup_NoDup l : keys_nodup l = true -> NoDup l.
Proof.
  intros H. apply keys_nodup_spec in H. eapply NoDup_map_inv. exact H.
Qed.

Lemma static_first_differs l kc1 kc2 :
  static_keys_ok l = true -> In kc1 l -> In kc2 l -> kc1 <> kc2 ->
  exists b1 k1 b2 k2, fst (fst kc1) = b1 :: k1 /\ fst (fst kc2) = b2 :: k2 /\ b1 <> b2.
Proof.
  intros H H1 H2 Hne. apply static_keys_ok_spec in H as [Hg Hd].
  rewrite Forall_forall in Hg. destruct (Hg kc1 H1) as [Hb1 _]. destruct (Hg kc2 H2) as [Hb2 _].
  unfold first_byte in *. destruct (fst (fst kc1)) as [|b1 k1] eqn:E1; [congruence|].
  destruct (fst (fst kc2)) as [|b2 k2] eqn:E2; [congruence|].
  exists b1, k1, b2, k2. repeat split; auto. intros ->.
  (* same first byte at two different positions contradicts NoDup *)
  apply in_split in H1 as (a1 & a2 & ->).
  apply in_app_or in H2 as [H2|[H2|H2]]; [| congruence |].
  - apply in_split in H2 as (c1 & c2 & ->). rewrite !map_app in Hd. cbn [map] in Hd. rewrite <- app_assoc in Hd. cbn [app] in Hd.
    apply NoDup_remove_2 in Hd. apply Hd. apply in_or_app. right. apply in_or_app. right. left.
    unfold first_byte. rewrite E1, E2. reflexivity.
  - rewrite map_app in Hd. cbn [map] in Hd. apply NoDup_remove_2 in Hd. apply Hd. apply in_or_app. right.
    apply in_map_iff. exists kc2. split; [|exact H2]. unfold first_byte. rewrite E1, E2. reflexivity.
Qed.

Theorem routes_nodup : forall n, wf n = true -> NoDup (map fst (routes_of n)).
Proof.
  induction n using node_ind'. intros Hwf.
  set (n := Node d st dc dy wc wi ec en f1 f2 f3) in *.
  pose proof (wf_unpack n Hwf) as W.
  assert (IHst : forall kc, In kc (n_st n) -> NoDup (map fst (routes_of (snd kc)))).
  { intros kc Hkc. unfold AllP in *. rewrite Forall_forall in H. cbn [n n_st] in Hkc. apply (H kc Hkc). apply (wn_static n W kc Hkc). }
  assert (IHk : forall k kc, In kc (kids k n) -> NoDup (map fst (kid_routes k (snd kc)))).
  { intros k kc Hkc. unfold kid_routes. destruct (is_end k) eqn:He.
    - destruct (n_data (snd kc)); cbn; repeat constructor. intros [].
    - destruct (wn_mid n W k kc He Hkc) as (_ & _ & _ & Hw).
      unfold AllP in *. rewrite Forall_forall in *.
      destruct k; try discriminate; cbn [kids n n_dc n_dy n_wc n_wi] in Hkc; eauto. }
  (* each block *)
  assert (Hstatic : NoDup (map fst (static_routes (n_st n)))).
  { unfold static_routes. apply NoDup_flat_map_fst.
    - apply keys_nodup_NoDup. apply static_keys_nodup. apply (wn_static_keys n W).
    - intros kc Hkc. apply NoDup_cons_atoms. apply IHst. exact Hkc.
    - intros a b x y Ha Hb Hab Hx Hy. destruct x as [rx ix], y as [ry iy]. cbn [fst].
      apply in_cons_atoms in Hx as (rx' & -> & _). apply in_cons_atoms in Hy as (ry' & -> & _).
      destruct (static_first_differs _ a b (wn_static_keys n W) Ha Hb Hab) as (b1 & k1 & b2 & k2 & E1 & E2 & Hne).
      rewrite E1, E2. cbn [map app]. intros E. inversion E. contradiction. }
  assert (Hkind : forall k, NoDup (map fst (kind_routes k (kids k n)))).
  { intros k. unfold kind_routes. apply NoDup_flat_map_fst.
    - apply keys_nodup_NoDup. apply (wn_nodup n W k).
    - intros kc Hkc. apply NoDup_cons_atoms. apply IHk. exact Hkc.
    - intros a b x y Ha Hb Hab Hx Hy. destruct x as [rx ix], y as [ry iy]. cbn [fst].
      apply in_cons_atoms in Hx as (rx' & -> & _). apply in_cons_atoms in Hy as (ry' & -> & _).
      cbn [app]. intros E. inversion E as [[Eh Et]].
      apply head_atom_inj in Eh as [_ Ek]; try (apply key_ok_kind; eapply wn_key; eauto).
      (* equal keys in a list without repeated keys: the same element *)
      pose proof (wn_nodup n W k) as Hnd. apply keys_nodup_spec in Hnd.
      apply Hab. clear -Ha Hb Ek Hnd.
      induction (kids k n) as [|z l IHl]; [destruct Ha|].
      cbn [map] in Hnd. apply NoDup_cons_iff in Hnd as [Hz Hnd].
      destruct Ha as [<-|Ha], Hb as [<-|Hb]; auto.
      + exfalso. apply Hz. apply in_map_iff. exists b. auto.
      + exfalso. apply Hz. apply in_map_iff. exists a. auto. }
  (* blocks are pairwise disjoint by their first atom *)
  rewrite routes_of_eq.
  assert (Hhead_data : forall x, In x (data_routes n) -> fst x = []).
  { intros x Hx. unfold data_routes in Hx. destruct (n_data n); [|destruct Hx]. destruct Hx as [<-|[]]. reflexivity. }
  assert (Hhead_static : forall x, In x (static_routes (n_st n)) -> exists b r, fst x = AB b :: r).
  { intros [r i] Hx. apply in_static_routes in Hx as (kc & r' & Hkc & -> & _).
    destruct (static_keys_nonempty _ _ (wn_static_keys n W) Hkc) as (b & k' & -> & _). cbn. eauto. }
  assert (Hhead_kind : forall k x, In x (kind_routes k (kids k n)) ->
            exists kc r', In kc (kids k n) /\ fst x = head_atom k (fst kc) :: r' /\ (is_end k = true -> r' = [])
                          /\ ((k = KWC \/ k = KWI) -> r' <> [])).
  { intros k [r i] Hx. apply in_kind_routes in Hx as (kc & r' & Hkc & -> & Hin). exists kc, r'. repeat split; auto.
    - intros He. eapply kid_routes_end; eauto.
    - intros Hw E. subst r'.
      assert (He : is_end k = false) by (destruct Hw; subst; reflexivity).
      destruct (wn_mid n W k kc He Hkc) as (_ & Hnd & _ & Hw').
      unfold kid_routes in Hin. rewrite He in Hin. apply nil_route_data in Hin.
      + assert (Hdy : is_dyn k = false) by (destruct Hw; subst; reflexivity).
        specialize (Hnd Hdy). unfold has_data in Hnd. rewrite Hin in Hnd. discriminate.
      + apply wf_unpack in Hw'. apply (wn_static_keys _ Hw'). }
  assert (Hdisj : forall k1 k2 x y, k1 <> k2 -> In x (kind_routes k1 (kids k1 n)) -> In y (kind_routes k2 (kids k2 n)) -> fst x <> fst y).
  { intros k1 k2 x y Hne Hx Hy E.
    destruct (Hhead_kind k1 x Hx) as (kc1 & r1 & Hkc1 & E1 & He1 & Hw1).
    destruct (Hhead_kind k2 y Hy) as (kc2 & r2 & Hkc2 & E2 & He2 & Hw2).
    rewrite E1, E2 in E. inversion E as [[Eh Et]].
    pose proof (key_ok_kind _ _ (wn_key n W k1 kc1 Hkc1)) as K1.
    pose proof (key_ok_kind _ _ (wn_key n W k2 kc2 Hkc2)) as K2.
    apply head_atom_inj in Eh as [Hdy Hky]; auto. rewrite Hky in K1.
    apply Hne. apply (kind_of_key k1 k2 (fst kc2)); auto.
    destruct (is_end k1) eqn:Ee1, (is_end k2) eqn:Ee2; try reflexivity.
    - specialize (He1 eq_refl). subst r1. symmetry in Et.
      exfalso. apply Hw2; [|exact Et]. destruct k2; try discriminate; cbn in Hdy; destruct k1; try discriminate; auto.
    - specialize (He2 eq_refl). subst r2.
      exfalso. apply Hw1; [|exact Et]. destruct k1; try discriminate; cbn in Hdy; destruct k2; try discriminate; auto. }
  pose proof (Hkind KDC) as N1. pose proof (Hkind KDY) as N2. pose proof (Hkind KWC) as N3.
  pose proof (Hkind KWI) as N4. pose proof (Hkind KEC) as N5. pose proof (Hkind KEN) as N6.
  cbn [kids] in N1, N2, N3, N4, N5, N6.
  assert (Hk : forall k x, In x (kind_routes k (kids k n)) -> exists a r, fst x = a :: r /\ match a with AB _ => False | _ => True end).
  { intros k x Hx. destruct (Hhead_kind k x Hx) as (kc & r' & _ & E & _). rewrite E. exists (head_atom k (fst kc)), r'. split; [reflexivity|]. destruct k; exact I. }
  assert (Hnd_data : NoDup (map fst (data_routes n))) by (unfold data_routes; destruct (n_data n); cbn; repeat constructor; intros []).
  (* assemble from the right *)
  pose proof (Hdisj KEC KEN) as D56. pose proof (Hdisj KWI) as D4. pose proof (Hdisj KWC) as D3.
  pose proof (Hdisj KDY) as D2. pose proof (Hdisj KDC) as D1. cbn [kids] in *.
  apply NoDup_map_app; [exact Hnd_data| |].
  2:{ intros x y Hx Hy. rewrite (Hhead_data x Hx).
      apply in_app_or in Hy as [Hy|Hy].
      - destruct (Hhead_static y Hy) as (b & r & ->). discriminate.
      - assert (Hy' : exists k, In y (kind_routes k (kids k n))).
        { repeat (apply in_app_or in Hy as [Hy|Hy]); [exists KDC|exists KDY|exists KWC|exists KWI|exists KEC|exists KEN]; exact Hy. }
        destruct Hy' as (k & Hy'). destruct (Hk k y Hy') as (a & r & -> & _). discriminate. }
  apply NoDup_map_app; [exact Hstatic| |].
  2:{ intros x y Hx Hy. destruct (Hhead_static x Hx) as (b & r & ->).
      assert (Hy' : exists k, In y (kind_routes k (kids k n))).
      { repeat (apply in_app_or in Hy as [Hy|Hy]); [exists KDC|exists KDY|exists KWC|exists KWI|exists KEC|exists KEN]; exact Hy. }
      destruct Hy' as (k & Hy'). destruct (Hk k y Hy') as (a & r' & -> & Ha). intros E. inversion E; subst. exact Ha. }
  apply NoDup_map_app; [exact N1| |].
  2:{ intros x y Hx Hy. repeat (apply in_app_or in Hy as [Hy|Hy]);
        [apply (D1 KDY)|apply (D1 KWC)|apply (D1 KWI)|apply (D1 KEC)|apply (D1 KEN)]; auto; discriminate. }
  apply NoDup_map_app; [exact N2| |].
  2:{ intros x y Hx Hy. repeat (apply in_app_or in Hy as [Hy|Hy]);
        [apply (D2 KWC)|apply (D2 KWI)|apply (D2 KEC)|apply (D2 KEN)]; auto; discriminate. }
  apply NoDup_map_app; [exact N3| |].
  2:{ intros x y Hx Hy. repeat (apply in_app_or in Hy as [Hy|Hy]);
        [apply (D3 KWI)|apply (D3 KEC)|apply (D3 KEN)]; auto; discriminate. }
  apply NoDup_map_app; [exact N4| |].
  2:{ intros x y Hx Hy. repeat (apply in_app_or in Hy as [Hy|Hy]);
        [apply (D4 KEC)|apply (D4 KEN)]; auto; discriminate. }
  apply NoDup_map_app; [exact N5|exact N6|].
  intros x y Hx Hy. apply D56; auto. discriminate.
Qed.

(* ---- find = membership ---- *)
Lemma find_node_S f n ps :
  find_node (S f) n ps =
  match ps with
  | [] => n_data n
  | PS p :: ps' => find_static f n p ps'
  | p :: ps' =>
    match part_kind p ps' with
    | None => None
    | Some (k, ky) =>
      match List.find (fun kc : key * node => keqb (fst kc) ky) (kids k n) with
      | Some kc => find_node f (snd kc) ps'
      | None => None
      end
    end
  end.
Proof. reflexivity. Qed.

Definition find_step (f : nat) (p : bytes) (ps : list part) (kc : key * node) : option (option info) :=
  let k := fst (fst kc) in
  if same_first k p then
    let cp := lcp p k in
    if Nat.leb (length k) cp then
      if Nat.leb (length p) cp then Some (find_node f (snd kc) ps)
      else Some (find_static f (snd kc) (skipn cp p) ps)
    else None
  else None.

Lemma find_static_S f n p ps :
  find_static (S f) n p ps =
  match first_some (find_step f p ps) (n_st n) with Some x => x | None => None end.
Proof. reflexivity. Qed.

Lemma lcp_full_prefix p k : length k <= lcp p k -> p = k ++ skipn (lcp p k) p /\ lcp p k = length k.
Proof.
  intros H. destruct (lcp_le p k) as [_ H2]. assert (E : lcp p k = length k) by lia. split; [|exact E].
  pose proof (lcp_firstn p k) as Hf. rewrite E in *. rewrite (firstn_all k) in Hf.
  rewrite <- Hf at 1. symmetry. apply firstn_skipn.
Qed.

Lemma lcp_not_prefix p k : lcp p k < length k -> forall rest, p <> k ++ rest.
Proof.
  intros H rest ->. revert H. induction k as [|x k IH]; cbn; [lia|]. rewrite N.eqb_refl. cbn. intros H. apply IH. lia.
Qed.

Lemma find_some_in {A} (f : A -> bool) l x : List.find f l = Some x -> In x l /\ f x = true.
Proof. apply find_some. Qed.

Lemma atoms_of_cons p ps : atoms_of (p :: ps) = atoms_of_part p ++ atoms_of ps.
Proof. reflexivity. Qed.

Lemma parts_wf_atoms_nonempty b ps : parts_wf b ps = true -> ps <> [] -> atoms_of ps <> [].
Proof.
  destruct ps as [|[s|n c|n c] ps]; [congruence| | |]; cbn [parts_wf]; intros H _; rewrite atoms_of_cons; cbn [atoms_of_part].
  - apply andb_true_iff in H as [H _]. destruct s; [discriminate|]. discriminate.
  - discriminate.
  - discriminate.
Qed.

Lemma map_AB_app_inv a b r1 r2 :
  map AB a ++ r1 = map AB b ++ r2 -> length a <= length b -> exists c, b = a ++ c /\ r1 = map AB c ++ r2.
Proof.
  revert b; induction a as [|x a IH]; intros b H Hl; cbn [map app] in *; [exists b; auto|].
  destruct b as [|y b]; [cbn in Hl; lia|]. cbn [map app] in H. inversion H; subst.
  destruct (IH b H2) as (c & -> & ->); [cbn in Hl; lia|]. exists c. auto.
Qed.

(* no two literal parts in a row (the parser merges literal text into one part) *)
Fixpoint parts_norm (ps : list part) : bool :=
  match ps with
  | PS _ :: ((PS _ :: _) as r) => false
  | _ :: r => parts_norm r
  | [] => true
  end.
Definition no_ps_head (ps : list part) : bool := match ps with PS _ :: _ => false | _ => true end.

Lemma parts_norm_tail p ps : parts_norm (p :: ps) = true -> parts_norm ps = true.
Proof. destruct p, ps as [|[| |] ps]; cbn; auto; discriminate. Qed.
Lemma parts_norm_ps s ps : parts_norm (PS s :: ps) = true -> no_ps_head ps = true.
Proof. destruct ps as [|[| |] ps]; cbn; auto. Qed.

Lemma atoms_no_ps_head b ps : no_ps_head ps = true -> parts_wf b ps = true ->
  forall x r, atoms_of ps <> AB x :: r.
Proof.
  destruct ps as [|[s|n c|n c] ps]; cbn [no_ps_head]; try discriminate; intros _ _ x r; rewrite ?atoms_of_cons; cbn; discriminate.
Qed.

Lemma find_unique_key l kc : keys_nodup l = true -> In kc l -> List.find (fun x : key * node => keqb (fst x) (fst kc)) l = Some kc.
Proof.
  induction l as [|y l IH]; intros Hn Hin; [destruct Hin|]. cbn [keys_nodup] in Hn. apply andb_true_iff in Hn as [Hy Hn].
  cbn [find]. destruct Hin as [->|Hin].
  - rewrite keqb_refl. reflexivity.
  - destruct (keqb (fst y) (fst kc)) eqn:E.
    + exfalso. apply negb_true_iff in Hy. rewrite <- not_true_iff_false in Hy. apply Hy.
      apply existsb_exists. exists kc. split; [exact Hin|exact E].
    + apply IH; assumption.
Qed.

Lemma first_some_split {A B} (f : A -> option B) a x b :
  (forall y, In y a -> f y = None) -> (forall y, In y b -> f y = None) -> first_some f (a ++ x :: b) = f x.
Proof.
  intros Ha Hb. rewrite first_some_app. cbn [first_some].
  rewrite (proj2 (first_some_none f a) Ha). cbn [or_else].
  destruct (f x); [reflexivity|]. apply first_some_none. exact Hb.
Qed.

Lemma NoDup_split_neq {A} (a : list A) x b y : NoDup (a ++ x :: b) -> In y a \/ In y b -> y <> x.
Proof.
  intros Hn Hy ->. apply NoDup_remove_2 in Hn. apply Hn. apply in_or_app. exact Hy.
Qed.

(* ---- parameter step of find ---- *)
Lemma find_param_case f
  (IHn : forall n ps i b, parts_size ps < f -> wf n = true -> parts_wf b ps = true -> parts_norm ps = true ->
           (find_node f n ps = Some i <-> In (atoms_of ps, i) (routes_of n)))
  n ps' i k ky :
  parts_size ps' < f -> wf n = true -> key_kind_ok k ky = true ->
  parts_wf true ps' = true -> parts_norm ps' = true ->
  (is_end k = true -> ps' = []) -> (is_end k = false -> is_dyn k = false -> ps' <> []) ->
  (match List.find (fun kc : key * node => keqb (fst kc) ky) (kids k n) with
   | Some kc => find_node f (snd kc) ps'
   | None => None
   end = Some i
   <-> In (head_atom k ky :: atoms_of ps', i) (routes_of n)).
Proof.
  intros Hfuel Hwf Hkk Hps Hnorm Hend Hwild.
  pose proof (wf_unpack n Hwf) as W.
  assert (Hf1 : 1 <= f) by (destruct ps' as [|[?|? ?|? ?] ?]; cbn in Hfuel; lia).
  assert (Hchild : forall kc, In kc (kids k n) ->
            (find_node f (snd kc) ps' = Some i <-> In (atoms_of ps', i) (kid_routes k (snd kc)))).
  { intros kc Hkc. unfold kid_routes. destruct (is_end k) eqn:He.
    - rewrite (Hend eq_refl). destruct f as [|f']; [lia|]. rewrite find_node_S. cbn [atoms_of flat_map].
      destruct (n_data (snd kc)) as [d|]; split; intros Hx.
      + inversion Hx; subst. left; reflexivity.
      + destruct Hx as [Hx|[]]. inversion Hx; reflexivity.
      + discriminate.
      + destruct Hx.
    - destruct (wn_mid n W k kc He Hkc) as (_ & _ & _ & Hw). apply (IHn (snd kc) ps' i true); auto. }
  split.
  - destruct (List.find _ (kids k n)) as [kc|] eqn:Ef; [|discriminate]. intros Hfn.
    apply find_some in Ef as [Hkc Hk]. apply keqb_eq in Hk. subst ky.
    apply in_routes_of. right. right. exists k, kc, (atoms_of ps'). repeat split; auto.
    apply Hchild; assumption.
  - intros Hin. apply in_routes_of in Hin as [[E _]|[(kc & r' & Hkc & E & _)|(k2 & kc & r' & Hkc & E & Hr)]].
    + discriminate.
    + destruct (static_keys_nonempty _ _ (wn_static_keys n W) Hkc) as (b & k' & Hk & _). rewrite Hk in E.
      cbn in E. destruct k; discriminate.
    + inversion E as [[Eh Et]]. subst r'.
      pose proof (key_ok_kind _ _ (wn_key n W k2 kc Hkc)) as Hk2.
      apply head_atom_inj in Eh as [Hdy Hky]; auto. subst ky.
      assert (k = k2).
      { apply (kind_of_key k k2 (fst kc)); auto.
        destruct (is_end k) eqn:Ee1, (is_end k2) eqn:Ee2; try reflexivity.
        - (* k end, k2 mid wildcard: the rest is empty, but a mid wildcard node has no data *)
          exfalso. rewrite (Hend eq_refl) in Hr. cbn [atoms_of flat_map] in Hr.
          unfold kid_routes in Hr. rewrite Ee2 in Hr.
          destruct (wn_mid n W k2 kc Ee2 Hkc) as (_ & Hnd & _ & Hw).
          apply nil_route_data in Hr; [|apply wf_unpack in Hw; apply (wn_static_keys _ Hw)].
          assert (Hd2 : is_dyn k2 = false) by (destruct k, k2; cbn in *; congruence).
          specialize (Hnd Hd2). unfold has_data in Hnd. rewrite Hr in Hnd. discriminate.
        - exfalso. apply kid_routes_end in Hr; [|exact Ee2].
          assert (Hd1 : is_dyn k = false) by (destruct k, k2; cbn in *; congruence).
          apply (parts_wf_atoms_nonempty true ps' Hps); [apply Hwild; auto|exact Hr]. }
      subst k2. rewrite (find_unique_key _ kc (wn_nodup n W k) Hkc). apply Hchild; assumption.
Qed.

(* ---- literal step of find ---- *)
Lemma lcp_prefix k c : lcp (k ++ c) k = length k.
Proof. induction k as [|x k IH]; cbn; [destruct c; reflexivity|]. rewrite N.eqb_refl, IH. reflexivity. Qed.

Lemma find_static_case f
  (IHn : forall n ps i b, parts_size ps < f -> wf n = true -> parts_wf b ps = true -> parts_norm ps = true ->
           (find_node f n ps = Some i <-> In (atoms_of ps, i) (routes_of n)))
  (IHs : forall n p ps i, length p + parts_size ps < f -> p <> [] -> wf n = true -> parts_wf false ps = true ->
           parts_norm ps = true -> no_ps_head ps = true ->
           (find_static f n p ps = Some i <-> In (map AB p ++ atoms_of ps, i) (routes_of n))) :
  forall n p ps i, length p + parts_size ps < S f -> p <> [] -> wf n = true -> parts_wf false ps = true ->
    parts_norm ps = true -> no_ps_head ps = true ->
    (find_static (S f) n p ps = Some i <-> In (map AB p ++ atoms_of ps, i) (routes_of n)).
Proof.
  intros n p ps i Hfuel Hp Hwf Hps Hnorm Hhead. rewrite find_static_S.
  pose proof (wf_unpack n Hwf) as W.
  assert (Hlenp : 1 <= length p) by (destruct p; [congruence|cbn; lia]).
  assert (Hpsz : 1 <= parts_size ps) by (destruct ps as [|[?|? ?|? ?] ?]; cbn; lia).
  (* what one child contributes *)
  assert (Hstep : forall kc, In kc (n_st n) -> forall c0, p = fst (fst kc) ++ c0 ->
            (find_step f p ps kc = Some (Some i) <-> In (map AB c0 ++ atoms_of ps, i) (routes_of (snd kc)))
            /\ (forall x, find_step f p ps kc = Some x ->
                 x = if Nat.eqb (length c0) 0 then find_node f (snd kc) ps else find_static f (snd kc) c0 ps)).
  { intros kc Hkc c0 Hpc. unfold find_step.
    destruct (static_keys_nonempty _ _ (wn_static_keys n W) Hkc) as (b0 & k' & Hk & _).
    destruct (wn_static n W kc Hkc) as [_ Hwc].
    set (k := fst (fst kc)) in *.
    assert (Hsf : same_first k p = true) by (rewrite Hpc, Hk; cbn; apply N.eqb_refl).
    assert (Hlcp : lcp p k = length k) by (rewrite Hpc; apply lcp_prefix).
    assert (Hlen : length p = length k + length c0) by (rewrite Hpc, app_length; reflexivity).
    assert (Hk1 : 1 <= length k) by (rewrite Hk; cbn; lia).
    assert (Hskip : skipn (length k) p = c0) by (rewrite Hpc, skipn_app, skipn_all, Nat.sub_diag; reflexivity).
    rewrite Hsf, Hlcp, Nat.leb_refl, Hskip.
    destruct c0 as [|y c0].
    - assert (Hle : Nat.leb (length p) (length k) = true) by (apply Nat.leb_le; cbn [length] in Hlen; lia).
      rewrite Hle. cbn [map app length Nat.eqb]. split.
      + split; intros Hx.
        * inversion Hx as [Hy]. apply (IHn (snd kc) ps i false); auto. lia.
        * f_equal. apply (IHn (snd kc) ps i false); auto. lia.
      + intros x Hx. inversion Hx. reflexivity.
    - assert (Hgt : Nat.leb (length p) (length k) = false) by (apply Nat.leb_gt; cbn [length] in Hlen; lia).
      rewrite Hgt. cbn [length Nat.eqb].
      split.
      + assert (Hfu : length (y :: c0) + parts_size ps < f) by (cbn [length] in *; lia).
        split; intros Hx.
        * inversion Hx as [Hy]. apply (IHs (snd kc) (y :: c0) ps i); auto. discriminate.
        * f_equal. apply (IHs (snd kc) (y :: c0) ps i); auto. discriminate.
      + intros x Hx. inversion Hx. reflexivity. }
  split.
  - intros H. destruct (first_some (find_step f p ps) (n_st n)) as [x|] eqn:Ef; [|discriminate]. subst x.
    apply first_some_some in Ef as (kc & Hkc & Hfs).
    (* the child that answered has its whole prefix in front of p *)
    assert (Hpre : exists c0, p = fst (fst kc) ++ c0).
    { unfold find_step in Hfs. destruct (same_first (fst (fst kc)) p); [|discriminate].
      destruct (Nat.leb (length (fst (fst kc))) (lcp p (fst (fst kc)))) eqn:El; [|discriminate].
      apply Nat.leb_le in El. apply lcp_full_prefix in El as [Hx _]. eauto. }
    destruct Hpre as (c0 & Hpc).
    apply (proj1 (Hstep kc Hkc c0 Hpc)) in Hfs.
    apply in_routes_of. right. left. exists kc, (map AB c0 ++ atoms_of ps). repeat split; auto.
    rewrite Hpc, map_app, <- app_assoc. reflexivity.
  - intros Hin. apply in_routes_of in Hin as [[E _]|[(kc & r' & Hkc & E & Hr)|(k2 & kc & r' & _ & E & _)]].
    + destruct p; [congruence|discriminate].
    + destruct (static_keys_nonempty _ _ (wn_static_keys n W) Hkc) as (b0 & k' & Hk & _).
      (* compare the lengths of p and the child's prefix *)
      destruct (Nat.le_gt_cases (length (fst (fst kc))) (length p)) as [Hle|Hgt].
      * symmetry in E. destruct (map_AB_app_inv _ _ _ _ E Hle) as (c0 & Hpc & Hr').
        subst r'.
        apply in_split in Hkc as Hsplit. destruct Hsplit as (a & b & Hl).
        assert (Hothers : forall y, In y a \/ In y b -> find_step f p ps y = None).
        { intros y Hy. unfold find_step.
          assert (Hyin : In y (n_st n)) by (rewrite Hl; destruct Hy; apply in_or_app; [left|right; right]; assumption).
          assert (Hneq : y <> kc).
          { apply (NoDup_split_neq a kc b); [|exact Hy]. rewrite <- Hl. apply keys_nodup_NoDup. apply static_keys_nodup. apply (wn_static_keys n W). }
          destruct (static_first_differs _ y kc (wn_static_keys n W) Hyin Hkc Hneq) as (b1 & k1 & b2 & k2 & E1 & E2 & Hne).
          rewrite E1. rewrite Hpc, E2. cbn. destruct (N.eqb_spec b1 b2); [contradiction|reflexivity]. }
        rewrite Hl, first_some_split; [|intros y Hy; apply Hothers; left; exact Hy|intros y Hy; apply Hothers; right; exact Hy].
        destruct (find_step f p ps kc) as [x|] eqn:Efs.
        -- destruct (Hstep kc Hkc c0 Hpc) as [Hiff _].
           destruct x as [i'|].
           ++ (* the answer is the info at that route; it must be i by the iff *)
              pose proof (proj2 Hiff Hr) as Hx. congruence.
           ++ pose proof (proj2 Hiff Hr) as Hx. congruence.
        -- pose proof (proj2 (proj1 (Hstep kc Hkc c0 Hpc)) Hr) as Hx. congruence.
      * (* the child's prefix is longer than p: the rest of the route would start with a literal *)
        exfalso. assert (Hle : length p <= length (fst (fst kc))) by lia.
        destruct (map_AB_app_inv _ _ _ _ E Hle) as (c0 & Hkc0 & Hat).
        destruct c0 as [|y c0]; [rewrite app_nil_r in Hkc0; rewrite Hkc0 in Hgt; lia|].
        cbn [map app] in Hat. eapply atoms_no_ps_head; eauto.
    + destruct p as [|y p]; [congruence|]. cbn in E. destruct k2; discriminate.
Qed.

Lemma find_ok : forall fuel,
  (forall n ps i b, parts_size ps < fuel -> wf n = true -> parts_wf b ps = true -> parts_norm ps = true ->
     (find_node fuel n ps = Some i <-> In (atoms_of ps, i) (routes_of n)))
  /\ (forall n p ps i, length p + parts_size ps < fuel -> p <> [] -> wf n = true -> parts_wf false ps = true ->
     parts_norm ps = true -> no_ps_head ps = true ->
     (find_static fuel n p ps = Some i <-> In (map AB p ++ atoms_of ps, i) (routes_of n))).
Proof.
  induction fuel as [|f [IHn IHs]]; [split; intros; lia|].
  split.
  - intros n ps i b Hfuel Hwf Hps Hnorm. rewrite find_node_S.
    pose proof (wf_unpack n Hwf) as W.
    destruct ps as [|p0 ps'].
    + cbn [atoms_of flat_map]. split.
      * intros H. apply in_routes_data. exact H.
      * intros H. apply nil_route_data; [apply (wn_static_keys n W)|exact H].
    + rewrite atoms_of_cons.
      destruct p0 as [s|nm c|nm c]; cbn [atoms_of_part parts_wf parts_size] in *.
      * apply andb_true_iff in Hps as [Hs Hps]. apply IHs; auto; [lia|destruct s; discriminate|eapply parts_norm_tail; eauto|eapply parts_norm_ps; eauto].
      * apply andb_true_iff in Hps as [Hps Hrest]. apply andb_true_iff in Hps as [_ Hname].
        destruct (part_kind (PD nm c) ps') as [[k ky]|] eqn:Epk; [|destruct c; discriminate].
        destruct (part_kind_dyn _ _ _ _ _ Epk) as (-> & Hkk & He & Hdy).
        assert (Ha : AD nm c = head_atom k (nm, c)) by (destruct k; try discriminate; reflexivity).
        rewrite Ha. apply (find_param_case f IHn n ps' i k (nm, c));
          [lia|exact Hwf|exact Hkk|exact Hrest|eapply parts_norm_tail; eauto|intros Hx; congruence|intros _ Hx; congruence].
      * apply andb_true_iff in Hps as [Hps Hrest]. apply andb_true_iff in Hps as [_ Hname].
        destruct (part_kind (PW nm c) ps') as [[k ky]|] eqn:Epk; [|destruct c, ps'; discriminate].
        destruct (part_kind_wild _ _ _ _ _ Epk) as (-> & Hkk & Hdy & Hne).
        assert (Hend : is_end k = true -> ps' = []) by (intros Hx; destruct c, ps'; inversion Epk; subst; try discriminate; reflexivity).
        assert (Ha : AW nm c = head_atom k (nm, c)) by (destruct k; try discriminate; reflexivity).
        rewrite Ha. apply (find_param_case f IHn n ps' i k (nm, c));
          [lia|exact Hwf|exact Hkk|exact Hrest|eapply parts_norm_tail; eauto|exact Hend|intros Hx _; apply Hne; exact Hx].
  - apply (find_static_case f IHn IHs).
Qed.
