(* One expansion: the cursor-based parser model (parse_template) computes exactly the documented
   well-formedness and decoding (Spec/Grammar.v wellformed_exp), for every valid UTF-8 text. *)
From Coq Require Import Lia Arith PeanoNat ZArith.
From WF Require Import Base.Bytes Base.Utf8 Spec.Route Spec.Grammar Model.Parser.
From WF Require Import Proofs.BytesP Proofs.ParserPartsP Proofs.ParserSafeP.

Definition to_opt {A} (m : out A) : option A := match m with Ret a => Some a | _ => None end.

(* ---- lists and indices ---- *)
Lemma skipn_nth_cons {A} (l : list A) n x : nth_error l n = Some x -> skipn n l = x :: skipn (S n) l.
Proof.
  revert n. induction l as [|y l IH]; intros [|n] H; cbn in *; try discriminate.
  - inversion H. reflexivity.
  - apply IH. exact H.
Qed.

Lemma skipn_nth_nil {A} (l : list A) n : nth_error l n = None -> skipn n l = [].
Proof. intros H. apply skipn_all2. apply nth_error_None. exact H. Qed.

Lemma nth_error_skipn_hd {A} (l : list A) n : nth_error l n = hd_error (skipn n l).
Proof. revert n. induction l as [|y l IH]; intros [|n]; cbn; auto. Qed.

Lemma skipn_skipn' {A} (l : list A) a b : skipn a (skipn b l) = skipn (b + a) l.
Proof. revert l. induction b as [|b IH]; intros l; [reflexivity|]. destruct l; [rewrite !skipn_nil; reflexivity|]. cbn. apply IH. Qed.

(* ---- UTF-8: cutting a valid text before an ASCII byte leaves two valid texts ---- *)
Local Open Scope N_scope.
Lemma cont_not_ascii c : c <=? 127 = true -> cont c = false.
Proof. unfold cont, inr. intros H. apply N.leb_le in H. destruct (128 <=? c) eqn:E; [apply N.leb_le in E; lia|reflexivity]. Qed.
Lemma inr_not_ascii lo hi c : 128 <= lo -> c <=? 127 = true -> inr lo hi c = false.
Proof. unfold inr. intros Hlo H. apply N.leb_le in H. destruct (lo <=? c) eqn:E; [apply N.leb_le in E; lia|reflexivity]. Qed.
Local Close Scope N_scope.

Lemma utf8_split_ascii : forall n a c b,
  length a <= n -> N.leb c 127 = true -> utf8_valid (a ++ c :: b) = true ->
  utf8_valid a = true /\ utf8_valid b = true.
Proof.
  induction n as [|n IH]; intros a c b Hlen Hc H.
  - destruct a; [|cbn in Hlen; lia]. cbn [app utf8_valid] in H. rewrite Hc in H. auto.
  - destruct a as [|b0 r]; [cbn [app utf8_valid] in H; rewrite Hc in H; auto|].
    cbn [app] in H. cbn [utf8_valid] in *. cbn [length] in Hlen.
    destruct (N.leb b0 127); [apply (IH r c b); [lia|exact Hc|exact H]|].
    pose proof (cont_not_ascii c Hc) as Hcc.
    destruct (inr 194 223 b0).
    { destruct r as [|b1 r']; cbn [app] in H.
      - rewrite Hcc in H. discriminate H.
      - apply andb_true_iff in H as [H1 H]. rewrite H1. cbn [andb]. cbn [length] in Hlen. apply (IH r' c b); [lia|exact Hc|exact H]. }
    destruct (inr 224 239 b0).
    { destruct r as [|b1 [|b2 r']]; cbn [app] in H.
      - destruct b as [|x b']; [discriminate H|].
        apply andb_true_iff in H as [H _]. apply andb_true_iff in H as [H _].
        destruct (N.eqb b0 224); [rewrite (inr_not_ascii 160 191 c) in H by (lia || exact Hc); discriminate H|].
        destruct (N.eqb b0 237); [rewrite (inr_not_ascii 128 159 c) in H by (lia || exact Hc); discriminate H|].
        rewrite Hcc in H. discriminate H.
      - apply andb_true_iff in H as [H _]. apply andb_true_iff in H as [_ H]. rewrite Hcc in H. discriminate H.
      - apply andb_true_iff in H as [H12 H]. rewrite H12. cbn [andb]. cbn [length] in Hlen. apply (IH r' c b); [lia|exact Hc|exact H]. }
    destruct (inr 240 244 b0); [|discriminate].
    destruct r as [|b1 [|b2 [|b3 r']]]; cbn [app] in H.
    + destruct b as [|x [|y b']]; [discriminate H|discriminate H|].
      apply andb_true_iff in H as [H _]. apply andb_true_iff in H as [H _]. apply andb_true_iff in H as [H _].
      destruct (N.eqb b0 240); [rewrite (inr_not_ascii 144 191 c) in H by (lia || exact Hc); discriminate H|].
      destruct (N.eqb b0 244); [rewrite (inr_not_ascii 128 143 c) in H by (lia || exact Hc); discriminate H|].
      rewrite Hcc in H. discriminate H.
    + destruct b as [|y b']; [discriminate H|].
      apply andb_true_iff in H as [H _]. apply andb_true_iff in H as [H _]. apply andb_true_iff in H as [_ H]. rewrite Hcc in H. discriminate H.
    + apply andb_true_iff in H as [H _]. apply andb_true_iff in H as [_ H]. rewrite Hcc in H. discriminate H.
    + apply andb_true_iff in H as [H123 H]. rewrite H123. cbn [andb]. cbn [length] in Hlen. apply (IH r' c b); [lia|exact Hc|exact H].
Qed.

Lemma utf8_cut a c b : N.leb c 127 = true -> utf8_valid (a ++ c :: b) = true -> utf8_valid a = true /\ utf8_valid b = true.
Proof. apply (utf8_split_ascii (length a)). lia. Qed.

(* ---- literal text ---- *)
Lemma static_text_S f s :
  static_text (S f) s =
  match s with
  | [] => ([], [])
  | c :: s' =>
    if N.eqb c BSL then
      match s' with
      | x :: s'' => let '(a, r) := static_text f s'' in (x :: a, r)
      | [] => ([BSL], [])
      end
    else if (N.eqb c LB || N.eqb c RB)%bool then ([], s)
    else let '(a, r) := static_text f s' in (c :: a, r)
  end.
Proof. reflexivity. Qed.

Lemma static_part_S steps raw en acc :
  static_part (S steps) raw en acc =
  if Nat.ltb en (length raw) then
    do c <- idx raw en 10;
    if N.eqb c BSL then
      match nth_error raw (S en) with
      | Some nx => static_part steps raw (en + 2) (acc ++ [nx])
      | None => static_part steps raw (en + 1) (acc ++ [BSL])
      end
    else if (N.eqb c LB || N.eqb c RB)%bool then Ret (acc, en)
    else static_part steps raw (en + 1) (acc ++ [c])
  else Ret (acc, en).
Proof. reflexivity. Qed.

Lemma idx_nth (raw : bytes) en site c : nth_error raw en = Some c -> idx raw en site = Ret c.
Proof. unfold idx. intros ->. reflexivity. Qed.

Lemma static_part_spec : forall steps fuel (raw : bytes) en acc,
  en <= length raw -> length raw - en < steps -> length raw - en < fuel ->
  exists e, static_part steps raw en acc = Ret (acc ++ fst (static_text fuel (skipn en raw)), e)
            /\ snd (static_text fuel (skipn en raw)) = skipn e raw /\ en <= e /\ e <= length raw.
Proof.
  induction steps as [|steps IH]; intros fuel raw en acc Hen Hs Hf; [lia|].
  destruct fuel as [|f]; [lia|]. rewrite static_part_S, static_text_S.
  destruct (nth_error raw en) as [c|] eqn:En.
  - assert (Hlt : en < length raw) by (apply nth_error_Some; congruence).
    rewrite (proj2 (Nat.ltb_lt _ _) Hlt). rewrite (idx_nth raw en 10 c En). cbn [bind].
    rewrite (skipn_nth_cons raw en c En).
    destruct (N.eqb c BSL).
    + destruct (nth_error raw (S en)) as [x|] eqn:En1.
      * assert (S en < length raw) by (apply nth_error_Some; congruence).
        rewrite (skipn_nth_cons raw (S en) x En1).
        destruct (IH f raw (en + 2) (acc ++ [x])) as (e & He & Hr & H1 & H2); [lia|lia|lia|].
        replace (S (S en)) with (en + 2) by lia.
        destruct (static_text f (skipn (en + 2) raw)) as [a r] eqn:Est. cbn [fst snd] in *.
        exists e. rewrite He, <- app_assoc. repeat split; auto; lia.
      * rewrite (skipn_nth_nil raw (S en) En1).
        assert (Hl : S en = length raw) by (apply nth_error_None in En1; lia).
        destruct (IH 1 raw (en + 1) (acc ++ [BSL])) as (e & He & Hr & H1 & H2); [lia|lia|lia|].
        replace (skipn (en + 1) raw) with (@nil byte) in He, Hr by (symmetry; apply skipn_all2; lia).
        cbn [static_text fst snd] in He, Hr. rewrite app_nil_r in He.
        exists e. cbn [fst snd]. rewrite He. repeat split; auto; lia.
    + destruct (N.eqb c LB || N.eqb c RB)%bool.
      * exists en. cbn [fst snd]. rewrite app_nil_r. repeat split; auto. symmetry. apply skipn_nth_cons. exact En.
      * destruct (IH f raw (en + 1) (acc ++ [c])) as (e & He & Hr & H1 & H2); [lia|lia|lia|].
        replace (S en) with (en + 1) by lia.
        destruct (static_text f (skipn (en + 1) raw)) as [a r] eqn:Est. cbn [fst snd] in *.
        exists e. rewrite He, <- app_assoc. repeat split; auto; lia.
  - assert (Hge : length raw <= en) by (apply nth_error_None; exact En).
    rewrite (proj2 (Nat.ltb_ge _ _) Hge). rewrite (skipn_nth_nil raw en En). cbn [fst snd].
    exists en. rewrite app_nil_r. repeat split; auto. symmetry. apply skipn_all2. lia.
Qed.

(* ---- brace pairs ---- *)
Lemma brace_scan_S steps raw en count :
  brace_scan (S steps) raw en count =
  if Nat.ltb en (length raw) then
    do c <- idx raw en 20;
    if N.eqb c LB then brace_scan steps raw (S en) (S count)
    else if N.eqb c RB then
      do count' <- subn count 1 21;
      if Nat.eqb count' 0 then Ret (en, 0) else brace_scan steps raw (S en) count'
    else brace_scan steps raw (S en) count
  else Ret (en, count).
Proof. reflexivity. Qed.

Lemma brace_content_cons c s' depth :
  brace_content (c :: s') depth =
  if N.eqb c RB then
    match depth with
    | O => Some ([], s')
    | S d => match brace_content s' d with Some (a, r) => Some (c :: a, r) | None => None end
    end
  else
    match brace_content s' (if N.eqb c LB then S depth else depth) with
    | Some (a, r) => Some (c :: a, r)
    | None => None
    end.
Proof. reflexivity. Qed.

Lemma LB_not_RB : N.eqb LB RB = false.  Proof. reflexivity. Qed.

Lemma brace_scan_spec : forall steps (raw : bytes) en count,
  1 <= count -> en <= length raw -> length raw - en < steps ->
  match brace_content (skipn en raw) (count - 1) with
  | Some (content, rest) =>
    exists e, brace_scan steps raw en count = Ret (e, 0) /\ en <= e /\ e < length raw
              /\ skipn en raw = content ++ RB :: rest /\ length content = e - en
  | None => exists e c', brace_scan steps raw en count = Ret (e, c') /\ c' <> 0
  end.
Proof.
  induction steps as [|steps IH]; intros raw en count Hc Hen Hs; [lia|]. rewrite brace_scan_S.
  destruct (nth_error raw en) as [c|] eqn:En.
  - assert (Hlt : en < length raw) by (apply nth_error_Some; congruence).
    rewrite (proj2 (Nat.ltb_lt _ _) Hlt). rewrite (idx_nth raw en 20 c En). cbn [bind].
    rewrite (skipn_nth_cons raw en c En), brace_content_cons.
    destruct (N.eqb c RB) eqn:ERB.
    + assert (c = RB) by (apply N.eqb_eq; exact ERB). subst c. change (N.eqb RB LB) with false. cbv iota.
      rewrite (subn_ok count 1 21 Hc). cbn [bind].
      destruct (count - 1) as [|d] eqn:Ed.
      * cbn [Nat.eqb]. exists en. repeat split; auto; try lia. cbn [length]. lia.
      * cbn [Nat.eqb]. specialize (IH raw (S en) (S d)). replace (S d - 1) with d in IH by lia.
        destruct (brace_content (skipn (S en) raw) d) as [[a r]|].
        -- destruct IH as (e & He & H1 & H2 & H3 & H4); [lia|lia|lia|].
           exists e. rewrite He. repeat split; auto; try lia. { rewrite H3. reflexivity. } cbn [length]. lia.
        -- destruct IH as (e & c' & He & Hne); [lia|lia|lia|]. exists e, c'. auto.
    + destruct (N.eqb c LB) eqn:ELB.
      * specialize (IH raw (S en) (S count)). replace (S count - 1) with (S (count - 1)) in IH by lia.
        destruct (brace_content (skipn (S en) raw) (S (count - 1))) as [[a r]|].
        -- destruct IH as (e & He & H1 & H2 & H3 & H4); [lia|lia|lia|].
           exists e. rewrite He. repeat split; auto; try lia. { rewrite H3. reflexivity. } cbn [length]. lia.
        -- destruct IH as (e & c' & He & Hne); [lia|lia|lia|]. exists e, c'. auto.
      * specialize (IH raw (S en) count).
        destruct (brace_content (skipn (S en) raw) (count - 1)) as [[a r]|].
        -- destruct IH as (e & He & H1 & H2 & H3 & H4); [lia|lia|lia|].
           exists e. rewrite He. repeat split; auto; try lia. { rewrite H3. reflexivity. } cbn [length]. lia.
        -- destruct IH as (e & c' & He & Hne); [lia|lia|lia|]. exists e, c'. auto.
  - assert (Hge : length raw <= en) by (apply nth_error_None; exact En).
    rewrite (proj2 (Nat.ltb_ge _ _) Hge). rewrite (skipn_nth_nil raw en En). cbn [brace_content].
    exists en, count. split; [reflexivity|lia].
Qed.

(* ---- the colon ---- *)
Lemma find_colon_split s :
  match find_colon s with
  | Some cp => split_colon s = (firstn cp s, Some (skipn (S cp) s)) /\ cp < length s /\ nth_error s cp = Some COLON
  | None => split_colon s = (s, None)
  end.
Proof.
  induction s as [|c s IH]; [reflexivity|]. cbn [find_colon split_colon].
  destruct (N.eqb c COLON) eqn:Ec.
  - apply N.eqb_eq in Ec. subst c. cbn. repeat split; auto. lia.
  - destruct (find_colon s) as [cp|]; cbn [option_map].
    + destruct IH as (-> & Hl & Hn). cbn [firstn skipn length nth_error]. repeat split; auto. lia.
    + rewrite IH. reflexivity.
Qed.

(* ---- one parameter ---- *)
Lemma has_invalid_spec s : has_invalid s = existsb invalid_name_char s.
Proof.
  unfold has_invalid. induction s as [|c s IH]; [reflexivity|]. cbn [existsb]. rewrite IH. f_equal.
  unfold INVALID_PARAM_CHARS, invalid_name_char. cbn [existsb].
  destruct (N.eqb c COLON), (N.eqb c STAR), (N.eqb c LB), (N.eqb c RB), (N.eqb c LP), (N.eqb c RP), (N.eqb c SL); reflexivity.
Qed.

Lemma skipn_after {A} (l : list A) a e content x rest :
  skipn a l = content ++ x :: rest -> length content = e - a -> a <= e -> skipn (S e) l = rest.
Proof.
  intros H Hl Hae. replace (S e) with (a + S (e - a)) by lia. rewrite <- skipn_skipn', H.
  rewrite skipn_app. rewrite Hl. replace (S (e - a) - (e - a)) with 1 by lia.
  rewrite (skipn_all2 content) by lia. reflexivity.
Qed.

Lemma firstn_exact {A} (a b : list A) n : length a = n -> firstn n (a ++ b) = a.
Proof. intros <-. rewrite firstn_app, Nat.sub_diag, firstn_all. cbn. apply app_nil_r. Qed.

Lemma raw_split_at (raw : bytes) cursor c : nth_error raw cursor = Some c -> raw = firstn cursor raw ++ c :: skipn (S cursor) raw.
Proof. intros H. rewrite <- (skipn_nth_cons raw cursor c H). symmetry. apply firstn_skipn. Qed.

Lemma utf8_star n : utf8_valid (STAR :: n) = utf8_valid n.
Proof. reflexivity. Qed.

Definition param_of_split (name : bytes) (constraint : option bytes) : option part :=
  let wild := hd_is STAR name in
  let name := if wild then tl name else name in
  match name with
  | [] => None
  | _ =>
    if existsb invalid_name_char name then None
    else match constraint with
         | Some [] => None
         | Some c => if existsb invalid_name_char c then None
                     else Some (if wild then PW name (Some c) else PD name (Some c))
         | None => Some (if wild then PW name None else PD name None)
         end
  end.

Lemma param_of_content_ne content : content <> [] ->
  param_of_content content = param_of_split (fst (split_colon content)) (snd (split_colon content)).
Proof. destruct content as [|c s]; [congruence|]. intros _. unfold param_of_content. destruct (split_colon (c :: s)). reflexivity. Qed.

Definition impl_tail (raw : bytes) (cursor len en : nat) (name : bytes) (constraint : option bytes) : out (part * nat) :=
    match name with
    | [] => Err (EEmptyParameter raw cursor len)
    | _ =>
      let is_wild := hd_is STAR name in
      let name := if is_wild then tl name else name in
      if (is_wild && match name with [] => true | _ => false end)%bool
      then Err (EEmptyWildcard raw cursor len)
      else if has_invalid name then Err (EInvalidParameter raw name cursor len)
      else
        match (match constraint with
               | Some [] => Some (EEmptyConstraint raw cursor len)
               | Some c => if has_invalid c then Some (EInvalidConstraint raw c cursor len) else None
               | None => None end) with
        | Some e => Err e
        | None =>
          if negb (utf8_valid name) then Err (EInvalidParameter raw name cursor len)
          else if negb (match constraint with Some c => utf8_valid c | None => true end)
          then Err (EInvalidConstraint raw (match constraint with Some c => c | None => [] end) cursor len)
          else Ret (if is_wild then PW name constraint else PD name constraint, S en)
        end
    end.

Lemma impl_tail_spec raw cursor len en name constraint :
  utf8_valid name = true -> match constraint with Some c => utf8_valid c = true | None => True end ->
  match param_of_split name constraint with
  | None => to_opt (impl_tail raw cursor len en name constraint) = None
  | Some p => impl_tail raw cursor len en name constraint = Ret (p, S en)
  end.
Proof.
  intros Hun Hucs. unfold impl_tail, param_of_split. rewrite !has_invalid_spec.
  destruct name as [|n0 name']; [reflexivity|].
  destruct (hd_is STAR (n0 :: name')) eqn:Eh; cbv beta iota zeta.
  - cbn [hd_is] in Eh. apply N.eqb_eq in Eh. subst n0. cbn [tl]. rewrite utf8_star in Hun.
    destruct name' as [|m0 nm']; [reflexivity|]. cbn [andb].
    destruct (existsb invalid_name_char (m0 :: nm')); [reflexivity|].
    destruct constraint as [[|c1 cs]|]; [reflexivity| |].
    + rewrite has_invalid_spec. destruct (existsb invalid_name_char (c1 :: cs)); [reflexivity|].
      rewrite Hun, Hucs. reflexivity.
    + rewrite Hun. reflexivity.
  - cbn [andb].
    destruct (existsb invalid_name_char (n0 :: name')); [reflexivity|].
    destruct constraint as [[|c1 cs]|]; [reflexivity| |].
    + rewrite has_invalid_spec. destruct (existsb invalid_name_char (c1 :: cs)); [reflexivity|].
      rewrite Hun, Hucs. reflexivity.
    + rewrite Hun. reflexivity.
Qed.

Lemma slice_val (l : bytes) a b site : a <= b <= length l -> slice l a b site = Ret (firstn (b - a) (skipn a l)).
Proof.
  intros [H1 H2]. unfold slice. replace (Nat.leb a b && Nat.leb b (length l))%bool with true; [reflexivity|].
  symmetry. apply andb_true_iff. split; apply Nat.leb_le; assumption.
Qed.

Lemma parameter_part_spec (raw : bytes) cursor :
  nth_error raw cursor = Some LB -> utf8_valid raw = true ->
  match brace_content (skipn (S cursor) raw) 0 with
  | None => to_opt (parameter_part raw cursor) = None
  | Some (content, rest) =>
    match param_of_content content with
    | None => to_opt (parameter_part raw cursor) = None
    | Some p => exists next, parameter_part raw cursor = Ret (p, next) /\ rest = skipn next raw
                             /\ cursor < next /\ next <= length raw
    end
  end.
Proof.
  intros Hn Hu. assert (Hlt : cursor < length raw) by (apply nth_error_Some; congruence).
  pose proof (brace_scan_spec (S (length raw)) raw (S cursor) 1) as Hb. cbn [Nat.sub] in Hb.
  unfold parameter_part.
  destruct (brace_content (skipn (S cursor) raw) 0) as [[content rest]|].
  2:{ destruct Hb as (e & c' & -> & Hne); [lia|lia|lia|]. cbn [bind].
      destruct c'; [congruence|]. reflexivity. }
  destruct Hb as (e & -> & H1 & H2 & H3 & H4); [lia|lia|lia|]. cbn [bind Nat.eqb negb].
  rewrite (slice_val raw (S cursor) e 22) by lia.
  replace (firstn (e - S cursor) (skipn (S cursor) raw)) with content by (rewrite H3; symmetry; apply firstn_exact; exact H4).
  cbn [bind].
  (* validity of the content *)
  assert (Huc : utf8_valid content = true).
  { rewrite (raw_split_at raw cursor LB Hn), H3 in Hu.
    apply utf8_cut in Hu as [_ Hu]; [|reflexivity]. apply utf8_cut in Hu as [Hu _]; [exact Hu|reflexivity]. }
  pose proof (skipn_after raw (S cursor) e content RB rest H3 H4 H1) as Hrest.
  destruct content as [|c0 content']; [reflexivity|].
  cbv beta iota. remember (c0 :: content') as content eqn:Econt.
  assert (Hsplit : exists name constraint,
     match find_colon content with
     | None => Ret (content, None)
     | Some cp => do a <- slice content 0 cp 23; do b <- slice content (S cp) (length content) 24; Ret (a, Some b)
     end = @Ret (bytes * option bytes) (name, constraint)
     /\ split_colon content = (name, constraint)
     /\ utf8_valid name = true /\ match constraint with Some c => utf8_valid c = true | None => True end).
  { pose proof (find_colon_split content) as Hf. destruct (find_colon content) as [cp|].
    - destruct Hf as (Hs & Hl & Hnth).
      exists (firstn cp content), (Some (skipn (S cp) content)).
      unfold slice. replace (Nat.leb 0 cp && Nat.leb cp (length content))%bool with true
        by (symmetry; apply andb_true_iff; split; apply Nat.leb_le; lia).
      cbn [bind]. replace (Nat.leb (S cp) (length content) && Nat.leb (length content) (length content))%bool with true
        by (symmetry; apply andb_true_iff; split; apply Nat.leb_le; lia).
      cbn [bind skipn]. rewrite Nat.sub_0_r. rewrite (firstn_all2 (skipn (S cp) content)) by (rewrite skipn_length; lia).
      split; [reflexivity|]. split; [exact Hs|].
      rewrite (raw_split_at content cp COLON Hnth) in Huc. apply utf8_cut in Huc; [exact Huc|reflexivity].
    - exists content, None. rewrite Hf. auto. }
  destruct Hsplit as (name & constraint & Himpl & Hspec & Hun & Hucs).
  rewrite (param_of_content_ne content) by (rewrite Econt; discriminate). rewrite Hspec. cbn [fst snd].
  match goal with |- context [bind ?m _] =>
    match m with
    | match find_colon content with _ => _ end => replace m with (@Ret (bytes * option bytes) (name, constraint)) by (symmetry; exact Himpl)
    end end.
  cbn [bind]. rewrite (subn_ok e cursor 25) by lia. cbn [bind].
  pose proof (impl_tail_spec raw cursor (e - cursor + 1) e name constraint Hun Hucs) as Ht.
  change (match param_of_split name constraint with
          | None => to_opt (impl_tail raw cursor (e - cursor + 1) e name constraint) = None
          | Some p => exists next, impl_tail raw cursor (e - cursor + 1) e name constraint = Ret (p, next)
                                   /\ rest = skipn next raw /\ cursor < next /\ next <= length raw
          end).
  destruct (param_of_split name constraint) as [p|]; [|exact Ht].
  exists (S e). repeat split; auto; lia.
Qed.

(* ---- the loop over the parts of one expansion ---- *)
Lemma template_loop_S steps raw cursor seen parts :
  template_loop (S steps) raw cursor seen parts =
    if Nat.ltb cursor (length raw) then
      do c <- idx raw cursor 30;
      if N.eqb c LB then
        do pn <- parameter_part raw cursor;
        let '(p, next) := pn in
        match (match last_opt seen with
               | Some (_, s, l) => if Nat.eqb cursor (s + l) then Some (s, l) else None
               | None => None end) with
        | Some (s, _) => do l <- subn next s 31; Err (ETouchingParameters raw s l)
        | None =>
          match part_name p with
          | Some name =>
            match find (fun x : bytes * nat * nat => beqb (fst (fst x)) name) seen with
            | Some (_, s, l) =>
              do sl <- subn next cursor 32;
              Err (EDuplicateParameter raw name s l cursor sl)
            | None =>
              do sl <- subn next cursor 33;
              template_loop steps raw next (seen ++ [(name, cursor, sl)]) (parts ++ [p])
            end
          | None => template_loop steps raw next seen (parts ++ [p])
          end
        end
      else if N.eqb c RB then Err (EUnbalancedBrace raw cursor)
      else
        do sp <- static_part (S (length raw)) raw cursor [];
        let '(s, next) := sp in
        template_loop steps raw next seen (parts ++ [PS s])
    else Ret parts.
Proof. reflexivity. Qed.

Lemma exp_parts_S f s prev seen :
  exp_parts (S f) s prev seen =
    match s with
    | [] => Some []
    | c :: s' =>
      if N.eqb c LB then
        if prev then None else
        match brace_content s' 0 with
        | None => None
        | Some (content, rest) =>
          match param_of_content content with
          | None => None
          | Some p =>
            let name := match p with PD n _ | PW n _ => n | PS _ => [] end in
            if existsb (beqb name) seen then None
            else option_map (cons p) (exp_parts f rest true (name :: seen))
          end
        end
      else if N.eqb c RB then None
      else
        let '(txt, rest) := static_text (S (length s)) s in
        option_map (cons (PS txt)) (exp_parts f rest false seen)
    end.
Proof. reflexivity. Qed.

Definition prev_of (cursor : nat) (seen : list (bytes * nat * nat)) : bool :=
  match last_opt seen with Some (_, s, l) => Nat.eqb cursor (s + l) | None => false end.

Definition seen_rel (seen : list (bytes * nat * nat)) (sseen : list bytes) : Prop :=
  forall name, existsb (beqb name) sseen =
               match find (fun x : bytes * nat * nat => beqb (fst (fst x)) name) seen with Some _ => true | None => false end.

Definition seen_before (cursor : nat) (seen : list (bytes * nat * nat)) : Prop :=
  match last_opt seen with Some (_, s, l) => s + l <= cursor | None => True end.

Lemma param_of_content_is_param content p : param_of_content content = Some p ->
  exists n c, (p = PD n c \/ p = PW n c).
Proof.
  unfold param_of_content. destruct content as [|c0 cs]; [discriminate|].
  destruct (split_colon (c0 :: cs)) as [name constraint].
  destruct (if hd_is STAR name then tl name else name) as [|x nm]; [discriminate|].
  destruct (existsb invalid_name_char (x :: nm)); [discriminate|].
  destruct constraint as [[|c1 cc]|]; [discriminate| |].
  - destruct (existsb invalid_name_char (c1 :: cc)); [discriminate|]. intros H. inversion H. destruct (hd_is STAR name); eauto.
  - intros H. inversion H. destruct (hd_is STAR name); eauto.
Qed.

Lemma option_map_app_cons {A} (parts : list A) p o :
  option_map (app (parts ++ [p])) o = option_map (app parts) (option_map (cons p) o).
Proof. destruct o; cbn; [rewrite <- app_assoc; reflexivity|reflexivity]. Qed.

Lemma beqb_sym a b : beqb a b = beqb b a.
Proof.
  destruct (beqb a b) eqn:E1, (beqb b a) eqn:E2; try reflexivity.
  - apply beqb_eq in E1. subst. rewrite beqb_refl in E2. discriminate.
  - apply beqb_eq in E2. subst. rewrite beqb_refl in E1. discriminate.
Qed.

Lemma find_snoc {A} (f : A -> bool) l x :
  find f (l ++ [x]) = match find f l with Some y => Some y | None => if f x then Some x else None end.
Proof. induction l as [|y l IH]; cbn; [reflexivity|]. destruct (f y); [reflexivity|exact IH]. Qed.

Lemma template_param_step steps
  (IH : forall (raw : bytes) cursor seen parts sseen,
     utf8_valid raw = true -> cursor <= length raw -> length raw - cursor < steps ->
     seen_rel seen sseen -> seen_before cursor seen ->
     to_opt (template_loop steps raw cursor seen parts)
     = option_map (app parts) (exp_parts steps (skipn cursor raw) (prev_of cursor seen) sseen))
  (raw : bytes) cursor seen parts sseen p content next :
  utf8_valid raw = true -> cursor <= length raw -> length raw - cursor < S steps -> seen_rel seen sseen ->
  param_of_content content = Some p -> cursor < next -> next <= length raw ->
  to_opt (match part_name p with
          | Some name =>
            match find (fun x : bytes * nat * nat => beqb (fst (fst x)) name) seen with
            | Some (_, s, l) => do sl <- subn next cursor 32; Err (EDuplicateParameter raw name s l cursor sl)
            | None => do sl <- subn next cursor 33;
                      template_loop steps raw next (seen ++ [(name, cursor, sl)]) (parts ++ [p])
            end
          | None => template_loop steps raw next seen (parts ++ [p])
          end)
  = option_map (app parts)
      (let name := match p with PD n _ | PW n _ => n | PS _ => [] end in
       if existsb (beqb name) sseen then None
       else option_map (cons p) (exp_parts steps (skipn next raw) true (name :: sseen))).
Proof.
  intros Hu Hc Hs Hrel Epc Hn1 Hn2.
  destruct (param_of_content_is_param content p Epc) as (n & c & Hp).
  assert (Hname : part_name p = Some n /\ match p with PD n0 _ | PW n0 _ => n0 | PS _ => [] end = n)
    by (destruct Hp as [-> | ->]; split; reflexivity).
  destruct Hname as [-> ->]. cbv zeta. rewrite (Hrel n).
  destruct (find _ seen) as [[[fn fs] fl]|] eqn:Ef.
  - rewrite (subn_ok next cursor 32) by lia. reflexivity.
  - rewrite (subn_ok next cursor 33) by lia. cbn [bind].
    rewrite (IH raw next (seen ++ [(n, cursor, next - cursor)]) (parts ++ [p]) (n :: sseen) Hu Hn2); [| lia | |].
    + rewrite option_map_app_cons. f_equal. f_equal. unfold prev_of. rewrite last_opt_snoc.
      replace (cursor + (next - cursor)) with next by lia. rewrite Nat.eqb_refl. reflexivity.
    + intros name. cbn [existsb]. rewrite find_snoc, (Hrel name). cbn [fst].
      destruct (find (fun x : bytes * nat * nat => beqb (fst (fst x)) name) seen); [apply orb_true_r|].
      rewrite orb_false_r. rewrite (beqb_sym name n). destruct (beqb n name); reflexivity.
    + unfold seen_before. rewrite last_opt_snoc. lia.
Qed.

Theorem template_loop_spec : forall steps (raw : bytes) cursor seen parts sseen,
  utf8_valid raw = true -> cursor <= length raw -> length raw - cursor < steps ->
  seen_rel seen sseen -> seen_before cursor seen ->
  to_opt (template_loop steps raw cursor seen parts)
  = option_map (app parts) (exp_parts steps (skipn cursor raw) (prev_of cursor seen) sseen).
Proof.
  induction steps as [|steps IH]; intros raw cursor seen parts sseen Hu Hc Hs Hrel Hbef; [lia|].
  rewrite template_loop_S, exp_parts_S.
  destruct (nth_error raw cursor) as [c|] eqn:En.
  2:{ assert (Hge : length raw <= cursor) by (apply nth_error_None; exact En).
      rewrite (proj2 (Nat.ltb_ge _ _) Hge), (skipn_nth_nil raw cursor En). cbn. rewrite app_nil_r. reflexivity. }
  assert (Hlt : cursor < length raw) by (apply nth_error_Some; congruence).
  rewrite (proj2 (Nat.ltb_lt _ _) Hlt), (idx_nth raw cursor 30 c En), (skipn_nth_cons raw cursor c En). cbn [bind].
  destruct (N.eqb c LB) eqn:ELB.
  - apply N.eqb_eq in ELB. subst c.
    pose proof (parameter_part_spec raw cursor En Hu) as Hp.
    destruct (brace_content (skipn (S cursor) raw) 0) as [[content rest]|].
    2:{ destruct (parameter_part raw cursor) as [[p next]| | |]; try discriminate; cbn [bind to_opt];
          destruct (prev_of cursor seen); reflexivity. }
    destruct (param_of_content content) as [p|] eqn:Epc.
    2:{ destruct (parameter_part raw cursor) as [[p next]| | |]; try discriminate; cbn [bind to_opt];
          destruct (prev_of cursor seen); reflexivity. }
    destruct Hp as (next & -> & Hrest & Hn1 & Hn2). cbn [bind]. subst rest.
    unfold prev_of. unfold seen_before in Hbef.
    destruct (last_opt seen) as [[[ln ls] ll]|] eqn:Elast.
    + destruct (Nat.eqb cursor (ls + ll)) eqn:Et.
      * rewrite (subn_ok next ls 31) by (apply Nat.eqb_eq in Et; lia). reflexivity.
      * apply (template_param_step steps IH raw cursor seen parts sseen p content next Hu Hc Hs Hrel Epc Hn1 Hn2).
    + apply (template_param_step steps IH raw cursor seen parts sseen p content next Hu Hc Hs Hrel Epc Hn1 Hn2).
  - destruct (N.eqb c RB) eqn:ERB; [destruct (prev_of cursor seen); reflexivity|].
    (* literal text *)
    destruct (static_part_spec (S (length raw)) (S (length (c :: skipn (S cursor) raw))) raw cursor []) as (e & He & Hr & H1 & H2);
      [lia|lia|rewrite <- (skipn_nth_cons raw cursor c En), skipn_length; lia|].
    destruct (static_part_ok (S (length raw)) raw cursor [] Hc) as (s0 & e0 & He0 & _ & _ & Hprog); [lia|].
    rewrite He in He0. injection He0 as _ <-. specialize (Hprog c En ELB ERB).
    rewrite (skipn_nth_cons raw cursor c En) in He, Hr.
    destruct (static_text (S (length (c :: skipn (S cursor) raw))) (c :: skipn (S cursor) raw)) as [txt rest] eqn:Est.
    cbn [fst snd app] in He, Hr. subst rest.
    rewrite He. cbn [bind]. cbv beta iota.
    rewrite (IH raw e seen (parts ++ [PS txt]) sseen Hu H2); [|lia|exact Hrel|].
    + rewrite option_map_app_cons. f_equal. f_equal.
      unfold prev_of. unfold seen_before in Hbef. destruct (last_opt seen) as [[[ln ls] ll]|]; [|reflexivity].
      replace (Nat.eqb e (ls + ll)) with false by (symmetry; apply Nat.eqb_neq; lia). reflexivity.
    + unfold seen_before in *. destruct (last_opt seen) as [[[ln ls] ll]|]; [lia|exact I].
Qed.

(* ---- one expansion: parser = documented grammar ---- *)
Theorem parse_template_spec (raw : bytes) :
  raw <> [] -> utf8_valid raw = true ->
  to_opt (parse_template raw) = option_map (fun ps => (raw, ps)) (wellformed_exp raw).
Proof.
  intros Hne Hu. unfold parse_template, wellformed_exp. destruct raw as [|b raw']; [congruence|].
  destruct (N.eqb b SL) eqn:Eb; cbn [negb]; [|reflexivity].
  pose proof (template_loop_spec (S (length (b :: raw'))) (b :: raw') 0 [] [] [] Hu) as H.
  cbn [skipn] in H. unfold prev_of in H. cbn [last_opt rev] in H.
  assert (Hl : to_opt (template_loop (S (length (b :: raw'))) (b :: raw') 0 [] [])
               = exp_parts (S (length (b :: raw'))) (b :: raw') false []).
  { rewrite H; [|lia|lia|intros name; reflexivity|exact I].
    destruct (exp_parts _ _ _ _); reflexivity. }
  destruct (template_loop (S (length (b :: raw'))) (b :: raw') 0 [] []) as [ps| | |]; cbn [bind to_opt] in *;
    rewrite <- Hl; reflexivity.
Qed.

Corollary parse_template_accepts (raw : bytes) ps :
  raw <> [] -> utf8_valid raw = true ->
  (parse_template raw = Ret (raw, ps) <-> wellformed_exp raw = Some ps).
Proof.
  intros Hne Hu. pose proof (parse_template_spec raw Hne Hu) as H. split.
  - intros E. rewrite E in H. cbn in H. destruct (wellformed_exp raw); inversion H; reflexivity.
  - intros E. rewrite E in H. cbn in H. destruct (parse_template raw) as [[r p]| | |]; inversion H; reflexivity.
Qed.

Corollary parse_template_rejects (raw : bytes) :
  raw <> [] -> utf8_valid raw = true ->
  ((exists e, parse_template raw = Err e) <-> wellformed_exp raw = None).
Proof.
  intros Hne Hu. pose proof (parse_template_spec raw Hne Hu) as H. pose proof (parse_template_safe raw) as Hs. split.
  - intros (e & E). rewrite E in H. cbn in H. destruct (wellformed_exp raw); [discriminate|reflexivity].
  - intros E. rewrite E in H. destruct (parse_template raw) as [[r p]|e| |]; cbn in *; try discriminate; try contradiction. eauto.
Qed.

(* ---- templates without parentheses: the whole parser = the documented grammar ---- *)
From WF Require Import Proofs.ExpandP.

Definition no_paren (c : byte) : bool := negb (N.eqb c LP) && negb (N.eqb c RP).
Definition plain (t : bytes) : bool := forallb no_paren t.

Lemma plain_nth t i c : plain t = true -> nth_error t i = Some c -> N.eqb c LP = false /\ N.eqb c RP = false.
Proof.
  unfold plain. rewrite forallb_forall. intros H Hn. apply nth_error_In in Hn. specialize (H c Hn).
  unfold no_paren in H. apply andb_true_iff in H as [H1 H2]. apply Bool.negb_true_iff in H1, H2. auto.
Qed.

Lemma scan_plain rec (input : bytes) : plain input = true ->
  forall steps cursor, cursor <= S (length input) -> length input - cursor < steps ->
  scan_f rec input 0 (length input) steps cursor 0 0%Z [[]]
  = Ret (if Nat.ltb 0 (length input) then [input] else [[]]).
Proof.
  intros Hp. induction steps as [|steps IH]; intros cursor Hc Hs; [lia|]. rewrite scan_f_S.
  destruct (Nat.ltb cursor (length input)) eqn:El.
  - apply Nat.ltb_lt in El. destruct (nth_error input cursor) as [c|] eqn:En; [|apply nth_error_None in En; lia].
    rewrite (idx_nth input cursor 1 c En). cbn [bind]. destruct (plain_nth input cursor c Hp En) as [-> ->].
    destruct (N.eqb c BSL && _)%bool eqn:Eesc.
    + apply andb_true_iff in Eesc as [_ Hn1]. destruct (nth_error input (S cursor)) eqn:En1; [|discriminate].
      assert (S cursor < length input) by (apply nth_error_Some; congruence). apply IH; lia.
    + apply IH; lia.
  - cbn [Z.eqb negb]. destruct (Nat.ltb 0 (length input)) eqn:E0; [|reflexivity].
    rewrite (slice_val input 0 (length input) 5) by lia. cbn [bind skipn map]. rewrite Nat.sub_0_r, firstn_all. reflexivity.
Qed.

Lemma expand_plain (t : bytes) : plain t = true -> t <> [] -> expand (S (length t)) t 0 (length t) = Ret [t].
Proof.
  intros Hp Hne. rewrite expand_S. rewrite (scan_plain _ t Hp); [|lia|lia].
  destruct t; [congruence|]. reflexivity.
Qed.

Theorem parse_plain_spec (t : bytes) :
  plain t = true -> utf8_valid t = true ->
  to_opt (parse t) = option_map (fun ps => [(t, ps)]) (match t with [] => None | _ => wellformed_exp t end).
Proof.
  intros Hp Hu. unfold parse. destruct t as [|b t']; [reflexivity|].
  rewrite (expand_plain (b :: t') Hp) by discriminate. cbn [bind map_out].
  pose proof (parse_template_spec (b :: t') (ltac:(discriminate)) Hu) as H.
  destruct (parse_template (b :: t')) as [[r ps]| | |]; cbn [bind to_opt] in *;
    destruct (wellformed_exp (b :: t')); cbn in *; inversion H; reflexivity.
Qed.

Lemma gparse_plain : forall fuel (s : bytes), plain s = true -> length s < fuel ->
  gparse fuel s = GOk (match s with [] => [] | _ => [Chunk s] end) false [].
Proof.
  induction fuel as [|f IH]; intros s Hp Hl; [lia|]. cbn [gparse].
  destruct s as [|b s']; [reflexivity|].
  assert (Hb : N.eqb b LP = false /\ N.eqb b RP = false) by (apply (plain_nth (b :: s') 0 b Hp eq_refl)).
  destruct Hb as [HLP HRP]. rewrite HLP, HRP.
  assert (Hp' : plain s' = true) by (unfold plain in *; cbn [forallb] in Hp; apply andb_true_iff in Hp; apply Hp).
  cbn [length] in Hl.
  destruct (N.eqb b BSL).
  - destruct s' as [|x s'']; [reflexivity|].
    assert (Hp'' : plain s'' = true) by (unfold plain in *; cbn [forallb] in Hp'; apply andb_true_iff in Hp'; apply Hp').
    cbn [length] in Hl. rewrite (IH s'' Hp'') by lia. destruct s''; reflexivity.
  - rewrite (IH s' Hp') by lia. destruct s'; reflexivity.
Qed.

Theorem parse_plain_is_template_spec (t : bytes) :
  plain t = true -> utf8_valid t = true -> to_opt (parse t) = template_spec t.
Proof.
  intros Hp Hu. rewrite (parse_plain_spec t Hp Hu). unfold template_spec. destruct t as [|b t']; [reflexivity|].
  unfold expansions_spec. rewrite (gparse_plain _ (b :: t') Hp) by lia.
  cbn [expand_items alts flat_map map app]. rewrite app_nil_r. cbn [map].
  destruct (wellformed_exp (b :: t')); reflexivity.
Qed.
