(* C07: every panic-capable expression of the sources is accounted for by a checked model or a theorem.
   Gen/Sites.v is REGENERATED on every run from /repo (tools/gen_tables.py: index / slice, unwrap / expect, remove /
   split_at / replace_range / drain, subtraction, division, narrowing casts, panicking macros, in source order);
   the table below, written by hand, names for each of them the checked-style model operation or the theorem that
   shows it in range.  An expression added to, removed from or changed in the sources breaks the equality. *)
From Coq Require Import Ascii String List.
From WF Require Import Base.Bytes Check.Tokens Gen.Sites.
Import ListNotations.
Local Open Scope string_scope.

Definition expected_panic_sites : list (string * string * string) := [
  ("src/parser.rs::expand_optional_groups", "input[cursor]", "Model/Parser.v: checked parser (idx / slice / subn sites), C07_parser_total");
  ("src/parser.rs::expand_optional_groups", "input[group..cursor]", "Model/Parser.v: checked parser (idx / slice / subn sites), C07_parser_total");
  ("src/parser.rs::expand_optional_groups", "depth -= 1", "Model/Parser.v: checked parser (idx / slice / subn sites), C07_parser_total");
  ("src/parser.rs::expand_optional_groups", "cursor - 1", "Model/Parser.v: checked parser (idx / slice / subn sites), C07_parser_total");
  ("src/parser.rs::expand_optional_groups", "group - 1", "Model/Parser.v: checked parser (idx / slice / subn sites), C07_parser_total");
  ("src/parser.rs::expand_optional_groups", "input[group..end]", "Model/Parser.v: checked parser (idx / slice / subn sites), C07_parser_total");
  ("src/parser.rs::parse_template", "raw[0]", "Model/Parser.v: checked parser (idx / slice / subn sites), C07_parser_total");
  ("src/parser.rs::parse_template", "raw[cursor]", "Model/Parser.v: checked parser (idx / slice / subn sites), C07_parser_total");
  ("src/parser.rs::parse_template", "next_cursor - start", "Model/Parser.v: checked parser (idx / slice / subn sites), C07_parser_total");
  ("src/parser.rs::parse_template", "next_cursor - cursor", "Model/Parser.v: checked parser (idx / slice / subn sites), C07_parser_total");
  ("src/parser.rs::parse_template", "next_cursor - cursor))", "Model/Parser.v: checked parser (idx / slice / subn sites), C07_parser_total");
  ("src/parser.rs::parse_static_part", "input[end]", "Model/Parser.v: checked parser (idx / slice / subn sites), C07_parser_total");
  ("src/parser.rs::parse_parameter_part", "input[end]", "Model/Parser.v: checked parser (idx / slice / subn sites), C07_parser_total");
  ("src/parser.rs::parse_parameter_part", "brace_count -= 1", "Model/Parser.v: checked parser (idx / slice / subn sites), C07_parser_total");
  ("src/parser.rs::parse_parameter_part", "input[start..end]", "Model/Parser.v: checked parser (idx / slice / subn sites), C07_parser_total");
  ("src/parser.rs::parse_parameter_part", "content[..colon_pos]", "Model/Parser.v: checked parser (idx / slice / subn sites), C07_parser_total");
  ("src/parser.rs::parse_parameter_part", "content[colon_pos + 1..]", "Model/Parser.v: checked parser (idx / slice / subn sites), C07_parser_total");
  ("src/parser.rs::parse_parameter_part", "end - cursor", "Model/Parser.v: checked parser (idx / slice / subn sites), C07_parser_total");
  ("src/parser.rs::parse_parameter_part", "name[1..]", "Model/Parser.v: checked parser (idx / slice / subn sites), C07_parser_total");
  ("src/parser.rs::parse_parameter_part", "end - cursor", "Model/Parser.v: checked parser (idx / slice / subn sites), C07_parser_total");
  ("src/parser.rs::parse_parameter_part", "end - cursor", "Model/Parser.v: checked parser (idx / slice / subn sites), C07_parser_total");
  ("src/parser.rs::parse_parameter_part", "end - cursor", "Model/Parser.v: checked parser (idx / slice / subn sites), C07_parser_total");
  ("src/parser.rs::parse_parameter_part", "end - cursor", "Model/Parser.v: checked parser (idx / slice / subn sites), C07_parser_total");
  ("src/parser.rs::parse_parameter_part", "end - cursor", "Model/Parser.v: checked parser (idx / slice / subn sites), C07_parser_total");
  ("src/parser.rs::parse_parameter_part", "end - cursor", "Model/Parser.v: checked parser (idx / slice / subn sites), C07_parser_total");
  ("src/node/search.rs::search_static", "path[child.state.prefix.len()..]", "Model/SearchC.v: idx / slice sites 41-47, C07_search_never_panics");
  ("src/node/search.rs::search_dynamic_constrained_segment", "path[..segment_end]", "Model/SearchC.v: idx / slice sites 41-47, C07_search_never_panics");
  ("src/node/search.rs::search_dynamic_constrained_segment", "path[segment_end..]", "Model/SearchC.v: idx / slice sites 41-47, C07_search_never_panics");
  ("src/node/search.rs::search_dynamic_constrained_inline", "path[consumed]", "Model/SearchC.v: idx / slice sites 41-47, C07_search_never_panics");
  ("src/node/search.rs::search_dynamic_constrained_inline", "path[..consumed]", "Model/SearchC.v: idx / slice sites 41-47, C07_search_never_panics");
  ("src/node/search.rs::search_dynamic_constrained_inline", "path[consumed..]", "Model/SearchC.v: idx / slice sites 41-47, C07_search_never_panics");
  ("src/node/search.rs::search_dynamic_segment", "path[..segment_end]", "Model/SearchC.v: idx / slice sites 41-47, C07_search_never_panics");
  ("src/node/search.rs::search_dynamic_segment", "path[segment_end..]", "Model/SearchC.v: idx / slice sites 41-47, C07_search_never_panics");
  ("src/node/search.rs::search_dynamic_inline", "path[consumed]", "Model/SearchC.v: idx / slice sites 41-47, C07_search_never_panics");
  ("src/node/search.rs::search_dynamic_inline", "path[..consumed]", "Model/SearchC.v: idx / slice sites 41-47, C07_search_never_panics");
  ("src/node/search.rs::search_dynamic_inline", "path[consumed..]", "Model/SearchC.v: idx / slice sites 41-47, C07_search_never_panics");
  ("src/node/search.rs::search_wildcard_constrained_segment", "path[consumed]", "Model/SearchC.v: idx / slice sites 41-47, C07_search_never_panics");
  ("src/node/search.rs::search_wildcard_constrained_segment", "path[..consumed]", "Model/SearchC.v: idx / slice sites 41-47, C07_search_never_panics");
  ("src/node/search.rs::search_wildcard_constrained_segment", "path[consumed..]", "Model/SearchC.v: idx / slice sites 41-47, C07_search_never_panics");
  ("src/node/search.rs::search_wildcard_constrained_inline", "path[..consumed]", "Model/SearchC.v: idx / slice sites 41-47, C07_search_never_panics");
  ("src/node/search.rs::search_wildcard_constrained_inline", "path[consumed..]", "Model/SearchC.v: idx / slice sites 41-47, C07_search_never_panics");
  ("src/node/search.rs::search_wildcard_segment", "path[consumed]", "Model/SearchC.v: idx / slice sites 41-47, C07_search_never_panics");
  ("src/node/search.rs::search_wildcard_segment", "path[..consumed]", "Model/SearchC.v: idx / slice sites 41-47, C07_search_never_panics");
  ("src/node/search.rs::search_wildcard_segment", "path[consumed..]", "Model/SearchC.v: idx / slice sites 41-47, C07_search_never_panics");
  ("src/node/search.rs::search_wildcard_inline", "path[..consumed]", "Model/SearchC.v: idx / slice sites 41-47, C07_search_never_panics");
  ("src/node/search.rs::search_wildcard_inline", "path[consumed..]", "Model/SearchC.v: idx / slice sites 41-47, C07_search_never_panics");
  ("src/node/search.rs::check_constraint", ".unwrap()", "Model/SearchC.v check_c (Panic 40), C07_reachable_constraints_registered, C07_search_never_panics");
  ("src/node/insert.rs::insert_static", "child.state.prefix[0]", "Model/OpsC.v insert_static_c: sites 50-56, C07_index_level_router_insert");
  ("src/node/insert.rs::insert_static", "prefix[0]", "Model/OpsC.v insert_static_c: sites 50-56, C07_index_level_router_insert");
  ("src/node/insert.rs::insert_static", "prefix[common_prefix..]", "Model/OpsC.v insert_static_c: sites 50-56, C07_index_level_router_insert");
  ("src/node/insert.rs::insert_static", "child.state.prefix[common_prefix..]", "Model/OpsC.v insert_static_c: sites 50-56, C07_index_level_router_insert");
  ("src/node/insert.rs::insert_static", "prefix[common_prefix..]", "Model/OpsC.v insert_static_c: sites 50-56, C07_index_level_router_insert");
  ("src/node/insert.rs::insert_static", "child.state.prefix[..common_prefix]", "Model/OpsC.v insert_static_c: sites 50-56, C07_index_level_router_insert");
  ("src/node/insert.rs::insert_static", "prefix[common_prefix..]", "Model/OpsC.v insert_static_c: sites 50-56, C07_index_level_router_insert");
  ("src/node/insert.rs::insert_static", "child.static_children[1]", "Model/OpsC.v insert_static_c: sites 50-56, C07_index_level_router_insert");
  ("src/node/find.rs::find_static", "child.state.prefix[0]", "Model/OpsC.v find_static_c: sites 57-59, C07_index_level_find_is_the_find");
  ("src/node/find.rs::find_static", "prefix[0]", "Model/OpsC.v find_static_c: sites 57-59, C07_index_level_find_is_the_find");
  ("src/node/find.rs::find_static", "prefix[common_prefix..]", "Model/OpsC.v find_static_c: sites 57-59, C07_index_level_find_is_the_find");
  ("src/node/delete.rs::delete_static", "self.static_children[index]", "Model/OpsC.v delete_c / delete_static_c: sites 60-67, C07_index_level_router_delete");
  ("src/node/delete.rs::delete_static", "prefix[child.state.prefix.len()..]", "Model/OpsC.v delete_c / delete_static_c: sites 60-67, C07_index_level_router_delete");
  ("src/node/delete.rs::delete_static", "self.static_children.remove(", "Model/OpsC.v delete_c / delete_static_c: sites 60-67, C07_index_level_router_delete");
  ("src/node/delete.rs::delete_static", "child.static_children.remove(", "Model/OpsC.v delete_c / delete_static_c: sites 60-67, C07_index_level_router_delete");
  ("src/node/delete.rs::delete_dynamic_constrained", "self.dynamic_constrained_children[index]", "Model/OpsC.v delete_c / delete_static_c: sites 60-67, C07_index_level_router_delete");
  ("src/node/delete.rs::delete_dynamic_constrained", "self.dynamic_constrained_children.remove(", "Model/OpsC.v delete_c / delete_static_c: sites 60-67, C07_index_level_router_delete");
  ("src/node/delete.rs::delete_dynamic", "self.dynamic_children[index]", "Model/OpsC.v delete_c / delete_static_c: sites 60-67, C07_index_level_router_delete");
  ("src/node/delete.rs::delete_dynamic", "self.dynamic_children.remove(", "Model/OpsC.v delete_c / delete_static_c: sites 60-67, C07_index_level_router_delete");
  ("src/node/delete.rs::delete_wildcard_constrained", "self.wildcard_constrained_children[index]", "Model/OpsC.v delete_c / delete_static_c: sites 60-67, C07_index_level_router_delete");
  ("src/node/delete.rs::delete_wildcard_constrained", "self.wildcard_constrained_children.remove(", "Model/OpsC.v delete_c / delete_static_c: sites 60-67, C07_index_level_router_delete");
  ("src/node/delete.rs::delete_wildcard", "self.wildcard_children[index]", "Model/OpsC.v delete_c / delete_static_c: sites 60-67, C07_index_level_router_delete");
  ("src/node/delete.rs::delete_wildcard", "self.wildcard_children.remove(", "Model/OpsC.v delete_c / delete_static_c: sites 60-67, C07_index_level_router_delete");
  ("src/node/delete.rs::delete_end_wildcard_constrained", "self.end_wildcard_constrained_children.remove(", "Model/OpsC.v delete_c / delete_static_c: sites 60-67, C07_index_level_router_delete");
  ("src/node/delete.rs::delete_end_wildcard", "self.end_wildcard_children.remove(", "Model/OpsC.v delete_c / delete_static_c: sites 60-67, C07_index_level_router_delete");
  ("src/node/display.rs::debug_node", "count -= 1", "Model/DisplayC.v go_c: site 70, C07_display_never_panics");
  ("src/node/display.rs::debug_node", "count -= 1", "Model/DisplayC.v go_c: site 70, C07_display_never_panics");
  ("src/node/display.rs::debug_node", "count -= 1", "Model/DisplayC.v go_c: site 70, C07_display_never_panics");
  ("src/node/display.rs::debug_node", "count -= 1", "Model/DisplayC.v go_c: site 70, C07_display_never_panics");
  ("src/node/display.rs::debug_node", "count -= 1", "Model/DisplayC.v go_c: site 70, C07_display_never_panics");
  ("src/node/display.rs::debug_node", "count -= 1", "Model/DisplayC.v go_c: site 70, C07_display_never_panics");
  ("src/node/display.rs::debug_node", "count -= 1", "Model/DisplayC.v go_c: site 70, C07_display_never_panics");
  ("src/nodes.rs::remove", "self.vec.remove(", "the Index / IndexMut / remove wrappers of Nodes behind children[index] and children.remove(index): Model/OpsC.v at_c / remove_c");
  ("src/nodes.rs::index", "self.vec[index]", "the Index / IndexMut / remove wrappers of Nodes behind children[index] and children.remove(index): Model/OpsC.v at_c / remove_c");
  ("src/nodes.rs::index_mut", "self.vec[index]", "the Index / IndexMut / remove wrappers of Nodes behind children[index] and children.remove(index): Model/OpsC.v at_c / remove_c");
  ("src/router.rs::new", ".unwrap()", "C07_router_new_unwraps_succeed");
  ("src/router.rs::new", ".unwrap()", "C07_router_new_unwraps_succeed");
  ("src/router.rs::new", ".unwrap()", "C07_router_new_unwraps_succeed");
  ("src/router.rs::new", ".unwrap()", "C07_router_new_unwraps_succeed");
  ("src/router.rs::new", ".unwrap()", "C07_router_new_unwraps_succeed");
  ("src/router.rs::new", ".unwrap()", "C07_router_new_unwraps_succeed");
  ("src/router.rs::new", ".unwrap()", "C07_router_new_unwraps_succeed");
  ("src/router.rs::new", ".unwrap()", "C07_router_new_unwraps_succeed");
  ("src/router.rs::new", ".unwrap()", "C07_router_new_unwraps_succeed");
  ("src/router.rs::new", ".unwrap()", "C07_router_new_unwraps_succeed");
  ("src/router.rs::new", ".unwrap()", "C07_router_new_unwraps_succeed");
  ("src/router.rs::new", ".unwrap()", "C07_router_new_unwraps_succeed");
  ("src/router.rs::new", ".unwrap()", "C07_router_new_unwraps_succeed");
  ("src/router.rs::new", ".unwrap()", "C07_router_new_unwraps_succeed");
  ("src/router.rs::new", ".unwrap()", "C07_router_new_unwraps_succeed");
  ("src/router.rs::new", ".unwrap()", "C07_router_new_unwraps_succeed");
  ("src/router.rs::new", ".unwrap()", "C07_router_new_unwraps_succeed");
  ("src/errors/template.rs::fmt", ".replace_range(", "C07_duplicate_carets_in_range");
  ("src/errors/template.rs::fmt", ".replace_range(", "C07_duplicate_carets_in_range")].

Definition sites_eqb (a : list (bytes * bytes)) (b : list (string * string * string)) : bool :=
  (fix go (a : list (bytes * bytes)) (b : list (string * string * string)) :=
     match a, b with
     | [], [] => true
     | (f, e) :: a', (f', e', _) :: b' => beqb f (w f') && beqb e (w e') && go a' b'
     | _, _ => false
     end) a b.

Lemma panic_sites_accounted_for : sites_eqb gen_panic_sites expected_panic_sites = true.
Proof. vm_compute. reflexivity. Qed.
