(* Facts about the reference walk W alone (no tree). *)
From Coq Require Import Lia.
From WF Require Import Base.Bytes Base.Utf8 Spec.Route Spec.Walk Proofs.BytesP.

(* ---- keys ---- *)
Lemma kcmp_refl k : kcmp k k = Eq.
Proof. unfold kcmp. rewrite bcmp_refl. apply ocmp_refl. Qed.

Lemma kcmp_eq a b : kcmp a b = Eq <-> a = b.
Proof.
  destruct a as [a1 a2], b as [b1 b2]; unfold kcmp; cbn.
  destruct (bcmp a1 b1) eqn:E.
  - apply bcmp_eq in E; subst. rewrite ocmp_eq. split; congruence.
  - split; [discriminate|]. intros H; inversion H; subst. rewrite bcmp_refl in E. discriminate.
  - split; [discriminate|]. intros H; inversion H; subst. rewrite bcmp_refl in E. discriminate.
Qed.

Lemma kcmp_antisym a b : kcmp b a = CompOpp (kcmp a b).
Proof.
  unfold kcmp. rewrite (bcmp_antisym (fst a) (fst b)).
  destruct (bcmp (fst a) (fst b)); cbn; auto. apply ocmp_antisym.
Qed.

Lemma kcmp_lt_trans a b c : kcmp a b = Lt -> kcmp b c = Lt -> kcmp a c = Lt.
Proof.
  unfold kcmp. intros H1 H2.
  destruct (bcmp (fst a) (fst b)) eqn:E1; try discriminate.
  - apply bcmp_eq in E1. rewrite E1.
    destruct (bcmp (fst b) (fst c)) eqn:E2; try discriminate; [|reflexivity].
    eapply ocmp_lt_trans; eauto.
  - destruct (bcmp (fst b) (fst c)) eqn:E2; try discriminate.
    + apply bcmp_eq in E2. rewrite <- E2, E1. reflexivity.
    + rewrite (bcmp_lt_trans _ _ _ E1 E2). reflexivity.
Qed.

Lemma keqb_eq a b : keqb a b = true <-> a = b.
Proof.
  destruct a, b; unfold keqb; cbn. rewrite andb_true_iff, beqb_eq, obeqb_eq. split; [intros []|intros H; inversion H]; subst; auto.
Qed.

(* ---- candidates ---- *)
Lemma cands_from_spec dyn pre rest v r :
  In (v, r) (cands_from dyn pre rest) ->
  exists w, w <> [] /\ v = pre ++ w /\ rest = w ++ r /\ (dyn = true -> ~ In SL w).
Proof.
  revert pre; induction rest as [|b rest IH]; intros pre H; cbn in H; [destruct H|].
  destruct (dyn && N.eqb b SL) eqn:E; [destruct H|].
  destruct H as [H|H].
  - inversion H; subst. exists [b]. repeat split; try congruence.
    intros ->. cbn in E. intros [Heq|[]]. rewrite <- Heq, N.eqb_refl in E. discriminate.
  - destruct (IH _ H) as (w & Hw & -> & -> & Hd).
    exists (b :: w). repeat split; try congruence.
    + rewrite <- app_assoc. reflexivity.
    + intros ->. cbn in E. intros [Heq|Hin]; [rewrite <- Heq, N.eqb_refl in E; discriminate|]. apply Hd; auto.
Qed.

Lemma cands_spec k path v r :
  path <> [] -> In (v, r) (cands k path) ->
  v <> [] /\ path = v ++ r /\ (is_dyn k = true -> ~ In SL v) /\ (is_end k = true -> r = []).
Proof.
  unfold cands. intros Hp H. destruct (is_end k) eqn:Ee.
  - destruct H as [H|[]]. inversion H; subst. rewrite app_nil_r.
    repeat split; auto. destruct k; cbn in *; discriminate.
  - apply cands_from_spec in H as (w & Hw & -> & -> & Hd). cbn. repeat split; auto. discriminate.
Qed.

(* ---- pick ---- *)
Section PickW.
  Variable chk : bytes -> bytes -> bool.

  Definition pick_step (srch : bytes -> res) (ky : key) (best : res) (c : cand) : res :=
    if ok chk ky (fst c) then
      match srch (snd c) with
      | Some (i, ps) =>
        match best with
        | Some (bi, _) => if better i bi then Some (i, (fst ky, fst c) :: ps) else best
        | None => Some (i, (fst ky, fst c) :: ps)
        end
      | None => best
      end
    else best.

  Lemma pick_unfold srch ky cs : pick chk srch ky cs = fold_left (pick_step srch ky) cs None.
  Proof. reflexivity. Qed.

  (* whatever pick returns came from some accepted candidate *)
  Lemma fold_pick_some srch ky cs acc i ps :
    fold_left (pick_step srch ky) cs acc = Some (i, ps) ->
    acc = Some (i, ps) \/
    exists c ps', In c cs /\ ok chk ky (fst c) = true /\ srch (snd c) = Some (i, ps') /\ ps = (fst ky, fst c) :: ps'.
  Proof.
    revert acc; induction cs as [|c cs IH]; intros acc H; cbn in H; [auto|].
    apply IH in H as [H|(c' & ps' & Hin & Hok & Hs & ->)].
    - unfold pick_step in H. destruct (ok chk ky (fst c)) eqn:Eok; [|auto].
      destruct (srch (snd c)) as [[i' ps']|] eqn:Es; [|auto].
      destruct acc as [[bi bps]|].
      + destruct (better i' bi); [|auto]. inversion H; subst. right. exists c, ps'. cbn; auto.
      + inversion H; subst. right. exists c, ps'. cbn; auto.
    - right. exists c', ps'. cbn; auto.
  Qed.

  Lemma pick_some srch ky cs i ps :
    pick chk srch ky cs = Some (i, ps) ->
    exists c ps', In c cs /\ ok chk ky (fst c) = true /\ srch (snd c) = Some (i, ps') /\ ps = (fst ky, fst c) :: ps'.
  Proof. rewrite pick_unfold. intros H. apply fold_pick_some in H as [H|H]; [discriminate|exact H]. Qed.

  (* once something is held, the fold never loses it *)
  Lemma fold_pick_keeps srch ky cs x : exists y, fold_left (pick_step srch ky) cs (Some x) = Some y.
  Proof.
    revert x; induction cs as [|c cs IH]; intros x; cbn; [eauto|].
    unfold pick_step at 2. destruct (ok chk ky (fst c)); [|apply IH].
    destruct (srch (snd c)) as [[i ps]|]; [|apply IH].
    destruct x as [bi bps]. destruct (better i bi); apply IH.
  Qed.

  Lemma pick_step_none srch ky c :
    pick_step srch ky None c =
    if ok chk ky (fst c) then
      match srch (snd c) with Some (i, ps) => Some (i, (fst ky, fst c) :: ps) | None => None end
    else None.
  Proof. unfold pick_step. destruct (ok chk ky (fst c)); [|reflexivity]. destruct (srch (snd c)) as [[i ps]|]; reflexivity. Qed.

  Lemma pick_none srch ky cs :
    pick chk srch ky cs = None <-> forall c, In c cs -> ok chk ky (fst c) = true -> srch (snd c) = None.
  Proof.
    rewrite pick_unfold. induction cs as [|c cs IH]; cbn [fold_left].
    - split; [intros _ c []|reflexivity].
    - rewrite pick_step_none. destruct (ok chk ky (fst c)) eqn:Eok; cbv iota.
      + destruct (srch (snd c)) as [[i ps]|] eqn:Es; cbv iota.
        * split.
          -- intros H. destruct (fold_pick_keeps srch ky cs (i, (fst ky, fst c) :: ps)) as (y & Hy).
             pose proof (eq_trans (eq_sym Hy) H) as E. discriminate E.
          -- intros H. specialize (H c (or_introl eq_refl) Eok). congruence.
        * rewrite IH. split.
          -- intros H c' [<-|Hin] Hok'; auto.
          -- intros H c' Hin Hok'. apply H; auto. right; exact Hin.
      + rewrite IH. split.
        * intros H c' [<-|Hin] Hok'; [congruence|auto].
        * intros H c' Hin Hok'. apply H; auto. right; exact Hin.
  Qed.

  Lemma pick_ext srch1 srch2 ky cs :
    (forall c, In c cs -> srch1 (snd c) = srch2 (snd c)) -> pick chk srch1 ky cs = pick chk srch2 ky cs.
  Proof.
    rewrite !pick_unfold. generalize (@None (info * params)).
    induction cs as [|c cs IH]; intros acc H; cbn; [reflexivity|].
    assert (pick_step srch1 ky acc c = pick_step srch2 ky acc c) as ->
      by (unfold pick_step; rewrite (H c (or_introl eq_refl)); reflexivity).
    apply IH. intros c' Hc'. apply H. right; exact Hc'.
  Qed.

  (* candidates whose continuation fails can be dropped *)
  Lemma fold_pick_filter srch ky (keep : cand -> bool) cs : forall acc,
    (forall c, In c cs -> keep c = false -> srch (snd c) = None) ->
    fold_left (pick_step srch ky) (filter keep cs) acc = fold_left (pick_step srch ky) cs acc.
  Proof.
    induction cs as [|c cs IH]; intros acc H; cbn; [reflexivity|].
    destruct (keep c) eqn:Ek; cbn.
    - apply IH. intros c' Hc'. apply H. right; exact Hc'.
    - rewrite IH by (intros c' Hc'; apply H; right; exact Hc').
      f_equal. unfold pick_step. rewrite (H c (or_introl eq_refl) Ek).
      destruct (ok chk ky (fst c)); reflexivity.
  Qed.

  Lemma pick_filter srch ky (keep : cand -> bool) cs :
    (forall c, In c cs -> keep c = false -> srch (snd c) = None) ->
    pick chk srch ky (filter keep cs) = pick chk srch ky cs.
  Proof. rewrite !pick_unfold. apply fold_pick_filter. Qed.
End PickW.

(* ---- groups ---- *)
Lemma ginsert_in ky x gs k g :
  In (k, g) (ginsert ky x gs) ->
  (exists g0, In (k, g0) gs /\ (g = g0 \/ (k = ky /\ g = x :: g0))) \/ (k = ky /\ g = [x]).
Proof.
  induction gs as [|[k' g'] gs IH]; cbn.
  - intros [H|[]]. inversion H; subst. auto.
  - destruct (kcmp ky k') eqn:E.
    + apply kcmp_eq in E; subst k'. intros [H|H].
      * inversion H; subst. left. exists g'. split; [left; reflexivity|auto].
      * left. exists g. split; [right; exact H|auto].
    + intros [H|[H|H]].
      * inversion H; subst. auto.
      * inversion H; subst. left. exists g. split; [left; reflexivity|auto].
      * left. exists g. split; [right; exact H|auto].
    + intros [H|H].
      * inversion H; subst. left. exists g. split; [left; reflexivity|auto].
      * apply IH in H as [(g0 & Hin & Hg)|Hg]; [|auto].
        left. exists g0. split; [right; exact Hin|exact Hg].
Qed.

(* every member of a group comes from a route with that key *)
Lemma fold_ginsert_in (l : list (key * (route * info))) : forall ky g x,
  In (ky, g) (fold_right (fun kx gs => ginsert (fst kx) (snd kx) gs) [] l) -> In x g -> In (ky, x) l.
Proof.
  induction l as [|[k0 x0] l IH]; cbn; intros ky g x Hin Hx; [destruct Hin|].
  apply ginsert_in in Hin as [(g0 & Hin & [->|[-> ->]])|[-> ->]].
  - right. eapply IH; eauto.
  - destruct Hx as [<-|Hx]; [left; reflexivity|right; eapply IH; eauto].
  - destruct Hx as [<-|[]]. left; reflexivity.
Qed.

Lemma groups_in k rs ky g x :
  In (ky, g) (groups k rs) -> In x g -> exists ri, In ri rs /\ key_of k ri = Some (ky, x).
Proof.
  unfold groups. intros H Hx.
  pose proof (fold_ginsert_in _ _ _ _ H Hx) as Hin.
  apply filter_map_in in Hin as (ri & Hri & Hk). exists ri; auto.
Qed.

(* ---- walk: fuel, empty route list ---- *)
Section WalkW.
  Variable chk : bytes -> bytes -> bool.

  Lemma done_nil : done [] = None.
  Proof. reflexivity. Qed.

  Lemma walk_nil f p : walk chk f [] p = None.
  Proof.
    revert p; induction f as [|f IH]; intros p; cbn; [reflexivity|].
    destruct p as [|b rest]; [reflexivity|]. rewrite IH. cbn. reflexivity.
  Qed.

  Lemma classify_shape r k ky r' :
    classify r = Some (k, ky, r') ->
    r = (if is_dyn k then AD (fst ky) (snd ky) else AW (fst ky) (snd ky)) :: r'
    /\ (is_end k = true -> r' = []).
  Proof.
    destruct r as [|a r]; cbn; [discriminate|].
    destruct a as [b|n c|n c]; [discriminate| |].
    - destruct c; intros H; inversion H; subst; cbn; split; auto; discriminate.
    - destruct c, r; intros H; inversion H; subst; cbn; split; auto; discriminate.
  Qed.

  Lemma key_of_shape k ri ky x :
    key_of k ri = Some (ky, x) ->
    fst ri = (if is_dyn k then AD (fst ky) (snd ky) else AW (fst ky) (snd ky)) :: fst x
    /\ snd x = snd ri /\ (is_end k = true -> fst x = []).
  Proof.
    unfold key_of. destruct (classify (fst ri)) as [[[k' ky'] r']|] eqn:E; [|discriminate].
    destruct (kind_eqb k k') eqn:Ek; [|discriminate].
    assert (k = k') as <- by (destruct k, k'; cbn in Ek; congruence).
    intros H; inversion H; subst. cbn. apply classify_shape in E as [E1 E2]. auto.
  Qed.

  Lemma walk_S f rs p :
    walk chk (S f) rs p =
    match p with
    | [] => done rs
    | b :: rest =>
      or_else (walk chk f (filter_map (strip b) rs) rest)
        (first_some (fun k =>
           first_some (fun kg : key * routes => pick chk (walk chk f (snd kg)) (fst kg) (cands k p))
                      (groups k rs))
           all_kinds)
    end.
  Proof. destruct p; reflexivity. Qed.

  Lemma done_some rs i ps : done rs = Some (i, ps) -> ps = [] /\ In ([], i) rs.
  Proof.
    unfold done.
    destruct (filter_map _ rs) as [|i0 l] eqn:E; [discriminate|]. intros H; inversion H; subst.
    split; [reflexivity|].
    assert (Hin : In i (filter_map (fun ri : route * info => match fst ri with [] => Some (snd ri) | _ :: _ => None end) rs))
      by (rewrite E; left; reflexivity).
    apply filter_map_in in Hin as ([r i'] & Hri & Hm). cbn in Hm. destruct r; [|discriminate].
    inversion Hm; subst. exact Hri.
  Qed.

  Lemma strip_some b ri x : strip b ri = Some x -> fst ri = AB b :: fst x /\ snd x = snd ri.
  Proof.
    unfold strip. destruct ri as [r i]; cbn. destruct r as [|[y| |] r]; try discriminate.
    destruct (N.eqb_spec y b); [|discriminate]. intros H; inversion H; subst. auto.
  Qed.

  (* soundness: whatever W returns is one of the routes, laid over the path *)
  Theorem walk_sound f : forall rs p i ps,
    walk chk f rs p = Some (i, ps) ->
    exists r, In (r, i) rs /\ map fst ps = param_names r /\ fits chk r p (map snd ps).
  Proof.
    induction f as [|f IH]; intros rs p i ps H; [discriminate|].
    rewrite walk_S in H. destruct p as [|b rest].
    - apply done_some in H as [-> Hin]. exists []. repeat split; auto. constructor.
    - destruct (walk chk f (filter_map (strip b) rs) rest) as [[i1 ps1]|] eqn:E1; unfold or_else in H.
      + inversion H; subst. apply IH in E1 as (r' & Hin & Hn & Hf).
        apply filter_map_in in Hin as ([r0 i0] & Hin0 & Hs).
        apply strip_some in Hs as [Hr Hi]. cbn in Hr, Hi. subst.
        exists (AB b :: r'). repeat split; auto. constructor. exact Hf.
      + apply first_some_some in H as (k & _ & H).
        apply first_some_some in H as ([ky g] & Hg & H). cbn [fst snd] in H.
        apply pick_some in H as ([v r1] & ps' & Hc & Hok & Hw & ->). cbn [fst snd] in *.
        apply IH in Hw as (r' & Hin & Hn & Hf).
        destruct (groups_in _ _ _ _ _ Hg Hin) as ([r0 i0] & Hin0 & Hk).
        apply key_of_shape in Hk as (Hr0 & Hi & He). cbn [fst snd] in *. subst i0.
        apply cands_spec in Hc as (Hv & Hp & Hd & Hend); [|discriminate].
        unfold ok in Hok. apply andb_true_iff in Hok as [Hu Hc'].
        exists r0. split; [exact Hin0|]. rewrite Hr0, Hp.
        destruct (is_dyn k) eqn:Ed; cbn [map fst snd param_names]; rewrite Hn; (split; [reflexivity|]).
        * apply F_dyn; auto.
        * apply F_wild; auto.
  Qed.
End WalkW.
