(* C01 / C02 / C12: the eight parameter searches of src/node/search.rs as sequences of recognised statements, REGENERATED
   on every run (Gen/Loops.v).  Each is one of three loop shapes of the index-level model (Model/SearchC.v):
     grow MDynInline   : while consumed < len { if path[consumed] == '/' break; consumed += 1; take; [check]; utf8; rec; rank }
     grow MWildInline  : while consumed < len { consumed += 1; take; [check]; utf8; rec; rank }
     grow MWildSegment : while consumed < len { consumed += 1; boundary guard; take; [check]; utf8; rec; rank }
     dyn_segment       : segment end; empty -> None; take; [check]; push; utf8 -> None; try child; pop
   with the constraint check present exactly in the *_constrained_* functions, over the list of the right kind. *)
From Coq Require Import Ascii String List Bool.
From WF Require Import Base.Bytes Spec.Walk Model.SearchC Check.Tokens Gen.Loops.
Import ListNotations.
Local Open Scope string_scope.

Inductive shape := ShGrow (m : mode) | ShDynSegment.

Definition loop_body (sh : shape) (constrained : bool) : list string :=
  let chk := if constrained then ["check"] else [] in
  match sh with
  | ShGrow m =>
    ["while"] ++ (match m with MDynInline => ["stop-at-slash"] | _ => [] end) ++ ["inc"]
    ++ (match m with MWildSegment => ["boundary"] | _ => [] end)
    ++ ["take:consumed"] ++ chk ++ ["utf8-continue"; "clone-push"; "rec:consumed"; "rank"; "keep"; "return-best"; "none"]
  | ShDynSegment =>
    ["segment-end"; "empty-none"; "take:segment_end"] ++ chk ++ ["push"; "utf8-none"; "try-child"; "rec:segment_end"; "pop"; "none"]
  end.

Definition counts (sh : shape) (constrained : bool) : string :=
  match sh, constrained with
  | ShGrow MDynInline, true => "continue=3,break=1,return=1"
  | ShGrow MDynInline, false => "continue=2,break=1,return=1"
  | ShGrow MWildInline, true => "continue=3,break=0,return=1"
  | ShGrow MWildInline, false => "continue=2,break=0,return=1"
  | ShGrow MWildSegment, true => "continue=4,break=0,return=1"
  | ShGrow MWildSegment, false => "continue=3,break=0,return=1"
  | ShDynSegment, true => "continue=1,break=0,return=2"
  | ShDynSegment, false => "continue=0,break=0,return=2"
  end.

Definition expected_loops : list (string * string * shape * bool) :=
  [("search_dynamic_constrained_segment", "dynamic_constrained_children", ShDynSegment, true);
   ("search_dynamic_constrained_inline", "dynamic_constrained_children", ShGrow MDynInline, true);
   ("search_dynamic_segment", "dynamic_children", ShDynSegment, false);
   ("search_dynamic_inline", "dynamic_children", ShGrow MDynInline, false);
   ("search_wildcard_constrained_segment", "wildcard_constrained_children", ShGrow MWildSegment, true);
   ("search_wildcard_constrained_inline", "wildcard_constrained_children", ShGrow MWildInline, true);
   ("search_wildcard_segment", "wildcard_children", ShGrow MWildSegment, false);
   ("search_wildcard_inline", "wildcard_children", ShGrow MWildInline, false)].

Fixpoint bll_eqb (a : list bytes) (b : list string) : bool :=
  match a, b with [], [] => true | x :: a', y :: b' => beqb x (w y) && bll_eqb a' b' | _, _ => false end.

Fixpoint loops_eqb (a : list (bytes * list bytes)) (b : list (string * string * shape * bool)) : bool :=
  match a, b with
  | [], [] => true
  | (f, ls) :: a', (f', l, sh, c) :: b' =>
    beqb f (w f') && bll_eqb ls (("for:" ++ l) :: loop_body sh c ++ [counts sh c]) && loops_eqb a' b'
  | _, _ => false
  end.

Lemma search_loops_have_the_model_shapes : loops_eqb gen_search_loops expected_loops = true.
Proof. vm_compute. reflexivity. Qed.
