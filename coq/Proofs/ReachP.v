(* Every router the model can reach by insert / delete / constraint operations satisfies the
   invariant, hence all theorems about inv_b trees hold for every history of operations. *)
From Coq Require Import Lia Arith PeanoNat.
From WF Require Import Base.Bytes Base.Utf8 Spec.Route Spec.Walk Model.Tree Model.Parser Model.Ops Model.Router Spec.Inv.
From WF Require Import Proofs.BytesP Proofs.WalkP Proofs.RefineP Proofs.InvP Proofs.OptimizeP Proofs.OpsLemmasP
     Proofs.InsertP Proofs.DeleteP Proofs.ParserPartsP Proofs.RouterP.

Lemma fold_insert_ok (mk : expansion -> info) : forall (es : list expansion) root,
  Forall (fun e : expansion => parts_wf false (snd e) = true) es ->
  wf root = true -> disc root = true ->
  let root' := fold_left (fun root (e : expansion) => insert (ops_fuel (snd e)) root (snd e) (mk e)) es root in
  wf root' = true /\ disc root' = true.
Proof.
  induction es as [|e es IH]; intros root Hes Hwf Hd; cbn [fold_left]; [auto|].
  apply Forall_inv in Hes as He. apply Forall_inv_tail in Hes.
  destruct (proj1 (insert_ok (ops_fuel (snd e))) root (snd e) (mk e) false) as (H1 & H2 & _);
    [unfold ops_fuel; lia|exact Hwf|exact Hd|exact He|].
  apply IH; assumption.
Qed.

Lemma fold_delete_ok : forall (es : list expansion) (acc : node * option N),
  wf (fst acc) = true -> tidy (fst acc) = true ->
  let acc' := fold_left (fun (acc : node * option N) (e : expansion) =>
                           let '(root', x) := delete (ops_fuel (snd e)) (fst acc) (snd e) in
                           (root', match x with Some i => Some (i_data i) | None => snd acc end)) es acc in
  wf (fst acc') = true /\ tidy (fst acc') = true.
Proof.
  induction es as [|e es IH]; intros acc Hwf Ht; cbn [fold_left]; [auto|].
  destruct (delete (ops_fuel (snd e)) (fst acc) (snd e)) as [root' x] eqn:Ed.
  apply IH; cbn [fst].
  - pose proof (delete_wf_tidy (ops_fuel (snd e)) (fst acc) (snd e) Hwf Ht) as H. rewrite Ed in H. apply H.
  - pose proof (delete_wf_tidy (ops_fuel (snd e)) (fst acc) (snd e) Hwf Ht) as H. rewrite Ed in H. apply H.
Qed.

Definition RInv (r : router) : Prop := wf (r_root r) = true /\ tidy (r_root r) = true.

Lemma rinsert_inv r t d : RInv r -> RInv (fst (rinsert r t d)).
Proof.
  intros [Hwf Ht]. unfold rinsert.
  destruct (parse t) as [es|te|s|] eqn:Ep; cbn [fst]; try (split; assumption).
  destruct (first_some _ es); cbn [fst]; [split; assumption|].
  destruct (filter_map _ es); cbn [fst]; [|split; assumption].
  unfold RInv. cbn [r_root].
  set (mk := fun e : expansion => Info t (if match es with _ :: _ :: _ => true | _ => false end then Some (fst e) else None)
                                       (count_slash (fst e)) (N.of_nat (length (fst e))) d).
  destruct (fold_insert_ok mk es (r_root r) (parse_parts_wf t es Ep) Hwf (tidy_disc _ Ht)) as [H1 H2].
  apply optimize_wf_tidy; assumption.
Qed.

Lemma rdelete_inv r t : RInv r -> RInv (fst (rdelete r t)).
Proof.
  intros [Hwf Ht]. unfold rdelete.
  destruct (parse t) as [es|te|s|]; cbn [fst]; try (split; assumption).
  destruct (first_some _ es); cbn [fst]; [split; assumption|].
  destruct (existsb _ es); cbn [fst]; [split; assumption|].
  destruct (fold_delete_ok es (r_root r, None) Hwf Ht) as [H1 H2].
  destruct (fold_left _ es (r_root r, None)) as [root [d|]]; cbn [fst] in *; unfold RInv; cbn [r_root].
  - apply optimize_wf_tidy; [exact H1|apply tidy_disc; exact H2].
  - split; assumption.
Qed.

Lemma rconstraint_inv r n ty : RInv r -> RInv (fst (rconstraint r n ty)).
Proof.
  intros H. unfold rconstraint. destruct (find _ (r_constraints r)) as [[? ?]|]; cbn [fst]; exact H.
Qed.

(* ---- histories ---- *)
Inductive op := OInsert (t : bytes) (d : N) | ODelete (t : bytes) | OConstraint (name type_name : bytes).

Definition step (r : router) (o : op) : router :=
  match o with
  | OInsert t d => fst (rinsert r t d)
  | ODelete t => fst (rdelete r t)
  | OConstraint n ty => fst (rconstraint r n ty)
  end.

Definition run (builtins : list (bytes * bytes)) (ops : list op) : router := fold_left step ops (new_router builtins).

Theorem reachable_inv builtins ops : RInv (run builtins ops).
Proof.
  unfold run. assert (H0 : RInv (new_router builtins)) by (split; reflexivity).
  revert H0. generalize (new_router builtins). induction ops as [|o ops IH]; intros r Hr; cbn [fold_left]; [exact Hr|].
  apply IH. destruct o; cbn [step]; [apply rinsert_inv|apply rdelete_inv|apply rconstraint_inv]; exact Hr.
Qed.

Corollary reachable_inv_b builtins ops : inv_b (r_root (run builtins ops)) = true.
Proof. destruct (reachable_inv builtins ops) as [H1 H2]. apply wf_tidy_inv; assumption. Qed.

(* for every history of operations, every path and every constraint predicate, the router answers
   as the documented walk over the routes it holds *)
Theorem reachable_search_is_W builtins ops chk p :
  rsearch chk (run builtins ops) p = W chk (routes_of (r_root (run builtins ops))) p.
Proof. unfold rsearch. apply search_refines_W. apply reachable_inv_b. Qed.
