(* C04, side by side: a router holding a template with optional groups answers every path exactly like the router
   obtained by inserting, with the same data, each of its expansion texts as a template of its own - up to the
   reported template / expansion fields: the grouped router reports (t, Some e), the other one (e, None). *)
From Coq Require Import Lia Arith PeanoNat Permutation.
From WF Require Import Base.Bytes Base.Utf8 Spec.Route Spec.Walk Model.Tree Model.Parser Model.Ops Model.Router Spec.Inv.
From WF Require Import Proofs.BytesP Proofs.WalkP Proofs.WalkPermP Proofs.RefineP Proofs.InvP Proofs.RoutesP Proofs.InsRoutesP
     Proofs.ParserPartsP Proofs.RouterP Proofs.ReachP Proofs.RouterRoutesP Proofs.RegistryP Proofs.ReachOpsP
     Proofs.WalkMapP Proofs.FlatP.

(* the infos of template t, relabelled as if each expansion had been inserted as its own template *)
Definition relabel (t : bytes) (i : info) : info :=
  if beqb (i_template i) t
  then match i_expanded i with
       | Some raw => Info raw None (i_depth i) (i_length i) (i_data i)
       | None => i
       end
  else i.

Lemma relabel_depth t i : i_depth (relabel t i) = i_depth i.
Proof. unfold relabel. destruct (beqb (i_template i) t); [|reflexivity]. destruct (i_expanded i); reflexivity. Qed.
Lemma relabel_length t i : i_length (relabel t i) = i_length i.
Proof. unfold relabel. destruct (beqb (i_template i) t); [|reflexivity]. destruct (i_expanded i); reflexivity. Qed.

Lemma relabel_new t d e : relabel t (mk_info t true d e) = mk_info (fst e) false d e.
Proof. unfold relabel, mk_info. cbn [i_template i_expanded i_depth i_length i_data]. rewrite beqb_refl. reflexivity. Qed.

Lemma relabel_other t i : i_template i <> t -> relabel t i = i.
Proof. intros H. unfold relabel. destruct (beqb (i_template i) t) eqn:E; [apply beqb_eq in E; contradiction|reflexivity]. Qed.

(* with pairwise different routes, the info stored for an expansion route is the one built from that expansion *)
Lemma fold_info_nodup mk : forall es r0 cur,
  NoDup (map exp_route es) -> (cur <> None -> forall e, In e es -> exp_route e <> r0) ->
  fold_info mk es r0 cur = match cur with
                           | Some o => Some o
                           | None => option_map mk (List.find (fun e => if route_eq_dec (exp_route e) r0 then true else false) es)
                           end.
Proof.
  induction es as [|e es IH]; intros r0 cur Hn Hcur; cbn [fold_info List.find]; [destruct cur; reflexivity|].
  cbn [map] in Hn. apply NoDup_cons_iff in Hn as [Hne Hn].
  destruct (route_eq_dec (exp_route e) r0) as [Heq|Hneq].
  - destruct cur as [o|]; [exfalso; apply (Hcur ltac:(discriminate) e (or_introl eq_refl) Heq)|].
    rewrite IH; [reflexivity|exact Hn|]. intros _ e' He' He'r. apply Hne. rewrite Heq, <- He'r. apply in_map. exact He'.
  - rewrite IH; [reflexivity|exact Hn|]. intros Hc e' He'. apply Hcur; [exact Hc|right; exact He'].
Qed.

Lemma tinfo_nodup t d es e :
  NoDup (map exp_route es) -> In e es -> 2 <= length es ->
  tinfo t d es (exp_route e) = Some (mk_info t true d e).
Proof.
  intros Hn He Hl. unfold tinfo. replace (match es with _ :: _ :: _ => true | _ => false end) with true
    by (destruct es as [|a [|b l]]; cbn in Hl; try lia; reflexivity).
  rewrite fold_info_nodup; [|exact Hn|congruence].
  assert (Hf : List.find (fun e0 => if route_eq_dec (exp_route e0) (exp_route e) then true else false) es = Some e).
  { clear Hl. induction es as [|a es IH]; [destruct He|]. cbn [List.find]. cbn [map] in Hn. apply NoDup_cons_iff in Hn as [Ha Hn].
    destruct (route_eq_dec (exp_route a) (exp_route e)) as [Heq|Hneq].
    - destruct He as [->|He]; [reflexivity|]. exfalso. apply Ha. rewrite Heq. apply in_map. exact He.
    - destruct He as [->|He]; [congruence|]. apply IH; assumption. }
  rewrite Hf. reflexivity.
Qed.

(* ---- inserting the expansion texts one by one ---- *)
From WF Require Import Proofs.ConsRegP.

Definition one_by_one (es : list expansion) (d : N) (r : router) : router :=
  fold_left (fun r' (e : expansion) => fst (rinsert r' (fst e) d)) es r.

Lemma unknown_single r es e : unknown_constraint r es = None -> In e es -> unknown_constraint r [e] = None.
Proof.
  unfold unknown_constraint. intros H He. pose proof (proj1 (first_some_none _ _) H e He) as Hf. cbv beta in Hf.
  cbn [first_some]. rewrite Hf. reflexivity.
Qed.

Lemma unknown_same_constraints r r' es : r_constraints r' = r_constraints r -> unknown_constraint r' es = unknown_constraint r es.
Proof. intros H. unfold unknown_constraint, registered. rewrite H. reflexivity. Qed.

Lemma one_by_one_spec d : forall es r,
  RInv r -> (forall e, In e es -> parse (fst e) = Ret [e]) -> NoDup (map exp_route es) ->
  (forall e, In e es -> unknown_constraint r [e] = None) ->
  (forall e i, In e es -> ~ RM (r_root r) (exp_route e) i) ->
  RInv (one_by_one es d r)
  /\ forall r0 j, RM (r_root (one_by_one es d r)) r0 j <->
                  RM (r_root r) r0 j \/ exists e, In e es /\ r0 = exp_route e /\ j = mk_info (fst e) false d e.
Proof.
  induction es as [|e es IH]; intros r HR Hp Hn Hu Hfree; cbn [one_by_one fold_left].
  - split; [exact HR|]. intros r0 j. split; [auto|]. intros [H|(e & [] & _)]. exact H.
  - cbn [map] in Hn. apply NoDup_cons_iff in Hn as [Hne Hn].
    pose proof (Hp e (or_introl eq_refl)) as Hpe.
    destruct (proj2 (rinsert_outcome r (fst e) d [e] HR Hpe (Hu e (or_introl eq_refl)))) as (r' & Hi).
    { intros e' i [<-|[]]. apply Hfree. left; reflexivity. }
    rewrite Hi. cbn [fst]. fold (one_by_one es d r').
    pose proof (rinsert_inv r (fst e) d HR) as HR'. rewrite Hi in HR'. cbn [fst] in HR'.
    destruct (rinsert_ok_exact r (fst e) d r' HR Hi) as (es' & Hpe' & Hex). rewrite Hpe in Hpe'. inversion Hpe'; subst es'.
    destruct (rinsert_ok_validated r (fst e) d r' Hi) as (_ & _ & _ & Hcs).
    destruct (IH r' HR') as [HRf Hspec].
    + intros e' He'. apply Hp. right; exact He'.
    + exact Hn.
    + intros e' He'. rewrite (unknown_same_constraints r r' [e'] Hcs). apply Hu. right; exact He'.
    + intros e' i He' Hi'. apply Hex in Hi' as [Hold|Hnew]; [apply (Hfree e' i (or_intror He') Hold)|].
      rewrite tinfo_single in Hnew. destruct (route_eq_dec (exp_route e) (exp_route e')) as [Heq|]; [|discriminate].
      apply Hne. rewrite Heq. apply in_map. exact He'.
    + split; [exact HRf|]. intros r0 j. rewrite Hspec, Hex, tinfo_single. split.
      * intros [[Hold|Hnew]|(e' & He' & Hr & Hj)]; [left; exact Hold| |right; exists e'; split; [right; exact He'|auto]].
        destruct (route_eq_dec (exp_route e) r0) as [Heq|]; [|discriminate]. inversion Hnew. right. exists e. split; [left; reflexivity|auto].
      * intros [Hold|(e' & [<-|He'] & Hr & Hj)]; [left; left; exact Hold| |right; exists e'; auto].
        left. right. subst r0 j. destruct (route_eq_dec (exp_route e) (exp_route e)); [reflexivity|congruence].
Qed.

Lemma map_fst_mapf f rs : map fst (mapf f rs) = map fst rs.
Proof. unfold mapf. rewrite map_map. reflexivity. Qed.

Lemma in_mapf f rs r0 j : In (r0, j) (mapf f rs) <-> exists i, In (r0, i) rs /\ j = f i.
Proof.
  unfold mapf. rewrite in_map_iff. split.
  - intros ([r i] & Heq & Hin). cbn [fst snd] in Heq. inversion Heq; subst. eauto.
  - intros (i & Hin & ->). exists (r0, i). auto.
Qed.

(* C04: the grouped template and its expansions inserted one by one route every path alike *)
Theorem groups_side_by_side b ops t d es r1 chk p :
  parse t = Ret es -> 2 <= length es -> NoDup (map exp_route es) ->
  rinsert (run b ops) t d = (r1, ROk tt) ->
  rsearch chk (one_by_one es d (run b ops)) p = resf (relabel t) (rsearch chk r1 p).
Proof.
  intros Ep Hlen Hnd Hi. set (r := run b ops) in *.
  pose proof (reachable_inv b ops) as HR. fold r in HR. pose proof (reachable_abs b ops) as A. fold r in A.
  destruct (rinsert_ok_routes r t d r1 HR Hi) as (es' & Ep' & Hfree & _). rewrite Ep in Ep'. inversion Ep'; subst es'. clear Ep'.
  destruct (rinsert_ok_exact r t d r1 HR Hi) as (es' & Ep' & Hex1). rewrite Ep in Ep'. inversion Ep'; subst es'. clear Ep'.
  destruct (rinsert_ok_validated r t d r1 Hi) as (es' & Ep' & Hunk & _). rewrite Ep in Ep'. inversion Ep'; subst es'. clear Ep'.
  destruct (one_by_one_spec d es r HR) as [HR2 Hex2].
  { intros e He. apply (parse_expansion_text t es Ep e He). }
  { exact Hnd. }
  { intros e He. apply (unknown_single r es e Hunk He). }
  { exact Hfree. }
  pose proof (rinsert_inv r t d HR) as HR1. rewrite Hi in HR1. cbn [fst] in HR1.
  (* old routes do not belong to t *)
  assert (Hold : forall r0 i, RM (r_root r) r0 i -> i_template i <> t).
  { intros r0 i Hri Ht. destruct (abs_sound r _ A r0 i Hri) as [_ (es' & e' & Ep' & He' & ->)].
    rewrite Ht, Ep in Ep'. inversion Ep'; subst es'. apply (Hfree e' i He' Hri). }
  unfold rsearch.
  destruct HR1 as [W1 T1]. destruct HR2 as [W2 T2].
  rewrite (search_refines_W chk _ p (wf_tidy_inv _ W2 T2)), (search_refines_W chk _ p (wf_tidy_inv _ W1 T1)).
  rewrite <- (W_mapf chk (relabel t) (relabel_depth t) (relabel_length t)).
  apply W_perm; [|apply routes_nodup; exact W2].
  apply NoDup_Permutation.
  - apply NoDup_of_fst, routes_nodup, W2.
  - apply NoDup_of_fst. rewrite map_fst_mapf. apply routes_nodup, W1.
  - intros [r0 j]. rewrite in_mapf. change (In (r0, j) (routes_of (r_root (one_by_one es d r)))) with (RM (r_root (one_by_one es d r)) r0 j).
    rewrite Hex2. split.
    + intros [Ho|(e & He & -> & ->)].
      * exists j. split; [apply Hex1; left; exact Ho|]. symmetry. apply relabel_other. apply (Hold r0 j Ho).
      * exists (mk_info t true d e). split; [apply Hex1; right; apply tinfo_nodup; assumption|]. symmetry. apply relabel_new.
    + intros (i & Hin & ->). apply Hex1 in Hin as [Ho|Hn].
      * left. rewrite relabel_other; [exact Ho|apply (Hold r0 i Ho)].
      * right. destruct (tinfo_some t d es r0 i Hn) as (e & He & Hr & _). subst r0.
        rewrite (tinfo_nodup t d es e Hnd He Hlen) in Hn. inversion Hn; subst i.
        exists e. split; [exact He|]. split; [reflexivity|apply relabel_new].
Qed.
