(* The OCI example's model routers are routers reached by a history of inserts; the general theorems apply. *)
From Coq Require Import Lia.
From WF Require Import Base.Bytes Base.Utf8 Spec.Route Spec.Walk Spec.OciSpec Model.Tree Model.Parser Model.Ops Model.Router Spec.Inv.
From WF Require Import Check.Tokens Check.Oci Gen.Oci.
From WF Require Import Proofs.WalkP Proofs.FitsP Proofs.TreeCorP Proofs.InsRoutesP Proofs.ReachP Proofs.RouterRoutesP Proofs.RegistryP Proofs.ReachOpsP.

Definition oci_builtins : list (bytes * bytes) := [(NAME_C, NAME_C)].

Fixpoint oci_ops_from (m : bytes) (l : list (bytes * bytes * bytes)) (idx : N) : list op :=
  match l with
  | [] => []
  | (me, t, _) :: l' => if beqb me m then OInsert t idx :: oci_ops_from m l' (idx + 1)%N else oci_ops_from m l' (idx + 1)%N
  end.
Definition oci_ops (m : bytes) : list op := oci_ops_from m oci_routes 0%N.

Lemma oci_router_is_run m : oci_router m = run oci_builtins (oci_ops m).
Proof.
  unfold oci_router, run, oci_ops, new_router, oci_builtins.
  generalize (Router empty_node [(NAME_C, NAME_C)]) as r. generalize 0%N as idx. generalize oci_routes as l.
  induction l as [|[[me t] h] l IH]; intros idx r; [reflexivity|].
  cbn [oci_ops_from]. destruct (beqb me m); cbn [fold_left step]; apply IH.
Qed.

(* every routed URL is a genuine reading: a template of the table for this method, laid over the URL with the
   returned values, the repository name accepted by the name grammar *)
Theorem oci_routed_is_genuine m url i ps :
  rsearch oci_chk (oci_router m) url = Some (i, ps) ->
  exists r, RM (r_root (oci_router m)) r i /\ map fst ps = param_names r /\ fits oci_chk r url (map snd ps).
Proof.
  rewrite oci_router_is_run. intros H. unfold rsearch in H.
  apply (search_genuine oci_chk _ url i ps (reachable_inv_b oci_builtins (oci_ops m)) H).
Qed.

(* every URL that some template of the table (for this method) fits is routed *)
Theorem oci_fitting_url_is_routed m url r i vs :
  RM (r_root (oci_router m)) r i -> fits oci_chk r url vs -> rsearch oci_chk (oci_router m) url <> None.
Proof.
  rewrite oci_router_is_run. intros Hin Hf.
  apply (search_complete oci_chk _ url r i vs (reachable_inv_b oci_builtins (oci_ops m)) Hin Hf).
Qed.

(* the stored routes are exactly the expansions of the table's templates for the method *)
Theorem oci_routes_are_the_table m r0 i :
  RM (r_root (oci_router m)) r0 i <->
  exists t d es, In (t, d) (live_of oci_builtins (oci_ops m)) /\ parse t = Ret es /\ tinfo t d es r0 = Some i.
Proof. rewrite oci_router_is_run. apply (abs_exact _ _ (reachable_abs oci_builtins (oci_ops m))). Qed.

(* every insert of the table succeeds: the live list of each method is its slice of the table *)
Definition table_slice (m : bytes) : list (bytes * N) :=
  (fix go (l : list (bytes * bytes * bytes)) (idx : N) : list (bytes * N) :=
     match l with
     | [] => []
     | (me, t, _) :: l' => if beqb me m then go l' (idx + 1)%N ++ [(t, idx)] else go l' (idx + 1)%N
     end) oci_routes 0%N.

Lemma oci_live_is_table : forallb (fun m =>
  (fix eqb (a b : list (bytes * N)) : bool :=
     match a, b with
     | [], [] => true
     | (t1, d1) :: a', (t2, d2) :: b' => beqb t1 t2 && N.eqb d1 d2 && eqb a' b'
     | _, _ => false
     end) (live_of oci_builtins (oci_ops m)) (table_slice m)) methods = true.
Proof. vm_compute. reflexivity. Qed.
