(* C15: the printable key every node stores (src/state.rs, REGENERATED into Gen/Keys.v on every run) is the label the
   model printer writes (Model/Display.v node_label) - for every name and constraint, not for sampled ones. *)
From Coq Require Import List.
From WF Require Import Base.Bytes Base.Utf8 Spec.Route Spec.Walk Model.Tree Model.Display Gen.Formats Gen.Keys.
Import ListNotations.

Definition F_NAME : bytes := [110; 97; 109; 101]%N.
Definition F_CONSTRAINT : bytes := [99; 111; 110; 115; 116; 114; 97; 105; 110; 116]%N.

(* format!(..) over the two fields a parameter state has *)
Definition interp_key (fmt : list chunk) (name constraint : bytes) : bytes :=
  flat_map (fun c => match c with
                     | CLit s => s
                     | CField f => if beqb f F_NAME then name else if beqb f F_CONSTRAINT then constraint else []
                     end) fmt.

Definition key_fmt (k : kind) (constrained : bool) : option (list chunk) :=
  match k, constrained with
  | KDC, _ => key_DynamicConstrainedState
  | KDY, _ => key_DynamicState
  | KWC, _ => key_WildcardConstrainedState
  | KWI, _ => key_WildcardState
  | KEC, _ => key_EndWildcardConstrainedState
  | KEN, _ => key_EndWildcardState
  end.

(* the kinds that carry a constraint are stored with one, the others without: the shape of the keys of a well-formed tree *)
Definition key_shape (k : kind) (ky : key) : Prop :=
  match k with
  | KDC | KWC | KEC => exists c, snd ky = Some c
  | KDY | KWI | KEN => snd ky = None
  end.

Lemma stored_key_is_the_printed_label (k : kind) (ky : key) :
  key_shape k ky ->
  exists fmt, key_fmt k true = Some fmt
    /\ interp_key fmt (fst ky) (match snd ky with Some c => c | None => [] end) = node_label (Some k) ky.
Proof.
  destruct ky as [n oc].
  assert (Hc : forall (k0 : kind) c, oc = Some c -> k0 = KDC \/ k0 = KWC \/ k0 = KEC ->
            exists fmt, key_fmt k0 true = Some fmt /\ interp_key fmt n c = node_label (Some k0) (n, Some c)).
  { intros k0 c _ [->|[->| ->]]; (eexists; split; [reflexivity|]);
      unfold interp_key, node_label; cbn; rewrite ?app_nil_r, <- ?app_assoc; reflexivity. }
  assert (Hn : forall (k0 : kind), k0 = KDY \/ k0 = KWI \/ k0 = KEN ->
            exists fmt, key_fmt k0 true = Some fmt /\ interp_key fmt n [] = node_label (Some k0) (n, None)).
  { intros k0 [->|[->| ->]]; (eexists; split; [reflexivity|]);
      unfold interp_key, node_label; cbn; rewrite ?app_nil_r, <- ?app_assoc; reflexivity. }
  destruct k; cbn [key_shape snd fst]; intros H.
  - destruct H as [c Hc']. subst oc. apply (Hc KDC c eq_refl). auto.
  - subst oc. apply Hn. auto.
  - destruct H as [c Hc']. subst oc. apply (Hc KWC c eq_refl). auto.
  - subst oc. apply Hn. auto.
  - destruct H as [c Hc']. subst oc. apply (Hc KEC c eq_refl). auto.
  - subst oc. apply Hn. auto.
Qed.

(* literal nodes: the key is String::from_utf8_lossy(&prefix) - node_label None is `lossy` -, and every padding is
   <prefix or name>.len().saturating_sub(1) *)
Lemma literal_key_and_paddings :
  key_StaticState = None /\ key_lossy_StaticState = true
  /\ padding_of_StaticState = Some [112; 114; 101; 102; 105; 120]%N
  /\ Forall (fun p => p = Some F_NAME)
       [padding_of_DynamicConstrainedState; padding_of_DynamicState; padding_of_WildcardConstrainedState;
        padding_of_WildcardState; padding_of_EndWildcardConstrainedState; padding_of_EndWildcardState]
  /\ (forall ky, node_label None ky = lossy (fst ky)).
Proof. repeat split; try reflexivity. repeat constructor. Qed.

(* ---- the sibling order (C03 / C15): `Ord` of the three unconstrained parameter states compares the names, of the three
        constrained ones the names and then the constraints, of literal nodes the prefixes; every PartialOrd delegates to
        Ord.  The model's order on keys (Spec/Walk.v kcmp: bcmp on the first component, then ocmp on the second) is
        that: with no constraint on either side it is the comparison of the names, with a constraint on both sides
        names first, constraints second. *)
From Coq Require Import Ascii String.
From WF Require Import Check.Tokens Proofs.BytesP.
Lemma sibling_order_shape :
  ord_StaticState = w "self.prefix.cmp(&other.prefix)"
  /\ Forall (fun o => o = w "self.name.cmp(&other.name)") [ord_DynamicState; ord_WildcardState; ord_EndWildcardState]
  /\ Forall (fun o => o = w "self.name.cmp(&other.name).then_with(||self.constraint.cmp(&other.constraint))")
       [ord_DynamicConstrainedState; ord_WildcardConstrainedState; ord_EndWildcardConstrainedState]
  /\ partial_ord_delegates = partial_ord_impls.
Proof. vm_compute. repeat split; repeat constructor. Qed.

Lemma kcmp_unconstrained (a b : bytes) : kcmp (a, None) (b, None) = bcmp a b.
Proof. unfold kcmp. cbn [fst snd]. destruct (bcmp a b); reflexivity. Qed.

Lemma kcmp_constrained (a b c d : bytes) :
  kcmp (a, Some c) (b, Some d) = match bcmp a b with Eq => bcmp c d | o => o end.
Proof. unfold kcmp. cbn [fst snd]. destruct (bcmp a b); reflexivity. Qed.
