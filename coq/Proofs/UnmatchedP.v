(* C14, "the unmatched parenthesis": an UnbalancedParenthesis error points at a parenthesis that really has no
   partner: everything before it is balanced (escape pairs skipped), and it is either a ')' (nothing is open)
   or a '(' whose group never closes. *)
From Coq Require Import Lia Arith PeanoNat ZArith.
From WF Require Import Base.Bytes Base.Utf8 Spec.Route Spec.Grammar Model.Parser.
From WF Require Import Proofs.BytesP Proofs.ParserPartsP Proofs.ParserSafeP Proofs.ExpandP Proofs.ParserSpecP Proofs.ExpandSpecP Proofs.ErrP.

(* nesting depth after a text, starting at depth d: None when a ')' occurs with nothing open, or the text ends
   in the first half of an escape pair *)
Fixpoint nest (x : bytes) (d : nat) {struct x} : option nat :=
  match x with
  | [] => Some d
  | c :: x' =>
    if N.eqb c BSL then match x' with _ :: x'' => nest x'' d | [] => None end
    else if N.eqb c LP then nest x' (S d)
    else if N.eqb c RP then match d with O => None | S d' => nest x' d' end
    else nest x' d
  end.

Lemma nest_app : forall a b d d1, nest a d = Some d1 -> nest (a ++ b) d = nest b d1.
Proof.
  fix IH 1. intros a b d d1 H. destruct a as [|c a']; [inversion H; reflexivity|]. cbn [nest app] in *.
  destruct (N.eqb c BSL).
  - destruct a' as [|y a'']; [discriminate|]. cbn [app]. apply (IH a'' b d d1 H).
  - destruct (N.eqb c LP); [apply (IH a' b _ d1 H)|].
    destruct (N.eqb c RP); [|apply (IH a' b _ d1 H)].
    destruct d as [|d']; [discriminate|]. apply (IH a' b _ d1 H).
Qed.

Lemma da_nest : forall x d e, depth_after x d = Some e -> nest x d = Some e.
Proof.
  fix IH 1. intros x d e H. destruct x as [|c x']; [exact H|]. cbn [nest depth_after] in *.
  destruct (N.eqb c BSL).
  - destruct x' as [|y x'']; [discriminate|]. apply (IH x'' d e H).
  - destruct (N.eqb c LP); [apply (IH x' _ e H)|].
    destruct (N.eqb c RP); [|apply (IH x' _ e H)].
    destruct d as [|[|d']]; try discriminate. apply (IH x' _ e H).
Qed.

Lemma sc_app_none : forall x y d e, depth_after x d = Some e -> 1 <= d -> split_close y e = None -> split_close (x ++ y) d = None.
Proof.
  fix IH 1. intros x y d e H Hd Hy. destruct x as [|c x']; [inversion H; subst; exact Hy|]. cbn [depth_after] in H. cbn [app split_close].
  destruct (N.eqb c BSL).
  - destruct x' as [|z x'']; [discriminate|]. cbn [app]. rewrite (IH x'' y d e H Hd Hy). reflexivity.
  - destruct (N.eqb c LP); [rewrite (IH x' y (S d) e H ltac:(lia) Hy); reflexivity|].
    destruct (N.eqb c RP); [|rewrite (IH x' y d e H Hd Hy); reflexivity].
    destruct d as [|[|d']]; try discriminate. rewrite (IH x' y (S d') e H ltac:(lia) Hy). reflexivity.
Qed.

Definition paren_unmatched (input : bytes) (e : terr) : Prop :=
  match e with
  | EUnbalancedParenthesis _ p =>
      nest (firstn p input) 0 = Some 0
      /\ (nth_error input p = Some RP
          \/ (nth_error input p = Some LP /\ split_close (skipn (S p) input) 1 = None))
  | _ => True
  end.

Section Top.
  Variable input : bytes.
  Notation sg := (seg input).
  Variable rec : nat -> nat -> out (list bytes).
  Hypothesis Hrec : forall g c e, 1 <= g -> nth_error input (g - 1) = Some LP -> g <= c -> c <= length input ->
                      depth_after (sg g c) 1 = Some 1 -> rec g c = Err e -> empty_paren_err input e.

  Definition top_inv (group cursor : nat) (depth : Z) : Prop :=
    (depth = 0%Z -> nest (sg 0 cursor) 0 = Some 0) /\ ((1 <= depth)%Z -> nest (sg 0 (group - 1)) 0 = Some 0).

  Lemma sg0 c : sg 0 c = firstn c input.
  Proof. unfold seg. cbn [skipn]. rewrite Nat.sub_0_r. reflexivity. Qed.

  Lemma sg_end a : a <= length input -> sg a (length input) = skipn a input.
  Proof. intros H. unfold seg. apply firstn_all2. rewrite skipn_length. lia. Qed.

  Lemma open_unclosed group cursor d tail :
    1 <= group -> group <= cursor -> skipn group input = sg group cursor ++ tail ->
    nest (sg 0 (group - 1)) 0 = Some 0 -> nth_error input (group - 1) = Some LP ->
    depth_after (sg group cursor) 1 = Some d -> split_close tail d = None ->
    forall t, paren_unmatched input (EUnbalancedParenthesis t (group - 1)).
  Proof.
    intros Hg Hgc Hsk Hn Hlp Hda Ht t. cbn [paren_unmatched]. rewrite <- sg0. split; [exact Hn|]. right. split; [exact Hlp|].
    replace (S (group - 1)) with group by lia. rewrite Hsk. apply (sc_app_none _ _ 1 d Hda ltac:(lia) Ht).
  Qed.

  Lemma scan_unmatched_top : forall steps cursor group depth result e,
    group <= cursor -> cursor <= length input -> (0 <= depth)%Z ->
    in_group input group cursor depth -> top_inv group cursor depth ->
    scan_f rec input 0 (length input) steps cursor group depth result = Err e -> paren_unmatched input e.
  Proof.
    induction steps as [|steps IH]; intros cursor group depth result e Hgc Hce Hd Hin Htop H; [discriminate|].
    rewrite scan_f_S in H. destruct (Nat.ltb cursor (length input)) eqn:El.
    - apply Nat.ltb_lt in El.
      destruct (nth_error input cursor) as [c|] eqn:En; [|apply nth_error_None in En; lia].
      rewrite (idx_nth input cursor 1 c En) in H. cbn [bind] in H.
      destruct (N.eqb c BSL) eqn:EB.
      + destruct (nth_error input (S cursor)) as [y|] eqn:En1; cbn [andb] in H.
        * assert (Hlt1 : S cursor < length input) by (apply nth_error_Some; congruence).
          replace (cursor + 2) with (S (S cursor)) in H by lia.
          apply (IH (S (S cursor)) group depth result e ltac:(lia) ltac:(lia) Hd); [| |exact H].
          -- intros Hd1. destruct (Hin Hd1) as (G1 & G2 & G3). split; [exact G1|]. split; [exact G2|].
             rewrite (seg_snoc input group (S cursor) y ltac:(lia) En1), (seg_snoc input group cursor c Hgc En), <- app_assoc.
             rewrite (da_app _ ([c] ++ [y]) 1 _ G3). cbn [app depth_after]. rewrite EB. reflexivity.
          -- destruct Htop as [T0 T1]. split; [|exact T1]. intros Hz.
             rewrite (seg_snoc input 0 (S cursor) y ltac:(lia) En1), (seg_snoc input 0 cursor c ltac:(lia) En), <- app_assoc.
             rewrite (nest_app _ ([c] ++ [y]) 0 _ (T0 Hz)). cbn [app nest]. rewrite EB. reflexivity.
        * assert (Hc : c = BSL) by (apply N.eqb_eq; exact EB). subst c.
          change (N.eqb BSL LP) with false in H. change (N.eqb BSL RP) with false in H. cbv iota in H.
          assert (Hl : S cursor = length input) by (apply nth_error_None in En1; lia).
          destruct steps as [|steps']; [discriminate|]. rewrite scan_f_S in H.
          replace (Nat.ltb (S cursor) (length input)) with false in H by (symmetry; apply Nat.ltb_ge; lia).
          destruct (Z.eqb depth 0) eqn:Ed; cbn [negb] in H.
          -- destruct (Nat.ltb group (length input)); [|discriminate].
             apply bind_err in H as [H|(lit & _ & H)]; [destruct (slice_not_err _ _ _ _ _ H)|discriminate].
          -- apply Z.eqb_neq in Ed. destruct (Hin ltac:(lia)) as (G1 & G2 & G3).
             rewrite (subn_ok (0 + group) 1 4) in H by lia. cbn [bind] in H. inversion H; subst. cbn [Nat.add].
             apply (open_unclosed group cursor (Z.to_nat depth) [BSL] G1 Hgc); [|apply (proj2 Htop); lia|exact G2|exact G3|reflexivity].
             rewrite <- (sg_end group ltac:(lia)), <- Hl. apply (seg_snoc input group cursor BSL Hgc En).
      + cbn [andb] in H. destruct (N.eqb c LP) eqn:ELP.
        * assert (Hc : c = LP) by (apply N.eqb_eq; exact ELP). subst c.
          destruct (Z.eqb depth 0) eqn:Ed.
          -- apply Z.eqb_eq in Ed. subst depth. apply bind_err in H as [H|(lit & _ & H)]; [destruct (slice_not_err _ _ _ _ _ H)|].
             eapply (IH (S cursor) (S cursor) (0 + 1)%Z _ e); [lia|lia|lia| | |exact H].
             ++ intros _. split; [lia|]. split; [replace (S cursor - 1) with cursor by lia; exact En|]. rewrite seg_nil. reflexivity.
             ++ split; [lia|]. intros _. replace (S cursor - 1) with cursor by lia. apply (proj1 Htop). reflexivity.
          -- apply Z.eqb_neq in Ed.
             apply (IH (S cursor) group (depth + 1)%Z result e ltac:(lia) ltac:(lia) ltac:(lia)); [| |exact H].
             ++ apply (in_group_step input group cursor depth LP Hgc En ltac:(lia) Hin (S (Z.to_nat depth))); [reflexivity|lia|lia].
             ++ split; [lia|]. intros _. apply (proj2 Htop). lia.
        * destruct (N.eqb c RP) eqn:ERP.
          -- assert (Hc : c = RP) by (apply N.eqb_eq; exact ERP). subst c. cbv zeta in H.
             destruct (Z.ltb (depth - 1) 0) eqn:Elt.
             ++ apply Z.ltb_lt in Elt. inversion H; subst. cbn [paren_unmatched]. rewrite <- sg0. split; [apply (proj1 Htop); lia|]. left. exact En.
             ++ apply Z.ltb_ge in Elt. destruct (Z.eqb (depth - 1) 0) eqn:Ed1.
                ** apply Z.eqb_eq in Ed1. assert (depth = 1%Z) by lia. subst depth.
                   destruct (Hin ltac:(lia)) as (G1 & G2 & G3).
                   destruct (Nat.eqb cursor group) eqn:Ecg.
                   --- apply Nat.eqb_eq in Ecg. subst group. rewrite (subn_ok cursor 1 3) in H by lia. cbn [bind] in H.
                       inversion H; subst. exact I.
                   --- apply bind_err in H as [H|(opts & _ & H)].
                       +++ pose proof (Hrec group cursor e G1 G2 Hgc ltac:(lia) G3 H) as He. destruct e; cbn in He; try contradiction; exact I.
                       +++ eapply (IH (S cursor) (S cursor) (1 - 1)%Z _ e); [lia|lia|lia| | |exact H]; [intros Hc; lia|].
                           split; [|lia]. intros _.
                           assert (Hs : sg 0 (S cursor) = sg 0 (group - 1) ++ [LP] ++ sg group cursor ++ [RP]).
                           { rewrite (seg_snoc input 0 cursor RP ltac:(lia) En).
                             rewrite (sg_split input 0 group cursor ltac:(lia) Hgc ltac:(lia)).
                             replace group with (S (group - 1)) at 1 by lia.
                             rewrite (seg_snoc input 0 (group - 1) LP ltac:(lia) G2). rewrite <- !app_assoc. reflexivity. }
                           rewrite Hs. rewrite (nest_app _ _ 0 0 (proj2 Htop ltac:(lia))). cbn [app nest].
                           change (N.eqb LP BSL) with false. change (N.eqb LP LP) with true. cbv iota.
                           rewrite (nest_app _ [RP] 1 1 (da_nest _ _ _ G3)). reflexivity.
                ** apply Z.eqb_neq in Ed1.
                   assert (Hdn : exists dn, Z.to_nat depth = S (S dn)) by (exists (Z.to_nat depth - 2); lia). destruct Hdn as (dn & Hdn).
                   apply (IH (S cursor) group (depth - 1)%Z result e ltac:(lia) ltac:(lia) ltac:(lia)); [| |exact H].
                   --- apply (in_group_step input group cursor depth RP Hgc En ltac:(lia) Hin (S dn)); [rewrite Hdn; reflexivity|lia|lia].
                   --- split; [lia|]. intros _. apply (proj2 Htop). lia.
          -- apply (IH (S cursor) group depth result e ltac:(lia) ltac:(lia) Hd); [| |exact H].
             ++ intros Hd1. apply (in_group_step input group cursor depth c Hgc En Hd1 Hin (Z.to_nat depth)); [apply da_single_plain; assumption|lia|reflexivity|exact Hd1].
             ++ destruct Htop as [T0 T1]. split; [|exact T1]. intros Hz.
                rewrite (seg_snoc input 0 cursor c ltac:(lia) En). rewrite (nest_app _ [c] 0 _ (T0 Hz)). cbn [nest]. rewrite EB, ELP, ERP. reflexivity.
    - destruct (Z.eqb depth 0) eqn:Ed; cbn [negb] in H.
      + destruct (Nat.ltb group (length input)); [|discriminate].
        apply bind_err in H as [H|(lit & _ & H)]; [destruct (slice_not_err _ _ _ _ _ H)|discriminate].
      + apply Z.eqb_neq in Ed. destruct (Hin ltac:(lia)) as (G1 & G2 & G3).
        apply Nat.ltb_ge in El. assert (cursor = length input) by lia. subst cursor.
        rewrite (subn_ok (0 + group) 1 4) in H by lia. cbn [bind] in H. inversion H; subst. cbn [Nat.add].
        apply (open_unclosed group (length input) (Z.to_nat depth) [] G1 Hgc); [|apply (proj2 Htop); lia|exact G2|exact G3|].
        * rewrite app_nil_r. symmetry. apply sg_end. lia.
        * reflexivity.
  Qed.
End Top.

Theorem expand_err_unmatched (input : bytes) e :
  expand (S (length input)) input 0 (length input) = Err e -> paren_unmatched input e.
Proof.
  rewrite expand_S. intros H.
  apply (scan_unmatched_top input (expand (length input) input) (fun g c e' => expand_err_nested (length input) input g c e')
           (S (length input)) 0 0 0%Z [[]] e); try lia; [| |exact H].
  - intros Hd. lia.
  - split; [|lia]. intros _. rewrite seg_nil. reflexivity.
Qed.

(* ======== braces of one expansion ======== *)
(* top-level scan of an expansion text: at depth 0 escape pairs are skipped, '{' opens, '}' is an error;
   inside braces only '{' and '}' count (no escapes there) *)
Fixpoint bnest (x : bytes) (d : nat) {struct x} : option nat :=
  match x with
  | [] => Some d
  | c :: x' =>
    match d with
    | O => if N.eqb c BSL then match x' with _ :: x'' => bnest x'' 0 | [] => None end
           else if N.eqb c LB then bnest x' 1
           else if N.eqb c RB then None
           else bnest x' 0
    | S d' => if N.eqb c RB then bnest x' d' else if N.eqb c LB then bnest x' (S d) else bnest x' d
    end
  end.

Lemma bnest_app : forall a b d d1, bnest a d = Some d1 -> bnest (a ++ b) d = bnest b d1.
Proof.
  fix IH 1. intros a b d d1 H. destruct a as [|c a']; [inversion H; reflexivity|]. cbn [bnest app] in *.
  destruct d as [|d'].
  - destruct (N.eqb c BSL).
    + destruct a' as [|y a'']; [discriminate|]. cbn [app]. apply (IH a'' b 0 d1 H).
    + destruct (N.eqb c LB); [apply (IH a' b _ d1 H)|]. destruct (N.eqb c RB); [discriminate|apply (IH a' b _ d1 H)].
  - destruct (N.eqb c RB); [apply (IH a' b _ d1 H)|]. destruct (N.eqb c LB); apply (IH a' b _ d1 H).
Qed.

Lemma bc_bnest : forall s d content rest, brace_content s d = Some (content, rest) -> bnest (content ++ [RB]) (S d) = Some 0.
Proof.
  induction s as [|c s' IH]; intros d content rest H; [discriminate|]. rewrite brace_content_cons in H.
  destruct (N.eqb c RB) eqn:ER.
  - destruct d as [|d0].
    + inversion H; subst. cbn [app bnest]. change (N.eqb RB RB) with true. reflexivity.
    + destruct (brace_content s' d0) as [[a r]|] eqn:Eb; [|discriminate]. inversion H; subst.
      cbn [app bnest]. rewrite ER. apply (IH d0 a rest Eb).
  - destruct (brace_content s' (if N.eqb c LB then S d else d)) as [[a r]|] eqn:Eb; [|discriminate]. inversion H; subst.
    cbn [app bnest]. rewrite ER. destruct (N.eqb c LB); apply (IH _ a rest Eb).
Qed.

Definition brace_unmatched (raw : bytes) (e : terr) : Prop :=
  match e with
  | EUnbalancedBrace _ p =>
      bnest (firstn p raw) 0 = Some 0
      /\ (nth_error raw p = Some RB
          \/ (nth_error raw p = Some LB /\ brace_content (skipn (S p) raw) 0 = None))
  | _ => True
  end.

Lemma static_part_bnest : forall steps (raw : bytes) en acc s e,
  static_part steps raw en acc = Ret (s, e) -> en <= e /\ (e < length raw -> bnest (seg raw en e) 0 = Some 0).
Proof.
  induction steps as [|steps IH]; intros raw en acc s e H; [discriminate|]. rewrite static_part_S in H.
  destruct (Nat.ltb en (length raw)) eqn:El.
  2:{ inversion H; subst. split; [lia|]. intros _. rewrite seg_nil. reflexivity. }
  apply Nat.ltb_lt in El. destruct (nth_error raw en) as [c|] eqn:En; [|apply nth_error_None in En; lia].
  rewrite (idx_nth raw en 10 c En) in H. cbn [bind] in H.
  destruct (N.eqb c BSL) eqn:EB.
  - destruct (nth_error raw (S en)) as [nx|] eqn:En1.
    + destruct (IH _ _ _ _ _ H) as [Hle Hb]. split; [lia|]. intros He.
      rewrite (seg_cons raw en e c ltac:(lia) En), (seg_cons raw (S en) e nx ltac:(lia) En1). cbn [bnest]. rewrite EB.
      replace (S (S en)) with (en + 2) by lia. apply (Hb He).
    + destruct (IH _ _ _ _ _ H) as [Hle _]. apply nth_error_None in En1. split; [lia|]. intros He. lia.
  - destruct (N.eqb c LB || N.eqb c RB)%bool eqn:Ebr.
    + inversion H; subst. split; [lia|]. intros _. rewrite seg_nil. reflexivity.
    + destruct (IH _ _ _ _ _ H) as [Hle Hb]. split; [lia|]. intros He.
      rewrite (seg_cons raw en e c ltac:(lia) En). cbn [bnest]. rewrite EB.
      apply Bool.orb_false_iff in Ebr as [-> ->]. replace (S en) with (en + 1) by lia. apply (Hb He).
Qed.

Lemma parameter_part_brace (raw : bytes) cursor :
  nth_error raw cursor = Some LB ->
  (forall t p, parameter_part raw cursor = Err (EUnbalancedBrace t p) ->
     p = cursor /\ brace_content (skipn (S cursor) raw) 0 = None)
  /\ (forall p next, parameter_part raw cursor = Ret (p, next) -> bnest (seg raw cursor next) 0 = Some 0).
Proof.
  intros Hn. assert (Hlt : cursor < length raw) by (apply nth_error_Some; congruence).
  pose proof (brace_scan_spec (S (length raw)) raw (S cursor) 1) as Hb. cbn [Nat.sub] in Hb.
  unfold parameter_part.
  destruct (brace_content (skipn (S cursor) raw) 0) as [[content rest]|] eqn:Ebc.
  2:{ destruct Hb as (e0 & c' & -> & Hne); [lia|lia|lia|]. cbn [bind]. destruct c'; [congruence|]. cbn [Nat.eqb negb].
      split; [|discriminate]. intros t p H. inversion H; subst. auto. }
  destruct Hb as (en & -> & H1 & H2 & H3 & H4); [lia|lia|lia|]. cbn [bind Nat.eqb negb].
  rewrite (slice_val raw (S cursor) en 22) by lia.
  assert (Hcont : firstn (en - S cursor) (skipn (S cursor) raw) = content) by (rewrite H3; apply firstn_exact; exact H4).
  rewrite Hcont. cbn [bind].
  destruct content as [|c0 content']; [split; discriminate|].
  cbv beta iota. remember (c0 :: content') as content eqn:Econt.
  assert (Hsplit : exists name constraint,
     match find_colon content with
     | None => Ret (content, None)
     | Some cp => do a <- slice content 0 cp 23; do b <- slice content (S cp) (length content) 24; Ret (a, Some b)
     end = @Ret (bytes * option bytes) (name, constraint)).
  { pose proof (find_colon_split content) as Hf. destruct (find_colon content) as [cp|] eqn:Ef.
    - destruct Hf as (Hs & Hl & _). rewrite (slice_val content 0 cp 23) by lia. cbn [bind].
      rewrite (slice_val content (S cp) (length content) 24) by lia. cbn [bind skipn]. eauto.
    - eauto. }
  destruct Hsplit as (name & constraint & Hsp).
  match goal with |- context [bind ?m _] =>
    match m with
    | match find_colon content with _ => _ end => replace m with (@Ret (bytes * option bytes) (name, constraint)) by (symmetry; exact Hsp)
    end end.
  cbn [bind]. rewrite (subn_ok en cursor 25) by lia. cbn [bind].
  change ((forall t p, impl_tail raw cursor (en - cursor + 1) en name constraint = Err (EUnbalancedBrace t p) ->
             p = cursor /\ Some (content, rest) = None)
          /\ (forall p next, impl_tail raw cursor (en - cursor + 1) en name constraint = Ret (p, next) -> bnest (seg raw cursor next) 0 = Some 0)).
  split.
  - intros t p H. destruct (proj1 (impl_tail_cases raw cursor (en - cursor + 1) en name constraint) _ H).
  - intros p next H. pose proof (proj2 (impl_tail_cases raw cursor (en - cursor + 1) en name constraint) p next H) as ->.
    assert (Hs : seg raw cursor (S en) = LB :: content ++ [RB]).
    { unfold seg. rewrite (skipn_nth_cons raw cursor LB Hn), H3. replace (S en - cursor) with (S (length content + 1)) by lia.
      cbn [firstn]. f_equal. rewrite firstn_app. rewrite firstn_all2 by lia. replace (length content + 1 - length content) with 1 by lia. reflexivity. }
    rewrite Hs. cbn [bnest]. change (N.eqb LB BSL) with false. change (N.eqb LB LB) with true. cbv iota.
    apply (bc_bnest _ 0 content rest Ebc).
Qed.

Lemma template_loop_unmatched : forall steps (raw : bytes) cursor seen parts e,
  cursor <= length raw -> (cursor < length raw -> bnest (seg raw 0 cursor) 0 = Some 0) ->
  template_loop steps raw cursor seen parts = Err e -> brace_unmatched raw e.
Proof.
  induction steps as [|steps IH]; intros raw cursor seen parts e Hcl Hinv H; [discriminate|].
  rewrite template_loop_S in H.
  destruct (Nat.ltb cursor (length raw)) eqn:El; [|discriminate]. apply Nat.ltb_lt in El. specialize (Hinv El).
  destruct (nth_error raw cursor) as [c|] eqn:En; [|apply nth_error_None in En; lia].
  rewrite (idx_nth raw cursor 30 c En) in H. cbn [bind] in H.
  assert (Hstep : forall next, cursor <= next -> next <= length raw -> bnest (seg raw cursor next) 0 = Some 0 ->
            bnest (seg raw 0 next) 0 = Some 0).
  { intros next Hn1 Hn2 Hb. rewrite (sg_split raw 0 cursor next ltac:(lia) Hn1 Hn2). rewrite (bnest_app _ _ 0 0 Hinv). exact Hb. }
  destruct (N.eqb c LB) eqn:ELB.
  - assert (Hc' : c = LB) by (apply N.eqb_eq; exact ELB). subst c.
    destruct (parameter_part_brace raw cursor En) as [Herr Hret].
    apply bind_err in H as [H|([p next] & Hp & H)].
    { destruct e; try exact I. destruct (Herr _ _ H) as [-> Hnone]. cbn [brace_unmatched].
      rewrite <- (sg0 raw). split; [exact Hinv|]. right. split; [exact En|exact Hnone]. }
    destruct (parameter_part_shape raw cursor En) as [_ Hsh]. destruct (Hsh p next Hp) as (_ & Hn1 & Hn2).
    pose proof (Hstep next ltac:(lia) Hn2 (Hret p next Hp)) as Hnext.
    destruct (match last_opt seen with Some (_, s, l) => if Nat.eqb cursor (s + l) then Some (s, l) else None | None => None end) as [[s l]|].
    { apply bind_err in H as [H|(x & _ & H)]; [destruct (subn_not_err _ _ _ _ H)|]. injection H as <-. exact I. }
    destruct (part_name p) as [name|]; [|apply (IH _ _ _ _ _ Hn2 (fun _ => Hnext) H)].
    destruct (find _ seen) as [[[fn fs] fl]|].
    + apply bind_err in H as [H|(x & _ & H)]; [destruct (subn_not_err _ _ _ _ H)|]. injection H as <-. exact I.
    + apply bind_err in H as [H|(x & _ & H)]; [destruct (subn_not_err _ _ _ _ H)|]. apply (IH _ _ _ _ _ Hn2 (fun _ => Hnext) H).
  - destruct (N.eqb c RB) eqn:ERB.
    + assert (Hc' : c = RB) by (apply N.eqb_eq; exact ERB). subst c. injection H as <-. cbn [brace_unmatched].
      rewrite <- (sg0 raw). split; [exact Hinv|]. left. exact En.
    + destruct (static_part_ok (S (length raw)) raw cursor [] Hcl) as (s0 & e0 & He0 & H1 & H2 & _); [lia|].
      rewrite He0 in H. cbn [bind] in H. destruct (static_part_bnest _ _ _ _ _ _ He0) as [_ Hb].
      apply (IH raw e0 seen (parts ++ [PS s0]) e H2); [|exact H].
      intros Hlt. apply (Hstep e0 ltac:(lia) H2 (Hb Hlt)).
Qed.

Lemma parse_template_unmatched (raw : bytes) e : parse_template raw = Err e -> brace_unmatched raw e.
Proof.
  unfold parse_template. destruct (match raw with [] => false | b :: _ => negb (N.eqb b SL) end).
  - intros H. injection H as <-. exact I.
  - intros H. apply bind_err in H as [H|(ps & _ & H)]; [|discriminate].
    refine (template_loop_unmatched _ _ 0 [] [] e _ _ H); [lia|]. intros _. rewrite seg_nil. reflexivity.
Qed.

(* C14 with everything: position, cause between the braces, duplicate names, and "unmatched" *)
Theorem parse_err_complete (t : bytes) e :
  parse t = Err e ->
  (e = EEmpty /\ t = []) \/ (paren_err_ok t e /\ paren_unmatched t e)
  \/ exists es raw, expansions_spec t = Some es /\ In raw es
       /\ tmpl_err_ok raw e /\ cause_at raw e /\ dup_ok raw e /\ brace_unmatched raw e.
Proof.
  unfold parse. destruct t as [|b t']; [intros H; inversion H; left; auto|].
  remember (b :: t') as t eqn:Et. intros H.
  apply bind_err in H as [H|(raws & Hr & H)]; [right; left; split; [apply expand_err_ok|apply expand_err_unmatched]; exact H|].
  right; right. apply map_out_err in H as (raw & Hin & Hp).
  pose proof (expand_spec t) as Hs. rewrite Hr in Hs. cbn [to_opt] in Hs.
  rewrite expansions_spec_G. destruct (G t) as [its [|] rest|]; try discriminate. destruct rest; [|discriminate].
  cbn [denote] in Hs. inversion Hs; subst raws.
  exists (map fix_empty (expand_items its)), (fix_empty raw). split; [reflexivity|]. split; [apply in_map; exact Hin|].
  split; [apply parse_template_err; exact Hp|]. split; [apply parse_template_cause; exact Hp|].
  split; [apply parse_template_dup; exact Hp|apply parse_template_unmatched; exact Hp].
Qed.

(* C07: the only slicing in the error renderers - the two `replace_range` calls that draw the carets of a
   DuplicateParameter error on a line of template.len() spaces - is in range for every error the parser returns *)
Theorem parse_dup_in_range (t0 t n : bytes) f fl s sl :
  parse t0 = Err (EDuplicateParameter t n f fl s sl) -> f + fl <= length t /\ s + sl <= length t /\ f + fl <= s.
Proof.
  intros H. destruct (parse_err_ok t0 _ H) as [[E _]|[Hp|(es & raw & _ & _ & Hok)]]; [discriminate|destruct Hp|].
  cbn [tmpl_err_ok] in Hok. destruct Hok as (-> & (_ & B1 & _) & (_ & B2 & _) & Hle). auto.
Qed.
