(* The parts the parser model produces are well formed: literal parts non-empty, parameter names
   free of the forbidden characters (so never starting with '/'), no two parameters adjacent. *)
From Coq Require Import Lia Arith PeanoNat.
From WF Require Import Base.Bytes Base.Utf8 Spec.Route Model.Parser Spec.Inv.
From WF Require Import Proofs.BytesP Proofs.InsertP.

Definition is_param_part (p : part) : bool := match p with PS _ => false | _ => true end.
Definition last_is_param (ps : list part) : bool :=
  match rev ps with p :: _ => is_param_part p | [] => false end.
Definition part_ok (p : part) : bool :=
  match p with PS s => negb (is_nil s) | PD n _ | PW n _ => name_ok n end.

Lemma last_is_param_snoc ps p : last_is_param (ps ++ [p]) = is_param_part p.
Proof. unfold last_is_param. rewrite rev_app_distr. reflexivity. Qed.

Lemma last_is_param_cons q q' ps : last_is_param (q :: q' :: ps) = last_is_param (q' :: ps).
Proof.
  unfold last_is_param. cbn [rev]. destruct (rev ps ++ [q']) as [|x l] eqn:E; [destruct (rev ps); discriminate|].
  reflexivity.
Qed.

Lemma last_is_param_one q : last_is_param [q] = is_param_part q.
Proof. reflexivity. Qed.

Lemma parts_wf_snoc : forall ps b p,
  parts_wf b ps = true -> part_ok p = true ->
  (is_param_part p = true -> last_is_param ps = false /\ (ps = [] -> b = false)) ->
  parts_wf b (ps ++ [p]) = true.
Proof.
  induction ps as [|q ps IH]; intros b p Hwf Hok Hadj; cbn [app].
  - destruct p as [s|n c|n c]; cbn [parts_wf part_ok] in *.
    + rewrite Hok. reflexivity.
    + destruct (Hadj eq_refl) as [_ Hb]. rewrite (Hb eq_refl), Hok. reflexivity.
    + destruct (Hadj eq_refl) as [_ Hb]. rewrite (Hb eq_refl), Hok. reflexivity.
  - assert (Hlast : is_param_part p = true -> last_is_param ps = false /\ (ps = [] -> is_param_part q = false)).
    { intros Hp. destruct (Hadj Hp) as [Hl _]. split.
      - destruct ps as [|q' ps']; [reflexivity|]. rewrite last_is_param_cons in Hl. exact Hl.
      - intros ->. rewrite last_is_param_one in Hl. exact Hl. }
    destruct q as [s|n c|n c]; cbn [parts_wf] in *.
    + apply andb_true_iff in Hwf as [H1 H2]. rewrite H1. cbn [andb]. apply IH; [exact H2|exact Hok|].
      intros Hp. destruct (Hlast Hp) as [Hl _]. split; [exact Hl|reflexivity].
    + apply andb_true_iff in Hwf as [H1 H2]. rewrite H1. cbn [andb]. apply IH; [exact H2|exact Hok|].
      intros Hp. destruct (Hlast Hp) as [Hl Hq]. split; [exact Hl|]. intros E. specialize (Hq E). discriminate.
    + apply andb_true_iff in Hwf as [H1 H2]. rewrite H1. cbn [andb]. apply IH; [exact H2|exact Hok|].
      intros Hp. destruct (Hlast Hp) as [Hl Hq]. split; [exact Hl|]. intros E. specialize (Hq E). discriminate.
Qed.

(* ---- literal parts are never empty ---- *)
Lemma static_part_nonempty : forall steps raw en acc s e,
  static_part steps raw en acc = Ret (s, e) ->
  (acc <> [] \/ (exists c, nth_error raw en = Some c /\ N.eqb c LB = false /\ N.eqb c RB = false)) ->
  s <> [].
Proof.
  induction steps as [|steps IH]; intros raw en acc s e H Hc; cbn [static_part] in H; [discriminate|].
  destruct (Nat.ltb en (length raw)) eqn:El.
  - unfold idx in H. destruct (nth_error raw en) as [c|] eqn:En; cbn [bind] in H; [|discriminate].
    destruct (N.eqb c BSL) eqn:Eb.
    + destruct (nth_error raw (S en)); eapply IH; try exact H; left; destruct acc; discriminate.
    + destruct (N.eqb c LB || N.eqb c RB) eqn:Ebr.
      * destruct Hc as [Hc|(c' & Hc1 & Hc2 & Hc3)].
        -- inversion H; subst. exact Hc.
        -- assert (c' = c) by congruence. subst c'. rewrite Hc2, Hc3 in Ebr. discriminate.
      * eapply IH; [exact H|]. left. destruct acc; discriminate.
  - destruct Hc as [Hc|(c' & Hc1 & _)].
    + inversion H; subst. exact Hc.
    + apply Nat.ltb_ge in El. apply nth_error_None in El. congruence.
Qed.

(* ---- parameter names ---- *)
Lemma has_invalid_no_slash n : has_invalid n = false -> name_ok n = true.
Proof.
  unfold name_ok, hd_is. destruct n as [|x n]; [reflexivity|]. cbn [has_invalid existsb].
  intros H. apply orb_false_iff in H as [H _].
  destruct (N.eqb_spec x SL) as [->|]; [|reflexivity]. cbn in H. discriminate.
Qed.

Lemma bind_ret {A B} (m : out A) (f : A -> out B) b : bind m f = Ret b -> exists a, m = Ret a /\ f a = Ret b.
Proof. destruct m; cbn [bind]; try discriminate. eauto. Qed.

Lemma slice_ret l a b site s : slice l a b site = Ret s -> a <= b /\ b <= length l.
Proof.
  unfold slice. destruct (Nat.leb a b && Nat.leb b (length l))%bool eqn:E; [|discriminate].
  apply andb_true_iff in E as [E1 E2]. apply Nat.leb_le in E1, E2. auto.
Qed.

Lemma parameter_part_ok raw cursor p next :
  parameter_part raw cursor = Ret (p, next) ->
  part_ok p = true /\ is_param_part p = true /\ cursor < next.
Proof.
  unfold parameter_part. cbv zeta. intros H.
  apply bind_ret in H as ([en count] & Hscan & H).
  destruct (negb (Nat.eqb count 0)); [discriminate|].
  apply bind_ret in H as (content & Hsl & H). apply slice_ret in Hsl as [Hsl _].
  destruct content as [|c0 content]; [discriminate|].
  apply bind_ret in H as ([name constraint] & Hnc & H).
  apply bind_ret in H as (len & Hlen & H).
  destruct name as [|x nm]; [discriminate|].
  cbn [hd_is tl] in H.
  destruct (N.eqb x STAR) eqn:Es.
  all: match type of H with (if ?c then _ else _) = _ => destruct c; [discriminate|] end.
  all: match type of H with (if ?c then _ else _) = _ => destruct c eqn:Ehi; [discriminate|] end.
  all: match type of H with (match ?c with Some _ => _ | None => _ end) = _ => destruct c; [discriminate|] end.
  all: match type of H with (if ?c then _ else _) = _ => destruct c; [discriminate|] end.
  all: match type of H with (if ?c then _ else _) = _ => destruct c; [discriminate|] end.
  all: inversion H; subst; (split; [|split; [|lia]]); try reflexivity.
  all: cbn [part_ok]; apply has_invalid_no_slash; exact Ehi.
Qed.

(* ---- the template loop ---- *)
Lemma last_opt_snoc {A} (l : list A) x : last_opt (l ++ [x]) = Some x.
Proof. unfold last_opt. rewrite rev_app_distr. reflexivity. Qed.

Lemma subn_ret a b site r : subn a b site = Ret r -> b <= a /\ r = a - b.
Proof. unfold subn. destruct (Nat.leb b a) eqn:E; [|discriminate]. apply Nat.leb_le in E. intros H; inversion H. auto. Qed.

Definition loop_inv (cursor : nat) (seen : list (bytes * nat * nat)) (parts : list part) : Prop :=
  parts_wf false parts = true
  /\ (last_is_param parts = true -> exists nm s l, last_opt seen = Some (nm, s, l) /\ s + l = cursor).

Lemma template_loop_parts : forall steps raw cursor seen parts ps,
  template_loop steps raw cursor seen parts = Ret ps -> loop_inv cursor seen parts -> parts_wf false ps = true.
Proof.
  induction steps as [|steps IH]; intros raw cursor seen parts ps H [Hwf Hlast]; cbn [template_loop] in H; [discriminate|].
  destruct (Nat.ltb cursor (length raw)) eqn:El; [|inversion H; subst; exact Hwf].
  apply bind_ret in H as (c & Hc & H).
  unfold idx in Hc. destruct (nth_error raw cursor) as [c'|] eqn:En; [|discriminate]. inversion Hc; subst c'. clear Hc.
  destruct (N.eqb c LB) eqn:Elb.
  - apply bind_ret in H as ([p next] & Hp & H).
    apply parameter_part_ok in Hp as (Hpok & Hpp & Hnext).
    (* the touching check did not fire *)
    match type of H with (match ?t with Some _ => _ | None => _ end) = _ => destruct t as [[s0 l0]|] eqn:Et end.
    { apply bind_ret in H as (l & _ & H). discriminate. }
    assert (Hnot : last_is_param parts = false).
    { destruct (last_is_param parts) eqn:E; [|reflexivity].
      destruct (Hlast eq_refl) as (nm & s & l & Hs & Hsl). rewrite Hs in Et.
      rewrite <- Hsl, Nat.eqb_refl in Et. discriminate. }
    destruct (part_name p) as [name|] eqn:Epn; [|destruct p; discriminate].
    match type of H with (match ?t with Some _ => _ | None => _ end) = _ => destruct t as [[[? ?] ?]|] end.
    { apply bind_ret in H as (sl & _ & H). discriminate. }
    apply bind_ret in H as (sl & Hsl & H). apply subn_ret in Hsl as [_ ->].
    eapply IH; [exact H|]. split.
    + apply parts_wf_snoc; auto.
    + intros _. exists name, cursor, (next - cursor). split; [apply last_opt_snoc|lia].
  - destruct (N.eqb c RB) eqn:Erb; [discriminate|].
    apply bind_ret in H as ([s next] & Hs & H).
    assert (Hne : s <> []).
    { eapply static_part_nonempty; [exact Hs|]. right. exists c. auto. }
    eapply IH; [exact H|]. split.
    + apply parts_wf_snoc; auto.
      * cbn [part_ok]. destruct s; [congruence|reflexivity].
      * intros Hx. discriminate.
    + rewrite last_is_param_snoc. cbn. discriminate.
Qed.

Lemma parse_template_parts raw e : parse_template raw = Ret e -> parts_wf false (snd e) = true.
Proof.
  unfold parse_template. destruct (match raw with [] => false | b :: _ => negb (N.eqb b SL) end); [discriminate|].
  intros H. apply bind_ret in H as (ps & Hps & H). inversion H; subst. cbn [snd].
  eapply template_loop_parts; [exact Hps|]. split; [reflexivity|]. intros Hx. discriminate.
Qed.

Lemma map_out_forall {A B} (f : A -> out B) (P : B -> Prop) :
  (forall a b, f a = Ret b -> P b) -> forall l r, map_out f l = Ret r -> Forall P r.
Proof.
  intros Hf. induction l as [|x l IH]; intros r H; cbn [map_out] in H.
  - inversion H. constructor.
  - apply bind_ret in H as (y & Hy & H). apply bind_ret in H as (ys & Hys & H). inversion H; subst.
    constructor; [eapply Hf; exact Hy|apply IH; exact Hys].
Qed.

Theorem parse_parts_wf t es : parse t = Ret es -> Forall (fun e : expansion => parts_wf false (snd e) = true) es.
Proof.
  unfold parse. destruct t as [|b t]; [discriminate|]. intros H.
  apply bind_ret in H as (raws & _ & H).
  eapply map_out_forall; [|exact H]. intros raw e He. eapply parse_template_parts. exact He.
Qed.

(* ---- no two literal parts in a row ---- *)
From WF Require Import Proofs.RoutesP.

Definition last_is_static (ps : list part) : bool :=
  match rev ps with PS _ :: _ => true | _ => false end.

Lemma last_is_static_snoc ps p : last_is_static (ps ++ [p]) = match p with PS _ => true | _ => false end.
Proof. unfold last_is_static. rewrite rev_app_distr. reflexivity. Qed.

Lemma last_is_static_cons q q' ps : last_is_static (q :: q' :: ps) = last_is_static (q' :: ps).
Proof.
  unfold last_is_static. cbn [rev]. destruct (rev ps ++ [q']) as [|x l] eqn:E; [destruct (rev ps); discriminate|].
  reflexivity.
Qed.

Lemma parts_norm_snoc : forall ps p,
  parts_norm ps = true -> (match p with PS _ => last_is_static ps = false | _ => True end) ->
  parts_norm (ps ++ [p]) = true.
Proof.
  induction ps as [|q ps IH]; intros p Hn Hp; cbn [app]; [destruct p; reflexivity|].
  destruct ps as [|q' ps].
  - cbn [app]. destruct q, p; cbn; try reflexivity. cbn in Hp. discriminate.
  - assert (Hn' : parts_norm (q' :: ps) = true) by (eapply parts_norm_tail; eauto).
    assert (IH' : parts_norm ((q' :: ps) ++ [p]) = true).
    { apply IH; [exact Hn'|]. destruct p; auto. rewrite last_is_static_cons in Hp. exact Hp. }
    cbn [app] in *. destruct q, q'; cbn [parts_norm] in *; auto.
Qed.

Lemma static_part_stop : forall steps raw en acc s e,
  static_part steps raw en acc = Ret (s, e) ->
  length raw <= e \/ exists c, nth_error raw e = Some c /\ (N.eqb c LB || N.eqb c RB = true)%bool.
Proof.
  induction steps as [|steps IH]; intros raw en acc s e H; cbn [static_part] in H; [discriminate|].
  destruct (Nat.ltb en (length raw)) eqn:El.
  - unfold idx in H. destruct (nth_error raw en) as [c|] eqn:En; cbn [bind] in H; [|discriminate].
    destruct (N.eqb c BSL).
    + destruct (nth_error raw (S en)); eapply IH; exact H.
    + destruct (N.eqb c LB || N.eqb c RB)%bool eqn:Eb.
      * inversion H; subst. right. exists c. auto.
      * eapply IH; exact H.
  - inversion H; subst. left. apply Nat.ltb_ge in El. exact El.
Qed.

Definition loop_inv2 (raw : bytes) (cursor : nat) (parts : list part) : Prop :=
  parts_norm parts = true
  /\ (last_is_static parts = true ->
      length raw <= cursor \/ exists c, nth_error raw cursor = Some c /\ (N.eqb c LB || N.eqb c RB = true)%bool).

Lemma template_loop_norm : forall steps raw cursor seen parts ps,
  template_loop steps raw cursor seen parts = Ret ps -> loop_inv2 raw cursor parts -> parts_norm ps = true.
Proof.
  induction steps as [|steps IH]; intros raw cursor seen parts ps H [Hn Hlast]; cbn [template_loop] in H; [discriminate|].
  destruct (Nat.ltb cursor (length raw)) eqn:El; [|inversion H; subst; exact Hn].
  apply Nat.ltb_lt in El.
  apply bind_ret in H as (c & Hc & H).
  unfold idx in Hc. destruct (nth_error raw cursor) as [c'|] eqn:En; [|discriminate]. inversion Hc; subst c'. clear Hc.
  destruct (N.eqb c LB) eqn:Elb.
  - apply bind_ret in H as ([p next] & Hp & H).
    apply parameter_part_ok in Hp as (_ & Hpp & _).
    match type of H with (match ?t with Some _ => _ | None => _ end) = _ => destruct t as [[s0 l0]|] end.
    { apply bind_ret in H as (l & _ & H). discriminate. }
    destruct (part_name p) as [name|] eqn:Epn; [|destruct p; discriminate].
    match type of H with (match ?t with Some _ => _ | None => _ end) = _ => destruct t as [[[? ?] ?]|] end.
    { apply bind_ret in H as (sl & _ & H). discriminate. }
    apply bind_ret in H as (sl & _ & H).
    eapply IH; [exact H|]. split.
    + apply parts_norm_snoc; [exact Hn|]. destruct p; [discriminate|exact I|exact I].
    + rewrite last_is_static_snoc. destruct p; [discriminate| |]; discriminate.
  - destruct (N.eqb c RB) eqn:Erb; [discriminate|].
    apply bind_ret in H as ([s next] & Hs & H).
    eapply IH; [exact H|]. split.
    + apply parts_norm_snoc; [exact Hn|].
      destruct (last_is_static parts) eqn:E; [|reflexivity].
      destruct (Hlast eq_refl) as [Hx|(c2 & Hc2 & Hb)]; [lia|].
      assert (c2 = c) by congruence. subst c2. rewrite Elb, Erb in Hb. discriminate.
    + intros _. eapply static_part_stop. exact Hs.
Qed.

Lemma parse_template_norm raw e : parse_template raw = Ret e -> parts_norm (snd e) = true.
Proof.
  unfold parse_template. destruct (match raw with [] => false | b :: _ => negb (N.eqb b SL) end); [discriminate|].
  intros H. apply bind_ret in H as (ps & Hps & H). inversion H; subst. cbn [snd].
  eapply template_loop_norm; [exact Hps|]. split; [reflexivity|]. intros Hx. discriminate.
Qed.

Theorem parse_parts_norm t es : parse t = Ret es -> Forall (fun e : expansion => parts_norm (snd e) = true) es.
Proof.
  unfold parse. destruct t as [|b t]; [discriminate|]. intros H.
  apply bind_ret in H as (raws & _ & H).
  eapply map_out_forall; [|exact H]. intros raw e He. eapply parse_template_norm. exact He.
Qed.
