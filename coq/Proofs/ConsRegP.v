(* Every constraint name that occurs in a stored route is registered - for every history.  (In the Rust code the
   search looks the constraint up and unwraps the result.) *)
From Coq Require Import Lia.
From WF Require Import Base.Bytes Base.Utf8 Spec.Route Spec.Walk Model.Tree Model.Parser Model.Ops Model.Router Spec.Inv.
From WF Require Import Proofs.BytesP Proofs.RoutesP Proofs.InsRoutesP Proofs.RouterP Proofs.ReachP Proofs.RouterRoutesP.

Definition atom_cons (a : atom) : list bytes :=
  match a with AD _ (Some c) | AW _ (Some c) => [c] | _ => [] end.
Definition route_cons (r : route) : list bytes := flat_map atom_cons r.

Lemma route_cons_atoms ps c : In c (route_cons (atoms_of ps)) <-> exists p, In p ps /\ part_constraint p = Some c.
Proof.
  unfold route_cons, atoms_of. rewrite in_flat_map. split.
  - intros (a & Ha & Hc). apply in_flat_map in Ha as (p & Hp & Ha). exists p. split; [exact Hp|].
    destruct p as [s|n [c0|]|n [c0|]]; cbn in Ha.
    + apply in_map_iff in Ha as (b & <- & _). destruct Hc.
    + destruct Ha as [<-|[]]. cbn in Hc. destruct Hc as [<-|[]]. reflexivity.
    + destruct Ha as [<-|[]]. destruct Hc.
    + destruct Ha as [<-|[]]. cbn in Hc. destruct Hc as [<-|[]]. reflexivity.
    + destruct Ha as [<-|[]]. destruct Hc.
  - intros (p & Hp & Hc). destruct p as [s|n [c0|]|n [c0|]]; cbn in Hc; try discriminate; inversion Hc; subst.
    + exists (AD n (Some c)). split; [apply in_flat_map; exists (PD n (Some c)); split; [exact Hp|left; reflexivity]|left; reflexivity].
    + exists (AW n (Some c)). split; [apply in_flat_map; exists (PW n (Some c)); split; [exact Hp|left; reflexivity]|left; reflexivity].
Qed.

Definition CInv (r : router) : Prop :=
  forall r0 i c, RM (r_root r) r0 i -> In c (route_cons r0) -> registered r c = true.

Lemma unknown_none_registered r es :
  unknown_constraint r es = None ->
  forall e p c, In e es -> In p (snd e) -> part_constraint p = Some c -> registered r c = true.
Proof.
  intros Hu e p c He Hp Hc. unfold unknown_constraint in Hu.
  pose proof (proj1 (first_some_none _ _) Hu e He) as H1. cbv beta in H1.
  pose proof (proj1 (first_some_none _ _) H1 p (proj1 (in_rev _ _) Hp)) as H2. cbv beta in H2.
  rewrite Hc in H2. destruct (registered r c); [reflexivity|discriminate].
Qed.

Lemma rinsert_ok_validated r t d r' :
  rinsert r t d = (r', ROk tt) ->
  exists es, parse t = Ret es /\ unknown_constraint r es = None /\ r_constraints r' = r_constraints r.
Proof.
  intros H. rewrite rinsert_unfold in H. destruct (parse t) as [es| | |]; try (inversion H; fail).
  exists es. split; [reflexivity|]. unfold unknown_constraint.
  destruct (first_some _ es); [inversion H|]. split; [reflexivity|]. cbv zeta in H.
  destruct (filter_map _ es); inversion H. reflexivity.
Qed.

Lemma cinv_step r o : RInv r -> CInv r -> CInv (step r o).
Proof.
  intros HR HC. destruct o as [t d|t|n ty]; cbn [step].
  - destruct (rinsert r t d) as [r' [[]|e|s]] eqn:H; cbn [fst].
    + destruct (rinsert_ok_validated r t d r' H) as (es & Ep & Hu & Hcs).
      destruct (rinsert_ok_routes r t d r' HR H) as (es' & Ep' & _ & _ & Hother & _).
      rewrite Ep in Ep'. inversion Ep'; subst es'.
      intros r0 i c Hi Hc. unfold registered. rewrite Hcs. fold (registered r c).
      destruct (is_exp es (r0, i)) eqn:Ex.
      * apply is_exp_true in Ex as (e & He & Heq). cbn [fst] in Heq. subst r0.
        apply route_cons_atoms in Hc as (p & Hp & Hpc). apply (unknown_none_registered r es Hu e p c He Hp Hpc).
      * rewrite is_exp_false in Ex. cbn [fst] in Ex. apply (Hother r0 i Ex) in Hi. apply (HC r0 i c Hi Hc).
    + rewrite (rinsert_error_noop _ _ _ _ _ H). exact HC.
    + rewrite (rinsert_panic_noop _ _ _ _ _ H). exact HC.
  - destruct (rdelete r t) as [r' [d|e|s]] eqn:H; cbn [fst].
    + destruct (rdelete_ok_routes r t d r' HR H) as (es & Ep & _ & _ & _ & Hsub & _).
      assert (Hcs : r_constraints r' = r_constraints r).
      { rewrite rdelete_unfold, Ep in H. destruct (first_some _ es); [inversion H|]. destruct (existsb _ es); [inversion H|].
        destruct (snd (del_all _ _)); inversion H. reflexivity. }
      intros r0 i c Hi Hc. unfold registered. rewrite Hcs. apply (HC r0 i c (Hsub r0 i Hi) Hc).
    + rewrite (rdelete_error_noop_strong _ _ _ _ HR H). exact HC.
    + assert (r' = r) as ->; [|exact HC].
      rewrite rdelete_unfold in H. destruct (parse t) as [es| | |]; try (inversion H; reflexivity).
      destruct (first_some _ es); [inversion H|]. destruct (existsb _ es); [inversion H|].
      destruct (snd (del_all _ _)); inversion H.
  - unfold rconstraint. destruct (find _ (r_constraints r)) as [[a b]|]; cbn [fst]; [exact HC|].
    intros r0 i c Hi Hc. cbn [r_root] in Hi. specialize (HC r0 i c Hi Hc).
    unfold registered in *. cbn [r_constraints]. rewrite existsb_app, HC. reflexivity.
Qed.

Theorem reachable_constraints_registered builtins ops :
  forall r0 i c, RM (r_root (run builtins ops)) r0 i -> In c (route_cons r0) -> registered (run builtins ops) c = true.
Proof.
  unfold run.
  assert (H0 : RInv (new_router builtins) /\ CInv (new_router builtins)).
  { split; [split; reflexivity|]. intros r0 i c H. unfold RM, mem_of in H. cbn in H. destruct H. }
  revert H0. generalize (new_router builtins). induction ops as [|o ops IH]; intros r [HR HC]; cbn [fold_left]; [exact HC|].
  apply IH. split; [|apply cinv_step; assumption].
  destruct o; cbn [step]; [apply rinsert_inv|apply rdelete_inv|apply rconstraint_inv]; exact HR.
Qed.
