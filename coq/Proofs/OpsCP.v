(* C07 for insert / find / delete: the index-level versions of Model/OpsC.v (prefix[0], prefix[common_prefix..],
   children[index], children.remove(index) - each a possible Panic; Fuel when the recursion budget runs out) compute
   exactly the functional operations of Model/Ops.v on every tree whose literal children have non-empty prefixes and
   for every well-formed part list, hence the router-level insert and delete written over them equal the functional
   ones - for every reachable router and every template string. *)
From Coq Require Import Lia Arith PeanoNat.
From WF Require Import Base.Bytes Base.Utf8 Spec.Route Spec.Walk Model.Tree Model.Parser Model.Ops Model.Router Model.OpsC Spec.Inv.
From WF Require Import Proofs.BytesP Proofs.RefineP Proofs.InvP Proofs.OpsLemmasP Proofs.InsertP Proofs.DeleteP Proofs.RoutesP
     Proofs.ParserPartsP Proofs.ReachP Proofs.ParserSafeP.
Import ListNotations.

(* ---- the loops ---- *)
Lemma upd_first_c_spec {A} (pc : A -> out bool) (fc : A -> out A) pred f (l : list A) :
  (forall x, In x l -> pc x = Ret (pred x)) ->
  (forall x, In x l -> pred x = true -> fc x = Ret (f x)) ->
  upd_first_c pc fc l = Ret (upd_first pred f l).
Proof.
  induction l as [|x l IH]; intros Hp Hf; [reflexivity|].
  cbn [upd_first_c upd_first]. rewrite (Hp x (or_introl eq_refl)). cbn [bind].
  destruct (pred x) eqn:E.
  - rewrite (Hf x (or_introl eq_refl) E). reflexivity.
  - rewrite IH; [reflexivity| |]; intros y Hy; [apply Hp|apply Hf]; right; exact Hy.
Qed.

Lemma first_c_spec {A B} (fc : A -> out (option B)) f (l : list A) :
  (forall x, In x l -> fc x = Ret (f x)) -> first_c fc l = Ret (first_some f l).
Proof.
  induction l as [|x l IH]; intros Hf; [reflexivity|].
  cbn [first_c first_some]. rewrite (Hf x (or_introl eq_refl)). cbn [bind].
  destruct (f x); [reflexivity|]. apply IH. intros y Hy. apply Hf. right; exact Hy.
Qed.

Lemma map_c_spec {A B} (fc : A -> out B) f (l : list A) :
  (forall x, In x l -> fc x = Ret (f x)) -> map_c fc l = Ret (map f l).
Proof.
  induction l as [|x l IH]; intros Hf; [reflexivity|].
  cbn [map_c map]. rewrite (Hf x (or_introl eq_refl)). cbn [bind].
  rewrite IH; [reflexivity|]. intros y Hy. apply Hf. right; exact Hy.
Qed.

Lemma split_at_position {A} (pred : A -> bool) (l : list A) :
  match split_at pred l with
  | None => position pred l = None
  | Some (a, x, b) => position pred l = Some (length a) /\ l = a ++ x :: b
  end.
Proof.
  induction l as [|y l IH]; [reflexivity|]. cbn [split_at position].
  destruct (pred y); [split; reflexivity|].
  destruct (split_at pred l) as [[[a x] b]|].
  - destruct IH as [-> ->]. split; reflexivity.
  - rewrite IH. reflexivity.
Qed.

Lemma at_mid {A} (a : list A) x b site : at_c (a ++ x :: b) (length a) site = Ret x.
Proof. unfold at_c. rewrite nth_error_app2 by lia. rewrite Nat.sub_diag. reflexivity. Qed.

Lemma remove_mid {A} (a : list A) x b site : remove_c (a ++ x :: b) (length a) site = Ret (a ++ b).
Proof.
  unfold remove_c. rewrite app_length. cbn [length].
  replace (Nat.ltb (length a) (length a + S (length b))) with true by (symmetry; apply Nat.ltb_lt; lia).
  rewrite firstn_app, Nat.sub_diag, firstn_all. cbn [firstn]. rewrite app_nil_r.
  replace (S (length a)) with (length (a ++ [x])) by (rewrite app_length; cbn; lia).
  replace (a ++ x :: b) with ((a ++ [x]) ++ b) by (rewrite <- app_assoc; reflexivity).
  rewrite skipn_app, skipn_all, Nat.sub_diag. reflexivity.
Qed.

Lemma put_mid {A} (a : list A) x b y : put (a ++ x :: b) (length a) y = a ++ y :: b.
Proof.
  unfold put. rewrite firstn_app, Nat.sub_diag, firstn_all. cbn [firstn]. rewrite app_nil_r.
  replace (S (length a)) with (length (a ++ [x])) by (rewrite app_length; cbn; lia).
  replace (a ++ x :: b) with ((a ++ [x]) ++ b) by (rewrite <- app_assoc; reflexivity).
  rewrite skipn_app, skipn_all, Nat.sub_diag. reflexivity.
Qed.

Lemma slice_from (p : bytes) n site : n <= length p -> slice p n (length p) site = Ret (skipn n p).
Proof.
  intros H. unfold slice.
  replace (Nat.leb n (length p) && Nat.leb (length p) (length p))%bool with true
    by (symmetry; apply andb_true_intro; split; apply Nat.leb_le; lia).
  rewrite firstn_all2; [reflexivity|]. rewrite skipn_length. lia.
Qed.

Lemma slice_to (p : bytes) n site : n <= length p -> slice p 0 n site = Ret (firstn n p).
Proof.
  intros H. unfold slice.
  replace (Nat.leb 0 n && Nat.leb n (length p))%bool with true
    by (symmetry; apply andb_true_intro; split; apply Nat.leb_le; lia).
  cbn [skipn]. rewrite Nat.sub_0_r. reflexivity.
Qed.

Lemma nilb_skipn (p : bytes) n : nilb (skipn n p) = Nat.leb (length p) n.
Proof.
  revert n; induction p as [|x p IH]; intros n; [destruct n; reflexivity|].
  destruct n; [reflexivity|]. cbn [skipn length]. apply IH.
Qed.

Lemma skipn_nonempty (p : bytes) n : n < length p -> skipn n p <> [].
Proof. intros H E. apply (f_equal (@length _)) in E. rewrite skipn_length in E. cbn in E. lia. Qed.

(* ---- the precondition on trees: literal children have non-empty prefixes, all the way down ---- *)
Inductive PNE : node -> Prop :=
| PNE_intro n :
    (forall kc, In kc (n_st n) -> fst (fst kc) <> [] /\ PNE (snd kc)) ->
    (forall k kc, is_end k = false -> In kc (kids k n) -> PNE (snd kc)) ->
    PNE n.

Lemma PNE_st n kc : PNE n -> In kc (n_st n) -> fst (fst kc) <> [] /\ PNE (snd kc).
Proof. intros H; inversion H; auto. Qed.
Lemma PNE_kid n k kc : PNE n -> is_end k = false -> In kc (kids k n) -> PNE (snd kc).
Proof. intros H; inversion H; eauto. Qed.

Lemma PNE_empty : PNE empty_node.
Proof. constructor; [intros kc []|]. intros k kc _ H. destruct k; destruct H. Qed.

Lemma PNE_same n n' : n_st n' = n_st n -> (forall k, kids k n' = kids k n) -> PNE n -> PNE n'.
Proof.
  intros Hs Hk H. constructor.
  - rewrite Hs. intros kc Hin. apply (PNE_st n kc H Hin).
  - intros k kc He Hin. rewrite Hk in Hin. apply (PNE_kid n k kc H He Hin).
Qed.

Lemma PNE_set_dirty b n : PNE n -> PNE (set_dirty b n).
Proof. apply PNE_same; [apply st_set_dirty|intros k; apply kids_set_dirty]. Qed.

Lemma static_keys_ok_nonempty l kc : static_keys_ok l = true -> In kc l -> fst (fst kc) <> [].
Proof.
  induction l as [|x l IH]; intros H Hin; [destruct Hin|].
  cbn [static_keys_ok] in H. apply andb_true_iff in H as [Hx Hl].
  destruct Hin as [->|Hin]; [|apply IH; assumption].
  intros E. unfold first_byte in Hx. rewrite E in Hx. discriminate.
Qed.

Lemma wf_PNE : forall n, wf n = true -> PNE n.
Proof.
  induction n using node_ind'. intros Hwf.
  set (n := Node d st dc dy wc wi ec en f1 f2 f3) in *.
  pose proof (wf_unpack n Hwf) as W. unfold AllP in *. rewrite Forall_forall in *.
  constructor.
  - intros kc Hin. split; [apply (static_keys_ok_nonempty (n_st n)); [apply (wn_static_keys n W)|exact Hin]|].
    apply H; [exact Hin|]. apply (wn_static n W kc Hin).
  - intros k kc He Hin. destruct (wn_mid n W k kc He Hin) as (_ & _ & _ & Hw).
    destruct k; try discriminate; cbn [kids n n_dc n_dy n_wc n_wi] in Hin; eauto.
Qed.

(* ---- insert ---- *)
Lemma parts_wf_tail b p ps : parts_wf b (p :: ps) = true -> exists b', parts_wf b' ps = true.
Proof.
  destruct p as [s|nm c|nm c]; cbn [parts_wf]; intros H.
  - apply andb_true_iff in H as [_ H]. eauto.
  - apply andb_true_iff in H as [_ H]. eauto.
  - apply andb_true_iff in H as [_ H]. eauto.
Qed.

Lemma insert_c_refines : forall fuel,
  (forall n ps d b, parts_size ps < fuel -> PNE n -> parts_wf b ps = true ->
     insert_c fuel n ps d = Ret (insert fuel n ps d))
  /\ (forall n p ps d b, length p + parts_size ps < fuel -> p <> [] -> PNE n -> parts_wf b ps = true ->
     insert_static_c fuel n p ps d = Ret (insert_static fuel n p ps d)).
Proof.
  induction fuel as [|f [IHi IHs]]; [split; intros; lia|].
  split.
  - intros n ps d b Hfuel Hn Hps. rewrite insert_S. cbn [insert_c].
    destruct ps as [|p0 ps']; [reflexivity|].
    destruct (parts_wf_tail b p0 ps' Hps) as [b' Hps'].
    destruct p0 as [s|nm c|nm c].
    + cbn [parts_wf] in Hps. apply andb_true_iff in Hps as [Hs _]. cbn [parts_size] in Hfuel.
      apply (IHs n s ps' d b'); [lia|destruct s; [discriminate|discriminate]|exact Hn|exact Hps'].
    + cbn [parts_size] in Hfuel.
      destruct (part_kind (PD nm c) ps') as [[k ky]|] eqn:Ek; [|reflexivity].
      assert (He : is_end k = false) by (destruct c; cbn in Ek; inversion Ek; reflexivity).
      rewrite He.
      rewrite (upd_first_c_spec _ _ (fun kc : key * node => keqb (fst kc) ky)
                 (fun kc => (fst kc, insert f (snd kc) ps' d))).
      * cbn [bind]. destruct (upd_first _ _ (kids k n)); [reflexivity|].
        rewrite (IHi empty_node ps' d b'); [reflexivity|lia|apply PNE_empty|exact Hps'].
      * reflexivity.
      * intros x Hx _. rewrite (IHi (snd x) ps' d b'); [reflexivity|lia|apply (PNE_kid n k x Hn He Hx)|exact Hps'].
    + cbn [parts_size] in Hfuel.
      destruct (part_kind (PW nm c) ps') as [[k ky]|] eqn:Ek; [|reflexivity].
      destruct (is_end k) eqn:He; [destruct (existsb _ (kids k n)); reflexivity|].
      rewrite (upd_first_c_spec _ _ (fun kc : key * node => keqb (fst kc) ky)
                 (fun kc => (fst kc, insert f (snd kc) ps' d))).
      * cbn [bind]. destruct (upd_first _ _ (kids k n)); [reflexivity|].
        rewrite (IHi empty_node ps' d b'); [reflexivity|lia|apply PNE_empty|exact Hps'].
      * reflexivity.
      * intros x Hx _. rewrite (IHi (snd x) ps' d b'); [reflexivity|lia|apply (PNE_kid n k x Hn He Hx)|exact Hps'].
  - intros n p ps d b Hfuel Hp Hn Hps. rewrite insert_static_S. cbn [insert_static_c].
    assert (Hlen : 1 <= length p) by (destruct p; [congruence|cbn; lia]).
    rewrite (upd_first_c_spec _ _ (fun kc : key * node => same_first (fst (fst kc)) p) (split_fn f p ps d)).
    + cbn [bind]. destruct (upd_first _ _ (n_st n)); [reflexivity|].
      rewrite (IHi empty_node ps d b); [reflexivity|lia|apply PNE_empty|exact Hps].
    + (* the two first-byte reads are in range *)
      intros x Hx. destruct (PNE_st n x Hn Hx) as [Hk _].
      destruct (fst (fst x)) as [|a k0]; [congruence|]. destruct p as [|c p0]; [congruence|]. reflexivity.
    + intros x Hx Hsf. destruct (PNE_st n x Hn Hx) as [Hk Hc].
      unfold split_fn. set (k0 := fst (fst x)) in *. set (c := snd x) in *. set (cp := lcp p k0).
      assert (Hcp1 : 1 <= cp) by (apply same_first_lcp; exact Hsf).
      destruct (lcp_le p k0) as [Hcp_p Hcp_k]. fold cp in Hcp_p, Hcp_k.
      destruct (Nat.leb (length k0) cp) eqn:Ekl.
      * destruct (Nat.leb (length p) cp) eqn:Epl.
        -- rewrite (IHi c ps d b); [reflexivity|lia|exact Hc|exact Hps].
        -- apply Nat.leb_gt in Epl. rewrite slice_from by lia. cbn [bind].
           rewrite (IHs c (skipn cp p) ps d b); [reflexivity| |apply skipn_nonempty; lia|exact Hc|exact Hps].
           rewrite skipn_length. lia.
      * apply Nat.leb_gt in Ekl.
        rewrite (slice_from k0) by lia. cbn [bind]. rewrite (slice_from p) by lia. cbn [bind].
        rewrite slice_to by lia. cbn [bind]. rewrite nilb_skipn.
        destruct (Nat.leb (length p) cp) eqn:Epl.
        -- rewrite (IHi _ ps d b); [reflexivity|lia| |exact Hps].
           constructor.
           ++ rewrite st_set_st. intros kc [<-|[]]. cbn [fst snd]. split; [apply skipn_nonempty; lia|exact Hc].
           ++ intros k kc _ Hin. rewrite kids_set_st in Hin. destruct k; destruct Hin.
        -- cbn [at_c nth_error bind snd fst put firstn skipn app].
           rewrite (IHi empty_node ps d b); [reflexivity|lia|apply PNE_empty|exact Hps].
Qed.

(* ---- find ---- *)
Lemma find_c_refines : forall fuel,
  (forall n ps b, parts_size ps < fuel -> parts_wf b ps = true -> find_c fuel n ps = Ret (find_node fuel n ps))
  /\ (forall n p ps b, length p + parts_size ps < fuel -> p <> [] -> parts_wf b ps = true ->
     find_static_c fuel n p ps = Ret (find_static fuel n p ps)).
Proof.
  induction fuel as [|f [IHi IHs]]; [split; intros; lia|].
  split.
  - intros n ps b Hfuel Hps. rewrite find_node_S. cbn [find_c].
    destruct ps as [|p0 ps']; [reflexivity|].
    destruct (parts_wf_tail b p0 ps' Hps) as [b' Hps'].
    destruct p0 as [s|nm c|nm c].
    + cbn [parts_wf] in Hps. apply andb_true_iff in Hps as [Hs _]. cbn [parts_size] in Hfuel.
      apply (IHs n s ps' b'); [lia|destruct s; [discriminate|discriminate]|exact Hps'].
    + cbn [parts_size] in Hfuel.
      destruct (part_kind (PD nm c) ps') as [[k ky]|]; [|reflexivity].
      destruct (List.find _ (kids k n)); [|reflexivity]. apply (IHi _ ps' b'); [lia|exact Hps'].
    + cbn [parts_size] in Hfuel.
      destruct (part_kind (PW nm c) ps') as [[k ky]|]; [|reflexivity].
      destruct (List.find _ (kids k n)); [|reflexivity]. apply (IHi _ ps' b'); [lia|exact Hps'].
  - intros n p ps b Hfuel Hp Hps. rewrite find_static_S. cbn [find_static_c].
    assert (Hlen : 1 <= length p) by (destruct p; [congruence|cbn; lia]).
    rewrite (first_c_spec _ (find_step f p ps)); [reflexivity|].
    intros x _. unfold find_step. set (k0 := fst (fst x)). set (cp := lcp p k0).
    assert (Hhit : (if nilb k0 then Ret false else do a <- idx k0 0 57; do b0 <- idx p 0 58; Ret (N.eqb a b0))
                   = Ret (same_first k0 p)).
    { destruct k0 as [|a k1]; [reflexivity|]. destruct p as [|c p0]; [congruence|]. reflexivity. }
    rewrite Hhit. cbn [bind]. destruct (same_first k0 p) eqn:Esf; [|reflexivity].
    assert (Hcp1 : 1 <= cp) by (apply same_first_lcp; exact Esf).
    destruct (lcp_le p k0) as [Hcp_p Hcp_k]. fold cp in Hcp_p, Hcp_k.
    destruct (Nat.leb (length k0) cp); [|reflexivity].
    destruct (Nat.leb (length p) cp) eqn:Epl.
    + rewrite (IHi (snd x) ps b); [reflexivity|lia|exact Hps].
    + apply Nat.leb_gt in Epl. rewrite slice_from by lia. cbn [bind]. rewrite nilb_skipn.
      replace (Nat.leb (length p) cp) with false by (symmetry; apply Nat.leb_gt; lia).
      rewrite (IHs (snd x) (skipn cp p) ps b); [reflexivity| |apply skipn_nonempty; lia|exact Hps].
      rewrite skipn_length. lia.
Qed.

(* ---- delete ---- *)
Lemma starts_with_len k p rest : starts_with k p = Some rest -> length k <= length p.
Proof. intros H. apply starts_with_spec in H. subst. rewrite app_length. lia. Qed.

Lemma delete_c_refines : forall fuel,
  (forall n ps b, parts_size ps < fuel -> PNE n -> parts_wf b ps = true ->
     delete_c fuel n ps = Ret (delete fuel n ps))
  /\ (forall n p ps b, length p + parts_size ps < fuel -> p <> [] -> PNE n -> parts_wf b ps = true ->
     delete_static_c fuel n p ps = Ret (delete_static fuel n p ps)).
Proof.
  induction fuel as [|f [IHi IHs]]; [split; intros; lia|].
  split.
  - intros n ps b Hfuel Hn Hps. rewrite delete_S. cbn [delete_c].
    destruct ps as [|p0 ps']; [reflexivity|].
    destruct (parts_wf_tail b p0 ps' Hps) as [b' Hps'].
    assert (Hparam : forall p0, parts_size ps' < f -> forall k ky, part_kind p0 ps' = Some (k, ky) ->
      match position (fun kc : key * node => keqb (fst kc) ky) (kids k n) with
      | None => Ret (n, None)
      | Some index =>
        if is_end k then
          do kc <- at_c (kids k n) index 60;
          do l <- remove_c (kids k n) index 61;
          Ret (match n_data (snd kc) with
               | None => (set_kids k l n, None)
               | Some d => (set_dirty true (set_kids k l n), Some d)
               end)
        else
          do kc <- at_c (kids k n) index 62;
          do cr <- delete_c f (snd kc) ps';
          let '(c', r) := cr in
          if is_empty c' then do l <- remove_c (kids k n) index 63; Ret (set_dirty true (set_kids k l n), r)
          else Ret (set_kids k (put (kids k n) index (fst kc, c')) n, r)
      end
      = Ret match split_at (fun kc : key * node => keqb (fst kc) ky) (kids k n) with
            | None => (n, None)
            | Some (a, kc, b) =>
              if is_end k then
                match n_data (snd kc) with
                | None => (set_kids k (a ++ b) n, None)
                | Some d => (set_dirty true (set_kids k (a ++ b) n), Some d)
                end
              else
                let '(c', r) := delete f (snd kc) ps' in
                if is_empty c' then (set_dirty true (set_kids k (a ++ b) n), r)
                else (set_kids k (a ++ (fst kc, c') :: b) n, r)
            end).
    { intros p1 Hf k ky _.
      pose proof (split_at_position (fun kc : key * node => keqb (fst kc) ky) (kids k n)) as Hsp.
      destruct (split_at _ (kids k n)) as [[[a kc] b0]|]; [|rewrite Hsp; reflexivity].
      destruct Hsp as [Hpos Hl]. rewrite Hpos.
      destruct (is_end k) eqn:He.
      - rewrite Hl. rewrite at_mid. cbn [bind]. rewrite remove_mid. cbn [bind]. reflexivity.
      - rewrite Hl. rewrite at_mid. cbn [bind].
        rewrite (IHi (snd kc) ps' b'); [|exact Hf| |exact Hps'].
        2:{ apply (PNE_kid n k kc Hn He). rewrite Hl. apply in_or_app. right. left. reflexivity. }
        cbn [bind]. destruct (delete f (snd kc) ps') as [c' r].
        destruct (is_empty c').
        + rewrite remove_mid. reflexivity.
        + rewrite put_mid. reflexivity. }
    destruct p0 as [s|nm c|nm c].
    + cbn [parts_wf] in Hps. apply andb_true_iff in Hps as [Hs _]. cbn [parts_size] in Hfuel.
      apply (IHs n s ps' b'); [lia|destruct s; [discriminate|discriminate]|exact Hn|exact Hps'].
    + cbn [parts_size] in Hfuel.
      destruct (part_kind (PD nm c) ps') as [[k ky]|] eqn:Ek; [|reflexivity].
      apply (Hparam (PD nm c)); [lia|exact Ek].
    + cbn [parts_size] in Hfuel.
      destruct (part_kind (PW nm c) ps') as [[k ky]|] eqn:Ek; [|reflexivity].
      apply (Hparam (PW nm c)); [lia|exact Ek].
  - intros n p ps b Hfuel Hp Hn Hps. rewrite delete_static_S. cbn [delete_static_c].
    pose proof (split_at_position (fun kc : key * node =>
            match starts_with (fst (fst kc)) p with Some _ => true | None => false end) (n_st n)) as Hsp.
    pose proof (split_at_some (fun kc : key * node =>
            match starts_with (fst (fst kc)) p with Some _ => true | None => false end) (n_st n)) as Hsome.
    destruct (split_at _ (n_st n)) as [[[a kc] b0]|]; [|rewrite Hsp; reflexivity].
    destruct Hsp as [Hpos Hl]. rewrite Hpos.
    destruct (Hsome a kc b0 eq_refl) as (_ & Hpred & _).
    assert (Hin : In kc (n_st n)) by (rewrite Hl; apply in_or_app; right; left; reflexivity).
    destruct (PNE_st n kc Hn Hin) as [Hk Hc].
    rewrite Hl. rewrite at_mid. cbn [bind]. cbv zeta.
    set (k0 := fst (fst kc)) in *.
    destruct (starts_with k0 p) as [rest|] eqn:Esw; [|discriminate].
    pose proof (starts_with_len _ _ _ Esw) as Hkl.
    assert (Hk1 : 1 <= length k0) by (destruct k0; [congruence|cbn; lia]).
    rewrite slice_from by exact Hkl. cbn [bind].
    assert (Hrec : (if nilb (skipn (length k0) p) then delete_c f (set_dirty true (snd kc)) ps
                    else delete_static_c f (set_dirty true (snd kc)) (skipn (length k0) p) ps)
                   = Ret (match skipn (length k0) p with
                          | [] => delete f (set_dirty true (snd kc)) ps
                          | _ => delete_static f (set_dirty true (snd kc)) (skipn (length k0) p) ps
                          end)).
    { destruct (skipn (length k0) p) as [|x r0] eqn:Esk; cbn [nilb].
      - apply (IHi _ ps b); [lia|apply PNE_set_dirty; exact Hc|exact Hps].
      - apply (IHs _ (x :: r0) ps b); [|discriminate|apply PNE_set_dirty; exact Hc|exact Hps].
        rewrite <- Esk, skipn_length. lia. }
    rewrite Hrec. cbn [bind].
    destruct (match skipn (length k0) p with
              | [] => delete f (set_dirty true (snd kc)) ps
              | _ => delete_static f (set_dirty true (snd kc)) (skipn (length k0) p) ps
              end) as [c' r].
    destruct (is_empty c').
    + rewrite remove_mid. reflexivity.
    + destruct (is_compressible c') eqn:Ec.
      * assert (Hone : exists m, n_st c' = [m]).
        { unfold is_compressible in Ec. destruct (n_data c'); [discriminate|].
          destruct (n_st c') as [|m [|? ?]]; try discriminate. exists m. reflexivity. }
        destruct Hone as [[mk m] Hm]. rewrite Hm. cbn [at_c nth_error bind fst snd].
        rewrite put_mid. reflexivity.
      * rewrite put_mid. reflexivity.
Qed.

(* ---- the router-level operations ---- *)
Lemma ops_fuel_ok (ps : list part) : parts_size ps < ops_fuel ps.
Proof. unfold ops_fuel. lia. Qed.

Lemma map_find_c root (es : list expansion) :
  Forall (fun e : expansion => parts_wf false (snd e) = true) es ->
  map_c (fun e : expansion => find_c (ops_fuel (snd e)) root (snd e)) es
  = Ret (map (fun e : expansion => find_node (ops_fuel (snd e)) root (snd e)) es).
Proof.
  intros Hes. apply map_c_spec. intros e He. rewrite Forall_forall in Hes.
  apply (proj1 (find_c_refines _) root (snd e) false); [apply ops_fuel_ok|apply Hes; exact He].
Qed.

Lemma fold_insert_c (mk : expansion -> info) : forall (es : list expansion) root,
  Forall (fun e : expansion => parts_wf false (snd e) = true) es ->
  wf root = true -> disc root = true ->
  fold_left (fun (acc : out node) (e : expansion) => do root <- acc; insert_c (ops_fuel (snd e)) root (snd e) (mk e))
            es (Ret root)
  = Ret (fold_left (fun root (e : expansion) => insert (ops_fuel (snd e)) root (snd e) (mk e)) es root).
Proof.
  induction es as [|e es IH]; intros root Hes Hwf Hd; cbn [fold_left]; [reflexivity|].
  apply Forall_inv in Hes as He. apply Forall_inv_tail in Hes. cbn [bind].
  rewrite (proj1 (insert_c_refines _) root (snd e) (mk e) false);
    [|apply ops_fuel_ok|apply wf_PNE; exact Hwf|exact He].
  destruct (proj1 (insert_ok (ops_fuel (snd e))) root (snd e) (mk e) false) as (H1 & H2 & _);
    [apply ops_fuel_ok|exact Hwf|exact Hd|exact He|].
  apply IH; assumption.
Qed.

Lemma fold_delete_c : forall (es : list expansion) (acc : node * option N),
  Forall (fun e : expansion => parts_wf false (snd e) = true) es ->
  wf (fst acc) = true -> tidy (fst acc) = true ->
  fold_left (fun (acc : out (node * option N)) (e : expansion) =>
               do a <- acc;
               do cr <- delete_c (ops_fuel (snd e)) (fst a) (snd e);
               let '(root', x) := cr in
               Ret (root', match x with Some i => Some (i_data i) | None => snd a end))
            es (Ret acc)
  = Ret (fold_left (fun (acc : node * option N) (e : expansion) =>
                      let '(root', x) := delete (ops_fuel (snd e)) (fst acc) (snd e) in
                      (root', match x with Some i => Some (i_data i) | None => snd acc end)) es acc).
Proof.
  induction es as [|e es IH]; intros acc Hes Hwf Ht; cbn [fold_left]; [reflexivity|].
  apply Forall_inv in Hes as He. apply Forall_inv_tail in Hes. cbn [bind].
  rewrite (proj1 (delete_c_refines _) (fst acc) (snd e) false);
    [|apply ops_fuel_ok|apply wf_PNE; exact Hwf|exact He].
  cbn [bind].
  pose proof (delete_wf_tidy (ops_fuel (snd e)) (fst acc) (snd e) Hwf Ht) as Hd.
  destruct (delete (ops_fuel (snd e)) (fst acc) (snd e)) as [root' x].
  apply IH; [exact Hes|apply Hd|apply Hd].
Qed.

Lemma existsb_map' {A B} (f : B -> bool) (g : A -> B) l : existsb f (map g l) = existsb (fun x => f (g x)) l.
Proof. induction l as [|x l IH]; [reflexivity|]. cbn [map existsb]. rewrite IH. reflexivity. Qed.

Theorem rinsert_c_refines r t d : RInv r -> rinsert_c r t d = rinsert r t d.
Proof.
  intros [Hwf Ht]. unfold rinsert_c, rinsert.
  destruct (parse t) as [es|te|s|] eqn:Ep; try reflexivity.
  destruct (first_some _ es); [reflexivity|].
  pose proof (parse_parts_wf t es Ep) as Hes.
  rewrite (map_find_c (r_root r) es Hes). cbn [bind].
  rewrite filter_map_map.
  destruct (filter_map _ es); [|reflexivity].
  rewrite fold_insert_c; [reflexivity|exact Hes|exact Hwf|apply tidy_disc; exact Ht].
Qed.

Theorem rdelete_c_refines r t : RInv r -> rdelete_c r t = rdelete r t.
Proof.
  intros [Hwf Ht]. unfold rdelete_c, rdelete.
  destruct (parse t) as [es|te|s|] eqn:Ep; try reflexivity.
  pose proof (parse_parts_wf t es Ep) as Hes.
  rewrite (map_find_c (r_root r) es Hes). cbn [bind].
  rewrite first_some_map. destruct (first_some _ es); [reflexivity|].
  rewrite existsb_map'.
  destruct (existsb _ es); [reflexivity|].
  rewrite (fold_delete_c es (r_root r, None) Hes Hwf Ht). cbn [bind of_out].
  destruct (fold_left _ es (r_root r, None)) as [root [x|]]; reflexivity.
Qed.

(* for every history: the next insert or delete, run at the level of indices, is the functional one - no Panic, no Fuel *)
Theorem reachable_rinsert_c b ops t d : rinsert_c (run b ops) t d = rinsert (run b ops) t d.
Proof. apply rinsert_c_refines. apply reachable_inv. Qed.

Theorem reachable_rdelete_c b ops t : rdelete_c (run b ops) t = rdelete (run b ops) t.
Proof. apply rdelete_c_refines. apply reachable_inv. Qed.

Theorem reachable_ops_c_never_panic b ops t d s :
  snd (rinsert_c (run b ops) t d) <> RPanic s /\ snd (rdelete_c (run b ops) t) <> RPanic s.
Proof.
  rewrite reachable_rinsert_c, reachable_rdelete_c. split; [apply rinsert_never_panics|apply rdelete_never_panics].
Qed.
