(* C03: which of two successful candidates the six best-match loops keep.  The closure of every
   `best_match.map_or(..)` in src/node/search.rs is REGENERATED on every run (Gen/Rankings.v); read over the model's
   route infos it is `better` of Spec/Walk.v - for every pair of infos -, it is the same in all six loops, and there is
   no other use of `best_match`. *)
From Coq Require Import Ascii String List NArith Bool.
From WF Require Import Base.Bytes Spec.Route Spec.Walk Check.Tokens Gen.Rankings.
Import ListNotations.
Local Open Scope string_scope.

Definition sem_arm (r : rarm) (a best : info) : bool :=
  match r with
  | RTrue => true
  | RFalse => false
  | RLenGe => N.leb (i_length best) (i_length a)            (* data.length() >= best.length() *)
  | RLenGt => N.ltb (i_length best) (i_length a)
  | RUnknown => false
  end.

(* map_or(none, |best| match data.depth().cmp(&best.depth()) { Greater => g, Equal => e, Less => l }) *)
Definition sem_rank (x : bytes * bool * rarm * rarm * rarm) (a : info) (best : option info) : bool :=
  let '(_, none, g, e, l) := x in
  match best with
  | None => none
  | Some b => match N.compare (i_depth a) (i_depth b) with Gt => sem_arm g a b | Eq => sem_arm e a b | Lt => sem_arm l a b end
  end.

Definition rank_known (x : bytes * bool * rarm * rarm * rarm) : bool :=
  let '(_, _, g, e, l) := x in
  match g, e, l with RUnknown, _, _ | _, RUnknown, _ | _, _, RUnknown => false | _, _, _ => true end.

Definition six_loops : list string :=
  ["search_dynamic_constrained_inline"; "search_dynamic_inline"; "search_wildcard_constrained_segment";
   "search_wildcard_constrained_inline"; "search_wildcard_segment"; "search_wildcard_inline"].

Lemma rankings_table :
  map (fun x : bytes * bool * rarm * rarm * rarm => fst (fst (fst (fst x)))) gen_rankings = map w six_loops
  /\ forallb (fun x : bytes * bool * rarm * rarm * rarm =>
                let '(_, none, g, e, l) := x in
                none && match g, e, l with RTrue, RLenGe, RFalse => true | _, _, _ => false end) gen_rankings = true
  /\ gen_best_match_uses = length gen_rankings /\ gen_best_match_assignments = length gen_rankings.
Proof. vm_compute. repeat split; reflexivity. Qed.

Lemma canonical_rank_is_better f a best :
  sem_rank (f, true, RTrue, RLenGe, RFalse) a best = match best with None => true | Some b => better a b end.
Proof. destruct best as [b|]; [|reflexivity]. unfold sem_rank, better. destruct (N.compare _ _); reflexivity. Qed.

(* every regenerated ranking closure keeps a candidate exactly when the model does *)
Theorem regenerated_rankings_are_better :
  forall x, In x gen_rankings ->
  forall a best, sem_rank x a best = match best with None => true | Some b => better a b end.
Proof.
  intros x Hx a best.
  destruct rankings_table as (_ & Hall & _). rewrite forallb_forall in Hall. specialize (Hall x Hx).
  destruct x as [[[[f none] g] e] l]. apply andb_true_iff in Hall as [Hn Hs]. subst none.
  destruct g, e, l; try discriminate. apply canonical_rank_is_better.
Qed.
