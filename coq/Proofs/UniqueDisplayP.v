(* Display does not look at the shortcut flags or the dirty marks; with the uniqueness of the canonical tree:
   two reachable routers storing the same routes print the same tree. *)
From Coq Require Import Lia.
From WF Require Import Base.Bytes Base.Utf8 Spec.Route Spec.Walk Model.Tree Model.Ops Model.Display Spec.Inv.
From WF Require Import Proofs.RefineP Proofs.InsRoutesP Proofs.UniqueP.

Lemma debug_erase : forall n label padding r l,
  debug_node (erase n) label padding r l = debug_node n label padding r l.
Proof.
  induction n using node_ind'. intros label padding r l. rewrite erase_eq.
  cbn [debug_node n_data n_st n_dc n_dy n_wc n_wi n_ec n_en]. rewrite !map_length.
  match goal with |- _ ++ ?G None ?c (map E st) ++ _ = _ =>
    assert (HG : forall k count l0, AllP (fun c0 => forall label padding r l, debug_node (erase c0) label padding r l = debug_node c0 label padding r l) l0 ->
                                     G k count (map E l0) = G k count l0) end.
  { intros k count l0 Hall. revert count. induction l0 as [|kc l0 IHl]; intros count; [reflexivity|].
    unfold AllP in Hall. apply Forall_cons_iff in Hall as [Hkc Hall]. cbn [map]. cbn [E fst snd].
    rewrite Hkc. rewrite (IHl Hall). reflexivity. }
  rewrite (HG None _ st H), (HG (Some KDC) _ dc H0), (HG (Some KDY) _ dy H1), (HG (Some KWC) _ wc H2),
          (HG (Some KWI) _ wi H3), (HG (Some KEC) _ ec H4), (HG (Some KEN) _ en H5). reflexivity.
Qed.

Lemma display_erase n : display (erase n) = display n.
Proof. unfold display. rewrite debug_erase. reflexivity. Qed.

Theorem same_routes_same_display n1 n2 :
  Good n1 -> Good n2 -> (forall r i, RM n1 r i <-> RM n2 r i) -> display n1 = display n2.
Proof.
  intros G1 G2 H. rewrite <- (display_erase n1), <- (display_erase n2). rewrite (canonical_unique n1 n2 G1 G2 H). reflexivity.
Qed.

(* ---- for the model router ---- *)
From WF Require Import Model.Parser Model.Router Proofs.InvP Proofs.ReachP Proofs.CompP Proofs.CanonP Proofs.RouterRoutesP Proofs.RegistryP Proofs.ReachOpsP.

Definition GoodR (r : router) : Prop := RInv r /\ CInvR r.

Lemma goodr_good r : GoodR r -> Good (r_root r).
Proof. intros [[W T] [_ C]]. split; [exact W|]. split; [exact T|exact C]. Qed.

Lemma goodr_step r o : GoodR r -> GoodR (step r o).
Proof.
  intros [HR HC]. split; [|apply cinv_step; assumption].
  destruct o; cbn [step]; [apply rinsert_inv|apply rdelete_inv|apply rconstraint_inv]; exact HR.
Qed.

Lemma reach_goodr b ops : GoodR (run b ops).
Proof. split; [apply reachable_inv|apply reachable_cinv]. Qed.

(* C05, printing half: the same live set gives the same printed tree *)
Theorem reach_same_live_display b1 b2 ops1 ops2 :
  (forall x, In x (live_of b1 ops1) <-> In x (live_of b2 ops2)) ->
  display (r_root (run b1 ops1)) = display (r_root (run b2 ops2))
  /\ erase (r_root (run b1 ops1)) = erase (r_root (run b2 ops2)).
Proof.
  intros H. pose proof (reach_same_live_routes b1 b2 ops1 ops2 H) as HR.
  pose proof (goodr_good _ (reach_goodr b1 ops1)) as G1. pose proof (goodr_good _ (reach_goodr b2 ops2)) as G2.
  split; [apply same_routes_same_display; assumption|apply canonical_unique; assumption].
Qed.

(* C10: insert followed by delete restores the printed tree *)
Theorem reach_roundtrip_display b ops t d r1 :
  rinsert (run b ops) t d = (r1, ROk tt) ->
  exists r2, rdelete r1 t = (r2, ROk d)
    /\ display (r_root r2) = display (r_root (run b ops))
    /\ erase (r_root r2) = erase (r_root (run b ops)).
Proof.
  intros Hi. destruct (reach_roundtrip b ops t d r1 Hi) as (r2 & Hd & _ & HRM & _). exists r2. split; [exact Hd|].
  pose proof (reach_goodr b ops) as G0.
  assert (G1 : GoodR r1) by (pose proof (goodr_step _ (OInsert t d) G0) as G; cbn [step] in G; rewrite Hi in G; exact G).
  assert (G2 : GoodR r2) by (pose proof (goodr_step _ (ODelete t) G1) as G; cbn [step] in G; rewrite Hd in G; exact G).
  split; [apply same_routes_same_display|apply canonical_unique]; auto using goodr_good.
Qed.
