(* Completeness of the reference walk: a path that some route fits is always answered. *)
From Coq Require Import Lia.
From WF Require Import Base.Bytes Base.Utf8 Spec.Route Spec.Walk Proofs.BytesP Proofs.WalkP Proofs.WalkFuelP.

Lemma first_some_not_none {A B} (f : A -> option B) l x : In x l -> f x <> None -> first_some f l <> None.
Proof. intros Hin Hf H. rewrite first_some_none in H. apply Hf. apply H. exact Hin. Qed.

(* ---- groups are complete ---- *)
Lemma ginsert_complete ky x gs :
  (exists g, In (ky, g) (ginsert ky x gs) /\ In x g)
  /\ (forall k g y, In (k, g) gs -> In y g -> exists g', In (k, g') (ginsert ky x gs) /\ In y g').
Proof.
  induction gs as [|[k' g'] gs [IH1 IH2]]; cbn [ginsert].
  - split; [exists [x]; split; left; reflexivity|intros k g y []].
  - destruct (kcmp ky k') eqn:E.
    + apply kcmp_eq in E; subst k'. split.
      * exists (x :: g'). split; left; reflexivity.
      * intros k g y [H|H] Hy.
        -- inversion H; subst. exists (x :: g). split; [left; reflexivity|right; exact Hy].
        -- exists g. split; [right; exact H|exact Hy].
    + split.
      * exists [x]. split; left; reflexivity.
      * intros k g y H Hy. exists g. split; [right; exact H|exact Hy].
    + split.
      * destruct IH1 as (g & Hg & Hx). exists g. split; [right; exact Hg|exact Hx].
      * intros k g y [H|H] Hy.
        -- inversion H; subst. exists g. split; [left; reflexivity|exact Hy].
        -- destruct (IH2 k g y H Hy) as (g2 & Hg2 & Hy2). exists g2. split; [right; exact Hg2|exact Hy2].
Qed.

Lemma fold_ginsert_complete (l : list (key * (route * info))) ky x :
  In (ky, x) l -> exists g, In (ky, g) (fold_right (fun kx gs => ginsert (fst kx) (snd kx) gs) [] l) /\ In x g.
Proof.
  induction l as [|[k0 x0] l IH]; [intros []|].
  intros [H|H]; cbn [fold_right fst snd].
  - inversion H; subst. apply ginsert_complete.
  - destruct (IH H) as (g & Hg & Hx). eapply (proj2 (ginsert_complete k0 x0 _)); eauto.
Qed.

Lemma groups_complete k rs ri ky x :
  In ri rs -> key_of k ri = Some (ky, x) -> exists g, In (ky, g) (groups k rs) /\ In x g.
Proof.
  intros Hin Hk. unfold groups. apply fold_ginsert_complete. apply filter_map_in. exists ri. auto.
Qed.

(* ---- candidates are complete ---- *)
Lemma cands_from_complete dyn : forall v pre rest,
  v <> [] -> (dyn = true -> ~ In SL v) -> In (pre ++ v, rest) (cands_from dyn pre (v ++ rest)).
Proof.
  induction v as [|b v IH]; intros pre rest Hv Hd; [congruence|].
  cbn [app cands_from].
  assert (Hb : dyn && N.eqb b SL = false).
  { destruct dyn; [|reflexivity]. cbn. apply N.eqb_neq. intros ->. apply (Hd eq_refl). left; reflexivity. }
  rewrite Hb. destruct v as [|c v].
  - left. reflexivity.
  - right. replace (pre ++ b :: c :: v) with ((pre ++ [b]) ++ c :: v) by (rewrite <- app_assoc; reflexivity).
    apply IH; [discriminate|]. intros Hdy Hin. apply (Hd Hdy). right; exact Hin.
Qed.

Lemma kind_eqb_refl' k : kind_eqb k k = true.
Proof. destruct k; reflexivity. Qed.

Section C.
  Variable chk : bytes -> bytes -> bool.

  Lemma fits_nil_path' p vs : fits chk [] p vs -> p = [].
  Proof. intros H. inversion H; reflexivity. Qed.

  Lemma fits_nil_path r vs : fits chk r [] vs -> r = [] /\ vs = [].
  Proof.
    intros H. inversion H; subst; auto.
    - destruct v; [congruence|discriminate].
    - destruct v; [congruence|discriminate].
  Qed.

  Lemma done_complete rs i : In ([], i) rs -> done rs <> None.
  Proof.
    intros Hin. unfold done.
    match goal with |- context [filter_map ?f rs] => destruct (filter_map f rs) as [|i0 l] eqn:E end; [|discriminate].
    assert (Hx : In i (filter_map (fun ri : route * info => match fst ri with [] => Some (snd ri) | _ :: _ => None end) rs)).
    { apply filter_map_in. exists ([], i). split; [exact Hin|reflexivity]. }
    rewrite E in Hx. destruct Hx.
  Qed.

  (* the parameter step: if the route starts with a parameter whose value v is acceptable and the
     rest of the route is answered on the rest of the path, some kind answers *)
  Lemma param_step_complete f rs k ky r' i v rest a :
    In (a :: r', i) rs -> classify (a :: r') = Some (k, ky, r') ->
    In (v, rest) (cands k (v ++ rest)) -> ok chk ky v = true ->
    (forall g, In (r', i) g -> walk chk f g rest <> None) ->
    first_some (fun k0 =>
       first_some (fun kg : key * routes => pick chk (walk chk f (snd kg)) (fst kg) (cands k0 (v ++ rest)))
                  (groups k0 rs)) all_kinds <> None.
  Proof.
    intros Hin Hcl Hc Hok Hw.
    assert (Hk : key_of k (a :: r', i) = Some (ky, (r', i))).
    { unfold key_of. cbn [fst snd]. rewrite Hcl, kind_eqb_refl'. reflexivity. }
    destruct (groups_complete k rs _ _ _ Hin Hk) as (g & Hg & Hx).
    apply first_some_not_none with (x := k); [destruct k; cbn; auto 10|].
    apply first_some_not_none with (x := (ky, g)); [exact Hg|]. cbn [fst snd].
    intros Hn. rewrite pick_none in Hn. specialize (Hn (v, rest) Hc Hok). cbn [snd] in Hn.
    apply (Hw g Hx). exact Hn.
  Qed.

  Theorem walk_complete : forall f rs p r i vs,
    length p < f -> In (r, i) rs -> fits chk r p vs -> walk chk f rs p <> None.
  Proof.
    induction f as [|f IH]; intros rs p r i vs Hf Hin Hfit; [lia|].
    rewrite walk_S. destruct p as [|b rest].
    - apply fits_nil_path in Hfit as [-> ->]. apply done_complete with (i := i). exact Hin.
    - cbn [length] in Hf.
      destruct (walk chk f (filter_map (strip b) rs) rest) eqn:E1; [cbn; discriminate|].
      cbn [or_else].
      inversion Hfit; subst.
      + (* literal byte: the static step would have answered *)
        exfalso. revert E1. eapply IH with (r := r0) (i := i); [lia| |eassumption].
        apply filter_map_in. exists (AB b :: r0, i). split; [exact Hin|].
        unfold strip. cbn [fst snd]. rewrite N.eqb_refl. reflexivity.
      + (* dynamic parameter *)
        match goal with Hp : _ ++ _ = b :: rest |- _ => rewrite <- Hp in * end.
        assert (Hlen : length rest0 < f).
        { match goal with Hp : v ++ rest0 = b :: rest |- _ => apply (f_equal (@length _)) in Hp; rewrite app_length in Hp; cbn in Hp end.
          destruct v; [congruence|cbn in *; lia]. }
        eapply param_step_complete with (k := match c with Some _ => KDC | None => KDY end) (ky := (n, c)) (r' := r0) (i := i) (a := AD n c).
        * exact Hin.
        * destruct c; reflexivity.
        * unfold cands. destruct c; cbn [is_end is_dyn]; apply (cands_from_complete true v [] rest0); auto.
        * unfold ok. cbn [snd]. rewrite andb_true_iff. auto.
        * intros g Hg. eapply IH; eauto.
      + (* wildcard parameter *)
        match goal with Hp : _ ++ _ = b :: rest |- _ => rewrite <- Hp in * end.
        assert (Hlen : length rest0 < f).
        { match goal with Hp : v ++ rest0 = b :: rest |- _ => apply (f_equal (@length _)) in Hp; rewrite app_length in Hp; cbn in Hp end.
          destruct v; [congruence|cbn in *; lia]. }
        destruct r0 as [|a0 r0].
        * (* catch-all: the value is the whole rest of the path *)
          match goal with Hr : fits chk [] rest0 _ |- _ => apply fits_nil_path' in Hr; subst rest0 end.
          eapply param_step_complete with (k := match c with Some _ => KEC | None => KEN end) (ky := (n, c)) (r' := []) (i := i) (a := AW n c).
          -- exact Hin.
          -- destruct c; reflexivity.
          -- unfold cands. rewrite app_nil_r. destruct c; cbn [is_end]; left; reflexivity.
          -- unfold ok. cbn [snd]. rewrite andb_true_iff. auto.
          -- intros g Hg. destruct f as [|f']; [lia|]. rewrite walk_S. apply done_complete with (i := i). exact Hg.
        * eapply param_step_complete with (k := match c with Some _ => KWC | None => KWI end) (ky := (n, c)) (r' := a0 :: r0) (i := i) (a := AW n c).
          -- exact Hin.
          -- destruct c; reflexivity.
          -- unfold cands. destruct c; cbn [is_end is_dyn]; apply (cands_from_complete false v [] rest0); auto; discriminate.
          -- unfold ok. cbn [snd]. rewrite andb_true_iff. auto.
          -- intros g Hg. eapply IH; eauto.
  Qed.

  Corollary W_complete rs p r i vs : In (r, i) rs -> fits chk r p vs -> W chk rs p <> None.
  Proof. intros. unfold W. eapply walk_complete; eauto. Qed.
End C.
