(* C17: the route table REGENERATED from examples/oci/src against end-1..end-10 of the distribution specification
   (Spec/OciSpec.v spec_handler), as a closed computation over the table: every route of the table is the template
   of a specified (method, shape) with the specified handler, and every specified (method, shape) is in the table
   except end-5 (PATCH of an upload session): known finding K1. *)
From Coq Require Import Ascii String List.
From WF Require Import Base.Bytes Spec.OciSpec Check.Oci Gen.Oci.
Import ListNotations.

(* the template under which the example is expected to register each URL shape *)
Definition shape_template (sh : shape) : bytes :=
  match sh with
  | ShRoot => w "/v2(/)"
  | ShBlob => w "/v2/{*name:name}/blobs/{digest}(/)"
  | ShManifest => w "/v2/{*name:name}/manifests/{reference}(/)"
  | ShUploads => w "/v2/{*name:name}/blobs/uploads(/)"
  | ShUpload => w "/v2/{*name:name}/blobs/uploads/{reference}(/)"
  | ShTags => w "/v2/{*name:name}/tags/list(/)"
  end.
Definition shapes : list shape := [ShRoot; ShBlob; ShManifest; ShUploads; ShUpload; ShTags].
Definition all_methods : list bytes := [w "GET"; w "HEAD"; w "POST"; w "PUT"; w "PATCH"; w "DELETE"].

Definition entry_eqb (a b : bytes * bytes * bytes) : bool :=
  beqb (fst (fst a)) (fst (fst b)) && beqb (snd (fst a)) (snd (fst b)) && beqb (snd a) (snd b).

(* what the specification requires the table to contain *)
Definition spec_table : list (bytes * bytes * bytes) :=
  flat_map (fun m => flat_map (fun sh => match spec_handler m sh with
                                        | Some h => [(m, shape_template sh, h)]
                                        | None => [] end) shapes) all_methods.

Definition END5 : bytes * bytes * bytes := (w "PATCH", shape_template ShUpload, w "blob::handle_blob_push_patch").

Theorem table_within_spec :
  forallb (fun e => existsb (entry_eqb e) spec_table) oci_routes = true.
Proof. vm_compute. reflexivity. Qed.

Theorem spec_within_table_except_end5 :
  forallb (fun e => existsb (entry_eqb e) oci_routes || entry_eqb e END5) spec_table = true.
Proof. vm_compute. reflexivity. Qed.

(* whether the table has the end-5 route (false on the pinned example: known finding K1).  Not a theorem, so that
   a repaired example still builds; printed by Properties/C17.v *)
Definition end5_present : bool := existsb (entry_eqb END5) oci_routes.

Theorem no_duplicate_table_entries :
  forallb (fun e => Nat.eqb (length (filter (fun e' => beqb (fst (fst e)) (fst (fst e')) && beqb (snd (fst e)) (snd (fst e'))) oci_routes)) 1) oci_routes = true.
Proof. vm_compute. reflexivity. Qed.
