(* Non-interference: a route that does not fit the path does not influence the walk. *)
From Coq Require Import Lia Sorted Permutation.
From WF Require Import Base.Bytes Base.Utf8 Spec.Route Spec.Walk.
From WF Require Import Proofs.BytesP Proofs.WalkP Proofs.WalkFuelP Proofs.WalkCompleteP Proofs.GroupsP Proofs.WalkPermP.

Section N.
  Variable chk : bytes -> bytes -> bool.

  Lemma fold_pick_ext_ok srch1 srch2 ky cs : forall acc,
    (forall c, In c cs -> ok chk ky (fst c) = true -> srch1 (snd c) = srch2 (snd c)) ->
    fold_left (pick_step chk srch1 ky) cs acc = fold_left (pick_step chk srch2 ky) cs acc.
  Proof.
    induction cs as [|c cs IH]; intros acc H; [reflexivity|]. cbn [fold_left].
    assert (pick_step chk srch1 ky acc c = pick_step chk srch2 ky acc c) as ->.
    { unfold pick_step. destruct (ok chk ky (fst c)) eqn:E; [|reflexivity].
      rewrite (H c (or_introl eq_refl) E). reflexivity. }
    apply IH. intros c' Hc'. apply H. right; exact Hc'.
  Qed.

  Lemma pick_ext_ok srch1 srch2 ky cs :
    (forall c, In c cs -> ok chk ky (fst c) = true -> srch1 (snd c) = srch2 (snd c)) ->
    pick chk srch1 ky cs = pick chk srch2 ky cs.
  Proof. intros H. rewrite !pick_unfold. apply fold_pick_ext_ok. exact H. Qed.

  (* inserting a member whose continuation never succeeds does not change the group phase *)
  Lemma first_some_ginsert f ky x cs gs :
    (forall g, pick chk (walk chk f (x :: g)) ky cs = pick chk (walk chk f g) ky cs) ->
    pick chk (walk chk f [x]) ky cs = None ->
    first_some (fun kg : key * routes => pick chk (walk chk f (snd kg)) (fst kg) cs) (ginsert ky x gs)
    = first_some (fun kg : key * routes => pick chk (walk chk f (snd kg)) (fst kg) cs) gs.
  Proof.
    intros H1 H2. induction gs as [|[k' g'] gs IH]; cbn [ginsert].
    - cbn [first_some fst snd]. rewrite H2. reflexivity.
    - destruct (kcmp ky k') eqn:E.
      + apply kcmp_eq in E. subst k'. cbn [first_some fst snd]. rewrite H1. reflexivity.
      + cbn [first_some fst snd]. rewrite H2. reflexivity.
      + cbn [first_some fst snd]. rewrite IH. reflexivity.
  Qed.

  Lemma done_cons_nonnil a r i rs : done ((a :: r, i) :: rs) = done rs.
  Proof. reflexivity. Qed.

  Theorem walk_cons_nofit : forall f r i rs p,
    (forall vs, ~ fits chk r p vs) -> walk chk f ((r, i) :: rs) p = walk chk f rs p.
  Proof.
    induction f as [|f IH]; intros r i rs p Hnf; [reflexivity|].
    rewrite !walk_S. destruct p as [|b rest].
    - destruct r as [|a r]; [exfalso; apply (Hnf []); constructor|]. apply done_cons_nonnil.
    - f_equal.
      + cbn [filter_map]. destruct (strip b (r, i)) as [[r' i']|] eqn:Es; [|reflexivity].
        apply strip_some in Es as [Hr Hi]. cbn [fst snd] in Hr, Hi. subst r i'.
        apply IH. intros vs Hf. apply (Hnf vs). constructor. exact Hf.
      + apply first_some_ext. intros k _.
        rewrite !groups_gfold. cbn [filter_map].
        destruct (key_of k (r, i)) as [[ky x]|] eqn:Ek; [|reflexivity].
        cbn [gfold fold_right]. unfold ginsert' at 1. cbn [fst snd]. fold (gfold (filter_map (key_of k) rs)).
        apply key_of_shape in Ek as (Hr & Hi & Hend). cbn [fst snd] in Hr, Hi. destruct x as [r' i']. cbn [fst snd] in *. subst i'.
        assert (Hrest : forall c, In c (cands k (b :: rest)) -> ok chk ky (fst c) = true ->
                                  forall vs, ~ fits chk r' (snd c) vs).
        { intros [v rest'] Hc Hok vs Hf. cbn [fst snd] in *.
          apply cands_spec in Hc as (Hv & Hp & Hd & _); [|discriminate].
          unfold ok in Hok. apply andb_true_iff in Hok as [Hu Hc'].
          apply (Hnf (v :: vs)). rewrite Hr, Hp.
          destruct (is_dyn k) eqn:Ed; [apply F_dyn|apply F_wild]; auto. }
        apply first_some_ginsert.
        * intros g. apply pick_ext_ok. intros c Hc Hok. apply (IH r' i g (snd c)). apply Hrest; assumption.
        * apply pick_none. intros c Hc Hok.
          rewrite (IH r' i [] (snd c)) by (apply Hrest; assumption). apply walk_nil.
  Qed.

  (* several routes at once *)
  Corollary walk_app_nofit f (new rs : routes) p :
    (forall r i vs, In (r, i) new -> ~ fits chk r p vs) -> walk chk f (new ++ rs) p = walk chk f rs p.
  Proof.
    induction new as [|[r i] new IH]; intros H; [reflexivity|].
    cbn [app]. rewrite walk_cons_nofit.
    - apply IH. intros r' i' vs Hin. apply (H r' i' vs). right; exact Hin.
    - intros vs. apply (H r i vs). left; reflexivity.
  Qed.

  (* the same for any arrangement of the routes *)
  Theorem W_nonint (all new rs : routes) p :
    Permutation all (new ++ rs) -> NoDup (map fst all) ->
    (forall r i vs, In (r, i) new -> ~ fits chk r p vs) ->
    W chk all p = W chk rs p.
  Proof.
    intros Hp Hn Hnf. unfold W. rewrite (walk_perm chk _ _ _ p Hp Hn). apply walk_app_nofit. exact Hnf.
  Qed.
End N.
