(* C08 / C09 / C06: the eighteen per-kind functions insert_<kind> / find_<kind> / delete_<kind>, REGENERATED on every run
   (Gen/KindOps.v): each touches exactly the child list of its own kind, recognises a child by its name - and its
   constraint when the kind carries one -, and a new child gets the node state of that kind.  Read over the model's keys
   that test is keqb, the comparison Model/Ops.v uses to locate a child. *)
From Coq Require Import Ascii String List Bool.
From WF Require Import Base.Bytes Spec.Route Spec.Walk Check.Tokens Gen.KindOps Proofs.BytesP.
Import ListNotations.
Local Open Scope string_scope.

Definition kind_field (k : kind) : string :=
  match k with
  | KDC => "dynamic_constrained" | KDY => "dynamic" | KWC => "wildcard_constrained" | KWI => "wildcard"
  | KEC => "end_wildcard_constrained" | KEN => "end_wildcard"
  end.
Definition kind_state (k : kind) : string :=
  match k with
  | KDC => "DynamicConstrainedState" | KDY => "DynamicState" | KWC => "WildcardConstrainedState" | KWI => "WildcardState"
  | KEC => "EndWildcardConstrainedState" | KEN => "EndWildcardState"
  end.
Definition constrained (k : kind) : bool := match k with KDC | KWC | KEC => true | _ => false end.
Definition kind_test (k : kind) : string :=
  if constrained k then "child.state.name==name&&child.state.constraint==constraint" else "child.state.name==name".

Definition expected_kind_ops : list (string * string * string * string) :=
  flat_map (fun op : string =>
    map (fun k => (op ++ "_" ++ kind_field k, kind_field k ++ "_children", kind_test k,
                   if String.eqb op "insert" then kind_state k else "")) all_kinds)
    ["insert"; "find"; "delete"].

Fixpoint ko_eqb (a : list (bytes * list bytes * list bytes * bytes)) (b : list (string * string * string * string)) : bool :=
  match a, b with
  | [], [] => true
  | (f, [l], [t], st) :: a', (f', l', t', st') :: b' =>
    beqb f (w f') && beqb l (w l') && beqb t (w t') && beqb st (w st') && ko_eqb a' b'
  | _, _ => false
  end.

Lemma kind_ops_table : ko_eqb gen_kind_ops expected_kind_ops = true.
Proof. vm_compute. reflexivity. Qed.

(* the test, over keys: `child.state.name == name` on a kind without constraint, `.. && child.state.constraint == constraint`
   on a kind with one, is the model's key equality *)
Definition sem_kind_test (k : kind) (child wanted : key) : bool :=
  if constrained k
  then beqb (fst child) (fst wanted)
       && match snd child, snd wanted with Some c, Some c' => beqb c c' | _, _ => false end
  else beqb (fst child) (fst wanted).

Definition key_of_kind (k : kind) (ky : key) : Prop :=
  if constrained k then exists c, snd ky = Some c else snd ky = None.

Theorem kind_test_is_keqb k child wanted :
  key_of_kind k child -> key_of_kind k wanted -> sem_kind_test k child wanted = keqb child wanted.
Proof.
  unfold key_of_kind, sem_kind_test, keqb. destruct (constrained k).
  - intros [c Hc] [c' Hc']. rewrite Hc, Hc'. reflexivity.
  - intros -> ->. cbn [obeqb]. rewrite andb_true_r. reflexivity.
Qed.
