(* Basic facts about bytes, prefix tests, comparisons, first_some / filter_map. *)
From Coq Require Import Lia.
From WF Require Import Base.Bytes.

Lemma beqb_refl a : beqb a a = true.
Proof. induction a as [|x a IH]; cbn; [reflexivity|]. rewrite N.eqb_refl, IH. reflexivity. Qed.

Lemma beqb_eq a b : beqb a b = true <-> a = b.
Proof.
  split; [|intros ->; apply beqb_refl].
  revert b; induction a as [|x a IH]; intros [|y b] H; cbn in H; try discriminate; [reflexivity|].
  apply andb_true_iff in H as [H1 H2]. apply N.eqb_eq in H1. apply IH in H2. congruence.
Qed.

Lemma beqb_neq a b : beqb a b = false <-> a <> b.
Proof.
  split.
  - intros H E. apply beqb_eq in E. congruence.
  - intros H. destruct (beqb a b) eqn:E; [|reflexivity]. apply beqb_eq in E. contradiction.
Qed.

Lemma obeqb_eq a b : obeqb a b = true <-> a = b.
Proof.
  destruct a, b; cbn; try (split; congruence).
  rewrite beqb_eq. split; congruence.
Qed.

Lemma starts_with_spec p s rest : starts_with p s = Some rest <-> s = p ++ rest.
Proof.
  revert s; induction p as [|x p IH]; intros s; cbn.
  - split; congruence.
  - destruct s as [|y s]; [split; discriminate|].
    destruct (N.eqb_spec x y) as [->|Hne].
    + rewrite IH. split; congruence.
    + split; [discriminate|]. intros H; inversion H; congruence.
Qed.

Lemma starts_with_app p rest : starts_with p (p ++ rest) = Some rest.
Proof. apply starts_with_spec. reflexivity. Qed.

(* lexicographic comparison *)
Lemma bcmp_refl a : bcmp a a = Eq.
Proof. induction a as [|x a IH]; cbn; [reflexivity|]. rewrite N.compare_refl. exact IH. Qed.

Lemma bcmp_eq a b : bcmp a b = Eq <-> a = b.
Proof.
  split; [|intros ->; apply bcmp_refl].
  revert b; induction a as [|x a IH]; intros [|y b] H; cbn in H; try discriminate; [reflexivity|].
  destruct (N.compare x y) eqn:E; try discriminate.
  apply N.compare_eq in E. apply IH in H. congruence.
Qed.

Lemma bcmp_antisym a b : bcmp b a = CompOpp (bcmp a b).
Proof.
  revert b; induction a as [|x a IH]; intros [|y b]; cbn; try reflexivity.
  rewrite (N.compare_antisym x y). destruct (N.compare x y); cbn; auto.
Qed.

Lemma bcmp_lt_trans a b c : bcmp a b = Lt -> bcmp b c = Lt -> bcmp a c = Lt.
Proof.
  revert b c; induction a as [|x a IH]; intros [|y b] [|z c] H1 H2; cbn in *; try discriminate; try reflexivity.
  destruct (N.compare x y) eqn:E1; try discriminate.
  - apply N.compare_eq in E1; subst y.
    destruct (N.compare x z) eqn:E2; try discriminate; [|reflexivity]. eapply IH; eauto.
  - destruct (N.compare y z) eqn:E2; try discriminate.
    + apply N.compare_eq in E2; subst z. rewrite E1. reflexivity.
    + assert (N.compare x z = Lt) as -> by (rewrite N.compare_lt_iff in *; lia). reflexivity.
Qed.

Lemma ocmp_refl a : ocmp a a = Eq.
Proof. destruct a; cbn; [apply bcmp_refl|reflexivity]. Qed.
Lemma ocmp_eq a b : ocmp a b = Eq <-> a = b.
Proof.
  destruct a, b; cbn; try (split; congruence).
  rewrite bcmp_eq. split; congruence.
Qed.
Lemma ocmp_antisym a b : ocmp b a = CompOpp (ocmp a b).
Proof. destruct a, b; cbn; try reflexivity. apply bcmp_antisym. Qed.
Lemma ocmp_lt_trans a b c : ocmp a b = Lt -> ocmp b c = Lt -> ocmp a c = Lt.
Proof. destruct a, b, c; cbn; try discriminate; try reflexivity. apply bcmp_lt_trans. Qed.

(* first_some / filter_map *)
Lemma first_some_some {A B} (f : A -> option B) l r :
  first_some f l = Some r -> exists x, In x l /\ f x = Some r.
Proof.
  induction l as [|x l IH]; cbn; [discriminate|].
  destruct (f x) eqn:E.
  - intros H; inversion H; subst. exists x; auto.
  - intros H. destruct (IH H) as (y & Hy & Hf). exists y; auto.
Qed.

Lemma first_some_none {A B} (f : A -> option B) l :
  first_some f l = None <-> forall x, In x l -> f x = None.
Proof.
  induction l as [|x l IH]; cbn.
  - split; [intros _ y []|reflexivity].
  - destruct (f x) eqn:E.
    + split; [discriminate|]. intros H. specialize (H x (or_introl eq_refl)). congruence.
    + rewrite IH. split.
      * intros H y [->|Hy]; auto.
      * intros H y Hy. apply H. auto.
Qed.

Lemma first_some_ext {A B} (f g : A -> option B) l :
  (forall x, In x l -> f x = g x) -> first_some f l = first_some g l.
Proof.
  induction l as [|x l IH]; cbn; [reflexivity|]. intros H.
  rewrite (H x (or_introl eq_refl)). destruct (g x); [reflexivity|]. apply IH. intros y Hy. apply H. auto.
Qed.

Lemma first_some_app {A B} (f : A -> option B) l1 l2 :
  first_some f (l1 ++ l2) = or_else (first_some f l1) (first_some f l2).
Proof.
  induction l1 as [|x l1 IH]; cbn; [reflexivity|]. destruct (f x); [reflexivity|]. exact IH.
Qed.

Lemma filter_map_in {A B} (f : A -> option B) l y :
  In y (filter_map f l) <-> exists x, In x l /\ f x = Some y.
Proof.
  induction l as [|x l IH]; cbn.
  - split; [intros []|intros (x & [] & _)].
  - destruct (f x) eqn:E; cbn; rewrite IH; split.
    + intros [<-|(z & Hz & Hf)]; [exists x; auto|exists z; auto].
    + intros (z & [<-|Hz] & Hf); [left; congruence|right; exists z; auto].
    + intros (z & Hz & Hf). exists z; auto.
    + intros (z & [<-|Hz] & Hf); [congruence|exists z; auto].
Qed.

Lemma filter_map_app {A B} (f : A -> option B) l1 l2 :
  filter_map f (l1 ++ l2) = filter_map f l1 ++ filter_map f l2.
Proof.
  induction l1 as [|x l1 IH]; cbn; [reflexivity|]. destruct (f x); cbn; rewrite IH; reflexivity.
Qed.

Lemma filter_map_none {A B} (f : A -> option B) l :
  (forall x, In x l -> f x = None) -> filter_map f l = [].
Proof.
  induction l as [|x l IH]; cbn; [reflexivity|]. intros H.
  rewrite (H x (or_introl eq_refl)). apply IH. intros y Hy. apply H. auto.
Qed.

Lemma filter_map_ext {A B} (f g : A -> option B) l :
  (forall x, In x l -> f x = g x) -> filter_map f l = filter_map g l.
Proof.
  induction l as [|x l IH]; cbn; [reflexivity|]. intros H.
  rewrite (H x (or_introl eq_refl)). rewrite IH; [reflexivity|]. intros y Hy. apply H. auto.
Qed.

Lemma filter_map_map {A B C} (f : B -> option C) (g : A -> B) l :
  filter_map f (map g l) = filter_map (fun x => f (g x)) l.
Proof. induction l as [|x l IH]; cbn; [reflexivity|]. rewrite IH. reflexivity. Qed.

Lemma filter_map_flat_map {A B C} (f : B -> option C) (g : A -> list B) l :
  filter_map f (flat_map g l) = flat_map (fun x => filter_map f (g x)) l.
Proof. induction l as [|x l IH]; cbn; [reflexivity|]. rewrite filter_map_app, IH. reflexivity. Qed.

Lemma or_else_none_r {A} (a : option A) : or_else a None = a.
Proof. destruct a; reflexivity. Qed.

Lemma filter_map_all_some {A B} (f : A -> option B) (g : A -> B) l :
  (forall x, In x l -> f x = Some (g x)) -> filter_map f l = map g l.
Proof.
  induction l as [|x l IH]; intros H; [reflexivity|].
  cbn [filter_map map]. rewrite (H x (or_introl eq_refl)). f_equal. apply IH. intros y Hy. apply H. right; exact Hy.
Qed.

Lemma flat_map_ext_in {A B} (f g : A -> list B) l :
  (forall x, In x l -> f x = g x) -> flat_map f l = flat_map g l.
Proof.
  induction l as [|x l IH]; intros H; [reflexivity|].
  cbn [flat_map]. rewrite (H x (or_introl eq_refl)). f_equal. apply IH. intros y Hy. apply H. right; exact Hy.
Qed.

Lemma flat_map_nil {A B} (f : A -> list B) l : (forall x, In x l -> f x = []) -> flat_map f l = [].
Proof.
  induction l as [|x l IH]; intros H; [reflexivity|].
  cbn [flat_map]. rewrite (H x (or_introl eq_refl)). cbn [app]. apply IH. intros y Hy. apply H. right; exact Hy.
Qed.

Lemma first_some_map {A B C} (f : B -> option C) (g : A -> B) l :
  first_some f (map g l) = first_some (fun x => f (g x)) l.
Proof. induction l as [|x l IH]; cbn; [reflexivity|]. rewrite IH. reflexivity. Qed.

Lemma NoDup_app_snoc {A} (l : list A) x : NoDup l -> ~ In x l -> NoDup (l ++ [x]).
Proof.
  induction l as [|y l IH]; intros Hn Hx; cbn; [constructor; [intros []|constructor]|].
  apply NoDup_cons_iff in Hn as [Hy Hn]. constructor.
  - intros Hin. apply in_app_or in Hin as [Hin|[->|[]]]; [contradiction|]. apply Hx. left; reflexivity.
  - apply IH; [exact Hn|]. intros Hin. apply Hx. right; exact Hin.
Qed.
