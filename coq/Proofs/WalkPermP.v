(* The reference walk does not depend on the order of the routes (routes being pairwise distinct). *)
From Coq Require Import Lia Sorted Permutation.
From WF Require Import Base.Bytes Base.Utf8 Spec.Route Spec.Walk.
From WF Require Import Proofs.BytesP Proofs.WalkP Proofs.WalkFuelP Proofs.WalkCompleteP Proofs.GroupsP.

Lemma filter_map_perm {A B} (f : A -> option B) l1 l2 :
  Permutation l1 l2 -> Permutation (filter_map f l1) (filter_map f l2).
Proof.
  induction 1; cbn [filter_map].
  - constructor.
  - destruct (f x); [constructor|]; assumption.
  - destruct (f x), (f y); try constructor; apply Permutation_refl.
  - eapply Permutation_trans; eauto.
Qed.

Lemma NoDup_fst_inj {A B} (l : list (A * B)) a x y :
  NoDup (map fst l) -> In (a, x) l -> In (a, y) l -> x = y.
Proof.
  induction l as [|[a0 b0] l IH]; cbn [map fst]; intros Hn Hx Hy; [destruct Hx|].
  apply NoDup_cons_iff in Hn as [Hnin Hn].
  destruct Hx as [Hx|Hx], Hy as [Hy|Hy].
  - congruence.
  - inversion Hx; subst. exfalso. apply Hnin. apply in_map_iff. exists (a, y). auto.
  - inversion Hy; subst. exfalso. apply Hnin. apply in_map_iff. exists (a, x). auto.
  - eapply IH; eauto.
Qed.

Lemma NoDup_fst_filter_map {A B} (f : (list A * B) -> option (list A * B)) (h : list A -> list A) l :
  (forall r1 r2, h r1 = h r2 -> r1 = r2) ->
  (forall a b, f a = Some b -> fst a = h (fst b)) ->
  NoDup (map fst l) -> NoDup (map fst (filter_map f l)).
Proof.
  intros Hinj Hf. induction l as [|a l IH]; cbn [map filter_map]; intros Hn; [constructor|].
  apply NoDup_cons_iff in Hn as [Hnin Hn].
  destruct (f a) as [b|] eqn:E; [|apply IH; exact Hn].
  cbn [map]. constructor; [|apply IH; exact Hn].
  intros Hin. apply in_map_iff in Hin as (b' & Hb & Hin'). apply filter_map_in in Hin' as (a' & Ha' & Hfa').
  apply Hnin. apply in_map_iff. exists a'. split; [|exact Ha'].
  rewrite (Hf _ _ E), (Hf _ _ Hfa'). congruence.
Qed.

Section P.
  Variable chk : bytes -> bytes -> bool.

  Lemma done_perm rs1 rs2 : Permutation rs1 rs2 -> NoDup (map fst rs1) -> done rs1 = done rs2.
  Proof.
    intros Hp Hn.
    assert (Hn2 : NoDup (map fst rs2)) by (eapply Permutation_NoDup; [apply Permutation_map; exact Hp|exact Hn]).
    destruct (done rs1) as [[i1 ps1]|] eqn:E1.
    - apply done_some in E1 as [-> Hin1].
      assert (Hin2 : In ([], i1) rs2) by (eapply Permutation_in; eauto).
      destruct (done rs2) as [[i2 ps2]|] eqn:E2.
      + apply done_some in E2 as [-> Hin2'].
        rewrite (NoDup_fst_inj rs2 [] i1 i2 Hn2 Hin2 Hin2'). reflexivity.
      + exfalso. revert E2. apply done_complete with (i := i1). exact Hin2.
    - destruct (done rs2) as [[i2 ps2]|] eqn:E2; [|reflexivity].
      apply done_some in E2 as [-> Hin2]. exfalso. revert E1. apply done_complete with (i := i2).
      eapply Permutation_in; [apply Permutation_sym; exact Hp|exact Hin2].
  Qed.

  (* the group of key ky as a filter_map over the routes *)
  Definition under (k : kind) (ky : key) (ri : route * info) : option (route * info) :=
    match key_of k ri with
    | Some (ky', x) => if keqb ky' ky then Some x else None
    | None => None
    end.

  Lemma sel_under k ky rs : sel ky (filter_map (key_of k) rs) = filter_map (under k ky) rs.
  Proof.
    unfold sel, under. induction rs as [|ri rs IH]; [reflexivity|].
    cbn [filter_map]. destruct (key_of k ri) as [[ky' x]|]; [|exact IH].
    cbn [filter fst]. destruct (keqb ky' ky); [cbn [map snd]; f_equal|]; exact IH.
  Qed.

  Lemma under_shape k ky ri x : under k ky ri = Some x ->
    fst ri = (if is_dyn k then AD (fst ky) (snd ky) else AW (fst ky) (snd ky)) :: fst x.
  Proof.
    unfold under. destruct (key_of k ri) as [[ky' x']|] eqn:E; [|discriminate].
    destruct (keqb ky' ky) eqn:Ek; [|discriminate]. apply keqb_eq in Ek. subst ky'.
    intros H; inversion H; subst. apply key_of_shape in E. apply E.
  Qed.

  Theorem walk_perm : forall f rs1 rs2 p,
    Permutation rs1 rs2 -> NoDup (map fst rs1) -> walk chk f rs1 p = walk chk f rs2 p.
  Proof.
    induction f as [|f IH]; intros rs1 rs2 p Hp Hn; [reflexivity|].
    rewrite !walk_S. destruct p as [|b rest]; [apply done_perm; assumption|].
    f_equal.
    - apply IH.
      + apply filter_map_perm. exact Hp.
      + apply NoDup_fst_filter_map with (h := cons (AB b)); [intros r1 r2 H; inversion H; reflexivity| |exact Hn].
        intros a x Hs. apply strip_some in Hs. apply Hs.
    - apply first_some_ext. intros k _.
      rewrite !groups_gfold.
      rewrite (gfold_char (filter_map (key_of k) rs1)), (gfold_char (filter_map (key_of k) rs2)).
      rewrite (gfold_keys_perm _ _ (filter_map_perm (key_of k) _ _ Hp)).
      rewrite !first_some_map. apply first_some_ext. intros [ky g0] _. cbn [fst snd].
      apply pick_ext. intros c _. rewrite !sel_under. apply IH.
      + apply filter_map_perm. exact Hp.
      + apply NoDup_fst_filter_map with (h := cons (if is_dyn k then AD (fst ky) (snd ky) else AW (fst ky) (snd ky)));
          [intros r1 r2 H; inversion H; reflexivity| |exact Hn].
        intros a x Hu. apply under_shape in Hu. exact Hu.
  Qed.

  Corollary W_perm rs1 rs2 p : Permutation rs1 rs2 -> NoDup (map fst rs1) -> W chk rs1 p = W chk rs2 p.
  Proof. intros. unfold W. apply walk_perm; assumption. Qed.
End P.
